(* C07 — a torn final write is tolerated like a clean crash (pinned statements, generated from the types Coq
   reports for the lemmas of Crash.v and OplogFacts.v).
   Proved at the level of the oplog file content and Oplog::open: a log ENTRY torn at any byte is ignored and cut
   off by open — with no checksum argument at all (the length field says more bytes than are there); a HEADER
   write torn at any byte t reopens to the state before, or to the state after (when the whole frame arrived and
   only padding is missing), or two different byte strings with the same CRC-32 are exhibited (the honest escape
   clause of a 32-bit checksum; for t >= 8 they have equal length); the same for both slot writes of
   make_read_only; a torn creation reopens as empty storage. A torn write followed by the rest of the write is
   the whole write (tear_prefix), so recovery composes with a retry.
   Side condition, stated in the theorems: a tear inside the 4-byte CRC field (t <= 4) of a slot that was ALREADY
   invalid needs that slot to be `slot_dead` (true of the zero-filled slot of a fresh log, proved); for an
   arbitrary invalid slot a coincidence of one CRC byte can resurrect a third header — Crash.v contains the
   counterexample (torn_crc_field_counterexample). This needs two torn crashes in a row and is recorded in
   DESIGN 12.5.
   Partial: torn writes to the tree / bitfield / data stores are not in these theorems (a torn page or node is
   re-derived by replay: C08_replay_exact, DESIGN 5.1); tools/c07.py tears every write of every generated
   history at every byte (<= 64 bytes) or at framing/sector boundaries and random cuts, on crate and model. *)
From HC Require Import Base NMap Codec CodecFacts Crypto Storage Bitfield Oplog OplogFacts StorageFacts Crash.

Theorem C07_torn_entry_is_no_frame :
  forall (cr : crypto) (bit partial : bool) (payload fr : bytes) (t : nat),
         frame cr bit partial payload = Ok fr ->
         (t < Datatypes.length fr)%nat -> validate_leader cr (firstn t fr) = None.
Proof. exact validate_torn_entry_strong. Qed.

Theorem C07_torn_append_recovers_before :
  forall cr : crypto,
         crc_ok cr ->
         forall (s0 s1 body : bytes) (st0 st1 : slot_state) (bits : bool * bool) (hc : header) 
           (l : list entry) (e : entry) (o' : oplog) (ops : list sop),
         good cr s0 s1 body st0 st1 bits hc l ->
         entry_ok e = true ->
         oplog_append cr (oo_oplog (stable_result bits hc l)) e = Ok (o', ops) ->
         let c := s0 ++ s1 ++ body in
         exists fr : bytes,
           ops = [SW Oplog (len c) fr] /\
           oplog_open cr None c = Ok (stable_result bits hc l) /\
           c_write c (len c) fr = s0 ++ s1 ++ body ++ fr /\
           good cr s0 s1 (body ++ fr) st0 st1 bits hc (l ++ [e]) /\
           oplog_open cr None (c_write c (len c) fr) = Ok (stable_result bits hc (l ++ [e])) /\
           o' = oo_oplog (stable_result bits hc (l ++ [e])) /\
           (forall t : nat,
            (t < Datatypes.length fr)%nat ->
            oplog_open cr None (c_write c (len c) (firstn t fr)) =
            Ok
              {|
                oo_oplog := oo_oplog (stable_result bits hc l);
                oo_header := hc;
                oo_ops := if 0 <? N.of_nat t then [ST Oplog (len c)] else [];
                oo_entries := l
              |} /\ c_truncate (c_write c (len c) (firstn t fr)) (len c) = c).
Proof. exact append_crash. Qed.

Theorem C07_torn_flush_before_after_or_collision :
  forall cr : crypto,
         crc_ok cr ->
         forall (s0 s1 body : bytes) (st0 st1 : slot_state) (bits : bool * bool) (hc : header) 
           (l : list entry) (hn : header) (o o' : oplog) (slot : N) (buf : bytes) (tr : sop) 
           (t : nat),
         good cr s0 s1 body st0 st1 bits hc l ->
         header_ok hn = true ->
         hdr_fits false hn ->
         ol_bits o = bits ->
         oplog_flush cr o hn false = Ok (o', [SW Oplog slot buf; tr]) ->
         (t <= Datatypes.length buf)%nat ->
         ((t <= 4)%nat ->
          (if slot =? 0 then st0 else st1) = SInvalid -> slot_dead cr (if slot =? 0 then s0 else s1)) ->
         forall c' : bytes,
         c_apply (s0 ++ s1 ++ body) (tear (SW Oplog slot buf) t) = Some c' ->
         oplog_open cr None c' = Ok (stable_result bits hc l) \/
         oplog_open cr None c' =
         Ok
           {|
             oo_oplog := o';
             oo_header := hn;
             oo_ops := if 0 <? len body then [ST Oplog ENTRIES_OFFSET] else [];
             oo_entries := []
           |} \/ collision cr t.
Proof. exact flush_torn. Qed.

Theorem C07_torn_header_invalid_falls_back :
  forall cr : crypto,
         crc_ok cr ->
         forall (s0 s1 body : bytes) (st0 st1 : slot_state) (bits : bool * bool) (hc : header) 
           (l : list entry) (hn : header) (eb : N) (ct : bool) (bits' : bool * bool) 
           (slot : N) (buf : bytes) (tr : sop) (t : nat),
         good cr s0 s1 body st0 st1 bits hc l ->
         hdr_fits ct hn ->
         insert_header cr hn eb bits ct = Ok (bits', [SW Oplog slot buf; tr]) ->
         (t <= Datatypes.length buf)%nat ->
         validate_leader cr (overlay (firstn t buf) (if slot =? 0 then s0 else s1)) = None ->
         forall c' : bytes,
         c_apply (s0 ++ s1 ++ body) (tear (SW Oplog slot buf) t) = Some c' ->
         oplog_open cr None c' = Ok (stable_result bits hc l).
Proof. exact header_write_torn_invalid. Qed.

Theorem C07_torn_header_in_padding_is_after :
  forall cr : crypto,
         crc_ok cr ->
         forall (s0 s1 body : bytes) (st0 st1 : slot_state) (bits : bool * bool) (hc : header) 
           (l : list entry) (hn : header) (eb : N) (ct : bool) (bits' : bool * bool) 
           (slot : N) (buf : bytes) (tr : sop) (t : nat) (fr : bytes),
         good cr s0 s1 body st0 st1 bits hc l ->
         header_ok hn = true ->
         hdr_fits ct hn ->
         insert_header cr hn eb bits ct = Ok (bits', [SW Oplog slot buf; tr]) ->
         frame cr (w_bit bits) false (enc_header hn) = Ok fr ->
         (Datatypes.length fr <= t)%nat ->
         (t <= Datatypes.length buf)%nat ->
         forall c' : bytes,
         c_apply (s0 ++ s1 ++ body) (tear (SW Oplog slot buf) t) = Some c' ->
         oplog_open cr None c' =
         Ok
           {|
             oo_oplog := {| ol_bits := bits'; ol_entries_len := 0; ol_entries_bytes := 0 |};
             oo_header := hn;
             oo_ops := if 0 <? len body then [ST Oplog ENTRIES_OFFSET] else [];
             oo_entries := []
           |}.
Proof. exact header_write_torn_in_padding. Qed.

Theorem C07_torn_make_read_only :
  forall cr : crypto,
         crc_ok cr ->
         forall (s0 s1 body : bytes) (st0 st1 : slot_state) (bits : bool * bool) (hc : header) 
           (l : list entry) (hn : header) (o o' : oplog) (sl1 : N) (buf1 : bytes) (tr1 : sop) 
           (sl2 : N) (buf2 : bytes) (tr2 : sop),
         good cr s0 s1 body st0 st1 bits hc l ->
         header_ok hn = true ->
         ol_bits o = bits ->
         oplog_flush cr o hn true = Ok (o', [SW Oplog sl1 buf1; tr1; SW Oplog sl2 buf2; tr2]) ->
         (forall (t : nat) (c' : bytes),
          (t <= Datatypes.length buf1)%nat ->
          ((t <= 4)%nat ->
           (if sl1 =? 0 then st0 else st1) = SInvalid -> slot_dead cr (if sl1 =? 0 then s0 else s1)) ->
          c_apply (s0 ++ s1 ++ body) (tear (SW Oplog sl1 buf1) t) = Some c' ->
          oplog_open cr None c' = Ok (stable_result bits hc l) \/
          (exists bits1 : bool * bool,
             oplog_open cr None c' =
             Ok
               {|
                 oo_oplog := {| ol_bits := bits1; ol_entries_len := 0; ol_entries_bytes := 0 |};
                 oo_header := hn;
                 oo_ops := if 0 <? len body then [ST Oplog ENTRIES_OFFSET] else [];
                 oo_entries := []
               |}) \/ collision cr t) /\
         (forall (c2 : bytes) (t : nat) (c' : bytes),
          c_apply_all (s0 ++ s1 ++ body) [SW Oplog sl1 buf1; tr1] = Some c2 ->
          (t <= Datatypes.length buf2)%nat ->
          c_apply c2 (tear (SW Oplog sl2 buf2) t) = Some c' ->
          (exists bits2 : bool * bool, oplog_open cr None c' = Ok (stable_result bits2 hn [])) \/
          collision cr t).
Proof. exact read_only_torn. Qed.

Theorem C07_torn_creation_is_empty :
  forall cr : crypto,
         crc_ok cr ->
         forall kp : keypair,
         keypair_ok kp = true ->
         exists (buf : bytes) (s0 : list N),
           oplog_fresh cr kp =
           Ok
             ({| ol_bits := (false, false); ol_entries_len := 0; ol_entries_bytes := 0 |}, 
              header_new kp, [SW Oplog 0 buf; ST Oplog (ENTRIES_OFFSET + 0)]) /\
           (forall t : nat, oplog_open cr None (c_write [] 0 (firstn t buf)) = Err EmptyStorage) /\
           oplog_open cr None (c_write [] 0 buf) = Err EmptyStorage /\
           c_apply_all [] [SW Oplog 0 buf; ST Oplog (ENTRIES_OFFSET + 0)] = Some (s0 ++ zeros SLOT ++ []) /\
           good cr s0 (zeros SLOT) [] (SValid (header_new kp) false) SInvalid (false, false) (header_new kp) [] /\
           slot_dead cr (zeros SLOT) /\
           oplog_open cr None (s0 ++ zeros SLOT ++ []) = Ok (stable_result (false, false) (header_new kp) []).
Proof. exact oplog_fresh_then_open. Qed.

Theorem C07_torn_then_rest_is_whole_write :
  forall (d : disk) (s : store) (off : N) (data : list N) (t : nat),
         (t <= Datatypes.length data)%nat ->
         exists d1 d2 d3 : disk,
           apply_sop d (tear (SW s off data) t) = Some d1 /\
           apply_sop d1 (SW s (off + N.of_nat t) (skipn t data)) = Some d2 /\
           apply_sop d (SW s off data) = Some d3 /\ deq d2 d3.
Proof. exact tear_prefix. Qed.

Theorem C07_invalid_slot_keeps_current :
  forall bits : bool * bool,
         reachable bits ->
         let
         '(slot, _, _) := next_slot bits in
          torn_bits bits = bits /\
          current_bit (torn_bits bits) = current_bit bits /\
          (eqb (fst (torn_bits bits)) (snd (torn_bits bits)) = true <-> slot = HEADER_SIZE).
Proof. exact invalid_other_slot. Qed.

Print Assumptions C07_torn_entry_is_no_frame.
Print Assumptions C07_torn_append_recovers_before.
Print Assumptions C07_torn_flush_before_after_or_collision.
Print Assumptions C07_torn_header_invalid_falls_back.
Print Assumptions C07_torn_header_in_padding_is_after.
Print Assumptions C07_torn_make_read_only.
Print Assumptions C07_torn_creation_is_empty.
Print Assumptions C07_torn_then_rest_is_whole_write.
Print Assumptions C07_invalid_slot_keeps_current.

(* ADDED IN THE THIRD ROUND (TornCoreA/B.v, TornCore.v): torn writes over ALL FOUR stores for the append/reopen fragment — every write of an append
   torn at every byte recovers (C07_torn_write_of_an_append_recovers, C07_torn_non_header_write_recovers, C07_history_with_torn_crashes).
   ---- header of the earlier rounds: ---- *)
(* C07 — a torn final write is tolerated like a clean crash (pinned statements, generated from the types Coq
   reports for the lemmas of Crash.v and OplogFacts.v).
   Proved at the level of the oplog file content and Oplog::open: a log ENTRY torn at any byte is ignored and cut
   off by open — with no checksum argument at all (the length field says more bytes than are there); a HEADER
   write torn at any byte t reopens to the state before, or to the state after (when the whole frame arrived and
   only padding is missing), or two different byte strings with the same CRC-32 are exhibited (the honest escape
   clause of a 32-bit checksum; for t >= 8 they have equal length); the same for both slot writes of
   make_read_only; a torn creation reopens as empty storage. A torn write followed by the rest of the write is
   the whole write (tear_prefix), so recovery composes with a retry.
   Side condition, stated in the theorems: a tear inside the 4-byte CRC field (t <= 4) of a slot that was ALREADY
   invalid needs that slot to be `slot_dead` (true of the zero-filled slot of a fresh log, proved); for an
   arbitrary invalid slot a coincidence of one CRC byte can resurrect a third header — Crash.v contains the
   counterexample (torn_crc_field_counterexample). This needs two torn crashes in a row and is recorded in
   DESIGN 12.5.
   Partial: torn writes to the tree / bitfield / data stores are not in these theorems (a torn page or node is
   re-derived by replay: C08_replay_exact, DESIGN 5.1); tools/c07.py tears every write of every generated
   history at every byte (<= 64 bytes) or at framing/sector boundaries and random cuts, on crate and model. *)
From HC Require Import HonestTornHistEx.
From HC Require Import HonestTornHistA HonestTornHistB HonestTornHistC HonestTornHist.
From HC Require Import HonestCrash1 HonestCrash2 HonestTorn.
From HC Require Import SoundCoreLib SoundCore ReplicaDisk1 ReplicaDisk3 ReplicaDisk5 TornReplicaA TornReplicaB TornReplica.
From HC Require Import ClearRefine Unified1 CrashClear1 CrashClear3 TornClear TornHistory.
From HC Require Import ClearRefine Unified1 CrashClear1 TornClear.
From HC Require Import FlatTree Merkle Core Refine Reopen CrashCore1 CrashCore2 CrashCore3 TornCoreA TornCoreB TornCore.
From HC Require Import Base NMap Codec CodecFacts Crypto Storage Bitfield Oplog OplogFacts StorageFacts Crash.

Theorem C07_torn_entry_is_no_frame :
  forall (cr : crypto) (bit partial : bool) (payload fr : bytes) (t : nat),
         frame cr bit partial payload = Ok fr ->
         (t < Datatypes.length fr)%nat -> validate_leader cr (firstn t fr) = None.
Proof. exact validate_torn_entry_strong. Qed.

Theorem C07_torn_append_recovers_before :
  forall cr : crypto,
         crc_ok cr ->
         forall (s0 s1 body : bytes) (st0 st1 : slot_state) (bits : bool * bool) (hc : header) 
           (l : list entry) (e : entry) (o' : oplog) (ops : list sop),
         good cr s0 s1 body st0 st1 bits hc l ->
         entry_ok e = true ->
         oplog_append cr (oo_oplog (stable_result bits hc l)) e = Ok (o', ops) ->
         let c := s0 ++ s1 ++ body in
         exists fr : bytes,
           ops = [SW Oplog (len c) fr] /\
           oplog_open cr None c = Ok (stable_result bits hc l) /\
           c_write c (len c) fr = s0 ++ s1 ++ body ++ fr /\
           good cr s0 s1 (body ++ fr) st0 st1 bits hc (l ++ [e]) /\
           oplog_open cr None (c_write c (len c) fr) = Ok (stable_result bits hc (l ++ [e])) /\
           o' = oo_oplog (stable_result bits hc (l ++ [e])) /\
           (forall t : nat,
            (t < Datatypes.length fr)%nat ->
            oplog_open cr None (c_write c (len c) (firstn t fr)) =
            Ok
              {|
                oo_oplog := oo_oplog (stable_result bits hc l);
                oo_header := hc;
                oo_ops := if 0 <? N.of_nat t then [ST Oplog (len c)] else [];
                oo_entries := l
              |} /\ c_truncate (c_write c (len c) (firstn t fr)) (len c) = c).
Proof. exact append_crash. Qed.

Theorem C07_torn_flush_before_after_or_collision :
  forall cr : crypto,
         crc_ok cr ->
         forall (s0 s1 body : bytes) (st0 st1 : slot_state) (bits : bool * bool) (hc : header) 
           (l : list entry) (hn : header) (o o' : oplog) (slot : N) (buf : bytes) (tr : sop) 
           (t : nat),
         good cr s0 s1 body st0 st1 bits hc l ->
         header_ok hn = true ->
         hdr_fits false hn ->
         ol_bits o = bits ->
         oplog_flush cr o hn false = Ok (o', [SW Oplog slot buf; tr]) ->
         (t <= Datatypes.length buf)%nat ->
         ((t <= 4)%nat ->
          (if slot =? 0 then st0 else st1) = SInvalid -> slot_dead cr (if slot =? 0 then s0 else s1)) ->
         forall c' : bytes,
         c_apply (s0 ++ s1 ++ body) (tear (SW Oplog slot buf) t) = Some c' ->
         oplog_open cr None c' = Ok (stable_result bits hc l) \/
         oplog_open cr None c' =
         Ok
           {|
             oo_oplog := o';
             oo_header := hn;
             oo_ops := if 0 <? len body then [ST Oplog ENTRIES_OFFSET] else [];
             oo_entries := []
           |} \/ collision cr t.
Proof. exact flush_torn. Qed.

Theorem C07_torn_header_invalid_falls_back :
  forall cr : crypto,
         crc_ok cr ->
         forall (s0 s1 body : bytes) (st0 st1 : slot_state) (bits : bool * bool) (hc : header) 
           (l : list entry) (hn : header) (eb : N) (ct : bool) (bits' : bool * bool) 
           (slot : N) (buf : bytes) (tr : sop) (t : nat),
         good cr s0 s1 body st0 st1 bits hc l ->
         hdr_fits ct hn ->
         insert_header cr hn eb bits ct = Ok (bits', [SW Oplog slot buf; tr]) ->
         (t <= Datatypes.length buf)%nat ->
         validate_leader cr (overlay (firstn t buf) (if slot =? 0 then s0 else s1)) = None ->
         forall c' : bytes,
         c_apply (s0 ++ s1 ++ body) (tear (SW Oplog slot buf) t) = Some c' ->
         oplog_open cr None c' = Ok (stable_result bits hc l).
Proof. exact header_write_torn_invalid. Qed.

Theorem C07_torn_header_in_padding_is_after :
  forall cr : crypto,
         crc_ok cr ->
         forall (s0 s1 body : bytes) (st0 st1 : slot_state) (bits : bool * bool) (hc : header) 
           (l : list entry) (hn : header) (eb : N) (ct : bool) (bits' : bool * bool) 
           (slot : N) (buf : bytes) (tr : sop) (t : nat) (fr : bytes),
         good cr s0 s1 body st0 st1 bits hc l ->
         header_ok hn = true ->
         hdr_fits ct hn ->
         insert_header cr hn eb bits ct = Ok (bits', [SW Oplog slot buf; tr]) ->
         frame cr (w_bit bits) false (enc_header hn) = Ok fr ->
         (Datatypes.length fr <= t)%nat ->
         (t <= Datatypes.length buf)%nat ->
         forall c' : bytes,
         c_apply (s0 ++ s1 ++ body) (tear (SW Oplog slot buf) t) = Some c' ->
         oplog_open cr None c' =
         Ok
           {|
             oo_oplog := {| ol_bits := bits'; ol_entries_len := 0; ol_entries_bytes := 0 |};
             oo_header := hn;
             oo_ops := if 0 <? len body then [ST Oplog ENTRIES_OFFSET] else [];
             oo_entries := []
           |}.
Proof. exact header_write_torn_in_padding. Qed.

Theorem C07_torn_make_read_only :
  forall cr : crypto,
         crc_ok cr ->
         forall (s0 s1 body : bytes) (st0 st1 : slot_state) (bits : bool * bool) (hc : header) 
           (l : list entry) (hn : header) (o o' : oplog) (sl1 : N) (buf1 : bytes) (tr1 : sop) 
           (sl2 : N) (buf2 : bytes) (tr2 : sop),
         good cr s0 s1 body st0 st1 bits hc l ->
         header_ok hn = true ->
         ol_bits o = bits ->
         oplog_flush cr o hn true = Ok (o', [SW Oplog sl1 buf1; tr1; SW Oplog sl2 buf2; tr2]) ->
         (forall (t : nat) (c' : bytes),
          (t <= Datatypes.length buf1)%nat ->
          ((t <= 4)%nat ->
           (if sl1 =? 0 then st0 else st1) = SInvalid -> slot_dead cr (if sl1 =? 0 then s0 else s1)) ->
          c_apply (s0 ++ s1 ++ body) (tear (SW Oplog sl1 buf1) t) = Some c' ->
          oplog_open cr None c' = Ok (stable_result bits hc l) \/
          (exists bits1 : bool * bool,
             oplog_open cr None c' =
             Ok
               {|
                 oo_oplog := {| ol_bits := bits1; ol_entries_len := 0; ol_entries_bytes := 0 |};
                 oo_header := hn;
                 oo_ops := if 0 <? len body then [ST Oplog ENTRIES_OFFSET] else [];
                 oo_entries := []
               |}) \/ collision cr t) /\
         (forall (c2 : bytes) (t : nat) (c' : bytes),
          c_apply_all (s0 ++ s1 ++ body) [SW Oplog sl1 buf1; tr1] = Some c2 ->
          (t <= Datatypes.length buf2)%nat ->
          c_apply c2 (tear (SW Oplog sl2 buf2) t) = Some c' ->
          (exists bits2 : bool * bool, oplog_open cr None c' = Ok (stable_result bits2 hn [])) \/
          collision cr t).
Proof. exact read_only_torn. Qed.

Theorem C07_torn_creation_is_empty :
  forall cr : crypto,
         crc_ok cr ->
         forall kp : keypair,
         keypair_ok kp = true ->
         exists (buf : bytes) (s0 : list N),
           oplog_fresh cr kp =
           Ok
             ({| ol_bits := (false, false); ol_entries_len := 0; ol_entries_bytes := 0 |}, 
              header_new kp, [SW Oplog 0 buf; ST Oplog (ENTRIES_OFFSET + 0)]) /\
           (forall t : nat, oplog_open cr None (c_write [] 0 (firstn t buf)) = Err EmptyStorage) /\
           oplog_open cr None (c_write [] 0 buf) = Err EmptyStorage /\
           c_apply_all [] [SW Oplog 0 buf; ST Oplog (ENTRIES_OFFSET + 0)] = Some (s0 ++ zeros SLOT ++ []) /\
           good cr s0 (zeros SLOT) [] (SValid (header_new kp) false) SInvalid (false, false) (header_new kp) [] /\
           slot_dead cr (zeros SLOT) /\
           oplog_open cr None (s0 ++ zeros SLOT ++ []) = Ok (stable_result (false, false) (header_new kp) []).
Proof. exact oplog_fresh_then_open. Qed.

Theorem C07_torn_then_rest_is_whole_write :
  forall (d : disk) (s : store) (off : N) (data : list N) (t : nat),
         (t <= Datatypes.length data)%nat ->
         exists d1 d2 d3 : disk,
           apply_sop d (tear (SW s off data) t) = Some d1 /\
           apply_sop d1 (SW s (off + N.of_nat t) (skipn t data)) = Some d2 /\
           apply_sop d (SW s off data) = Some d3 /\ deq d2 d3.
Proof. exact tear_prefix. Qed.

Theorem C07_invalid_slot_keeps_current :
  forall bits : bool * bool,
         reachable bits ->
         let
         '(slot, _, _) := next_slot bits in
          torn_bits bits = bits /\
          current_bit (torn_bits bits) = current_bit bits /\
          (eqb (fst (torn_bits bits)) (snd (torn_bits bits)) = true <-> slot = HEADER_SIZE).
Proof. exact invalid_other_slot. Qed.

Theorem C07_torn_write_of_an_append_recovers :
  forall cr : crypto,
         crc_ok cr ->
         (forall x : bytes, Datatypes.length (cr_hash cr x) = 32%nat) ->
         (forall x : bytes, all_zero (cr_hash cr x) = false) ->
         (forall x : bytes, bytes_ok (cr_hash cr x) = true) ->
         (forall sk m : bytes, Datatypes.length (cr_sign cr sk m) = 64%nat) ->
         (forall sk m : bytes, bytes_ok (cr_sign cr sk m) = true) ->
         forall (f : option bool) (batch : list bytes) (c : core) (d : disk) (j : list sop) 
           (ev : list event) (bs : list bytes) (sk : bytes) (c' : core) (w' : world) 
           (x : N * N) (delta : list sop),
         YInv cr c d bs ->
         kp_secret (c_keypair c) = Some sk ->
         sumN (map len (bs ++ batch)) <= u64_max ->
         NODE_SIZE * (2 * N.of_nat (Datatypes.length (bs ++ batch))) <= u64_max ->
         core_append cr f batch c {| w_disk := d; w_journal := j; w_events := ev |} = (c', w', Ok x) ->
         w_journal w' = rev delta ++ j ->
         forall (k : nat) (s : store) (off : N) (data : bytes) (t : nat),
         nth_error delta k = Some (SW s off data) ->
         (t < Datatypes.length data)%nat ->
         exists dk dkt : disk,
           apply_sops d (firstn k delta) = Some dk /\
           apply_sop dk (tear (SW s off data) t) = Some dkt /\
           (tear_safe cr dk (SW s off data) t ->
            recovers cr (c_keypair c) dkt (if (k <? 2)%nat then bs else bs ++ batch) \/
            s = Oplog /\ off < ENTRIES_OFFSET /\ collision cr t).
Proof. exact append_torn_recovers. Qed.

Theorem C07_torn_non_header_write_recovers :
  forall cr : crypto,
         crc_ok cr ->
         (forall x : bytes, Datatypes.length (cr_hash cr x) = 32%nat) ->
         (forall x : bytes, all_zero (cr_hash cr x) = false) ->
         (forall x : bytes, bytes_ok (cr_hash cr x) = true) ->
         (forall sk m : bytes, Datatypes.length (cr_sign cr sk m) = 64%nat) ->
         (forall sk m : bytes, bytes_ok (cr_sign cr sk m) = true) ->
         forall (f : option bool) (batch : list bytes) (c : core) (d : disk) (j : list sop) 
           (ev : list event) (bs : list bytes) (sk : bytes) (c' : core) (w' : world) 
           (x : N * N) (delta : list sop),
         YInv cr c d bs ->
         kp_secret (c_keypair c) = Some sk ->
         sumN (map len (bs ++ batch)) <= u64_max ->
         NODE_SIZE * (2 * N.of_nat (Datatypes.length (bs ++ batch))) <= u64_max ->
         core_append cr f batch c {| w_disk := d; w_journal := j; w_events := ev |} = (c', w', Ok x) ->
         w_journal w' = rev delta ++ j ->
         forall (k : nat) (s : store) (off : N) (data : bytes) (t : nat),
         nth_error delta k = Some (SW s off data) ->
         (t < Datatypes.length data)%nat ->
         is_slot_write (SW s off data) = false ->
         exists dk dkt : disk,
           apply_sops d (firstn k delta) = Some dk /\
           apply_sop dk (tear (SW s off data) t) = Some dkt /\
           recovers cr (c_keypair c) dkt (if (k <? 2)%nat then bs else bs ++ batch).
Proof. exact append_torn_recovers_plain. Qed.

Theorem C07_torn_write_observations :
  forall cr : crypto,
         crc_ok cr ->
         (forall x : bytes, Datatypes.length (cr_hash cr x) = 32%nat) ->
         (forall x : bytes, all_zero (cr_hash cr x) = false) ->
         (forall x : bytes, bytes_ok (cr_hash cr x) = true) ->
         (forall sk m : bytes, Datatypes.length (cr_sign cr sk m) = 64%nat) ->
         (forall sk m : bytes, bytes_ok (cr_sign cr sk m) = true) ->
         forall (f : option bool) (batch : list bytes) (c : core) (d : disk) (j : list sop) 
           (ev : list event) (bs : list bytes) (sk : bytes) (c' : core) (w' : world) 
           (x : N * N) (delta : list sop),
         YInv cr c d bs ->
         kp_secret (c_keypair c) = Some sk ->
         sumN (map len (bs ++ batch)) <= u64_max ->
         NODE_SIZE * (2 * N.of_nat (Datatypes.length (bs ++ batch))) <= u64_max ->
         core_append cr f batch c {| w_disk := d; w_journal := j; w_events := ev |} = (c', w', Ok x) ->
         w_journal w' = rev delta ++ j ->
         forall (k : nat) (s : store) (off : N) (data : bytes) (t : nat),
         nth_error delta k = Some (SW s off data) ->
         (t < Datatypes.length data)%nat ->
         exists dk dkt : disk,
           apply_sops d (firstn k delta) = Some dk /\
           apply_sop dk (tear (SW s off data) t) = Some dkt /\
           (tear_safe cr dk (SW s off data) t ->
            (exists (ck : core) (dk' : disk) (ops : list sop),
               core_open cr None true dkt = (dk', ops, Ok ck) /\
               (obs_list ck dk' bs \/ obs_list ck dk' (bs ++ batch))) \/
            s = Oplog /\ off < ENTRIES_OFFSET /\ collision cr t).
Proof. exact append_torn_observations. Qed.

Theorem C07_torn_data_write_of_panicking_append :
  forall cr : crypto,
         crc_ok cr ->
         (forall x : bytes, Datatypes.length (cr_hash cr x) = 32%nat) ->
         (forall x : bytes, all_zero (cr_hash cr x) = false) ->
         (forall x : bytes, bytes_ok (cr_hash cr x) = true) ->
         (forall sk m : bytes, Datatypes.length (cr_sign cr sk m) = 64%nat) ->
         (forall sk m : bytes, bytes_ok (cr_sign cr sk m) = true) ->
         forall (f : option bool) (batch : list bytes) (c : core) (d : disk) (j : list sop) 
           (ev : list event) (bs : list bytes) (sk : bytes) (c' : core) (w' : world) 
           (s : string),
         YInv cr c d bs ->
         kp_secret (c_keypair c) = Some sk ->
         sumN (map len (bs ++ batch)) <= u64_max ->
         NODE_SIZE * (2 * N.of_nat (Datatypes.length (bs ++ batch))) <= u64_max ->
         core_append cr f batch c {| w_disk := d; w_journal := j; w_events := ev |} = (c', w', Panic s) ->
         s = frame_msg /\
         c' = c /\
         w_events w' = ev /\
         (exists o : sop,
            w_journal w' = o :: j /\
            apply_sop d o = Some (w_disk w') /\
            recovers cr (c_keypair c) (w_disk w') bs /\
            (forall t : nat,
             exists dt : disk, apply_sop d (tear o t) = Some dt /\ recovers cr (c_keypair c) dt bs)).
Proof. exact append_panic_torn_recovers. Qed.

Theorem C07_history_with_torn_crashes :
  forall cr : crypto,
         crc_ok cr ->
         (forall x : bytes, Datatypes.length (cr_hash cr x) = 32%nat) ->
         (forall x : bytes, all_zero (cr_hash cr x) = false) ->
         (forall x : bytes, bytes_ok (cr_hash cr x) = true) ->
         (forall sk m : bytes, Datatypes.length (cr_sign cr sk m) = 64%nat) ->
         (forall sk m : bytes, bytes_ok (cr_sign cr sk m) = true) ->
         forall (ops : list top) (c : core) (d : disk) (j : list sop) (ev : list event) 
           (bs : list bytes) (sk : bytes),
         YInv cr c d bs ->
         kp_secret (c_keypair c) = Some sk ->
         sumN (map len (bs ++ tappended ops)) <= u64_max ->
         NODE_SIZE * (2 * N.of_nat (Datatypes.length (bs ++ tappended ops))) <= u64_max ->
         trun_safe cr ops c {| w_disk := d; w_journal := j; w_events := ev |} ->
         trun_obs cr ops c {| w_disk := d; w_journal := j; w_events := ev |} = tspec_obs ops bs \/
         (exists k : nat,
            trun_obs cr ops c {| w_disk := d; w_journal := j; w_events := ev |} =
            firstn k (tspec_obs ops bs) ++ [XOAppend (Panic frame_msg)]) \/ (exists t : nat, collision cr t).
Proof. exact torn_history_correct. Qed.

Theorem C07_fresh_history_with_torn_crashes :
  forall cr : crypto,
         crc_ok cr ->
         (forall x : bytes, Datatypes.length (cr_hash cr x) = 32%nat) ->
         (forall x : bytes, all_zero (cr_hash cr x) = false) ->
         (forall x : bytes, bytes_ok (cr_hash cr x) = true) ->
         (forall sk m : bytes, Datatypes.length (cr_sign cr sk m) = 64%nat) ->
         (forall sk m : bytes, bytes_ok (cr_sign cr sk m) = true) ->
         forall (kp : keypair) (sk : bytes) (ops : list top),
         keypair_ok kp = true ->
         kp_secret kp = Some sk ->
         sumN (map len (tappended ops)) <= u64_max ->
         NODE_SIZE * (2 * N.of_nat (Datatypes.length (tappended ops))) <= u64_max ->
         tears_ok false ops ->
         exists (d0 : disk) (ops0 : list sop) (c0 : core),
           core_open cr (Some kp) false disk_empty = (d0, ops0, Ok c0) /\
           (trun_obs cr ops c0 {| w_disk := d0; w_journal := []; w_events := [] |} = tspec_obs ops [] \/
            (exists k : nat,
               trun_obs cr ops c0 {| w_disk := d0; w_journal := []; w_events := [] |} =
               firstn k (tspec_obs ops []) ++ [XOAppend (Panic frame_msg)]) \/ (exists t : nat, collision cr t)).
Proof. exact fresh_torn_history_correct. Qed.

Theorem C07_tears_side_condition :
  forall cr : crypto,
         crc_ok cr ->
         (forall x : bytes, Datatypes.length (cr_hash cr x) = 32%nat) ->
         (forall x : bytes, all_zero (cr_hash cr x) = false) ->
         (forall x : bytes, bytes_ok (cr_hash cr x) = true) ->
         (forall sk m : bytes, Datatypes.length (cr_sign cr sk m) = 64%nat) ->
         (forall sk m : bytes, bytes_ok (cr_sign cr sk m) = true) ->
         forall (ops : list top) (seen : bool) (c : core) (d : disk) (j : list sop) 
           (ev : list event) (bs : list bytes) (sk : bytes),
         tears_ok seen ops ->
         YInv cr c d bs ->
         kp_secret (c_keypair c) = Some sk ->
         sumN (map len (bs ++ tappended ops)) <= u64_max ->
         NODE_SIZE * (2 * N.of_nat (Datatypes.length (bs ++ tappended ops))) <= u64_max ->
         (seen = false -> hyg cr (f_content (d_oplog d))) ->
         trun_safe cr ops c {| w_disk := d; w_journal := j; w_events := ev |} \/
         (exists t : nat, collision cr t).
Proof. exact tears_ok_safe. Qed.

Theorem C07_torn_tolerant_invariant_at_creation :
  forall cr : crypto,
         crc_ok cr ->
         (forall x : bytes, Datatypes.length (cr_hash cr x) = 32%nat) ->
         (forall x : bytes, all_zero (cr_hash cr x) = false) ->
         (forall x : bytes, bytes_ok (cr_hash cr x) = true) ->
         forall kp : keypair,
         keypair_ok kp = true ->
         exists (d0 : disk) (ops0 : list sop) (c0 : core),
           core_open cr (Some kp) false disk_empty = (d0, ops0, Ok c0) /\
           YInv cr c0 d0 [] /\ c_keypair c0 = kp /\ hyg cr (f_content (d_oplog d0)).
Proof. exact YInv_init. Qed.

Theorem C07_torn_disk_reopens :
  forall cr : crypto,
         crc_ok cr ->
         (forall x : bytes, Datatypes.length (cr_hash cr x) = 32%nat) ->
         (forall x : bytes, all_zero (cr_hash cr x) = false) ->
         (forall x : bytes, bytes_ok (cr_hash cr x) = true) ->
         forall (kp : keypair) (d : disk) (bs : list bytes),
         YDisk cr kp d bs ->
         exists (c' : core) (d' : disk) (ops : list sop),
           core_open cr None true d = (d', ops, Ok c') /\
           YInv cr c' d' bs /\
           c_keypair c' = kp /\
           c_skip c' = 0 /\
           d_tree d' = d_tree d /\
           d_data d' = d_data d /\
           d_bitfield d' = d_bitfield d /\
           (ops = [] /\ d' = d \/ ops = [ST Oplog ENTRIES_OFFSET]) /\
           (hyg cr (f_content (d_oplog d)) -> hyg cr (f_content (d_oplog d'))).
Proof. exact reopen_Y. Qed.

Theorem C07_torn_write_of_a_clear_recovers :
  forall cr : crypto,
         crc_ok cr ->
         (forall x : bytes, Datatypes.length (cr_hash cr x) = 32%nat) ->
         (forall x : bytes, all_zero (cr_hash cr x) = false) ->
         (forall x : bytes, bytes_ok (cr_hash cr x) = true) ->
         forall (f : option bool) (c : core) (d : disk) (j : list sop) (ev : list event) 
           (bs : list bytes) (cl : N -> bool) (start end_ : N) (c' : core) (w' : world) 
           (r : res unit) (delta : list sop),
         let n := N.of_nat (Datatypes.length bs) in
         ZInv cr c d bs cl ->
         start < n ->
         start < end_ ->
         end_ <= u64_max ->
         core_clear cr f start end_ c {| w_disk := d; w_journal := j; w_events := ev |} = (c', w', r) ->
         w_journal w' = rev delta ++ j ->
         r = Ok tt /\
         (forall (k : nat) (s : store) (off : N) (data : bytes) (t : nat),
          nth_error delta k = Some (SW s off data) ->
          (t < Datatypes.length data)%nat ->
          exists dk dkt : disk,
            apply_sops d (firstn k delta) = Some dk /\
            apply_sop dk (tear (SW s off data) t) = Some dkt /\
            (tear_safe cr dk (SW s off data) t ->
             recoversZ cr (c_keypair c) dkt bs (if (k <? 1)%nat then cl else cl_clear cl start end_) \/
             s = Oplog /\ off < ENTRIES_OFFSET /\ collision cr t)).
Proof. exact clear_torn_recovers. Qed.

Theorem C07_torn_non_header_write_of_a_clear_recovers :
  forall cr : crypto,
         crc_ok cr ->
         (forall x : bytes, Datatypes.length (cr_hash cr x) = 32%nat) ->
         (forall x : bytes, all_zero (cr_hash cr x) = false) ->
         (forall x : bytes, bytes_ok (cr_hash cr x) = true) ->
         (forall sk m : bytes, Datatypes.length (cr_sign cr sk m) = 64%nat) ->
         (forall sk m : bytes, bytes_ok (cr_sign cr sk m) = true) ->
         forall (f : option bool) (c : core) (d : disk) (j : list sop) (ev : list event) 
           (bs : list bytes) (cl : N -> bool) (start end_ : N) (c' : core) (w' : world) 
           (r : res unit) (delta : list sop),
         let n := N.of_nat (Datatypes.length bs) in
         ZInv cr c d bs cl ->
         start < n ->
         start < end_ ->
         end_ <= u64_max ->
         core_clear cr f start end_ c {| w_disk := d; w_journal := j; w_events := ev |} = (c', w', r) ->
         w_journal w' = rev delta ++ j ->
         forall (k : nat) (s : store) (off : N) (data : bytes) (t : nat),
         nth_error delta k = Some (SW s off data) ->
         (t < Datatypes.length data)%nat ->
         is_slot_write (SW s off data) = false ->
         exists dk dkt : disk,
           apply_sops d (firstn k delta) = Some dk /\
           apply_sop dk (tear (SW s off data) t) = Some dkt /\
           recoversZ cr (c_keypair c) dkt bs (if (k <? 1)%nat then cl else cl_clear cl start end_).
Proof. exact clear_torn_recovers_plain. Qed.

Theorem C07_torn_write_of_an_append_recovers_with_clears :
  forall cr : crypto,
         crc_ok cr ->
         (forall x : bytes, Datatypes.length (cr_hash cr x) = 32%nat) ->
         (forall x : bytes, all_zero (cr_hash cr x) = false) ->
         (forall x : bytes, bytes_ok (cr_hash cr x) = true) ->
         (forall sk m : bytes, Datatypes.length (cr_sign cr sk m) = 64%nat) ->
         (forall sk m : bytes, bytes_ok (cr_sign cr sk m) = true) ->
         forall (f : option bool) (batch : list bytes) (c : core) (d : disk) (j : list sop) 
           (ev : list event) (bs : list bytes) (cl : N -> bool) (sk : bytes) (c' : core) 
           (w' : world) (x : N * N) (delta : list sop),
         ZInv cr c d bs cl ->
         kp_secret (c_keypair c) = Some sk ->
         sumN (map len (bs ++ batch)) <= u64_max ->
         NODE_SIZE * (2 * N.of_nat (Datatypes.length (bs ++ batch))) <= u64_max ->
         core_append cr f batch c {| w_disk := d; w_journal := j; w_events := ev |} = (c', w', Ok x) ->
         w_journal w' = rev delta ++ j ->
         forall (k : nat) (s : store) (off : N) (data : bytes) (t : nat),
         nth_error delta k = Some (SW s off data) ->
         (t < Datatypes.length data)%nat ->
         exists dk dkt : disk,
           apply_sops d (firstn k delta) = Some dk /\
           apply_sop dk (tear (SW s off data) t) = Some dkt /\
           (tear_safe cr dk (SW s off data) t ->
            (if (k <? 2)%nat
             then recoversZ cr (c_keypair c) dkt bs cl
             else recoversZ cr (c_keypair c) dkt (bs ++ batch) (cl_mask cl (N.of_nat (Datatypes.length bs)))) \/
            s = Oplog /\ off < ENTRIES_OFFSET /\ collision cr t).
Proof. exact append_torn_recovers_Z. Qed.

Theorem C07_torn_write_of_make_read_only_recovers :
  forall cr : crypto,
         crc_ok cr ->
         (forall x : bytes, Datatypes.length (cr_hash cr x) = 32%nat) ->
         (forall x : bytes, all_zero (cr_hash cr x) = false) ->
         (forall x : bytes, bytes_ok (cr_hash cr x) = true) ->
         forall (c : core) (d : disk) (bs : list bytes) (cl : N -> bool),
         ZInv cr c d bs cl ->
         let pub := kp_public (c_keypair c) in
         (forall k : nat,
          exists dk : disk,
            apply_sops d (firstn k (ReadOnly.ro_ops cr c)) = Some dk /\
            recoversZ cr (if (k <=? ReadOnlyClear.ro_np c)%nat then c_keypair c else ReadOnly.ro_keypair c) dk
              bs cl /\ second_call_ok cr pub bs cl dk) /\
         (forall (k : nat) (s : store) (off : N) (data : bytes) (t : nat),
          nth_error (ReadOnly.ro_ops cr c) k = Some (SW s off data) ->
          (t < Datatypes.length data)%nat ->
          exists dk dkt : disk,
            apply_sops d (firstn k (ReadOnly.ro_ops cr c)) = Some dk /\
            apply_sop dk (tear (SW s off data) t) = Some dkt /\
            (tear_safe cr dk (SW s off data) t ->
             ((k <= ReadOnlyClear.ro_np c)%nat /\ recoversZ cr (c_keypair c) dkt bs cl \/
              (ReadOnlyClear.ro_np c <= k)%nat /\ recoversZ cr (ReadOnly.ro_keypair c) dkt bs cl) /\
             second_call_ok cr pub bs cl dkt \/ s = Oplog /\ off < ENTRIES_OFFSET /\ collision cr t)).
Proof. exact make_read_only_torn_Z. Qed.

Theorem C07_merged_invariant_from_crash_states :
  forall (cr : crypto) (c : core) (d : disk) (bs : list bytes) (cl : N -> bool),
         CrashClear1.YInv cr c d bs cl -> TreeOk (d_tree d) -> ZInv cr c d bs cl.
Proof. exact YInv_ZInv. Qed.

Theorem C07_merged_invariant_from_torn_states :
  forall (cr : crypto) (c : core) (d : disk) (bs : list bytes),
         YInv cr c d bs -> ZInv cr c d bs (fun _ : N => false).
Proof. exact TornYInv_ZInv. Qed.

Theorem C07_torn_disk_with_clears_reopens :
  forall cr : crypto,
         crc_ok cr ->
         (forall x : bytes, Datatypes.length (cr_hash cr x) = 32%nat) ->
         (forall x : bytes, all_zero (cr_hash cr x) = false) ->
         (forall x : bytes, bytes_ok (cr_hash cr x) = true) ->
         forall (kp : keypair) (d : disk) (bs : list bytes) (cl : N -> bool),
         ZDisk cr kp d bs cl ->
         exists (c' : core) (d' : disk) (ops : list sop),
           core_open cr None true d = (d', ops, Ok c') /\
           ZInv cr c' d' bs cl /\
           c_keypair c' = kp /\
           c_skip c' = 0 /\
           d_tree d' = d_tree d /\
           d_data d' = d_data d /\
           d_bitfield d' = d_bitfield d /\
           (ops = [] /\ d' = d \/ ops = [ST Oplog ENTRIES_OFFSET]) /\
           (hyg cr (f_content (d_oplog d)) -> hyg cr (f_content (d_oplog d'))).
Proof. exact reopen_Z. Qed.

Theorem C07_history_with_torn_crashes_and_clears :
  forall cr : crypto,
         crc_ok cr ->
         (forall x : bytes, Datatypes.length (cr_hash cr x) = 32%nat) ->
         (forall x : bytes, all_zero (cr_hash cr x) = false) ->
         (forall x : bytes, bytes_ok (cr_hash cr x) = true) ->
         (forall sk m : bytes, Datatypes.length (cr_sign cr sk m) = 64%nat) ->
         (forall sk m : bytes, bytes_ok (cr_sign cr sk m) = true) ->
         forall (ops : list zop) (c : core) (d : disk) (j : list sop) (ev : list event) 
           (bs : list bytes) (cl : N -> bool) (sk : bytes),
         ZInv cr c d bs cl ->
         kp_secret (c_keypair c) = Some sk ->
         wf_z ops (N.of_nat (Datatypes.length bs)) ->
         sumN (map len (bs ++ zappended ops)) <= u64_max ->
         NODE_SIZE * (2 * N.of_nat (Datatypes.length (bs ++ zappended ops))) <= u64_max ->
         zrun_safe cr ops c {| w_disk := d; w_journal := j; w_events := ev |} ->
         zrun cr ops c {| w_disk := d; w_journal := j; w_events := ev |} = zspec ops bs cl \/
         (exists k : nat,
            zrun cr ops c {| w_disk := d; w_journal := j; w_events := ev |} =
            firstn k (zspec ops bs cl) ++ [YOAppend (Panic frame_msg)]) \/ (exists t : nat, collision cr t).
Proof. exact torn_clear_history_correct. Qed.

Theorem C07_fresh_history_with_torn_crashes_and_clears :
  forall cr : crypto,
         crc_ok cr ->
         (forall x : bytes, Datatypes.length (cr_hash cr x) = 32%nat) ->
         (forall x : bytes, all_zero (cr_hash cr x) = false) ->
         (forall x : bytes, bytes_ok (cr_hash cr x) = true) ->
         (forall sk m : bytes, Datatypes.length (cr_sign cr sk m) = 64%nat) ->
         (forall sk m : bytes, bytes_ok (cr_sign cr sk m) = true) ->
         forall (kp : keypair) (sk : bytes) (ops : list zop),
         keypair_ok kp = true ->
         kp_secret kp = Some sk ->
         wf_z ops 0 ->
         sumN (map len (zappended ops)) <= u64_max ->
         NODE_SIZE * (2 * N.of_nat (Datatypes.length (zappended ops))) <= u64_max ->
         ztears_ok false ops ->
         exists (d0 : disk) (ops0 : list sop) (c0 : core),
           core_open cr (Some kp) false disk_empty = (d0, ops0, Ok c0) /\
           (zrun cr ops c0 {| w_disk := d0; w_journal := []; w_events := [] |} =
            zspec ops [] (fun _ : N => false) \/
            (exists k : nat,
               zrun cr ops c0 {| w_disk := d0; w_journal := []; w_events := [] |} =
               firstn k (zspec ops [] (fun _ : N => false)) ++ [YOAppend (Panic frame_msg)]) \/
            (exists t : nat, collision cr t)).
Proof. exact fresh_torn_clear_history_correct. Qed.

Theorem C07_tears_side_condition_with_clears :
  forall cr : crypto,
         crc_ok cr ->
         (forall x : bytes, Datatypes.length (cr_hash cr x) = 32%nat) ->
         (forall x : bytes, all_zero (cr_hash cr x) = false) ->
         (forall x : bytes, bytes_ok (cr_hash cr x) = true) ->
         (forall sk m : bytes, Datatypes.length (cr_sign cr sk m) = 64%nat) ->
         (forall sk m : bytes, bytes_ok (cr_sign cr sk m) = true) ->
         forall (ops : list zop) (seen : bool) (c : core) (d : disk) (j : list sop) 
           (ev : list event) (bs : list bytes) (cl : N -> bool) (sk : bytes),
         ztears_ok seen ops ->
         ZInv cr c d bs cl ->
         kp_secret (c_keypair c) = Some sk ->
         wf_z ops (N.of_nat (Datatypes.length bs)) ->
         sumN (map len (bs ++ zappended ops)) <= u64_max ->
         NODE_SIZE * (2 * N.of_nat (Datatypes.length (bs ++ zappended ops))) <= u64_max ->
         (seen = false -> hyg cr (f_content (d_oplog d))) ->
         zrun_safe cr ops c {| w_disk := d; w_journal := j; w_events := ev |} \/
         (exists t : nat, collision cr t).
Proof. exact ztears_ok_safe. Qed.

Theorem C07_torn_write_of_a_proof_application_recovers :
  forall cr : crypto,
         crc_ok cr ->
         (forall x : bytes, Datatypes.length (cr_hash cr x) = 32%nat) ->
         (forall x : bytes, all_zero (cr_hash cr x) = false) ->
         (forall x : bytes, bytes_ok (cr_hash cr x) = true) ->
         forall bs : list bytes,
         writer_fits bs ->
         forall (f : option bool) (pf : proof) (c : core) (d : disk) (j : list sop) 
           (ev : list event) (H : N -> bool) (c' : core) (w' : world) (delta : list sop),
         RDInvZ cr bs c d H ->
         rd_proof_ok pf ->
         core_apply_proof cr f pf c {| w_disk := d; w_journal := j; w_events := ev |} = (c', w', Ok true) ->
         w_journal w' = rev delta ++ j ->
         (forall (k : nat) (s : store) (off : N) (data : bytes) (t : nat),
          nth_error delta k = Some (SW s off data) ->
          (t < Datatypes.length data)%nat ->
          exists dk dkt : disk,
            apply_sops d (firstn k delta) = Some dk /\
            apply_sop dk (tear (SW s off data) t) = Some dkt /\
            (tear_safe cr dk (SW s off data) t ->
             (if (k <=? ReplicaDisk4.commit_point pf)%nat
              then reopens_to cr bs c dkt H (t_length (c_tree c))
              else reopens_to cr bs c dkt (hold H (p_block pf)) (t_length (c_tree c'))) \/
             s = Oplog /\ off < ENTRIES_OFFSET /\ collision cr t)) \/
         Sound.some_collision cr \/ forged_signature cr bs (kp_public (c_keypair c)).
Proof. exact apply_torn_recovers. Qed.

Theorem C07_torn_non_header_write_of_a_proof_application_recovers :
  forall cr : crypto,
         crc_ok cr ->
         (forall x : bytes, Datatypes.length (cr_hash cr x) = 32%nat) ->
         (forall x : bytes, all_zero (cr_hash cr x) = false) ->
         (forall x : bytes, bytes_ok (cr_hash cr x) = true) ->
         forall bs : list bytes,
         writer_fits bs ->
         forall (f : option bool) (pf : proof) (c : core) (d : disk) (j : list sop) 
           (ev : list event) (H : N -> bool) (c' : core) (w' : world) (delta : list sop),
         RDInvZ cr bs c d H ->
         rd_proof_ok pf ->
         core_apply_proof cr f pf c {| w_disk := d; w_journal := j; w_events := ev |} = (c', w', Ok true) ->
         w_journal w' = rev delta ++ j ->
         (forall (k : nat) (s : store) (off : N) (data : bytes) (t : nat),
          nth_error delta k = Some (SW s off data) ->
          (t < Datatypes.length data)%nat ->
          is_slot_write (SW s off data) = false ->
          exists dk dkt : disk,
            apply_sops d (firstn k delta) = Some dk /\
            apply_sop dk (tear (SW s off data) t) = Some dkt /\
            (if (k <=? ReplicaDisk4.commit_point pf)%nat
             then reopens_to cr bs c dkt H (t_length (c_tree c))
             else reopens_to cr bs c dkt (hold H (p_block pf)) (t_length (c_tree c')))) \/
         Sound.some_collision cr \/ forged_signature cr bs (kp_public (c_keypair c)).
Proof. exact apply_torn_recovers_plain. Qed.

Theorem C07_replica_history_with_torn_crashes :
  forall (cr : crypto) (bs : list bytes),
         crc_ok cr ->
         (forall x : bytes, Datatypes.length (cr_hash cr x) = 32%nat) ->
         (forall x : bytes, all_zero (cr_hash cr x) = false) ->
         (forall x : bytes, bytes_ok (cr_hash cr x) = true) ->
         writer_fits bs ->
         forall (ops : list rzop) (c : core) (d : disk) (j : list sop) (ev : list event) (H : N -> bool),
         RDInvZ cr bs c d H ->
         Forall rzop_ok ops ->
         rz_safe cr ops c {| w_disk := d; w_journal := j; w_events := ev |} ->
         rz_ok bs H (t_length (c_tree c)) ops
           (rz_run cr ops c {| w_disk := d; w_journal := j; w_events := ev |}) \/
         escapes cr bs (kp_public (c_keypair c)).
Proof. exact replica_torn_history. Qed.

Theorem C07_fresh_replica_history_with_torn_crashes :
  forall (cr : crypto) (bs : list bytes),
         crc_ok cr ->
         (forall x : bytes, Datatypes.length (cr_hash cr x) = 32%nat) ->
         (forall x : bytes, all_zero (cr_hash cr x) = false) ->
         (forall x : bytes, bytes_ok (cr_hash cr x) = true) ->
         writer_fits bs ->
         forall (kp : keypair) (ops : list rzop),
         keypair_ok kp = true ->
         kp_secret kp = None ->
         Forall rzop_ok ops ->
         exists (d0 : disk) (ops0 : list sop) (c0 : core),
           core_open cr (Some kp) false disk_empty = (d0, ops0, Ok c0) /\
           (rz_tears cr false ops c0 {| w_disk := d0; w_journal := []; w_events := [] |} ->
            rz_ok bs (fun _ : N => false) 0 ops
              (rz_run cr ops c0 {| w_disk := d0; w_journal := []; w_events := [] |}) \/
            escapes cr bs (kp_public kp)).
Proof. exact fresh_replica_torn_history. Qed.

Theorem C07_torn_tolerant_replica_invariant :
  forall cr : crypto,
         (forall x : bytes, Datatypes.length (cr_hash cr x) = 32%nat) ->
         (forall x : bytes, all_zero (cr_hash cr x) = false) ->
         forall (bs : list bytes) (c : core) (d : disk) (H : N -> bool),
         RDInv cr bs c d H -> TreeOk (d_tree d) -> RDInvZ cr bs c d H.
Proof. exact RDInv_RDInvZ. Qed.

Theorem C07_torn_replica_disk_reopens :
  forall cr : crypto,
         crc_ok cr ->
         (forall x : bytes, Datatypes.length (cr_hash cr x) = 32%nat) ->
         (forall x : bytes, all_zero (cr_hash cr x) = false) ->
         (forall x : bytes, bytes_ok (cr_hash cr x) = true) ->
         forall (bs : list bytes) (pk : bytes) (d : disk) (H : N -> bool) (r : N),
         RDiskZ cr bs pk d H r ->
         exists (c' : core) (d' : disk) (ops : list sop),
           core_open cr None true d = (d', ops, Ok c') /\
           RDInvZ cr bs c' d' H /\
           t_length (c_tree c') = r /\
           c_keypair c' = {| kp_public := pk; kp_secret := None |} /\
           c_skip c' = 0 /\
           d_tree d' = d_tree d /\
           d_data d' = d_data d /\
           d_bitfield d' = d_bitfield d /\
           (ops = [] /\ d' = d \/ ops = [ST Oplog ENTRIES_OFFSET]) /\
           (hyg cr (f_content (d_oplog d)) -> hyg cr (f_content (d_oplog d'))).
Proof. exact reopen_RDiskZ. Qed.

Theorem C07_honest_apply_torn_recovers :
  forall cr : crypto,
         crc_ok cr ->
         (forall x : bytes, Datatypes.length (cr_hash cr x) = 32%nat) ->
         (forall x : bytes, all_zero (cr_hash cr x) = false) ->
         (forall x : bytes, bytes_ok (cr_hash cr x) = true) ->
         forall bs : list bytes,
         writer_fits bs ->
         forall (f : option bool) (pf : proof) (c : core) (d : disk) (j : list sop) 
           (ev : list event) (H : N -> bool) (cs : changeset) (c' : core) (w' : world) 
           (delta : list sop),
         RDInvZ cr bs c d H ->
         AcceptAllClo.ClosedR (c_tree c) (d_tree d) ->
         verifier_says cr c {| w_disk := d; w_journal := j; w_events := ev |} pf = Ok cs ->
         HonestApply2.honest_changeset cr bs c pf cs ->
         core_apply_proof cr f pf c {| w_disk := d; w_journal := j; w_events := ev |} = (c', w', Ok true) ->
         w_journal w' = rev delta ++ j ->
         forall (k : nat) (s : store) (off : N) (data : bytes) (t : nat),
         nth_error delta k = Some (SW s off data) ->
         (t < Datatypes.length data)%nat ->
         exists dk dkt : disk,
           apply_sops d (firstn k delta) = Some dk /\
           apply_sop dk (tear (SW s off data) t) = Some dkt /\
           (tear_safe cr dk (SW s off data) t ->
            (if (k <=? ReplicaDisk4.commit_point pf)%nat
             then reopens_to cr bs c dkt H (t_length (c_tree c))
             else reopens_to cr bs c dkt (hold H (p_block pf)) (t_length (c_tree c'))) \/
            s = Oplog /\ off < ENTRIES_OFFSET /\ collision cr t).
Proof. exact honest_apply_torn_recovers. Qed.

Theorem C07_honest_apply_torn_recovers_plain :
  forall cr : crypto,
         crc_ok cr ->
         (forall x : bytes, Datatypes.length (cr_hash cr x) = 32%nat) ->
         (forall x : bytes, all_zero (cr_hash cr x) = false) ->
         (forall x : bytes, bytes_ok (cr_hash cr x) = true) ->
         forall bs : list bytes,
         writer_fits bs ->
         forall (f : option bool) (pf : proof) (c : core) (d : disk) (j : list sop) 
           (ev : list event) (H : N -> bool) (cs : changeset) (c' : core) (w' : world) 
           (delta : list sop),
         RDInvZ cr bs c d H ->
         AcceptAllClo.ClosedR (c_tree c) (d_tree d) ->
         verifier_says cr c {| w_disk := d; w_journal := j; w_events := ev |} pf = Ok cs ->
         HonestApply2.honest_changeset cr bs c pf cs ->
         core_apply_proof cr f pf c {| w_disk := d; w_journal := j; w_events := ev |} = (c', w', Ok true) ->
         w_journal w' = rev delta ++ j ->
         forall (k : nat) (s : store) (off : N) (data : bytes) (t : nat),
         nth_error delta k = Some (SW s off data) ->
         (t < Datatypes.length data)%nat ->
         is_slot_write (SW s off data) = false ->
         exists dk dkt : disk,
           apply_sops d (firstn k delta) = Some dk /\
           apply_sop dk (tear (SW s off data) t) = Some dkt /\
           (if (k <=? ReplicaDisk4.commit_point pf)%nat
            then reopens_to cr bs c dkt H (t_length (c_tree c))
            else reopens_to cr bs c dkt (hold H (p_block pf)) (t_length (c_tree c'))).
Proof. exact honest_apply_torn_recovers_plain. Qed.

Theorem C07_honest_round_torn_recovers :
  forall cr : crypto,
         crc_ok cr ->
         (forall x : bytes, Datatypes.length (cr_hash cr x) = 32%nat) ->
         (forall x : bytes, all_zero (cr_hash cr x) = false) ->
         (forall x : bytes, bytes_ok (cr_hash cr x) = true) ->
         forall bs : list bytes,
         writer_fits bs ->
         forall (f : option bool) (cw : core) (dw : disk) (bw : list bytes) (sg : bytes) 
           (jw : list sop) (evw : list event) (c : core) (d : disk) (j : list sop) 
           (ev : list event) (H : N -> bool) (rq : AcceptAll.request),
         let w := N.of_nat (Datatypes.length bw) in
         let pk := kp_public (c_keypair c) in
         AcceptAllCore3.writer_at cr bs cw dw bw pk sg ->
         AcceptAllCore3.RCInv cr bs c d H ->
         TreeOk (d_tree d) ->
         t_length (c_tree c) <= w ->
         AcceptAll.wf_request bs (c_tree c) (d_tree d) w rq ->
         (forall vp : vproof,
          create_valueless_proof (c_tree cw) (d_tree dw) (AcceptAll.rq_block rq) (AcceptAll.rq_hash rq)
            (AcceptAll.rq_seek rq) (AcceptAll.rq_upgrade rq) = Ok vp ->
          AcceptAllCore3.frame_guard cr c d (Replicate.vp_to_proof vp (AcceptAll.rq_value bs rq))) ->
         let H' := HonestApply3.held_rq H rq in
         let r' := match AcceptAll.rq_upgrade rq with
                   | Some _ => w
                   | None => t_length (c_tree c)
                   end in
         exists (pf : proof) (c' : core) (w' : world) (delta : list sop),
           core_create_proof (AcceptAll.rq_block rq) (AcceptAll.rq_hash rq) (AcceptAll.rq_seek rq)
             (AcceptAll.rq_upgrade rq) cw {| w_disk := dw; w_journal := jw; w_events := evw |} =
           (cw, {| w_disk := dw; w_journal := jw; w_events := evw |}, Ok (Some pf)) /\
           core_apply_proof cr f pf c {| w_disk := d; w_journal := j; w_events := ev |} = (c', w', Ok true) /\
           w_journal w' = rev delta ++ j /\
           t_length (c_tree c') = r' /\
           (forall (k : nat) (s : store) (off : N) (data : bytes) (t : nat),
            nth_error delta k = Some (SW s off data) ->
            (t < Datatypes.length data)%nat ->
            exists dk dkt : disk,
              apply_sops d (firstn k delta) = Some dk /\
              apply_sop dk (tear (SW s off data) t) = Some dkt /\
              (tear_safe cr dk (SW s off data) t ->
               (if (k <=? rq_commit_point rq)%nat
                then reopens_to cr bs c dkt H (t_length (c_tree c))
                else reopens_to cr bs c dkt H' r') \/ s = Oplog /\ off < ENTRIES_OFFSET /\ collision cr t)).
Proof. exact honest_round_torn_recovers. Qed.

Theorem C07_honest_histories_with_torn_crashes :
  forall cr : crypto,
         crc_ok cr ->
         (forall x : bytes, Datatypes.length (cr_hash cr x) = 32%nat) ->
         (forall x : bytes, all_zero (cr_hash cr x) = false) ->
         (forall x : bytes, bytes_ok (cr_hash cr x) = true) ->
         forall bs : list bytes,
         writer_fits bs ->
         forall (es : list tevent) (c : core) (d : disk) (j : list sop) (ev : list event) (H : N -> bool),
         RCInvZ cr bs c d H ->
         thist cr bs es c {| w_disk := d; w_journal := j; w_events := ev |} ->
         (exists (c' : core) (w' : world),
            trun cr es c {| w_disk := d; w_journal := j; w_events := ev |} = Some (c', w') /\
            RCInvZ cr bs c' (w_disk w') (theld_all H es) /\
            c_keypair c' = c_keypair c /\
            t_length (c_tree c') = tlen_all (t_length (c_tree c)) es /\
            t_byte_length (c_tree c') = TreeRef.prefix_size bs (t_length (c_tree c')) /\
            t_length (c_tree c) <= t_length (c_tree c') /\
            (forall i : N, tcommitted es i -> core_has c' i = true) /\
            (forall i : N, H i = true -> core_has c' i = true) /\
            (forall i : N, core_has c' i = theld_all H es i) /\
            (forall (i : N) (j2 : list sop) (ev2 : list event),
             core_has c' i = true ->
             core_get i c' {| w_disk := w_disk w'; w_journal := j2; w_events := ev2 |} =
             (c', {| w_disk := w_disk w'; w_journal := j2; w_events := ev2 |}, Ok (Some (TreeRef.blk bs i))))) \/
         (exists t : nat, collision cr t).
Proof. exact honest_histories_with_torn_crashes. Qed.

Theorem C07_honest_fresh_histories_with_torn_crashes :
  forall cr : crypto,
         crc_ok cr ->
         (forall x : bytes, Datatypes.length (cr_hash cr x) = 32%nat) ->
         (forall x : bytes, all_zero (cr_hash cr x) = false) ->
         (forall x : bytes, bytes_ok (cr_hash cr x) = true) ->
         forall bs : list bytes,
         writer_fits bs ->
         forall (kp : keypair) (es : list tevent),
         keypair_ok kp = true ->
         kp_secret kp = None ->
         exists (d0 : disk) (ops0 : list sop) (c0 : core),
           core_open cr (Some kp) false disk_empty = (d0, ops0, Ok c0) /\
           (thist cr bs es c0 {| w_disk := d0; w_journal := []; w_events := [] |} ->
            (exists (c' : core) (w' : world),
               trun cr es c0 {| w_disk := d0; w_journal := []; w_events := [] |} = Some (c', w') /\
               RCInvZ cr bs c' (w_disk w') (theld_all (fun _ : N => false) es) /\
               t_length (c_tree c') = tlen_all 0 es /\
               (forall i : N, tcommitted es i -> core_has c' i = true) /\
               (forall i : N, core_has c' i = theld_all (fun _ : N => false) es i) /\
               (forall (i : N) (j2 : list sop) (ev2 : list event),
                core_has c' i = true ->
                core_get i c' {| w_disk := w_disk w'; w_journal := j2; w_events := ev2 |} =
                (c', {| w_disk := w_disk w'; w_journal := j2; w_events := ev2 |}, Ok (Some (TreeRef.blk bs i))))) \/
            (exists t : nat, collision cr t)).
Proof. exact honest_fresh_histories_with_torn_crashes. Qed.

Theorem C07_honest_round_from_torn_tolerant_state :
  forall cr : crypto,
         crc_ok cr ->
         (forall x : bytes, Datatypes.length (cr_hash cr x) = 32%nat) ->
         (forall x : bytes, all_zero (cr_hash cr x) = false) ->
         (forall x : bytes, bytes_ok (cr_hash cr x) = true) ->
         forall bs : list bytes,
         writer_fits bs ->
         forall (f : option bool) (cw : core) (dw : disk) (bw : list bytes) (sg : bytes) 
           (jw : list sop) (evw : list event) (c : core) (d : disk) (j : list sop) 
           (ev : list event) (H : N -> bool) (rq : AcceptAll.request),
         let w := N.of_nat (Datatypes.length bw) in
         let pk := kp_public (c_keypair c) in
         AcceptAllCore3.writer_at cr bs cw dw bw pk sg ->
         RCInvZ cr bs c d H ->
         t_length (c_tree c) <= w ->
         AcceptAll.wf_request bs (c_tree c) (d_tree d) w rq ->
         (forall vp : vproof,
          create_valueless_proof (c_tree cw) (d_tree dw) (AcceptAll.rq_block rq) (AcceptAll.rq_hash rq)
            (AcceptAll.rq_seek rq) (AcceptAll.rq_upgrade rq) = Ok vp ->
          AcceptAllCore3.frame_guard cr c d (Replicate.vp_to_proof vp (AcceptAll.rq_value bs rq))) ->
         let H' := HonestApply3.held_rq H rq in
         let r' := match AcceptAll.rq_upgrade rq with
                   | Some _ => w
                   | None => t_length (c_tree c)
                   end in
         exists (pf : proof) (c' : core) (w' : world) (delta : list sop),
           core_create_proof (AcceptAll.rq_block rq) (AcceptAll.rq_hash rq) (AcceptAll.rq_seek rq)
             (AcceptAll.rq_upgrade rq) cw {| w_disk := dw; w_journal := jw; w_events := evw |} =
           (cw, {| w_disk := dw; w_journal := jw; w_events := evw |}, Ok (Some pf)) /\
           core_apply_proof cr f pf c {| w_disk := d; w_journal := j; w_events := ev |} = (c', w', Ok true) /\
           w_journal w' = rev delta ++ j /\
           apply_sops d delta = Some (w_disk w') /\
           RCInvZ cr bs c' (w_disk w') H' /\
           t_length (c_tree c') = r' /\
           c_keypair c' = c_keypair c /\
           (f = Some true -> hyg cr (f_content (d_oplog (w_disk w')))) /\
           (forall k : nat,
            exists dk : disk,
              apply_sops d (firstn k delta) = Some dk /\
              (if (k <=? rq_commit_point rq)%nat
               then RCDiskZ cr bs pk dk H (t_length (c_tree c))
               else RCDiskZ cr bs pk dk H' r') /\
              (hyg cr (f_content (d_oplog d)) -> hyg cr (f_content (d_oplog dk)))) /\
           (forall (k : nat) (o : sop) (t : nat),
            nth_error delta k = Some o ->
            (t < wlen o)%nat ->
            exists dk dkt : disk,
              apply_sops d (firstn k delta) = Some dk /\
              apply_sop dk (tear o t) = Some dkt /\
              (tear_safe cr dk o t ->
               (if (k <=? rq_commit_point rq)%nat
                then recoversRC cr bs pk dkt H (t_length (c_tree c))
                else recoversRC cr bs pk dkt H' r') \/ is_slot_write o = true /\ collision cr t)).
Proof. exact honest_round_ZC. Qed.

Theorem C07_honest_torn_history_example_computed :
  trun sc_cr ht_es AcceptAllEx.scR_c AcceptAllEx.scR_w = Some (ht7_c, ht7_w) /\
         (exists e : errkind, required_node (c_tree ht4_c) (d_tree (w_disk ht4_w)) 2 = Err e) /\
         required_node (c_tree ht5_c) (d_tree (w_disk ht5_w)) 2 = Ok (TreeRef.ref_at sc_cr sc_blocks 2) /\
         t_length (c_tree ht7_c) = 6 /\
         core_has ht7_c 0 = true /\
         core_has ht7_c 4 = true /\
         core_has ht7_c 1 = false /\
         snd (core_get 4 ht7_c ht7_w) = Ok (Some [9; 10]) /\ snd (core_get 0 ht7_c ht7_w) = Ok (Some [1; 2; 3]).
Proof. exact ht_run_computed. Qed.

Theorem C07_honest_torn_history_example_applies :
  exists (c' : core) (w' : world),
           trun sc_cr ht_es AcceptAllEx.scR_c AcceptAllEx.scR_w = Some (c', w') /\
           t_length (c_tree c') = 6 /\
           t_byte_length (c_tree c') = TreeRef.prefix_size sc_blocks 6 /\
           core_has c' 4 = true /\
           core_has c' 0 = true /\
           core_has c' 1 = false /\
           (RCInvZ sc_cr sc_blocks c' (w_disk w') (theld_all (fun _ : N => false) ht_es) /\
            (forall i : N, tcommitted ht_es i -> core_has c' i = true) /\
            (forall (i : N) (j2 : list sop) (ev2 : list event),
             core_has c' i = true ->
             core_get i c' {| w_disk := w_disk w'; w_journal := j2; w_events := ev2 |} =
             (c', {| w_disk := w_disk w'; w_journal := j2; w_events := ev2 |},
              Ok (Some (TreeRef.blk sc_blocks i)))) \/ (exists t : nat, collision sc_cr t)).
Proof. exact ht_torn_histories_applies. Qed.

Theorem C07_honest_torn_history_example_premises :
  thist sc_cr sc_blocks ht_es AcceptAllEx.scR_c AcceptAllEx.scR_w.
Proof. exact ht_hist. Qed.

Print Assumptions C07_torn_entry_is_no_frame.
Print Assumptions C07_torn_append_recovers_before.
Print Assumptions C07_torn_flush_before_after_or_collision.
Print Assumptions C07_torn_header_invalid_falls_back.
Print Assumptions C07_torn_header_in_padding_is_after.
Print Assumptions C07_torn_make_read_only.
Print Assumptions C07_torn_creation_is_empty.
Print Assumptions C07_torn_then_rest_is_whole_write.
Print Assumptions C07_invalid_slot_keeps_current.
Print Assumptions C07_torn_write_of_an_append_recovers.
Print Assumptions C07_torn_non_header_write_recovers.
Print Assumptions C07_torn_write_observations.
Print Assumptions C07_torn_data_write_of_panicking_append.
Print Assumptions C07_history_with_torn_crashes.
Print Assumptions C07_fresh_history_with_torn_crashes.
Print Assumptions C07_tears_side_condition.
Print Assumptions C07_torn_tolerant_invariant_at_creation.
Print Assumptions C07_torn_disk_reopens.
Print Assumptions TornCore.toy_torn_history.
Print Assumptions TornCore.toy_every_tear_of_a_flushing_append.
Print Assumptions TornCore.torn_page_partial.
Print Assumptions TornCore.reopen_to_XInv_refuted.
Print Assumptions TornCore.toy_torn_history2.
Print Assumptions C07_torn_write_of_a_clear_recovers.
Print Assumptions C07_torn_non_header_write_of_a_clear_recovers.
Print Assumptions C07_torn_write_of_an_append_recovers_with_clears.
Print Assumptions C07_torn_write_of_make_read_only_recovers.
Print Assumptions C07_merged_invariant_from_crash_states.
Print Assumptions C07_merged_invariant_from_torn_states.
Print Assumptions C07_torn_disk_with_clears_reopens.
Print Assumptions TornClear.crc_every_tear_of_a_flushing_clear.
Print Assumptions TornClear.crc_stale_unread_bit_state.
Print Assumptions TornClear.crc_every_tear_of_make_read_only.
Print Assumptions C07_history_with_torn_crashes_and_clears.
Print Assumptions C07_fresh_history_with_torn_crashes_and_clears.
Print Assumptions C07_tears_side_condition_with_clears.
Print Assumptions C07_torn_write_of_a_proof_application_recovers.
Print Assumptions C07_torn_non_header_write_of_a_proof_application_recovers.
Print Assumptions C07_replica_history_with_torn_crashes.
Print Assumptions C07_fresh_replica_history_with_torn_crashes.
Print Assumptions C07_torn_tolerant_replica_invariant.
Print Assumptions C07_torn_replica_disk_reopens.
Print Assumptions TornHistory.toy_torn_clear_history.
Print Assumptions TornReplica.scz_every_tear_of_first_contact.
Print Assumptions TornReplica.scz_torn_states_met.
Print Assumptions TornReplica.scz_history_computed.
Print Assumptions C07_honest_apply_torn_recovers.
Print Assumptions C07_honest_apply_torn_recovers_plain.
Print Assumptions C07_honest_round_torn_recovers.
Print Assumptions C07_honest_histories_with_torn_crashes.
Print Assumptions C07_honest_fresh_histories_with_torn_crashes.
Print Assumptions C07_honest_round_from_torn_tolerant_state.
Print Assumptions C07_honest_torn_history_example_computed.
Print Assumptions C07_honest_torn_history_example_applies.
Print Assumptions C07_honest_torn_history_example_premises.

(* C07 — placeholder *)
From HC Require Import Base.

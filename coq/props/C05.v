(* C05 — placeholder *)
From HC Require Import Base.

(* ADDED IN THE THIRD ROUND: C05_tree_is_reference_in_every_state (memory roots and every node in unflushed map or tree store, in every state reachable by
   appends, clears, reopens); C05_source_constants (hash type bytes and namespaces parsed from /repo/src on every run).
   ---- header of the earlier rounds: ---- *)
(* C05 — Merkle tree, root hash and signature match an independent reference (pinned statements;
   proofs in FlatTreeFacts.v and TreeRef.v). `ref_node cr blocks d o` is the reference tree of the
   Hypercore v10 scheme by structural recursion: leaves are block_node (BLAKE2b over type 0, LE size,
   data), parents are parent_node (type 1, summed LE size, both child hashes), flat in-order numbering;
   ref_roots n are the roots of the binary decomposition of n.
   Proved, for every block sequence and every way of cutting it into batches: the incremental changeset
   (binary-increment carry chain of append_root) produces exactly the reference roots, length, byte
   length, and every node it pushes (= every node later persisted in the oplog entry and the tree store,
   and served in proofs) IS the reference node at its flat index; the signature is the signature over
   (tree namespace, hash of the reference roots, length, fork) and verifies; sizes of reference nodes are
   the sums of the block sizes they span; no overflow panic when the total size fits in u64.
   Partial: that flush/reopen/replay move these nodes to and from storage unchanged is covered by the
   reference-tree oracle of tools/c05.py (raw tree/oplog bytes, proofs) and by the C06 round-trip theorems. *)
From HC Require Import Core ClearRefine Unified1 ProofContent.
From HC Require Import Core FlatTreeFacts TreeRef OffsetFacts Refine ClearRefine Unified1 Corollaries.
From HC Require Import Base Codec Crypto Storage Bitfield Oplog Merkle SrcConsts ConstTie ConstTieHash.
From HC Require Import Base NMap Codec CodecFacts Crypto FlatTree Merkle Core FlatTreeFacts TreeRef.

Theorem C05_batch_is_reference : forall cr blocks batch c c' k,
  cs_roots c = ref_roots cr blocks k ->
  cs_length c = k ->
  (forall j, (j < length batch)%nat -> nth j batch [] = blk blocks (k + N.of_nat j)) ->
  cs_append_all cr c batch = Ok c' ->
  cs_roots c' = ref_roots cr blocks (k + N.of_nat (length batch)) /\
  cs_length c' = k + N.of_nat (length batch) /\
  cs_byte_length c' = cs_byte_length c + sumN (map len batch) /\
  cs_batch_length c' = cs_batch_length c + N.of_nat (length batch) /\
  cs_ancestors c' = cs_ancestors c /\
  cs_fork c' = cs_fork c /\
  (batch <> [] -> cs_upgraded c' = true) /\
  (forall n, In n (cs_nodes c') -> In n (cs_nodes c) \/ n = ref_at cr blocks (n_index n)).
Proof. exact cs_append_all_ref. Qed.

Theorem C05_from_empty : forall cr blocks c',
  cs_append_all cr (tree_changeset empty_tree) blocks = Ok c' ->
  cs_roots c' = ref_roots cr blocks (N.of_nat (length blocks)) /\
  cs_length c' = N.of_nat (length blocks) /\
  cs_byte_length c' = sumN (map len blocks) /\
  cs_batch_length c' = N.of_nat (length blocks) /\
  cs_ancestors c' = 0 /\ cs_fork c' = 0 /\
  (forall n, In n (cs_nodes c') -> n = ref_at cr blocks (n_index n)).
Proof. exact cs_append_all_from_empty. Qed.

Theorem C05_signature_over_reference : forall cr blocks batch c c' k sk,
  cs_roots c = ref_roots cr blocks k ->
  cs_length c = k ->
  (forall j, (j < length batch)%nat -> nth j batch [] = blk blocks (k + N.of_nat j)) ->
  cs_append_all cr c batch = Ok c' ->
  let n := k + N.of_nat (length batch) in
  let h := tree_hash cr (ref_roots cr blocks n) in
  let msg := signable h n (cs_fork c') in
  cs_hash (cs_hash_and_sign cr c' sk) = Some h /\
  cs_signature (cs_hash_and_sign cr c' sk) = Some (cr_sign cr sk msg) /\
  cs_roots (cs_hash_and_sign cr c' sk) = ref_roots cr blocks n /\
  cs_length (cs_hash_and_sign cr c' sk) = n /\
  (forall pk_of : bytes -> bytes,
     (forall sk0 m, cr_verify cr (pk_of sk0) m (cr_sign cr sk0 m) = true) ->
     forall s, cs_signature (cs_hash_and_sign cr c' sk) = Some s -> cr_verify cr (pk_of sk) msg s = true).
Proof. exact signature_is_over_reference. Qed.

Theorem C05_root_sizes : forall cr blocks n,
  sumN (map n_length (ref_roots cr blocks n)) = prefix_size blocks n.
Proof. exact ref_roots_size. Qed.

Theorem C05_no_overflow_panic : forall cr blocks,
  sumN (map len blocks) <= u64_max ->
  exists c', cs_append_all cr (tree_changeset empty_tree) blocks = Ok c' /\
             cs_roots c' = ref_roots cr blocks (N.of_nat (length blocks)) /\
             cs_byte_length c' = sumN (map len blocks).
Proof. exact cs_append_all_from_empty_ok. Qed.

(* flat-tree numbering facts the reference rests on *)
Theorem C05_flat_index_decomposition : forall i, i + 1 = 2 ^ ft_depth i * (2 * ft_offset i + 1).
Proof. exact ft_decomp. Qed.

Example C05_ex :
  match cs_append_all toy_crypto (tree_changeset empty_tree) toy_blocks with
  | Ok c' => cs_roots c' = ref_roots toy_crypto toy_blocks 5 /\ map n_index (cs_roots c') = [3; 8] /\
             map n_length (cs_roots c') = [8; 2] /\ cs_length c' = 5 /\ cs_byte_length c' = 10 /\
             map n_index (cs_nodes c') = [0; 2; 1; 4; 6; 5; 3; 8]
  | _ => False
  end.
Proof. exact toy_append_all_is_reference. Qed.

(* Tie to the source, regenerated on every run: the crate's named constants (parsed from /repo/src by
   tools/srcconsts.py into SrcConsts.v) are the values the model uses; `tied None _` (constant renamed away) is True. *)
Theorem C05_source_constants :
  tied src_TREE TREE_NS /\
  tied src_LEAF_TYPE (firstn 1 (leaf_preimage [])) /\ tied src_ROOT_TYPE (firstn 1 (tree_preimage [])) /\
  (forall a b, tied src_PARENT_TYPE (firstn 1 (parent_preimage a b))).
Proof. exact source_hash_constants_are_the_models. Qed.

Theorem C05_tree_is_reference_in_every_state :
  forall (cr : crypto) (c : core) (d : disk) (bs : list bytes) (cl : N -> bool),
         FInv cr c d bs cl ->
         let n := N.of_nat (Datatypes.length bs) in
         t_length (c_tree c) = n /\
         t_byte_length (c_tree c) = sumN (map len bs) /\
         t_fork (c_tree c) = 0 /\
         t_roots (c_tree c) = ref_roots cr bs n /\
         (forall (dd : nat) (o : N),
          (o + 1) * p2 dd <= n ->
          required_node (c_tree c) (d_tree d) (ft_index (N.of_nat dd) o) = Ok (ref_node cr bs dd o)).
Proof. exact tree_is_reference_everywhere. Qed.

Theorem C05_served_proof_is_the_reference_tree :
  forall (cr : crypto) (kp : keypair) (sk : bytes),
         OplogFacts.crc_ok cr ->
         (forall x : bytes, Datatypes.length (cr_hash cr x) = 32%nat) ->
         (forall x : bytes, all_zero (cr_hash cr x) = false) ->
         (forall x : bytes, bytes_ok (cr_hash cr x) = true) ->
         (forall k m : bytes, Datatypes.length (cr_sign cr k m) = 64%nat) ->
         (forall k m : bytes, bytes_ok (cr_sign cr k m) = true) ->
         OplogFacts.keypair_ok kp = true ->
         kp_secret kp = Some sk ->
         forall (c : core) (d : disk) (bs : list bytes) (cl : N -> bool) (j : list sop) 
           (ev : list event) (block hash : option req_block) (seek : option req_seek)
           (upgrade : option req_upgrade) (c' : core) (w' : world) (pf : proof),
         wreach cr kp c d bs cl ->
         core_create_proof block hash seek upgrade c {| w_disk := d; w_journal := j; w_events := ev |} =
         (c', w', Ok (Some pf)) ->
         let n := N.of_nat (Datatypes.length bs) in
         (forall x : node, In x (proof_nodes pf) -> x = ref_at cr bs (n_index x) /\ refnode cr bs n x) /\
         p_fork pf = 0 /\
         (forall b : data_block,
          p_block pf = Some b ->
          held n cl (db_index b) = true /\
          db_index b < n /\
          db_value b = nth (N.to_nat (db_index b)) bs [] /\
          (exists rb : req_block, block = Some rb /\ db_index b = rb_index rb)) /\
         (block = None -> p_block pf = None) /\
         c' = c /\ w' = {| w_disk := d; w_journal := j; w_events := ev |}.
Proof. exact C05_served_proof_is_the_reference_tree. Qed.

Theorem C05_served_upgrade_is_signed :
  forall (cr : crypto) (kp : keypair) (sk : bytes),
         OplogFacts.crc_ok cr ->
         (forall x : bytes, Datatypes.length (cr_hash cr x) = 32%nat) ->
         (forall x : bytes, all_zero (cr_hash cr x) = false) ->
         (forall x : bytes, bytes_ok (cr_hash cr x) = true) ->
         (forall k m : bytes, Datatypes.length (cr_sign cr k m) = 64%nat) ->
         (forall k m : bytes, bytes_ok (cr_sign cr k m) = true) ->
         OplogFacts.keypair_ok kp = true ->
         kp_secret kp = Some sk ->
         forall (c : core) (d : disk) (bs : list bytes) (cl : N -> bool) (j : list sop) 
           (ev : list event) (block hash : option req_block) (seek : option req_seek)
           (upgrade : option req_upgrade) (c' : core) (w' : world) (pf : proof) (u : data_upgrade),
         wreach cr kp c d bs cl ->
         core_create_proof block hash seek upgrade c {| w_disk := d; w_journal := j; w_events := ev |} =
         (c', w', Ok (Some pf)) ->
         p_upgrade pf = Some u ->
         let n := N.of_nat (Datatypes.length bs) in
         0 < n /\
         t_signature (c_tree c) = Some (du_signature u) /\
         du_signature u = cr_sign cr sk (signable (tree_hash cr (ref_roots cr bs n)) n 0) /\
         (exists ru : req_upgrade, upgrade = Some ru /\ du_start u = ru_start ru /\ du_length u = ru_length ru) /\
         0 < du_length u /\
         du_start u + du_length u <= n /\
         (forall pk : bytes,
          (forall m : bytes, cr_verify cr pk m (cr_sign cr sk m) = true) ->
          du_start u + du_length u = n ->
          cr_verify cr pk
            (signable (tree_hash cr (ref_roots cr bs (du_start u + du_length u))) (du_start u + du_length u)
               (p_fork pf)) (du_signature u) = true).
Proof. exact C05_served_upgrade_is_signed. Qed.

Theorem C05_stored_signature_is_the_heads :
  forall (cr : crypto) (kp : keypair) (sk : bytes),
         OplogFacts.crc_ok cr ->
         (forall x : bytes, Datatypes.length (cr_hash cr x) = 32%nat) ->
         (forall x : bytes, all_zero (cr_hash cr x) = false) ->
         (forall x : bytes, bytes_ok (cr_hash cr x) = true) ->
         (forall k m : bytes, Datatypes.length (cr_sign cr k m) = 64%nat) ->
         (forall k m : bytes, bytes_ok (cr_sign cr k m) = true) ->
         OplogFacts.keypair_ok kp = true ->
         kp_secret kp = Some sk ->
         forall (c : core) (d : disk) (bs : list bytes) (cl : N -> bool),
         wreach cr kp c d bs cl ->
         let n := N.of_nat (Datatypes.length bs) in
         let sig := fun m : N => cr_sign cr sk (signable (tree_hash cr (ref_roots cr bs m)) m 0) in
         0 < n ->
         t_signature (c_tree c) = Some (sig n) /\
         ht_length (hd_tree (c_header c)) = n /\
         ht_signature (hd_tree (c_header c)) = sig n /\
         ht_root_hash (hd_tree (c_header c)) = tree_hash cr (ref_roots cr bs n) /\
         (exists oo : open_outcome,
            oplog_open cr None (f_content (d_oplog d)) = Ok oo /\
            (0 < ht_length (hd_tree (oo_header oo)) ->
             ht_signature (hd_tree (oo_header oo)) = sig (ht_length (hd_tree (oo_header oo))) /\
             ht_root_hash (hd_tree (oo_header oo)) =
             tree_hash cr (ref_roots cr bs (ht_length (hd_tree (oo_header oo))))) /\
            (forall (e : entry) (u : tree_upgrade),
             In e (oo_entries oo) ->
             e_upgrade e = Some u -> tu_signature u = sig (tu_length u) /\ tu_length u <= n)).
Proof. exact C05_stored_signature. Qed.

Theorem C05_whole_log_upgrade_verifies :
  forall (cr : crypto) (kp : keypair) (sk : bytes),
         OplogFacts.crc_ok cr ->
         (forall x : bytes, Datatypes.length (cr_hash cr x) = 32%nat) ->
         (forall x : bytes, all_zero (cr_hash cr x) = false) ->
         (forall x : bytes, bytes_ok (cr_hash cr x) = true) ->
         (forall k m : bytes, Datatypes.length (cr_sign cr k m) = 64%nat) ->
         (forall k m : bytes, bytes_ok (cr_sign cr k m) = true) ->
         OplogFacts.keypair_ok kp = true ->
         kp_secret kp = Some sk ->
         forall (c : core) (d : disk) (bs : list bytes) (cl : N -> bool) (j : list sop) 
           (ev : list event) (c' : core) (w' : world) (pf : proof) (rt : mtree) (rtf : file) 
           (pk : bytes),
         wreach cr kp c d bs cl ->
         let n := N.of_nat (Datatypes.length bs) in
         core_create_proof None None None (Some {| ru_start := 0; ru_length := n |}) c
           {| w_disk := d; w_journal := j; w_events := ev |} = (c', w', Ok (Some pf)) ->
         (forall m : bytes, cr_verify cr pk m (cr_sign cr sk m) = true) ->
         t_roots rt = [] ->
         t_length rt = 0 ->
         t_byte_length rt + sumN (map len bs) <= u64_max ->
         let sg := cr_sign cr sk (signable (tree_hash cr (ref_roots cr bs n)) n 0) in
         pf =
         {|
           p_fork := 0;
           p_block := None;
           p_hash := None;
           p_seek := None;
           p_upgrade :=
             Some
               {|
                 du_start := 0;
                 du_length := n;
                 du_nodes := ref_roots cr bs n;
                 du_additional := [];
                 du_signature := sg
               |}
         |} /\
         (exists cs : changeset,
            verify_proof cr rt rtf pf pk = Ok cs /\
            cs_roots cs = ref_roots cr bs n /\
            cs_length cs = n /\
            cs_fork cs = 0 /\
            cs_byte_length cs = t_byte_length rt + sumN (map len bs) /\
            cs_signature cs = Some sg /\
            cs_hash cs = Some (tree_hash cr (ref_roots cr bs n)) /\
            cs_nodes cs = ref_roots cr bs n /\ commitable rt cs = true).
Proof. exact C05_whole_log_upgrade_verifies. Qed.

Theorem C05_signature_invariant_reached :
  forall (cr : crypto) (kp : keypair) (sk : bytes),
         OplogFacts.crc_ok cr ->
         (forall x : bytes, Datatypes.length (cr_hash cr x) = 32%nat) ->
         (forall x : bytes, all_zero (cr_hash cr x) = false) ->
         (forall x : bytes, bytes_ok (cr_hash cr x) = true) ->
         (forall k m : bytes, Datatypes.length (cr_sign cr k m) = 64%nat) ->
         (forall k m : bytes, bytes_ok (cr_sign cr k m) = true) ->
         OplogFacts.keypair_ok kp = true ->
         kp_secret kp = Some sk ->
         forall (c : core) (d : disk) (bs : list bytes) (cl : N -> bool),
         wreach cr kp c d bs cl -> FInv cr c d bs cl /\ PInv cr sk c d bs.
Proof. exact wreach_inv. Qed.

(* Tie of the HASH LAYOUTS to the source, regenerated on every run: tools/srchash.py parses src/crypto/hash.rs — the v10 functions the
   crate calls, Hash::data / Hash::parent / Hash::tree (src/tree/merkle_tree_changeset.rs, merkle_tree.rs) and signable_tree; the
   big-endian from_leaf / from_hashes / from_roots are used by the file's own tests only — into SrcHash.v: the ORDERED sequence of
   `hasher.update(X)` arguments (for signable_tree the fields of `to_encoded_bytes!`), each classified symbolically (HashDesc.v):
   a byte constant with the value the source gives it, the 8-byte little-endian `e.as_fixed_width()` of a u64 expression (also through
   `let size = ..` and `&buffer[..8]` / `&buffer[8..]`), `u64_as_be(e)`, the WHOLE of a `&[u8]` parameter, a node's hash,
   `as_array::<32>(hash)?`, or HOther for anything else (e.g. a sub-slice of the data); for Hash::parent the ordering
   `let (node1, node2) = if left.index <= right.index { (left, right) } else { (right, left) }`, for Hash::tree the loop body.
   `tied_fn None _` (not found in the recognisable form) is True. For every description that was found, the model's preimage — what
   every theorem above hashes and signs — IS its interpretation (meaning pinned by C05_source_hash_layouts_meaning), for all
   arguments: same items, same order, same endianness, the whole data, the same ordering of the two children. *)
From HC Require Import HashDesc SrcHash.
From HC Require HashTie.
Local Open Scope string_scope.
Local Open Scope list_scope.
Local Open Scope N_scope.

(* the variables a node named s gives a value to: its fields and its getters *)
Definition C05_node_nvars (s : string) (n : node) : list (string * N) :=
  [(String.append s ".index", n_index n); (String.append s ".length", n_length n);
   (String.append s ".index()", n_index n); (String.append s ".len()", n_length n)].

(* Hash::parent(left, right) read as a program over its description *)
Definition C05_parent_interp (d : parent_desc) (a b : node) : option bytes :=
  let node_of (s : string) := if String.eqb s "left" then Some a else if String.eqb s "right" then Some b else None in
  let cond := truthy (reval (env_of (C05_node_nvars "left" a ++ C05_node_nvars "right" b)) (pd_cond d)) in
  let '(s1, s2) := if cond then pd_then d else pd_else d in
  match node_of s1, node_of s2 with
  | Some n1, Some n2 =>
      let '(x1, x2) := pd_names d in
      HashTie.hinterp (env_of (C05_node_nvars x1 n1 ++ C05_node_nvars x2 n2))
                      (HashTie.benv_of [(x1, n_hash n1); (x2, n_hash n2)]) (pd_items d)
  | _, _ => None
  end.

(* Hash::tree(roots): the updates before the loop, the loop body once per root, the updates after it *)
Definition C05_tree_interp (d : tree_desc) (roots : list node) : option bytes :=
  let one (n : node) := HashTie.hinterp (env_of (C05_node_nvars (td_var d) n)) (HashTie.benv_of [(td_var d, n_hash n)]) (td_body d) in
  match HashTie.hinterp (env_of []) (HashTie.benv_of []) (td_before d), HashTie.opt_concat (map one roots),
        HashTie.hinterp (env_of []) (HashTie.benv_of []) (td_after d) with
  | Some x, Some y, Some z => Some (x ++ y ++ z)
  | _, _, _ => None
  end.

Theorem C05_source_hash_layouts :
  tied_fn src_hash_data (fun items => forall data,
    HashTie.hinterp (env_of [("data.len()", len data)]) (HashTie.benv_of [("data", data)]) items = Some (leaf_preimage data)) /\
  tied_fn src_hash_parent (fun d => forall a b, n_length a + n_length b < 18446744073709551616 ->
    C05_parent_interp d a b = Some (parent_preimage a b)) /\
  tied_fn src_hash_tree (fun d => forall roots, C05_tree_interp d roots = Some (tree_preimage roots)) /\
  tied_fn src_signable_tree (fun items => forall hash length fork, List.length hash = 32%nat ->
    HashTie.hinterp (env_of [("length", length); ("fork", fork)]) (HashTie.benv_of [("hash", hash)]) items
    = Some (signable hash length fork)).
Proof. exact HashTie.source_hash_layouts_are_the_models. Qed.

(* what the vocabulary means (the definitions live in HashDesc.v / HashTie.v; this pins their meaning; reval / env_of / tied_fn are
   pinned by C06_source_functions_meaning) *)
Theorem C05_source_hash_layouts_meaning :
  (forall ne be, HashTie.hinterp ne be [] = Some []) /\
  (forall ne be it r, HashTie.hinterp ne be (it :: r) =
     match HashTie.hitem_bytes ne be it, HashTie.hinterp ne be r with Some a, Some b => Some (a ++ b) | _, _ => None end) /\
  (forall ne be nm v, HashTie.hitem_bytes ne be (HConst nm v) = Some v) /\
  (forall ne be e, HashTie.hitem_bytes ne be (HLe64 e) = Some (le_bytes 8 (reval ne e))) /\
  (forall ne be e, HashTie.hitem_bytes ne be (HBe64 e) = Some (rev (le_bytes 8 (reval ne e)))) /\
  (forall ne be x, HashTie.hitem_bytes ne be (HRaw x) = Some (be x)) /\
  (forall ne be x, HashTie.hitem_bytes ne be (HHash x) = Some (be x)) /\
  (forall ne be x, HashTie.hitem_bytes ne be (HHash32 x) = Some (be x)) /\
  (forall ne be s, HashTie.hitem_bytes ne be (HOther s) = None) /\
  (forall x, HashTie.benv_of [] x = []) /\
  (forall y v r x, HashTie.benv_of ((y, v) :: r) x = if String.eqb y x then v else HashTie.benv_of r x) /\
  (HashTie.opt_concat [] = Some []) /\
  (forall x r, HashTie.opt_concat (x :: r) = match x, HashTie.opt_concat r with Some a, Some b => Some (a ++ b) | _, _ => None end).
Proof. exact HashTie.hash_desc_meaning. Qed.

Print Assumptions C05_batch_is_reference.
Print Assumptions C05_from_empty.
Print Assumptions C05_signature_over_reference.
Print Assumptions C05_root_sizes.
Print Assumptions C05_no_overflow_panic.
Print Assumptions C05_flat_index_decomposition.
Print Assumptions C05_source_constants.
Print Assumptions C05_tree_is_reference_in_every_state.
Print Assumptions C05_served_proof_is_the_reference_tree.
Print Assumptions C05_served_upgrade_is_signed.
Print Assumptions C05_stored_signature_is_the_heads.
Print Assumptions C05_whole_log_upgrade_verifies.
Print Assumptions C05_signature_invariant_reached.
Print Assumptions ProofContent.toy_state_reached.
Print Assumptions ProofContent.toy_served_block_and_upgrade.
Print Assumptions ProofContent.ex_signature_clauses_hold.
Print Assumptions ProofContent.stale_header_signature_detected.
Print Assumptions ProofContent.always_none_refuted.
Print Assumptions C05_source_hash_layouts.
Print Assumptions C05_source_hash_layouts_meaning.

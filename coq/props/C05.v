(* ADDED IN THE THIRD ROUND: C05_tree_is_reference_in_every_state (memory roots and every node in unflushed map or tree store, in every state reachable by
   appends, clears, reopens); C05_source_constants (hash type bytes and namespaces parsed from /repo/src on every run).
   ---- header of the earlier rounds: ---- *)
(* C05 — Merkle tree, root hash and signature match an independent reference (pinned statements;
   proofs in FlatTreeFacts.v and TreeRef.v). `ref_node cr blocks d o` is the reference tree of the
   Hypercore v10 scheme by structural recursion: leaves are block_node (BLAKE2b over type 0, LE size,
   data), parents are parent_node (type 1, summed LE size, both child hashes), flat in-order numbering;
   ref_roots n are the roots of the binary decomposition of n.
   Proved, for every block sequence and every way of cutting it into batches: the incremental changeset
   (binary-increment carry chain of append_root) produces exactly the reference roots, length, byte
   length, and every node it pushes (= every node later persisted in the oplog entry and the tree store,
   and served in proofs) IS the reference node at its flat index; the signature is the signature over
   (tree namespace, hash of the reference roots, length, fork) and verifies; sizes of reference nodes are
   the sums of the block sizes they span; no overflow panic when the total size fits in u64.
   Partial: that flush/reopen/replay move these nodes to and from storage unchanged is covered by the
   reference-tree oracle of tools/c05.py (raw tree/oplog bytes, proofs) and by the C06 round-trip theorems. *)
From HC Require Import Core FlatTreeFacts TreeRef OffsetFacts Refine ClearRefine Unified1 Corollaries.
From HC Require Import Base Codec Crypto Storage Bitfield Oplog Merkle SrcConsts ConstTie.
From HC Require Import Base NMap Codec CodecFacts Crypto FlatTree Merkle Core FlatTreeFacts TreeRef.

Theorem C05_batch_is_reference : forall cr blocks batch c c' k,
  cs_roots c = ref_roots cr blocks k ->
  cs_length c = k ->
  (forall j, (j < length batch)%nat -> nth j batch [] = blk blocks (k + N.of_nat j)) ->
  cs_append_all cr c batch = Ok c' ->
  cs_roots c' = ref_roots cr blocks (k + N.of_nat (length batch)) /\
  cs_length c' = k + N.of_nat (length batch) /\
  cs_byte_length c' = cs_byte_length c + sumN (map len batch) /\
  cs_batch_length c' = cs_batch_length c + N.of_nat (length batch) /\
  cs_ancestors c' = cs_ancestors c /\
  cs_fork c' = cs_fork c /\
  (batch <> [] -> cs_upgraded c' = true) /\
  (forall n, In n (cs_nodes c') -> In n (cs_nodes c) \/ n = ref_at cr blocks (n_index n)).
Proof. exact cs_append_all_ref. Qed.

Theorem C05_from_empty : forall cr blocks c',
  cs_append_all cr (tree_changeset empty_tree) blocks = Ok c' ->
  cs_roots c' = ref_roots cr blocks (N.of_nat (length blocks)) /\
  cs_length c' = N.of_nat (length blocks) /\
  cs_byte_length c' = sumN (map len blocks) /\
  cs_batch_length c' = N.of_nat (length blocks) /\
  cs_ancestors c' = 0 /\ cs_fork c' = 0 /\
  (forall n, In n (cs_nodes c') -> n = ref_at cr blocks (n_index n)).
Proof. exact cs_append_all_from_empty. Qed.

Theorem C05_signature_over_reference : forall cr blocks batch c c' k sk,
  cs_roots c = ref_roots cr blocks k ->
  cs_length c = k ->
  (forall j, (j < length batch)%nat -> nth j batch [] = blk blocks (k + N.of_nat j)) ->
  cs_append_all cr c batch = Ok c' ->
  let n := k + N.of_nat (length batch) in
  let h := tree_hash cr (ref_roots cr blocks n) in
  let msg := signable h n (cs_fork c') in
  cs_hash (cs_hash_and_sign cr c' sk) = Some h /\
  cs_signature (cs_hash_and_sign cr c' sk) = Some (cr_sign cr sk msg) /\
  cs_roots (cs_hash_and_sign cr c' sk) = ref_roots cr blocks n /\
  cs_length (cs_hash_and_sign cr c' sk) = n /\
  (forall pk_of : bytes -> bytes,
     (forall sk0 m, cr_verify cr (pk_of sk0) m (cr_sign cr sk0 m) = true) ->
     forall s, cs_signature (cs_hash_and_sign cr c' sk) = Some s -> cr_verify cr (pk_of sk) msg s = true).
Proof. exact signature_is_over_reference. Qed.

Theorem C05_root_sizes : forall cr blocks n,
  sumN (map n_length (ref_roots cr blocks n)) = prefix_size blocks n.
Proof. exact ref_roots_size. Qed.

Theorem C05_no_overflow_panic : forall cr blocks,
  sumN (map len blocks) <= u64_max ->
  exists c', cs_append_all cr (tree_changeset empty_tree) blocks = Ok c' /\
             cs_roots c' = ref_roots cr blocks (N.of_nat (length blocks)) /\
             cs_byte_length c' = sumN (map len blocks).
Proof. exact cs_append_all_from_empty_ok. Qed.

(* flat-tree numbering facts the reference rests on *)
Theorem C05_flat_index_decomposition : forall i, i + 1 = 2 ^ ft_depth i * (2 * ft_offset i + 1).
Proof. exact ft_decomp. Qed.

Example C05_ex :
  match cs_append_all toy_crypto (tree_changeset empty_tree) toy_blocks with
  | Ok c' => cs_roots c' = ref_roots toy_crypto toy_blocks 5 /\ map n_index (cs_roots c') = [3; 8] /\
             map n_length (cs_roots c') = [8; 2] /\ cs_length c' = 5 /\ cs_byte_length c' = 10 /\
             map n_index (cs_nodes c') = [0; 2; 1; 4; 6; 5; 3; 8]
  | _ => False
  end.
Proof. exact toy_append_all_is_reference. Qed.

(* Tie to the source, regenerated on every run: the crate's named constants (parsed from /repo/src by
   tools/srcconsts.py into SrcConsts.v) are the values the model uses; `tied None _` (constant renamed away) is True. *)
Theorem C05_source_constants :
  tied src_NODE_SIZE NODE_SIZE /\ tied src_MAX_OPLOG_ENTRIES_BYTE_SIZE MAX_OPLOG_ENTRIES_BYTE_SIZE /\
  tied src_HEADER_SIZE HEADER_SIZE /\ tied (option_map (N.mul 2) src_HEADER_SIZE) ENTRIES_OFFSET /\
  tied src_INITIAL_HEADER_BITS [fst INITIAL_HEADER_BITS; snd INITIAL_HEADER_BITS] /\
  tied src_DYNAMIC_BITFIELD_PAGE_SIZE PAGE_BITS /\ tied src_FIXED_BITFIELD_BITS_LENGTH PAGE_BITS /\
  tied src_FIXED_BITFIELD_BYTES_LENGTH PAGE_BYTES /\ tied (option_map (N.mul 4) src_FIXED_BITFIELD_LENGTH) PAGE_BYTES /\
  tied src_TREE TREE_NS /\ tied src_DEFAULT_NAMESPACE DEFAULT_NAMESPACE /\
  tied src_LEAF_TYPE (firstn 1 (leaf_preimage [])) /\ tied src_ROOT_TYPE (firstn 1 (tree_preimage [])) /\
  (forall a b, tied src_PARENT_TYPE (firstn 1 (parent_preimage a b))) /\
  (forall cr bit partial payload fr, frame cr bit partial payload = Ok fr ->
     tied src_LEADER_SIZE (len fr - len payload) /\ tied src_CRC_SIZE (len (le_bytes 4 (cr_crc cr [])))).
Proof. exact source_constants_are_the_models. Qed.

Theorem C05_tree_is_reference_in_every_state :
  forall (cr : crypto) (c : core) (d : disk) (bs : list bytes) (cl : N -> bool),
         FInv cr c d bs cl ->
         let n := N.of_nat (Datatypes.length bs) in
         t_length (c_tree c) = n /\
         t_byte_length (c_tree c) = sumN (map len bs) /\
         t_fork (c_tree c) = 0 /\
         t_roots (c_tree c) = ref_roots cr bs n /\
         (forall (dd : nat) (o : N),
          (o + 1) * p2 dd <= n ->
          required_node (c_tree c) (d_tree d) (ft_index (N.of_nat dd) o) = Ok (ref_node cr bs dd o)).
Proof. exact tree_is_reference_everywhere. Qed.

Print Assumptions C05_batch_is_reference.
Print Assumptions C05_from_empty.
Print Assumptions C05_signature_over_reference.
Print Assumptions C05_root_sizes.
Print Assumptions C05_no_overflow_panic.
Print Assumptions C05_flat_index_decomposition.
Print Assumptions C05_source_constants.
Print Assumptions C05_tree_is_reference_in_every_state.

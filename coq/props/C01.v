(* C01 — log contents equal an append-only list model (pinned statements of the PROVED COMPONENTS; proofs
   in StorageFacts.v, OffsetFacts.v, TreeRef.v, BitfieldFacts.v, CoreFacts.v).
   The full refinement statement (every history over append / batch / clear / get / has / info / reopen
   observes exactly the list model) is NOT proved as one theorem; what is proved are the facts it rests on:
   (1) storage: a read returns what was written there, writes elsewhere do not disturb it, writing at the end
       appends, delete zero-fills or truncates as random-access-memory does, shrink-then-grow exposes zeros;
   (2) the block data of an append is written at offset = byte length and the oplog entry after it, the flush
       group after that (journal order);
   (3) the tree built by any batching of appends is the reference tree, whose node sizes are the sums of the
       block sizes they span (C05), and the byte-offset walk over a tree with such sizes returns the sum of the
       sizes of the roots and leaves strictly to the left of the block = the prefix sum of the block sizes;
   (4) has(i) after any sequence of set/clear updates is the range semantics (C08); clear never sends events
       and get of a missing block returns None without side effect (C13).
   The composition across flush / reopen / replay is decided on every run by tools/c01.py: corpus,
   bounded-exhaustive and random histories with reopen after arbitrary prefixes and a core crossing 8192 and
   32768 blocks, judged by the list-model oracle and compared operation by operation with the Coq model. *)
From HC Require Import Base NMap Codec Crypto FlatTree Storage Bitfield Oplog Merkle Core.
From HC Require Import StorageFacts OffsetFacts TreeRef CoreFacts.

Theorem C01_read_after_write : forall f off data,
  f_read (f_write f off data) off (len data) = Some data.
Proof. exact f_read_write_same. Qed.

Theorem C01_write_elsewhere_preserves : forall f off data off' n,
  off' + n <= f_len f -> (off' + n <= off \/ off + len data <= off') ->
  f_read (f_write f off data) off' n = f_read f off' n.
Proof. exact f_read_write_other. Qed.

Theorem C01_write_at_end_appends : forall f data,
  f_content (f_write f (f_len f) data) = f_content f ++ data.
Proof. exact f_content_write_append. Qed.

Theorem C01_delete_semantics : forall f off n,
  (f_del f off n = None <-> f_len f < off) /\
  (forall f', f_del f off n = Some f' ->
     (n = 0 -> feq f' f) /\
     (n <> 0 -> f_len f <= off + n -> feq f' (f_truncate f off)) /\
     (n <> 0 -> off + n < f_len f ->
        f_len f' = f_len f /\
        (forall i, off <= i -> i < off + n -> f_byte f' i = 0) /\
        (forall i, i < off \/ off + n <= i -> f_byte f' i = f_byte f i))).
Proof. exact f_del_spec. Qed.

Theorem C01_append_journal_order : forall cr f batch c w c' w' x,
  core_append cr f batch c w = (c', w', Ok x) -> batch <> [] ->
  exists delta fr fl,
    w_journal w' = rev delta ++ w_journal w /\
    delta = SW Data (t_byte_length (c_tree c)) (concat batch)
            :: SW Oplog (ENTRIES_OFFSET + ol_entries_bytes (c_oplog c)) fr :: fl /\
    (fl = [] \/ flush_shape fl).
Proof. exact append_journal_order. Qed.

Theorem C01_byte_offset_is_left_sum : forall t tf sz pre r post index head off,
  let d := N.to_nat (ft_depth (n_index r)) in
  skipped pre head index ->
  heads pre head = span_lo d (it_new (n_index r)) ->
  (d < CLIMB)%nat ->
  index mod 2 = 0 ->
  heads pre head <= index ->
  index < next_head (heads pre head) r ->
  lookups_ok t tf sz d (it_new (n_index r)) ->
  offset_roots t tf (pre ++ r :: post) index head off =
  Ok (off + sumN (map n_length pre) + left_sum sz d (it_new (n_index r)) index).
Proof. exact offset_roots_spec. Qed.

Theorem C01_left_sum_is_leaf_prefix : forall sz A B,
  sizes_consistent sz A B ->
  forall d it index,
  shaped d it -> A + p2 d <= it_index it + 1 -> it_index it + p2 d <= B + 1 ->
  index mod 2 = 0 -> in_span d it index ->
  left_sum sz d it index = leaf_sum sz (span_lo d it) (N.to_nat ((index - span_lo d it) / 2)).
Proof. exact left_sum_leaf_sum. Qed.

Theorem C01_node_sizes_are_block_sums : forall cr blocks d o,
  n_length (ref_node cr blocks d o) = ref_size blocks d o /\
  prefix_size blocks (o * 2 ^ N.of_nat d) + ref_size blocks d o = prefix_size blocks ((o + 1) * 2 ^ N.of_nat d).
Proof. exact ref_node_size. Qed.

Print Assumptions C01_read_after_write.
Print Assumptions C01_write_elsewhere_preserves.
Print Assumptions C01_write_at_end_appends.
Print Assumptions C01_delete_semantics.
Print Assumptions C01_append_journal_order.
Print Assumptions C01_byte_offset_is_left_sum.
Print Assumptions C01_left_sum_is_leaf_prefix.
Print Assumptions C01_node_sizes_are_block_sums.

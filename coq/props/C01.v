(* C01 — log contents equal an append-only list model (pinned statements, generated from the types Coq reports;
   proofs in Refine.v, StorageFacts.v, OffsetFacts.v, TreeRef.v, CoreFacts.v).
   PROVED END TO END for the fragment {append, batch append (empty batches, empty blocks included), get, has,
   info} from the creation of a writer, for EVERY sequence of flush decisions (theorems C01_fresh_history /
   C01_history): the observations of the model equal the list model's (`spec_obs`: get i = the i-th appended
   block or None, length = count, byte length = total size, contiguous length = count), with core, disk and
   journal untouched by reads. The invariant WInv (tree = reference tree with every full node found by lookup in
   the unflushed map or the tree store, bitfield = [0,n), data file = concatenation of the blocks) is established by
   creation and preserved by every append, including across flushes that move nodes to the store.
   Hypotheses, all satisfiable and exhibited by the toy instance of Refine.v: the hash returns 32 bytes and never
   32 zero bytes (a node whose hash is all zeros is treated as blank by the crate — `blank_hash_breaks_reads` shows
   the model failing without this; for BLAKE2b this has probability 2^-256), totals below 2^64; the only other
   outcome allowed is the crate's own panic for an oplog entry larger than 2^30 bytes.
   NOT proved: clears and close/reopen (replay). Those parts of the property are decided on every run by tools/c01.py
   (corpus, bounded-exhaustive and random histories with clears and reopen after arbitrary prefixes, "epoch"
   histories, a core crossing 8192 and 32768 blocks) under the list-model oracle, with the model executed side by
   side; the components they rest on are proved: storage semantics incl. delete (below), C06 (what is written is
   read back), C08 (bitfield and contiguous length under replay), C02 (which header/entries a reopen sees). *)
From HC Require Import Base NMap Codec Crypto FlatTree Storage Bitfield Oplog Merkle Core StorageFacts OffsetFacts TreeRef CoreFacts Refine.

Theorem C01_fresh_history :
  forall cr : crypto,
         (forall x : bytes, Datatypes.length (cr_hash cr x) = 32%nat) ->
         (forall x : bytes, all_zero (cr_hash cr x) = false) ->
         forall (kp : keypair) (sk : bytes) (ops : list wop),
         OplogFacts.keypair_ok kp = true ->
         kp_secret kp = Some sk ->
         sumN (map len (appended ops)) <= u64_max ->
         NODE_SIZE * (2 * N.of_nat (Datatypes.length (appended ops))) <= u64_max ->
         exists (d0 : disk) (ops0 : list sop) (c0 : core),
           core_open cr (Some kp) false disk_empty = (d0, ops0, Ok c0) /\
           (run_obs cr ops c0 {| w_disk := d0; w_journal := []; w_events := [] |} = spec_obs ops [] \/
            (exists k : nat,
               run_obs cr ops c0 {| w_disk := d0; w_journal := []; w_events := [] |} =
               firstn k (spec_obs ops []) ++ [OAppend (Panic frame_msg)])).
Proof. exact fresh_history_correct. Qed.

Theorem C01_history :
  forall cr : crypto,
         (forall x : bytes, Datatypes.length (cr_hash cr x) = 32%nat) ->
         (forall x : bytes, all_zero (cr_hash cr x) = false) ->
         forall (ops : list wop) (c : core) (d : disk) (j : list sop) (ev : list event) 
           (bs : list bytes) (sk : bytes),
         WInv cr c d bs ->
         kp_secret (c_keypair c) = Some sk ->
         sumN (map len (bs ++ appended ops)) <= u64_max ->
         NODE_SIZE * (2 * N.of_nat (Datatypes.length (bs ++ appended ops))) <= u64_max ->
         run_obs cr ops c {| w_disk := d; w_journal := j; w_events := ev |} = spec_obs ops bs \/
         (exists k : nat,
            run_obs cr ops c {| w_disk := d; w_journal := j; w_events := ev |} =
            firstn k (spec_obs ops bs) ++ [OAppend (Panic frame_msg)]).
Proof. exact history_correct. Qed.

Theorem C01_creation_establishes_invariant :
  forall (cr : crypto) (kp : keypair),
         OplogFacts.keypair_ok kp = true ->
         exists (d' : disk) (ops : list sop) (c : core),
           core_open cr (Some kp) false disk_empty = (d', ops, Ok c) /\ WInv cr c d' [] /\ c_keypair c = kp.
Proof. exact WInv_init_keypair_ok. Qed.

Theorem C01_append_preserves_invariant :
  forall cr : crypto,
         (forall x : bytes, Datatypes.length (cr_hash cr x) = 32%nat) ->
         (forall x : bytes, all_zero (cr_hash cr x) = false) ->
         forall (f : option bool) (batch : list bytes) (c : core) (d : disk) (j : list sop) 
           (ev : list event) (bs : list bytes) (sk : bytes) (c' : core) (w' : world) 
           (r : res (N * N)),
         WInv cr c d bs ->
         kp_secret (c_keypair c) = Some sk ->
         sumN (map len (bs ++ batch)) <= u64_max ->
         NODE_SIZE * (2 * N.of_nat (Datatypes.length (bs ++ batch))) <= u64_max ->
         core_append cr f batch c {| w_disk := d; w_journal := j; w_events := ev |} = (c', w', r) ->
         r = Panic frame_msg \/
         r = Ok (N.of_nat (Datatypes.length (bs ++ batch)), sumN (map len (bs ++ batch))) /\
         WInv cr c' (w_disk w') (bs ++ batch) /\ c_keypair c' = c_keypair c.
Proof. exact append_preserves. Qed.

Theorem C01_get_returns_the_block :
  forall (cr : crypto) (c : core) (d : disk) (bs : list bytes) (j : list sop) (ev : list event) (i : N),
         WInv cr c d bs ->
         core_get i c {| w_disk := d; w_journal := j; w_events := ev |} =
         (if i <? N.of_nat (Datatypes.length bs)
          then (c, {| w_disk := d; w_journal := j; w_events := ev |}, Ok (Some (nth (N.to_nat i) bs [])))
          else (c, {| w_disk := d; w_journal := j; w_events := EvGet i :: ev |}, Ok None)).
Proof. exact get_correct. Qed.

Theorem C01_byte_range_is_prefix_sum :
  forall (cr : crypto) (c : core) (d : disk) (bs : list bytes) (i : N),
         WInv cr c d bs ->
         i < N.of_nat (Datatypes.length bs) ->
         byte_range (c_tree c) (d_tree d) i = Ok (prefix_size bs i, len (nth (N.to_nat i) bs [])).
Proof. exact byte_range_correct. Qed.

Theorem C01_flush_preserves_lookups :
  forall (t t' : mtree) (ops : list sop) (d d' : disk) (i : N) (n : node),
         tree_flush t = Ok (t', ops) ->
         apply_sops d ops = Some d' ->
         unflushed_ok t ->
         NODE_SIZE * i <= u64_max ->
         required_node t (d_tree d) i = Ok n -> required_node t' (d_tree d') i = Ok n.
Proof. exact tree_flush_preserves_lookups. Qed.

Theorem C01_read_after_write :
  forall (f : file) (off : N) (data : bytes), f_read (f_write f off data) off (len data) = Some data.
Proof. exact f_read_write_same. Qed.

Theorem C01_write_elsewhere_preserves :
  forall (f : file) (off : N) (data : bytes) (off' n : N),
         off' + n <= f_len f ->
         off' + n <= off \/ off + len data <= off' -> f_read (f_write f off data) off' n = f_read f off' n.
Proof. exact f_read_write_other. Qed.

Theorem C01_write_at_end_appends :
  forall (f : file) (data : bytes), f_content (f_write f (f_len f) data) = f_content f ++ data.
Proof. exact f_content_write_append. Qed.

Theorem C01_delete_semantics :
  forall (f : file) (off n : N),
         (f_del f off n = None <-> f_len f < off) /\
         (forall f' : file,
          f_del f off n = Some f' ->
          (n = 0 -> feq f' f) /\
          (n <> 0 -> f_len f <= off + n -> feq f' (f_truncate f off)) /\
          (n <> 0 ->
           off + n < f_len f ->
           f_len f' = f_len f /\
           (forall i : N, off <= i -> i < off + n -> f_byte f' i = 0) /\
           (forall i : N, i < off \/ off + n <= i -> f_byte f' i = f_byte f i))).
Proof. exact f_del_spec. Qed.

Theorem C01_append_journal_order :
  forall (cr : crypto) (f : option bool) (batch : list bytes) (c : core) (w : world) 
           (c' : core) (w' : world) (x : N * N),
         core_append cr f batch c w = (c', w', Ok x) ->
         batch <> [] ->
         exists (delta : list sop) (fr : bytes) (fl : list sop),
           w_journal w' = rev delta ++ w_journal w /\
           delta =
           SW Data (t_byte_length (c_tree c)) (concat batch)
           :: SW Oplog (ENTRIES_OFFSET + ol_entries_bytes (c_oplog c)) fr :: fl /\ 
           (fl = [] \/ flush_shape fl).
Proof. exact append_journal_order. Qed.

Theorem C01_byte_offset_is_left_sum :
  forall (t : mtree) (tf : file) (sz : N -> N) (pre : list node) (r : node) 
           (post : list node) (index head off : N),
         let d := N.to_nat (ft_depth (n_index r)) in
         skipped pre head index ->
         heads pre head = span_lo d (it_new (n_index r)) ->
         (d < CLIMB)%nat ->
         index mod 2 = 0 ->
         heads pre head <= index ->
         index < next_head (heads pre head) r ->
         lookups_ok t tf sz d (it_new (n_index r)) ->
         offset_roots t tf (pre ++ r :: post) index head off =
         Ok (off + sumN (map n_length pre) + left_sum sz d (it_new (n_index r)) index).
Proof. exact offset_roots_spec. Qed.

Theorem C01_node_sizes_are_block_sums :
  forall (cr : crypto) (blocks : list bytes) (d : nat) (o : N),
         n_length (ref_node cr blocks d o) = ref_size blocks d o /\
         prefix_size blocks (o * 2 ^ N.of_nat d) + ref_size blocks d o =
         prefix_size blocks ((o + 1) * 2 ^ N.of_nat d).
Proof. exact ref_node_size. Qed.

Print Assumptions C01_fresh_history.
Print Assumptions C01_history.
Print Assumptions C01_creation_establishes_invariant.
Print Assumptions C01_append_preserves_invariant.
Print Assumptions C01_get_returns_the_block.
Print Assumptions C01_byte_range_is_prefix_sum.
Print Assumptions C01_flush_preserves_lookups.
Print Assumptions C01_read_after_write.
Print Assumptions C01_write_elsewhere_preserves.
Print Assumptions C01_write_at_end_appends.
Print Assumptions C01_delete_semantics.
Print Assumptions C01_append_journal_order.
Print Assumptions C01_byte_offset_is_left_sum.
Print Assumptions C01_node_sizes_are_block_sums.
Print Assumptions toy_history.
Print Assumptions blank_hash_breaks_reads.

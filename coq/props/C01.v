(* ADDED IN THE THIRD ROUND (Unified1-3.v): the two invariants are merged — FInv covers append, clear AND reopen, so histories mixing
   clears with reopen are now proved (C01_history_with_clears_and_reopen, C01_fresh_history_with_clears_and_reopen, C01_unified_invariant_*,
   C01_reopen_changes_no_observation_with_clears); the remark 'NOT proved: histories mixing clears WITH reopen' below is superseded.
   ---- header of the earlier rounds: ---- *)
(* C01 — log contents equal an append-only list model (pinned statements, generated from the types Coq reports;
   proofs in Refine.v, Reopen.v, ClearRefine.v, StorageFacts.v, OffsetFacts.v, TreeRef.v, CoreFacts.v).
   PROVED END TO END, from the creation of a writer and for EVERY sequence of flush decisions:
   (A) histories over {append, batch append (empty batches and empty blocks included), get, has, info, drop-and-reopen}
       observe exactly the list model (C01_fresh_history_with_reopen): get i = the i-th appended block or None,
       length = count, byte length = total size, contiguous length = count; reopening changes no observation
       (C01_reopen_changes_no_observation) and re-establishes the disk invariant DInv (oplog file = header slots +
       entries as in Crash.v, tree store, bitfield store, data store), also with unflushed entries pending (replay);
   (B) histories over {append, batch append, clear(start<end, start<length, end possibly beyond the length), get, has, info}
       observe exactly the list-with-cleared-set model (C01_fresh_history_with_clears): nothing for cleared or
       never-written indices, clearing affects no block outside its range (C01_clear_affects_nothing_outside), contiguous
       length = smallest index not held.
   Hypotheses, all satisfiable and exhibited by the toy instances (Examples toy_history*, proved by vm_compute): the hash
   returns 32 genuine bytes and never 32 zero bytes (the crate treats an all-zero hash as a blank node —
   `blank_hash_breaks_reads` shows the model failing without this; probability 2^-256 for BLAKE2b), signatures are 64
   genuine bytes, the CRC fits 32 bits, totals below 2^64; the only other outcome allowed is the crate's own panic for an
   oplog entry above 2^30 bytes.
   The proof attempt of (B) REFUTED the statement on the unrepaired crate (clear behind a stranded empty block failed with
   InvalidOperation); the witness was replayed on the crate, repaired there (fix commit, known_findings.txt D24) and is
   kept as the regression Example stranded_empty_block_clear_ok.
   NOT proved: histories mixing clears WITH reopen (the two invariants are not yet merged). That combination is decided on
   every run by tools/c01.py under the list-model oracle, with the model executed side by side. *)
From HC Require Import FrameGuardLib FrameGuard FrameGuardUnified.
From HC Require Import ClearBeyond ClearBeyondTight.
From HC Require Import Base NMap Codec Crypto FlatTree Storage Bitfield Oplog Merkle Core OplogFacts StorageFacts OffsetFacts TreeRef CoreFacts Refine ClearRefine Reopen.
From HC Require Import Unified1 Unified2 Unified3.

Theorem C01_fresh_history_with_reopen :
  forall cr : crypto,
         crc_ok cr ->
         (forall x : bytes, Datatypes.length (cr_hash cr x) = 32%nat) ->
         (forall x : bytes, all_zero (cr_hash cr x) = false) ->
         (forall x : bytes, bytes_ok (cr_hash cr x) = true) ->
         (forall sk m : bytes, Datatypes.length (cr_sign cr sk m) = 64%nat) ->
         (forall sk m : bytes, bytes_ok (cr_sign cr sk m) = true) ->
         forall (kp : keypair) (sk : bytes) (ops : list rop),
         keypair_ok kp = true ->
         kp_secret kp = Some sk ->
         sumN (map len (rappended ops)) <= u64_max ->
         NODE_SIZE * (2 * N.of_nat (Datatypes.length (rappended ops))) <= u64_max ->
         exists (d0 : disk) (ops0 : list sop) (c0 : core),
           core_open cr (Some kp) false disk_empty = (d0, ops0, Ok c0) /\
           (rrun_obs cr ops c0 {| w_disk := d0; w_journal := []; w_events := [] |} = rspec_obs ops [] \/
            (exists k : nat,
               rrun_obs cr ops c0 {| w_disk := d0; w_journal := []; w_events := [] |} =
               firstn k (rspec_obs ops []) ++ [ROAppend (Panic frame_msg)])).
Proof. exact fresh_history_with_reopen_correct. Qed.

Theorem C01_history_with_reopen :
  forall cr : crypto,
         crc_ok cr ->
         (forall x : bytes, Datatypes.length (cr_hash cr x) = 32%nat) ->
         (forall x : bytes, all_zero (cr_hash cr x) = false) ->
         (forall x : bytes, bytes_ok (cr_hash cr x) = true) ->
         (forall sk m : bytes, Datatypes.length (cr_sign cr sk m) = 64%nat) ->
         (forall sk m : bytes, bytes_ok (cr_sign cr sk m) = true) ->
         forall (ops : list rop) (c : core) (d : disk) (j : list sop) (ev : list event) 
           (bs : list bytes) (sk : bytes),
         DInv cr c d bs ->
         kp_secret (c_keypair c) = Some sk ->
         sumN (map len (bs ++ rappended ops)) <= u64_max ->
         NODE_SIZE * (2 * N.of_nat (Datatypes.length (bs ++ rappended ops))) <= u64_max ->
         rrun_obs cr ops c {| w_disk := d; w_journal := j; w_events := ev |} = rspec_obs ops bs \/
         (exists k : nat,
            rrun_obs cr ops c {| w_disk := d; w_journal := j; w_events := ev |} =
            firstn k (rspec_obs ops bs) ++ [ROAppend (Panic frame_msg)]).
Proof. exact history_with_reopen_correct. Qed.

Theorem C01_reopen_changes_no_observation :
  forall cr : crypto,
         crc_ok cr ->
         (forall x : bytes, Datatypes.length (cr_hash cr x) = 32%nat) ->
         (forall x : bytes, all_zero (cr_hash cr x) = false) ->
         (forall x : bytes, bytes_ok (cr_hash cr x) = true) ->
         forall (c : core) (d : disk) (bs : list bytes),
         DInv cr c d bs ->
         exists c' : core,
           core_open cr None true d = (d, [], Ok c') /\
           DInv cr c' d bs /\
           core_info c' = core_info c /\
           (forall i : N, core_has c' i = core_has c i) /\
           (forall (i : N) (j : list sop) (ev : list event),
            snd (core_get i c' {| w_disk := d; w_journal := j; w_events := ev |}) =
            snd (core_get i c {| w_disk := d; w_journal := j; w_events := ev |}) /\
            snd (fst (core_get i c' {| w_disk := d; w_journal := j; w_events := ev |})) =
            snd (fst (core_get i c {| w_disk := d; w_journal := j; w_events := ev |}))).
Proof. exact reopen_observations. Qed.

Theorem C01_reopen_reestablishes_invariant :
  forall cr : crypto,
         crc_ok cr ->
         (forall x : bytes, Datatypes.length (cr_hash cr x) = 32%nat) ->
         (forall x : bytes, all_zero (cr_hash cr x) = false) ->
         (forall x : bytes, bytes_ok (cr_hash cr x) = true) ->
         forall (c : core) (d : disk) (bs : list bytes),
         DInv cr c d bs ->
         exists c' : core,
           core_open cr None true d = (d, [], Ok c') /\
           DInv cr c' d bs /\
           c_keypair c' = c_keypair c /\
           core_info c' = core_info c /\ (forall i : N, core_has c' i = core_has c i).
Proof. exact reopen_correct. Qed.

Theorem C01_append_preserves_disk_invariant :
  forall cr : crypto,
         crc_ok cr ->
         (forall x : bytes, Datatypes.length (cr_hash cr x) = 32%nat) ->
         (forall x : bytes, all_zero (cr_hash cr x) = false) ->
         (forall x : bytes, bytes_ok (cr_hash cr x) = true) ->
         (forall sk m : bytes, Datatypes.length (cr_sign cr sk m) = 64%nat) ->
         (forall sk m : bytes, bytes_ok (cr_sign cr sk m) = true) ->
         forall (f : option bool) (batch : list bytes) (c : core) (d : disk) (j : list sop) 
           (ev : list event) (bs : list bytes) (sk : bytes) (c' : core) (w' : world) 
           (r : res (N * N)),
         DInv cr c d bs ->
         kp_secret (c_keypair c) = Some sk ->
         sumN (map len (bs ++ batch)) <= u64_max ->
         NODE_SIZE * (2 * N.of_nat (Datatypes.length (bs ++ batch))) <= u64_max ->
         core_append cr f batch c {| w_disk := d; w_journal := j; w_events := ev |} = (c', w', r) ->
         r = Panic frame_msg \/
         r = Ok (N.of_nat (Datatypes.length (bs ++ batch)), sumN (map len (bs ++ batch))) /\
         DInv cr c' (w_disk w') (bs ++ batch) /\ c_keypair c' = c_keypair c.
Proof. exact append_DInv. Qed.

Theorem C01_creation_establishes_disk_invariant :
  forall cr : crypto,
         crc_ok cr ->
         (forall x : bytes, Datatypes.length (cr_hash cr x) = 32%nat) ->
         (forall x : bytes, all_zero (cr_hash cr x) = false) ->
         (forall x : bytes, bytes_ok (cr_hash cr x) = true) ->
         forall kp : keypair,
         keypair_ok kp = true ->
         exists (d' : disk) (ops : list sop) (c : core),
           core_open cr (Some kp) false disk_empty = (d', ops, Ok c) /\ DInv cr c d' [] /\ c_keypair c = kp.
Proof. exact DInv_init. Qed.

Theorem C01_fresh_history_with_clears :
  forall cr : crypto,
         (forall x : bytes, Datatypes.length (cr_hash cr x) = 32%nat) ->
         (forall x : bytes, all_zero (cr_hash cr x) = false) ->
         forall (kp : keypair) (sk : bytes) (ops : list cop),
         keypair_ok kp = true ->
         kp_secret kp = Some sk ->
         wf_c ops 0 ->
         sumN (map len (appended_c ops)) <= u64_max ->
         NODE_SIZE * (2 * N.of_nat (Datatypes.length (appended_c ops))) <= u64_max ->
         exists (d0 : disk) (ops0 : list sop) (c0 : core),
           core_open cr (Some kp) false disk_empty = (d0, ops0, Ok c0) /\
           (run_obs_c cr ops c0 {| w_disk := d0; w_journal := []; w_events := [] |} =
            spec_obs_c ops [] (fun _ : N => false) \/
            (exists (k : nat) (o : cobs),
               run_obs_c cr ops c0 {| w_disk := d0; w_journal := []; w_events := [] |} =
               firstn k (spec_obs_c ops [] (fun _ : N => false)) ++ [o] /\ stop_obs o)).
Proof. exact fresh_history_correct_c. Qed.

Theorem C01_history_with_clears :
  forall cr : crypto,
         (forall x : bytes, Datatypes.length (cr_hash cr x) = 32%nat) ->
         (forall x : bytes, all_zero (cr_hash cr x) = false) ->
         forall (ops : list cop) (c : core) (d : disk) (j : list sop) (ev : list event) 
           (bs : list bytes) (cl : N -> bool) (sk : bytes),
         CInv cr c d bs cl ->
         kp_secret (c_keypair c) = Some sk ->
         wf_c ops (N.of_nat (Datatypes.length bs)) ->
         sumN (map len (bs ++ appended_c ops)) <= u64_max ->
         NODE_SIZE * (2 * N.of_nat (Datatypes.length (bs ++ appended_c ops))) <= u64_max ->
         run_obs_c cr ops c {| w_disk := d; w_journal := j; w_events := ev |} = spec_obs_c ops bs cl \/
         (exists (k : nat) (o : cobs),
            run_obs_c cr ops c {| w_disk := d; w_journal := j; w_events := ev |} =
            firstn k (spec_obs_c ops bs cl) ++ [o] /\ stop_obs o).
Proof. exact history_correct_c. Qed.

Theorem C01_clear_preserves_invariant :
  forall cr : crypto,
         (forall x : bytes, Datatypes.length (cr_hash cr x) = 32%nat) ->
         (forall x : bytes, all_zero (cr_hash cr x) = false) ->
         forall (f : option bool) (c : core) (d : disk) (j : list sop) (ev : list event) 
           (bs : list bytes) (cl : N -> bool) (start end_ : N) (c' : core) (w' : world) 
           (r : res unit),
         let n := N.of_nat (Datatypes.length bs) in
         CInv cr c d bs cl ->
         start < n ->
         start < end_ ->
         core_clear cr f start end_ c {| w_disk := d; w_journal := j; w_events := ev |} = (c', w', r) ->
         r = Ok tt /\ CInv cr c' (w_disk w') bs (cl_clear cl start end_) /\ c_keypair c' = c_keypair c \/
         r = Panic frame_msg.
Proof. exact clear_preserves. Qed.

Theorem C01_clear_affects_nothing_outside :
  forall cr : crypto,
         (forall x : bytes, Datatypes.length (cr_hash cr x) = 32%nat) ->
         (forall x : bytes, all_zero (cr_hash cr x) = false) ->
         forall (f : option bool) (c : core) (d : disk) (j : list sop) (ev : list event) 
           (bs : list bytes) (cl : N -> bool) (start end_ : N) (c' : core) (d' : disk) 
           (j' : list sop) (ev' : list event) (i : N),
         let n := N.of_nat (Datatypes.length bs) in
         CInv cr c d bs cl ->
         start < n ->
         start < end_ ->
         core_clear cr f start end_ c {| w_disk := d; w_journal := j; w_events := ev |} =
         (c', {| w_disk := d'; w_journal := j'; w_events := ev' |}, Ok tt) ->
         i < start \/ end_ <= i ->
         core_has c' i = core_has c i /\
         (forall (j1 : list sop) (ev1 : list event) (j2 : list sop) (ev2 : list event),
          snd (core_get i c' {| w_disk := d'; w_journal := j1; w_events := ev1 |}) =
          snd (core_get i c {| w_disk := d; w_journal := j2; w_events := ev2 |})).
Proof. exact clear_outside. Qed.

Theorem C01_get_with_cleared_set :
  forall (cr : crypto) (c : core) (d : disk) (bs : list bytes) (cl : N -> bool) 
           (j : list sop) (ev : list event) (i : N),
         CInv cr c d bs cl ->
         core_get i c {| w_disk := d; w_journal := j; w_events := ev |} =
         (if held (N.of_nat (Datatypes.length bs)) cl i
          then (c, {| w_disk := d; w_journal := j; w_events := ev |}, Ok (Some (nth (N.to_nat i) bs [])))
          else (c, {| w_disk := d; w_journal := j; w_events := EvGet i :: ev |}, Ok None)).
Proof. exact get_correct_c. Qed.

Theorem C01_info_with_cleared_set :
  forall (cr : crypto) (c : core) (d : disk) (bs : list bytes) (cl : N -> bool),
         CInv cr c d bs cl ->
         core_info c =
         {|
           i_length := N.of_nat (Datatypes.length bs);
           i_byte_length := sumN (map len bs);
           i_contiguous := spec_contig bs cl;
           i_fork := 0;
           i_writeable := match kp_secret (c_keypair c) with
                          | Some _ => true
                          | None => false
                          end
         |} /\
         spec_contig bs cl <= N.of_nat (Datatypes.length bs) /\
         (forall i : N, i < spec_contig bs cl -> held (N.of_nat (Datatypes.length bs)) cl i = true) /\
         held (N.of_nat (Datatypes.length bs)) cl (spec_contig bs cl) = false.
Proof. exact info_correct_c. Qed.

Theorem C01_fresh_history :
  forall cr : crypto,
         (forall x : bytes, Datatypes.length (cr_hash cr x) = 32%nat) ->
         (forall x : bytes, all_zero (cr_hash cr x) = false) ->
         forall (kp : keypair) (sk : bytes) (ops : list wop),
         keypair_ok kp = true ->
         kp_secret kp = Some sk ->
         sumN (map len (appended ops)) <= u64_max ->
         NODE_SIZE * (2 * N.of_nat (Datatypes.length (appended ops))) <= u64_max ->
         exists (d0 : disk) (ops0 : list sop) (c0 : core),
           core_open cr (Some kp) false disk_empty = (d0, ops0, Ok c0) /\
           (run_obs cr ops c0 {| w_disk := d0; w_journal := []; w_events := [] |} = spec_obs ops [] \/
            (exists k : nat,
               run_obs cr ops c0 {| w_disk := d0; w_journal := []; w_events := [] |} =
               firstn k (spec_obs ops []) ++ [OAppend (Panic frame_msg)])).
Proof. exact fresh_history_correct. Qed.

Theorem C01_append_preserves_invariant :
  forall cr : crypto,
         (forall x : bytes, Datatypes.length (cr_hash cr x) = 32%nat) ->
         (forall x : bytes, all_zero (cr_hash cr x) = false) ->
         forall (f : option bool) (batch : list bytes) (c : core) (d : disk) (j : list sop) 
           (ev : list event) (bs : list bytes) (sk : bytes) (c' : core) (w' : world) 
           (r : res (N * N)),
         WInv cr c d bs ->
         kp_secret (c_keypair c) = Some sk ->
         sumN (map len (bs ++ batch)) <= u64_max ->
         NODE_SIZE * (2 * N.of_nat (Datatypes.length (bs ++ batch))) <= u64_max ->
         core_append cr f batch c {| w_disk := d; w_journal := j; w_events := ev |} = (c', w', r) ->
         r = Panic frame_msg \/
         r = Ok (N.of_nat (Datatypes.length (bs ++ batch)), sumN (map len (bs ++ batch))) /\
         WInv cr c' (w_disk w') (bs ++ batch) /\ c_keypair c' = c_keypair c.
Proof. exact append_preserves. Qed.

Theorem C01_get_returns_the_block :
  forall (cr : crypto) (c : core) (d : disk) (bs : list bytes) (j : list sop) (ev : list event) (i : N),
         WInv cr c d bs ->
         core_get i c {| w_disk := d; w_journal := j; w_events := ev |} =
         (if i <? N.of_nat (Datatypes.length bs)
          then (c, {| w_disk := d; w_journal := j; w_events := ev |}, Ok (Some (nth (N.to_nat i) bs [])))
          else (c, {| w_disk := d; w_journal := j; w_events := EvGet i :: ev |}, Ok None)).
Proof. exact get_correct. Qed.

Theorem C01_byte_range_is_prefix_sum :
  forall (cr : crypto) (c : core) (d : disk) (bs : list bytes) (i : N),
         WInv cr c d bs ->
         i < N.of_nat (Datatypes.length bs) ->
         byte_range (c_tree c) (d_tree d) i = Ok (prefix_size bs i, len (nth (N.to_nat i) bs [])).
Proof. exact byte_range_correct. Qed.

Theorem C01_flush_preserves_lookups :
  forall (t t' : mtree) (ops : list sop) (d d' : disk) (i : N) (n : node),
         tree_flush t = Ok (t', ops) ->
         apply_sops d ops = Some d' ->
         unflushed_ok t ->
         NODE_SIZE * i <= u64_max ->
         required_node t (d_tree d) i = Ok n -> required_node t' (d_tree d') i = Ok n.
Proof. exact tree_flush_preserves_lookups. Qed.

Theorem C01_read_after_write :
  forall (f : file) (off : N) (data : bytes), f_read (f_write f off data) off (len data) = Some data.
Proof. exact f_read_write_same. Qed.

Theorem C01_write_elsewhere_preserves :
  forall (f : file) (off : N) (data : bytes) (off' n : N),
         off' + n <= f_len f ->
         off' + n <= off \/ off + len data <= off' -> f_read (f_write f off data) off' n = f_read f off' n.
Proof. exact f_read_write_other. Qed.

Theorem C01_write_at_end_appends :
  forall (f : file) (data : bytes), f_content (f_write f (f_len f) data) = f_content f ++ data.
Proof. exact f_content_write_append. Qed.

Theorem C01_delete_semantics :
  forall (f : file) (off n : N),
         (f_del f off n = None <-> f_len f < off) /\
         (forall f' : file,
          f_del f off n = Some f' ->
          (n = 0 -> feq f' f) /\
          (n <> 0 -> f_len f <= off + n -> feq f' (f_truncate f off)) /\
          (n <> 0 ->
           off + n < f_len f ->
           f_len f' = f_len f /\
           (forall i : N, off <= i -> i < off + n -> f_byte f' i = 0) /\
           (forall i : N, i < off \/ off + n <= i -> f_byte f' i = f_byte f i))).
Proof. exact f_del_spec. Qed.

Theorem C01_append_journal_order :
  forall (cr : crypto) (f : option bool) (batch : list bytes) (c : core) (w : world) 
           (c' : core) (w' : world) (x : N * N),
         core_append cr f batch c w = (c', w', Ok x) ->
         batch <> [] ->
         exists (delta : list sop) (fr : bytes) (fl : list sop),
           w_journal w' = rev delta ++ w_journal w /\
           delta =
           SW Data (t_byte_length (c_tree c)) (concat batch)
           :: SW Oplog (ENTRIES_OFFSET + ol_entries_bytes (c_oplog c)) fr :: fl /\ 
           (fl = [] \/ flush_shape fl).
Proof. exact append_journal_order. Qed.

Theorem C01_history_with_clears_and_reopen :
  forall cr : crypto,
         crc_ok cr ->
         (forall x : bytes, Datatypes.length (cr_hash cr x) = 32%nat) ->
         (forall x : bytes, all_zero (cr_hash cr x) = false) ->
         (forall x : bytes, bytes_ok (cr_hash cr x) = true) ->
         (forall sk m : bytes, Datatypes.length (cr_sign cr sk m) = 64%nat) ->
         (forall sk m : bytes, bytes_ok (cr_sign cr sk m) = true) ->
         forall (ops : list uop) (c : core) (d : disk) (j : list sop) (ev : list event) 
           (bs : list bytes) (cl : N -> bool) (sk : bytes),
         FInv cr c d bs cl ->
         kp_secret (c_keypair c) = Some sk ->
         wf_u ops (N.of_nat (Datatypes.length bs)) ->
         sumN (map len (bs ++ uappended ops)) <= u64_max ->
         NODE_SIZE * (2 * N.of_nat (Datatypes.length (bs ++ uappended ops))) <= u64_max ->
         urun cr ops c {| w_disk := d; w_journal := j; w_events := ev |} = uspec ops bs cl \/
         (exists k : nat,
            urun cr ops c {| w_disk := d; w_journal := j; w_events := ev |} =
            firstn k (uspec ops bs cl) ++ [UOAppend (Panic frame_msg)]).
Proof. exact history_unified. Qed.

Theorem C01_fresh_history_with_clears_and_reopen :
  forall cr : crypto,
         crc_ok cr ->
         (forall x : bytes, Datatypes.length (cr_hash cr x) = 32%nat) ->
         (forall x : bytes, all_zero (cr_hash cr x) = false) ->
         (forall x : bytes, bytes_ok (cr_hash cr x) = true) ->
         (forall sk m : bytes, Datatypes.length (cr_sign cr sk m) = 64%nat) ->
         (forall sk m : bytes, bytes_ok (cr_sign cr sk m) = true) ->
         forall (kp : keypair) (sk : bytes) (ops : list uop),
         keypair_ok kp = true ->
         kp_secret kp = Some sk ->
         wf_u ops 0 ->
         sumN (map len (uappended ops)) <= u64_max ->
         NODE_SIZE * (2 * N.of_nat (Datatypes.length (uappended ops))) <= u64_max ->
         exists (d0 : disk) (ops0 : list sop) (c0 : core),
           core_open cr (Some kp) false disk_empty = (d0, ops0, Ok c0) /\
           (urun cr ops c0 {| w_disk := d0; w_journal := []; w_events := [] |} =
            uspec ops [] (fun _ : N => false) \/
            (exists k : nat,
               urun cr ops c0 {| w_disk := d0; w_journal := []; w_events := [] |} =
               firstn k (uspec ops [] (fun _ : N => false)) ++ [UOAppend (Panic frame_msg)])).
Proof. exact fresh_history_unified. Qed.

Theorem C01_fresh_history_no_frame_panic :
  forall cr : crypto,
         crc_ok cr ->
         (forall x : bytes, Datatypes.length (cr_hash cr x) = 32%nat) ->
         (forall x : bytes, all_zero (cr_hash cr x) = false) ->
         (forall x : bytes, bytes_ok (cr_hash cr x) = true) ->
         (forall sk m : bytes, Datatypes.length (cr_sign cr sk m) = 64%nat) ->
         (forall sk m : bytes, bytes_ok (cr_sign cr sk m) = true) ->
         forall (kp : keypair) (sk : bytes) (ops : list uop),
         keypair_ok kp = true ->
         kp_secret kp = Some sk ->
         wf_u ops 0 ->
         sumN (map len (uappended ops)) <= u64_max ->
         NODE_SIZE * (2 * N.of_nat (Datatypes.length (uappended ops))) <= u64_max ->
         exists (d0 : disk) (ops0 : list sop) (c0 : core),
           core_open cr (Some kp) false disk_empty = (d0, ops0, Ok c0) /\
           (~
            In (UOAppend (Panic frame_msg))
              (urun cr ops c0 {| w_disk := d0; w_journal := []; w_events := [] |}) ->
            urun cr ops c0 {| w_disk := d0; w_journal := []; w_events := [] |} =
            uspec ops [] (fun _ : N => false)).
Proof. exact fresh_history_unified_no_frame_panic. Qed.

Theorem C01_unified_invariant_at_creation :
  forall cr : crypto,
         crc_ok cr ->
         (forall x : bytes, Datatypes.length (cr_hash cr x) = 32%nat) ->
         (forall x : bytes, all_zero (cr_hash cr x) = false) ->
         (forall x : bytes, bytes_ok (cr_hash cr x) = true) ->
         forall kp : keypair,
         keypair_ok kp = true ->
         exists (d' : disk) (ops : list sop) (c : core),
           core_open cr (Some kp) false disk_empty = (d', ops, Ok c) /\
           FInv cr c d' [] (fun _ : N => false) /\ c_keypair c = kp.
Proof. exact FInv_init. Qed.

Theorem C01_unified_invariant_append :
  forall cr : crypto,
         crc_ok cr ->
         (forall x : bytes, Datatypes.length (cr_hash cr x) = 32%nat) ->
         (forall x : bytes, all_zero (cr_hash cr x) = false) ->
         (forall x : bytes, bytes_ok (cr_hash cr x) = true) ->
         (forall sk m : bytes, Datatypes.length (cr_sign cr sk m) = 64%nat) ->
         (forall sk m : bytes, bytes_ok (cr_sign cr sk m) = true) ->
         forall (f : option bool) (batch : list bytes) (c : core) (d : disk) (j : list sop) 
           (ev : list event) (bs : list bytes) (cl : N -> bool) (sk : bytes) (c' : core) 
           (w' : world) (r : res (N * N)),
         FInv cr c d bs cl ->
         kp_secret (c_keypair c) = Some sk ->
         sumN (map len (bs ++ batch)) <= u64_max ->
         NODE_SIZE * (2 * N.of_nat (Datatypes.length (bs ++ batch))) <= u64_max ->
         core_append cr f batch c {| w_disk := d; w_journal := j; w_events := ev |} = (c', w', r) ->
         r = Panic frame_msg \/
         r = Ok (N.of_nat (Datatypes.length (bs ++ batch)), sumN (map len (bs ++ batch))) /\
         FInv cr c' (w_disk w') (bs ++ batch) (cl_mask cl (N.of_nat (Datatypes.length bs))) /\
         c_keypair c' = c_keypair c.
Proof. exact append_FInv. Qed.

Theorem C01_unified_invariant_clear :
  forall cr : crypto,
         crc_ok cr ->
         (forall x : bytes, Datatypes.length (cr_hash cr x) = 32%nat) ->
         (forall x : bytes, all_zero (cr_hash cr x) = false) ->
         (forall x : bytes, bytes_ok (cr_hash cr x) = true) ->
         forall (f : option bool) (c : core) (d : disk) (j : list sop) (ev : list event) 
           (bs : list bytes) (cl : N -> bool) (start end_ : N) (c' : core) (w' : world) 
           (r : res unit),
         let n := N.of_nat (Datatypes.length bs) in
         FInv cr c d bs cl ->
         start < n ->
         start < end_ ->
         end_ <= u64_max ->
         core_clear cr f start end_ c {| w_disk := d; w_journal := j; w_events := ev |} = (c', w', r) ->
         r = Ok tt /\ FInv cr c' (w_disk w') bs (cl_clear cl start end_) /\ c_keypair c' = c_keypair c.
Proof. exact clear_FInv. Qed.

Theorem C01_unified_invariant_reopen :
  forall cr : crypto,
         crc_ok cr ->
         (forall x : bytes, Datatypes.length (cr_hash cr x) = 32%nat) ->
         (forall x : bytes, all_zero (cr_hash cr x) = false) ->
         (forall x : bytes, bytes_ok (cr_hash cr x) = true) ->
         forall (c : core) (d : disk) (bs : list bytes) (cl : N -> bool),
         FInv cr c d bs cl ->
         exists c' : core,
           core_open cr None true d = (d, [], Ok c') /\ FInv cr c' d bs cl /\ c_keypair c' = c_keypair c.
Proof. exact reopen_FInv. Qed.

Theorem C01_reopen_changes_no_observation_with_clears :
  forall cr : crypto,
         crc_ok cr ->
         (forall x : bytes, Datatypes.length (cr_hash cr x) = 32%nat) ->
         (forall x : bytes, all_zero (cr_hash cr x) = false) ->
         (forall x : bytes, bytes_ok (cr_hash cr x) = true) ->
         forall (c : core) (d : disk) (bs : list bytes) (cl : N -> bool),
         FInv cr c d bs cl ->
         exists c' : core,
           core_open cr None true d = (d, [], Ok c') /\
           FInv cr c' d bs cl /\
           c_keypair c' = c_keypair c /\
           core_info c' = core_info c /\
           (forall i : N, core_has c' i = core_has c i) /\
           (forall (i : N) (j : list sop) (ev : list event),
            snd (core_get i c' {| w_disk := d; w_journal := j; w_events := ev |}) =
            snd (core_get i c {| w_disk := d; w_journal := j; w_events := ev |}) /\
            snd (fst (core_get i c' {| w_disk := d; w_journal := j; w_events := ev |})) =
            snd (fst (core_get i c {| w_disk := d; w_journal := j; w_events := ev |}))).
Proof. exact reopen_observations_U. Qed.

Theorem C01_clear_outside_also_after_reopen :
  forall cr : crypto,
         crc_ok cr ->
         (forall x : bytes, Datatypes.length (cr_hash cr x) = 32%nat) ->
         (forall x : bytes, all_zero (cr_hash cr x) = false) ->
         (forall x : bytes, bytes_ok (cr_hash cr x) = true) ->
         forall (f : option bool) (c : core) (d : disk) (j : list sop) (ev : list event) 
           (bs : list bytes) (cl : N -> bool) (start end_ : N) (c' : core) (d' : disk) 
           (j' : list sop) (ev' : list event) (i : N),
         let n := N.of_nat (Datatypes.length bs) in
         FInv cr c d bs cl ->
         start < n ->
         start < end_ ->
         end_ <= u64_max ->
         core_clear cr f start end_ c {| w_disk := d; w_journal := j; w_events := ev |} =
         (c', {| w_disk := d'; w_journal := j'; w_events := ev' |}, Ok tt) ->
         i < start \/ end_ <= i ->
         exists c'' : core,
           core_open cr None true d' = (d', [], Ok c'') /\
           core_has c' i = core_has c i /\
           core_has c'' i = core_has c i /\
           (forall (j1 : list sop) (ev1 : list event) (j2 : list sop) (ev2 : list event),
            snd (core_get i c' {| w_disk := d'; w_journal := j1; w_events := ev1 |}) =
            snd (core_get i c {| w_disk := d; w_journal := j2; w_events := ev2 |}) /\
            snd (core_get i c'' {| w_disk := d'; w_journal := j1; w_events := ev1 |}) =
            snd (core_get i c {| w_disk := d; w_journal := j2; w_events := ev2 |})).
Proof. exact clear_outside_U. Qed.

Theorem C01_get_unified :
  forall (cr : crypto) (c : core) (d : disk) (bs : list bytes) (cl : N -> bool) 
           (j : list sop) (ev : list event) (i : N),
         FInv cr c d bs cl ->
         core_get i c {| w_disk := d; w_journal := j; w_events := ev |} =
         (if held (N.of_nat (Datatypes.length bs)) cl i
          then (c, {| w_disk := d; w_journal := j; w_events := ev |}, Ok (Some (nth (N.to_nat i) bs [])))
          else (c, {| w_disk := d; w_journal := j; w_events := EvGet i :: ev |}, Ok None)).
Proof. exact get_correct_U. Qed.

Theorem C01_info_unified :
  forall (cr : crypto) (c : core) (d : disk) (bs : list bytes) (cl : N -> bool),
         FInv cr c d bs cl ->
         core_info c =
         {|
           i_length := N.of_nat (Datatypes.length bs);
           i_byte_length := sumN (map len bs);
           i_contiguous := spec_contig bs cl;
           i_fork := 0;
           i_writeable := match kp_secret (c_keypair c) with
                          | Some _ => true
                          | None => false
                          end
         |}.
Proof. exact info_correct_U. Qed.

Theorem C01_clear_of_any_range_keeps_the_invariant :
  forall cr : crypto,
         crc_ok cr ->
         (forall x : bytes, Datatypes.length (cr_hash cr x) = 32%nat) ->
         (forall x : bytes, all_zero (cr_hash cr x) = false) ->
         (forall x : bytes, bytes_ok (cr_hash cr x) = true) ->
         forall (f : option bool) (c : core) (d : disk) (j : list sop) (ev : list event) 
           (bs : list bytes) (cl : N -> bool) (start end_ : N) (c' : core) (w' : world) 
           (r : res unit),
         let n := N.of_nat (Datatypes.length bs) in
         FInv cr c d bs cl ->
         end_ <= start \/ end_ <= u64_max ->
         core_clear cr f start end_ c {| w_disk := d; w_journal := j; w_events := ev |} = (c', w', r) ->
         r = clear_result bs cl start end_ /\
         FInv cr c' (w_disk w') bs (cl_after cl n start end_) /\ c_keypair c' = c_keypair c.
Proof. exact clear_any_FInv. Qed.

Theorem C01_clear_beyond_the_length_changes_no_observation :
  forall cr : crypto,
         crc_ok cr ->
         (forall x : bytes, Datatypes.length (cr_hash cr x) = 32%nat) ->
         (forall x : bytes, all_zero (cr_hash cr x) = false) ->
         (forall x : bytes, bytes_ok (cr_hash cr x) = true) ->
         forall (f : option bool) (c : core) (d : disk) (j : list sop) (ev : list event) 
           (bs : list bytes) (cl : N -> bool) (start end_ : N) (c' : core) (w' : world) 
           (r : res unit),
         let n := N.of_nat (Datatypes.length bs) in
         FInv cr c d bs cl ->
         n <= start ->
         start < end_ ->
         end_ <= u64_max ->
         core_clear cr f start end_ c {| w_disk := d; w_journal := j; w_events := ev |} = (c', w', r) ->
         core_info c' = core_info c /\
         (forall i : N, core_has c' i = core_has c i) /\
         (forall (i : N) (j1 : list sop) (ev1 : list event) (j2 : list sop) (ev2 : list event),
          snd (core_get i c' {| w_disk := w_disk w'; w_journal := j1; w_events := ev1 |}) =
          snd (core_get i c {| w_disk := d; w_journal := j2; w_events := ev2 |})) /\
         (exists c'' : core,
            core_open cr None true (w_disk w') = (w_disk w', [], Ok c'') /\
            FInv cr c'' (w_disk w') bs cl /\
            c_keypair c'' = c_keypair c /\
            core_info c'' = core_info c /\
            (forall i : N, core_has c'' i = core_has c i) /\
            (forall (i : N) (j1 : list sop) (ev1 : list event) (j2 : list sop) (ev2 : list event),
             snd (core_get i c'' {| w_disk := w_disk w'; w_journal := j1; w_events := ev1 |}) =
             snd (core_get i c {| w_disk := d; w_journal := j2; w_events := ev2 |}))).
Proof. exact clear_beyond_observations_and_reopen. Qed.

Theorem C01_history_with_any_clear_refines_list_model :
  forall cr : crypto,
         crc_ok cr ->
         (forall x : bytes, Datatypes.length (cr_hash cr x) = 32%nat) ->
         (forall x : bytes, all_zero (cr_hash cr x) = false) ->
         (forall x : bytes, bytes_ok (cr_hash cr x) = true) ->
         (forall sk m : bytes, Datatypes.length (cr_sign cr sk m) = 64%nat) ->
         (forall sk m : bytes, bytes_ok (cr_sign cr sk m) = true) ->
         forall (ops : list uop) (c : core) (d : disk) (j : list sop) (ev : list event) 
           (bs : list bytes) (cl : N -> bool) (sk : bytes),
         FInv cr c d bs cl ->
         kp_secret (c_keypair c) = Some sk ->
         wf_a ops ->
         sumN (map len (bs ++ uappended ops)) <= u64_max ->
         NODE_SIZE * (2 * N.of_nat (Datatypes.length (bs ++ uappended ops))) <= u64_max ->
         arun cr ops c {| w_disk := d; w_journal := j; w_events := ev |} = aspec ops bs cl \/
         (exists k : nat,
            arun cr ops c {| w_disk := d; w_journal := j; w_events := ev |} =
            firstn k (aspec ops bs cl) ++ [UOAppend (Panic frame_msg)]).
Proof. exact history_with_any_clear_refines_list_model. Qed.

Theorem C01_fresh_history_with_any_clear :
  forall cr : crypto,
         crc_ok cr ->
         (forall x : bytes, Datatypes.length (cr_hash cr x) = 32%nat) ->
         (forall x : bytes, all_zero (cr_hash cr x) = false) ->
         (forall x : bytes, bytes_ok (cr_hash cr x) = true) ->
         (forall sk m : bytes, Datatypes.length (cr_sign cr sk m) = 64%nat) ->
         (forall sk m : bytes, bytes_ok (cr_sign cr sk m) = true) ->
         forall (kp : keypair) (sk : bytes) (ops : list uop),
         keypair_ok kp = true ->
         kp_secret kp = Some sk ->
         wf_a ops ->
         sumN (map len (uappended ops)) <= u64_max ->
         NODE_SIZE * (2 * N.of_nat (Datatypes.length (uappended ops))) <= u64_max ->
         exists (d0 : disk) (ops0 : list sop) (c0 : core),
           core_open cr (Some kp) false disk_empty = (d0, ops0, Ok c0) /\
           (arun cr ops c0 {| w_disk := d0; w_journal := []; w_events := [] |} =
            aspec ops [] (fun _ : N => false) \/
            (exists k : nat,
               arun cr ops c0 {| w_disk := d0; w_journal := []; w_events := [] |} =
               firstn k (aspec ops [] (fun _ : N => false)) ++ [UOAppend (Panic frame_msg)])).
Proof. exact fresh_history_with_any_clear. Qed.

Theorem C01_clear_beyond_the_length_issues_no_data_operation :
  forall cr : crypto,
         crc_ok cr ->
         (forall x : bytes, Datatypes.length (cr_hash cr x) = 32%nat) ->
         (forall x : bytes, all_zero (cr_hash cr x) = false) ->
         (forall x : bytes, bytes_ok (cr_hash cr x) = true) ->
         (forall sk m : bytes, Datatypes.length (cr_sign cr sk m) = 64%nat) ->
         (forall sk m : bytes, bytes_ok (cr_sign cr sk m) = true) ->
         forall (kp : keypair) (sk : bytes) (ops : list uop) (c : core) (w : world) 
           (f : option bool) (start end_ : N) (c' : core) (w' : world) (r : res unit),
         keypair_ok kp = true ->
         kp_secret kp = Some sk ->
         wf_a ops ->
         sumN (map len (uappended ops)) <= u64_max ->
         NODE_SIZE * (2 * N.of_nat (Datatypes.length (uappended ops))) <= u64_max ->
         forall (d0 : disk) (ops0 : list sop) (c0 : core),
         core_open cr (Some kp) false disk_empty = (d0, ops0, Ok c0) ->
         afinal cr ops c0 {| w_disk := d0; w_journal := []; w_events := [] |} = Some (c, w) ->
         N.of_nat (Datatypes.length (uappended ops)) <= start ->
         start < end_ ->
         end_ <= u64_max ->
         core_clear cr f start end_ c w = (c', w', r) ->
         exists (o' : oplog) (fr : bytes),
           let off := ENTRIES_OFFSET + ol_entries_bytes (c_oplog c) in
           let c2 :=
             {|
               c_keypair := c_keypair c;
               c_oplog := o';
               c_tree := c_tree c;
               c_bitfield := bf_set_range (c_bitfield c) start (end_ - start) false;
               c_header := c_header c;
               c_skip := c_skip c
             |} in
           let w1 :=
             {|
               w_disk := d_set (w_disk w) Oplog (f_write (d_oplog (w_disk w)) off fr);
               w_journal := SW Oplog off fr :: w_journal w;
               w_events := w_events w
             |} in
           (r = Err BadArgument /\ c' = c2 /\ w' = w1 \/ r = Ok tt /\ maybe_flush cr f c2 w1 = (c', w', Ok tt)) /\
           d_data (w_disk w') = d_data (w_disk w) /\ w_events w' = w_events w.
Proof. exact reachable_clear_beyond_no_data_op. Qed.

Theorem C01_append_never_panics_for_bounded_batches :
  forall cr : crypto,
         crc_ok cr ->
         (forall x : bytes, Datatypes.length (cr_hash cr x) = 32%nat) ->
         (forall x : bytes, all_zero (cr_hash cr x) = false) ->
         (forall x : bytes, bytes_ok (cr_hash cr x) = true) ->
         (forall sk m : bytes, Datatypes.length (cr_sign cr sk m) = 64%nat) ->
         (forall sk m : bytes, bytes_ok (cr_sign cr sk m) = true) ->
         forall (f : option bool) (batch : list bytes) (c : core) (d : disk) (j : list sop) 
           (ev : list event) (bs : list bytes) (cl : N -> bool) (sk : bytes) (c' : core) 
           (w' : world) (r : res (N * N)),
         FInv cr c d bs cl ->
         kp_secret (c_keypair c) = Some sk ->
         sumN (map len (bs ++ batch)) <= u64_max ->
         NODE_SIZE * (2 * N.of_nat (Datatypes.length (bs ++ batch))) <= u64_max ->
         N.of_nat (Datatypes.length batch) <= MAX_BATCH ->
         core_append cr f batch c {| w_disk := d; w_journal := j; w_events := ev |} = (c', w', r) ->
         r = Ok (N.of_nat (Datatypes.length (bs ++ batch)), sumN (map len (bs ++ batch))) /\
         FInv cr c' (w_disk w') (bs ++ batch) (cl_mask cl (N.of_nat (Datatypes.length bs))) /\
         c_keypair c' = c_keypair c.
Proof. exact append_FInv_no_panic. Qed.

Theorem C01_history_without_frame_alternative :
  forall cr : crypto,
         crc_ok cr ->
         (forall x : bytes, Datatypes.length (cr_hash cr x) = 32%nat) ->
         (forall x : bytes, all_zero (cr_hash cr x) = false) ->
         (forall x : bytes, bytes_ok (cr_hash cr x) = true) ->
         (forall sk m : bytes, Datatypes.length (cr_sign cr sk m) = 64%nat) ->
         (forall sk m : bytes, bytes_ok (cr_sign cr sk m) = true) ->
         forall (ops : list uop) (c : core) (d : disk) (j : list sop) (ev : list event) 
           (bs : list bytes) (cl : N -> bool) (sk : bytes),
         FInv cr c d bs cl ->
         kp_secret (c_keypair c) = Some sk ->
         wf_u ops (N.of_nat (Datatypes.length bs)) ->
         batches_small ops ->
         sumN (map len (bs ++ uappended ops)) <= u64_max ->
         NODE_SIZE * (2 * N.of_nat (Datatypes.length (bs ++ uappended ops))) <= u64_max ->
         urun cr ops c {| w_disk := d; w_journal := j; w_events := ev |} = uspec ops bs cl.
Proof. exact history_unified_no_panic. Qed.

Theorem C01_fresh_history_without_frame_alternative :
  forall cr : crypto,
         crc_ok cr ->
         (forall x : bytes, Datatypes.length (cr_hash cr x) = 32%nat) ->
         (forall x : bytes, all_zero (cr_hash cr x) = false) ->
         (forall x : bytes, bytes_ok (cr_hash cr x) = true) ->
         (forall sk m : bytes, Datatypes.length (cr_sign cr sk m) = 64%nat) ->
         (forall sk m : bytes, bytes_ok (cr_sign cr sk m) = true) ->
         forall (kp : keypair) (sk : bytes) (ops : list uop),
         keypair_ok kp = true ->
         kp_secret kp = Some sk ->
         wf_u ops 0 ->
         batches_small ops ->
         sumN (map len (uappended ops)) <= u64_max ->
         NODE_SIZE * (2 * N.of_nat (Datatypes.length (uappended ops))) <= u64_max ->
         exists (d0 : disk) (ops0 : list sop) (c0 : core),
           core_open cr (Some kp) false disk_empty = (d0, ops0, Ok c0) /\
           urun cr ops c0 {| w_disk := d0; w_journal := []; w_events := [] |} =
           uspec ops [] (fun _ : N => false).
Proof. exact fresh_history_unified_no_panic. Qed.

Theorem C01_frame_guard_is_real_for_appends :
  forall cr : crypto,
         crc_ok cr ->
         (forall x : bytes, Datatypes.length (cr_hash cr x) = 32%nat) ->
         (forall x : bytes, all_zero (cr_hash cr x) = false) ->
         (forall x : bytes, bytes_ok (cr_hash cr x) = true) ->
         (forall sk m : bytes, Datatypes.length (cr_sign cr sk m) = 64%nat) ->
         (forall sk m : bytes, bytes_ok (cr_sign cr sk m) = true) ->
         forall (f : option bool) (batch : list bytes) (c : core) (d : disk) (j : list sop) 
           (ev : list event) (bs : list bytes) (cl : N -> bool) (sk : bytes) (c' : core) 
           (w' : world) (r : res (N * N)),
         FInv cr c d bs cl ->
         kp_secret (c_keypair c) = Some sk ->
         sumN (map len (bs ++ batch)) <= u64_max ->
         NODE_SIZE * (2 * N.of_nat (Datatypes.length (bs ++ batch))) <= u64_max ->
         31580643 <= N.of_nat (Datatypes.length batch) ->
         core_append cr f batch c {| w_disk := d; w_journal := j; w_events := ev |} = (c', w', r) ->
         r = Panic frame_msg.
Proof. exact append_FInv_guard_fires. Qed.

Print Assumptions C01_fresh_history_with_reopen.
Print Assumptions C01_history_with_reopen.
Print Assumptions C01_reopen_changes_no_observation.
Print Assumptions C01_reopen_reestablishes_invariant.
Print Assumptions C01_append_preserves_disk_invariant.
Print Assumptions C01_creation_establishes_disk_invariant.
Print Assumptions C01_fresh_history_with_clears.
Print Assumptions C01_history_with_clears.
Print Assumptions C01_clear_preserves_invariant.
Print Assumptions C01_clear_affects_nothing_outside.
Print Assumptions C01_get_with_cleared_set.
Print Assumptions C01_info_with_cleared_set.
Print Assumptions C01_fresh_history.
Print Assumptions C01_append_preserves_invariant.
Print Assumptions C01_get_returns_the_block.
Print Assumptions C01_byte_range_is_prefix_sum.
Print Assumptions C01_flush_preserves_lookups.
Print Assumptions C01_read_after_write.
Print Assumptions C01_write_elsewhere_preserves.
Print Assumptions C01_write_at_end_appends.
Print Assumptions C01_delete_semantics.
Print Assumptions C01_append_journal_order.
Print Assumptions toy_history.
Print Assumptions toy_history_with_reopen.
Print Assumptions toy_history_c.
Print Assumptions blank_hash_breaks_reads.
Print Assumptions stranded_empty_block_clear_ok.
Print Assumptions C01_history_with_clears_and_reopen.
Print Assumptions C01_fresh_history_with_clears_and_reopen.
Print Assumptions C01_fresh_history_no_frame_panic.
Print Assumptions C01_unified_invariant_at_creation.
Print Assumptions C01_unified_invariant_append.
Print Assumptions C01_unified_invariant_clear.
Print Assumptions C01_unified_invariant_reopen.
Print Assumptions C01_reopen_changes_no_observation_with_clears.
Print Assumptions C01_clear_outside_also_after_reopen.
Print Assumptions C01_get_unified.
Print Assumptions C01_info_unified.
Print Assumptions Unified3.toy_history_unified.
Print Assumptions Unified3.toy_clear_reopen_reads.
Print Assumptions Unified3.toy_unified_hypotheses.
Print Assumptions C01_clear_of_any_range_keeps_the_invariant.
Print Assumptions C01_clear_beyond_the_length_changes_no_observation.
Print Assumptions C01_history_with_any_clear_refines_list_model.
Print Assumptions C01_fresh_history_with_any_clear.
Print Assumptions C01_clear_beyond_the_length_issues_no_data_operation.
Print Assumptions C01_append_never_panics_for_bounded_batches.
Print Assumptions C01_history_without_frame_alternative.
Print Assumptions C01_fresh_history_without_frame_alternative.
Print Assumptions C01_frame_guard_is_real_for_appends.

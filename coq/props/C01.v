(* C01 — placeholder until Refine.v lands: no theorem yet *)
From HC Require Import Base.

(* C04 — placeholder *)
From HC Require Import Base.

(* ADDED IN THE THIRD ROUND (SoundCore*.v): the replica invariant RInv across core_apply_proof — accepted block/upgrade proofs preserve it or exhibit
   a collision / a signature on a message the writer never signed; replica reads are the writer's blocks; refusal at a gate is a no-op; the
   size carve-out is refuted beyond the property's quantifier (size_carveout_refuted, size_carveout_upgrade_additional_refuted).
   ---- header of the earlier rounds: ---- *)
(* C04 — forged or altered proofs never change what a replica believes (pinned statements; proofs in
   Sound.v, CoreFacts.v when it lands). Cryptographic primitives are arbitrary functions (record cr):
   nothing is assumed about them. Every statement is a reduction: "the verifier accepted => what it
   accepted is the writer's, OR here are two different byte strings with the same BLAKE2b hash".
   T is the writer's tree as a function from flat index to node; `consistent_path` says that T's parents
   are the parent_node of their children along the path the verifier climbs (true of the reference tree).
   Proved: block value soundness, soundness of every sibling hash on the path and of a hash section's
   bottom node, binding of the signature to (root list, length, fork), the structure of what verify_proof
   checked when it accepts. The size fields of the bottom nodes of hash/seek sections are bound only in sum
   (lemma parent_hash_length_split in Sound.v exhibits it) — exactly the carve-out of the property text.
   Partial: the composition into "replica invariant preserved by verify_and_apply_proof" (byte offsets,
   storage) and Ed25519 unforgeability itself are not proved; the alteration enumeration of tools/c04.py
   covers the composition on every run. *)
From HC Require Import Liveness LivenessEx.
From HC Require Import AnyReopenA AnyReopenB AnyReopenC AnyReopenD AnyReopen1 AnyReopen2.
From HC Require Import AlterRefused.
From HC Require Import AnyProofLib AnyProofUp AnyProof.
From HC Require AnyProofEx.
From HC Require Import FlatTree Bitfield Oplog Merkle Core Refine SoundCoreLib SoundCore SoundCoreUp SoundCoreBU.
From HC Require Import Base NMap Codec CodecFacts Crypto FlatTree Storage Bitfield Oplog Merkle Core Sound CoreFacts.

Theorem C04_block_value_sound : forall cr (T : N -> node) b oh c root c' v0,
  (forall i, length (n_hash (T i)) = 32%nat) ->
  Forall (fun n => length (n_hash n) = 32%nat) (db_nodes b) ->
  consistent_path cr T (length (db_nodes b)) (it_new (2 * db_index b)) ->
  T (2 * db_index b) = block_node cr (2 * db_index b) v0 ->
  verify_tree cr (Some b) oh None c = Ok (Some root, c') ->
  n_hash root = n_hash (T (n_index root)) ->
  db_value b = v0 \/ some_collision cr.
Proof. exact block_value_sound. Qed.

Theorem C04_climb_sound : forall cr (T : N -> node) fuel q it cur acc root visited,
  (forall i, length (n_hash (T i)) = 32%nat) ->
  Forall (fun n => length (n_hash n) = 32%nat) (q_list q) ->
  n_index cur = it_index it ->
  consistent_path cr T (length (q_list q)) it ->
  climb cr fuel q it cur acc = Ok (root, visited) ->
  n_hash root = n_hash (T (n_index root)) ->
  n_hash cur = n_hash (T (it_index it)) \/ some_collision cr.
Proof. exact climb_sound. Qed.

Theorem C04_leaf_hash_binds : forall cr a b, leaf_hash cr a = leaf_hash cr b -> a = b \/ some_collision cr.
Proof. exact leaf_hash_binds. Qed.

Theorem C04_tree_hash_binds : forall cr rs rs',
  Forall root_wf rs -> Forall root_wf rs' -> tree_hash cr rs = tree_hash cr rs' ->
  map node_triple rs = map node_triple rs' \/ some_collision cr.
Proof. exact tree_hash_binds. Qed.

Theorem C04_signature_covers_roots_length_fork : forall cr c sg pk c',
  cs_verify_and_set_signature cr c sg pk = Ok c' ->
  cr_verify cr pk (signable (tree_hash cr (cs_roots c)) (cs_length c) (cs_fork c)) sg = true /\
  cs_roots c' = cs_roots c /\ cs_length c' = cs_length c /\ cs_fork c' = cs_fork c /\
  cs_signature c' = Some sg /\ cs_hash c' = Some (tree_hash cr (cs_roots c)) /\ length sg = 64%nat.
Proof. exact upgrade_signature_binds. Qed.

Theorem C04_signed_message_binds : forall cr rs l f rs' l' f',
  Forall root_wf rs -> Forall root_wf rs' -> l < 2 ^ 64 -> f < 2 ^ 64 -> l' < 2 ^ 64 -> f' < 2 ^ 64 ->
  signable (tree_hash cr rs) l f = signable (tree_hash cr rs') l' f' ->
  l = l' /\ f = f' /\ (map node_triple rs = map node_triple rs' \/ some_collision cr).
Proof. exact signed_message_binds. Qed.

Theorem C04_accept_means_checked : forall cr t tf pf pk cs,
  verify_proof cr t tf pf pk = Ok cs ->
  exists root c1, verify_tree cr (p_block pf) (p_hash pf) (p_seek pf) (tree_changeset t) = Ok (root, c1) /\
  match p_upgrade pf with
  | Some u => exists consumed c3,
      verify_upgrade cr (p_fork pf) u root pk c1 = Ok (consumed, cs) /\
      cs_verify_and_set_signature cr (cs_set_fork c3 (p_fork pf)) (du_signature u) pk = Ok cs /\
      cr_verify cr pk (signable (tree_hash cr (cs_roots cs)) (cs_length cs) (cs_fork cs)) (du_signature u) = true /\
      cs_fork cs = p_fork pf /\ cs_signature cs = Some (du_signature u) /\
      cs_hash cs = Some (tree_hash cr (cs_roots cs)) /\
      (consumed = false -> forall r, root = Some r -> stored_check t tf r)
  | None => cs = c1 /\ forall r, root = Some r -> stored_check t tf r
  end.
Proof. exact verify_proof_accept_inv. Qed.

(* a refused proof is a no-op: same core, same disk, no storage operation, no event — whichever gate refuses *)
Theorem C04_refused_by_fork_gate : forall cr f pf c w,
  p_fork pf <> t_fork (c_tree c) -> core_apply_proof cr f pf c w = (c, w, Ok false).
Proof. exact apply_fork_mismatch. Qed.

Theorem C04_refused_by_verifier : forall cr f pf c w e,
  p_fork pf = t_fork (c_tree c) ->
  verify_proof cr (c_tree c) (d_tree (w_disk w)) pf (kp_public (c_keypair c)) = Err e ->
  core_apply_proof cr f pf c w = (c, w, Err e).
Proof. exact apply_verify_error. Qed.

Theorem C04_refused_by_commit_gate : forall cr f pf c w cs,
  verify_proof cr (c_tree c) (d_tree (w_disk w)) pf (kp_public (c_keypair c)) = Ok cs ->
  commitable (c_tree c) cs = false ->
  core_apply_proof cr f pf c w = (c, w, Ok false).
Proof. exact apply_not_commitable. Qed.

(* non-vacuity: the premises of the headline theorem hold together on a concrete tree, and an honest
   proof is accepted *)
Example C04_ex_premises : consistent_path toy toyT 2 (it_new 0) /\ (forall i, length (n_hash (toyT i)) = 32%nat).
Proof. split; [exact toy_path | exact toy_hash32]. Qed.

Theorem C04_accepted_proof_keeps_replica_consistent :
  forall cr : crypto,
         (forall x : bytes, Datatypes.length (cr_hash cr x) = 32%nat) ->
         (forall x : bytes, all_zero (cr_hash cr x) = false) ->
         forall bs : list bytes,
         writer_fits bs ->
         forall (f : option bool) (pf : proof) (c : core) (d : disk) (j : list sop) 
           (ev : list event) (c' : core) (w' : world),
         RInv cr bs c d ->
         block_upgrade_ok pf ->
         core_apply_proof cr f pf c {| w_disk := d; w_journal := j; w_events := ev |} = (c', w', Ok true) ->
         RInv cr bs c' (w_disk w') \/ some_collision cr \/ forged_signature cr bs (kp_public (c_keypair c)).
Proof. exact apply_keeps_replica_consistent_block_upgrade. Qed.

Theorem C04_accepted_proof_reads_are_the_writers :
  forall cr : crypto,
         (forall x : bytes, Datatypes.length (cr_hash cr x) = 32%nat) ->
         (forall x : bytes, all_zero (cr_hash cr x) = false) ->
         forall bs : list bytes,
         writer_fits bs ->
         forall (f : option bool) (pf : proof) (c : core) (d : disk) (j : list sop) 
           (ev : list event) (c' : core) (w' : world),
         RInv cr bs c d ->
         block_upgrade_ok pf ->
         core_apply_proof cr f pf c {| w_disk := d; w_journal := j; w_events := ev |} = (c', w', Ok true) ->
         (forall (i : N) (j' : list sop) (ev' : list event),
          core_get i c' {| w_disk := w_disk w'; w_journal := j'; w_events := ev' |} =
          (if bf_get (c_bitfield c') i
           then
            (c', {| w_disk := w_disk w'; w_journal := j'; w_events := ev' |},
             Ok (Some (nth (N.to_nat i) bs [])))
           else (c', {| w_disk := w_disk w'; w_journal := j'; w_events := EvGet i :: ev' |}, Ok None))) \/
         some_collision cr \/ forged_signature cr bs (kp_public (c_keypair c)).
Proof. exact accepted_proof_reads_writer_blocks. Qed.

Theorem C04_replica_reads_under_invariant :
  forall (cr : crypto) (bs : list bytes),
         writer_fits bs ->
         forall (c : core) (d : disk) (j : list sop) (ev : list event) (i : N),
         RInv cr bs c d ->
         core_get i c {| w_disk := d; w_journal := j; w_events := ev |} =
         (if bf_get (c_bitfield c) i
          then (c, {| w_disk := d; w_journal := j; w_events := ev |}, Ok (Some (TreeRef.blk bs i)))
          else (c, {| w_disk := d; w_journal := j; w_events := EvGet i :: ev |}, Ok None)).
Proof. exact get_replica. Qed.

Theorem C04_replica_never_reads_a_foreign_block :
  forall (cr : crypto) (bs : list bytes),
         writer_fits bs ->
         forall (c : core) (d : disk) (j : list sop) (ev : list event) (i : N) (c' : core) 
           (w' : world) (v : bytes),
         RInv cr bs c d ->
         core_get i c {| w_disk := d; w_journal := j; w_events := ev |} = (c', w', Ok (Some v)) ->
         v = nth (N.to_nat i) bs [].
Proof. exact get_replica_sound. Qed.

Theorem C04_refusal_at_a_gate_is_a_noop :
  forall (cr : crypto) (f : option bool) (pf : proof) (c : core) (w : world),
         refused_at_gate cr c w pf ->
         exists r : res bool,
           core_apply_proof cr f pf c w = (c, w, r) /\
           (r = Ok false \/
            p_fork pf = t_fork (c_tree c) /\
            (forall b : bool, r <> Ok b) /\
            match r with
            | Ok _ => False
            | Err e => match verifier_says cr c w pf with
                       | Err e' => e = e'
                       | _ => False
                       end
            | Panic s => match verifier_says cr c w pf with
                         | Panic s' => s = s'
                         | _ => False
                         end
            | OutOfFuel => match verifier_says cr c w pf with
                           | OutOfFuel => True
                           | _ => False
                           end
            end).
Proof. exact apply_refusal_noop. Qed.

Theorem C04_not_accepted_classified :
  forall (cr : crypto) (f : option bool) (pf : proof) (c : core) (w : world) 
           (c' : core) (w' : world) (r : res bool),
         core_apply_proof cr f pf c w = (c', w', r) ->
         r <> Ok true ->
         c' = c /\ w' = w /\ refused_at_gate cr c w pf \/
         (exists cs : changeset,
            p_fork pf = t_fork (c_tree c) /\
            verifier_says cr c w pf = Ok cs /\ commitable (c_tree c) cs = true /\ (forall b : bool, r <> Ok b)).
Proof. exact apply_not_accepted. Qed.

Theorem C04_accepted_block_section_is_the_writers :
  forall cr : crypto,
         (forall x : bytes, Datatypes.length (cr_hash cr x) = 32%nat) ->
         (forall x : bytes, all_zero (cr_hash cr x) = false) ->
         forall bs : list bytes,
         sumN (map len bs) <= u64_max ->
         forall (t : mtree) (tf : file) (r fork : N) (b : data_block) (pk : bytes) (cs : changeset),
         unfl_sound cr bs t r ->
         file_sound cr bs tf r ->
         verify_proof cr t tf
           {| p_fork := fork; p_block := Some b; p_hash := None; p_seek := None; p_upgrade := None |} pk =
         Ok cs ->
         db_value b = TreeRef.blk bs (db_index b) /\
         db_nodes b = ref_sibs cr bs (Datatypes.length (db_nodes b)) 0 (db_index b) \/ 
         some_collision cr.
Proof. exact accepted_block_section_is_writers. Qed.

Theorem C04_fresh_replica_invariant :
  forall cr : crypto,
         (forall x : bytes, Datatypes.length (cr_hash cr x) = 32%nat) ->
         (forall x : bytes, all_zero (cr_hash cr x) = false) ->
         forall (bs : list bytes) (kp : keypair),
         len (enc_header (header_new kp)) < 1073741824 ->
         exists (d' : disk) (ops : list sop) (c : core),
           core_open cr (Some kp) false disk_empty = (d', ops, Ok c) /\ RInv cr bs c d' /\ c_keypair c = kp.
Proof. exact RInv_fresh. Qed.

Theorem C04_single_size_alteration_detected :
  forall (cr : crypto) (bs : list bytes),
         sumN (map len bs) <= u64_max ->
         forall a a' b : node,
         n_index a = n_index a' ->
         n_hash a = n_hash a' ->
         n_length a + n_length b < 2 ^ 64 ->
         n_length a' + n_length b < 2 ^ 64 ->
         parent_hash cr a b = parent_hash cr a' b -> n_length a = n_length a' \/ some_collision cr.
Proof. exact single_size_alteration_detected. Qed.

Theorem C04_any_accepted_proof_keeps_hashes_values_lengths :
  forall cr : crypto,
         (forall x : bytes, Datatypes.length (cr_hash cr x) = 32%nat) ->
         (forall x : bytes, all_zero (cr_hash cr x) = false) ->
         forall bs : list bytes,
         writer_fits bs ->
         forall (f : option bool) (pf : proof) (c : core) (d : disk) (j : list sop) 
           (ev : list event) (c' : core) (w' : world),
         HInv cr bs c d ->
         proof_wire pf ->
         tree_root_fits cr pf (c_tree c) ->
         core_apply_proof cr f pf c {| w_disk := d; w_journal := j; w_events := ev |} = (c', w', Ok true) ->
         HInv cr bs c' (w_disk w') /\
         t_length (c_tree c) <= t_length (c_tree c') /\
         (forall b : data_block,
          p_block pf = Some b -> db_value b = TreeRef.blk bs (db_index b) /\ db_index b < t_length (c_tree c')) /\
         signed_by_writer cr bs (signable (tree_hash cr (t_roots (c_tree c'))) (t_length (c_tree c')) 0) /\
         i_byte_length (core_info c') = TreeRef.prefix_size bs (i_length (core_info c')) \/
         some_collision cr \/ forged_signature cr bs (kp_public (c_keypair c)).
Proof. exact apply_any_proof. Qed.

Theorem C04_any_outcome_keeps_hash_invariant :
  forall cr : crypto,
         (forall x : bytes, Datatypes.length (cr_hash cr x) = 32%nat) ->
         forall bs : list bytes,
         writer_fits bs ->
         forall (f : option bool) (pf : proof) (c : core) (d : disk) (j : list sop) 
           (ev : list event) (c' : core) (w' : world) (r : res bool),
         HInv cr bs c d ->
         proof_wire pf ->
         tree_root_fits cr pf (c_tree c) ->
         core_apply_proof cr f pf c {| w_disk := d; w_journal := j; w_events := ev |} = (c', w', r) ->
         HInv cr bs c' (w_disk w') \/ some_collision cr \/ forged_signature cr bs (kp_public (c_keypair c)).
Proof. exact apply_any_proof_any_outcome. Qed.

Theorem C04_bound_sizes_are_the_writers :
  forall cr : crypto,
         (forall x : bytes, Datatypes.length (cr_hash cr x) = 32%nat) ->
         forall bs : list bytes,
         writer_fits bs ->
         forall (t : mtree) (tf : file) (pf : proof) (pk : bytes) (cs : changeset) (m : N),
         accepted cr bs t tf pf pk cs m ->
         t_roots t = TreeRef.ref_roots cr bs (t_length t) ->
         forall x : node, size_bound cr t pf cs x -> In x (spool t cs) -> wsize cr bs x \/ some_collision cr.
Proof. exact size_bound_sound. Qed.

Theorem C04_unbound_sizes_characterised :
  forall (cr : crypto) (bs : list bytes) (t : mtree) (tf : file) (pf : proof) 
           (pk : bytes) (cs : changeset) (m : N),
         accepted cr bs t tf pf pk cs m ->
         forall x : node,
         In x (cs_nodes cs) ->
         size_bound cr t pf cs x \/
         proof_supplied pf x /\ stored_check t tf x \/
         proof_supplied pf x /\
         (exists s P : node,
            proof_supplied pf s /\
            In s (cs_nodes cs) /\ In P (cs_nodes cs) /\ (merged_of cr x s P \/ merged_of cr s x P)).
Proof. exact unbound_sizes_alone_or_in_sibling_pairs. Qed.

Theorem C04_sibling_pair_sizes_keep_their_sum :
  forall cr : crypto,
         (forall x : bytes, Datatypes.length (cr_hash cr x) = 32%nat) ->
         forall bs : list bytes,
         writer_fits bs ->
         forall (t : mtree) (tf : file) (pf : proof) (pk : bytes) (cs : changeset) (m : N),
         accepted cr bs t tf pf pk cs m ->
         forall x s P : node,
         merged_of cr x s P \/ merged_of cr s x P ->
         In P (cs_nodes cs) ->
         n_length x + n_length s =
         n_length (TreeRef.ref_at cr bs (n_index x)) + n_length (TreeRef.ref_at cr bs (n_index s)) \/
         some_collision cr.
Proof. exact sibling_pair_sum. Qed.

Theorem C04_reads_under_correct_sizes :
  forall (cr : crypto) (bs : list bytes),
         writer_fits bs ->
         forall (c : core) (d : disk) (j : list sop) (ev : list event) (i : N) (c' : core) 
           (w' : world) (v : bytes),
         HInv cr bs c d ->
         sizes_ok_upto cr bs c d i ->
         (len (TreeRef.blk bs i) <> 0 ->
          f_read (d_data d) (TreeRef.prefix_size bs i) (len (TreeRef.blk bs i)) = Some (TreeRef.blk bs i)) ->
         core_get i c {| w_disk := d; w_journal := j; w_events := ev |} = (c', w', Ok (Some v)) ->
         v = TreeRef.blk bs i.
Proof. exact get_under_sizes. Qed.

Theorem C04_full_invariant_implies_hash_invariant :
  forall (cr : crypto) (bs : list bytes),
         writer_fits bs -> forall (c : core) (d : disk), RInv cr bs c d -> HInv cr bs c d.
Proof. exact RInv_HInv. Qed.

Theorem C04_altered_field_refused :
  forall cr : crypto,
         (forall x : bytes, Datatypes.length (cr_hash cr x) = 32%nat) ->
         (forall x : bytes, all_zero (cr_hash cr x) = false) ->
         forall bs : list bytes,
         writer_fits bs ->
         forall (c : core) (d : disk) (j : list sop) (ev : list event) (pf pf' : proof),
         let pk := kp_public (c_keypair c) in
         let r := t_length (c_tree c) in
         RInv cr bs c d ->
         honest cr bs pk r pf ->
         altered pf pf' ->
         wire_ok pf' ->
         refused cr pf' c {| w_disk := d; w_journal := j; w_events := ev |} \/
         some_collision cr \/ forged_signature cr bs pk \/ sig_transplant cr pk \/ sig_malleable cr pk.
Proof. exact altered_field_refused. Qed.

Theorem C04_altered_field_of_block_upgrade_proof_refused :
  forall cr : crypto,
         (forall x : bytes, Datatypes.length (cr_hash cr x) = 32%nat) ->
         (forall x : bytes, all_zero (cr_hash cr x) = false) ->
         forall bs : list bytes,
         writer_fits bs ->
         forall (c : core) (d : disk) (j : list sop) (ev : list event) (pf pf' : proof),
         let pk := kp_public (c_keypair c) in
         let r := t_length (c_tree c) in
         RInv cr bs c d ->
         honest_bu cr bs (c_tree c) (d_tree d) pk r pf ->
         altered pf pf' ->
         wire_ok pf' ->
         block_fits pf' ->
         refused cr pf' c {| w_disk := d; w_journal := j; w_events := ev |} \/
         some_collision cr \/ forged_signature cr bs pk \/ sig_transplant cr pk \/ sig_malleable cr pk.
Proof. exact bu_altered_field_refused. Qed.

Theorem C04_proof_from_another_writer_refused :
  forall cr : crypto,
         (forall x : bytes, Datatypes.length (cr_hash cr x) = 32%nat) ->
         (forall x : bytes, all_zero (cr_hash cr x) = false) ->
         forall bs : list bytes,
         writer_fits bs ->
         forall (bs2 : list bytes) (pk2 : bytes) (c : core) (d : disk) (j : list sop) 
           (ev : list event) (pf2 : proof),
         let pk := kp_public (c_keypair c) in
         let r := t_length (c_tree c) in
         RInv cr bs c d ->
         honest cr bs2 pk2 r pf2 ->
         wire_ok pf2 ->
         refused cr pf2 c {| w_disk := d; w_journal := j; w_events := ev |} \/
         honest cr bs pk r pf2 \/ some_collision cr \/ forged_signature cr bs pk.
Proof. exact whole_proof_from_another_writer_refused. Qed.

Theorem C04_accepted_block_proof_is_the_honest_one :
  forall cr : crypto,
         (forall x : bytes, Datatypes.length (cr_hash cr x) = 32%nat) ->
         (forall x : bytes, all_zero (cr_hash cr x) = false) ->
         forall bs : list bytes,
         writer_fits bs ->
         forall (f : option bool) (c : core) (d : disk) (j : list sop) (ev : list event) 
           (b : data_block) (c' : core) (w' : world),
         RInv cr bs c d ->
         core_apply_proof cr f
           {| p_fork := 0; p_block := Some b; p_hash := None; p_seek := None; p_upgrade := None |} c
           {| w_disk := d; w_journal := j; w_events := ev |} = (c', w', Ok true) ->
         b = hon_block cr bs (db_index b) (Datatypes.length (db_nodes b)) \/ some_collision cr.
Proof. exact accepted_block_proof_is_honest. Qed.

Theorem C04_accepted_upgrade_proof_shape :
  forall cr : crypto,
         (forall x : bytes, Datatypes.length (cr_hash cr x) = 32%nat) ->
         forall bs : list bytes,
         writer_fits bs ->
         forall (f : option bool) (c : core) (d : disk) (j : list sop) (ev : list event) 
           (s' l' : N) (nodes' : list node) (sg' : bytes) (c' : core) (w' : world),
         let pk := kp_public (c_keypair c) in
         let r := t_length (c_tree c) in
         RInv cr bs c d ->
         r < s' + l' ->
         nodes_ok nodes' = true ->
         no_sibling_pair nodes' ->
         core_apply_proof cr f
           {|
             p_fork := 0;
             p_block := None;
             p_hash := None;
             p_seek := None;
             p_upgrade :=
               Some
                 {|
                   du_start := s';
                   du_length := l';
                   du_nodes := nodes';
                   du_additional := [];
                   du_signature := sg'
                 |}
           |} c {| w_disk := d; w_journal := j; w_events := ev |} = (c', w', Ok true) ->
         (exists tail : list node,
            nodes' = map (TreeRef.rn cr bs) (Replicate2.upg_idx Replicate2.g64 0 r (s' + l')) ++ tail) /\
         s' + l' <= N.of_nat (Datatypes.length bs) \/ some_collision cr \/ forged_signature cr bs pk.
Proof. exact accepted_upgrade_proof_shape. Qed.

Theorem C04_upgrade_target_length_is_signed :
  forall (cr : crypto) (bs : list bytes),
         writer_fits bs ->
         forall (c0 : changeset) (r : N) (root : option node) (fork s' l' : N) (nodes' : list node)
           (sg' pk : bytes) (consumed : bool) (cs : changeset),
         Replicate2.vinv cr bs c0 r ->
         2 * r <= u64_max ->
         verify_upgrade cr fork
           {| du_start := s'; du_length := l'; du_nodes := nodes'; du_additional := []; du_signature := sg' |}
           root pk c0 = Ok (consumed, cs) ->
         cs_length cs = N.max r (s' + l') /\
         s' + l' < 2 ^ 64 /\
         cr_verify cr pk (signable (tree_hash cr (cs_roots cs)) (N.max r (s' + l')) fork) sg' = true.
Proof. exact upgrade_target_length. Qed.

Theorem C04_hash_invariant_implies_reopen_invariant :
  forall cr : crypto,
         (forall x : bytes, Datatypes.length (cr_hash cr x) = 32%nat) ->
         forall bs : list bytes,
         writer_fits bs -> forall (c : core) (d : disk), HInv cr bs c d -> HInvR cr bs c d.
Proof. exact HInv_implies_HInvR. Qed.

Theorem C04_reopen_invariant_drops_only_root_sizes :
  forall (cr : crypto) (bs : list bytes) (c : core) (d : disk),
         HInvR cr bs c d ->
         (forall x : node,
          In x (t_roots (c_tree c)) -> n_length x = n_length (TreeRef.ref_at cr bs (n_index x))) ->
         HInv cr bs c d.
Proof. exact HInvR_plus_root_sizes_is_HInv. Qed.

Theorem C04_fresh_replica_reopen_invariant :
  forall cr : crypto,
         OplogFacts.crc_ok cr ->
         (forall x : bytes, Datatypes.length (cr_hash cr x) = 32%nat) ->
         (forall x : bytes, all_zero (cr_hash cr x) = false) ->
         (forall x : bytes, bytes_ok (cr_hash cr x) = true) ->
         forall bs : list bytes,
         writer_fits bs ->
         forall kp : keypair,
         OplogFacts.keypair_ok kp = true ->
         kp_secret kp = None ->
         exists (d' : disk) (ops : list sop) (c : core),
           core_open cr (Some kp) false disk_empty = (d', ops, Ok c) /\
           HDInvR cr bs c d' (fun _ : N => false) /\ c_keypair c = kp /\ t_length (c_tree c) = 0.
Proof. exact fresh_replica_HDInvR. Qed.

Theorem C04_reopen_reestablishes_hash_invariant :
  forall cr : crypto,
         OplogFacts.crc_ok cr ->
         (forall x : bytes, Datatypes.length (cr_hash cr x) = 32%nat) ->
         (forall x : bytes, all_zero (cr_hash cr x) = false) ->
         (forall x : bytes, bytes_ok (cr_hash cr x) = true) ->
         forall bs : list bytes,
         writer_fits bs ->
         forall (c : core) (d : disk) (H : N -> bool),
         HDInvR cr bs c d H ->
         exists c' : core,
           core_open cr None true d = (d, [], Ok c') /\
           HDInvR cr bs c' d H /\
           t_length (c_tree c') = t_length (c_tree c) /\
           c_keypair c' = c_keypair c /\
           c_oplog c' = c_oplog c /\
           (forall i : N, core_has c' i = core_has c i) /\
           hd_contig (c_header c') = hd_contig (c_header c) /\ c_skip c' = 0.
Proof. exact reopen_reestablishes_invariant. Qed.

Theorem C04_any_outcome_keeps_reopen_invariant :
  forall cr : crypto,
         (forall x : bytes, Datatypes.length (cr_hash cr x) = 32%nat) ->
         (forall x : bytes, all_zero (cr_hash cr x) = false) ->
         forall bs : list bytes,
         writer_fits bs ->
         forall (f : option bool) (pf : proof) (c : core) (w : world) (c' : core) (w' : world) (r : res bool),
         HInvR cr bs c (w_disk w) ->
         proof_wire pf ->
         core_apply_proof cr f pf c w = (c', w', r) ->
         r = Ok true /\ HInvR cr bs c' (w_disk w') \/
         c' = c /\ w' = w /\ ReplicaCorA.unchanged_outcome cr pf c w r \/
         r = Panic frame_msg /\ HInvR cr bs c' (w_disk w') \/
         some_collision cr \/ forged_signature cr bs (kp_public (c_keypair c)).
Proof. exact apply_anyR_outcome. Qed.

Theorem C04_any_outcome_keeps_reopen_invariant_on_disk :
  forall cr : crypto,
         OplogFacts.crc_ok cr ->
         (forall x : bytes, Datatypes.length (cr_hash cr x) = 32%nat) ->
         (forall x : bytes, all_zero (cr_hash cr x) = false) ->
         (forall x : bytes, bytes_ok (cr_hash cr x) = true) ->
         forall bs : list bytes,
         writer_fits bs ->
         forall (f : option bool) (pf : proof) (c : core) (w : world) (H : N -> bool) 
           (c' : core) (w' : world) (r : res bool),
         HDInvR cr bs c (w_disk w) H ->
         proof_wireS pf ->
         core_apply_proof cr f pf c w = (c', w', r) ->
         r = Ok true /\
         HDInvR cr bs c' (w_disk w') (ReplicaDisk3.hold H (p_block pf)) /\
         c_keypair c' = c_keypair c /\
         t_length (c_tree c) <= t_length (c_tree c') /\
         (forall b : data_block,
          p_block pf = Some b -> db_value b = TreeRef.blk bs (db_index b) /\ db_index b < t_length (c_tree c')) \/
         c' = c /\ w' = w /\ ReplicaCorA.unchanged_outcome cr pf c w r \/
         r = Panic frame_msg /\ c' = c /\ HDInvR cr bs c' (w_disk w') H \/
         some_collision cr \/ forged_signature cr bs (kp_public (c_keypair c)).
Proof. exact apply_any_outcome_keeps_HDInvR. Qed.

Theorem C04_reopen_invariant_content :
  forall (cr : crypto) (bs : list bytes) (c : core) (d : disk),
         HInvR cr bs c d ->
         let t := c_tree c in
         let r := t_length t in
         i_length (core_info c) = r /\
         r <= N.of_nat (Datatypes.length bs) /\
         i_fork (core_info c) = 0 /\
         signed_by_writer cr bs (signable (tree_hash cr (TreeRef.ref_roots cr bs r)) r 0) /\
         map n_index (t_roots t) = map n_index (TreeRef.ref_roots cr bs r) /\
         map n_hash (t_roots t) = map n_hash (TreeRef.ref_roots cr bs r) /\
         i_byte_length (core_info c) = NoPanic.lens (t_roots t) /\
         ((forall x : node, In x (t_roots t) -> n_length x = n_length (TreeRef.ref_at cr bs (n_index x))) ->
          i_byte_length (core_info c) = TreeRef.prefix_size bs r) /\
         (forall (j : N) (nd : node),
          required_node t (d_tree d) j = Ok nd ->
          n_index nd = j /\ n_hash nd = n_hash (TreeRef.ref_at cr bs j) /\ in_len r j).
Proof. exact HInvR_content. Qed.

Theorem C04_any_history_with_reopen_sound :
  forall cr : crypto,
         OplogFacts.crc_ok cr ->
         (forall x : bytes, Datatypes.length (cr_hash cr x) = 32%nat) ->
         (forall x : bytes, all_zero (cr_hash cr x) = false) ->
         (forall x : bytes, bytes_ok (cr_hash cr x) = true) ->
         forall bs : list bytes,
         writer_fits bs ->
         forall (ops : list hop) (c : core) (w : world) (H : N -> bool) (c' : core) (w' : world),
         HDInvR cr bs c (w_disk w) H ->
         Forall hop_ok ops ->
         run_hops cr ops c w = (c', w') ->
         (exists H' : N -> bool, HDInvR cr bs c' (w_disk w') H' /\ hist_rel c H c' H') \/
         some_collision cr \/ forged_signature cr bs (kp_public (c_keypair c)).
Proof. exact any_history_with_reopen_sound. Qed.

Theorem C04_any_history_with_reopen_content :
  forall cr : crypto,
         OplogFacts.crc_ok cr ->
         (forall x : bytes, Datatypes.length (cr_hash cr x) = 32%nat) ->
         (forall x : bytes, all_zero (cr_hash cr x) = false) ->
         (forall x : bytes, bytes_ok (cr_hash cr x) = true) ->
         forall bs : list bytes,
         writer_fits bs ->
         forall (ops pre post : list hop) (c : core) (w : world) (H : N -> bool) (c' : core) (w' : world),
         HDInvR cr bs c (w_disk w) H ->
         Forall hop_ok ops ->
         ops = pre ++ post ->
         run_hops cr pre c w = (c', w') ->
         (exists H' : N -> bool,
            c04_content cr bs c' (w_disk w') H' /\
            hist_rel c H c' H' /\
            (exists c2 : core,
               core_open cr None true (w_disk w') = (w_disk w', [], Ok c2) /\
               t_length (c_tree c2) = t_length (c_tree c') /\ (forall i : N, core_has c2 i = core_has c' i))) \/
         some_collision cr \/ forged_signature cr bs (kp_public (c_keypair c)).
Proof. exact any_history_with_reopen_content. Qed.

Theorem C04_accepted_proof_keeps_convergence_invariant :
  forall cr : crypto,
         OplogFacts.crc_ok cr ->
         (forall x : bytes, Datatypes.length (cr_hash cr x) = 32%nat) ->
         (forall x : bytes, all_zero (cr_hash cr x) = false) ->
         (forall x : bytes, bytes_ok (cr_hash cr x) = true) ->
         forall bs : list bytes,
         writer_fits bs ->
         forall (f : option bool) (pf : proof) (c : core) (d : disk) (j : list sop) 
           (ev : list event) (H : N -> bool) (c' : core) (w' : world),
         AcceptAllCore3.RCInv cr bs c d H ->
         ReplicaDisk3.rd_proof_ok pf ->
         core_apply_proof cr f pf c {| w_disk := d; w_journal := j; w_events := ev |} = (c', w', Ok true) ->
         AcceptAllCore3.RCInv cr bs c' (w_disk w') (ReplicaDisk3.hold H (p_block pf)) /\
         c_keypair c' = c_keypair c /\ t_length (c_tree c) <= t_length (c_tree c') \/
         some_collision cr \/ forged_signature cr bs (kp_public (c_keypair c)).
Proof. exact apply_keeps_RCInv. Qed.

Theorem C04_then_complete :
  forall cr : crypto,
         OplogFacts.crc_ok cr ->
         (forall x : bytes, Datatypes.length (cr_hash cr x) = 32%nat) ->
         (forall x : bytes, all_zero (cr_hash cr x) = false) ->
         (forall x : bytes, bytes_ok (cr_hash cr x) = true) ->
         forall bs : list bytes,
         writer_fits bs ->
         forall (f : option bool) (pf : proof) (c : core) (d : disk) (j : list sop) 
           (ev : list event) (H : N -> bool) (c' : core) (w' : world) (r : res bool),
         AcceptAllCore3.RCInv cr bs c d H ->
         ReplicaDisk3.rd_proof_ok pf ->
         core_apply_proof cr f pf c {| w_disk := d; w_journal := j; w_events := ev |} = (c', w', r) ->
         answered r ->
         (r <> Ok true -> c' = c /\ w' = {| w_disk := d; w_journal := j; w_events := ev |}) /\
         (forall i : N, H i = true -> core_has c' i = true) /\
         (forall (i : N) (j2 : list sop) (ev2 : list event),
          core_has c' i = true ->
          core_get i c' {| w_disk := w_disk w'; w_journal := j2; w_events := ev2 |} =
          (c', {| w_disk := w_disk w'; w_journal := j2; w_events := ev2 |}, Ok (Some (TreeRef.blk bs i)))) /\
         completes cr bs c' w' (adv_held H pf r) \/
         some_collision cr \/ forged_signature cr bs (kp_public (c_keypair c)).
Proof. exact C04_then_complete. Qed.

Theorem C04_history_then_complete :
  forall cr : crypto,
         OplogFacts.crc_ok cr ->
         (forall x : bytes, Datatypes.length (cr_hash cr x) = 32%nat) ->
         (forall x : bytes, all_zero (cr_hash cr x) = false) ->
         (forall x : bytes, bytes_ok (cr_hash cr x) = true) ->
         forall bs : list bytes,
         writer_fits bs ->
         forall (ss : list lev) (c : core) (d : disk) (j : list sop) (ev : list event) 
           (H : N -> bool) (c' : core) (w' : world),
         AcceptAllCore3.RCInv cr bs c d H ->
         lhist cr bs ss c {| w_disk := d; w_journal := j; w_events := ev |} ->
         lrun cr ss c {| w_disk := d; w_journal := j; w_events := ev |} = Some (c', w') ->
         (exists H' : N -> bool,
            (forall i : N, H i = true -> core_has c' i = true) /\
            (forall i : N, lrequested ss i -> core_has c' i = true) /\
            (forall i : N, core_has c' i = H' i) /\
            (forall (i : N) (j2 : list sop) (ev2 : list event),
             core_has c' i = true ->
             core_get i c' {| w_disk := w_disk w'; w_journal := j2; w_events := ev2 |} =
             (c', {| w_disk := w_disk w'; w_journal := j2; w_events := ev2 |}, Ok (Some (TreeRef.blk bs i)))) /\
            c_keypair c' = c_keypair c /\
            t_length (c_tree c) <= t_length (c_tree c') /\
            t_byte_length (c_tree c') = TreeRef.prefix_size bs (t_length (c_tree c')) /\
            completes cr bs c' w' H') \/ some_collision cr \/ forged_signature cr bs (kp_public (c_keypair c)).
Proof. exact C04_history_then_complete. Qed.

Theorem C04_fresh_history_then_complete :
  forall cr : crypto,
         OplogFacts.crc_ok cr ->
         (forall x : bytes, Datatypes.length (cr_hash cr x) = 32%nat) ->
         (forall x : bytes, all_zero (cr_hash cr x) = false) ->
         (forall x : bytes, bytes_ok (cr_hash cr x) = true) ->
         forall bs : list bytes,
         writer_fits bs ->
         forall (kp : keypair) (ss : list lev),
         OplogFacts.keypair_ok kp = true ->
         kp_secret kp = None ->
         exists (d0 : disk) (ops0 : list sop) (c0 : core),
           core_open cr (Some kp) false disk_empty = (d0, ops0, Ok c0) /\
           (lhist cr bs ss c0 {| w_disk := d0; w_journal := []; w_events := [] |} ->
            forall (c' : core) (w' : world),
            lrun cr ss c0 {| w_disk := d0; w_journal := []; w_events := [] |} = Some (c', w') ->
            (exists H' : N -> bool,
               (forall i : N, lrequested ss i -> core_has c' i = true) /\
               (forall i : N, core_has c' i = H' i) /\
               (forall (i : N) (j2 : list sop) (ev2 : list event),
                core_has c' i = true ->
                core_get i c' {| w_disk := w_disk w'; w_journal := j2; w_events := ev2 |} =
                (c', {| w_disk := w_disk w'; w_journal := j2; w_events := ev2 |}, Ok (Some (TreeRef.blk bs i)))) /\
               t_byte_length (c_tree c') = TreeRef.prefix_size bs (t_length (c_tree c')) /\
               completes cr bs c' w' H') \/ some_collision cr \/ forged_signature cr bs (kp_public kp)).
Proof. exact C04_fresh_history_then_complete. Qed.

Theorem C04_history_progress :
  forall cr : crypto,
         OplogFacts.crc_ok cr ->
         (forall x : bytes, Datatypes.length (cr_hash cr x) = 32%nat) ->
         (forall x : bytes, all_zero (cr_hash cr x) = false) ->
         (forall x : bytes, bytes_ok (cr_hash cr x) = true) ->
         forall bs : list bytes,
         writer_fits bs ->
         forall (ss : list lev) (c : core) (d : disk) (j : list sop) (ev : list event) (H : N -> bool),
         AcceptAllCore3.RCInv cr bs c d H ->
         lhist cr bs ss c {| w_disk := d; w_journal := j; w_events := ev |} ->
         lrun cr ss c {| w_disk := d; w_journal := j; w_events := ev |} = None ->
         (exists (pre : list lev) (f : option bool) (pf : proof) (post : list lev) 
          (c1 : core) (w1 : world),
            ss = pre ++ LAdv f pf :: post /\
            lrun cr pre c {| w_disk := d; w_journal := j; w_events := ev |} = Some (c1, w1) /\
            died (snd (core_apply_proof cr f pf c1 w1))) \/
         some_collision cr \/ forged_signature cr bs (kp_public (c_keypair c)).
Proof. exact lrun_progress. Qed.

Theorem C04_liveness_fails_after_size_carveout :
  exists (c : core) (w : world) (H : N -> bool) (f : option bool) (pf : proof) 
         (c' : core) (w' : world),
           AcceptAllCore3.RCInv sc_cr sc_blocks c (w_disk w) H /\
           (p_block pf = None /\
            p_seek pf = None /\ p_upgrade pf = None /\ (exists h : data_hash, p_hash pf = Some h)) /\
           core_apply_proof sc_cr f pf c w = (c', w', Ok true) /\
           (exists (es : list AcceptAllHist.revent) (c2 : core) (w2 : world),
              FrameGuard.hist_all_ng sc_cr sc_blocks es c' w' /\
              AcceptAllHist.run sc_cr es c' w' = Some (c2, w2) /\
              AcceptAllHist.requested es 3 /\
              core_has c2 3 = true /\
              snd (core_get 3 c2 w2) = Ok (Some [0; 5; 6; 7]) /\ TreeRef.blk sc_blocks 3 = [5; 6; 7; 8]) /\
           (forall H' : N -> bool, ~ completes sc_cr sc_blocks c' w' H').
Proof. exact liveness_fails_after_size_carveout. Qed.

Theorem C04_liveness_fails_after_additional_nodes_carveout :
  exists
           (c : core) (w : world) (f : option bool) (pf : proof) (u : data_upgrade) 
         (c' : core) (w' : world),
           (exists ops : list sop,
              core_open sc_cr (Some {| kp_public := sc_key; kp_secret := None |}) false disk_empty =
              (w_disk w, ops, Ok c)) /\
           AcceptAllCore3.RCInv sc_cr sc_blocks c (w_disk w) (fun _ : N => false) /\
           (p_block pf = None /\
            p_hash pf = None /\ p_seek pf = None /\ p_upgrade pf = Some u /\ du_additional u <> []) /\
           core_apply_proof sc_cr f pf c w = (c', w', Ok true) /\
           (exists (es : list AcceptAllHist.revent) (c2 : core) (w2 : world),
              FrameGuard.hist_all_ng sc_cr sc_blocks es c' w' /\
              AcceptAllHist.run sc_cr es c' w' = Some (c2, w2) /\
              AcceptAllHist.requested es 3 /\
              core_has c2 3 = true /\
              snd (core_get 3 c2 w2) = Ok (Some [0; 5; 6; 7]) /\ TreeRef.blk sc_blocks 3 = [5; 6; 7; 8]) /\
           (forall H' : N -> bool, ~ completes sc_cr sc_blocks c' w' H').
Proof. exact liveness_fails_after_additional_nodes_carveout. Qed.

Theorem C04_history_then_complete_example :
  AcceptAllCore3.RCInv sc_cr sc_blocks AcceptAllEx.scR_c (w_disk AcceptAllEx.scR_w) (fun _ : N => false) /\
         lhist sc_cr sc_blocks ly_ss AcceptAllEx.scR_c AcceptAllEx.scR_w /\
         lrun sc_cr ly_ss AcceptAllEx.scR_c AcceptAllEx.scR_w = Some (ly4_c, ly4_w) /\
         FrameGuard.hist_all_ng sc_cr sc_blocks ly_es ly4_c ly4_w /\
         (core_has ly4_c 3 = true /\
          (forall (i : N) (j2 : list sop) (ev2 : list event),
           core_has ly4_c i = true ->
           core_get i ly4_c {| w_disk := w_disk ly4_w; w_journal := j2; w_events := ev2 |} =
           (ly4_c, {| w_disk := w_disk ly4_w; w_journal := j2; w_events := ev2 |},
            Ok (Some (TreeRef.blk sc_blocks i)))) /\
          (exists (c2 : core) (w2 : world),
             AcceptAllHist.run sc_cr ly_es ly4_c ly4_w = Some (c2, w2) /\
             core_has c2 5 = true /\
             core_has c2 2 = true /\
             core_has c2 3 = true /\
             (forall (i : N) (j2 : list sop) (ev2 : list event),
              core_has c2 i = true ->
              core_get i c2 {| w_disk := w_disk w2; w_journal := j2; w_events := ev2 |} =
              (c2, {| w_disk := w_disk w2; w_journal := j2; w_events := ev2 |},
               Ok (Some (TreeRef.blk sc_blocks i))))) \/
          some_collision sc_cr \/ forged_signature sc_cr sc_blocks (kp_public (c_keypair AcceptAllEx.scR_c))).
Proof. exact ly_history_then_complete_applies. Qed.

Print Assumptions C04_block_value_sound.
Print Assumptions C04_climb_sound.
Print Assumptions C04_leaf_hash_binds.
Print Assumptions C04_tree_hash_binds.
Print Assumptions C04_signature_covers_roots_length_fork.
Print Assumptions C04_signed_message_binds.
Print Assumptions C04_accept_means_checked.
Print Assumptions C04_refused_by_fork_gate.
Print Assumptions C04_refused_by_verifier.
Print Assumptions C04_refused_by_commit_gate.
Print Assumptions C04_accepted_proof_keeps_replica_consistent.
Print Assumptions C04_accepted_proof_reads_are_the_writers.
Print Assumptions C04_replica_reads_under_invariant.
Print Assumptions C04_replica_never_reads_a_foreign_block.
Print Assumptions C04_refusal_at_a_gate_is_a_noop.
Print Assumptions C04_not_accepted_classified.
Print Assumptions C04_accepted_block_section_is_the_writers.
Print Assumptions C04_fresh_replica_invariant.
Print Assumptions C04_single_size_alteration_detected.
Print Assumptions SoundCore.size_carveout_refuted.
Print Assumptions SoundCore.size_carveout_upgrade_additional_refuted.
Print Assumptions SoundCore.sc_replication.
Print Assumptions SoundCoreBU.sc_block_upgrade_theorem_applies.
Print Assumptions SoundCore.sc_refusal_applies.
Print Assumptions C04_any_accepted_proof_keeps_hashes_values_lengths.
Print Assumptions C04_any_outcome_keeps_hash_invariant.
Print Assumptions C04_bound_sizes_are_the_writers.
Print Assumptions C04_unbound_sizes_characterised.
Print Assumptions C04_sibling_pair_sizes_keep_their_sum.
Print Assumptions C04_reads_under_correct_sizes.
Print Assumptions C04_full_invariant_implies_hash_invariant.
Print Assumptions AnyProofEx.lone_node_size_refuted.
Print Assumptions AnyProofEx.byte_length_after_reopen_refuted.
Print Assumptions AnyProofEx.sizes_repaired_data_misplaced_refuted.
Print Assumptions AnyProofEx.any_shape_applies.
Print Assumptions C04_altered_field_refused.
Print Assumptions C04_altered_field_of_block_upgrade_proof_refused.
Print Assumptions C04_proof_from_another_writer_refused.
Print Assumptions C04_accepted_block_proof_is_the_honest_one.
Print Assumptions C04_accepted_upgrade_proof_shape.
Print Assumptions C04_upgrade_target_length_is_signed.
Print Assumptions AlterRefused.sc_upgrade_alterations_refused.
Print Assumptions AlterRefused.sc_block_alterations_refused.
Print Assumptions AlterRefused.sc_bu_alterations_refused.
Print Assumptions AlterRefused.sc_upgrade_structural_alterations.
Print Assumptions AlterRefused.sc_honest_accepted.
Print Assumptions C04_hash_invariant_implies_reopen_invariant.
Print Assumptions C04_reopen_invariant_drops_only_root_sizes.
Print Assumptions C04_fresh_replica_reopen_invariant.
Print Assumptions C04_reopen_reestablishes_hash_invariant.
Print Assumptions C04_any_outcome_keeps_reopen_invariant.
Print Assumptions C04_any_outcome_keeps_reopen_invariant_on_disk.
Print Assumptions C04_reopen_invariant_content.
Print Assumptions C04_any_history_with_reopen_sound.
Print Assumptions C04_any_history_with_reopen_content.
Print Assumptions C04_accepted_proof_keeps_convergence_invariant.
Print Assumptions C04_then_complete.
Print Assumptions C04_history_then_complete.
Print Assumptions C04_fresh_history_then_complete.
Print Assumptions C04_history_progress.
Print Assumptions C04_liveness_fails_after_size_carveout.
Print Assumptions C04_liveness_fails_after_additional_nodes_carveout.
Print Assumptions C04_history_then_complete_example.

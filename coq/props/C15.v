(* C15 — a shared core is linearizable (pinned statements; proofs in Shared.v).
   Model: tasks issue method calls on one shared object; a method body is a list of micro-steps (one per
   storage operation / await point) run between acquiring and releasing one mutex; any task may be
   scheduled at any micro-step. Proved for any number of tasks, calls and micro-steps and EVERY
   schedule: the shared state and all results equal the atomic execution of the calls in completion
   (= lock acquisition) order, each task's results and program order are preserved, the order respects
   real time, and for an append-only log the append results are gap-free increasing lengths.
   Tie to the source: SharedShape.v is regenerated on every run from src/replication/shared_core.rs
   (tools/c15.py) and must say that every trait method is a single critical section.
   Partial by nature: fairness and wake-ups of async_lock::Mutex and of the executor are run-time
   behaviour; they are exercised by the deterministic-scheduler runs of tools/c15.py. *)
From HC Require Import SharedMore SharedMoreR.
From HC Require Import SoundCoreLib SoundCore ReplicaDisk1 ReplicaDisk5 ReplicaMiscC.
From HC Require Import Base Crypto Storage Core Refine ClearRefine Unified1 Unified3 SharedInst.
From Coq Require Import String.
From Coq Require Import List Bool Arith.
From HC Require Import Shared SharedShape.
Import ListNotations.
Local Open Scope nat_scope.

Definition all_atomic (l : list (string * bool)) : bool := forallb snd l.

(* premise of the model, derived from the source on every run *)
Theorem C15_every_method_is_one_critical_section :
  all_atomic shared_shape = true /\ shared_shape <> [].
Proof. split; [vm_compute; reflexivity | discriminate]. Qed.

Theorem C15_mutex_serializable :
  forall (S L R call : Type) (l0 : call -> L) (body : call -> list (S * L -> S * L)) (res : call -> L -> R)
         s0 progs cfg,
  steps l0 body res (init s0 progs) cfg -> holder cfg = None ->
  seq_run l0 body res s0 (map (fun e => snd (fst e)) (log cfg)) = (shared cfg, map snd (log cfg)).
Proof. exact serializable. Qed.

Theorem C15_results_and_program_order :
  forall (S L R call : Type) (l0 : call -> L) (body : call -> list (S * L -> S * L)) (res : call -> L -> R)
         s0 progs cfg,
  steps l0 body res (init s0 progs) cfg ->
  forall t tk, nth_error (tasks cfg) t = Some tk ->
    out tk = map snd (filter (fun e => Nat.eqb (fst (fst e)) t) (log cfg)) /\
    map (fun e => snd (fst e)) (filter (fun e => Nat.eqb (fst (fst e)) t) (log cfg)) ++ current (st tk) ++ prog tk
      = nth t progs [].
Proof.
  intros S L R call l0 body res s0 progs cfg H t tk Ht. split.
  - exact (results_match_log S L R call l0 body res s0 progs cfg H t tk Ht).
  - exact (program_order S L R call l0 body res s0 progs cfg H t tk Ht).
Qed.

Theorem C15_no_partial_observation :
  forall (S L R call : Type) (l0 : call -> L) (body : call -> list (S * L -> S * L)) (res : call -> L -> R)
         s0 progs cfg,
  steps l0 body res (init s0 progs) cfg ->
  (forall t tk, nth_error (tasks cfg) t = Some tk -> (running (st tk) <-> holder cfg = Some t)) /\
  (forall t, holder cfg = Some t -> exists tk, nth_error (tasks cfg) t = Some tk) /\
  (forall t1 t2 tk1 tk2, nth_error (tasks cfg) t1 = Some tk1 -> nth_error (tasks cfg) t2 = Some tk2 ->
     running (st tk1) -> running (st tk2) -> t1 = t2).
Proof. exact lock_exclusive. Qed.

Theorem C15_real_time_order :
  forall (S L R call : Type) (l0 : call -> L) (body : call -> list (S * L -> S * L)) (res : call -> L -> R)
         s0 progs cfg k,
  stepsT l0 body res (initT s0 progs) (cfg, k) ->
  map fst (tlog k) = log cfg /\
  forall i j a b, nth_error (tlog k) i = Some a -> nth_error (tlog k) j = Some b -> fin a < sta b -> i < j.
Proof. exact realtime_respected. Qed.

Theorem C15_every_run_has_a_clock :
  forall (S L R call : Type) (l0 : call -> L) (body : call -> list (S * L -> S * L)) (res : call -> L -> R)
         s0 progs cfg,
  steps l0 body res (init s0 progs) cfg -> exists k, stepsT l0 body res (initT s0 progs) (cfg, k).
Proof. exact reachable_has_clock. Qed.

Theorem C15_append_lengths_gap_free :
  forall s0 progs cfg, steps a_l0 a_body a_res (init s0 progs) cfg -> holder cfg = None ->
  forall i t x r, nth_error (log cfg) i = Some (t, Append x, r) ->
  r = 1 + appends (firstn i (map (fun e => snd (fst e)) (log cfg))) + length s0.
Proof. exact append_lengths_gap_free. Qed.

Example C15_concrete_interleaving :
  exists cfg, demo_final = Some cfg /\ steps a_l0 a_body a_res demo_init cfg /\
  holder cfg = None /\ shared cfg = [5;9;7] /\
  log cfg = [(1,Append 9,2); (0,Append 7,3); (0,Len,3)] /\
  seq_run a_l0 a_body a_res [5] (map (fun e => snd (fst e)) (log cfg)) = (shared cfg, map snd (log cfg)).
Proof. exact demo_run. Qed.

(* ---- the generic theorem instantiated with the real core model (SharedInst.v); statements in N scope ---- *)
Local Open Scope N_scope.

Theorem C15_real_core_concurrent_runs_are_serial :
  forall cr : crypto,
         OplogFacts.crc_ok cr ->
         (forall x : bytes, Datatypes.length (cr_hash cr x) = 32%nat) ->
         (forall x : bytes, all_zero (cr_hash cr x) = false) ->
         (forall x : bytes, bytes_ok (cr_hash cr x) = true) ->
         (forall sk m : bytes, Datatypes.length (cr_sign cr sk m) = 64%nat) ->
         (forall sk m : bytes, bytes_ok (cr_sign cr sk m) = true) ->
         forall (L : Type) (l0 : scall -> L) (body : scall -> list (sstate * L -> sstate * L))
           (res : scall -> L -> uobs),
         (forall (c : scall) (s : sstate), atomic l0 body res c s = sstep cr c s) ->
         forall (progs : list (list scall)) (cfg : config sstate L uobs scall) (c : core) 
           (d : disk) (j : list sop) (ev : list event) (bs : list bytes) (cl : N -> bool) 
           (sk : bytes),
         FInv cr c d bs cl ->
         kp_secret (c_keypair c) = Some sk ->
         Forall (fun p : list scall => wf_u (map to_uop p) (N.of_nat (Datatypes.length bs))) progs ->
         sumN (map len (bs ++ uappended (map to_uop (concat progs)))) <= u64_max ->
         NODE_SIZE * (2 * N.of_nat (Datatypes.length (bs ++ uappended (map to_uop (concat progs))))) <= u64_max ->
         steps l0 body res (init (c, {| w_disk := d; w_journal := j; w_events := ev |}) progs) cfg ->
         let cs := calls (log cfg) in
         exists s1 : sstate,
           (holder cfg = None -> s1 = shared cfg) /\
           (model_run cr c s1 cs (results (log cfg)) bs cl \/ frame_stop cs (results (log cfg)) bs cl).
Proof. exact shared_unified. Qed.

Theorem C15_real_core_finished_runs :
  forall cr : crypto,
         OplogFacts.crc_ok cr ->
         (forall x : bytes, Datatypes.length (cr_hash cr x) = 32%nat) ->
         (forall x : bytes, all_zero (cr_hash cr x) = false) ->
         (forall x : bytes, bytes_ok (cr_hash cr x) = true) ->
         (forall sk m : bytes, Datatypes.length (cr_sign cr sk m) = 64%nat) ->
         (forall sk m : bytes, bytes_ok (cr_sign cr sk m) = true) ->
         forall (L : Type) (l0 : scall -> L) (body : scall -> list (sstate * L -> sstate * L))
           (res : scall -> L -> uobs),
         (forall (c : scall) (s : sstate), atomic l0 body res c s = sstep cr c s) ->
         forall (progs : list (list scall)) (cfg : config sstate L uobs scall) (c : core) 
           (d : disk) (j : list sop) (ev : list event) (bs : list bytes) (cl : N -> bool) 
           (sk : bytes),
         FInv cr c d bs cl ->
         kp_secret (c_keypair c) = Some sk ->
         Forall (fun p : list scall => wf_u (map to_uop p) (N.of_nat (Datatypes.length bs))) progs ->
         sumN (map len (bs ++ uappended (map to_uop (concat progs)))) <= u64_max ->
         NODE_SIZE * (2 * N.of_nat (Datatypes.length (bs ++ uappended (map to_uop (concat progs))))) <= u64_max ->
         steps l0 body res (init (c, {| w_disk := d; w_journal := j; w_events := ev |}) progs) cfg ->
         (forall tk : task sstate L uobs scall, In tk (tasks cfg) -> st tk = Idle /\ prog tk = []) ->
         let cs := calls (log cfg) in
         Datatypes.length (log cfg) = list_sum (map (Datatypes.length (A:=scall)) progs) /\
         (forall t : nat, task_calls t (log cfg) = nth t progs []) /\
         (forall (t : nat) (tk : task sstate L uobs scall),
          nth_error (tasks cfg) t = Some tk ->
          out tk = map snd (filter (fun e : nat * scall * uobs => (fst (fst e) =? t)%nat) (log cfg))) /\
         holder cfg = None /\
         (model_run cr c (shared cfg) cs (results (log cfg)) bs cl \/ frame_stop cs (results (log cfg)) bs cl).
Proof. exact shared_unified_finished. Qed.

Theorem C15_real_core_append_outcomes_gap_free :
  forall cr : crypto,
         OplogFacts.crc_ok cr ->
         (forall x : bytes, Datatypes.length (cr_hash cr x) = 32%nat) ->
         (forall x : bytes, all_zero (cr_hash cr x) = false) ->
         (forall x : bytes, bytes_ok (cr_hash cr x) = true) ->
         (forall sk m : bytes, Datatypes.length (cr_sign cr sk m) = 64%nat) ->
         (forall sk m : bytes, bytes_ok (cr_sign cr sk m) = true) ->
         forall (L : Type) (l0 : scall -> L) (body : scall -> list (sstate * L -> sstate * L))
           (res : scall -> L -> uobs),
         (forall (c : scall) (s : sstate), atomic l0 body res c s = sstep cr c s) ->
         forall (progs : list (list scall)) (cfg : config sstate L uobs scall) (c : core) 
           (d : disk) (j : list sop) (ev : list event) (bs : list bytes) (cl : N -> bool) 
           (sk : bytes),
         FInv cr c d bs cl ->
         kp_secret (c_keypair c) = Some sk ->
         Forall (fun p : list scall => wf_u (map to_uop p) (N.of_nat (Datatypes.length bs))) progs ->
         sumN (map len (bs ++ uappended (map to_uop (concat progs)))) <= u64_max ->
         NODE_SIZE * (2 * N.of_nat (Datatypes.length (bs ++ uappended (map to_uop (concat progs))))) <= u64_max ->
         steps l0 body res (init (c, {| w_disk := d; w_journal := j; w_events := ev |}) progs) cfg ->
         forall (i t : nat) (f : option bool) (batch : list bytes) (r : uobs),
         nth_error (log cfg) i = Some (t, SAppend f batch, r) ->
         (forall k : nat, (k < i)%nat -> nth_error (results (log cfg)) k <> Some frame_panic) ->
         let before := firstn i (calls (log cfg)) in
         r =
         UOAppend
           (Ok
              (N.of_nat (Datatypes.length bs) + sumN (map cblocks before) + N.of_nat (Datatypes.length batch),
               sumN (map len bs) + sumN (map cbytes before) + sumN (map len batch))) \/ 
         r = frame_panic.
Proof. exact shared_append_outcome. Qed.

Theorem C15_real_core_get_outcomes :
  forall cr : crypto,
         OplogFacts.crc_ok cr ->
         (forall x : bytes, Datatypes.length (cr_hash cr x) = 32%nat) ->
         (forall x : bytes, all_zero (cr_hash cr x) = false) ->
         (forall x : bytes, bytes_ok (cr_hash cr x) = true) ->
         (forall sk m : bytes, Datatypes.length (cr_sign cr sk m) = 64%nat) ->
         (forall sk m : bytes, bytes_ok (cr_sign cr sk m) = true) ->
         forall (L : Type) (l0 : scall -> L) (body : scall -> list (sstate * L -> sstate * L))
           (res : scall -> L -> uobs),
         (forall (c : scall) (s : sstate), atomic l0 body res c s = sstep cr c s) ->
         forall (progs : list (list scall)) (cfg : config sstate L uobs scall) (c : core) 
           (d : disk) (j : list sop) (ev : list event) (bs : list bytes) (cl : N -> bool) 
           (sk : bytes),
         FInv cr c d bs cl ->
         kp_secret (c_keypair c) = Some sk ->
         Forall (fun p : list scall => wf_u (map to_uop p) (N.of_nat (Datatypes.length bs))) progs ->
         sumN (map len (bs ++ uappended (map to_uop (concat progs)))) <= u64_max ->
         NODE_SIZE * (2 * N.of_nat (Datatypes.length (bs ++ uappended (map to_uop (concat progs))))) <= u64_max ->
         steps l0 body res (init (c, {| w_disk := d; w_journal := j; w_events := ev |}) progs) cfg ->
         forall (i t : nat) (idx : N) (r : uobs),
         nth_error (log cfg) i = Some (t, SGet idx, r) ->
         (forall k : nat, (k < i)%nat -> nth_error (results (log cfg)) k <> Some frame_panic) ->
         let ops := map to_uop (firstn i (calls (log cfg))) in
         let bs_i := bs ++ uappended ops in
         r =
         UOGet
           (Ok
              (if held (N.of_nat (Datatypes.length bs_i)) (snd (ustate ops bs cl)) idx
               then Some (nth (N.to_nat idx) bs_i [])
               else None)).
Proof. exact shared_get_outcome. Qed.

Theorem C15_real_core_blocks_readable_at_implied_indices :
  forall cr : crypto,
         OplogFacts.crc_ok cr ->
         (forall x : bytes, Datatypes.length (cr_hash cr x) = 32%nat) ->
         (forall x : bytes, all_zero (cr_hash cr x) = false) ->
         (forall x : bytes, bytes_ok (cr_hash cr x) = true) ->
         (forall sk m : bytes, Datatypes.length (cr_sign cr sk m) = 64%nat) ->
         (forall sk m : bytes, bytes_ok (cr_sign cr sk m) = true) ->
         forall (L : Type) (l0 : scall -> L) (body : scall -> list (sstate * L -> sstate * L))
           (res0 : scall -> L -> uobs),
         (forall (c : scall) (s : sstate), atomic l0 body res0 c s = sstep cr c s) ->
         forall (progs : list (list scall)) (cfg : config sstate L uobs scall) (c : core) 
           (d : disk) (j : list sop) (ev : list event) (bs : list bytes) (cl : N -> bool) 
           (sk : bytes),
         FInv cr c d bs cl ->
         kp_secret (c_keypair c) = Some sk ->
         Forall (fun p : list scall => wf_u (map to_uop p) (N.of_nat (Datatypes.length bs))) progs ->
         sumN (map len (bs ++ uappended (map to_uop (concat progs)))) <= u64_max ->
         NODE_SIZE * (2 * N.of_nat (Datatypes.length (bs ++ uappended (map to_uop (concat progs))))) <= u64_max ->
         steps l0 body res0 (init (c, {| w_disk := d; w_journal := j; w_events := ev |}) progs) cfg ->
         forall (i t : nat) (f : option bool) (batch : list bytes) (n b : N) (k : nat),
         holder cfg = None ->
         ~ In frame_panic (results (log cfg)) ->
         nth_error (log cfg) i = Some (t, SAppend f batch, UOAppend (Ok (n, b))) ->
         (k < Datatypes.length batch)%nat ->
         let idx := n - N.of_nat (Datatypes.length batch) + N.of_nat k in
         covers (map to_uop (skipn (S i) (calls (log cfg)))) idx = false ->
         let cF := fst (shared cfg) in
         let dF := w_disk (snd (shared cfg)) in
         core_has cF idx = true /\
         (forall (j' : list sop) (ev' : list event),
          core_get idx cF {| w_disk := dF; w_journal := j'; w_events := ev' |} =
          (cF, {| w_disk := dF; w_journal := j'; w_events := ev' |}, Ok (Some (nth k batch [])))).
Proof. exact shared_blocks_readable. Qed.

Theorem C15_real_core_split_append_instance :
  forall cr : crypto,
         OplogFacts.crc_ok cr ->
         (forall x : bytes, Datatypes.length (cr_hash cr x) = 32%nat) ->
         (forall x : bytes, all_zero (cr_hash cr x) = false) ->
         (forall x : bytes, bytes_ok (cr_hash cr x) = true) ->
         (forall sk m : bytes, Datatypes.length (cr_sign cr sk m) = 64%nat) ->
         (forall sk m : bytes, bytes_ok (cr_sign cr sk m) = true) ->
         forall (progs : list (list scall)) (c : core) (d : disk) (j : list sop) (ev : list event)
           (bs : list bytes) (cl : N -> bool) (sk : bytes),
         FInv cr c d bs cl ->
         kp_secret (c_keypair c) = Some sk ->
         Forall (fun p : list scall => wf_u (map to_uop p) (N.of_nat (Datatypes.length bs))) progs ->
         sumN (map len (bs ++ uappended (map to_uop (concat progs)))) <= u64_max ->
         NODE_SIZE * (2 * N.of_nat (Datatypes.length (bs ++ uappended (map to_uop (concat progs))))) <= u64_max ->
         forall cfg : config sstate slocal uobs scall,
         steps split_l0 (split_body cr) split_res
           (init (c, {| w_disk := d; w_journal := j; w_events := ev |}) progs) cfg ->
         let cs := calls (log cfg) in
         exists s1 : sstate,
           (holder cfg = None -> s1 = shared cfg) /\
           (model_run cr c s1 cs (results (log cfg)) bs cl \/ frame_stop cs (results (log cfg)) bs cl).
Proof. exact shared_core_split. Qed.

Theorem C15_real_core_realtime :
  forall cr : crypto,
         OplogFacts.crc_ok cr ->
         (forall x : bytes, Datatypes.length (cr_hash cr x) = 32%nat) ->
         (forall x : bytes, all_zero (cr_hash cr x) = false) ->
         (forall x : bytes, bytes_ok (cr_hash cr x) = true) ->
         (forall sk m : bytes, Datatypes.length (cr_sign cr sk m) = 64%nat) ->
         (forall sk m : bytes, bytes_ok (cr_sign cr sk m) = true) ->
         forall (L : Type) (l0 : scall -> L) (body : scall -> list (sstate * L -> sstate * L))
           (res : scall -> L -> uobs),
         (forall (c : scall) (s : sstate), atomic l0 body res c s = sstep cr c s) ->
         forall (progs : list (list scall)) (cfg : config sstate L uobs scall) (k : clock uobs scall)
           (c : core) (d : disk) (j : list sop) (ev : list event) (bs : list bytes) 
           (cl : N -> bool) (sk : bytes),
         FInv cr c d bs cl ->
         kp_secret (c_keypair c) = Some sk ->
         Forall (fun p : list scall => wf_u (map to_uop p) (N.of_nat (Datatypes.length bs))) progs ->
         sumN (map len (bs ++ uappended (map to_uop (concat progs)))) <= u64_max ->
         NODE_SIZE * (2 * N.of_nat (Datatypes.length (bs ++ uappended (map to_uop (concat progs))))) <= u64_max ->
         stepsT l0 body res (initT (c, {| w_disk := d; w_journal := j; w_events := ev |}) progs) (cfg, k) ->
         let cs := calls (log cfg) in
         map fst (tlog k) = log cfg /\
         (forall (i1 i2 : nat) (a b : nat * scall * uobs * (nat * nat)),
          nth_error (tlog k) i1 = Some a ->
          nth_error (tlog k) i2 = Some b -> (fin a < sta b)%nat -> (i1 < i2)%nat) /\
         (exists s1 : sstate,
            (holder cfg = None -> s1 = shared cfg) /\
            (model_run cr c s1 cs (results (log cfg)) bs cl \/ frame_stop cs (results (log cfg)) bs cl)).
Proof. exact shared_unified_realtime. Qed.

Theorem C15_shared_replica_runs_are_serial :
  forall (cr : crypto) (bs : list bytes),
         OplogFacts.crc_ok cr ->
         (forall x : bytes, Datatypes.length (cr_hash cr x) = 32%nat) ->
         (forall x : bytes, all_zero (cr_hash cr x) = false) ->
         (forall x : bytes, bytes_ok (cr_hash cr x) = true) ->
         writer_fits bs ->
         forall (L : Type) (l0 : rcall -> L) (body : rcall -> list (rstate * L -> rstate * L))
           (res : rcall -> L -> rdobs),
         (forall (c : rcall) (s : rstate), atomic l0 body res c s = rstep cr c s) ->
         forall (progs : list (list rcall)) (cfg : config rstate L rdobs rcall) (c : core) 
           (d : disk) (j : list sop) (ev : list event) (H : N -> bool),
         RDInv cr bs c d H ->
         Forall (Forall rcall_ok) progs ->
         steps l0 body res (init (c, {| w_disk := d; w_journal := j; w_events := ev |}) progs) cfg ->
         let cs := calls (log cfg) in
         let rs := results (log cfg) in
         exists s1 : rstate,
           (holder cfg = None -> s1 = shared cfg) /\
           (rmodel_run cr bs c s1 cs rs H \/
            rframe_stop bs cs rs H (t_length (c_tree c)) \/
            Sound.some_collision cr \/ forged_signature cr bs (kp_public (c_keypair c))).
Proof. exact rshared_replica. Qed.

Theorem C15_shared_replica_no_partial_read :
  forall (cr : crypto) (bs : list bytes),
         OplogFacts.crc_ok cr ->
         (forall x : bytes, Datatypes.length (cr_hash cr x) = 32%nat) ->
         (forall x : bytes, all_zero (cr_hash cr x) = false) ->
         (forall x : bytes, bytes_ok (cr_hash cr x) = true) ->
         writer_fits bs ->
         forall (L : Type) (l0 : rcall -> L) (body : rcall -> list (rstate * L -> rstate * L))
           (res : rcall -> L -> rdobs),
         (forall (c : rcall) (s : rstate), atomic l0 body res c s = rstep cr c s) ->
         forall (progs : list (list rcall)) (cfg : config rstate L rdobs rcall) (c : core) 
           (d : disk) (j : list sop) (ev : list event) (H : N -> bool),
         RDInv cr bs c d H ->
         Forall (Forall rcall_ok) progs ->
         steps l0 body res (init (c, {| w_disk := d; w_journal := j; w_events := ev |}) progs) cfg ->
         forall (i t : nat) (idx : N) (o : rdobs),
         nth_error (log cfg) i = Some (t, QGet idx, o) ->
         (forall k : nat, (k < i)%nat -> nth_error (results (log cfg)) k <> Some rframe_panic) ->
         o = ROGet (Ok None) \/
         o = ROGet (Ok (Some (TreeRef.blk bs idx))) \/
         Sound.some_collision cr \/ forged_signature cr bs (kp_public (c_keypair c)).
Proof. exact rshared_no_partial_read. Qed.

Theorem C15_shared_replica_block_readable_after_apply :
  forall (cr : crypto) (bs : list bytes),
         OplogFacts.crc_ok cr ->
         (forall x : bytes, Datatypes.length (cr_hash cr x) = 32%nat) ->
         (forall x : bytes, all_zero (cr_hash cr x) = false) ->
         (forall x : bytes, bytes_ok (cr_hash cr x) = true) ->
         writer_fits bs ->
         forall (L : Type) (l0 : rcall -> L) (body : rcall -> list (rstate * L -> rstate * L))
           (res0 : rcall -> L -> rdobs),
         (forall (c : rcall) (s : rstate), atomic l0 body res0 c s = rstep cr c s) ->
         forall (progs : list (list rcall)) (cfg : config rstate L rdobs rcall) (c : core) 
           (d : disk) (j : list sop) (ev : list event) (H : N -> bool),
         RDInv cr bs c d H ->
         Forall (Forall rcall_ok) progs ->
         steps l0 body res0 (init (c, {| w_disk := d; w_journal := j; w_events := ev |}) progs) cfg ->
         forall (i t : nat) (f : option bool) (pf : proof) (b : data_block),
         holder cfg = None ->
         ~ In rframe_panic (results (log cfg)) ->
         nth_error (log cfg) i = Some (t, QApply f pf, ROApply (Ok true)) ->
         p_block pf = Some b ->
         let cF := fst (shared cfg) in
         let dF := w_disk (snd (shared cfg)) in
         core_has cF (db_index b) = true /\
         (forall (j' : list sop) (ev' : list event),
          core_get (db_index b) cF {| w_disk := dF; w_journal := j'; w_events := ev' |} =
          (cF, {| w_disk := dF; w_journal := j'; w_events := ev' |}, Ok (Some (TreeRef.blk bs (db_index b))))) \/
         Sound.some_collision cr \/ forged_signature cr bs (kp_public (c_keypair c)).
Proof. exact rshared_block_readable. Qed.

Theorem C15_shared_replica_split_instance :
  forall (cr : crypto) (bs : list bytes),
         OplogFacts.crc_ok cr ->
         (forall x : bytes, Datatypes.length (cr_hash cr x) = 32%nat) ->
         (forall x : bytes, all_zero (cr_hash cr x) = false) ->
         (forall x : bytes, bytes_ok (cr_hash cr x) = true) ->
         writer_fits bs ->
         forall (progs : list (list rcall)) (c : core) (d : disk) (j : list sop) (ev : list event)
           (H : N -> bool),
         RDInv cr bs c d H ->
         Forall (Forall rcall_ok) progs ->
         forall cfg : config rstate rlocal rdobs rcall,
         steps rsplit_l0 (rsplit_body cr) rsplit_res
           (init (c, {| w_disk := d; w_journal := j; w_events := ev |}) progs) cfg ->
         let cs := calls (log cfg) in
         let rs := results (log cfg) in
         exists s1 : rstate,
           (holder cfg = None -> s1 = shared cfg) /\
           (rmodel_run cr bs c s1 cs rs H \/
            rframe_stop bs cs rs H (t_length (c_tree c)) \/
            Sound.some_collision cr \/ forged_signature cr bs (kp_public (c_keypair c))).
Proof. exact rshared_core_split. Qed.

Theorem C15_all_writer_methods_serializable :
  forall (cr : crypto) (L : Type) (l0 : xcall -> L) (body : xcall -> list (sstate * L -> sstate * L))
           (res : xcall -> L -> xobs),
         (forall (c : xcall) (s : sstate), atomic l0 body res c s = xstep cr c s) ->
         forall (progs : list (list xcall)) (cfg : config sstate L xobs xcall) (s0 : sstate),
         steps l0 body res (init s0 progs) cfg ->
         exists s1 : sstate,
           xrun cr s0 (calls (log cfg)) = (s1, results (log cfg)) /\ (holder cfg = None -> s1 = shared cfg).
Proof. exact xshared_serializable. Qed.

Theorem C15_read_only_methods_change_nothing :
  forall (cr : crypto) (L : Type) (l0 : xcall -> L) (body : xcall -> list (sstate * L -> sstate * L))
           (res : xcall -> L -> xobs),
         (forall (c : xcall) (s : sstate), atomic l0 body res c s = xstep cr c s) ->
         forall (progs : list (list xcall)) (cfg : config sstate L xobs xcall) (s0 : sstate) 
           (i t : nat) (call : xcall) (r : xobs),
         steps l0 body res (init s0 progs) cfg ->
         nth_error (log cfg) i = Some (t, call, r) ->
         xnew call = true ->
         exists si si' : sstate,
           xrun cr s0 (firstn i (calls (log cfg))) = (si, firstn i (results (log cfg))) /\
           xrun cr s0 (firstn (S i) (calls (log cfg))) = (si', firstn (S i) (results (log cfg))) /\
           r = snd (xstep cr call si) /\
           fst si' = fst si /\
           w_disk (snd si') = w_disk (snd si) /\
           w_journal (snd si') = w_journal (snd si) /\
           w_events (snd si') = xnew_events call si ++ w_events (snd si).
Proof. exact xshared_new_call_frame. Qed.

Theorem C15_all_writer_methods_reach_the_list_model :
  forall (cr : crypto) (sk : bytes),
         OplogFacts.crc_ok cr ->
         (forall x : bytes, Datatypes.length (cr_hash cr x) = 32%nat) ->
         (forall x : bytes, all_zero (cr_hash cr x) = false) ->
         (forall x : bytes, bytes_ok (cr_hash cr x) = true) ->
         (forall k m : bytes, Datatypes.length (cr_sign cr k m) = 64%nat) ->
         (forall k m : bytes, bytes_ok (cr_sign cr k m) = true) ->
         forall (L : Type) (l0 : xcall -> L) (body : xcall -> list (sstate * L -> sstate * L))
           (res : xcall -> L -> xobs),
         (forall (c : xcall) (s : sstate), atomic l0 body res c s = xstep cr c s) ->
         forall (progs : list (list xcall)) (cfg : config sstate L xobs xcall) (c : core) 
           (d : disk) (j : list sop) (ev : list event) (bs : list bytes) (cl : N -> bool),
         XInv cr sk c d bs cl ->
         kp_secret (c_keypair c) = Some sk ->
         Forall (fun p : list xcall => wf_u (map xto_uop p) (N.of_nat (Datatypes.length bs))) progs ->
         sumN (map len (bs ++ uappended (map xto_uop (concat progs)))) <= u64_max ->
         NODE_SIZE * (2 * N.of_nat (Datatypes.length (bs ++ uappended (map xto_uop (concat progs))))) <=
         u64_max ->
         steps l0 body res (init (c, {| w_disk := d; w_journal := j; w_events := ev |}) progs) cfg ->
         let cs := calls (log cfg) in
         exists s1 : sstate,
           (holder cfg = None -> s1 = shared cfg) /\
           (xmodel_end cr sk c s1 cs bs cl \/ xframe_stop cs (results (log cfg))).
Proof. exact xshared_unified. Qed.

Theorem C15_append_outcomes_gap_free_with_all_methods :
  forall (cr : crypto) (sk : bytes),
         OplogFacts.crc_ok cr ->
         (forall x : bytes, Datatypes.length (cr_hash cr x) = 32%nat) ->
         (forall x : bytes, all_zero (cr_hash cr x) = false) ->
         (forall x : bytes, bytes_ok (cr_hash cr x) = true) ->
         (forall k m : bytes, Datatypes.length (cr_sign cr k m) = 64%nat) ->
         (forall k m : bytes, bytes_ok (cr_sign cr k m) = true) ->
         forall (L : Type) (l0 : xcall -> L) (body : xcall -> list (sstate * L -> sstate * L))
           (res : xcall -> L -> xobs),
         (forall (c : xcall) (s : sstate), atomic l0 body res c s = xstep cr c s) ->
         forall (progs : list (list xcall)) (cfg : config sstate L xobs xcall) (c : core) 
           (d : disk) (j : list sop) (ev : list event) (bs : list bytes) (cl : N -> bool),
         XInv cr sk c d bs cl ->
         kp_secret (c_keypair c) = Some sk ->
         Forall (fun p : list xcall => wf_u (map xto_uop p) (N.of_nat (Datatypes.length bs))) progs ->
         sumN (map len (bs ++ uappended (map xto_uop (concat progs)))) <= u64_max ->
         NODE_SIZE * (2 * N.of_nat (Datatypes.length (bs ++ uappended (map xto_uop (concat progs))))) <=
         u64_max ->
         steps l0 body res (init (c, {| w_disk := d; w_journal := j; w_events := ev |}) progs) cfg ->
         forall (i t : nat) (f : option bool) (batch : list bytes) (r : xobs),
         nth_error (log cfg) i = Some (t, XOld (SAppend f batch), r) ->
         (forall k : nat, (k < i)%nat -> nth_error (results (log cfg)) k <> Some xframe_panic) ->
         let before := firstn i (calls (log cfg)) in
         r =
         XOOld
           (UOAppend
              (Ok
                 (N.of_nat (Datatypes.length bs) + sumN (map xcblocks before) +
                  N.of_nat (Datatypes.length batch),
                  sumN (map len bs) + sumN (map xcbytes before) + sumN (map len batch)))) \/ 
         r = xframe_panic.
Proof. exact xshared_append_outcome. Qed.

Theorem C15_blocks_readable_with_all_methods :
  forall (cr : crypto) (sk : bytes),
         OplogFacts.crc_ok cr ->
         (forall x : bytes, Datatypes.length (cr_hash cr x) = 32%nat) ->
         (forall x : bytes, all_zero (cr_hash cr x) = false) ->
         (forall x : bytes, bytes_ok (cr_hash cr x) = true) ->
         (forall k m : bytes, Datatypes.length (cr_sign cr k m) = 64%nat) ->
         (forall k m : bytes, bytes_ok (cr_sign cr k m) = true) ->
         forall (L : Type) (l0 : xcall -> L) (body : xcall -> list (sstate * L -> sstate * L))
           (res0 : xcall -> L -> xobs),
         (forall (c : xcall) (s : sstate), atomic l0 body res0 c s = xstep cr c s) ->
         forall (progs : list (list xcall)) (cfg : config sstate L xobs xcall) (c : core) 
           (d : disk) (j : list sop) (ev : list event) (bs : list bytes) (cl : N -> bool),
         XInv cr sk c d bs cl ->
         kp_secret (c_keypair c) = Some sk ->
         Forall (fun p : list xcall => wf_u (map xto_uop p) (N.of_nat (Datatypes.length bs))) progs ->
         sumN (map len (bs ++ uappended (map xto_uop (concat progs)))) <= u64_max ->
         NODE_SIZE * (2 * N.of_nat (Datatypes.length (bs ++ uappended (map xto_uop (concat progs))))) <=
         u64_max ->
         steps l0 body res0 (init (c, {| w_disk := d; w_journal := j; w_events := ev |}) progs) cfg ->
         forall (i t : nat) (f : option bool) (batch : list bytes) (n b : N) (k : nat),
         holder cfg = None ->
         ~ In xframe_panic (results (log cfg)) ->
         nth_error (log cfg) i = Some (t, XOld (SAppend f batch), XOOld (UOAppend (Ok (n, b)))) ->
         (k < Datatypes.length batch)%nat ->
         let idx := n - N.of_nat (Datatypes.length batch) + N.of_nat k in
         covers (map xto_uop (skipn (S i) (calls (log cfg)))) idx = false ->
         let cF := fst (shared cfg) in
         let dF := w_disk (snd (shared cfg)) in
         core_has cF idx = true /\
         (forall (j' : list sop) (ev' : list event),
          core_get idx cF {| w_disk := dF; w_journal := j'; w_events := ev' |} =
          (cF, {| w_disk := dF; w_journal := j'; w_events := ev' |}, Ok (Some (nth k batch [])))).
Proof. exact xshared_blocks_readable. Qed.

Theorem C15_create_proof_outcome_in_concurrent_runs :
  forall (cr : crypto) (sk : bytes),
         OplogFacts.crc_ok cr ->
         (forall x : bytes, Datatypes.length (cr_hash cr x) = 32%nat) ->
         (forall x : bytes, all_zero (cr_hash cr x) = false) ->
         (forall x : bytes, bytes_ok (cr_hash cr x) = true) ->
         (forall k m : bytes, Datatypes.length (cr_sign cr k m) = 64%nat) ->
         (forall k m : bytes, bytes_ok (cr_sign cr k m) = true) ->
         forall (L : Type) (l0 : xcall -> L) (body : xcall -> list (sstate * L -> sstate * L))
           (res0 : xcall -> L -> xobs),
         (forall (c : xcall) (s : sstate), atomic l0 body res0 c s = xstep cr c s) ->
         forall (progs : list (list xcall)) (cfg : config sstate L xobs xcall) (c : core) 
           (d : disk) (j : list sop) (ev : list event) (bs : list bytes) (cl : N -> bool),
         XInv cr sk c d bs cl ->
         kp_secret (c_keypair c) = Some sk ->
         Forall (fun p : list xcall => wf_u (map xto_uop p) (N.of_nat (Datatypes.length bs))) progs ->
         sumN (map len (bs ++ uappended (map xto_uop (concat progs)))) <= u64_max ->
         NODE_SIZE * (2 * N.of_nat (Datatypes.length (bs ++ uappended (map xto_uop (concat progs))))) <=
         u64_max ->
         steps l0 body res0 (init (c, {| w_disk := d; w_journal := j; w_events := ev |}) progs) cfg ->
         forall (i t : nat) (block hash : option req_block) (seek : option req_seek)
           (upgrade : option req_upgrade) (r : xobs),
         nth_error (log cfg) i = Some (t, SCreateProof block hash seek upgrade, r) ->
         (forall k : nat, (k < i)%nat -> nth_error (results (log cfg)) k <> Some xframe_panic) ->
         exists (ci : core) (di : disk) (ji : list sop) (evi : list event) (r0 : res (option proof)),
           r = XOProof r0 /\
           xrun cr (c, {| w_disk := d; w_journal := j; w_events := ev |}) (firstn i (calls (log cfg))) =
           (ci, {| w_disk := di; w_journal := ji; w_events := evi |}, firstn i (results (log cfg))) /\
           XInv cr sk ci di (xblocks_of (log cfg) bs i) (xcleared_of (log cfg) bs cl i) /\
           r0 =
           snd
             (core_create_proof block hash seek upgrade ci {| w_disk := di; w_journal := ji; w_events := evi |}) /\
           proof_honest cr sk (xblocks_of (log cfg) bs i) (xcleared_of (log cfg) bs cl i) block upgrade r0 /\
           (r0 = Ok None ->
            exists rb : req_block,
              block = Some rb /\
              held (N.of_nat (Datatypes.length (xblocks_of (log cfg) bs i))) (xcleared_of (log cfg) bs cl i)
                (rb_index rb) = false /\
              xnew_events (SCreateProof block hash seek upgrade)
                (ci, {| w_disk := di; w_journal := ji; w_events := evi |}) = [EvGet (rb_index rb)]) /\
           (r0 <> Ok None ->
            xnew_events (SCreateProof block hash seek upgrade)
              (ci, {| w_disk := di; w_journal := ji; w_events := evi |}) = []).
Proof. exact xshared_create_proof_outcome. Qed.

Theorem C15_missing_nodes_outcome_in_concurrent_runs :
  forall (cr : crypto) (sk : bytes),
         OplogFacts.crc_ok cr ->
         (forall x : bytes, Datatypes.length (cr_hash cr x) = 32%nat) ->
         (forall x : bytes, all_zero (cr_hash cr x) = false) ->
         (forall x : bytes, bytes_ok (cr_hash cr x) = true) ->
         (forall k m : bytes, Datatypes.length (cr_sign cr k m) = 64%nat) ->
         (forall k m : bytes, bytes_ok (cr_sign cr k m) = true) ->
         forall (L : Type) (l0 : xcall -> L) (body : xcall -> list (sstate * L -> sstate * L))
           (res0 : xcall -> L -> xobs),
         (forall (c : xcall) (s : sstate), atomic l0 body res0 c s = xstep cr c s) ->
         forall (progs : list (list xcall)) (cfg : config sstate L xobs xcall) (c : core) 
           (d : disk) (j : list sop) (ev : list event) (bs : list bytes) (cl : N -> bool),
         XInv cr sk c d bs cl ->
         kp_secret (c_keypair c) = Some sk ->
         Forall (fun p : list xcall => wf_u (map xto_uop p) (N.of_nat (Datatypes.length bs))) progs ->
         sumN (map len (bs ++ uappended (map xto_uop (concat progs)))) <= u64_max ->
         NODE_SIZE * (2 * N.of_nat (Datatypes.length (bs ++ uappended (map xto_uop (concat progs))))) <=
         u64_max ->
         steps l0 body res0 (init (c, {| w_disk := d; w_journal := j; w_events := ev |}) progs) cfg ->
         forall (i t : nat) (index : N) (r : xobs),
         nth_error (log cfg) i = Some (t, SMissingNodes index, r) ->
         (forall k : nat, (k < i)%nat -> nth_error (results (log cfg)) k <> Some xframe_panic) ->
         r = XOMissing (if fits_u64 (index * 2) then Ok 0 else Panic "index * 2").
Proof. exact xshared_missing_nodes_outcome. Qed.

Theorem C15_all_replica_methods_serializable :
  forall (cr : crypto) (L : Type) (l0 : qcall -> L) (body : qcall -> list (rstate * L -> rstate * L))
           (res : qcall -> L -> qobs),
         (forall (c : qcall) (s : rstate), atomic l0 body res c s = qstep cr c s) ->
         forall (progs : list (list qcall)) (cfg : config rstate L qobs qcall) (s0 : rstate),
         steps l0 body res (init s0 progs) cfg ->
         exists s1 : rstate,
           qrun cr s0 (calls (log cfg)) = (s1, results (log cfg)) /\ (holder cfg = None -> s1 = shared cfg).
Proof. exact qshared_serializable. Qed.

Theorem C15_replica_create_proof_outcome_in_concurrent_runs :
  forall (cr : crypto) (bs : list bytes),
         OplogFacts.crc_ok cr ->
         (forall x : bytes, Datatypes.length (cr_hash cr x) = 32%nat) ->
         (forall x : bytes, all_zero (cr_hash cr x) = false) ->
         (forall x : bytes, bytes_ok (cr_hash cr x) = true) ->
         writer_fits bs ->
         forall (L : Type) (l0 : qcall -> L) (body : qcall -> list (rstate * L -> rstate * L))
           (res0 : qcall -> L -> qobs),
         (forall (c : qcall) (s : rstate), atomic l0 body res0 c s = qstep cr c s) ->
         forall (progs : list (list qcall)) (cfg : config rstate L qobs qcall) (c : core) 
           (d : disk) (j : list sop) (ev : list event) (H : N -> bool),
         RDInv cr bs c d H ->
         Forall (Forall qcall_ok) progs ->
         steps l0 body res0 (init (c, {| w_disk := d; w_journal := j; w_events := ev |}) progs) cfg ->
         forall (i t : nat) (block hash : option req_block) (seek : option req_seek)
           (upgrade : option req_upgrade) (r : qobs),
         nth_error (log cfg) i = Some (t, QCreateProof block hash seek upgrade, r) ->
         (forall k : nat, (k < i)%nat -> nth_error (results (log cfg)) k <> Some qframe_panic) ->
         (exists (ci : core) (di : disk) (ji : list sop) (evi : list event) (r0 : res (option proof)),
            r = QOProof r0 /\
            qrun cr (c, {| w_disk := d; w_journal := j; w_events := ev |}) (firstn i (calls (log cfg))) =
            (ci, {| w_disk := di; w_journal := ji; w_events := evi |}, firstn i (results (log cfg))) /\
            RDInv cr bs ci di (qheld_at H (log cfg) i) /\
            t_length (c_tree c) <= t_length (c_tree ci) /\
            t_length (c_tree ci) <= N.of_nat (Datatypes.length bs) /\
            r0 =
            snd
              (core_create_proof block hash seek upgrade ci
                 {| w_disk := di; w_journal := ji; w_events := evi |}) /\
            proof_sound cr bs ci (qheld_at H (log cfg) i) block upgrade r0 /\
            (r0 = Ok None ->
             exists rb : req_block,
               block = Some rb /\
               qheld_at H (log cfg) i (rb_index rb) = false /\
               qnew_events (QCreateProof block hash seek upgrade)
                 (ci, {| w_disk := di; w_journal := ji; w_events := evi |}) = [EvGet (rb_index rb)]) /\
            (r0 <> Ok None ->
             qnew_events (QCreateProof block hash seek upgrade)
               (ci, {| w_disk := di; w_journal := ji; w_events := evi |}) = [])) \/
         Sound.some_collision cr \/ forged_signature cr bs (kp_public (c_keypair c)).
Proof. exact qshared_create_proof_outcome. Qed.

Theorem C15_replica_missing_nodes_outcome_in_concurrent_runs :
  forall (cr : crypto) (bs : list bytes),
         OplogFacts.crc_ok cr ->
         (forall x : bytes, Datatypes.length (cr_hash cr x) = 32%nat) ->
         (forall x : bytes, all_zero (cr_hash cr x) = false) ->
         (forall x : bytes, bytes_ok (cr_hash cr x) = true) ->
         writer_fits bs ->
         forall (L : Type) (l0 : qcall -> L) (body : qcall -> list (rstate * L -> rstate * L))
           (res0 : qcall -> L -> qobs),
         (forall (c : qcall) (s : rstate), atomic l0 body res0 c s = qstep cr c s) ->
         forall (progs : list (list qcall)) (cfg : config rstate L qobs qcall) (c : core) 
           (d : disk) (j : list sop) (ev : list event) (H : N -> bool),
         RDInv cr bs c d H ->
         Forall (Forall qcall_ok) progs ->
         steps l0 body res0 (init (c, {| w_disk := d; w_journal := j; w_events := ev |}) progs) cfg ->
         forall (i t : nat) (index : N) (r : qobs),
         nth_error (log cfg) i = Some (t, QMissingNodes index, r) ->
         (forall k : nat, (k < i)%nat -> nth_error (results (log cfg)) k <> Some qframe_panic) ->
         (exists (ci : core) (di : disk) (ji : list sop) (evi : list event),
            qrun cr (c, {| w_disk := d; w_journal := j; w_events := ev |}) (firstn i (calls (log cfg))) =
            (ci, {| w_disk := di; w_journal := ji; w_events := evi |}, firstn i (results (log cfg))) /\
            RDInv cr bs ci di (qheld_at H (log cfg) i) /\
            r =
            QOMissing
              (if fits_u64 (index * 2)
               then missing_nodes (c_tree ci) (d_tree di) (index * 2)
               else Panic "index * 2")) \/
         Sound.some_collision cr \/ forged_signature cr bs (kp_public (c_keypair c)).
Proof. exact qshared_missing_nodes_outcome. Qed.

Print Assumptions C15_every_method_is_one_critical_section.
Print Assumptions C15_mutex_serializable.
Print Assumptions C15_results_and_program_order.
Print Assumptions C15_no_partial_observation.
Print Assumptions C15_real_time_order.
Print Assumptions C15_every_run_has_a_clock.
Print Assumptions C15_append_lengths_gap_free.
Print Assumptions C15_real_core_concurrent_runs_are_serial.
Print Assumptions C15_real_core_finished_runs.
Print Assumptions C15_real_core_append_outcomes_gap_free.
Print Assumptions C15_real_core_get_outcomes.
Print Assumptions C15_real_core_blocks_readable_at_implied_indices.
Print Assumptions C15_real_core_split_append_instance.
Print Assumptions C15_real_core_realtime.
Print Assumptions SharedInst.toy_shared_split_run.
Print Assumptions SharedInst.toy_shared_split_partial_unobservable.
Print Assumptions SharedInst.toy_shared_end_to_end.
Print Assumptions C15_shared_replica_runs_are_serial.
Print Assumptions C15_shared_replica_no_partial_read.
Print Assumptions C15_shared_replica_block_readable_after_apply.
Print Assumptions C15_shared_replica_split_instance.
Print Assumptions C15_all_writer_methods_serializable.
Print Assumptions C15_read_only_methods_change_nothing.
Print Assumptions C15_all_writer_methods_reach_the_list_model.
Print Assumptions C15_append_outcomes_gap_free_with_all_methods.
Print Assumptions C15_blocks_readable_with_all_methods.
Print Assumptions C15_create_proof_outcome_in_concurrent_runs.
Print Assumptions C15_missing_nodes_outcome_in_concurrent_runs.
Print Assumptions C15_all_replica_methods_serializable.
Print Assumptions C15_replica_create_proof_outcome_in_concurrent_runs.
Print Assumptions C15_replica_missing_nodes_outcome_in_concurrent_runs.

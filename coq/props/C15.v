(* C15 — placeholder *)
From HC Require Import Base.

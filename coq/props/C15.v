(* C15 — a shared core is linearizable (pinned statements; proofs in Shared.v).
   Model: tasks issue method calls on one shared object; a method body is a list of micro-steps (one per
   storage operation / await point) run between acquiring and releasing one mutex; any task may be
   scheduled at any micro-step. Proved for any number of tasks, calls and micro-steps and EVERY
   schedule: the shared state and all results equal the atomic execution of the calls in completion
   (= lock acquisition) order, each task's results and program order are preserved, the order respects
   real time, and for an append-only log the append results are gap-free increasing lengths.
   Tie to the source: SharedShape.v is regenerated on every run from src/replication/shared_core.rs
   (tools/c15.py) and must say that every trait method is a single critical section.
   Partial by nature: fairness and wake-ups of async_lock::Mutex and of the executor are run-time
   behaviour; they are exercised by the deterministic-scheduler runs of tools/c15.py. *)
From Coq Require Import String.
From Coq Require Import List Bool Arith.
From HC Require Import Shared SharedShape.
Import ListNotations.

Definition all_atomic (l : list (string * bool)) : bool := forallb snd l.

(* premise of the model, derived from the source on every run *)
Theorem C15_every_method_is_one_critical_section :
  all_atomic shared_shape = true /\ shared_shape <> [].
Proof. split; [vm_compute; reflexivity | discriminate]. Qed.

Theorem C15_mutex_serializable :
  forall (S L R call : Type) (l0 : call -> L) (body : call -> list (S * L -> S * L)) (res : call -> L -> R)
         s0 progs cfg,
  steps l0 body res (init s0 progs) cfg -> holder cfg = None ->
  seq_run l0 body res s0 (map (fun e => snd (fst e)) (log cfg)) = (shared cfg, map snd (log cfg)).
Proof. exact serializable. Qed.

Theorem C15_results_and_program_order :
  forall (S L R call : Type) (l0 : call -> L) (body : call -> list (S * L -> S * L)) (res : call -> L -> R)
         s0 progs cfg,
  steps l0 body res (init s0 progs) cfg ->
  forall t tk, nth_error (tasks cfg) t = Some tk ->
    out tk = map snd (filter (fun e => Nat.eqb (fst (fst e)) t) (log cfg)) /\
    map (fun e => snd (fst e)) (filter (fun e => Nat.eqb (fst (fst e)) t) (log cfg)) ++ current (st tk) ++ prog tk
      = nth t progs [].
Proof.
  intros S L R call l0 body res s0 progs cfg H t tk Ht. split.
  - exact (results_match_log S L R call l0 body res s0 progs cfg H t tk Ht).
  - exact (program_order S L R call l0 body res s0 progs cfg H t tk Ht).
Qed.

Theorem C15_no_partial_observation :
  forall (S L R call : Type) (l0 : call -> L) (body : call -> list (S * L -> S * L)) (res : call -> L -> R)
         s0 progs cfg,
  steps l0 body res (init s0 progs) cfg ->
  (forall t tk, nth_error (tasks cfg) t = Some tk -> (running (st tk) <-> holder cfg = Some t)) /\
  (forall t, holder cfg = Some t -> exists tk, nth_error (tasks cfg) t = Some tk) /\
  (forall t1 t2 tk1 tk2, nth_error (tasks cfg) t1 = Some tk1 -> nth_error (tasks cfg) t2 = Some tk2 ->
     running (st tk1) -> running (st tk2) -> t1 = t2).
Proof. exact lock_exclusive. Qed.

Theorem C15_real_time_order :
  forall (S L R call : Type) (l0 : call -> L) (body : call -> list (S * L -> S * L)) (res : call -> L -> R)
         s0 progs cfg k,
  stepsT l0 body res (initT s0 progs) (cfg, k) ->
  map fst (tlog k) = log cfg /\
  forall i j a b, nth_error (tlog k) i = Some a -> nth_error (tlog k) j = Some b -> fin a < sta b -> i < j.
Proof. exact realtime_respected. Qed.

Theorem C15_every_run_has_a_clock :
  forall (S L R call : Type) (l0 : call -> L) (body : call -> list (S * L -> S * L)) (res : call -> L -> R)
         s0 progs cfg,
  steps l0 body res (init s0 progs) cfg -> exists k, stepsT l0 body res (initT s0 progs) (cfg, k).
Proof. exact reachable_has_clock. Qed.

Theorem C15_append_lengths_gap_free :
  forall s0 progs cfg, steps a_l0 a_body a_res (init s0 progs) cfg -> holder cfg = None ->
  forall i t x r, nth_error (log cfg) i = Some (t, Append x, r) ->
  r = 1 + appends (firstn i (map (fun e => snd (fst e)) (log cfg))) + length s0.
Proof. exact append_lengths_gap_free. Qed.

Example C15_concrete_interleaving :
  exists cfg, demo_final = Some cfg /\ steps a_l0 a_body a_res demo_init cfg /\
  holder cfg = None /\ shared cfg = [5;9;7] /\
  log cfg = [(1,Append 9,2); (0,Append 7,3); (0,Len,3)] /\
  seq_run a_l0 a_body a_res [5] (map (fun e => snd (fst e)) (log cfg)) = (shared cfg, map snd (log cfg)).
Proof. exact demo_run. Qed.

Print Assumptions C15_every_method_is_one_critical_section.
Print Assumptions C15_mutex_serializable.
Print Assumptions C15_results_and_program_order.
Print Assumptions C15_no_partial_observation.
Print Assumptions C15_real_time_order.
Print Assumptions C15_every_run_has_a_clock.
Print Assumptions C15_append_lengths_gap_free.

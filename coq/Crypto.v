(* Crypto.v — cryptographic primitives as parameters, and the byte layouts hashed / signed.
   Mirrors: src/crypto/hash.rs (Hash::data, Hash::parent, Hash::tree, signable_tree),
   src/crypto/key_pair.rs, src/crypto/manifest.rs. *)
From HC Require Export Base Codec.

Record crypto := mkCrypto {
  cr_hash : bytes -> bytes;                     (* BLAKE2b-256 *)
  cr_crc : bytes -> N;                          (* CRC-32 (IEEE) *)
  cr_sign : bytes -> bytes -> bytes;            (* Ed25519: secret key, message -> signature *)
  cr_verify : bytes -> bytes -> bytes -> bool;  (* public key, message, signature *)
}.

Definition TREE_NS : bytes :=
  [159;172;112;181;12;161;78;252;78;145;200;51;178;4;231;91;
   139;90;173;139;88;129;191;192;173;181;239;56;163;39;91;156].

Definition DEFAULT_NAMESPACE : bytes :=
  [65;68;238;165;49;228;131;213;78;12;20;244;202;104;224;100;
   79;53;83;67;255;111;203;15;0;82;0;225;44;215;71;203].

Section WithCrypto.
  Variable cr : crypto.

  Definition leaf_preimage (data : bytes) : bytes := [0] ++ le_bytes 8 (len data) ++ data.
  Definition leaf_hash (data : bytes) : bytes := cr_hash cr (leaf_preimage data).

  (* Hash::parent orders its arguments by index *)
  Definition parent_preimage (a b : node) : bytes :=
    let '(l, r) := if n_index a <=? n_index b then (a, b) else (b, a) in
    [1] ++ le_bytes 8 (n_length l + n_length r) ++ n_hash l ++ n_hash r.
  Definition parent_hash (a b : node) : bytes := cr_hash cr (parent_preimage a b).

  Definition root_item (n : node) : bytes :=
    n_hash n ++ le_bytes 8 (n_index n) ++ le_bytes 8 (n_length n).
  Definition tree_preimage (roots : list node) : bytes := [2] ++ concat (map root_item roots).
  Definition tree_hash (roots : list node) : bytes := cr_hash cr (tree_preimage roots).

  Definition signable (hash : bytes) (length fork : N) : bytes :=
    TREE_NS ++ hash ++ le_bytes 8 length ++ le_bytes 8 fork.

  Definition block_node (index : N) (value : bytes) : node :=
    mkNode index (len value) (leaf_hash value).

  Definition parent_node (index : N) (l r : node) : node :=
    mkNode index (n_length l + n_length r) (parent_hash l r).
End WithCrypto.

(* AnyReopenA.v -- library for AnyReopen1.v, part A: the TREE-LEVEL invariant HInvR.

   AnyProof.HInv says: the roots in memory ARE the writer's roots (sizes included) and the byte length in
   memory is the writer's.  A reopen reads the roots back from the tree store, where a lone hash-section
   node may have overwritten their SIZE (AnyProofEx.byte_length_after_reopen_refuted), and sums the stored
   sizes.  HInvR is HInv with exactly these two clauses weakened:
       t_roots t = ref_roots cr bs r            ~~>  hroots (t_roots t) r   (indices and HASHES of the
                                                     writer's roots; each size a u64, otherwise free)
       t_byte_length t = prefix_size bs r       ~~>  t_byte_length t = lens (t_roots t)
   Everything else is kept (length <= |bs|, fork 0, every visible node carries the writer's hash).
   This file: HInv -> HInvR, HInvR + "the sizes of the roots are the writer's" -> HInv, the verifier on an
   HInvR tree (verify_proof_acceptedR: the analogue of AnyProof.verify_proof_accepted), commit, flush, and
   EVERY outcome of core_apply_proof (apply_anyR_proof, apply_anyR_any_outcome, apply_anyR_outcome). *)
From HC Require Import Base NMap Codec CodecFacts Crypto FlatTree Storage Bitfield Oplog Merkle Core.
From HC Require Import FlatTreeFacts StorageFacts BitfieldFacts OplogFacts TreeRef OffsetFacts CoreFacts
                       Sound NoPanic Refine Reopen Replicate SoundCoreLib SoundCore SoundCoreUp SoundCoreBU
                       NoPanic2 EventsAvail CacheModel CacheOps ReplicaCor ReplicaCorA
                       AnyProofLib AnyProofUp AnyProof AnyProofCorLib.
From Coq Require Import FMapPositive ZifyN ZifyNat ZifyBool.
Ltac Zify.zify_post_hook ::= Z.div_mod_to_equations.
Arguments N.add : simpl never.
Arguments N.sub : simpl never.
Arguments N.mul : simpl never.
Arguments N.div : simpl never.
Arguments N.modulo : simpl never.
Arguments N.pow : simpl never.
Arguments N.eqb : simpl never.
Arguments N.ltb : simpl never.
Arguments N.leb : simpl never.
Arguments N.of_nat : simpl never.
Arguments N.to_nat : simpl never.

Lemma spans_indices l l' : map n_index l = map n_index l' -> spans l = spans l'.
Proof.
  intros E. unfold spans.
  assert (F : forall k, map span k = map (fun i => 2 ^ ft_depth i) (map n_index k))
    by (intros k; rewrite map_map; reflexivity).
  rewrite (F l), (F l'), E. reflexivity.
Qed.

(* ====================================================================================== *)
(* 1. Roots at the hash level                                                              *)
(* ====================================================================================== *)

Section RootsH.
  Variable cr : crypto.
  Hypothesis Hhash32 : forall x, length (cr_hash cr x) = 32%nat.
  Variable bs : list bytes.
  Hypothesis Hw : writer_fits bs.

  (* the list has the indices of the writer's roots over r blocks, each node carries the writer's hash
     at its index, each size is a u64 (and nothing more is known about the sizes) *)
  Definition hroots (rs : list node) (r : N) : Prop :=
    map n_index rs = ft_full_roots (2 * r) /\
    Forall (fun x => hagree cr bs x /\ n_length x <= u64_max) rs.

  Lemma full_root_in_len r i : r <= N.of_nat (length bs) -> In i (ft_full_roots (2 * r)) -> in_len r i.
  Proof.
    intros Hr Hi. rewrite <- (ref_roots_indices cr bs r) in Hi. apply in_map_iff in Hi as (x & <- & Hx).
    apply (ref_root_facts cr Hhash32 bs Hw r x Hr Hx).
  Qed.

  Lemma hroots_ref r : r <= N.of_nat (length bs) -> hroots (ref_roots cr bs r) r.
  Proof.
    intros Hr. split; [apply ref_roots_indices|]. apply Forall_forall. intros x Hx.
    destruct (ref_root_facts cr Hhash32 bs Hw r x Hr Hx) as ((_ & _ & L) & _ & _).
    split; [|unfold u64_max; lia].
    unfold hagree. rewrite (in_ref_roots cr bs x r Hx) at 1. reflexivity.
  Qed.

  Lemma hroots_in rs r x : hroots rs r -> In x rs -> In (n_index x) (ft_full_roots (2 * r)).
  Proof. intros [E _] Hx. rewrite <- E. apply in_map, Hx. Qed.

  Lemma hroots_hauth rs r x : r <= N.of_nat (length bs) -> hroots rs r -> In x rs -> hauth cr bs r x.
  Proof.
    intros Hr HR Hx. pose proof (hroots_in rs r x HR Hx) as Hi. destruct HR as [_ F].
    rewrite Forall_forall in F. destruct (F x Hx) as [A _]. split; [exact A|].
    apply (full_root_in_len r _ Hr Hi).
  Qed.

  Lemma hroots_fit rs r x : hroots rs r -> In x rs -> node_fit x.
  Proof.
    intros [_ F] Hx. rewrite Forall_forall in F. destruct (F x Hx) as [A B].
    split; [apply (hagree_hash32 cr Hhash32 bs x A)|exact B].
  Qed.

  Lemma hroots_wf rs r : r <= N.of_nat (length bs) -> hroots rs r -> Forall root_wf rs.
  Proof.
    intros Hr HR. apply Forall_forall. intros x Hx.
    destruct (hroots_fit rs r x HR Hx) as [A B]. destruct (hroots_hauth rs r x Hr HR Hx) as [_ I].
    split; [exact A|]. split; [|apply u64_lt, B].
    apply in_len_lt in I. destruct Hw as [_ Hw2]. unfold NODE_SIZE, u64_max in Hw2. lia.
  Qed.

  Lemma hroots_spans rs r : hroots rs r -> spans rs = r.
  Proof.
    intros [E _]. rewrite <- (spans_ref_roots cr bs r). apply spans_indices.
    rewrite E. symmetry. apply ref_roots_indices.
  Qed.

  (* when the sizes are the writer's too, the list IS the writer's root list *)
  Lemma hroots_exact rs r :
    hroots rs r -> (forall x, In x rs -> n_length x = n_length (ref_at cr bs (n_index x))) ->
    rs = ref_roots cr bs r.
  Proof.
    intros [E F] Hs. unfold ref_roots. rewrite <- E. rewrite map_map.
    rewrite <- (map_id rs) at 1. apply map_ext_in. intros x Hx.
    rewrite Forall_forall in F. destruct (F x Hx) as [A _].
    apply node_eq; [symmetry; apply ref_at_index_id|apply Hs, Hx|exact A].
  Qed.
End RootsH.

(* ====================================================================================== *)
(* 2. The verifier on a tree whose roots are known at the hash level only                   *)
(* ====================================================================================== *)

Section VerifierR.
  Variable cr : crypto.
  Hypothesis Hhash32 : forall x, length (cr_hash cr x) = 32%nat.
  Variable bs : list bytes.               (* the writer's blocks *)
  Hypothesis Hw : writer_fits bs.

  (* AnyProof.accepted with the two root clauses at the hash level; a proof WITH an upgrade section still
     ends with the writer's exact roots (the signature covers the sizes of the roots) *)
  Record acceptedR (t : mtree) (tf : file) (pf : proof) (pk : bytes) (cs : changeset) (m : N) : Prop :=
    mkAcceptedR {
    acr_ge : t_length t <= m;
    acr_le : m <= N.of_nat (length bs);
    acr_len : cs_length cs = m;
    acr_roots : hroots cr bs (cs_roots cs) m;
    acr_bytes : cs_byte_length cs = lens (cs_roots cs);
    (* every final root was a root before or is one of the stored nodes *)
    acr_roots_in : Forall (fun x => In x (t_roots t ++ cs_nodes cs)) (cs_roots cs);
    acr_nodes : Forall (fun x => hauth cr bs m x /\ node_fit x) (cs_nodes cs);
    acr_made : Forall (fun P => proof_supplied pf P \/ vt_leaf cr (p_block pf) P \/
                               exists a b, merged_of cr a b P /\ In a (t_roots t ++ cs_nodes cs) /\
                                           In b (t_roots t ++ cs_nodes cs)) (cs_nodes cs);
    acr_closure : Forall (fun x => In x (cs_roots cs) \/ child_of cr (t_roots t ++ cs_nodes cs) (cs_nodes cs) x \/
                                  stored_check t tf x) (t_roots t ++ cs_nodes cs);
    acr_block : forall b, p_block pf = Some b ->
                 db_value b = blk bs (db_index b) /\ db_index b < m /\
                 In (block_node cr (2 * db_index b) (db_value b)) (cs_nodes cs);
    acr_frame : cs_ancestors cs = t_length t /\ cs_orig_length cs = t_length t /\ cs_orig_fork cs = t_fork t;
    acr_same : cs_upgraded cs = false -> m = t_length t /\ cs_roots cs = t_roots t;
    acr_noup : p_upgrade pf = None -> cs_upgraded cs = false;
    acr_up : forall u, p_upgrade pf = Some u ->
              cs_fork cs = p_fork pf /\ cs_roots cs = ref_roots cr bs m /\
              cs_signature cs = Some (du_signature u) /\ cs_hash cs = Some (tree_hash cr (cs_roots cs)) /\
              cr_verify cr pk (signable (tree_hash cr (ref_roots cr bs m)) m (p_fork pf)) (du_signature u) = true }.

  Theorem verify_proof_acceptedR t tf pf pk cs :
    t_length t <= N.of_nat (length bs) -> hroots cr bs (t_roots t) (t_length t) ->
    t_byte_length t = lens (t_roots t) ->
    hunfl_sound cr bs t (t_length t) -> hfile_sound cr bs tf (t_length t) ->
    proof_wire pf -> tree_root_fits cr pf t ->
    verify_proof cr t tf pf pk = Ok cs ->
    (exists m, acceptedR t tf pf pk cs m) \/ some_collision cr \/ forged_signature cr bs pk.
  Proof.
    set (r := t_length t). intros Hr HR HB Hu Hf [Wvt Wup] Hfits H.
    destruct Hw as [Hw1 Hw2].
    apply verify_proof_accept_inv in H. destruct H as (root & c1 & Hv & H).
    destruct (verify_tree_shape cr Hhash32 _ _ _ _ _ _ Hv Wvt) as (vis & Rv & Fr & Sh & Hr32 & Hleaf).
    destruct Fr as (F1 & F2 & F3 & F4 & F5 & F6 & F7 & F8 & F9 & F10 & F11).
    cbn [tree_changeset cs_length cs_ancestors cs_byte_length cs_batch_length cs_fork cs_roots cs_hash
         cs_signature cs_upgraded cs_orig_length cs_orig_fork cs_rnodes] in *.
    rewrite app_nil_r in Rv. fold r in F1, F2, F10.
    destruct Sh as (S1 & S2 & S3 & S4 & S5).
    (* what remains once the final roots, the pushed nodes and the closure are known *)
    assert (Hfinish : forall m total,
      r <= m -> m <= N.of_nat (length bs) -> cs_length cs = m -> hroots cr bs (cs_roots cs) m ->
      cs_byte_length cs = lens (cs_roots cs) -> cs_nodes cs = total ->
      Forall (fun x => In x (t_roots t ++ total)) (cs_roots cs) ->
      (forall x, In x vis -> In x total) ->
      Forall node_fit total ->
      Forall (fun P => proof_supplied pf P \/ vt_leaf cr (p_block pf) P \/
                       exists a b, merged_of cr a b P /\ In a (t_roots t ++ total) /\ In b (t_roots t ++ total)) total ->
      Forall (fun x => In x (cs_roots cs) \/ child_of cr (t_roots t ++ total) total x \/ stored_check t tf x)
             (t_roots t ++ total) ->
      cs_ancestors cs = r /\ cs_orig_length cs = r /\ cs_orig_fork cs = t_fork t ->
      (cs_upgraded cs = false -> m = r /\ cs_roots cs = t_roots t) -> (p_upgrade pf = None -> cs_upgraded cs = false) ->
      (forall u, p_upgrade pf = Some u -> cs_fork cs = p_fork pf /\ cs_roots cs = ref_roots cr bs m /\
         cs_signature cs = Some (du_signature u) /\ cs_hash cs = Some (tree_hash cr (cs_roots cs)) /\
         cr_verify cr pk (signable (tree_hash cr (ref_roots cr bs m)) m (p_fork pf)) (du_signature u) = true) ->
      (exists m, acceptedR t tf pf pk cs m) \/ some_collision cr).
    { intros m total Hrm Hmn El Er Eb En Hrin Hvis Hfit Hmade Hcl Hframe Hsame Hnoup Hupg.
      assert (Htops : Forall (fun x => hauth cr bs m x \/ child_of cr (t_roots t ++ total) total x) (t_roots t ++ total)).
      { eapply Forall_impl; [|exact Hcl]. intros x [A|[A|A]].
        - left. apply (hroots_hauth cr Hhash32 bs (conj Hw1 Hw2) _ m x Hmn Er A).
        - right. exact A.
        - left. apply (hauth_mono cr bs r m x Hrm). apply (stored_hauth cr bs t tf r x Hu Hf A). }
      destruct (backward_hauth cr Hhash32 bs Hw1 (t_roots t ++ total) total m) as [Hall|C];
        [intros x Hx; apply in_or_app; right; exact Hx|exact Htops| |right; exact C].
      apply Forall_app in Hall. destruct Hall as [_ Hall]. rewrite Forall_forall in Hall, Hfit.
      (* the block value *)
      assert (Hblk : (forall b, p_block pf = Some b ->
                        db_value b = blk bs (db_index b) /\ db_index b < m /\
                        In (block_node cr (2 * db_index b) (db_value b)) (cs_nodes cs)) \/ some_collision cr).
      { destruct (p_block pf) as [b|] eqn:Eb0; [|left; intros b Eb1; discriminate Eb1].
        destruct (Hleaf b eq_refl) as [Hin Hi2].
        pose proof (Hall _ (Hvis _ Hin)) as [Hag Hil]. cbn [block_node n_index] in Hil.
        unfold hagree in Hag. cbn [block_node n_index n_hash] in Hag.
        replace (2 * db_index b) with (ft_index (N.of_nat 0) (db_index b)) in Hag, Hil
          by (change (N.of_nat 0) with 0; apply ft_index_leaf).
        rewrite ref_at_index in Hag. cbn [ref_node n_hash block_node] in Hag.
        apply in_len_index in Hil. rewrite p2_0 in Hil.
        apply leaf_hash_binds in Hag. destruct Hag as [Ev|C]; [left|right; exact C].
        intros b' [= <-]. split; [exact Ev|]. split; [lia|]. rewrite En. apply Hvis, Hin. }
      destruct Hblk as [Hblk|C]; [|right; exact C].
      left. exists m. constructor; try assumption.
      - rewrite En. exact Hrin.
      - rewrite En. apply Forall_forall. intros x Hx. split; [apply Hall, Hx|apply Hfit, Hx].
      - rewrite En. exact Hmade.
      - rewrite En. exact Hcl. }
    destruct (p_upgrade pf) as [u|] eqn:Eu.
    - (* with an upgrade section *)
      destruct H as (consumed & c3 & Hvu & _ & _ & _ & _ & _ & Hst).
      destruct (Wup u eq_refl) as [Wn Wa].
      assert (Hroot : forall r0, root = Some r0 -> hash32 r0 /\ n_index r0 < 2 ^ 64).
      { intros r0 ->. split; [apply (Hr32 r0 eq_refl)|]. apply u64_lt. apply (Hfits u r0 c1 Eu Hv). }
      assert (HB1 : cs_byte_length c1 = lens (cs_roots c1)) by (rewrite F3, F6; exact HB).
      assert (HL1 : cs_length c1 = spans (cs_roots c1)).
      { rewrite F1, F6. symmetry. apply (hroots_spans cr bs _ r HR). }
      assert (HW1 : Forall root_wf (cs_roots c1)).
      { rewrite F6. apply (hroots_wf cr Hhash32 bs (conj Hw1 Hw2) _ r Hr HR). }
      destruct (verify_upgrade_shape cr Hhash32 c1 (p_fork pf) u root pk consumed cs HB1 HL1 HW1 Wn Wa Hroot Hvu)
        as (new & Rn & Umade & Ufit & Uin & Ucl & UB & UL & UW & Ufk & Uanc & Uol & Uof & Ugrow & Uup & UV & USg & UHs & Ucons & Unone).
      rewrite F6 in Umade, Uin, Ucl, Uup. rewrite Rv in Rn.
      assert (Hgate : (exists m, m <= N.of_nat (length bs) /\ cs_roots cs = ref_roots cr bs m /\ cs_length cs = m) \/
                      some_collision cr \/ forged_signature cr bs pk).
      { apply (signature_gate cr Hhash32 bs (conj Hw1 Hw2) cs pk (du_signature u) UW UL). rewrite Ufk. exact UV. }
      destruct Hgate as [(m & Hmn & Er & El)|[C|Fg]]; [|right; left; exact C|right; right; exact Fg].
      set (total := vis ++ rev new).
      assert (En : cs_nodes cs = total).
      { rewrite cs_nodes_rnodes, Rn, rev_app_distr, rev_involutive. reflexivity. }
      assert (Hnew_total : forall x, In x new -> In x total).
      { intros x Hx. apply in_or_app. right. apply -> in_rev. exact Hx. }
      assert (Hvis_total : forall x, In x vis -> In x total) by (intros x Hx; apply in_or_app; left; exact Hx).
      assert (Hup_pool : forall x, In x (t_roots t ++ new) -> In x (t_roots t ++ total)).
      { intros x Hx. apply in_app_or in Hx. apply in_or_app. destruct Hx as [Hx|Hx]; [left; exact Hx|right; apply Hnew_total, Hx]. }
      assert (Hvis_pool : forall x, In x vis -> In x (t_roots t ++ total)).
      { intros x Hx. apply in_or_app. right. apply Hvis_total, Hx. }
      (* made, for a node of the tree sections *)
      assert (Hmade_vis : forall P, In P vis ->
                proof_supplied pf P \/ vt_leaf cr (p_block pf) P \/
                exists a b, merged_of cr a b P /\ In a (t_roots t ++ total) /\ In b (t_roots t ++ total)).
      { intros P HP. rewrite Forall_forall in S2. destruct (S2 P HP) as [[A|A]|(a & b & M & Ha & Hb)].
        - left. left. exact A.
        - right. left. exact A.
        - right. right. exists a, b. split; [exact M|]. split; apply Hvis_pool; assumption. }
      destruct (Hfinish m total) as [A|C]; try assumption.
      + rewrite <- El, <- F1. exact Ugrow.
      + rewrite Er. apply (hroots_ref cr Hhash32 bs (conj Hw1 Hw2) m Hmn).
      + eapply Forall_impl; [|exact Uin]. intros x Hx. apply Hup_pool, Hx.
      + apply Forall_app. split; [exact S1|]. apply Forall_rev. exact Ufit.
      + apply Forall_app. split; [apply Forall_forall; exact Hmade_vis|].
        apply Forall_rev. eapply Forall_impl; [|exact Umade].
        intros P [[A|[A|A]]|(a & b & M & Ha & Hb)].
        * left. right. exists u. split; [exact Eu|left; exact A].
        * left. right. exists u. split; [exact Eu|right; exact A].
        * apply Hmade_vis. apply S4. symmetry. exact A.
        * right. right. exists a, b. split; [exact M|]. split; apply Hup_pool; assumption.
      + (* closure *)
        assert (Hupcl : forall x, In x (t_roots t ++ new) ->
                  In x (cs_roots cs) \/ child_of cr (t_roots t ++ total) total x \/ stored_check t tf x).
        { intros x Hx. rewrite Forall_forall in Ucl. destruct (Ucl x Hx) as [A|A]; [left; exact A|].
          right. left. apply (child_of_incl cr (t_roots t ++ new) new); [exact Hup_pool|exact Hnew_total|exact A]. }
        apply Forall_forall. intros x Hx. apply in_app_or in Hx. destruct Hx as [Hx|Hx].
        * apply Hupcl. apply in_or_app. left. exact Hx.
        * apply in_app_or in Hx. destruct Hx as [Hx|Hx].
          -- rewrite Forall_forall in S3. destruct (S3 x Hx) as [A|A].
             ++ symmetry in A. destruct consumed.
                ** apply Hupcl. apply in_or_app. right. apply (Ucons x A eq_refl).
                ** right. right. apply (Hst eq_refl x A).
             ++ right. left. apply (child_of_incl cr vis vis); [exact Hvis_pool|exact Hvis_total|exact A].
          -- apply Hupcl. apply in_or_app. right. apply in_rev. exact Hx.
      + rewrite Uanc, Uol, Uof, F2, F10, F11. auto.
      + intros Hup. destruct (Uup Hup) as [Er0 _]. split; [|exact Er0].
        rewrite <- El, UL, Er0. apply (hroots_spans cr bs _ r HR).
      + discriminate.
      + intros u' [= <-]. split; [exact Ufk|]. split; [exact Er|]. split; [exact USg|]. split; [exact UHs|].
        rewrite <- Er, <- El. exact UV.
      + left. exact A.
      + right. left. exact C.
    - (* no upgrade section *)
      destruct H as [-> Hst].
      assert (En : cs_nodes c1 = vis) by (rewrite cs_nodes_rnodes, Rv; apply rev_involutive).
      assert (Hvis_pool : forall x, In x vis -> In x (t_roots t ++ vis)) by (intros x Hx; apply in_or_app; right; exact Hx).
      assert (P1 : hroots cr bs (cs_roots c1) r) by (rewrite F6; exact HR).
      assert (P2 : cs_byte_length c1 = lens (cs_roots c1)) by (rewrite F3, F6; exact HB).
      assert (P3 : Forall (fun P => proof_supplied pf P \/ vt_leaf cr (p_block pf) P \/
                       exists a b, merged_of cr a b P /\ In a (t_roots t ++ vis) /\ In b (t_roots t ++ vis)) vis).
      { eapply Forall_impl; [|exact S2]. intros P [[A|A]|(a & b & M & Ha & Hb)].
        * left. left. exact A.
        * right. left. exact A.
        * right. right. exists a, b. split; [exact M|]. split; apply Hvis_pool; assumption. }
      assert (P4 : Forall (fun x => In x (cs_roots c1) \/ child_of cr (t_roots t ++ vis) vis x \/ stored_check t tf x)
                          (t_roots t ++ vis)).
      { apply Forall_forall. intros x Hx. apply in_app_or in Hx. destruct Hx as [Hx|Hx].
        * left. rewrite F6. exact Hx.
        * rewrite Forall_forall in S3. destruct (S3 x Hx) as [A|A].
          -- right. right. apply (Hst x). symmetry. exact A.
          -- right. left. apply (child_of_incl cr vis vis); [exact Hvis_pool|intros y Hy; exact Hy|exact A]. }
      assert (P5 : cs_ancestors c1 = r /\ cs_orig_length c1 = r /\ cs_orig_fork c1 = t_fork t)
        by (rewrite F2, F10, F11; auto).
      assert (P6 : forall u, @None data_upgrade = Some u -> cs_fork c1 = p_fork pf /\ cs_roots c1 = ref_roots cr bs r /\
         cs_signature c1 = Some (du_signature u) /\ cs_hash c1 = Some (tree_hash cr (cs_roots c1)) /\
         cr_verify cr pk (signable (tree_hash cr (ref_roots cr bs r)) r (p_fork pf)) (du_signature u) = true)
        by (intros u Eu'; discriminate Eu').
      assert (P7 : Forall (fun x => In x (t_roots t ++ vis)) (cs_roots c1)).
      { rewrite F6. apply Forall_forall. intros x Hx. apply in_or_app. left. exact Hx. }
      destruct (Hfinish r vis (N.le_refl r) Hr F1 P1 P2 En P7 (fun x Hx => Hx) S1 P3 P4 P5 (fun _ => conj eq_refl F6)
                  (fun _ => F9) P6) as [A|C].
      + left. exact A.
      + right. left. exact C.
  Qed.
End VerifierR.

(* ====================================================================================== *)
(* 3. The tree-level invariant                                                             *)
(* ====================================================================================== *)

Section ReplicaR.
  Variable cr : crypto.
  Hypothesis Hhash32 : forall x, length (cr_hash cr x) = 32%nat.
  Hypothesis Hnonblank : forall x, all_zero (cr_hash cr x) = false.
  Variable bs : list bytes.               (* the writer's blocks *)
  Hypothesis Hw : writer_fits bs.

  (* the tree part, with the tree and the tree store as arguments *)
  Definition HTreeR (t : mtree) (tf : file) : Prop :=
    let r := t_length t in
    r <= N.of_nat (length bs) /\ t_fork t = 0 /\
    hroots cr bs (t_roots t) r /\ t_byte_length t = lens (t_roots t) /\
    hunfl_sound cr bs t r /\ hfile_sound cr bs tf r.

  (* HInv with the sizes of the roots in memory (hence the byte length) left free *)
  Definition HInvR (c : core) (d : disk) : Prop := HTreeR (c_tree c) (d_tree d).

  (* (a) *)
  Theorem HInv_HInvR c d : HInv cr bs c d -> HInvR c d.
  Proof.
    intros (H1 & H2 & H3 & H4 & H5 & H6). unfold HInvR, HTreeR. cbv zeta.
    split; [exact H1|]. split; [exact H2|].
    split; [rewrite H3; apply (hroots_ref cr Hhash32 bs Hw _ H1)|].
    split; [rewrite H4, H3; unfold lens; symmetry; apply ref_roots_size|]. split; assumption.
  Qed.

  (* ... and exactly the sizes of the roots were dropped *)
  Theorem HInvR_sizes_HInv c d :
    HInvR c d ->
    (forall x, In x (t_roots (c_tree c)) -> n_length x = n_length (ref_at cr bs (n_index x))) ->
    HInv cr bs c d.
  Proof.
    intros (H1 & H2 & H3 & H4 & H5 & H6) Hs.
    pose proof (hroots_exact cr bs _ _ H3 Hs) as E.
    split; [exact H1|]. split; [exact H2|]. split; [exact E|].
    split; [rewrite H4, E; apply ref_roots_size|]. split; assumption.
  Qed.

  Lemma HInvR_ext c d c' d' :
    c_tree c' = c_tree c -> d_tree d' = d_tree d -> HInvR c d -> HInvR c' d'.
  Proof. unfold HInvR. intros -> ->. exact (fun H => H). Qed.

  (* a tree flush, complete or not *)
  Lemma flush_rel_HTreeR t tf t' tf' : HTreeR t tf -> flush_rel t tf t' tf' -> HTreeR t' tf'.
  Proof.
    intros (H1 & H2 & H3 & H4 & H5 & H6) [[-> ->]|(tops & d1 & d2 & Hfl & Ed1 & Ha & Ed2)].
    - exact (conj H1 (conj H2 (conj H3 (conj H4 (conj H5 H6))))).
    - pose proof (hunfl_sound_ok cr Hhash32 bs _ _ H5) as Hok.
      destruct (tree_flush_other_stores t t' tops d1 d2 Hfl Ha Hok) as (_ & _ & _ & R1 & R2 & R3 & R4 & _).
      rewrite <- Ed1 in H6.
      destruct (tree_flush_hsound cr Hhash32 bs t t' tops d1 d2 _ Hfl Ha H5 H6) as [S2 S3].
      unfold HTreeR. cbv zeta. rewrite Ed2, R1, R2, R3, R4.
      exact (conj H1 (conj H2 (conj H3 (conj H4 (conj S2 S3))))).
  Qed.

  (* committing the changeset of an accepted proof *)
  Lemma tree_commit_hinvR t tf pf pk cs m t' :
    acceptedR cr bs t tf pf pk cs m -> p_fork pf = 0 -> HTreeR t tf ->
    tree_commit t cs = Ok t' ->
    t_length t' = m /\ HTreeR t' tf /\
    (forall u, p_upgrade pf = Some u -> t_roots t' = ref_roots cr bs m /\ t_byte_length t' = prefix_size bs m).
  Proof.
    intros [A1 A2 A3 A4 A5 _ A6 _ _ _ (A7 & A8 & A9) A10 A11 A12] Hpf (H1 & H2 & H3 & H4 & H5 & H6) H.
    assert (Hnodes : forall x, In x (cs_nodes cs) -> hauth cr bs m x /\ n_length x <= u64_max).
    { intros x Hx. rewrite Forall_forall in A6. destruct (A6 x Hx) as [B1 [_ B2]]. auto. }
    assert (Hu' : hunfl_sound cr bs t m) by (apply (hunfl_sound_mono cr bs t _ m A1 H5)).
    assert (Hf' : hfile_sound cr bs tf m) by (apply (hfile_sound_mono cr bs tf _ m A1 H6)).
    unfold tree_commit in H. destruct (commitable t cs); [|discriminate H]. cbn [negb] in H.
    destruct (cs_upgraded cs) eqn:Up.
    - rewrite A7, A8, N.ltb_irrefl in H. injection H as <-.
      unfold HTreeR. cbn [t_length t_roots t_byte_length t_fork t_unflushed]. rewrite A3.
      split; [reflexivity|]. split.
      + split; [exact A2|]. split.
        * destruct (p_upgrade pf) as [u|] eqn:Eu.
          -- destruct (A12 u eq_refl) as [B _]. rewrite B. exact Hpf.
          -- discriminate (A11 eq_refl).
        * split; [exact A4|]. split; [exact A5|]. split; [|exact Hf'].
          apply (add_nodes_hsound cr bs t _ m (cs_nodes cs) Hu' Hnodes). reflexivity.
      + intros u Eu. destruct (A12 u Eu) as (_ & B2 & _). split; [exact B2|].
        rewrite A5, B2. apply ref_roots_size.
    - injection H as <-. destruct (A10 eq_refl) as [Em Er].
      unfold HTreeR. cbn [t_length t_roots t_byte_length t_fork t_unflushed]. rewrite <- Em in *.
      split; [reflexivity|]. split.
      + split; [exact A2|]. split; [exact H2|]. split; [exact H3|]. split; [exact H4|]. split; [|exact Hf'].
        apply (add_nodes_hsound cr bs t _ m (cs_nodes cs) Hu' Hnodes). reflexivity.
      + intros u Eu. destruct (A12 u Eu) as (_ & B2 & _). rewrite <- Er, B2. split; [reflexivity|].
        rewrite H4, <- Er, B2. apply ref_roots_size.
  Qed.

  (* MAIN, accepted proofs: HInvR is kept, the accepted block value is the writer's block at the claimed index,
     the length does not decrease and stays one the writer signed; a proof with an upgrade section REPAIRS
     the roots: the full HInv holds afterwards *)
  Theorem apply_anyR_proof f pf c d j ev c' w' :
    HInvR c d -> proof_wire pf ->
    core_apply_proof cr f pf c (mkWorld d j ev) = (c', w', Ok true) ->
    (HInvR c' (w_disk w') /\
     t_length (c_tree c) <= t_length (c_tree c') /\ t_length (c_tree c') <= N.of_nat (length bs) /\
     (forall b, p_block pf = Some b ->
        db_value b = blk bs (db_index b) /\ db_index b < t_length (c_tree c')) /\
     (p_upgrade pf <> None -> HInv cr bs c' (w_disk w')))
    \/ some_collision cr \/ forged_signature cr bs (kp_public (c_keypair c)).
  Proof.
    intros W Hwire H. pose proof W as (H1 & H2 & H3 & H4 & H5 & H6).
    pose proof (proof_wire_root_fits cr Hhash32 pf (c_tree c) Hwire) as Hfits.
    destruct (accepted_gates cr _ _ _ _ _ _ H) as (cs & Ef & V & Cm & Ht). clear H.
    unfold verifier_says in V. cbn [w_disk] in V.
    destruct (verify_proof_acceptedR cr Hhash32 bs Hw _ _ _ _ _ H1 H3 H4 H5 H6 Hwire Hfits V)
      as [(m & Acc)|[C|Fg]]; [|right; left; exact C|right; right; exact Fg].
    left.
    apply apply_tail_inv in Ht. destruct Ht as (_ & bu & c1 & w1 & c2 & w2 & w3 & Hbu & Hlc & Hmf & Hd3).
    assert (E1 : c1 = c /\ d_tree (w_disk w1) = d_tree d).
    { destruct (p_block pf) as [b|].
      - rewrite mbind_lift in Hbu. cbn [w_disk] in Hbu.
        destruct (byte_offset_in_changeset (c_tree c) (d_tree d) (db_index b) cs) as [off| | |]; try discriminate Hbu.
        rewrite mbind_emit_SW in Hbu. unfold ret in Hbu. inversion Hbu; subst. cbn [w_disk].
        split; [reflexivity|]. destruct d; reflexivity.
      - unfold ret in Hbu. inversion Hbu; subst. split; reflexivity. }
    destruct E1 as [-> Edt1].
    apply log_and_commit_inv in Hlc. destruct Hlc as (t' & Htc & Et' & _ & _ & Edt & _).
    destruct (tree_commit_hinvR _ _ _ _ _ _ _ Acc (eq_trans Ef H2) W Htc) as (T1 & T2 & T3).
    assert (W2 : HTreeR (c_tree c2) (d_tree (w_disk w2))) by (rewrite Et', Edt, Edt1; exact T2).
    assert (Hok2 : unflushed_ok (c_tree c2)).
    { destruct W2 as (_ & _ & _ & _ & X & _). apply (hunfl_sound_ok cr Hhash32 bs _ _ X). }
    pose proof (CacheOps.maybe_flush_tree_any cr f c2 w2 c' w3 (Ok tt) Hmf) as FR.
    pose proof (flush_rel_HTreeR _ _ _ _ W2 FR) as W3.
    assert (EL : t_length (c_tree c') = m /\ t_roots (c_tree c') = t_roots t' /\
                 t_byte_length (c_tree c') = t_byte_length t').
    { destruct FR as [[E _]|(tops & d1 & d2 & Hfl & _ & Ha & _)]; [rewrite E, Et', T1; auto|].
      destruct (tree_flush_other_stores _ _ tops d1 d2 Hfl Ha Hok2) as (_ & _ & _ & R1 & R2 & R3 & _).
      rewrite R1, R2, R3, Et', T1. auto. }
    destruct EL as (EL & ER & EB).
    rewrite Hd3. split; [exact W3|]. rewrite EL.
    split; [apply (acr_ge _ _ _ _ _ _ _ _ Acc)|]. split; [apply (acr_le _ _ _ _ _ _ _ _ Acc)|]. split.
    - intros b Eb. destruct (acr_block _ _ _ _ _ _ _ _ Acc b Eb) as (B1 & B2 & _). auto.
    - intros Hup. destruct (p_upgrade pf) as [u|] eqn:Eu; [|contradiction].
      destruct (T3 u eq_refl) as [T4 T5].
      destruct W3 as (V1 & V2 & _ & _ & V5 & V6). rewrite EL in V1, V5, V6.
      unfold HInv. cbv zeta. rewrite EL.
      split; [exact V1|]. split; [exact V2|]. split; [rewrite ER; exact T4|].
      split; [rewrite EB; exact T5|]. split; assumption.
  Qed.

  (* EVERY outcome: accepted, refused at a gate, or failed half-way -- the invariant is kept *)
  Theorem apply_anyR_any_outcome f pf c d j ev c' w' r :
    HInvR c d -> proof_wire pf ->
    core_apply_proof cr f pf c (mkWorld d j ev) = (c', w', r) ->
    (HInvR c' (w_disk w') /\ t_length (c_tree c) <= t_length (c_tree c'))
    \/ some_collision cr \/ forged_signature cr bs (kp_public (c_keypair c)).
  Proof.
    intros W Hwire H. pose proof W as (H1 & H2 & H3 & H4 & H5 & H6).
    pose proof (proof_wire_root_fits cr Hhash32 pf (c_tree c) Hwire) as Hfits.
    destruct (N.eq_dec (p_fork pf) (t_fork (c_tree c))) as [Ef|Ef].
    2:{ rewrite (apply_fork_mismatch cr f pf c _ Ef) in H. inversion H; subst. left. split; [exact W|lia]. }
    destruct (CacheOps.apply_proof_effect_any cr f pf c _ c' w' r H) as [[T D]|(cs & t1 & V & Hc & R)];
      cbn [w_disk] in *.
    { left. unfold HInvR. rewrite T, D. split; [exact W|lia]. }
    assert (S1 : (HTreeR t1 (d_tree d) /\ t_length (c_tree c) <= t_length t1) \/
                 some_collision cr \/ forged_signature cr bs (kp_public (c_keypair c))).
    { destruct Hc as [->|Htc].
      - left. split; [exact W|lia].
      - destruct (verify_proof_acceptedR cr Hhash32 bs Hw _ _ _ _ _ H1 H3 H4 H5 H6 Hwire Hfits V)
          as [(m & Acc)|[C|Fg]]; [left|right; left; exact C|right; right; exact Fg].
        destruct (tree_commit_hinvR _ _ _ _ _ _ _ Acc (eq_trans Ef H2) W Htc) as (T1 & T2 & _).
        split; [exact T2|]. rewrite T1. apply (acr_ge _ _ _ _ _ _ _ _ Acc). }
    destruct S1 as [[S1 L1]|[C|Fg]]; [left|right; left; exact C|right; right; exact Fg].
    split; [apply (flush_rel_HTreeR _ _ _ _ S1 R)|].
    destruct R as [[E _]|(tops & d1 & d2 & Hfl & _ & Ha & _)]; [rewrite E; exact L1|].
    assert (Hok : unflushed_ok t1).
    { destruct S1 as (_ & _ & _ & _ & X & _). apply (hunfl_sound_ok cr Hhash32 bs _ _ X). }
    destruct (tree_flush_other_stores _ _ tops d1 d2 Hfl Ha Hok) as (_ & _ & _ & _ & R2 & _).
    rewrite R2. exact L1.
  Qed.
End ReplicaR.

Print Assumptions hroots_exact.
Print Assumptions verify_proof_acceptedR.
Print Assumptions HInv_HInvR.
Print Assumptions HInvR_sizes_HInv.
Print Assumptions apply_anyR_proof.
Print Assumptions apply_anyR_any_outcome.

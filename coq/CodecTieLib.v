(* CodecTieLib.v — the generic interpreter of codec descriptions, its tactics, and the tie of the Node codec (shared by the wire
   messages of C11 and the oplog entries of C06); CodecTie.v (C11) and OplogTie.v (C06) build on it, so that a changed wire message
   fails the gate of C11 only and a changed oplog codec the gate of C06 only. *)
From HC Require Import Base Codec CodecFacts CodecDesc SrcCodec.
From Coq Require Import Lia.
#[local] Open Scope string_scope.
#[local] Arguments enc_uint : simpl never.
#[local] Arguments enc_buffer : simpl never.
#[local] Arguments enc_nodes : simpl never.
#[local] Arguments size_uint : simpl never.
#[local] Arguments size_buffer : simpl never.
#[local] Arguments size_nodes : simpl never.
#[local] Arguments dec_uint : simpl never.
#[local] Arguments dec_buffer : simpl never.
#[local] Arguments dec_nodes : simpl never.
#[local] Arguments dec_fixed : simpl never.
#[local] Arguments N.add : simpl never.

(* ---------- the generic interpreter ---------- *)

Inductive fval := VU (n : N) | VB (b : bytes) | VNs (l : list node) | VH (h : bytes).

Definition env := string -> option fval.

Definition MISMATCH : string := "codec description: no such field, or a field of another type".

(* one field, written with the primitive Codec.v uses for that kind of field *)
Definition enc_field (t : fty) (v : option fval) : res bytes :=
  match t, v with
  | FU64, Some (VU n) => Ok (enc_uint n)
  | FBytes, Some (VB b) => Ok (enc_buffer b)
  | FNodes, Some (VNs l) => enc_nodes l
  | FHash32, Some (VH h) => if Nat.eqb (length h) 32 then Ok h else Err EncodingErr    (* as_array::<32>(..)? *)
  | _, _ => Panic MISMATCH
  end.

Definition size_field (t : fty) (v : option fval) : res N :=
  match t, v with
  | FU64, Some (VU n) => Ok (size_uint n)
  | FBytes, Some (VB b) => Ok (size_buffer b)
  | FNodes, Some (VNs l) => Ok (size_nodes l)
  | FHash32, Some (VH _) => Ok 32
  | _, _ => Panic MISMATCH
  end.

Definition dec_field (t : fty) (b : bytes) : res (fval * bytes) :=
  match t with
  | FU64 => '(n, r) <- dec_uint b ;; Ok (VU n, r)
  | FBytes => '(v, r) <- dec_buffer b ;; Ok (VB v, r)
  | FNodes => '(l, r) <- dec_nodes b ;; Ok (VNs l, r)
  | FHash32 => '(h, r) <- dec_fixed 32 b ;; Ok (VH h, r)
  | _ => Panic MISMATCH      (* FOther, and the oplog-only types *)
  end.

(* map_encode!(buffer, f1, f2, ..): the fields one after the other *)
Fixpoint genc (fs : list (string * fty)) (e : env) : res bytes :=
  match fs with
  | [] => Ok []
  | (name, t) :: r => a <- enc_field t (e name) ;; b <- genc r e ;; Ok (a ++ b)%list
  end.

(* sum_encoded_size!(f1, f2, ..) *)
Fixpoint gsize (fs : list (string * fty)) (e : env) : res N :=
  match fs with
  | [] => Ok 0
  | (name, t) :: r => a <- size_field t (e name) ;; b <- gsize r e ;; Ok (a + b)
  end.

(* map_decode!(buffer, [t1, t2, ..]) followed by a constructor that stores the i-th value in the field [names_i]:
   the result is the association list field -> value, and the rest of the buffer *)
Fixpoint gdec (ts : list fty) (names : list string) (b : bytes) : res (list (string * fval) * bytes) :=
  match ts, names with
  | [], [] => Ok ([], b)
  | t :: ts', name :: names' =>
      '(v, r) <- dec_field t b ;; '(l, r') <- gdec ts' names' r ;; Ok ((name, v) :: l, r')
  | _, _ => Panic MISMATCH
  end.

Fixpoint lookup (l : list (string * fval)) (name : string) : option fval :=
  match l with
  | [] => None
  | (k, v) :: r => if String.eqb name k then Some v else lookup r name
  end.

(* the decoder a description denotes, given how the record is built from named values *)
Definition gdecode {A} (build : env -> option A) (ts : list fty) (names : list string) (b : bytes) : res (A * bytes) :=
  '(l, r) <- gdec ts names b ;;
  match build (lookup l) with Some x => Ok (x, r) | None => Panic MISMATCH end.

(* ---------- the records of Codec.v as field environments (Rust field name -> value), and back ---------- *)

Definition env_node (x : node) : env := fun s =>
  if s =? "index" then Some (VU (n_index x)) else if s =? "length" then Some (VU (n_length x))
  else if s =? "hash" then Some (VH (n_hash x)) else None.
Definition env_req_block (x : req_block) : env := fun s =>
  if s =? "index" then Some (VU (rb_index x)) else if s =? "nodes" then Some (VU (rb_nodes x)) else None.
Definition env_req_seek (x : req_seek) : env := fun s =>
  if s =? "bytes" then Some (VU (rs_bytes x)) else None.
Definition env_req_upgrade (x : req_upgrade) : env := fun s =>
  if s =? "start" then Some (VU (ru_start x)) else if s =? "length" then Some (VU (ru_length x)) else None.
Definition env_data_block (x : data_block) : env := fun s =>
  if s =? "index" then Some (VU (db_index x)) else if s =? "value" then Some (VB (db_value x))
  else if s =? "nodes" then Some (VNs (db_nodes x)) else None.
Definition env_data_hash (x : data_hash) : env := fun s =>
  if s =? "index" then Some (VU (dh_index x)) else if s =? "nodes" then Some (VNs (dh_nodes x)) else None.
Definition env_data_seek (x : data_seek) : env := fun s =>
  if s =? "bytes" then Some (VU (ds_bytes x)) else if s =? "nodes" then Some (VNs (ds_nodes x)) else None.
Definition env_data_upgrade (x : data_upgrade) : env := fun s =>
  if s =? "start" then Some (VU (du_start x)) else if s =? "length" then Some (VU (du_length x))
  else if s =? "nodes" then Some (VNs (du_nodes x))
  else if s =? "additional_nodes" then Some (VNs (du_additional x))
  else if s =? "signature" then Some (VB (du_signature x)) else None.

Definition build_node (e : env) : option node :=
  match e "index", e "length", e "hash" with
  | Some (VU i), Some (VU l), Some (VH h) => Some (mkNode i l h) | _, _, _ => None end.
Definition build_req_block (e : env) : option req_block :=
  match e "index", e "nodes" with Some (VU i), Some (VU n) => Some (mkReqBlock i n) | _, _ => None end.
Definition build_req_seek (e : env) : option req_seek :=
  match e "bytes" with Some (VU i) => Some (mkReqSeek i) | _ => None end.
Definition build_req_upgrade (e : env) : option req_upgrade :=
  match e "start", e "length" with Some (VU s), Some (VU l) => Some (mkReqUpgrade s l) | _, _ => None end.
Definition build_data_block (e : env) : option data_block :=
  match e "index", e "value", e "nodes" with
  | Some (VU i), Some (VB v), Some (VNs ns) => Some (mkDataBlock i v ns) | _, _, _ => None end.
Definition build_data_hash (e : env) : option data_hash :=
  match e "index", e "nodes" with Some (VU i), Some (VNs ns) => Some (mkDataHash i ns) | _, _ => None end.
Definition build_data_seek (e : env) : option data_seek :=
  match e "bytes", e "nodes" with Some (VU i), Some (VNs ns) => Some (mkDataSeek i ns) | _, _ => None end.
Definition build_data_upgrade (e : env) : option data_upgrade :=
  match e "start", e "length", e "nodes", e "additional_nodes", e "signature" with
  | Some (VU s), Some (VU l), Some (VNs ns), Some (VNs an), Some (VB sg) => Some (mkDataUpgrade s l ns an sg)
  | _, _, _, _, _ => None end.

(* the two views are inverse: every record is rebuilt from its own environment *)
Lemma build_env_node x : build_node (env_node x) = Some x.               Proof. now destruct x. Qed.
Lemma build_env_req_block x : build_req_block (env_req_block x) = Some x. Proof. now destruct x. Qed.
Lemma build_env_req_seek x : build_req_seek (env_req_seek x) = Some x.    Proof. now destruct x. Qed.
Lemma build_env_req_upgrade x : build_req_upgrade (env_req_upgrade x) = Some x. Proof. now destruct x. Qed.
Lemma build_env_data_block x : build_data_block (env_data_block x) = Some x.    Proof. now destruct x. Qed.
Lemma build_env_data_hash x : build_data_hash (env_data_hash x) = Some x. Proof. now destruct x. Qed.
Lemma build_env_data_seek x : build_data_seek (env_data_seek x) = Some x. Proof. now destruct x. Qed.
Lemma build_env_data_upgrade x : build_data_upgrade (env_data_upgrade x) = Some x. Proof. now destruct x. Qed.

(* the defining equations of the interpreter, in one statement (pinned in props/C11.v) *)
Lemma generic_interpreter_spec :
  (forall e, genc [] e = Ok [] /\ gsize [] e = Ok 0) /\
  (forall name t r e,
     genc ((name, t) :: r) e = (a <- enc_field t (e name) ;; b <- genc r e ;; Ok (a ++ b)%list) /\
     gsize ((name, t) :: r) e = (a <- size_field t (e name) ;; b <- gsize r e ;; Ok (a + b))) /\
  (forall n, enc_field FU64 (Some (VU n)) = Ok (enc_uint n) /\ size_field FU64 (Some (VU n)) = Ok (size_uint n)) /\
  (forall v, enc_field FBytes (Some (VB v)) = Ok (enc_buffer v) /\ size_field FBytes (Some (VB v)) = Ok (size_buffer v)) /\
  (forall l, enc_field FNodes (Some (VNs l)) = enc_nodes l /\ size_field FNodes (Some (VNs l)) = Ok (size_nodes l)) /\
  (forall h, enc_field FHash32 (Some (VH h)) = (if Nat.eqb (length h) 32 then Ok h else Err EncodingErr) /\
             size_field FHash32 (Some (VH h)) = Ok 32) /\
  (forall t, enc_field t None = Panic MISMATCH /\ size_field t None = Panic MISMATCH) /\
  (forall s v, enc_field (FOther s) v = Panic MISMATCH /\ size_field (FOther s) v = Panic MISMATCH) /\
  (forall x, build_node (env_node x) = Some x) /\ (forall x, build_req_block (env_req_block x) = Some x) /\
  (forall x, build_req_seek (env_req_seek x) = Some x) /\ (forall x, build_req_upgrade (env_req_upgrade x) = Some x) /\
  (forall x, build_data_block (env_data_block x) = Some x) /\ (forall x, build_data_hash (env_data_hash x) = Some x) /\
  (forall x, build_data_seek (env_data_seek x) = Some x) /\ (forall x, build_data_upgrade (env_data_upgrade x) = Some x).
Proof.
  repeat match goal with |- _ /\ _ => split end; intros;
    try (split; reflexivity);
    try (destruct t; split; reflexivity);
    try (destruct v as [[ | | | ]|]; split; reflexivity);
    auto using build_env_node, build_env_req_block, build_env_req_seek, build_env_req_upgrade, build_env_data_block,
      build_env_data_hash, build_env_data_seek, build_env_data_upgrade.
Qed.

(* ---------- the tie ---------- *)

Definition tied_codec (src : option codec_desc) (P : codec_desc -> Prop) : Prop :=
  match src with Some d => P d | None => True end.

(* what it means for a model codec (enc, size, dec over a record type A) to be the source's description d *)
Definition is_codec {A} (envA : A -> env) (buildA : env -> option A)
  (enc : A -> res bytes) (size : A -> N) (dec : bytes -> res (A * bytes)) (d : codec_desc) : Prop :=
  (forall x, enc x = genc (cd_enc d) (envA x)) /\
  (forall x, Ok (size x) = gsize (cd_size d) (envA x)) /\
  (forall b, dec b = gdecode buildA (cd_dec_types d) (cd_ctor d) b) /\
  cd_dec_types d = map snd (cd_enc d) /\
  cd_ctor d = map fst (cd_enc d) /\
  cd_size d = cd_enc d.

Lemma bind_ok_ret {A} (r : res A) : (x <- r ;; Ok x) = r.
Proof. now destruct r. Qed.

(* [r] is a result of the node-list encoder somewhere in the goal *)
Ltac case_res r := let E := fresh "E" in destruct r eqn:E; cbn [bind].

Ltac tie_enc :=
  intros x; cbn;
  repeat match goal with |- context [enc_nodes ?l] => case_res (enc_nodes l) end;
  repeat match goal with |- context [Nat.eqb ?a ?b] => destruct (Nat.eqb a b) end;
  cbn [bind]; rewrite ?app_nil_r, <- ?app_assoc; reflexivity.

Ltac tie_size :=
  intros x; cbn; f_equal; lia.

Ltac tie_dec :=
  intros b; unfold gdecode; cbn;
  repeat (match goal with
          | |- context [dec_uint ?r] => destruct (dec_uint r) as [[? ?]| | |]
          | |- context [dec_buffer ?r] => destruct (dec_buffer r) as [[? ?]| | |]
          | |- context [dec_nodes ?r] => destruct (dec_nodes r) as [[? ?]| | |]
          | |- context [dec_fixed ?n ?r] => destruct (dec_fixed n r) as [[? ?]| | |]
          end; cbn; try reflexivity).

Ltac tie_codec src :=
  unfold src, tied_codec, is_codec;
  first [ exact I
        | cbn [cd_enc cd_size cd_dec_types cd_ctor];
          split; [tie_enc | split; [tie_size | split; [tie_dec | repeat split]]] ].

Lemma tie_node :
  tied_codec src_Node (is_codec env_node build_node enc_node size_node dec_node).
Proof. unfold enc_node, size_node, dec_node. tie_codec src_Node. Qed.

Print Assumptions generic_interpreter_spec.
Print Assumptions tie_node.

(* Replicate2Z.v -- C03: upgrades of an EMPTY replica, full or partial (the case r = 0 of classes A / B). *)
From HC Require Import Base NMap Codec CodecFacts Crypto FlatTree Storage Oplog Merkle Core.
From HC Require Import FlatTreeFacts Sound NoPanic TreeRef OffsetFacts CoreFacts Refine Replicate Replicate2.
From Coq Require Import FMapPositive ZifyN ZifyNat ZifyBool.
Ltac Zify.zify_post_hook ::= Z.div_mod_to_equations.
Arguments N.add : simpl never.
Arguments N.sub : simpl never.
Arguments N.mul : simpl never.
Arguments N.div : simpl never.
Arguments N.modulo : simpl never.
Arguments N.pow : simpl never.
Arguments N.eqb : simpl never.
Arguments N.ltb : simpl never.
Arguments N.leb : simpl never.
Arguments N.of_nat : simpl never.
Arguments N.to_nat : simpl never.
Arguments N.log2 : simpl never.

Notation root_nodes cr bs u := (map (rn cr bs) (roots_from g64 0 u)) (only parsing).

Section EmptyReplica.
  Variable cr : crypto.
  Variable bs : list bytes.
  Hypothesis total_fits : sumN (map len bs) <= u64_max.

  Lemma root_nodes_ref_roots u : u < p2 g64 -> root_nodes cr bs u = ref_roots cr bs u.
  Proof. intros H. rewrite ref_roots_rrl. f_equal. symmetry. apply roots_from_0, H. Qed.

  (* the writer: upgrade 0 -> u, additional nodes u -> w *)
  Lemma empty_upgrade_created t tf w u sg :
    lookups cr t tf bs w -> t_length t = w -> t_signature t = Some sg ->
    0 < u -> u <= w -> 2 * w <= u64_max ->
    create_valueless_proof t tf None None None (Some (mkReqUpgrade 0 u))
    = Ok (mkVproof (t_fork t) None None None
            (Some (mkDataUpgrade 0 u (root_nodes cr bs u) (addl_nodes cr bs u w) sg))).
  Proof.
    intros Hlook Hl Hsg Hu Huw H64.
    unfold create_valueless_proof, normalize_indexed. cbn [ru_start ru_length bind].
    unfold u64_max in H64.
    rewrite !NoPanic.mul64_ok by (unfold u64_max; lia). cbn [bind].
    rewrite NoPanic.add64_ok by (unfold u64_max; lia). cbn [bind].
    replace (0 * 2 + u * 2) with (2 * u) by lia. replace (0 * 2) with (2 * 0) by lia. rewrite Hl.
    destruct (N.leb_spec (2 * u) (2 * 0)) as [L1|_]; [lia|].
    destruct (N.ltb_spec (2 * w) (2 * u)) as [L2|_]; [lia|]. cbn [orb negb bind].
    assert (Hup : upgrade_proof t tf None false (2 * 0) (2 * u) (2 * w) lp_empty
                  = Ok (mkLp None None (Some (root_nodes cr bs u)) None)).
    { unfold upgrade_proof. change (2 * 0 =? 0) with true.
      change (it_new 0) with (mkIter (2 * 0) 0 2).
      assert (Hns : nosub true lp_empty (2 * w) (2 * u)) by (right; right; right; lia).
      rewrite (upgrade_loop_rest cr bs total_fits t tf w Hlook None false (2 * w) true 0 u lp_empty Huw Hns g64 CLIMB 0 []);
        [|apply climb_64|apply pref_0|rewrite p2_64; lia|lia].
      cbn [bind app lp_seek lp_nodes lp_additional lp_empty]. reflexivity. }
    rewrite Hup. cbn [bind].
    destruct (N.ltb_spec u w) as [Lw|Lw].
    - destruct (N.ltb_spec (2 * u) (2 * w)) as [_|L3]; [|lia].
      rewrite (additional_created cr bs total_fits t tf w Hlook u _ Hu Lw ltac:(unfold u64_max; lia)).
      cbn [bind lp_nodes lp_seek lp_upgrade lp_additional]. rewrite Hsg. reflexivity.
    - destruct (N.ltb_spec (2 * u) (2 * w)) as [L3|_]; [lia|].
      cbn [bind lp_nodes lp_seek lp_upgrade lp_additional]. rewrite Hsg. reflexivity.
  Qed.

  (* the verifier on an empty changeset *)
  Lemma verify_upgrade_empty c u w fork sg pk :
    0 < u -> u <= w -> 2 * w <= u64_max -> vinv cr bs c 0 -> cs_roots c = [] ->
    length sg = 64%nat ->
    cr_verify cr pk (signable (tree_hash cr (ref_roots cr bs w)) w fork) sg = true ->
    exists c3,
      verify_upgrade cr fork (mkDataUpgrade 0 u (root_nodes cr bs u) (addl_nodes cr bs u w) sg) None pk c
        = Ok (true, cs_set_hash_sig (cs_set_fork c3 fork) (tree_hash cr (ref_roots cr bs w)) sg) /\
      vinv cr bs c3 w /\ cs_grown cr bs c c3 /\ cs_upgraded c3 = true.
  Proof.
    intros Hu Huw H64 V Hnil Hsg Hver.
    pose proof climb_64 as Hc64.
    assert (Hw64 : w < p2 g64) by (rewrite p2_64; unfold u64_max in H64; lia).
    destruct (url_rest cr bs total_fits u g64 CLIMB 0 c (mkQ (root_nodes cr bs u) None) (mkQ [] None) 0 false)
      as (c1 & it1 & Hrun & V1 & G1 & U1);
      [exact Hc64|apply pref_0|lia|exact V|discriminate| |].
    { apply serves_plain. intros x [=]. }
    assert (El : exists x l, rrl 0 u = x :: l).
    { destruct (rrl 0 u) as [|x l] eqn:E; [exfalso; apply (rrl_nonempty 0 u Hu E)|eauto]. }
    destruct El as (x0 & l0 & Erl).
    assert (Elast : last_root_index c1 = Ok (n_index (rn cr bs x0))).
    { unfold last_root_index. destruct V1 as (_ & V1 & _). rewrite V1, Erl. reflexivity. }
    assert (Ehd : it_new (n_index (rn cr bs x0)) = it_hd (rrl 0 u)).
    { rewrite Erl. cbn [it_hd]. unfold rn. rewrite ref_node_index. apply FlatTreeFacts.it_new_index. }
    destruct (extra_phase_addl cr bs total_fits u w c1 Hu Huw Hw64 V1) as (c2 & it2 & rest & c3 & it3 & He1 & He2 & V3 & G3).
    exists c3. split; [|split; [exact V3|split; [eapply cs_grown_trans; eassumption|eapply cs_grown_upgraded; [eassumption|apply U1; lia]]]].
    unfold verify_upgrade. cbn [du_nodes du_start du_length du_additional du_signature].
    rewrite NoPanic.add64_ok by lia. cbn [bind]. replace (0 + u) with u by lia.
    rewrite NoPanic.mul64_ok by lia. cbn [bind].
    rewrite Hnil. change (it_new 0) with (mkIter (2 * 0) 0 2). rewrite Hrun. cbn [bind].
    rewrite Elast. cbn [bind]. rewrite Ehd, He1. cbn [bind]. rewrite He2. cbn [bind q_extra].
    unfold cs_verify_and_set_signature, parse_signature. rewrite Hsg. cbn [Nat.eqb bind].
    change (Nat.eqb 64 64) with true. cbn [bind].
    unfold cs_signable, cs_tree_hash. cbn [cs_set_fork cs_length cs_fork cs_roots].
    rewrite (vinv_roots cr bs c3 w V3). destruct V3 as (-> & _ & _). rewrite Hver. reflexivity.
  Qed.

  (* Classes A / B for the empty replica: upgrade request {start = 0, length = u}, u <= w *)
  Theorem empty_upgrade_accepted t tf rt rtf w u sg pk :
    lookups cr t tf bs w -> t_length t = w -> t_signature t = Some sg ->
    t_roots rt = [] -> t_length rt = 0 -> t_byte_length rt = 0 ->
    0 < u -> u <= w -> 2 * w <= u64_max ->
    length sg = 64%nat ->
    cr_verify cr pk (signable (tree_hash cr (ref_roots cr bs w)) w (t_fork t)) sg = true ->
    let up := mkDataUpgrade 0 u (root_nodes cr bs u) (addl_nodes cr bs u w) sg in
    exists cs,
      create_valueless_proof t tf None None None (Some (mkReqUpgrade 0 u))
        = Ok (mkVproof (t_fork t) None None None (Some up)) /\
      verify_proof cr rt rtf (mkProof (t_fork t) None None None (Some up)) pk = Ok cs /\
      cs_roots cs = ref_roots cr bs w /\ cs_length cs = w /\ cs_byte_length cs = prefix_size bs w /\
      cs_fork cs = t_fork t /\ cs_upgraded cs = true /\ cs_signature cs = Some sg /\
      cs_hash cs = Some (tree_hash cr (ref_roots cr bs w)) /\ cs_ancestors cs = 0 /\
      Forall (is_ref cr bs) (cs_nodes cs) /\ commitable rt cs = true /\
      tree_commit rt cs = Ok (mkTree (ref_roots cr bs w) w (prefix_size bs w) (t_fork t) (Some sg)
                                (add_nodes (t_unflushed rt) (cs_nodes cs))).
  Proof.
    intros Hlook Hl Hsg Hroots Hrl Hrb Hu Huw H64 Hs64 Hver up.
    pose proof (empty_upgrade_created t tf w u sg Hlook Hl Hsg Hu Huw H64) as Hc. fold up in Hc.
    assert (V : vinv cr bs (tree_changeset rt) 0).
    { unfold vinv, tree_changeset. cbn [cs_length cs_roots cs_byte_length]. rewrite Hroots, Hrl, Hrb, prefix_size_0.
      repeat split. }
    destruct (verify_upgrade_empty (tree_changeset rt) u w (t_fork t) sg pk Hu Huw H64 V) as (c1 & Hvu & V1 & G1 & U1);
      [exact Hroots|exact Hs64|exact Hver|].
    exists (cs_set_hash_sig (cs_set_fork c1 (t_fork t)) (tree_hash cr (ref_roots cr bs w)) sg).
    split; [exact Hc|]. split.
    { unfold verify_proof. cbn [p_block p_hash p_seek p_upgrade p_fork verify_tree bind].
      unfold up. rewrite Hvu. cbn [bind]. reflexivity. }
    pose proof (vinv_roots cr bs c1 w V1) as R1. destruct V1 as (L1 & _ & B1).
    pose proof G1 as (A1 & _ & _ & _ & _ & O1 & O2 & _).
    cbn [tree_changeset cs_ancestors cs_orig_length cs_orig_fork] in A1, O1, O2.
    cbn [cs_set_hash_sig cs_set_fork cs_roots cs_length cs_byte_length cs_fork cs_upgraded cs_signature
         cs_hash cs_ancestors].
    assert (Hn : Forall (is_ref cr bs) (cs_nodes c1)).
    { apply (cs_nodes_grown cr bs (tree_changeset rt) c1 G1). constructor. }
    assert (Hcm : commitable rt (cs_set_hash_sig (cs_set_fork c1 (t_fork t)) (tree_hash cr (ref_roots cr bs w)) sg) = true).
    { unfold commitable. cbn [cs_set_hash_sig cs_set_fork cs_orig_fork cs_orig_length cs_upgraded].
      rewrite O1, O2, U1, !N.eqb_refl. reflexivity. }
    repeat (split; [first [assumption|reflexivity|congruence]|]).
    unfold tree_commit. rewrite Hcm. cbn [negb cs_set_hash_sig cs_set_fork cs_upgraded cs_ancestors cs_orig_length
      cs_roots cs_length cs_byte_length cs_fork cs_signature].
    rewrite U1, A1, O1, Hrl. destruct (N.ltb_spec 0 0) as [L|_]; [lia|].
    rewrite R1, L1, B1. reflexivity.
  Qed.
End EmptyReplica.

(* the toy instance: the empty replica asks for the first 3 of the writer's 5 blocks *)
Example ex_empty_partial_applies :
  map n_index (root_nodes ex_cr ex_blocks 3) = [1; 4] /\ map n_index (addl_nodes ex_cr ex_blocks 3 5) = [6; 8] /\
  exists cs,
    create_valueless_proof ex_wt file_empty None None None (Some (mkReqUpgrade 0 3))
      = Ok (mkVproof (t_fork ex_wt) None None None
              (Some (mkDataUpgrade 0 3 (root_nodes ex_cr ex_blocks 3) (addl_nodes ex_cr ex_blocks 3 5) ex_sg))) /\
    verify_proof ex_cr empty_tree file_empty
      (mkProof (t_fork ex_wt) None None None
         (Some (mkDataUpgrade 0 3 (root_nodes ex_cr ex_blocks 3) (addl_nodes ex_cr ex_blocks 3 5) ex_sg))) ex_key = Ok cs /\
    cs_roots cs = ref_roots ex_cr ex_blocks 5 /\ cs_length cs = 5 /\ commitable empty_tree cs = true.
Proof.
  split; [vm_compute; reflexivity|]. split; [vm_compute; reflexivity|].
  destruct (empty_upgrade_accepted ex_cr ex_blocks ltac:(vm_compute; discriminate)
              ex_wt file_empty empty_tree file_empty 5 3 ex_sg ex_key)
    as (cs & Hc & Hv & R & L & _ & _ & _ & _ & _ & _ & _ & Hcm & _).
  - exact ex_lookups5.
  - vm_compute. reflexivity.
  - vm_compute. reflexivity.
  - reflexivity.
  - reflexivity.
  - reflexivity.
  - lia.
  - lia.
  - vm_compute. discriminate.
  - vm_compute. reflexivity.
  - vm_compute. reflexivity.
  - exists cs. cbv zeta in Hc, Hv. repeat (split; [assumption|]). assumption.
Qed.

Print Assumptions empty_upgrade_created.
Print Assumptions verify_upgrade_empty.
Print Assumptions empty_upgrade_accepted.
Print Assumptions ex_empty_partial_applies.

(* TornReplicaB.v — C07 on replicas, part B: an accepted proof application from a state of RDInvZ:
   the commit step, the flush with its clean and torn cuts, the whole call.  The soundness theorems of SoundCore*
   are used on the completed disk (TornReplicaA.RDInvZ_completed); the real run writes the same operations. *)
From HC Require Import Base NMap Codec CodecFacts Crypto FlatTree Storage Bitfield Oplog Merkle Core.
From HC Require Import FlatTreeFacts StorageFacts BitfieldFacts OplogFacts TreeRef OffsetFacts CoreFacts Crash Refine.
From HC Require Import ClearRefine Reopen ContigBridge Unified1 Unified2 CrashCore1 CrashCore2 CrashClear1.
From HC Require Import Sound NoPanic Replicate SoundCoreLib SoundCore SoundCoreUp SoundCoreBU.
From HC Require Import ReplicaDisk1 ReplicaDisk2 ReplicaDisk3 ReplicaDisk4.
From HC Require Import TornCoreA TornCoreB TornClear TornReplicaA.
From Coq Require Import FMapPositive ZifyN ZifyNat ZifyBool.
Ltac Zify.zify_post_hook ::= Z.div_mod_to_equations.
Arguments N.add : simpl never.
Arguments N.sub : simpl never.
Arguments N.mul : simpl never.
Arguments N.div : simpl never.
Arguments N.modulo : simpl never.
Arguments N.pow : simpl never.
Arguments N.eqb : simpl never.
Arguments N.ltb : simpl never.
Arguments N.leb : simpl never.
Arguments N.max : simpl never.
Arguments N.min : simpl never.
Arguments N.of_nat : simpl never.
Arguments N.to_nat : simpl never.
Arguments N.testbit : simpl never.

(* ====================================================================================== *)
(* A. The run of the commit step does not look at the disk                                  *)
(* ====================================================================================== *)

Section Blind.
  Variable cr : crypto.

  (* log_and_commit from its three ingredients, on any world *)
  Lemma log_and_commit_fwd cs bu c w e h1 o' fr t' :
    entry_of_changeset cs bu (c_header c) = Ok (e, h1) ->
    oplog_append cr (c_oplog c) e = Ok (o', [SW Oplog (ENTRIES_OFFSET + ol_entries_bytes (c_oplog c)) fr]) ->
    tree_commit (c_tree c) cs = Ok t' ->
    log_and_commit cr cs bu c w =
      (mkCore (c_keypair c) o' t' (bu_apply_b (c_bitfield c) bu) (bu_apply_h (c_bitfield c) h1 bu) (c_skip c),
       mkWorld (d_set (w_disk w) Oplog
                  (f_write (d_oplog (w_disk w)) (ENTRIES_OFFSET + ol_entries_bytes (c_oplog c)) fr))
               (SW Oplog (ENTRIES_OFFSET + ol_entries_bytes (c_oplog c)) fr :: w_journal w) (w_events w), Ok tt).
  Proof.
    intros EC OA TC. unfold log_and_commit. rewrite mbind_get_core, mbind_lift, EC. cbv iota beta.
    rewrite mbind_lift, OA. cbv iota beta.
    rewrite mbind_put_oplog, mbind_emit_SW, mbind_put_header.
    cbn [w_disk w_journal w_events c_keypair c_oplog c_tree c_bitfield c_header c_skip d_get].
    destruct bu as [u|].
    - unfold mbind, get_core, put_bitfield, put_header, put_tree, lift.
      cbn [c_keypair c_oplog c_tree c_bitfield c_header c_skip]. rewrite TC. reflexivity.
    - rewrite mbind_ret, mbind_get_core, mbind_lift. cbn [c_tree]. rewrite TC. reflexivity.
  Qed.

  (* the same run on another disk *)
  Lemma log_and_commit_other_disk cs bu c d j ev c2 w2 u0 d' :
    log_and_commit cr cs bu c (mkWorld d j ev) = (c2, w2, Ok u0) ->
    exists fr,
      w2 = mkWorld (d_set d Oplog (f_write (d_oplog d) (ENTRIES_OFFSET + ol_entries_bytes (c_oplog c)) fr))
                   (SW Oplog (ENTRIES_OFFSET + ol_entries_bytes (c_oplog c)) fr :: j) ev /\
      log_and_commit cr cs bu c (mkWorld d' j ev) =
        (c2, mkWorld (d_set d' Oplog (f_write (d_oplog d') (ENTRIES_OFFSET + ol_entries_bytes (c_oplog c)) fr))
                     (SW Oplog (ENTRIES_OFFSET + ol_entries_bytes (c_oplog c)) fr :: j) ev, Ok tt).
  Proof.
    intros H. destruct (log_and_commit_full cr cs bu c _ c2 w2 u0 H) as (e & h1 & o' & fr & t' & EC & OA & TC & -> & ->).
    exists fr. split; [reflexivity|]. apply (log_and_commit_fwd cs bu c (mkWorld d' j ev) e h1 o' fr t' EC OA TC).
  Qed.
End Blind.

(* ====================================================================================== *)
(* B. The commit step from a state of RDInvZ (ReplicaDisk3.RDInv_commit)                   *)
(* ====================================================================================== *)

Lemma add_nodes_none_mono (l : list node) (m : nmap node) j : nm_get j (add_nodes m l) = None -> nm_get j m = None.
Proof.
  intros H. destruct (add_nodes_get l m j) as [(n & _ & _ & G)|[_ G]]; rewrite G in H; [discriminate H|exact H].
Qed.

Section StepZ.
  Variable cr : crypto.
  Hypothesis Hcrc : crc_ok cr.
  Hypothesis Hhash32 : forall x, length (cr_hash cr x) = 32%nat.
  Hypothesis Hnonblank : forall x, all_zero (cr_hash cr x) = false.
  Hypothesis Hhashbytes : forall x, bytes_ok (cr_hash cr x) = true.
  Variable bs : list bytes.
  Hypothesis Hw : writer_fits bs.

  Lemma RDInvZ_commit c d d1 H cs bu j ev c2 w2 u0 :
    RDInvZ cr bs c d H ->
    d_tree d1 = d_tree d -> d_oplog d1 = d_oplog d -> d_bitfield d1 = d_bitfield d ->
    log_and_commit cr cs bu c (mkWorld d1 j ev) = (c2, w2, Ok u0) ->
    RInvZ cr bs c2 (w_disk w2) ->
    let r := t_length (c_tree c) in
    let m := if cs_upgraded cs then cs_length cs else r in
    r <= m -> m <= N.of_nat (length bs) -> Forall (authentic cr bs m) (cs_nodes cs) ->
    (cs_upgraded cs = true -> cs_ancestors cs = r) ->
    (cs_upgraded cs = true ->
     exists sg, cs_signature cs = Some sg /\ length sg = 64%nat /\ bytes_ok sg = true /\
       cs_hash cs = Some (tree_hash cr (cs_roots cs)) /\
       cr_verify cr (kp_public (c_keypair c))
         (signable (tree_hash cr (cs_roots cs)) (cs_length cs) (cs_fork cs)) sg = true) ->
    match bu with Some u => bu_drop u = false /\ bu_length u = 1 | None => True end ->
    RDInvZ cr bs c2 (w_disk w2) (held_after H bu) /\ t_length (c_tree c2) = m /\
    c_keypair c2 = c_keypair c /\
    d_tree (w_disk w2) = d_tree d /\ d_bitfield (w_disk w2) = d_bitfield d /\ d_data (w_disk w2) = d_data d1 /\
    (hyg cr (f_content (d_oplog d)) -> hyg cr (f_content (d_oplog (w_disk w2)))) /\
    (* the entry write, for the analysis of its torn cuts *)
    exists e o' fr, entry_ok e = true /\
      oplog_append cr (c_oplog c) e = Ok (o', [SW Oplog (ENTRIES_OFFSET + ol_entries_bytes (c_oplog c)) fr]) /\
      w2 = mkWorld (d_set d1 Oplog (f_write (d_oplog d1) (ENTRIES_OFFSET + ol_entries_bytes (c_oplog c)) fr))
                   (SW Oplog (ENTRIES_OFFSET + ol_entries_bytes (c_oplog c)) fr :: j) ev.
  Proof.
    intros X Edt Edo Edb Hlc W2 r m Hrm Hmn Hauth Hanc Hsig Hbu.
    pose proof (RDInvZ_keypair cr Hhash32 Hnonblank bs Hw c d H X) as Kc.
    pose proof X as (W & Hb & Hex & Hk & Hs & Htok & s0 & s1 & body & st0 & st1 & hf & l & kf &
                     Hcont & G & Hlen & Hbytes & Hhf & Hh & Hch & Hu & Hst & Hbf & Hsync).
    assert (Hnb : forall i, H i = true -> i < N.of_nat (length bs))
      by (intros i; apply (RDInvZ_held_nb cr bs c d H i X)).
    set (pk := kp_public (c_keypair c)) in *. fold r in Hch.
    destruct (log_and_commit_full cr cs bu c _ c2 w2 u0 Hlc) as (e & h1 & o' & fr & t' & EC & OA & TC & -> & ->).
    cbn [w_disk w_journal w_events] in *.
    destruct (entry_of_changeset_inv cs bu (c_header c) e h1 EC) as (En & Ebu & Hecase).
    destruct (tree_commit_inv (c_tree c) cs t' TC) as (Eu & Htcase).
    cbn [c_tree c_keypair c_bitfield c_header c_oplog w_disk] in W2 |- *.
    set (d2 := d_set d1 Oplog (f_write (d_oplog d1) (ENTRIES_OFFSET + ol_entries_bytes (c_oplog c)) fr)) in *.
    assert (Et2 : d_tree d2 = d_tree d) by (unfold d2; destruct d1 as [f1 f2 f3 f4]; exact Edt).
    assert (Eb2 : d_bitfield d2 = d_bitfield d) by (unfold d2; destruct d1 as [f1 f2 f3 f4]; exact Edb).
    assert (Ed2 : d_data d2 = d_data d1) by (unfold d2; destruct d1 as [f1 f2 f3 f4]; reflexivity).
    assert (Eo2 : d_oplog d2 = f_write (d_oplog d) (ENTRIES_OFFSET + ol_entries_bytes (c_oplog c)) fr)
      by (unfold d2; destruct d1 as [f1 f2 f3 f4]; cbn [d_set d_oplog] in *; rewrite Edo; reflexivity).
    pose proof W2 as (V1 & V2 & V3 & V4 & V5 & V6 & V7 & V8). cbn [c_tree c_bitfield] in V1, V2, V3, V4, V5, V6, V7, V8.
    (* the length after the commit *)
    assert (Em : t_length t' = m).
    { unfold m. destruct Htcase as [(-> & _ & -> & _)|(-> & _ & -> & _)]; reflexivity. }
    rewrite Em in V1, V3, V4, V5, V6, V8.
    (* the entry's upgrade part and the header tree *)
    assert (Hup : match e_upgrade e with
                  | None => m = r
                  | Some u => tu_fork u = 0 /\ tu_length u = m /\ r <= tu_ancestors u /\ tu_ancestors u <= u64_max /\
                              length (tu_signature u) = 64%nat /\ bytes_ok (tu_signature u) = true /\
                              cr_verify cr pk (signable (tree_hash cr (ref_roots cr bs m)) m 0) (tu_signature u) = true
                  end /\
                  h1 = set_tree (c_header c) (ht_step cr bs (hd_tree (c_header c)) e) /\
                  t_signature t' = sig_of (ht_step cr bs (hd_tree (c_header c)) e)).
    { unfold ht_step.
      destruct Hecase as [(Up & -> & ->)|(hash & sg & Up & Hhash & Hsg & -> & ->)].
      - destruct Htcase as [(_ & _ & _ & _ & _ & Ts)|(Up' & _)]; [|rewrite Up in Up'; discriminate Up'].
        unfold m. rewrite Up. split; [reflexivity|]. split; [symmetry; apply set_tree_id|]. rewrite Ts. exact Hs.
      - destruct Htcase as [(Up' & _)|(_ & Tr & Tl & _ & Tf & Ts & _)]; [rewrite Up in Up'; discriminate Up'|].
        destruct (Hsig Up) as (sg' & Hsg' & L64 & Bok & Hh' & Hver).
        rewrite Hsg in Hsg'. injection Hsg' as <-. rewrite Hhash in Hh'. injection Hh' as ->.
        assert (Ecl : cs_length cs = m) by (unfold m; rewrite Up; reflexivity).
        assert (Ecr : cs_roots cs = ref_roots cr bs m) by (rewrite <- Tr; exact V3).
        assert (Ecf : cs_fork cs = 0) by (rewrite <- Tf; exact V2).
        cbn [tu_fork tu_length tu_ancestors tu_signature]. rewrite Ecl, Ecr, Ecf, (Hanc Up) in *.
        split.
        { repeat split; try assumption; try lia. pose proof (len_bs_u64 bs Hw). lia. }
        split; [reflexivity|]. rewrite Ts, Hsg. symmetry. apply sig_of_64, L64. }
    destruct Hup as (Hup & Eh1 & Esig).
    (* the unflushed map *)
    assert (Eu' : t_unflushed t' = add_nodes nm_empty (flat_map e_nodes l ++ e_nodes e)).
    { rewrite Eu, Hu, En, add_nodes_app. reflexivity. }
    (* the bitfield update *)
    assert (Hbu' : match e_bitfield e with
                   | None => True
                   | Some u => bu_drop u = false /\ bu_length u = 1 /\ bu_start u < m
                   end).
    { rewrite Ebu. destruct bu as [u|]; [|exact I]. destruct Hbu as [B1 B2]. split; [exact B1|]. split; [exact B2|].
      apply (V8 (bu_start u)). cbn [bu_apply_b]. rewrite bf_get_apply, B1, B2.
      destruct (N.leb_spec (bu_start u) (bu_start u)) as [_|L]; [|lia].
      destruct (N.ltb_spec (bu_start u) (bu_start u + 1)) as [_|L]; [reflexivity|lia]. }
    (* the entry is described *)
    assert (Hdesc : rdesc cr bs pk (d_tree d) (flat_map e_nodes l) r e m).
    { split; [exact Hrm|]. split; [exact Hmn|]. split; [rewrite En; exact Hauth|]. split; [|exact Hbu'].
      destruct (e_upgrade e) as [u|]; [|exact Hup].
      destruct Hup as (A1 & A2 & A3 & A3' & A4 & A5 & A6). repeat (split; [assumption|]).
      intros x Hx. rewrite <- (V7 x); [|rewrite V3; exact Hx].
      rewrite Et2. apply required_node_same_unflushed. cbn [tU t_unflushed]. symmetry. exact Eu'. }
    (* the entry is well formed *)
    assert (Hok : entry_ok e = true).
    { unfold entry_ok. rewrite En.
      assert (N1 : nodes_ok (cs_nodes cs) = true).
      { unfold nodes_ok. apply andb_true_intro. split.
        - apply fits_u64_intro. pose proof (appended_nodes_count cr _ _ _ _ OA) as Hc. rewrite En in Hc.
          unfold u64_max. lia.
        - apply forallb_forall. intros x Hx. rewrite Forall_forall in Hauth.
          apply (node_ok_authentic cr bs m x Hhash32 Hhashbytes Hw Hmn (Hauth x Hx)). }
      rewrite N1. cbn [andb]. pose proof (len_bs_u64 bs Hw) as L64.
      assert (U1 : match e_upgrade e with
                   | Some u => fits_u64 (tu_fork u) && fits_u64 (tu_ancestors u) && fits_u64 (tu_length u) &&
                               buffer_ok (tu_signature u)
                   | None => true
                   end = true).
      { destruct (e_upgrade e) as [u|]; [|reflexivity].
        destruct Hup as (A1 & A2 & A3 & A3' & A4 & A5 & A6). rewrite A1, A2.
        rewrite (fits_u64_intro 0) by (unfold u64_max; lia).
        rewrite (fits_u64_intro (tu_ancestors u)) by exact A3'.
        rewrite (fits_u64_intro m) by lia. cbn [andb].
        apply buffer_ok_intro; [unfold len; rewrite A4; unfold u64_max; lia|exact A5]. }
      rewrite U1. cbn [andb].
      destruct (e_bitfield e) as [u|]; [|reflexivity]. destruct Hbu' as (_ & B2 & B3).
      rewrite B2, (fits_u64_intro (bu_start u)) by lia. reflexivity. }
    (* the oplog store *)
    assert (Eol : c_oplog c = oo_oplog (stable_result (ol_bits (c_oplog c)) hf l)).
    { cbn [stable_result oo_oplog]. destruct (c_oplog c) as [bits el eb].
      cbn [ol_bits ol_entries_len ol_entries_bytes] in *. rewrite Hlen, Hbytes. reflexivity. }
    assert (OA' : oplog_append cr (oo_oplog (stable_result (ol_bits (c_oplog c)) hf l)) e =
                  Ok (o', [SW Oplog (ENTRIES_OFFSET + ol_entries_bytes (c_oplog c)) fr]))
      by (rewrite <- Eol; exact OA).
    destruct (append_crash cr Hcrc s0 s1 body st0 st1 _ hf l e o' _ G Hok OA')
      as (fr' & Eops & _ & Cw & G' & _ & Eo' & _).
    injection Eops as Eoff <-.
    (* the held set *)
    assert (HbH : forall i, bf_get (bu_apply_b (c_bitfield c) bu) i = held_after H bu i).
    { intros i. destruct bu as [u|]; cbn [bu_apply_b held_after]; [|apply Hb].
      rewrite bf_get_apply_fun. apply upd_fun_ext, Hb. }
    assert (Hnb' : forall i, held_after H bu i = true -> i < N.of_nat (length bs)).
    { intros i Hi. rewrite <- HbH in Hi. destruct (V8 i Hi) as (L & _). lia. }
    (* the header *)
    set (hfin := bu_apply_h (c_bitfield c) h1 bu).
    assert (Ehfin : hfin = hdr_after cr bs hf (l ++ [e]) (hd_contig hfin)).
    { assert (E1 : hfin = set_contig h1 (hd_contig hfin)).
      { unfold hfin. destruct bu as [u|]; cbn [bu_apply_h]; [reflexivity|]. symmetry. apply set_contig_id. }
      rewrite E1 at 1. rewrite Eh1. rewrite Hh at 1 2. apply hdr_after_snoc'. }
    assert (Etree : hd_tree hfin = ht_step cr bs (hd_tree (c_header c)) e).
    { unfold hfin. rewrite Eh1. destruct bu; reflexivity. }
    assert (Ekp : hd_keypair hfin = hd_keypair (c_header c)).
    { unfold hfin. rewrite Eh1. destruct bu; reflexivity. }
    assert (Hexfin : fexact (held_after H bu) (hd_contig hfin)).
    { unfold hfin. destruct bu as [u|]; cbn [bu_apply_h held_after set_contig hd_contig].
      - apply (fexact_ext (bf_get (bf_apply (c_bitfield c) u))).
        + intros i. rewrite bf_get_apply_fun. apply upd_fun_ext, Hb.
        + apply exact_contig_fexact. apply update_contig_exact; [|destruct Hbu as [_ ->]; lia].
          apply exact_contig_fexact. rewrite Eh1. cbn [set_tree hd_contig].
          apply (fexact_ext H); [intros i; symmetry; apply Hb|exact Hex].
      - rewrite Eh1. exact Hex. }
    destruct (good_slot_lengths cr _ _ _ _ _ _ _ _ G) as [L0s L1s].
    split; [|split; [exact Em|split; [reflexivity|split; [exact Et2|split; [exact Eb2|split; [exact Ed2|split]]]]]].
    - unfold RDInvZ. cbv zeta. cbn [c_tree c_keypair c_bitfield c_header c_oplog].
      split; [exact W2|]. split; [exact HbH|]. split; [exact Hexfin|].
      split; [rewrite Ekp; exact Hk|]. split; [rewrite Etree; exact Esig|].
      split; [rewrite Et2; exact Htok|].
      fold pk. rewrite Em.
      exists s0, s1, (body ++ fr), st0, st1, hf, (l ++ [e]), kf.
      split; [rewrite Eo2, f_content_write, Hcont, Eoff; exact Cw|].
      split; [rewrite Eo'; exact G'|].
      split; [rewrite Eo'; reflexivity|]. split; [rewrite Eo'; reflexivity|].
      split; [exact Hhf|]. split; [exact Ehfin|].
      split; [rewrite Et2; apply (rchain_snoc cr bs pk (d_tree d) l [] kf r e m Hch); exact Hdesc|].
      split; [rewrite flat_map_snoc; exact Eu'|].
      split; [rewrite Et2; exact Hst|].
      split.
      { rewrite Eb2, updates_of_app. unfold updates_of at 2. cbn [flat_map]. rewrite Ebu, app_nil_r.
        destruct bu as [u|]; cbn [held_after].
        - apply (BfR_snoc _ _ _ u _ H); [exact Hnb|exact Hnb'|exact Hbf|reflexivity].
        - rewrite app_nil_r. exact Hbf. }
      rewrite Eb2. destruct bu as [u|]; cbn [bu_apply_b]; [apply BfSyncZ_apply|]; exact Hsync.
    - rewrite Eo2, f_content_write, Hcont, Eoff, Cw. intros Hh0. apply (hyg_body cr s0 s1 body (body ++ fr) L0s L1s Hh0).
    - exists e, o', fr. split; [exact Hok|]. split; [exact OA|reflexivity].
  Qed.
End StepZ.

(* ====================================================================================== *)
(* C. The flush decision from a state of RDInvZ: result, clean cuts, torn cuts              *)
(* ====================================================================================== *)

Section FlushRZ.
  Variable cr : crypto.
  Hypothesis Hcrc : crc_ok cr.
  Hypothesis Hhash32 : forall x, length (cr_hash cr x) = 32%nat.
  Hypothesis Hnonblank : forall x, all_zero (cr_hash cr x) = false.
  Hypothesis Hhashbytes : forall x, bytes_ok (cr_hash cr x) = true.
  Variable bs : list bytes.
  Hypothesis Hw : writer_fits bs.

  (* what a torn cut of the flush group leaves: a replica disk of the same held set and length — or, for the header
     slot write only, a CRC collision; the slot write needs the side condition tear_safe *)
  Definition QFR (pk : bytes) (H : N -> bool) (r : N) (dk : disk) (o : sop) (t : nat) (dkt : disk) : Prop :=
    tear_safe cr dk o t -> RDiskZ cr bs pk dkt H r \/ (is_slot_write o = true /\ Crash.collision cr t).

  Lemma maybe_flush_RZ f c d j ev H :
    RDInvZ cr bs c d H ->
    exists c' d' fl,
      maybe_flush cr f c (mkWorld d j ev) = (c', mkWorld d' (rev fl ++ j) ev, Ok tt) /\
      apply_sops d fl = Some d' /\ RDInvZ cr bs c' d' H /\
      t_length (c_tree c') = t_length (c_tree c) /\ c_keypair c' = c_keypair c /\
      (f = Some true -> hyg cr (f_content (d_oplog d'))) /\
      cuts_ok d fl (fun dk => RDiskZ cr bs (kp_public (c_keypair c)) dk H (t_length (c_tree c)) /\
                              (hyg cr (f_content (d_oplog d)) -> hyg cr (f_content (d_oplog dk)))) /\
      tcuts d fl (QFR (kp_public (c_keypair c)) H (t_length (c_tree c))).
  Proof.
    intros X.
    pose proof (RDInvZ_RDiskZ cr bs c d H X) as XD.
    unfold maybe_flush. rewrite mbind_get_core.
    match goal with |- context [if ?b then _ else _] => destruct b eqn:Edec end.
    2:{ exists (mkCore (c_keypair c) (c_oplog c) (c_tree c) (c_bitfield c) (c_header c) (c_skip c - 1)), d, [].
        split; [reflexivity|]. split; [reflexivity|]. split; [apply RDInvZ_skip, X|]. split; [reflexivity|].
        split; [reflexivity|]. split; [intros ->; discriminate Edec|].
        split; [apply cuts_nil; split; [exact XD|intros Hh; exact Hh]|apply tcuts_nil]. }
    rewrite mbind_put_skip.
    set (c1 := mkCore (c_keypair c) (c_oplog c) (c_tree c) (c_bitfield c) (c_header c) 3) in *.
    destruct (RDInvZ_completed cr Hhash32 Hnonblank bs Hw c d H X) as (dv & Xv & Edv & Eov & Etv & Hveq & Hmv & Hfiv).
    destruct (RDInv_header cr Hhash32 Hnonblank Hhashbytes bs Hw c dv H Xv) as (Hrep & Hfits).
    pose proof X as (W & Hb & Hex & Hk & Hs & Htok & s0 & s1 & body & st0 & st1 & hf & l & kf &
                     Hcont & G & Hlen & Hbytes & Hhf & Hh & Hch & Hu & Hst & Hbf & Hsync).
    pose proof W as (W1 & W2 & W3 & W4 & W5 & (W6 & W6') & W7 & W8).
    assert (Hnb : forall i, H i = true -> i < N.of_nat (length bs))
      by (intros i; apply (RDInvZ_held_nb cr bs c d H i X)).
    set (pk := kp_public (c_keypair c)) in *. set (r := t_length (c_tree c)) in *.
    destruct Hw as [Hw1 Hw2].
    assert (Hun : unflushed_ok (c_tree c1)) by (apply (unfl_sound_ok cr Hhash32 bs (c_tree c) r Hw1), W5).
    destruct (flush_all_run cr Hhash32 Hnonblank c1 (mkWorld d j ev) Hun Hfits) as (o' & oops & d3 & OF & A & E).
    destruct (flush_all_run cr Hhash32 Hnonblank c1 (mkWorld dv j ev) Hun Hfits) as (o'' & oops' & d3v & OF' & Av & Ev).
    cbn [w_disk w_journal w_events c1 c_oplog c_keypair c_header c_bitfield c_tree c_skip] in OF, A, E, OF', Av, Ev.
    cbv zeta in A, E, Av, Ev. rewrite OF in OF'. injection OF' as <- <-.
    set (b := c_bitfield c) in *. set (t := c_tree c) in *. set (ws := unflushed_nodes t) in *.
    set (fl := page_ops b (bf_dirty b) ++ map node_write ws ++ oops) in *.
    set (c' := mkCore (c_keypair c) o' (mkTree (t_roots t) (t_length t) (t_byte_length t) (t_fork t) (t_signature t) nm_empty)
                      (mkBf (bf_bits b) []) (c_header c) 3) in *.
    exists c', d3, fl.
    split; [exact E|]. split; [exact A|].
    (* the oplog step *)
    destruct Hrep as (Hhok & Hkp & Hd).
    pose proof G as (H0 & H1 & Hchs & Hf & Hoks).
    unfold oplog_flush in OF. apply bind_ok in OF as ([bits1 ops1] & Hins & OF). injection OF as <- <-.
    destruct (header_write_step cr s0 s1 st0 st1 _ hf (c_header c) 0 false bits1 ops1 H0 H1 Hchs Hhok Hfits Hins)
      as (fr & pad & Hfr & Hl & _ & -> & -> & Hwr & st0' & st1' & S0 & S1 & Hch' & Hcb).
    set (bits := ol_bits (c_oplog c)) in *.
    set (s0' := put0 (w_slot bits) (fr ++ pad) s0) in *. set (s1' := put1 (w_slot bits) (fr ++ pad) s1) in *.
    assert (L0 : length s0 = SLOT) by (destruct st0; apply H0).
    assert (L1 : length s1 = SLOT) by (destruct st1; apply H1).
    (* the disks *)
    set (fb := write_pages (d_bitfield d) (bf_bits b) (bf_dirty b)).
    set (ft := write_nodes (d_tree d) ws).
    set (fo1 := f_write (d_oplog d) (w_slot bits) (fr ++ pad)).
    set (fo2 := f_truncate fo1 (ENTRIES_OFFSET + 0)).
    assert (Ed3 : d3 = mkDisk ft (d_data d) fb fo2).
    { unfold fl, page_ops in A.
      rewrite CoreFacts.apply_sops_app, apply_page_writes, CoreFacts.apply_sops_app, apply_node_writes in A.
      cbn [apply_sops apply_sop d_get d_set d_tree d_oplog] in A. injection A as <-. reflexivity. }
    assert (Ed3v : d_tree d3v = write_nodes ft ws /\ d_data d3v = d_data d).
    { unfold fl, page_ops in Av.
      rewrite CoreFacts.apply_sops_app, apply_page_writes, CoreFacts.apply_sops_app, apply_node_writes in Av.
      cbn [apply_sops apply_sop d_get d_set d_tree d_oplog] in Av. injection Av as <-.
      cbn [d_tree d_data]. rewrite Etv, Edv. split; reflexivity. }
    destruct Ed3v as [Et3v Edd3v].
    (* the unflushed nodes are the writer's and list the unflushed map *)
    pose proof (covers_unflushed t Hun) as Hcov.
    assert (Hws : auth_list cr bs r ws) by (apply (covers_auth cr bs t r ws W5 Hcov)).
    pose proof (auth_list_32 cr Hhash32 bs r ws Hws) as H32.
    assert (Hshadow : forall v, In v ws -> nm_get (n_index v) (t_unflushed t) <> None).
    { intros v Hv. destruct Hcov as [C1 _]. rewrite (C1 v Hv). discriminate. }
    (* the completed store is sound, hence aligned *)
    destruct (complete_store cr Hhash32 Hnonblank bs Hw1 t (d_tree d) r ws W5 Hcov W6 W6') as [Fsv _].
    fold ft in Fsv.
    (* after the flush the real store holds what the completed store holds *)
    assert (Vfin : forall q, fget ft q = fget (write_nodes ft ws) q).
    { intros q. destruct (nm_get q (t_unflushed t)) as [n|] eqn:Gq.
      - destruct Hcov as [_ C2]. pose proof (C2 q n Gq) as Hn.
        destruct (W5 _ _ Gq) as [En _]. assert (Ei : n_index n = q) by (rewrite En; apply ref_at_index_id).
        rewrite <- Ei. unfold ft.
        rewrite (fget_write_nodes_in cr Hhash32 Hnonblank bs Hw1 ws _ r n Hws Hn).
        rewrite (fget_write_nodes_in cr Hhash32 Hnonblank bs Hw1 ws _ r n Hws Hn). reflexivity.
      - symmetry. apply fget_write_nodes_other; [exact H32| |apply (file_sound_rec_ok cr bs ft r q Fsv)].
        intros v Hv Ev0. destruct Hcov as [C1 _]. rewrite <- Ev0, (C1 v Hv) in Gq. discriminate Gq. }
    (* the final state *)
    assert (Wfin : RInvZ cr bs c' d3).
    { assert (Emf : maybe_flush cr (Some true) c (mkWorld dv j ev) =
                    (c', mkWorld d3v (rev fl ++ j) ev, Ok tt)).
      { unfold maybe_flush. rewrite mbind_get_core. cbv iota. rewrite mbind_put_skip. exact Ev. }
      pose proof (RInv_flush cr Hhash32 Hnonblank bs (conj Hw1 Hw2) (Some true) c dv j ev _ _ tt (RDInv_RInv cr bs c dv H Xv) Emf)
        as Wv. cbn [w_disk] in Wv.
      apply (RInv_RInvZ_veq cr bs c' d3 d3v Wv).
      - rewrite Edd3v, Ed3. reflexivity.
      - rewrite Et3v, Ed3. cbn [d_tree c' c_tree t_unflushed]. intros q _. apply Vfin.
      - rewrite Ed3. cbn [d_tree c' c_tree t_unflushed]. intros q _. apply (file_sound_rec_ok cr bs ft r q Fsv). }
    assert (Tokft : TreeOk ft) by (apply TreeOk_write_nodes; assumption).
    destruct (BfSyncZ_flush (d_bitfield d) b Hsync) as [Ffb Rfb]. fold fb in Ffb, Rfb.
    assert (BX : BfR (N.of_nat (length bs)) fb [] (hd_contig (c_header c)) H).
    { apply BfR_exact; [exact Hnb|intros i; rewrite Ffb; apply Hb|intros i; rewrite Rfb; apply Hb|exact Hex]. }
    assert (Fst : store_roots cr bs ft r).
    { destruct Wfin as (_ & _ & V3 & _ & _ & _ & V7 & _). rewrite Ed3 in V7. cbn [c' c_tree t_roots t_length d_tree] in V3, V7.
      intros x Hx. fold r in V3. rewrite <- V3 in Hx. specialize (V7 x Hx).
      apply required_node_store_inv in V7; [exact V7|reflexivity]. }
    assert (FT : RTreeZ cr bs (rtree cr bs r None []) ft (d_data d) H).
    { unfold RInvZ in Wfin. rewrite Ed3 in Wfin. cbn [c' c_tree c_bitfield d_tree d_data] in Wfin.
      refine (RTreeZ_ext cr bs _ _ _ _ _ H _ _ _ _ _ _ Wfin); cbn [rtree t_roots t_length t_byte_length t_fork t_unflushed];
        try reflexivity.
      - symmetry. exact W3.
      - symmetry. exact W4.
      - symmetry. exact W2.
      - intros i. unfold bf_get. cbn [bf_bits]. symmetry. apply Hb. }
    assert (Hcont3 : f_content fo2 = s0' ++ s1' ++ []).
    { unfold fo2, fo1. rewrite f_content_truncate, f_content_write, Hcont, Hwr, N.add_0_r.
      apply c_truncate_all_entries; [destruct st0'; apply S0|destruct st1'; apply S1]. }
    assert (Xfin : RDInvZ cr bs c' d3 H).
    { split; [exact Wfin|]. rewrite Ed3.
      cbn [c' c_tree c_keypair c_bitfield c_header c_oplog d_tree d_oplog d_bitfield t_length t_signature t_unflushed].
      split; [intros i; unfold bf_get; cbn [bf_bits]; apply Hb|].
      split; [exact Hex|]. split; [exact Hk|]. split; [exact Hs|]. split; [exact Tokft|].
      exists s0', s1', [], st0', st1', (c_header c), [], r.
      split; [exact Hcont3|].
      split. { split; [exact S0|]. split; [exact S1|]. split; [exact Hch'|]. split; reflexivity. }
      split; [reflexivity|]. split; [reflexivity|].
      split; [split; [exact Hhok|split; [exact Hkp|exact Hd]]|].
      split; [symmetry; apply hdr_after_nil|].
      split; [reflexivity|]. split; [reflexivity|]. split; [exact Fst|]. split; [exact BX|].
      intros i Hne. exfalso. change (bf_get b i <> rbit fb i \/ bf_get b i <> fbit fb i) in Hne.
      rewrite Rfb, Ffb in Hne. destruct Hne as [Hne|Hne]; apply Hne; reflexivity. }
    split; [exact Xfin|]. split; [reflexivity|]. split; [reflexivity|].
    split.
    { intros _. rewrite Ed3. cbn [d_oplog]. rewrite Hcont3.
      apply (hyg_full_write cr Hcrc s0 s1 st0 st1 bits hf [] (c_header c) fr pad H0 H1 Hchs Hfr Hl). }
    (* the tree of the pending entries over the store under partial flushes *)
    assert (TT : RTreeZ cr bs (rtree cr bs r None (flat_map e_nodes l)) (d_tree d) (d_data d) H).
    { apply (RTreeZ_ext cr bs t _ _ _ (bf_get b) H); try reflexivity.
      - cbn [rtree t_roots]. exact (eq_sym W3).
      - cbn [rtree t_byte_length]. exact (eq_sym W4).
      - cbn [rtree t_fork]. exact (eq_sym W2).
      - cbn [rtree t_unflushed]. symmetry. exact Hu.
      - intros i. symmetry. apply Hb.
      - exact W. }
    (* disks that still carry the old oplog and data *)
    assert (Old : forall dk, d_data dk = d_data d -> d_oplog dk = d_oplog d ->
                  TreeOk (d_tree dk) -> rchain cr bs pk (d_tree dk) [] kf l r -> store_roots cr bs (d_tree dk) kf ->
                  veq (t_unflushed t) (d_tree dk) (d_tree d) -> tail_ok (t_unflushed t) (d_tree dk) ->
                  BfR (N.of_nat (length bs)) (d_bitfield dk) (updates_of l) (hd_contig hf) H ->
                  RDiskZ cr bs pk dk H r).
    { intros dk Edd Eo Hok' Hchk Hst' Hv' Htl' Hbf'. split; [exact Hok'|].
      exists s0, s1, body, st0, st1, bits, hf, l, kf. rewrite Edd, Eo.
      split; [exact Hcont|]. split; [left; exact G|]. split; [exact Hhf|]. split; [exact Hchk|].
      split; [exact Hst'|]. split; [|exact Hbf'].
      apply (RTreeZ_veq cr bs _ (d_tree d)); [exact TT| |]; cbn [rtree t_unflushed]; rewrite <- Hu; assumption. }
    assert (OldW : forall ws' fbk, (forall v, In v ws' -> In v ws) ->
                   BfR (N.of_nat (length bs)) fbk (updates_of l) (hd_contig hf) H ->
                   RDiskZ cr bs pk (mkDisk (write_nodes (d_tree d) ws') (d_data d) fbk (d_oplog d)) H r).
    { intros ws' fbk Hsub Hbk.
      assert (Hws' : auth_list cr bs r ws') by (intros v Hv; apply Hws, Hsub, Hv).
      destruct (veq_write_nodes (t_unflushed t) (d_tree d) ws') as [Hv' Htl'];
        [intros v Hv; apply Hshadow, Hsub, Hv|intros v Hv; apply H32, Hsub, Hv|exact W6'|].
      apply Old; cbn [d_data d_oplog d_tree d_bitfield]; try reflexivity; try assumption.
      - apply TreeOk_write_nodes; [exact Htok|]. intros v Hv. apply H32, Hsub, Hv.
      - apply (rchain_write_nodes cr Hhash32 Hnonblank bs Hw1 pk _ r); assumption.
      - apply (store_roots_write_nodes cr Hhash32 bs Hw1 _ _ r); assumption. }
    (* the disk after the slot write: new header, the entries of the previous epoch still there *)
    assert (New : forall x0 x1 y0 y1,
                  slot_is cr x0 y0 -> slot_is cr x1 y1 -> choose y0 y1 = Some (w_bits bits, c_header c) ->
                  forall fo, f_content fo = x0 ++ x1 ++ body ->
                  RDiskZ cr bs pk (mkDisk ft (d_data d) fb fo) H r).
    { intros x0 x1 y0 y1 Y0 Y1 Ych fo Efo. split; [exact Tokft|].
      exists x0, x1, body, y0, y1, (w_bits bits), (c_header c), [], r.
      cbn [d_data d_oplog d_tree d_bitfield flat_map updates_of].
      split; [exact Efo|].
      split. { right. split; [reflexivity|]. split; [exact Y0|]. split; [exact Y1|]. split; [exact Ych|].
               exists (current_bit bits), l. split; [apply w_bits_current|exact Hf]. }
      split; [split; [exact Hhok|split; [exact Hkp|exact Hd]]|]. split; [reflexivity|].
      split; [exact Fst|]. split; [exact FT|exact BX]. }
    assert (Efo1 : f_content fo1 = s0' ++ s1' ++ body) by (unfold fo1; rewrite f_content_write, Hcont; apply Hwr).
    assert (Mid : RDiskZ cr bs pk (mkDisk ft (d_data d) fb fo1) H r)
      by (apply (New s0' s1' st0' st1' S0 S1 Hch' fo1 Efo1)).
    split.
    { (* the clean cuts *)
      unfold fl.
      apply (cuts_app d _ _ _ (d_set d Bitfield fb)).
      { intros k. unfold page_ops. rewrite firstn_map, apply_page_writes. eexists. split; [reflexivity|].
        split; [|intros Hh0; destruct d; exact Hh0].
        replace (d_set d Bitfield (write_pages (d_bitfield d) (bf_bits b) (firstn k (bf_dirty b))))
          with (mkDisk (write_nodes (d_tree d) []) (d_data d) (write_pages (d_bitfield d) (bf_bits b) (firstn k (bf_dirty b)))
                       (d_oplog d)) by (destruct d; reflexivity).
        apply OldW; [intros v []|apply BfR_write_pages; assumption]. }
      { unfold page_ops. apply apply_page_writes. }
      apply (cuts_app _ _ _ _ (d_set (d_set d Bitfield fb) Tree ft)).
      { intros k. rewrite firstn_map, apply_node_writes. eexists. split; [reflexivity|].
        split; [|intros Hh0; destruct d; exact Hh0].
        replace (d_set (d_set d Bitfield fb) Tree (write_nodes (d_tree (d_set d Bitfield fb)) (firstn k ws)))
          with (mkDisk (write_nodes (d_tree d) (firstn k ws)) (d_data d) fb (d_oplog d)) by (destruct d; reflexivity).
        apply OldW; [intros v Hv; eapply in_firstn; exact Hv|apply BfR_write_pages; assumption]. }
      { apply apply_node_writes. }
      intros k. destruct k as [|[|k]].
      - eexists. split; [reflexivity|]. split; [|intros Hh0; destruct d; exact Hh0].
        replace (d_set (d_set d Bitfield fb) Tree ft) with (mkDisk (write_nodes (d_tree d) ws) (d_data d) fb (d_oplog d))
          by (destruct d; reflexivity).
        apply OldW; [intros v Hv; exact Hv|apply BfR_write_pages; assumption].
      - eexists. split; [reflexivity|]. destruct d as [f1 f2 f3 f4]. split; [exact Mid|].
        change (hyg cr (f_content f4) -> hyg cr (f_content fo1)). cbn [d_oplog] in *.
        rewrite Efo1, Hcont. intros Hh0.
        apply (hyg_header_write cr Hcrc s0 s1 body body bits (c_header c) fr pad L0 L1 Hfr Hl Hh0).
      - cbn [firstn]. rewrite firstn_nil. eexists. split; [reflexivity|].
        pose proof (RDInvZ_RDiskZ cr bs _ _ H Xfin) as XDf. cbn [c' c_keypair c_tree t_length] in XDf.
        rewrite Ed3 in XDf. destruct d as [f1 f2 f3 f4]. split; [exact XDf|].
        change (hyg cr (f_content f4) -> hyg cr (f_content fo2)). cbn [d_oplog] in *.
        rewrite Hcont3, Hcont. intros Hh0.
        apply (hyg_header_write cr Hcrc s0 s1 body [] bits (c_header c) fr pad L0 L1 Hfr Hl Hh0). }
    (* the torn cuts *)
    unfold fl.
    apply (tcuts_app d _ _ _ (d_set d Bitfield fb)).
    { (* a torn page write *)
      intros k o tt Hnk Htt. unfold page_ops in Hnk. rewrite nth_error_map in Hnk.
      destruct (nth_error (bf_dirty b) k) as [p|] eqn:Ep; [|discriminate Hnk]. cbn [option_map] in Hnk. injection Hnk as <-.
      unfold page_ops. rewrite firstn_map, apply_page_writes.
      eexists. eexists. split; [reflexivity|]. split; [reflexivity|]. intros _. left.
      match goal with |- RDiskZ _ _ _ ?dd _ _ =>
        replace dd with (mkDisk (write_nodes (d_tree d) []) (d_data d)
                           (f_write (write_pages (d_bitfield d) (bf_bits b) (firstn k (bf_dirty b))) (p * PAGE_BYTES)
                                    (firstn tt (page_bytes (bf_bits b) p))) (d_oplog d))
          by (destruct d; reflexivity)
      end.
      apply OldW; [intros v []|].
      apply (BfR_write_image _ _ _ _ b); [exact Hnb|apply BfR_write_pages; assumption|exact Hb|].
      apply mem_image_firstn, mem_image_page. }
    { unfold page_ops. apply apply_page_writes. }
    apply (tcuts_app _ _ _ _ (d_set (d_set d Bitfield fb) Tree ft)).
    { (* a torn node write *)
      intros k o tt Hnk Htt. rewrite nth_error_map in Hnk.
      destruct (nth_error ws k) as [v|] eqn:Ev0; [|discriminate Hnk]. cbn [option_map] in Hnk. injection Hnk as <-.
      rewrite firstn_map, apply_node_writes.
      eexists. eexists. split; [reflexivity|]. split; [reflexivity|]. intros _. left.
      assert (Hv0 : In v ws) by (eapply nth_error_In; exact Ev0).
      assert (Hsub : forall x, In x (firstn k ws) -> In x ws) by (intros x Hx; eapply in_firstn; exact Hx).
      set (tfk := write_nodes (d_tree d) (firstn k ws)).
      match goal with |- RDiskZ _ _ _ ?dd _ _ =>
        replace dd with (mkDisk (f_write tfk (NODE_SIZE * n_index v) (firstn tt (node_to_bytes v))) (d_data d) fb (d_oplog d))
          by (destruct d; reflexivity)
      end.
      assert (Hwsk : auth_list cr bs r (firstn k ws)) by (intros x Hx; apply Hws, Hsub, Hx).
      destruct (veq_write_nodes (t_unflushed t) (d_tree d) (firstn k ws)) as [Hvk Htlk];
        [intros x Hx; apply Hshadow, Hsub, Hx|intros x Hx; apply H32, Hsub, Hx|exact W6'|]. fold tfk in Hvk, Htlk.
      destruct (veq_torn_node (t_unflushed t) tfk v tt (Hshadow v Hv0) (H32 v Hv0) Htlk) as [Hvt Htlt].
      assert (Tokk : TreeOk tfk) by (apply TreeOk_write_nodes; [exact Htok|intros x Hx; apply H32, Hsub, Hx]).
      apply Old; cbn [d_data d_oplog d_tree d_bitfield]; try reflexivity.
      - apply TreeOk_node_write; [exact Tokk|apply H32, Hv0].
      - apply (rchain_torn_node cr Hhash32 bs pk tfk r v tt _ _ _ _ (Hws v Hv0) Tokk).
        apply (rchain_write_nodes cr Hhash32 Hnonblank bs Hw1 pk _ r); assumption.
      - apply (store_roots_torn_node cr Hhash32 bs tfk kf r v tt (Hws v Hv0) Tokk).
        apply (store_roots_write_nodes cr Hhash32 bs Hw1 _ _ r); assumption.
      - apply (veq_trans _ _ tfk); assumption.
      - exact Htlt.
      - apply BfR_write_pages; assumption. }
    { apply apply_node_writes. }
    set (d2 := d_set (d_set d Bitfield fb) Tree ft).
    assert (Ed2 : d2 = mkDisk ft (d_data d) fb (d_oplog d)) by (destruct d as [xt xd xb xo]; reflexivity).
    apply (tcuts_cons d2 _ _ _ (mkDisk ft (d_data d) fb fo1)).
    { (* the torn slot write *)
      intros tt Htt. cbn [wlen] in Htt. eexists. split; [reflexivity|]. intros Hsafe.
      rewrite Ed2 in Hsafe |- *. cbn [tear_safe d_oplog f_content] in Hsafe.
      cbn [tear apply_sop d_get d_set d_tree d_data d_bitfield d_oplog].
      assert (Hdead : (tt <= 4)%nat -> (if w_slot bits =? 0 then st0 else st1) = SInvalid ->
                      slot_dead cr (if w_slot bits =? 0 then s0 else s1)).
      { intros H4 Hinv. rewrite Hcont, (slot_at_w s0 s1 body bits L0 L1) in Hsafe. apply Hsafe; [|exact H4|].
        - apply w_slot_cases.
        - destruct (w_slot bits =? 0); [rewrite Hinv in H0; apply H0|rewrite Hinv in H1; apply H1]. }
      destruct (torn_slot_outcomes cr Hcrc s0 s1 body st0 st1 bits hf l (c_header c) fr pad tt G Hhok Hfr Hl Htt Hdead)
        as [Hcw [(x0 & x1 & Gt)|[(x0 & x1 & T0 & T1 & Tch)|C]]].
      - (* before: the old header and its entries, pages and nodes flushed *)
        left. split; [exact Tokft|].
        do 2 eexists. exists body, x0, x1, bits, hf, l, kf. cbn [d_data d_oplog d_tree d_bitfield].
        split; [rewrite f_content_write, Hcont; exact Hcw|].
        split; [left; exact Gt|]. split; [exact Hhf|].
        split; [apply (rchain_write_nodes cr Hhash32 Hnonblank bs Hw1 pk _ r); assumption|].
        split; [apply (store_roots_write_nodes cr Hhash32 bs Hw1 _ _ r); assumption|].
        split; [|apply BfR_write_pages; assumption].
        destruct (veq_write_nodes (t_unflushed t) (d_tree d) ws Hshadow H32 W6') as [Hv' Htl'].
        apply (RTreeZ_veq cr bs _ (d_tree d)); [exact TT| |]; cbn [rtree t_unflushed]; rewrite <- Hu; assumption.
      - (* after *)
        left. apply (New _ _ x0 x1 T0 T1 Tch). rewrite f_content_write, Hcont. exact Hcw.
      - right. split; [|exact C]. cbn [is_slot_write]. destruct (w_slot_cases bits) as [-> | ->]; reflexivity. }
    { rewrite Ed2. reflexivity. }
    apply (tcuts_cons _ _ _ _ (mkDisk ft (d_data d) fb fo2)); [|reflexivity|apply tcuts_nil].
    intros tt _. eexists. split; [reflexivity|]. intros _. left.
    pose proof (RDInvZ_RDiskZ cr bs _ _ H Xfin) as XDf. cbn [c' c_keypair c_tree t_length] in XDf.
    rewrite Ed3 in XDf. exact XDf.
  Qed.
End FlushRZ.

(* ====================================================================================== *)
(* D. Pieces of the proof application: the data write, the entry write                      *)
(* ====================================================================================== *)

(* a read that gives x before a write and after it gives x after any prefix of the write *)
Lemma f_read_torn_write df off v t p n x :
  f_read df p n = Some x -> f_read (f_write df off v) p n = Some x ->
  f_read (f_write df off (firstn t v)) p n = Some x.
Proof.
  intros R0 R1. apply f_read_spec in R0 as (B0 & L0 & N0). apply f_read_spec in R1 as (B1 & L1 & N1).
  apply f_read_spec. rewrite f_write_len. split; [lia|]. split; [exact L0|].
  intros k Hk. specialize (N0 k Hk). specialize (N1 k Hk). rewrite f_write_byte in N1 |- *.
  assert (Lf : len (firstn t v) <= len v) by (unfold len; rewrite firstn_length; lia).
  destruct (N.leb_spec off (p + k)) as [A|A]; cbn [andb].
  - destruct (N.ltb_spec (p + k) (off + len (firstn t v))) as [C|C].
    + destruct (N.ltb_spec (p + k) (off + len v)) as [D|D]; [|lia].
      rewrite N1. unfold len in C. rewrite firstn_length in C. rewrite nth_firstn_lt by lia. reflexivity.
    + destruct (N.leb_spec (f_len df) (p + k)) as [E|E]; [lia|]. cbn [andb]. exact N0.
  - destruct (N.leb_spec (f_len df) (p + k)) as [E|E]; [lia|]. cbn [andb]. exact N0.
Qed.

Section PiecesZ.
  Variable cr : crypto.
  Hypothesis Hcrc : crc_ok cr.
  Hypothesis Hhash32 : forall x, length (cr_hash cr x) = 32%nat.
  Hypothesis Hnonblank : forall x, all_zero (cr_hash cr x) = false.
  Hypothesis Hhashbytes : forall x, bytes_ok (cr_hash cr x) = true.
  Variable bs : list bytes.
  Hypothesis Hw : writer_fits bs.

  (* the block part on another disk with the same lookups *)
  Lemma block_part_other_disk pf c d dv cs j ev c1 w1 bu :
    same_lookups (c_tree c) (d_tree d) (d_tree dv) ->
    block_part pf c d cs c (mkWorld d j ev) = (c1, w1, Ok bu) ->
    exists pre d1 dv1,
      ((p_block pf = None /\ pre = []) \/
       (exists b off, p_block pf = Some b /\ pre = [SW Data off (db_value b)] /\
                      d_data d1 = f_write (d_data d) off (db_value b))) /\
      apply_sops d pre = Some d1 /\ apply_sops dv pre = Some dv1 /\
      w1 = mkWorld d1 (rev pre ++ j) ev /\
      block_part pf c dv cs c (mkWorld dv j ev) = (c1, mkWorld dv1 (rev pre ++ j) ev, Ok bu) /\
      d_tree d1 = d_tree d /\ d_oplog d1 = d_oplog d /\ d_bitfield d1 = d_bitfield d /\
      d_tree dv1 = d_tree dv /\ d_oplog dv1 = d_oplog dv /\ d_bitfield dv1 = d_bitfield dv /\
      (d_data dv = d_data d -> d_data dv1 = d_data d1).
  Proof.
    intros Hs. unfold block_part. destruct (p_block pf) as [b|].
    - rewrite !mbind_lift, (byte_offset_in_changeset_ext (c_tree c) _ _ Hs).
      destruct (byte_offset_in_changeset (c_tree c) (d_tree dv) (db_index b) cs) as [off| | |]; try discriminate.
      rewrite !mbind_emit_SW. unfold ret. cbn [w_disk w_journal w_events]. intros E. injection E as <- <- <-.
      exists [SW Data off (db_value b)]. do 2 eexists.
      split; [right; exists b, off; split; [reflexivity|split; [reflexivity|]]|].
      2:{ split; [reflexivity|]. split; [reflexivity|]. split; [reflexivity|]. split; [reflexivity|].
          destruct d as [a1 a2 a3 a4], dv as [b1 b2 b3 b4]. cbn [d_get d_set d_tree d_oplog d_bitfield d_data].
          repeat (split; [reflexivity|]). intros ->. reflexivity. }
      destruct d; reflexivity.
    - unfold ret. intros E. injection E as <- <- <-. exists [], d, dv.
      split; [left; split; reflexivity|]. repeat (split; [reflexivity|]). intros E. exact E.
  Qed.

  (* only the data store differs, and every held block is still readable *)
  Lemma RDiskZ_data pk d d1 H r :
    RDiskZ cr bs pk d H r ->
    d_tree d1 = d_tree d -> d_oplog d1 = d_oplog d -> d_bitfield d1 = d_bitfield d ->
    (forall i, H i = true -> len (blk bs i) <> 0 ->
               f_read (d_data d1) (prefix_size bs i) (len (blk bs i)) = Some (blk bs i)) ->
    RDiskZ cr bs pk d1 H r.
  Proof.
    intros (Hok & s0 & s1 & body & st0 & st1 & bits & hf & l & kf & Hcont & HO & Hhf & Hch & Hst & HT & Hbf) Et Eo Eb Hd.
    split; [rewrite Et; exact Hok|].
    exists s0, s1, body, st0, st1, bits, hf, l, kf. rewrite Et, Eo, Eb.
    repeat (split; [assumption|]). split; [|exact Hbf].
    destruct HT as (H1 & H2 & H3 & H4 & H5 & H6 & H7 & H8).
    repeat (split; [assumption|]).
    intros i Hi. destruct (H8 i Hi) as (A1 & A2 & A3 & _).
    split; [exact A1|]. split; [exact A2|]. split; [exact A3|]. apply Hd, Hi.
  Qed.

  (* the entry write torn after t bytes: open ignores the partial frame and cuts it off; the state before *)
  Lemma torn_entry_recovers_R c d d1 H e o' fr t :
    RDInvZ cr bs c d H -> entry_ok e = true ->
    oplog_append cr (c_oplog c) e = Ok (o', [SW Oplog (ENTRIES_OFFSET + ol_entries_bytes (c_oplog c)) fr]) ->
    (t < length fr)%nat ->
    d_tree d1 = d_tree d -> d_bitfield d1 = d_bitfield d -> d_oplog d1 = d_oplog d ->
    (forall i, H i = true -> len (blk bs i) <> 0 ->
               f_read (d_data d1) (prefix_size bs i) (len (blk bs i)) = Some (blk bs i)) ->
    recoversR cr bs (kp_public (c_keypair c))
      (d_set d1 Oplog (f_write (d_oplog d1) (ENTRIES_OFFSET + ol_entries_bytes (c_oplog c)) (firstn t fr)))
      H (t_length (c_tree c)).
  Proof.
    intros X Hok OA Ht Et Eb Eo Hd1.
    pose proof (RDiskZ_data _ d d1 H _ (RDInvZ_RDiskZ cr bs c d H X) Et Eo Eb Hd1) as XD1.
    pose proof X as (W & Hb & Hex & Hk & Hs & Htok & s0 & s1 & body & st0 & st1 & hf & l & kf &
                     Hcont & G & Hlen & Hbytes & Hhf & Hh & Hch & Hu & Hst & Hbf & Hsync).
    set (off := ENTRIES_OFFSET + ol_entries_bytes (c_oplog c)) in *.
    assert (Eol : c_oplog c = oo_oplog (stable_result (ol_bits (c_oplog c)) hf l)).
    { cbn [stable_result oo_oplog]. destruct (c_oplog c) as [bits el eb]. cbn [ol_bits ol_entries_len ol_entries_bytes] in *.
      rewrite Hlen, Hbytes. reflexivity. }
    assert (OA' : oplog_append cr (oo_oplog (stable_result (ol_bits (c_oplog c)) hf l)) e = Ok (o', [SW Oplog off fr]))
      by (rewrite <- Eol; exact OA).
    destruct (append_crash cr Hcrc s0 s1 body st0 st1 _ hf l e o' _ G Hok OA')
      as (fr' & Eops & _ & _ & _ & _ & _ & Torn).
    injection Eops as Eoff <-.
    destruct (Torn t Ht) as [To Tc].
    destruct (good_slot_lengths cr _ _ _ _ _ _ _ _ G) as [L0s L1s].
    set (d1t := d_set d1 Oplog (f_write (d_oplog d1) off (firstn t fr))).
    assert (Dt : d_tree d1t = d_tree d) by (rewrite <- Et; destruct d1; reflexivity).
    assert (Dd : d_data d1t = d_data d1) by (destruct d1; reflexivity).
    assert (Db : d_bitfield d1t = d_bitfield d) by (rewrite <- Eb; destruct d1; reflexivity).
    assert (Do : d_oplog d1t = f_write (d_oplog d) off (firstn t fr)) by (rewrite <- Eo; destruct d1; reflexivity).
    assert (Ec : f_content (d_oplog d1t) = c_write (s0 ++ s1 ++ body) (len (s0 ++ s1 ++ body)) (firstn t fr)).
    { rewrite Do, f_content_write, Hcont, Eoff. reflexivity. }
    rewrite <- Ec in To. cbn [stable_result oo_oplog] in To.
    (* the tree of the pending entries, over the data store of d1 *)
    assert (TT : RTreeZ cr bs (rtree cr bs (t_length (c_tree c)) None (flat_map e_nodes l)) (d_tree d) (d_data d1) H).
    { destruct XD1 as (_ & t0 & t1 & tbody & tst0 & tst1 & tbits & thf & tl & tkf & Tcont & TO & Thf & Tch & Tst & TT & Tbf).
      pose proof W as (W1 & W2 & W3 & W4 & W5 & W6 & W7 & W8).
      split; [exact W1|]. split; [reflexivity|]. split; [reflexivity|]. split; [reflexivity|].
      assert (Rq : forall q, required_node (rtree cr bs (t_length (c_tree c)) None (flat_map e_nodes l)) (d_tree d) q =
                             required_node (c_tree c) (d_tree d) q).
      { intros q. apply required_node_same_unflushed. cbn [rtree t_unflushed]. symmetry. exact Hu. }
      cbn [rtree t_length t_roots t_unflushed]. rewrite <- Hu.
      split. { intros q nd Gq. cbn [rtree t_unflushed] in Gq. rewrite <- Hu in Gq. apply (W5 q nd Gq). }
      split; [exact W6|]. split. { intros x Hx. rewrite Rq. apply W7. rewrite W3. exact Hx. }
      intros i Hi. rewrite <- Hb in Hi. destruct (W8 i Hi) as (A1 & A2 & A3 & _).
      split; [exact A1|]. split; [rewrite Rq; exact A2|]. split.
      - intros dd o C1 C2 C3. rewrite Rq. apply A3; assumption.
      - apply Hd1. rewrite <- Hb. exact Hi. }
    destruct (N.ltb_spec 0 (N.of_nat t)) as [Lt|Lt].
    - set (d1r := d_set d1t Oplog (f_truncate (d_oplog d1t) (len (s0 ++ s1 ++ body)))).
      apply (reopen_after_repair_R cr Hhash32 Hnonblank Hhashbytes bs _ d1t d1r H _ s0 s1 body st0 st1 _ hf l kf _ To);
        try (destruct d1t; reflexivity); try (rewrite ?Dt, ?Dd, ?Db; assumption).
      + replace (d_oplog d1r) with (f_truncate (d_oplog d1t) (len (s0 ++ s1 ++ body))) by (destruct d1t; reflexivity).
        rewrite f_content_truncate, Ec. exact Tc.
      + replace (d_oplog d1r) with (f_truncate (d_oplog d1t) (len (s0 ++ s1 ++ body))) by (destruct d1t; reflexivity).
        rewrite f_content_truncate, Ec, Tc, c_write_end, <- !app_assoc.
        apply (hyg_body cr s0 s1 (body ++ firstn t fr) body L0s L1s).
    - assert (t = 0%nat) as -> by lia.
      apply (reopen_after_repair_R cr Hhash32 Hnonblank Hhashbytes bs _ d1t d1t H _ s0 s1 body st0 st1 _ hf l kf _ To);
        try reflexivity; try (rewrite ?Dt, ?Dd, ?Db; assumption); [|intros Hh0; exact Hh0].
      rewrite Ec. cbn [firstn]. rewrite c_write_end, app_nil_r. reflexivity.
  Qed.
End PiecesZ.

(* ====================================================================================== *)
(* E. An accepted proof application from a state of RDInvZ: result, clean cuts, torn cuts   *)
(* ====================================================================================== *)

Section ApplyZ.
  Variable cr : crypto.
  Hypothesis Hcrc : crc_ok cr.
  Hypothesis Hhash32 : forall x, length (cr_hash cr x) = 32%nat.
  Hypothesis Hnonblank : forall x, all_zero (cr_hash cr x) = false.
  Hypothesis Hhashbytes : forall x, bytes_ok (cr_hash cr x) = true.
  Variable bs : list bytes.
  Hypothesis Hw : writer_fits bs.

  (* The journal of an accepted application is [optional data write; entry write; optional flush group].  The
     final state satisfies RDInvZ for the new held set and length; every clean cut leaves a replica disk of the
     state before (k <= commit point) or after it; every write torn at every byte leaves a disk that reopens to
     the state before or after — the header slot write: or a CRC collision, under tear_safe. *)
  Theorem apply_Z f pf c d j ev H c' w' :
    RDInvZ cr bs c d H -> rd_proof_ok pf ->
    core_apply_proof cr f pf c (mkWorld d j ev) = (c', w', Ok true) ->
    (let pk := kp_public (c_keypair c) in
     let H' := hold H (p_block pf) in
     let r := t_length (c_tree c) in
     let r' := t_length (c_tree c') in
     exists delta,
       w_journal w' = rev delta ++ j /\
       apply_sops d delta = Some (w_disk w') /\
       RDInvZ cr bs c' (w_disk w') H' /\ c_keypair c' = c_keypair c /\
       r <= r' /\ (p_upgrade pf = None -> r' = r) /\
       (f = Some true -> hyg cr (f_content (d_oplog (w_disk w')))) /\
       (exists pre off fr fl, delta = pre ++ SW Oplog off fr :: fl /\ length pre = commit_point pf /\
                              (forall o, In o pre -> sop_store o = Data)) /\
       (forall k, exists dk,
          apply_sops d (firstn k delta) = Some dk /\
          (if (k <=? commit_point pf)%nat then RDiskZ cr bs pk dk H r else RDiskZ cr bs pk dk H' r') /\
          (hyg cr (f_content (d_oplog d)) -> hyg cr (f_content (d_oplog dk)))) /\
       (forall k o t, nth_error delta k = Some o -> (t < wlen o)%nat ->
          exists dk dkt,
            apply_sops d (firstn k delta) = Some dk /\ apply_sop dk (tear o t) = Some dkt /\
            (tear_safe cr dk o t ->
             (if (k <=? commit_point pf)%nat then recoversR cr bs pk dkt H r else recoversR cr bs pk dkt H' r') \/
             (is_slot_write o = true /\ Crash.collision cr t)))) \/
    some_collision cr \/ forged_signature cr bs (kp_public (c_keypair c)).
  Proof.
    intros X [Hok Hsb] Happ.
    destruct (RDInvZ_completed cr Hhash32 Hnonblank bs Hw c d H X) as (dv & Xv & Edv & Eov & Etv & Hveq & Hmv & Hfiv).
    pose proof (RDInv_RInv cr bs c dv H Xv) as Wv.
    pose proof (veq_same_lookups (c_tree c) _ _ Hveq) as Hsl.
    pose proof (RDInvZ_RDiskZ cr bs c d H X) as XD.
    pose proof X as (W & Hb & _).
    pose proof W as (_ & _ & _ & _ & _ & (_ & W6') & _ & W8).
    destruct (accepted_gates cr _ _ _ _ _ _ Happ) as (cs & Ef & V & Cm & Ht).
    apply apply_tail_inv_j in Ht. destruct Ht as (bu & c1 & w1 & c2 & w2 & w3 & Hbu & Hlc & Hmf & Hd3 & Hj3).
    cbn [w_disk] in Hbu.
    pose proof V as V0. unfold verifier_says in V0. cbn [w_disk] in V0.
    assert (V0v : verify_proof cr (c_tree c) (d_tree dv) pf (kp_public (c_keypair c)) = Ok cs)
      by (rewrite <- (verify_proof_ext _ _ _ Hsl); exact V0).
    destruct (accepted_changeset_nodes cr Hhash32 Hnonblank bs Hw c dv pf cs Wv Hok V0v)
      as [(Hrm & Hmn & Hauth & Hanc)|[C|F]]; [|right; left; exact C|right; right; exact F].
    (* the block part, on the real and on the completed disk *)
    destruct (block_part_other_disk pf c d dv cs j ev c1 w1 bu Hsl Hbu)
      as (pre & d1 & dv1 & Hpre & A1 & A1v & Ew1 & Hbu_v & Et1 & Eo1 & Eb1 & Et1v & Eo1v & Eb1v & Edd1).
    specialize (Edd1 Edv). subst w1.
    destruct (block_part_inv pf c _ cs c _ c1 _ bu Hbu) as (-> & _ & _ & _ & Ebu & _).
    (* the commit, on both *)
    destruct (log_and_commit_other_disk cr cs bu c d1 (rev pre ++ j) ev c2 w2 tt dv1 Hlc) as (fr & Ew2 & Hlc_v).
    set (off := ENTRIES_OFFSET + ol_entries_bytes (c_oplog c)) in *.
    set (d2 := d_set d1 Oplog (f_write (d_oplog d1) off fr)) in *.
    set (d2v := d_set dv1 Oplog (f_write (d_oplog dv1) off fr)) in *.
    (* the completed run without a flush ends in a state of SoundCore.RInv *)
    destruct (apply_without_flush cr pf c (mkWorld dv j ev) cs bu c _ c2 _ Ef V0v Cm Hbu_v Hlc_v) as (w2' & Hrun & Ed2).
    destruct (apply_keeps_replica_consistent_block_upgrade cr Hhash32 Hnonblank bs Hw (Some false) pf c dv j ev _ w2'
                Wv Hok Hrun) as [W2|[C|F]]; [|right; left; exact C|right; right; exact F].
    rewrite Ed2 in W2. cbn [w_disk] in W2.
    assert (W2v : SoundCore.RInv cr bs c2 d2v)
      by (apply (RInv_ext cr bs _ c2 _ d2v) in W2; try reflexivity; exact W2).
    (* hence the real state satisfies RInvZ *)
    destruct (log_and_commit_full cr cs bu c _ c2 _ tt Hlc) as (e0 & h0 & o0 & fr0 & t' & _ & _ & TC & Ec2 & _).
    destruct (tree_commit_inv (c_tree c) cs t' TC) as (Eu2 & _).
    assert (Eu2' : t_unflushed (c_tree c2) = add_nodes (t_unflushed (c_tree c)) (cs_nodes cs))
      by (rewrite Ec2; exact Eu2).
    assert (Dt2 : d_tree d2 = d_tree d) by (unfold d2; destruct d1; exact Et1).
    assert (Dt2v : d_tree d2v = d_tree dv) by (unfold d2v; destruct dv1; exact Et1v).
    assert (Dd2 : d_data d2 = d_data d1) by (unfold d2; destruct d1; reflexivity).
    assert (Dd2v : d_data d2v = d_data dv1) by (unfold d2v; destruct dv1; reflexivity).
    assert (W2r : RInvZ cr bs c2 d2).
    { apply (RInv_RInvZ_veq cr bs c2 d2 d2v W2v).
      - rewrite Dd2v, Dd2. exact Edd1.
      - rewrite Dt2, Dt2v, Eu2'. apply (veq_mono (t_unflushed (c_tree c))); [apply add_nodes_none_mono|exact Hveq].
      - rewrite Dt2, Eu2'. intros q Gq. apply W6', (add_nodes_none_mono _ _ _ Gq). }
    (* the signature of an upgraded changeset *)
    assert (Hsig : cs_upgraded cs = true ->
                   exists sg, cs_signature cs = Some sg /\ length sg = 64%nat /\ bytes_ok sg = true /\
                     cs_hash cs = Some (tree_hash cr (cs_roots cs)) /\
                     cr_verify cr (kp_public (c_keypair c))
                       (signable (tree_hash cr (cs_roots cs)) (cs_length cs) (cs_fork cs)) sg = true).
    { intros Up. destruct Hok as (Hh & Hs & _).
      destruct (p_upgrade pf) as [u|] eqn:Eu.
      - destruct (verify_proof_upgrade_sig cr _ _ pf _ cs u Eu V0) as (L & S & Hh' & Hv & _).
        exists (du_signature u). repeat split; assumption.
      - rewrite (verify_proof_no_upgrade cr _ _ pf _ cs Eu Hh Hs V0) in Up. discriminate Up. }
    assert (Hbus : match bu with Some u => bu_drop u = false /\ bu_length u = 1 | None => True end).
    { rewrite Ebu. destruct (p_block pf); [split; reflexivity|exact I]. }
    rewrite Ew2 in Hlc.
    destruct (RDInvZ_commit cr Hcrc Hhash32 Hnonblank Hhashbytes bs Hw c d d1 H cs bu (rev pre ++ j) ev c2 _ tt
                X Et1 Eo1 Eb1 Hlc W2r Hrm Hmn Hauth Hanc Hsig Hbus)
      as (X2 & Em & Ek2 & _ & _ & _ & Hh2 & e & o' & fr' & Heok & OA & Ew2').
    cbn [w_disk] in X2, Hh2. fold off in OA, Ew2'. injection Ew2' as _ Efr. subst fr'.
    (* the flush decision *)
    destruct (maybe_flush_RZ cr Hcrc Hhash32 Hnonblank Hhashbytes bs Hw f c2 d2 (SW Oplog off fr :: rev pre ++ j) ev _ X2)
      as (c3 & d3 & fl & Emf & Afl & X3 & El3 & Ek3 & Hh3 & C3 & T3).
    rewrite Ew2, Emf in Hmf. injection Hmf as Ec3 Ew3. subst c3 w3.
    cbn [w_disk w_journal] in Hd3, Hj3.
    (* the held set *)
    assert (EH : forall i, hold H (p_block pf) i = held_after H bu i).
    { intros i. unfold hold, held_after. rewrite Ebu. destruct (p_block pf) as [b|]; [|reflexivity].
      unfold upd_fun. cbn [bu_start bu_length bu_drop negb].
      destruct (N.eqb_spec i (db_index b)) as [->|Ne].
      - destruct (N.leb_spec (db_index b) (db_index b)) as [_|L]; [|lia].
        destruct (N.ltb_spec (db_index b) (db_index b + 1)) as [_|L]; [reflexivity|lia].
      - destruct ((db_index b <=? i) && (i <? db_index b + 1)) eqn:E; [lia|reflexivity]. }
    assert (Xfin : RDInvZ cr bs c' d3 (hold H (p_block pf))) by (apply (RDInvZ_ext cr bs c' d3 _ _ EH), X3).
    (* every held block is readable from the data store after the data write *)
    assert (Hd1 : forall i, H i = true -> len (blk bs i) <> 0 ->
                    f_read (d_data d1) (prefix_size bs i) (len (blk bs i)) = Some (blk bs i)).
    { intros i Hi Hlen.
      destruct W2r as (_ & _ & _ & _ & _ & _ & _ & V8).
      assert (Hi2 : bf_get (c_bitfield c2) i = true).
      { destruct X2 as (_ & Hb2 & _). rewrite Hb2. unfold held_after. destruct bu as [u|]; [|exact Hi].
        unfold upd_fun. destruct Hbus as [-> _]. cbn [negb].
        destruct ((bu_start u <=? i) && (i <? bu_start u + bu_length u)); [reflexivity|exact Hi]. }
      destruct (V8 i Hi2) as (_ & _ & _ & A4). rewrite <- Dd2. apply A4, Hlen. }
    assert (Hd0 : forall i, H i = true -> len (blk bs i) <> 0 ->
                    f_read (d_data d) (prefix_size bs i) (len (blk bs i)) = Some (blk bs i)).
    { intros i Hi Hlen. rewrite <- Hb in Hi. apply (W8 i Hi), Hlen. }
    assert (Before1 : RDiskZ cr bs (kp_public (c_keypair c)) d1 H (t_length (c_tree c)))
      by (apply (RDiskZ_data cr bs _ d d1 H _ XD Et1 Eo1 Eb1 Hd1)).
    assert (A2 : apply_sop d1 (SW Oplog off fr) = Some d2) by reflexivity.
    (* the cuts from the entry write on *)
    assert (After : forall k, exists dk, apply_sops d2 (firstn k fl) = Some dk /\
                     RDiskZ cr bs (kp_public (c_keypair c)) dk (hold H (p_block pf)) (t_length (c_tree c')) /\
                     (hyg cr (f_content (d_oplog d)) -> hyg cr (f_content (d_oplog dk)))).
    { intros k. destruct (C3 k) as (dk & Ak & Pk & Hk). exists dk. split; [exact Ak|]. split.
      - rewrite El3, <- Ek2. apply (RDiskZ_ext cr bs _ dk _ _ _ EH), Pk.
      - intros Hh0. apply Hk, Hh2, Hh0. }
    assert (TornAfter : forall k o t, nth_error fl k = Some o -> (t < wlen o)%nat ->
              exists dk dkt, apply_sops d2 (firstn k fl) = Some dk /\ apply_sop dk (tear o t) = Some dkt /\
                (tear_safe cr dk o t ->
                 recoversR cr bs (kp_public (c_keypair c)) dkt (hold H (p_block pf)) (t_length (c_tree c')) \/
                 (is_slot_write o = true /\ Crash.collision cr t))).
    { intros k o t Hk Ht. destruct (T3 k o t Hk ltac:(lia)) as (dk & dkt & Ak & At & Q).
      exists dk, dkt. split; [exact Ak|]. split; [exact At|]. intros Hsafe.
      destruct (Q Hsafe) as [Yd|Cl]; [left|right; exact Cl].
      apply (RDiskZ_recovers cr Hcrc Hhash32 Hnonblank Hhashbytes bs).
      rewrite El3, <- Ek2. apply (RDiskZ_ext cr bs _ dkt _ _ _ EH), Yd. }
    (* the torn entry write *)
    assert (TornE : forall t, (t < length fr)%nat ->
              recoversR cr bs (kp_public (c_keypair c))
                (d_set d1 Oplog (f_write (d_oplog d1) off (firstn t fr))) H (t_length (c_tree c))).
    { intros t Ht.
      apply (torn_entry_recovers_R cr Hcrc Hhash32 Hnonblank Hhashbytes bs c d d1 H e o' fr t X Heok OA Ht Et1 Eb1 Eo1 Hd1). }
    left. cbv zeta.
    exists (pre ++ SW Oplog off fr :: fl).
    split. { rewrite Hj3. rewrite rev_app_distr. cbn [rev]. rewrite <- !app_assoc. reflexivity. }
    split. { rewrite CoreFacts.apply_sops_app, A1. cbn [apply_sops]. rewrite A2, Hd3. exact Afl. }
    split; [rewrite Hd3; exact Xfin|]. split; [rewrite Ek3; exact Ek2|].
    split; [rewrite El3, Em; exact Hrm|].
    split.
    { intros Eu. destruct Hok as (Hh & Hs & _). rewrite El3, Em.
      rewrite (verify_proof_no_upgrade cr _ _ pf _ cs Eu Hh Hs V0). reflexivity. }
    split; [rewrite Hd3; exact Hh3|].
    unfold commit_point.
    destruct Hpre as [(Epb & ->)|(b & off0 & Epb & -> & Edata1)]; rewrite Epb in *.
    - (* without a block: entry write, flush group *)
      cbn [apply_sops] in A1. injection A1 as <-.
      split. { exists [], off, fr, fl. split; [reflexivity|]. split; [reflexivity|intros o []]. }
      split.
      + intros [|k].
        * exists d. split; [reflexivity|]. split; [exact XD|intros Hh0; exact Hh0].
        * destruct (After k) as (dk & Ak & Pk & Hk). exists dk.
          split; [cbn [app firstn apply_sops]; rewrite A2; exact Ak|]. split; [exact Pk|exact Hk].
      + intros [|k] o t Hk Ht.
        * cbn [app nth_error] in Hk. injection Hk as <-. cbn [wlen] in Ht.
          exists d. eexists. split; [reflexivity|]. split; [reflexivity|]. intros _. left.
          cbn [Nat.leb]. apply TornE, Ht.
        * cbn [app nth_error] in Hk. destruct (TornAfter k o t Hk Ht) as (dk & dkt & Ak & At & Q).
          exists dk, dkt. split; [cbn [app firstn apply_sops]; rewrite A2; exact Ak|]. split; [exact At|exact Q].
    - (* with a block: data write, entry write, flush group *)
      assert (A1' : apply_sop d (SW Data off0 (db_value b)) = Some d1).
      { cbn [apply_sops] in A1. destruct (apply_sop d (SW Data off0 (db_value b))); [exact A1|discriminate A1]. }
      split. { exists [SW Data off0 (db_value b)], off, fr, fl. split; [reflexivity|]. split; [reflexivity|].
               intros o [<-|[]]; reflexivity. }
      split.
      + intros [|[|k]].
        * exists d. split; [reflexivity|]. split; [exact XD|intros Hh0; exact Hh0].
        * exists d1. split; [cbn [app firstn apply_sops]; rewrite A1'; reflexivity|]. split; [exact Before1|].
          rewrite Eo1. intros Hh0; exact Hh0.
        * destruct (After k) as (dk & Ak & Pk & Hk). exists dk.
          split; [cbn [app firstn apply_sops]; rewrite A1', A2; exact Ak|]. split; [exact Pk|exact Hk].
      + intros [|[|k]] o t Hk Ht.
        * (* the torn data write: bytes of a block that is not held, or the same bytes again *)
          cbn [app nth_error] in Hk. injection Hk as <-. cbn [wlen] in Ht.
          exists d. eexists. split; [reflexivity|]. split; [reflexivity|]. intros _. left. cbn [Nat.leb].
          apply (RDiskZ_recovers cr Hcrc Hhash32 Hnonblank Hhashbytes bs).
          apply (RDiskZ_data cr bs _ d _ H _ XD); try (destruct d; reflexivity).
          intros i Hi Hlen.
          replace (d_data (d_set d Data (f_write (d_get d Data) off0 (firstn t (db_value b)))))
            with (f_write (d_data d) off0 (firstn t (db_value b))) by (destruct d; reflexivity).
          apply f_read_torn_write; [apply Hd0; assumption|]. rewrite <- Edata1. apply Hd1; assumption.
        * cbn [app nth_error] in Hk. injection Hk as <-. cbn [wlen] in Ht.
          exists d1. eexists. split; [cbn [app firstn apply_sops]; rewrite A1'; reflexivity|]. split; [reflexivity|].
          intros _. left. cbn [Nat.leb]. apply TornE, Ht.
        * cbn [app nth_error] in Hk. destruct (TornAfter k o t Hk Ht) as (dk & dkt & Ak & At & Q).
          exists dk, dkt. split; [cbn [app firstn apply_sops]; rewrite A1', A2; exact Ak|]. split; [exact At|exact Q].
  Qed.
End ApplyZ.

Print Assumptions log_and_commit_other_disk.
Print Assumptions RDInvZ_commit.
Print Assumptions maybe_flush_RZ.
Print Assumptions torn_entry_recovers_R.
Print Assumptions apply_Z.

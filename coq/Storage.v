(* Storage.v — the four byte files, storage operations and their semantics.
   Mirrors: src/storage/mod.rs (flush_infos / read_infos) over the file semantics of
   random-access-memory 3.0.0 (write extends with zeros, read/del out of bounds fail,
   del reaching the end truncates, truncate grows with zeros). *)
From HC Require Export Base NMap.

Inductive store := Tree | Data | Bitfield | Oplog.

(* Bytes at keys >= f_len may be stale; every growth clears the newly exposed range first. *)
Record file := mkFile { f_len : N; f_map : nmap N }.
Definition file_empty : file := mkFile 0 nm_empty.

Definition f_byte (f : file) (i : N) : N :=
  match nm_get i (f_map f) with Some b => b | None => 0 end.

Fixpoint nrange (off : N) (n : nat) : list N :=
  match n with O => [] | S k => off :: nrange (off + 1) k end.

Definition f_content (f : file) : bytes := map (f_byte f) (nrange 0 (N.to_nat (f_len f))).

Definition f_read (f : file) (off n : N) : option bytes :=
  if off + n <=? f_len f then Some (map (f_byte f) (nrange off (N.to_nat n))) else None.

Fixpoint m_clear (m : nmap N) (off : N) (n : nat) : nmap N :=
  match n with O => m | S k => m_clear (nm_del off m) (off + 1) k end.

Fixpoint m_write (m : nmap N) (off : N) (data : bytes) : nmap N :=
  match data with [] => m | b :: r => m_write (nm_set off b m) (off + 1) r end.

Definition f_grow (f : file) (n : N) : file :=
  if f_len f <? n then mkFile n (m_clear (f_map f) (f_len f) (N.to_nat (n - f_len f))) else f.

Definition f_write (f : file) (off : N) (data : bytes) : file :=
  let f' := f_grow f (off + len data) in mkFile (f_len f') (m_write (f_map f') off data).

Definition f_truncate (f : file) (n : N) : file :=
  if n <? f_len f then mkFile n (f_map f) else f_grow f n.

(* None = RandomAccessError::OutOfBounds *)
Definition f_del (f : file) (off n : N) : option file :=
  if f_len f <? off then None
  else if n =? 0 then Some f
  else if f_len f <=? off + n then Some (f_truncate f off)
  else Some (mkFile (f_len f) (m_clear (f_map f) off (N.to_nat n))).

Record disk := mkDisk { d_tree : file; d_data : file; d_bitfield : file; d_oplog : file }.
Definition disk_empty : disk := mkDisk file_empty file_empty file_empty file_empty.

Definition d_get (d : disk) (s : store) : file :=
  match s with Tree => d_tree d | Data => d_data d | Bitfield => d_bitfield d | Oplog => d_oplog d end.

Definition d_set (d : disk) (s : store) (f : file) : disk :=
  match s with
  | Tree => mkDisk f (d_data d) (d_bitfield d) (d_oplog d)
  | Data => mkDisk (d_tree d) f (d_bitfield d) (d_oplog d)
  | Bitfield => mkDisk (d_tree d) (d_data d) f (d_oplog d)
  | Oplog => mkDisk (d_tree d) (d_data d) (d_bitfield d) f
  end.

(* mutating storage operations, as journalled *)
Inductive sop :=
| SW (s : store) (off : N) (data : bytes)
| SD (s : store) (off n : N)
| ST (s : store) (n : N).

(* None = the backend reports OutOfBounds (only del can) *)
Definition apply_sop (d : disk) (o : sop) : option disk :=
  match o with
  | SW s off data => Some (d_set d s (f_write (d_get d s) off data))
  | SD s off n => match f_del (d_get d s) off n with
                  | Some f => Some (d_set d s f)
                  | None => None
                  end
  | ST s n => Some (d_set d s (f_truncate (d_get d s) n))
  end.

Fixpoint apply_sops (d : disk) (l : list sop) : option disk :=
  match l with
  | [] => Some d
  | o :: r => match apply_sop d o with Some d' => apply_sops d' r | None => None end
  end.

(* a torn write: only the first t bytes reached the store *)
Definition tear (o : sop) (t : nat) : sop :=
  match o with SW s off data => SW s off (firstn t data) | x => x end.

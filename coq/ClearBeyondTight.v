(* ClearBeyondTight.v — C01: a clear that starts at or beyond the length issues NO data-store operation in any state
   reachable from creation.

   ClearBeyond.clear_beyond_succeeds leaves one storage operation open on an arbitrary FInv state: when the last
   block is not held, the hole [s', length) behind the last held block is deleted again if the data store still
   reaches beyond its start (ClearBeyondTightEx.v exhibits such an FInv state).  Here: the extra invariant
     Tight: "the data store ends where the last held block ends"
   holds at creation, is preserved by append, by EVERY clear (in range: the delete of a hole that reaches the
   length truncates the store; out of range: nothing), by flushes and by reopen; under it the out-of-range clear
   issues exactly the oplog entry write followed by the operations of its flush decision. *)
From HC Require Import Base NMap Codec CodecFacts Crypto FlatTree Storage Bitfield Oplog Merkle Core.
From HC Require Import FlatTreeFacts StorageFacts BitfieldFacts OplogFacts TreeRef OffsetFacts CoreFacts Crash Refine.
From HC Require Import ClearRefine Reopen ContigBridge Unified1 Unified2 Unified3 ClearBeyond.
From Coq Require Import FMapPositive ZifyN ZifyNat ZifyBool.
Ltac Zify.zify_post_hook ::= Z.div_mod_to_equations.
Arguments N.add : simpl never.
Arguments N.sub : simpl never.
Arguments N.mul : simpl never.
Arguments N.div : simpl never.
Arguments N.modulo : simpl never.
Arguments N.pow : simpl never.
Arguments N.eqb : simpl never.
Arguments N.ltb : simpl never.
Arguments N.leb : simpl never.
Arguments N.max : simpl never.
Arguments N.min : simpl never.
Arguments N.of_nat : simpl never.
Arguments N.to_nat : simpl never.

(* ====================================================================================== *)
(* A. The data store ends where the last held block ends                                   *)
(* ====================================================================================== *)

(* for every s such that no block of [s, length) is held, the data store is no longer than the first s blocks *)
Definition Tight (d : disk) (bs : list bytes) (cl : N -> bool) : Prop :=
  let n := N.of_nat (length bs) in
  forall s, s <= n -> (forall i, s <= i -> i < n -> held n cl i = false) -> f_len (d_data d) <= prefix_size bs s.

Lemma Tight_ext d d' bs cl cl' :
  d_data d' = d_data d -> (forall i, i < N.of_nat (length bs) -> cl' i = cl i) -> Tight d bs cl -> Tight d' bs cl'.
Proof.
  intros Ed E Ht s Hs Hun. rewrite Ed. apply Ht; [exact Hs|].
  intros i A B. rewrite <- (held_ext _ cl cl' E). apply Hun; assumption.
Qed.

(* when the last block is held (or there is none) Tight is the length bound of the invariant *)
Lemma Tight_last_held d bs cl :
  let n := N.of_nat (length bs) in
  f_len (d_data d) <= sumN (map len bs) -> n = 0 \/ held n cl (n - 1) = true -> Tight d bs cl.
Proof.
  intros n Hl Hc s Hs Hun. fold n in Hs, Hun.
  assert (s = n) as ->.
  { destruct Hc as [Z|Hc]; [lia|]. destruct (N.eq_dec s n) as [E|E]; [exact E|].
    rewrite (Hun (n - 1)) in Hc by lia. discriminate Hc. }
  unfold n. rewrite prefix_size_all. exact Hl.
Qed.

(* the end of the hole of a clear is the length or a held block behind the range *)
Lemma hole_end_held (b' : bitfield) (n end_ : N) (cl' : N -> bool) :
  (forall i, bf_get b' i = held n cl' i) ->
  let e' := match bf_index_of_true b' end_ with Some i => i | None => n end in
  e' = n \/ (end_ <= e' /\ held n cl' e' = true).
Proof.
  intros Hb. cbv zeta. pose proof (bf_index_of_true_sound b' end_) as HE.
  destruct (bf_index_of_true b' end_) as [m|]; [|left; reflexivity].
  destruct HE as (E1 & E2 & _). right. split; [exact E2|]. rewrite <- Hb. exact E1.
Qed.

(* Deleting (under the guard of core_clear) the hole [s', e') of the cleared set cl' >= cl keeps the store tight *)
Lemma tight_after_hole (bs : list bytes) (cl cl' : N -> bool) (s' e' : N) (f f' : file) :
  let n := N.of_nat (length bs) in
  let doff := prefix_size bs s' in
  let dlen := prefix_size bs e' - doff in
  f_len f <= sumN (map len bs) ->
  (forall s, s <= n -> (forall i, s <= i -> i < n -> held n cl i = false) -> f_len f <= prefix_size bs s) ->
  (forall i, held n cl i = true -> held n cl' i = false -> s' <= i /\ i < e') ->
  s' <= e' -> e' <= n ->
  (s' = 0 \/ (0 < s' /\ held n cl' (s' - 1) = true)) ->
  (e' = n \/ held n cl' e' = true) ->
  (((0 <? dlen) && (doff <? f_len f) = true /\ f_del f doff dlen = Some f') \/
   ((0 <? dlen) && (doff <? f_len f) = false /\ f' = f)) ->
  forall s, s <= n -> (forall i, s <= i -> i < n -> held n cl' i = false) -> f_len f' <= prefix_size bs s.
Proof.
  intros n doff dlen Hl Ht Hdiff Hse Hen Hs' He' Hcase t Ht1 Hun.
  assert (Hshrink : f_len f' <= f_len f).
  { destruct Hcase as [(_ & Edel)|(_ & ->)]; [|lia].
    destruct (f_del_cases _ _ _ _ Edel) as (D0 & D1 & D2 & D3).
    destruct (N.eq_dec dlen 0) as [Z|NZ]; [rewrite (D1 Z); lia|].
    destruct (N.le_gt_cases (f_len f) (doff + dlen)) as [T|T].
    - rewrite (D2 NZ T), f_truncate_len. exact D0.
    - destruct (D3 NZ T) as [E1 _]. lia. }
  destruct (N.le_gt_cases e' t) as [A|A].
  - (* the tail [t, n) lies behind the hole: it was not held before either *)
    assert (f_len f <= prefix_size bs t); [|lia].
    apply Ht; [exact Ht1|]. intros i B C.
    destruct (held n cl i) eqn:Hi; [exfalso|reflexivity].
    destruct (Hdiff i Hi (Hun i B C)) as [_ X]. lia.
  - (* the tail starts inside the hole: the hole reaches the length and starts at or before t *)
    assert (En : e' = n).
    { destruct He' as [E|E]; [exact E|]. pose proof (held_lt _ _ _ E) as Lt.
      rewrite (Hun e') in E by lia. discriminate E. }
    assert (Hst : s' <= t).
    { destruct Hs' as [Z|[P E]]; [lia|]. destruct (N.le_gt_cases s' t) as [X|X]; [exact X|].
      rewrite (Hun (s' - 1)) in E by lia. discriminate E. }
    pose proof (prefix_size_mono bs s' t Hst) as Pm. fold doff in Pm.
    assert (Pn : prefix_size bs e' = sumN (map len bs)) by (rewrite En; apply prefix_size_all).
    destruct Hcase as [(G & Edel)|(G & ->)].
    + apply andb_prop in G as [G1 G2].
      destruct (f_del_cases _ _ _ _ Edel) as (D0 & D1 & D2 & D3).
      assert (NZ : dlen <> 0) by lia.
      assert (T : f_len f <= doff + dlen) by (unfold dlen; lia).
      rewrite (D2 NZ T), f_truncate_len. exact Pm.
    + apply andb_false_iff in G as [G|G].
      * assert (dlen = 0) by lia. unfold dlen in *. lia.
      * lia.
Qed.

(* ====================================================================================== *)
(* B. The flush decision leaves the data store and the events alone                        *)
(* ====================================================================================== *)

Section TightSteps.
  Variable cr : crypto.
  Hypothesis Hcrc : crc_ok cr.
  Hypothesis Hhash32 : forall x, length (cr_hash cr x) = 32%nat.
  Hypothesis Hnonblank : forall x, all_zero (cr_hash cr x) = false.
  Hypothesis Hhashbytes : forall x, bytes_ok (cr_hash cr x) = true.

  Lemma maybe_flush_data_events f c w c' w' r kp m :
    unflushed_ok (c_tree c) -> hdr_desc' kp (c_header c) m ->
    maybe_flush cr f c w = (c', w', r) ->
    r = Ok tt /\ d_data (w_disk w') = d_data (w_disk w) /\ w_events w' = w_events w.
  Proof.
    intros Hun (Hok & _ & _ & _ & Hrh & Hsg) H.
    assert (Hfits : hdr_fits false (c_header c)).
    { apply hdr_fits_real; [exact Hok|exact Hrh|]. destruct Hsg as [->|Hsg']; unfold len; [cbn; lia|rewrite Hsg'; lia]. }
    unfold maybe_flush in H. rewrite mbind_get_core in H.
    match type of H with (if ?b then _ else _) _ _ = _ => destruct b end.
    - rewrite mbind_put_skip in H.
      set (c1 := mkCore (c_keypair c) (c_oplog c) (c_tree c) (c_bitfield c) (c_header c) 3) in *.
      pose proof (flush_all_ok cr Hhash32 Hnonblank Hhashbytes c1 w c' w' r Hun Hfits H) as ->. split; [reflexivity|].
      destruct (flush_all_spec cr Hhash32 Hnonblank c1 w Hun)
        as [(cx & wx & E)|(o' & d' & jn & t' & tops & d1 & d2 & E & TF & T1 & D1 & A2 & T3 & D3)];
        rewrite E in H; [discriminate H|]. injection H as <- <-. cbn [w_disk w_events].
      split; [|reflexivity].
      destruct (tree_flush_other_stores (c_tree c1) t' tops d1 d2 TF A2 Hun) as (Q1 & _).
      rewrite D3, Q1, D1. reflexivity.
    - unfold put_skip in H. injection H as <- <- <-. repeat split; reflexivity.
  Qed.

  (* ====================================================================================== *)
  (* C. The out-of-range clear under Tight: the entry write and the flush decision, nothing else *)
  (* ====================================================================================== *)

  Theorem clear_beyond_no_data_op f c d j ev bs cl start end_ c' w' r :
    let n := N.of_nat (length bs) in
    FInv cr c d bs cl -> Tight d bs cl -> n <= start -> start < end_ -> end_ <= u64_max ->
    core_clear cr f start end_ c (mkWorld d j ev) = (c', w', r) ->
    exists o' fr,
      let off := ENTRIES_OFFSET + ol_entries_bytes (c_oplog c) in
      oplog_append cr (c_oplog c) (mkEntry [] None (Some (mkBfUpdate true start (end_ - start))))
        = Ok (o', [SW Oplog off fr]) /\
      let c2 := mkCore (c_keypair c) o' (c_tree c) (bf_set_range (c_bitfield c) start (end_ - start) false)
                       (c_header c) (c_skip c) in
      let d1 := d_set d Oplog (f_write (d_oplog d) off fr) in
      let w1 := mkWorld d1 (SW Oplog off fr :: j) ev in
      (* the result and the state *)
      ((r = Err BadArgument /\ (n = 0 \/ held n cl (n - 1) = true) /\ c' = c2 /\ w' = w1) \/
       (r = Ok tt /\ 0 < n /\ held n cl (n - 1) = false /\ maybe_flush cr f c2 w1 = (c', w', Ok tt))) /\
      (* the data store, the events, and the invariants *)
      d_data (w_disk w') = d_data d /\ w_events w' = ev /\
      FInv cr c' (w_disk w') bs cl /\ Tight (w_disk w') bs cl.
  Proof.
    intros n D Ht Hns Hse Hend H.
    destruct (clear_beyond_run cr Hcrc Hhash32 Hnonblank Hhashbytes f c d j ev bs cl start end_ c' w' r D Hns Hse Hend H)
      as (o' & fr & OA & F2 & Hcase).
    exists o', fr. cbv zeta. split; [exact OA|].
    set (c2 := mkCore (c_keypair c) o' (c_tree c) (bf_set_range (c_bitfield c) start (end_ - start) false)
                      (c_header c) (c_skip c)) in *.
    set (d1 := d_set d Oplog (f_write (d_oplog d) (ENTRIES_OFFSET + ol_entries_bytes (c_oplog c)) fr)) in *.
    assert (Dd : d_data d1 = d_data d) by (destruct d; reflexivity).
    destruct Hcase as [(Hc & -> & -> & ->)|(Pn & Hlast & s' & Hlt & B3 & B4 & Hcase)].
    - split; [left; split; [reflexivity|]; split; [exact Hc|]; split; reflexivity|]. cbn [w_disk w_events].
      split; [exact Dd|]. split; [reflexivity|]. split; [exact F2|].
      apply (Tight_ext d d1 bs cl cl Dd); [reflexivity|exact Ht].
    - cbv zeta in Hcase.
      pose proof (Ht s' ltac:(fold n; lia) B3) as Hts.
      destruct Hcase as [(G & _)|(G & Hm)].
      { (* the delete is excluded: the store ends at or before the start of the hole *)
        exfalso. apply andb_prop in G as [_ G2]. lia. }
      pose proof (FInv_CInv cr _ _ _ _ F2) as ((_ & _ & _ & _ & _ & Hun2 & _) & _).
      assert (Hh2 : hdr_desc' (c_keypair c) (c_header c2) n).
      { destruct D as (_ & s0 & s1 & body & st0 & st1 & hf & l & kf & _ & _ & _ & _ & _ & Hhc & _). exact Hhc. }
      destruct (maybe_flush_data_events f c2 _ c' w' r (c_keypair c) n Hun2 Hh2 Hm) as (-> & Ed & Ee).
      cbn [w_disk w_events] in Ed, Ee.
      split; [right; repeat split; assumption|].
      split; [rewrite Ed; exact Dd|]. split; [exact Ee|].
      apply (maybe_flush_FInv cr Hcrc Hhash32 Hnonblank Hhashbytes f c2 d1 _ _ bs cl) in Hm; [|exact F2].
      destruct Hm as (_ & F4 & _). split; [exact F4|].
      apply (Tight_ext d (w_disk w') bs cl cl); [rewrite Ed; exact Dd|reflexivity|exact Ht].
  Qed.

  (* ====================================================================================== *)
  (* D. Tight is preserved by every operation of the histories                               *)
  (* ====================================================================================== *)

  (* the in-range clear: what happens to the data store *)
  Lemma clear_in_range_data f c d j ev bs cl start end_ c' w' r :
    let n := N.of_nat (length bs) in
    let cl' := cl_clear cl start end_ in
    FInv cr c d bs cl -> start < n -> start < end_ -> end_ <= u64_max ->
    core_clear cr f start end_ c (mkWorld d j ev) = (c', w', r) ->
    w_events w' = ev /\
    exists s' e',
      s' <= start /\ start < e' /\ e' <= n /\
      (forall i, s' <= i -> i < e' -> held n cl' i = false) /\
      (s' = 0 \/ (0 < s' /\ held n cl' (s' - 1) = true)) /\
      (e' = n \/ (end_ <= e' /\ held n cl' e' = true)) /\
      let doff := prefix_size bs s' in
      let dlen := prefix_size bs e' - doff in
      (((0 <? dlen) && (doff <? f_len (d_data d)) = true /\ f_del (d_data d) doff dlen = Some (d_data (w_disk w'))) \/
       ((0 <? dlen) && (doff <? f_len (d_data d)) = false /\ d_data (w_disk w') = d_data d)).
  Proof.
    intros n cl' D Hsn Hse Hend H.
    pose proof (FInv_CInv cr c d bs cl D) as W.
    assert (Hhc : hdr_desc' (c_keypair c) (c_header c) n).
    { destruct D as (_ & s0 & s1 & body & st0 & st1 & hf & l & kf & _ & _ & _ & _ & _ & Hhc & _). exact Hhc. }
    pose proof W as (T & Hbf & Hcg & Hd & Hl).
    pose proof T as (HL & HB & HF & HR & Hlook & Hun & Hs & Hn).
    unfold core_clear in H.
    destruct (N.leb_spec end_ start) as [L|_]; [lia|].
    rewrite mbind_get_core in H. cbv zeta in H. rewrite mbind_lift in H.
    destruct (clear_entry_logged cr (c_oplog c) start (end_ - start)) as (o' & fr & OA). rewrite OA in H.
    cbv iota in H.
    rewrite mbind_put_oplog, mbind_emit_SW, mbind_put_bitfield, mbind_cond_header in H.
    cbn [c_keypair c_oplog c_tree c_bitfield c_header c_skip w_disk w_journal w_events d_get] in H.
    rewrite mbind_get_disk in H. cbn [w_disk] in H.
    set (b' := bf_set_range (c_bitfield c) start (end_ - start) false) in *.
    set (d1 := d_set d Oplog (f_write (d_oplog d) (ENTRIES_OFFSET + ol_entries_bytes (c_oplog c)) fr)) in *.
    assert (Dt : d_tree d1 = d_tree d) by (destruct d; reflexivity).
    assert (Dd : d_data d1 = d_data d) by (destruct d; reflexivity).
    assert (Hb' : forall i, bf_get b' i = held n cl' i).
    { intros i. unfold b'. rewrite bf_get_set_range, Hbf. unfold held, cl', cl_clear.
      replace (start + (end_ - start)) with end_ by lia.
      destruct ((start <=? i) && (i <? end_)); [rewrite orb_true_r; cbn [negb]; rewrite andb_false_r; reflexivity|].
      rewrite orb_false_r. reflexivity. }
    assert (Hcl' : forall i, start <= i -> i < end_ -> cl' i = true).
    { intros i A B. unfold cl', cl_clear. assert ((start <=? i) && (i <? end_) = true) as -> by lia.
      apply orb_true_r. }
    pose proof (hole_bounds b' n start end_ cl' Hb' Hsn Hse Hcl') as HB'. cbv zeta in HB'.
    pose proof (hole_end_held b' n end_ cl' Hb') as HE'. cbv zeta in HE'.
    fold n in HL. rewrite HL in H.
    set (s' := match bf_last_index_of_true b' start with Some i => i + 1 | None => 0 end) in *.
    set (e' := match bf_index_of_true b' end_ with Some i => i | None => n end) in *.
    destruct HB' as (B1 & B2 & B3 & B4 & B5).
    rewrite Dt in H.
    rewrite mbind_lift, (byte_offset_tinv cr (c_tree c) (d_tree d) bs s' T) in H by (fold n; lia).
    rewrite mbind_lift in H. unfold sub64 at 1 in H.
    destruct (N.leb_spec 1 e') as [_|L]; [|lia].
    rewrite mbind_lift, (byte_range_tinv cr (c_tree c) (d_tree d) bs (e' - 1) T) in H by (fold n; lia).
    cbv iota in H.
    assert (Pe : prefix_size bs (e' - 1) + len (nth (N.to_nat (e' - 1)) bs []) = prefix_size bs e').
    { change (nth (N.to_nat (e' - 1)) bs []) with (blk bs (e' - 1)). rewrite <- prefix_size_succ. f_equal. lia. }
    rewrite Pe in H. rewrite mbind_lift in H. unfold sub64 in H.
    pose proof (prefix_size_mono bs s' e' ltac:(lia)) as Pm.
    destruct (N.leb_spec (prefix_size bs s') (prefix_size bs e')) as [_|L]; [|lia].
    assert (Hh2 : forall b : bool, hdr_desc' (c_keypair c) (if b then set_contig (c_header c) start else c_header c) n).
    { intros [|]; [|exact Hhc]. apply hdr_desc'_contig; [exact Hhc|lia]. }
    match type of H with
    | mbind _ _ ?c2 _ = _ => set (c2' := c2) in *
    end.
    assert (Hun2 : unflushed_ok (c_tree c2')) by exact Hun.
    assert (Hhd2 : hdr_desc' (c_keypair c) (c_header c2') n) by apply Hh2.
    rewrite Dd in H.
    assert (Rest : forall X : Prop,
              (w_events w' = ev ->
               (((0 <? prefix_size bs e' - prefix_size bs s') && (prefix_size bs s' <? f_len (d_data d)) = true /\
                 f_del (d_data d) (prefix_size bs s') (prefix_size bs e' - prefix_size bs s') = Some (d_data (w_disk w'))) \/
                ((0 <? prefix_size bs e' - prefix_size bs s') && (prefix_size bs s' <? f_len (d_data d)) = false /\
                 d_data (w_disk w') = d_data d)) -> X) -> X).
    { intros X K.
      destruct ((0 <? prefix_size bs e' - prefix_size bs s') && (prefix_size bs s' <? f_len (d_data d))) eqn:G.
      - destruct (f_del_some (d_data d) (prefix_size bs s') (prefix_size bs e' - prefix_size bs s') ltac:(lia))
          as [fd Edel].
        rewrite (mbind_emit_SD_some Data _ _ fd) in H by (cbn [w_disk d_get]; rewrite Dd; exact Edel).
        cbn [w_disk w_journal w_events] in H.
        destruct (maybe_flush_data_events f c2' _ c' w' r (c_keypair c) n Hun2 Hhd2 H) as (_ & Ed & Ee).
        cbn [w_disk w_events] in Ed, Ee.
        apply K; [exact Ee|]. left. split; [reflexivity|]. rewrite Ed.
        assert (d_data (d_set d1 Data fd) = fd) as -> by (destruct d1; reflexivity). exact Edel.
      - rewrite mbind_ret in H.
        destruct (maybe_flush_data_events f c2' _ c' w' r (c_keypair c) n Hun2 Hhd2 H) as (_ & Ed & Ee).
        cbn [w_disk w_events] in Ed, Ee.
        apply K; [exact Ee|]. right. split; [reflexivity|]. rewrite Ed. exact Dd. }
    apply Rest. intros Ee Hcase.
    split; [exact Ee|]. exists s', e'. cbv zeta.
    split; [exact B1|]. split; [exact B2|]. split; [exact B3|]. split; [exact B4|]. split; [exact B5|].
    split; [exact HE'|exact Hcase].
  Qed.

  Theorem clear_in_range_Tight f c d j ev bs cl start end_ c' w' r :
    let n := N.of_nat (length bs) in
    FInv cr c d bs cl -> Tight d bs cl -> start < n -> start < end_ -> end_ <= u64_max ->
    core_clear cr f start end_ c (mkWorld d j ev) = (c', w', r) ->
    Tight (w_disk w') bs (cl_clear cl start end_) /\ w_events w' = ev.
  Proof.
    intros n D Ht Hsn Hse Hend H.
    pose proof (FInv_CInv cr c d bs cl D) as (_ & _ & _ & _ & Hl).
    destruct (clear_in_range_data f c d j ev bs cl start end_ c' w' r D Hsn Hse Hend H)
      as (Ee & s' & e' & B1 & B2 & B3 & B4 & B5 & B6 & Hcase).
    split; [|exact Ee]. cbv zeta in Hcase. fold n in B3, B4, B5, B6.
    unfold Tight. cbv zeta. fold n.
    apply (tight_after_hole bs cl (cl_clear cl start end_) s' e' (d_data d) (d_data (w_disk w'))); try assumption.
    - (* a block held before and not after lies in the range, hence in the hole *)
      fold n. intros i Hi Hi'. unfold held, cl_clear in Hi, Hi'.
      destruct (N.ltb_spec i n) as [Li|Li]; [|discriminate Hi]. cbn [andb] in Hi, Hi'.
      destruct (cl i); [discriminate Hi|]. cbn [orb negb] in Hi'.
      destruct ((start <=? i) && (i <? end_)) eqn:R; [|discriminate Hi'].
      destruct B6 as [->|[B6 _]]; lia.
    - lia.
    - fold n. destruct B6 as [E|[_ E]]; [left|right]; exact E.
  Qed.
End TightSteps.

(* ====================================================================================== *)
(* E. Histories: Tight is reached from creation                                            *)
(* ====================================================================================== *)

Section TightHistory.
  Variable cr : crypto.
  Hypothesis Hcrc : crc_ok cr.
  Hypothesis Hhash32 : forall x, length (cr_hash cr x) = 32%nat.
  Hypothesis Hnonblank : forall x, all_zero (cr_hash cr x) = false.
  Hypothesis Hhashbytes : forall x, bytes_ok (cr_hash cr x) = true.
  Hypothesis Hsig64 : forall sk m, length (cr_sign cr sk m) = 64%nat.
  Hypothesis Hsigbytes : forall sk m, bytes_ok (cr_sign cr sk m) = true.

  Definition FInvT (c : core) (d : disk) (bs : list bytes) (cl : N -> bool) : Prop :=
    FInv cr c d bs cl /\ Tight d bs cl.

  Theorem FInvT_init kp :
    keypair_ok kp = true ->
    exists d' ops c, core_open cr (Some kp) false disk_empty = (d', ops, Ok c) /\
                     FInvT c d' [] (fun _ => false) /\ c_keypair c = kp.
  Proof.
    intros Hkp. destruct (FInv_init cr Hcrc Hhash32 Hnonblank Hhashbytes kp Hkp) as (d' & ops & c & E & D & K).
    exists d', ops, c. split; [exact E|]. split; [|exact K]. split; [exact D|].
    pose proof (FInv_CInv cr _ _ _ _ D) as (_ & _ & _ & _ & Hl).
    apply Tight_last_held; [exact Hl|left; reflexivity].
  Qed.

  Lemma core_append_nil f c w sk :
    kp_secret (c_keypair c) = Some sk ->
    core_append cr f [] c w = (c, w, Ok (t_length (c_tree c), t_byte_length (c_tree c))).
  Proof. intros Hsk. unfold core_append. rewrite mbind_get_core, Hsk. reflexivity. Qed.

  Theorem append_FInvT f batch c d j ev bs cl sk c' w' r :
    FInvT c d bs cl -> kp_secret (c_keypair c) = Some sk ->
    sumN (map len (bs ++ batch)) <= u64_max ->
    NODE_SIZE * (2 * N.of_nat (length (bs ++ batch))) <= u64_max ->
    core_append cr f batch c (mkWorld d j ev) = (c', w', r) ->
    r = Panic frame_msg \/
    (r = Ok (N.of_nat (length (bs ++ batch)), sumN (map len (bs ++ batch))) /\
     FInvT c' (w_disk w') (bs ++ batch) (cl_mask cl (N.of_nat (length bs))) /\ c_keypair c' = c_keypair c).
  Proof.
    intros [D Ht] Hsk Hfit Hidx H.
    destruct (append_FInv cr Hcrc Hhash32 Hnonblank Hhashbytes Hsig64 Hsigbytes
                f batch c d j ev bs cl sk c' w' r D Hsk Hfit Hidx H) as [->|(-> & D' & K')]; [left; reflexivity|].
    right. split; [reflexivity|]. split; [|exact K']. split; [exact D'|].
    destruct batch as [|b0 rest].
    - rewrite (core_append_nil f c _ sk Hsk) in H. injection H as _ <-. cbn [w_disk].
      rewrite app_nil_r. apply (Tight_ext d d bs cl); [reflexivity| |exact Ht].
      intros i Hi. unfold cl_mask. assert (i <? N.of_nat (length bs) = true) as -> by lia. apply andb_true_r.
    - pose proof (FInv_CInv cr _ _ _ _ D') as (_ & _ & _ & _ & Hl).
      apply Tight_last_held; [exact Hl|]. right.
      unfold held, cl_mask. rewrite app_length. cbn [length].
      assert (N.of_nat (length bs + S (length rest)) - 1 <? N.of_nat (length bs) = false) as -> by lia.
      rewrite andb_false_r. cbn [negb]. rewrite andb_true_r. lia.
  Qed.

  (* every clear *)
  Theorem clear_any_FInvT f c d j ev bs cl start end_ c' w' r :
    let n := N.of_nat (length bs) in
    FInvT c d bs cl -> (end_ <= start \/ end_ <= u64_max) ->
    core_clear cr f start end_ c (mkWorld d j ev) = (c', w', r) ->
    r = clear_result bs cl start end_ /\
    FInvT c' (w_disk w') bs (cl_after cl n start end_) /\ c_keypair c' = c_keypair c /\ w_events w' = ev.
  Proof.
    intros n [D Ht] Hend H.
    destruct (clear_any_FInv cr Hcrc Hhash32 Hnonblank Hhashbytes f c d j ev bs cl start end_ c' w' r D Hend H)
      as (R & D' & K').
    split; [exact R|]. fold n in D'.
    assert (X : Tight (w_disk w') bs (cl_after cl n start end_) /\ w_events w' = ev).
    { unfold cl_after.
      destruct (N.leb_spec end_ start) as [L|L].
      - rewrite (clear_noop cr f start end_ c _ L) in H. injection H as _ <- _. split; [exact Ht|reflexivity].
      - assert (He : end_ <= u64_max) by (destruct Hend as [A|A]; [lia|exact A]).
        destruct (N.ltb_spec start n) as [A|A].
        + apply (clear_in_range_Tight cr Hhash32 Hnonblank Hhashbytes f c d j ev bs cl start end_ c' w' r D Ht A L He H).
        + destruct (clear_beyond_no_data_op cr Hcrc Hhash32 Hnonblank Hhashbytes f c d j ev bs cl start end_ c' w' r
                      D Ht A L He H) as (o' & fr & _ & _ & _ & Ee & _ & Ht').
          split; [exact Ht'|exact Ee]. }
    destruct X as [Ht' Ee]. split; [split; [exact D'|exact Ht']|]. split; [exact K'|exact Ee].
  Qed.

  Theorem reopen_FInvT c d bs cl :
    FInvT c d bs cl ->
    exists c', core_open cr None true d = (d, [], Ok c') /\ FInvT c' d bs cl /\ c_keypair c' = c_keypair c.
  Proof.
    intros [D Ht]. destruct (reopen_FInv cr Hcrc Hhash32 Hnonblank Hhashbytes c d bs cl D) as (c' & E & D' & K).
    exists c'. split; [exact E|]. split; [split; [exact D'|exact Ht]|exact K].
  Qed.

  (* the state reached by a history that is not stopped (None: stopped, as ClearBeyond.arun stops) *)
  Fixpoint afinal (ops : list uop) (c : core) (w : world) : option (core * world) :=
    match ops with
    | [] => Some (c, w)
    | UAppend f batch :: rest =>
        let '(c', w', r) := core_append cr f batch c w in
        match r with Ok _ => afinal rest c' w' | _ => None end
    | UClear f s e :: rest =>
        let '(c', w', r) := core_clear cr f s e c w in
        match r with Ok _ | Err _ => afinal rest c' w' | _ => None end
    | UGet i :: rest => let '(c', w', r) := core_get i c w in afinal rest c' w'
    | UHas i :: rest => afinal rest c w
    | UInfo :: rest => afinal rest c w
    | UReopen :: rest =>
        let '(d', sops, r) := core_open cr None true (w_disk w) in
        match r with
        | Ok c' => afinal rest c' (mkWorld d' (rev sops ++ w_journal w) (w_events w))
        | _ => None
        end
    end.

  Theorem history_any_clear_reaches_tight (ops : list uop) : forall c d j ev bs cl sk c' w',
    FInvT c d bs cl -> kp_secret (c_keypair c) = Some sk ->
    wf_a ops ->
    sumN (map len (bs ++ uappended ops)) <= u64_max ->
    NODE_SIZE * (2 * N.of_nat (length (bs ++ uappended ops))) <= u64_max ->
    afinal ops c (mkWorld d j ev) = Some (c', w') ->
    exists cl', FInvT c' (w_disk w') (bs ++ uappended ops) cl' /\ c_keypair c' = c_keypair c.
  Proof.
    induction ops as [|op ops IH]; intros c d j ev bs cl sk c' w' D Hsk Hwf Hfit Hidx H.
    - cbn [afinal] in H. injection H as <- <-. exists cl. cbn [uappended w_disk]. rewrite app_nil_r.
      split; [exact D|reflexivity].
    - destruct op as [f batch|f s e|i|i| |]; cbn [afinal uappended wf_a] in *.
      + destruct (core_append cr f batch c (mkWorld d j ev)) as [[c1 w1] r] eqn:E.
        rewrite app_assoc in Hfit, Hidx.
        assert (Hfit1 : sumN (map len (bs ++ batch)) <= u64_max).
        { rewrite map_app, TreeRef.sumN_app in Hfit. lia. }
        assert (Hidx1 : NODE_SIZE * (2 * N.of_nat (length (bs ++ batch))) <= u64_max).
        { rewrite (app_length (bs ++ batch)) in Hidx. unfold NODE_SIZE in *. lia. }
        destruct (append_FInvT f batch c d j ev bs cl sk c1 w1 r D Hsk Hfit1 Hidx1 E) as [->|(-> & D' & K')];
          [discriminate H|].
        destruct w1 as [d1 j1 ev1]. cbn [w_disk] in D'. rewrite <- K' in Hsk.
        destruct (IH c1 d1 j1 ev1 (bs ++ batch) _ sk c' w' D' Hsk Hwf Hfit Hidx H) as (cl' & D'' & K'').
        exists cl'. rewrite app_assoc. split; [exact D''|]. rewrite K''. exact K'.
      + destruct Hwf as [Hse Hwf].
        destruct (core_clear cr f s e c (mkWorld d j ev)) as [[c1 w1] r] eqn:E.
        destruct (clear_any_FInvT f c d j ev bs cl s e c1 w1 r D Hse E) as (R & D' & K' & _).
        destruct w1 as [d1 j1 ev1]. cbn [w_disk] in D'. rewrite <- K' in Hsk.
        assert (H' : afinal ops c1 (mkWorld d1 j1 ev1) = Some (c', w')).
        { destruct (clear_result_cases bs cl s e) as [R'|R']; rewrite R' in R; subst r; exact H. }
        destruct (IH c1 d1 j1 ev1 bs _ sk c' w' D' Hsk Hwf Hfit Hidx H') as (cl' & D'' & K'').
        exists cl'. split; [exact D''|]. rewrite K''. exact K'.
      + pose proof (FInv_CInv cr c d bs cl (proj1 D)) as W.
        rewrite (get_correct_c cr c d bs cl j ev i W) in H.
        destruct (held (N.of_nat (length bs)) cl i); apply (IH _ _ _ _ _ _ sk _ _ D Hsk Hwf Hfit Hidx H).
      + apply (IH _ _ _ _ _ _ sk _ _ D Hsk Hwf Hfit Hidx H).
      + apply (IH _ _ _ _ _ _ sk _ _ D Hsk Hwf Hfit Hidx H).
      + destruct (reopen_FInvT c d bs cl D) as (c1 & E & D' & K').
        cbn [w_disk w_journal w_events] in H. rewrite E in H. cbn [rev app] in H. rewrite <- K' in Hsk.
        destruct (IH c1 d j ev bs cl sk c' w' D' Hsk Hwf Hfit Hidx H) as (cl' & D'' & K'').
        exists cl'. split; [exact D''|]. rewrite K''. exact K'.
  Qed.

  (* In every state reached from creation by a history of appends, clears of ANY range, reads and reopens, a clear
     that starts at or beyond the length issues the oplog entry write, then (only when it answers Ok) the
     operations of its flush decision, and nothing else: the data store and the events are untouched. *)
  Theorem reachable_clear_beyond_no_data_op kp sk ops c w f start end_ c' w' r :
    keypair_ok kp = true -> kp_secret kp = Some sk ->
    wf_a ops ->
    sumN (map len (uappended ops)) <= u64_max ->
    NODE_SIZE * (2 * N.of_nat (length (uappended ops))) <= u64_max ->
    forall d0 ops0 c0,
    core_open cr (Some kp) false disk_empty = (d0, ops0, Ok c0) ->
    afinal ops c0 (mkWorld d0 [] []) = Some (c, w) ->
    N.of_nat (length (uappended ops)) <= start -> start < end_ -> end_ <= u64_max ->
    core_clear cr f start end_ c w = (c', w', r) ->
    exists o' fr,
      let off := ENTRIES_OFFSET + ol_entries_bytes (c_oplog c) in
      let c2 := mkCore (c_keypair c) o' (c_tree c) (bf_set_range (c_bitfield c) start (end_ - start) false)
                       (c_header c) (c_skip c) in
      let w1 := mkWorld (d_set (w_disk w) Oplog (f_write (d_oplog (w_disk w)) off fr))
                        (SW Oplog off fr :: w_journal w) (w_events w) in
      ((r = Err BadArgument /\ c' = c2 /\ w' = w1) \/
       (r = Ok tt /\ maybe_flush cr f c2 w1 = (c', w', Ok tt))) /\
      d_data (w_disk w') = d_data (w_disk w) /\ w_events w' = w_events w.
  Proof.
    intros Hkp Hsk Hwf Hfit Hidx d0 ops0 c0 Ho Hfin Hns Hse Hend H.
    destruct (FInvT_init kp Hkp) as (d0' & ops0' & c0' & Ho' & D0 & K0).
    rewrite Ho in Ho'. injection Ho' as <- <- <-.
    assert (Hsk0 : kp_secret (c_keypair c0) = Some sk) by (rewrite K0; exact Hsk).
    destruct (history_any_clear_reaches_tight ops c0 d0 [] [] [] (fun _ => false) sk c w D0 Hsk0 Hwf Hfit Hidx Hfin)
      as (cl & [D Ht] & _).
    cbn [app] in D, Ht. destruct w as [d j ev]. cbn [w_disk w_journal w_events] in *.
    destruct (clear_beyond_no_data_op cr Hcrc Hhash32 Hnonblank Hhashbytes f c d j ev (uappended ops) cl start end_ c' w' r
                D Ht Hns Hse Hend H) as (o' & fr & _ & Hcase & Ed & Ee & _).
    exists o', fr. cbv zeta. split; [|split; [exact Ed|exact Ee]].
    destruct Hcase as [(-> & _ & -> & ->)|(-> & _ & _ & Hm)]; [left; repeat split|right; split; [reflexivity|exact Hm]].
  Qed.
End TightHistory.

Print Assumptions tight_after_hole.
Print Assumptions maybe_flush_data_events.
Print Assumptions clear_beyond_no_data_op.
Print Assumptions clear_in_range_data.
Print Assumptions clear_in_range_Tight.
Print Assumptions FInvT_init.
Print Assumptions append_FInvT.
Print Assumptions clear_any_FInvT.
Print Assumptions reopen_FInvT.
Print Assumptions history_any_clear_reaches_tight.
Print Assumptions reachable_clear_beyond_no_data_op.

(* generated on every run by tools/c15.py from /repo/src/replication/shared_core.rs *)
From Coq Require Import List String Bool.
Import ListNotations.
Local Open Scope string_scope.
Definition shared_shape : list (string * bool) :=
  [("info", true);
   ("key_pair", true);
   ("verify_and_apply_proof", true);
   ("missing_nodes", true);
   ("create_proof", true);
   ("event_subscribe", true);
   ("has", true);
   ("get", true);
   ("append", true);
   ("append_batch", true)].

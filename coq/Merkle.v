(* Merkle.v — the Merkle tree: node lookup, changesets, byte offsets, proofs, verification.
   Mirrors: src/tree/merkle_tree.rs, src/tree/merkle_tree_changeset.rs.
   The Either<instructions, value> read protocol is collapsed: lookups read the tree store directly.
   Every loop carries fuel (CLIMB levels); u64 arithmetic on peer-controlled operands is checked. *)
From HC Require Export Base NMap Codec Crypto FlatTree Storage Oplog.

Definition NODE_SIZE : N := 40.
Definition CLIMB : nat := 130.

Record mtree := mkTree {
  t_roots : list node;
  t_length : N;
  t_byte_length : N;
  t_fork : N;
  t_signature : option bytes;
  t_unflushed : nmap node }.

Record changeset := mkCs {
  cs_length : N; cs_ancestors : N; cs_byte_length : N; cs_batch_length : N; cs_fork : N;
  cs_roots : list node; cs_rnodes : list node (* newest first *);
  cs_hash : option bytes; cs_signature : option bytes; cs_upgraded : bool;
  cs_orig_length : N; cs_orig_fork : N }.

(* nodes of the changeset in the order they were pushed *)
Definition cs_nodes (c : changeset) : list node := rev_append (cs_rnodes c) [].

Definition node_from_bytes (index : N) (data : bytes) : node :=
  mkNode index (le_val (firstn 8 data)) (skipn 8 data).

Definition node_to_bytes (n : node) : bytes := le_bytes 8 (n_length n) ++ n_hash n.

(* MerkleTree::node: unflushed first, then the tree store. [Ok None] = a miss that was allowed *)
Definition node_get (t : mtree) (tf : file) (index : N) (allow_miss : bool) : res (option node) :=
  let miss := if allow_miss then Ok None else Err InvalidOperation in
  match nm_get index (t_unflushed t) with
  | Some n => if node_blank n then miss else Ok (Some n)
  | None =>
      off <- mul64 "40 * index" NODE_SIZE index ;;
      match f_read tf off NODE_SIZE with
      | None => miss
      | Some data => let n := node_from_bytes index data in
                     if node_blank n then miss else Ok (Some n)
      end
  end.

Definition required_node (t : mtree) (tf : file) (index : N) : res node :=
  r <- node_get t tf index false ;;
  match r with Some n => Ok n | None => Err InvalidOperation end.

Definition optional_node (t : mtree) (tf : file) (index : N) : res (option node) :=
  node_get t tf index true.

Definition tree_changeset (t : mtree) : changeset :=
  mkCs (t_length t) (t_length t) (t_byte_length t) 0 (t_fork t) (t_roots t) [] None None false
       (t_length t) (t_fork t).

Definition commitable (t : mtree) (c : changeset) : bool :=
  (cs_orig_fork c =? t_fork t) &&
  (if cs_upgraded c then cs_orig_length c =? t_length t else cs_orig_length c <=? t_length t).

Definition add_nodes (m : nmap node) (l : list node) : nmap node :=
  fold_left (fun m n => nm_set (n_index n) n m) l m.

Definition tree_commit (t : mtree) (c : changeset) : res mtree :=
  if negb (commitable t c) then Err InvalidOperation
  else if cs_upgraded c then
    if cs_ancestors c <? cs_orig_length c then Unsupported (* commit_truncation *)
    else Ok (mkTree (cs_roots c) (cs_length c) (cs_byte_length c) (cs_fork c) (cs_signature c)
               (add_nodes (t_unflushed t) (cs_nodes c)))
  else Ok (mkTree (t_roots t) (t_length t) (t_byte_length t) (t_fork t) (t_signature t)
             (add_nodes (t_unflushed t) (cs_nodes c))).

Definition tree_add_node (t : mtree) (n : node) : mtree :=
  mkTree (t_roots t) (t_length t) (t_byte_length t) (t_fork t) (t_signature t)
         (nm_set (n_index n) n (t_unflushed t)).

(* flush_nodes: one 40-byte write per unflushed node (map order: an unordered group) *)
Definition tree_flush (t : mtree) : res (mtree * list sop) :=
  let elems := nm_elements (t_unflushed t) in
  if forallb (fun kv => Nat.eqb (length (n_hash (snd kv))) 32) elems then
    Ok (mkTree (t_roots t) (t_length t) (t_byte_length t) (t_fork t) (t_signature t) nm_empty,
        map (fun kv => SW Tree (NODE_SIZE * n_index (snd kv)) (node_to_bytes (snd kv))) elems)
  else Panic "Encoding u64 should not fail (node hash is not 32 bytes)".

Definition parse_signature (s : bytes) : res bytes :=
  if Nat.eqb (length s) 64 then Ok s else Err InvalidSignature.

(* MerkleTree::open *)
Fixpoint read_roots (tf : file) (idx : list N) (acc : list node) (byte_length length : N)
  : res (list node * N * N) :=
  match idx with
  | [] => Ok (rev acc, byte_length, length)
  | i :: r =>
      match f_read tf (NODE_SIZE * i) NODE_SIZE with
      | None => Err InvalidOperation
      | Some data =>
          let n := node_from_bytes i data in
          d <- sub64 "node.index - length" i length ;;
          read_roots tf r (n :: acc) (byte_length + n_length n) (length + 2 * (d + 1))
      end
  end.

Definition tree_open (ht : header_tree) (tf : file) : res mtree :=
  '(roots, bl, l2) <- read_roots tf (ft_full_roots (2 * ht_length ht)) [] 0 0 ;;
  sg <- (match ht_signature ht with
         | [] => Ok None
         | s => s' <- parse_signature s ;; Ok (Some s')
         end) ;;
  Ok (mkTree roots (l2 / 2) bl (ht_fork ht) sg nm_empty).

Section WithCrypto.
  Variable cr : crypto.

  (* ---------- changeset ---------- *)

  (* the merge loop of append_root, on the reversed root list (last root first) *)
  Fixpoint merge_roots (fuel : nat) (rroots : list node) (nodes_rev : list node) (it : fiter)
    : res (list node * list node * fiter) :=
    match fuel with
    | O => OutOfFuel
    | S f =>
        match rroots with
        | a :: b :: rest =>
            let it_s := it_sibling it in
            if negb (it_index it_s =? n_index b) then Ok (rroots, nodes_rev, it) (* sibling twice = unset *)
            else
              let it_p := it_parent it_s in
              l <- add64 "a.length + b.length" (n_length a) (n_length b) ;;
              let n := mkNode (it_index it_p) l (parent_hash cr a b) in
              merge_roots f (n :: rest) (n :: nodes_rev) it_p
        | _ => Ok (rroots, nodes_rev, it)
        end
    end.

  Definition append_root (c : changeset) (n : node) (it : fiter) : res (changeset * fiter) :=
    bl <- add64 "byte_length += node.length" (cs_byte_length c) (n_length n) ;;
    '(rr, nr, it') <- merge_roots (S (length (cs_roots c))) (n :: rev (cs_roots c))
                        (n :: cs_rnodes c) it ;;
    Ok (mkCs (cs_length c + it_factor it / 2) (cs_ancestors c) bl (cs_batch_length c) (cs_fork c)
             (rev rr) nr (cs_hash c) (cs_signature c) true (cs_orig_length c) (cs_orig_fork c),
        it').

  Definition cs_append (c : changeset) (data : bytes) : res changeset :=
    let head := cs_length c * 2 in
    '(c', _) <- append_root c (block_node cr head data) (it_new head) ;;
    Ok (mkCs (cs_length c') (cs_ancestors c') (cs_byte_length c') (cs_batch_length c' + 1)
             (cs_fork c') (cs_roots c') (cs_rnodes c') (cs_hash c') (cs_signature c')
             (cs_upgraded c') (cs_orig_length c') (cs_orig_fork c')).

  Definition cs_tree_hash (c : changeset) : bytes := tree_hash cr (cs_roots c).
  Definition cs_signable (c : changeset) (hash : bytes) : bytes :=
    signable hash (cs_length c) (cs_fork c).

  Definition cs_set_hash_sig (c : changeset) (h : bytes) (s : bytes) : changeset :=
    mkCs (cs_length c) (cs_ancestors c) (cs_byte_length c) (cs_batch_length c) (cs_fork c)
         (cs_roots c) (cs_rnodes c) (Some h) (Some s) (cs_upgraded c) (cs_orig_length c)
         (cs_orig_fork c).

  Definition cs_hash_and_sign (c : changeset) (sk : bytes) : changeset :=
    let h := cs_tree_hash c in cs_set_hash_sig c h (cr_sign cr sk (cs_signable c h)).

  Definition cs_verify_and_set_signature (c : changeset) (sg pk : bytes) : res changeset :=
    s <- parse_signature sg ;;
    let h := cs_tree_hash c in
    if cr_verify cr pk (cs_signable c h) s then Ok (cs_set_hash_sig c h s)
    else Err InvalidSignature.

  (* ---------- byte offsets ---------- *)

  Fixpoint offset_descend (fuel : nat) (t : mtree) (tf : file) (it : fiter) (index offset : N) : res N :=
    match fuel with
    | O => OutOfFuel
    | S f =>
        if it_index it =? index then Ok offset
        else if index <? it_index it then offset_descend f t tf (it_left_child it) index offset
        else
          let lc := it_left_child it in
          n <- required_node t tf (it_index lc) ;;
          offset_descend f t tf (it_sibling lc) index (offset + n_length n)
    end.

  Fixpoint offset_roots (t : mtree) (tf : file) (roots : list node) (index head offset : N) : res N :=
    match roots with
    | [] => Err BadArgument
    | r :: rest =>
        d <- sub64 "root.index - head" (n_index r) head ;;
        let head' := head + 2 * (d + 1) in
        if head' <=? index then offset_roots t tf rest index head' (offset + n_length r)
        else offset_descend CLIMB t tf (it_new (n_index r)) index offset
    end.

  Definition byte_offset_from_nodes (t : mtree) (tf : file) (index : N) : res N :=
    let index := if N.odd index then ft_left_span index else index in
    offset_roots t tf (t_roots t) index 0 0.

  Definition validate_hypercore_index (t : mtree) (hi : N) : res N :=
    index <- mul64 "2 * hypercore_index" 2 hi ;;
    if 2 * t_length t <=? index then Err BadArgument else Ok index.

  Definition byte_offset (t : mtree) (tf : file) (hi : N) : res N :=
    index <- validate_hypercore_index t hi ;; byte_offset_from_nodes t tf index.

  (* (offset, length) *)
  Definition byte_range (t : mtree) (tf : file) (hi : N) : res (N * N) :=
    index <- validate_hypercore_index t hi ;;
    n <- required_node t tf index ;;
    off <- byte_offset_from_nodes t tf index ;;
    Ok (off, n_length n).

  (* byte_offset_in_changeset: walk the changeset nodes that lie on the path above the block *)
  Fixpoint cs_path_walk (nodes : list node) (it : fiter) (tree_offset : N) (is_right : bool)
           (parent : option node) : res (N * option node) :=
    match nodes with
    | [] => Ok (tree_offset, parent)
    | n :: rest =>
        if n_index n =? it_index it then
          off <- (if is_right
                  then match parent with
                       | Some p => d <- sub64 "node.length - parent.length" (n_length n) (n_length p) ;;
                                   Ok (tree_offset + d)
                       | None => Ok tree_offset
                       end
                  else Ok tree_offset) ;;
          cs_path_walk rest (it_parent it) off (it_is_right it) (Some n)
        else cs_path_walk rest it tree_offset is_right parent
    end.

  Fixpoint position_of (idx : N) (l : list node) (i : nat) : option nat :=
    match l with
    | [] => None
    | n :: r => if n_index n =? idx then Some i else position_of idx r (S i)
    end.

  Definition byte_offset_in_changeset (t : mtree) (tf : file) (hi : N) (c : changeset) : res N :=
    if t_length t =? hi then Ok (t_byte_length t)
    else
      index <- mul64 "2 * hypercore_index" 2 hi ;;
      '(tree_offset, parent) <- cs_path_walk (cs_nodes c) (it_new index) 0 false None ;;
      match parent with
      | Some p =>
          match position_of (n_index p) (cs_roots c) 0 with
          | Some r => Ok (tree_offset + sumN (map n_length (firstn r (cs_roots c))))
          | None => off <- byte_offset_from_nodes t tf (n_index p) ;; Ok (off + tree_offset)
          end
      | None => off <- byte_offset_from_nodes t tf index ;; Ok (off + tree_offset)
      end.

  (* ---------- replay: truncate to a length (only growing / equal lengths are modelled) ---------- *)

  Fixpoint truncate_roots (t : mtree) (tf : file) (full : list N) (roots : list node) (i : nat)
    : res (list node) :=
    match full with
    | [] => Ok (firstn i roots)
    | r :: rest =>
        match nth_error roots i with
        | Some n =>
            if n_index n =? r then truncate_roots t tf rest roots (S i)
            else n' <- required_node t tf r ;;
                 truncate_roots t tf rest (firstn i roots ++ [n']) (S i)
        | None => n' <- required_node t tf r ;;
                  truncate_roots t tf rest (firstn i roots ++ [n']) (S i)
        end
    end.

  Definition tree_truncate (t : mtree) (tf : file) (length fork : N) : res changeset :=
    let full := ft_full_roots (2 * length) in
    roots <- truncate_roots t tf full (t_roots t) 0 ;;
    Ok (mkCs length length (sumN (map n_length roots)) 0 fork roots [] None None true
             (t_length t) (t_fork t)).

  (* ---------- missing nodes ---------- *)

  Fixpoint missing_loop (fuel : nat) (t : mtree) (tf : file) (it : fiter) (head count : N) : res N :=
    match fuel with
    | O => OutOfFuel
    | S f =>
        if it_contains it head then Ok count
        else
          r <- optional_node t tf (it_index it) ;;
          match r with
          | None => missing_loop f t tf (it_parent it) head (count + 1)
          | Some _ => Ok count
          end
    end.

  Definition missing_nodes (t : mtree) (tf : file) (index : N) : res N :=
    let head := 2 * t_length t in
    let it := it_new index in
    if head <=? it_right_span_index it then Ok 0
    else missing_loop CLIMB t tf it head 0.

  (* ---------- proof creation ---------- *)

  Record local_proof := mkLp {
    lp_seek : option (list node); lp_nodes : option (list node);
    lp_upgrade : option (list node); lp_additional : option (list node) }.
  Definition lp_empty := mkLp None None None None.

  Record indexed := mkIndexed { ix_value : bool; ix_index : N; ix_nodes : N; ix_last : N }.

  Definition normalize_indexed (block hash : option req_block) : res (option indexed) :=
    match block, hash with
    | Some b, _ => i <- mul64 "block.index * 2" (rb_index b) 2 ;;
                   Ok (Some (mkIndexed true i (rb_nodes b) (rb_index b)))
    | None, Some h => Ok (Some (mkIndexed false (rb_index h) (rb_nodes h)
                                  (ft_right_span (rb_index h) / 2)))
    | None, None => Ok None
    end.

  Fixpoint nodes_to_root_loop (fuel : nat) (it : fiter) (remaining head : N) : res N :=
    match fuel with
    | O => OutOfFuel
    | S f =>
        if remaining =? 0 then Ok (it_index it)
        else let it' := it_parent it in
             if it_contains it' head then Err InvalidOperation
             else nodes_to_root_loop f it' (remaining - 1) head
    end.

  Definition nodes_to_root (index nodes head : N) : res N :=
    nodes_to_root_loop CLIMB (it_new index) nodes head.

  Fixpoint seek_trusted_loop (fuel : nat) (t : mtree) (tf : file) (it : fiter) (bytes : N) : res N :=
    match fuel with
    | O => OutOfFuel
    | S f =>
        if N.even (it_index it) then Ok (it_index it)
        else
          let lc := it_left_child it in
          r <- optional_node t tf (it_index lc) ;;
          match r with
          | Some n =>
              if n_length n =? bytes then Ok (it_index lc)
              else if bytes <? n_length n then seek_trusted_loop f t tf lc bytes
              else seek_trusted_loop f t tf (it_sibling lc) (bytes - n_length n)
          | None => Ok (it_index (it_parent lc))
          end
    end.

  Definition seek_trusted_tree (t : mtree) (tf : file) (root bytes : N) : res N :=
    if bytes =? 0 then Ok root else seek_trusted_loop CLIMB t tf (it_new root) bytes.

  Fixpoint seek_from_head_loop (t : mtree) (tf : file) (roots : list N) (bytes head : N) : res N :=
    match roots with
    | [] => Ok head
    | r :: rest =>
        n <- required_node t tf r ;;
        if bytes =? n_length n then Ok r
        else if n_length n <? bytes then seek_from_head_loop t tf rest (bytes - n_length n) head
        else seek_trusted_tree t tf r bytes
    end.

  Definition seek_from_head (t : mtree) (tf : file) (head bytes : N) : res N :=
    seek_from_head_loop t tf (ft_full_roots head) bytes head.

  Definition seek_untrusted_tree (t : mtree) (tf : file) (root bytes : N) : res N :=
    offset <- byte_offset_from_nodes t tf root ;;
    if bytes <? offset then Err InvalidOperation
    else if offset =? bytes then Ok root
    else
      let bytes := bytes - offset in
      n <- required_node t tf root ;;
      if n_length n <=? bytes then Err InvalidOperation
      else seek_trusted_tree t tf root bytes.

  Fixpoint seek_proof_loop (fuel : nat) (t : mtree) (tf : file) (it : fiter) (root : N)
           (acc : list node) : res (list node) :=
    match fuel with
    | O => OutOfFuel
    | S f =>
        if it_index it =? root then Ok (rev acc)
        else let s := it_sibling it in
             n <- required_node t tf (it_index s) ;;
             seek_proof_loop f t tf (it_parent s) root (n :: acc)
    end.

  Definition seek_proof (t : mtree) (tf : file) (seek_root root : N) (p : local_proof)
    : res local_proof :=
    n <- required_node t tf seek_root ;;
    l <- seek_proof_loop CLIMB t tf (it_new seek_root) root [n] ;;
    Ok (mkLp (Some l) (lp_nodes p) (lp_upgrade p) (lp_additional p)).

  Fixpoint block_proof_loop (fuel : nat) (t : mtree) (tf : file) (it : fiter) (root : N)
           (is_seek : bool) (seek_root : N) (p : local_proof) (acc : list node)
    : res (local_proof * list node) :=
    match fuel with
    | O => OutOfFuel
    | S f =>
        if it_index it =? root then Ok (p, rev acc)
        else
          let s := it_sibling it in
          if is_seek && it_contains s seek_root && negb (it_index s =? seek_root) then
            p' <- seek_proof t tf seek_root (it_index s) p ;;
            block_proof_loop f t tf (it_parent s) root is_seek seek_root p' acc
          else
            n <- required_node t tf (it_index s) ;;
            block_proof_loop f t tf (it_parent s) root is_seek seek_root p (n :: acc)
    end.

  Definition block_and_seek_proof (t : mtree) (tf : file) (ix : option indexed) (is_seek : bool)
             (seek_root root : N) (p : local_proof) : res local_proof :=
    match ix with
    | Some i =>
        (* the climb below only terminates when [root] is an ancestor of (or equal to) the index *)
        if negb (it_contains (it_new root) (ix_index i)) then Err InvalidOperation else
        acc0 <- (if ix_value i then Ok []
                 else n <- required_node t tf (ix_index i) ;; Ok [n]) ;;
        '(p', l) <- block_proof_loop CLIMB t tf (it_new (ix_index i)) root is_seek seek_root p acc0 ;;
        Ok (mkLp (lp_seek p') (Some l) (lp_upgrade p') (lp_additional p'))
    | None => seek_proof t tf seek_root root p
    end.

  (* "connect existing tree": climb from [from - 2] up to the full root that contains it *)
  Fixpoint connect_loop (fuel : nat) (t : mtree) (tf : file) (it : fiter) (root target : N)
           (ix : option indexed) (is_seek : bool) (sub_tree : N) (with_sub : bool)
           (p : local_proof) (acc : list node) : res (local_proof * list node) :=
    match fuel with
    | O => OutOfFuel
    | S f =>
        if it_index it =? root then Ok (p, acc)
        else
          let s := it_sibling it in
          '(p', acc') <-
            (if target <? it_index s then
               if with_sub && (match lp_nodes p, lp_seek p with None, None => true | _, _ => false end)
                  && it_contains s sub_tree
               then p' <- block_and_seek_proof t tf ix is_seek sub_tree (it_index s) p ;; Ok (p', acc)
               else n <- required_node t tf (it_index s) ;; Ok (p, acc ++ [n])
             else Ok (p, acc)) ;;
          connect_loop f t tf (it_parent s) root target ix is_seek sub_tree with_sub p' acc'
    end.

  (* the root loop shared by upgrade_proof (with_sub = true) and additional_upgrade_proof *)
  Fixpoint upgrade_loop (fuel : nat) (t : mtree) (tf : file) (it : fiter) (from to : N)
           (ix : option indexed) (is_seek : bool) (sub_tree : N) (with_sub : bool)
           (has_upgrade : bool) (p : local_proof) (acc : list node)
    : res (local_proof * list node * bool) :=
    match fuel with
    | O => OutOfFuel
    | S f =>
        let '(found, it) := it_full_root it to in
        if negb found then Ok (p, acc, has_upgrade)
        else if it_index it + it_factor it / 2 <? from then
          upgrade_loop f t tf (it_next_tree it) from to ix is_seek sub_tree with_sub has_upgrade p acc
        else if negb has_upgrade && it_contains it (from - 2) then
          let root := it_index it in
          let target := from - 2 in
          '(p', acc') <- connect_loop CLIMB t tf (it_new target) root target ix is_seek sub_tree
                           with_sub p acc ;;
          upgrade_loop f t tf (it_next_tree it) from to ix is_seek sub_tree with_sub true p' acc'
        else if with_sub && (match lp_nodes p, lp_seek p with None, None => true | _, _ => false end)
                && it_contains it sub_tree then
          p' <- block_and_seek_proof t tf ix is_seek sub_tree (it_index it) p ;;
          upgrade_loop f t tf (it_next_tree it) from to ix is_seek sub_tree with_sub true p' acc
        else
          n <- required_node t tf (it_index it) ;;
          upgrade_loop f t tf (it_next_tree it) from to ix is_seek sub_tree with_sub true p (acc ++ [n])
    end.

  Definition upgrade_proof (t : mtree) (tf : file) (ix : option indexed) (is_seek : bool)
             (from to sub_tree : N) (p : local_proof) : res local_proof :=
    '(p', acc, has) <- upgrade_loop CLIMB t tf (it_new 0) from to ix is_seek sub_tree true
                         (from =? 0) p [] ;;
    Ok (if has then mkLp (lp_seek p') (lp_nodes p') (Some acc) (lp_additional p') else p').

  Definition additional_upgrade_proof (t : mtree) (tf : file) (from to : N) (p : local_proof)
    : res local_proof :=
    '(p', acc, has) <- upgrade_loop CLIMB t tf (it_new 0) from to None false 0 false
                         (from =? 0) p [] ;;
    Ok (if has then mkLp (lp_seek p') (lp_nodes p') (lp_upgrade p') (Some acc) else p').

  (* ValuelessProof: block section without its value *)
  Record vproof := mkVproof {
    vp_fork : N; vp_block : option data_hash; vp_hash : option data_hash;
    vp_seek : option data_seek; vp_upgrade : option data_upgrade }.

  Definition create_valueless_proof (t : mtree) (tf : file)
             (block hash : option req_block) (seek : option req_seek) (upgrade : option req_upgrade)
    : res vproof :=
    let head := 2 * t_length t in
    '(from, to) <- (match upgrade with
                    | Some u => f <- mul64 "upgrade.start * 2" (ru_start u) 2 ;;
                                l2 <- mul64 "upgrade.length * 2" (ru_length u) 2 ;;
                                tt <- add64 "from + length * 2" f l2 ;; Ok (f, tt)
                    | None => Ok (0, head)
                    end) ;;
    ixo <- normalize_indexed block hash ;;
    if (to <=? from) || (head <? to) then Err InvalidOperation else
    let is_seek := match seek with Some _ => true | None => false end in
    let is_up := match upgrade with Some _ => true | None => false end in
    '(sub_tree, p, untrusted) <-
      (match ixo with
       | Some ix =>
           if is_seek && is_up && (from <=? ix_index ix) then Err InvalidOperation else
           let untrusted := match upgrade with
                            | Some u => ix_last ix <? ru_start u
                            | None => true
                            end in
           if untrusted then
             sub <- nodes_to_root (ix_index ix) (ix_nodes ix) to ;;
             seek_root <- (match seek with
                           | Some s => seek_untrusted_tree t tf sub (rs_bytes s)
                           | None => Ok head
                           end) ;;
             p <- block_and_seek_proof t tf (Some ix) is_seek seek_root sub lp_empty ;;
             Ok (sub, p, true)
           else Ok (if is_up then ix_index ix else head, lp_empty, false)
       | None => Ok (head, lp_empty, false)
       end) ;;
    sub_tree <- (if negb untrusted
                 then match seek with
                      | Some s => seek_from_head t tf to (rs_bytes s)
                      | None => Ok sub_tree
                      end
                 else Ok sub_tree) ;;
    p <- (if is_up then
            p1 <- upgrade_proof t tf ixo is_seek from to sub_tree p ;;
            if to <? head then additional_upgrade_proof t tf to head p1 else Ok p1
          else Ok p) ;;
    '(dblock, dhash) <-
      (match block, hash with
       | Some b, _ => match lp_nodes p with
                      | Some ns => Ok (Some (mkDataHash (rb_index b) ns), None)
                      | None => Err InvalidOperation
                      end
       | None, Some h => match lp_nodes p with
                         | Some ns => Ok (None, Some (mkDataHash (rb_index h) ns))
                         | None => Err InvalidOperation
                         end
       | None, None => Ok (None, None)
       end) ;;
    let dseek := match seek, lp_seek p with
                 | Some s, Some ns => Some (mkDataSeek (rs_bytes s) ns)
                 | _, _ => None
                 end in
    dup <- (match upgrade with
            | Some u =>
                match lp_upgrade p, t_signature t with
                | Some ns, Some sg =>
                    Ok (Some (mkDataUpgrade (ru_start u) (ru_length u) ns
                                (match lp_additional p with Some a => a | None => [] end) sg))
                | None, _ => Panic "nodes need to be set"
                | _, None => Panic "signature needs to be set"
                end
            | None => Ok None
            end) ;;
    Ok (mkVproof (t_fork t) dblock dhash dseek dup).

  (* ---------- proof verification ---------- *)

  (* NodeQueue: remaining nodes, optional extra node; [length] is implicit *)
  Record nodeq := mkQ { q_nodes : list node; q_extra : option node }.
  Definition q_length (q : nodeq) : N :=
    N.of_nat (length (q_nodes q)) + (match q_extra q with Some _ => 1 | None => 0 end).

  Definition q_shift (q : nodeq) (index : N) : res (node * nodeq) :=
    match q_extra q with
    | Some e => if n_index e =? index then Ok (e, mkQ (q_nodes q) None)
                else match q_nodes q with
                     | [] => Err InvalidOperation
                     | n :: r => if n_index n =? index then Ok (n, mkQ r (q_extra q))
                                 else Err InvalidOperation
                     end
    | None => match q_nodes q with
              | [] => Err InvalidOperation
              | n :: r => if n_index n =? index then Ok (n, mkQ r None) else Err InvalidOperation
              end
    end.

  Definition cs_push_nodes (c : changeset) (l : list node) : changeset :=
    mkCs (cs_length c) (cs_ancestors c) (cs_byte_length c) (cs_batch_length c) (cs_fork c)
         (cs_roots c) (rev_append l (cs_rnodes c)) (cs_hash c) (cs_signature c) (cs_upgraded c)
         (cs_orig_length c) (cs_orig_fork c).

  (* climb: consume the queue, hashing upwards; returns the computed root and the visited nodes *)
  Fixpoint climb (fuel : nat) (q : nodeq) (it : fiter) (cur : node) (acc : list node)
    : res (node * list node) :=
    match fuel with
    | O => OutOfFuel
    | S f =>
        if q_length q =? 0 then Ok (cur, acc)
        else
          let s := it_sibling it in
          '(n, q') <- q_shift q (it_index s) ;;
          let p := it_parent s in
          l <- add64 "left.length + right.length" (n_length cur) (n_length n) ;;
          let pn := mkNode (it_index p) l (parent_hash cr cur n) in
          climb f q' p pn (acc ++ [n; pn])
    end.

  Definition verify_tree (block : option data_block) (hash : option data_hash)
             (seek : option data_seek) (c : changeset) : res (option node * changeset) :=
    untrusted <-
      (match block, hash with
       | Some b, _ => i <- mul64 "block.index * 2" (db_index b) 2 ;;
                      Ok (Some (Some (db_value b), i, db_nodes b))
       | None, Some h => Ok (Some (None, dh_index h, dh_nodes h))
       | None, None => Ok None
       end) ;;
    let seek_nodes := match seek with Some s => ds_nodes s | None => [] end in
    match untrusted, seek_nodes with
    | None, [] => Ok (None, c)
    | _, _ =>
        '(root, c) <-
          (match seek_nodes with
           | [] => Ok (None, c)
           | n0 :: _ =>
               let it := it_new (n_index n0) in
               '(n, q) <- q_shift (mkQ seek_nodes None) (it_index it) ;;
               '(r, visited) <- climb (S (length seek_nodes)) q it n [n] ;;
               Ok (Some r, cs_push_nodes c visited)
           end) ;;
        match untrusted with
        | Some (value, index, nodes) =>
            let it := it_new index in
            '(n, q) <- (match value with
                        | Some v => Ok (block_node cr (it_index it) v, mkQ nodes root)
                        | None => q_shift (mkQ nodes root) (it_index it)
                        end) ;;
            '(r, visited) <- climb (S (S (length nodes))) q it n [n] ;;
            Ok (Some r, cs_push_nodes c visited)
        | None => Ok (root, c)
        end
    end.

  (* the "grow" branch: from the last existing root, append siblings until reaching root_index *)
  Fixpoint grow_loop (fuel : nat) (c : changeset) (q : nodeq) (it : fiter) (root_index : N)
    : res (changeset * nodeq * fiter) :=
    match fuel with
    | O => OutOfFuel
    | S f =>
        if it_index it =? root_index then Ok (c, q, it)
        else
          let s := it_sibling it in
          '(n, q') <- q_shift q (it_index s) ;;
          '(c', it') <- append_root c n s ;;
          grow_loop f c' q' it' root_index
    end.

  Definition last_root_index (c : changeset) : res N :=
    match rev (cs_roots c) with
    | n :: _ => Ok (n_index n)
    | [] => Err InvalidOperation
    end.

  Fixpoint upgrade_roots_loop (fuel : nat) (c : changeset) (q : nodeq) (it : fiter) (to : N)
           (i : nat) (grow : bool) : res (changeset * nodeq * fiter) :=
    match fuel with
    | O => OutOfFuel
    | S f =>
        let '(found, it) := it_full_root it to in
        if negb found then Ok (c, q, it)
        else
          match nth_error (cs_roots c) i with
          | Some r =>
              if n_index r =? it_index it then
                upgrade_roots_loop f c q (it_next_tree it) to (S i) grow
              else if grow then
                let root_index := it_index it in
                li <- last_root_index c ;;
                '(c', q', it') <- grow_loop CLIMB c q (it_new li) root_index ;;
                upgrade_roots_loop f c' q' (it_next_tree it') to i false
              else
                '(n, q') <- q_shift q (it_index it) ;;
                '(c', it') <- append_root c n it ;;
                upgrade_roots_loop f c' q' (it_next_tree it') to i false
          | None =>
              '(n, q') <- q_shift q (it_index it) ;;
              '(c', it') <- append_root c n it ;;
              upgrade_roots_loop f c' q' (it_next_tree it') to i false
          end
    end.

  (* additional nodes, first phase: extra[i].index == fiter.sibling() *)
  Fixpoint extra_siblings (c : changeset) (it : fiter) (extra : list node)
    : res (changeset * fiter * list node) :=
    match extra with
    | [] => Ok (c, it, [])
    | n :: r =>
        let s := it_sibling it in
        if n_index n =? it_index s then
          '(c', it') <- append_root c n s ;; extra_siblings c' it' r
        else Ok (c, s, extra)   (* the failed comparison has already moved the iterator *)
    end.

  Fixpoint descend_to (fuel : nat) (it : fiter) (index : N) : res fiter :=
    match fuel with
    | O => OutOfFuel
    | S f =>
        if it_index it =? index then Ok it
        else if it_factor it =? 2 then Err InvalidOperation
        else descend_to f (it_left_child it) index
    end.

  Fixpoint extra_rest (c : changeset) (it : fiter) (extra : list node) : res (changeset * fiter) :=
    match extra with
    | [] => Ok (c, it)
    | n :: r =>
        it1 <- descend_to CLIMB it (n_index n) ;;
        '(c', it2) <- append_root c n it1 ;;
        extra_rest c' (it_sibling it2) r
    end.

  Definition cs_set_fork (c : changeset) (fork : N) : changeset :=
    mkCs (cs_length c) (cs_ancestors c) (cs_byte_length c) (cs_batch_length c) fork
         (cs_roots c) (cs_rnodes c) (cs_hash c) (cs_signature c) (cs_upgraded c)
         (cs_orig_length c) (cs_orig_fork c).

  (* returns (block root was consumed by the upgrade, changeset) *)
  Definition verify_upgrade (fork : N) (u : data_upgrade) (block_root : option node) (pk : bytes)
             (c : changeset) : res (bool * changeset) :=
    let q := mkQ (du_nodes u) block_root in
    let grow := match cs_roots c with [] => false | _ => true end in
    sl <- add64 "upgrade.start + upgrade.length" (du_start u) (du_length u) ;;
    to <- mul64 "2 * (start + length)" 2 sl ;;
    '(c1, q1, _) <- upgrade_roots_loop CLIMB c q (it_new 0) to 0 grow ;;
    li <- last_root_index c1 ;;
    (* the sibling test of the first phase moves the iterator even when it fails *)
    '(c2, it2, rest) <- extra_siblings c1 (it_new li) (du_additional u) ;;
    '(c3, _) <- extra_rest c2 it2 rest ;;
    c4 <- cs_verify_and_set_signature (cs_set_fork c3 fork) (du_signature u) pk ;;
    Ok (match q_extra q1 with None => true | Some _ => false end, c4).

  Definition verify_proof (t : mtree) (tf : file) (pf : proof) (pk : bytes) : res changeset :=
    let c := tree_changeset t in
    '(root, c1) <- verify_tree (p_block pf) (p_hash pf) (p_seek pf) c ;;
    '(root2, c2) <-
      (match p_upgrade pf with
       | Some u => '(consumed, c') <- verify_upgrade (p_fork pf) u root pk c1 ;;
                   Ok (if consumed then None else root, c')
       | None => Ok (root, c1)
       end) ;;
    match root2 with
    | Some r =>
        n <- required_node t tf (n_index r) ;;
        if bytes_eqb (n_hash n) (n_hash r) then Ok c2 else Err InvalidChecksum
    | None => Ok c2
    end.
End WithCrypto.

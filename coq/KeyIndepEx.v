(* KeyIndepEx.v -- non-vacuity of KeyIndep / KeyIndepHist on a toy instance whose signatures DEPEND on the key.
   Two different key pairs (different public AND secret keys), one history with appends, a clear, flushes,
   a reopen, make_read_only and a second reopen: the hypotheses of other_files_independent_of_secret hold
   (kp_sim, the signature-length hypothesis, reopen_ok at both reopen points), every operation returns a
   value, the three stores come out identical and the oplog files differ. *)
From HC Require Import Base NMap Codec CodecFacts Crypto FlatTree Storage StorageFacts Bitfield Oplog Merkle Core.
From HC Require Import KeyIndep KeyIndepHist.

Definition kx_cr : crypto :=
  mkCrypto (fun _ => repeat 7 32%nat) (fun _ => 0) (fun sk _ => repeat (hd 0 sk) 64%nat) (fun _ _ _ => true).

Lemma kx_sig : forall sk sk' m, length (cr_sign kx_cr sk m) = length (cr_sign kx_cr sk' m).
Proof. intros. cbn [cr_sign kx_cr]. rewrite !repeat_length. reflexivity. Qed.

Definition kpA : keypair := mkKeypair (repeat 1 32%nat) (Some (repeat 2 32%nat)).
Definition kpB : keypair := mkKeypair (repeat 3 32%nat) (Some (repeat 4 32%nat)).

Lemma kp_sim_AB : kp_sim kpA kpB.
Proof. split; reflexivity. Qed.

(* the signatures really differ *)
Example kx_signatures_differ : cr_sign kx_cr (repeat 2 32%nat) [] <> cr_sign kx_cr (repeat 4 32%nat) [].
Proof. vm_compute. discriminate. Qed.

Definition kx_hist : list hop :=
  [HAppend (Some false) [[1; 2; 3]; []; [4]]; HGet 1; HClear (Some false) 1 2; HAppend (Some true) [[5; 6]];
   HInfo; HAppend (Some false) [[8]]; HReopen; HAppend None [[7]; [9; 9]]; HHas 1; HHas 4; HGet 5;
   HReadOnly; HReopen; HGet 3; HInfo; HClear None 0 1; HGet 0].

Definition kx_check : bool :=
  match start kx_cr kpA, start kx_cr kpB with
  | Some (c1, w1), Some (c2, w2) =>
      let r1 := hrun kx_cr kx_hist c1 w1 in
      let r2 := hrun kx_cr kx_hist c2 w2 in
      Nat.eqb (length (fst (fst r1))) (length kx_hist) &&
      bytes_eqb (f_content (d_tree (w_disk (snd r1)))) (f_content (d_tree (w_disk (snd r2)))) &&
      bytes_eqb (f_content (d_bitfield (w_disk (snd r1)))) (f_content (d_bitfield (w_disk (snd r2)))) &&
      bytes_eqb (f_content (d_data (w_disk (snd r1)))) (f_content (d_data (w_disk (snd r2)))) &&
      negb (bytes_eqb (f_content (d_oplog (w_disk (snd r1)))) (f_content (d_oplog (w_disk (snd r2))))) &&
      (0 <? f_len (d_tree (w_disk (snd r1)))) && (0 <? f_len (d_bitfield (w_disk (snd r1)))) &&
      (0 <? f_len (d_data (w_disk (snd r1))))
  | _, _ => false
  end.

(* every operation of the history returns a value; the three stores are non-empty and identical; the oplog
   files differ *)
Example kx_same_stores_different_oplogs : kx_check = true.
Proof. vm_compute. reflexivity. Qed.

(* the hypothesis of the main theorem at the two reopen points *)
Example kx_reopen_ok :
  match start kx_cr kpA, start kx_cr kpB with
  | Some (c1, w1), Some (c2, w2) => reopen_ok kx_cr kx_hist c1 w1 c2 w2
  | _, _ => False
  end.
Proof.
  vm_compute.
  repeat match goal with
         | |- _ /\ _ => split
         | |- _ -> _ => intro
         | |- True => exact I
         | |- _ = _ => reflexivity
         | |- Forall2 _ [] [] => constructor
         | |- Forall2 _ (_ :: _) (_ :: _) => constructor
         end.
Qed.

(* the main theorem instantiated: its conclusion for this history *)
Example kx_main :
  match start kx_cr kpA, start kx_cr kpB with
  | Some (c1, w1), Some (c2, w2) =>
      let r1 := hrun kx_cr kx_hist c1 w1 in
      let r2 := hrun kx_cr kx_hist c2 w2 in
      d_tree (w_disk (snd r1)) = d_tree (w_disk (snd r2)) /\
      d_bitfield (w_disk (snd r1)) = d_bitfield (w_disk (snd r2)) /\
      d_data (w_disk (snd r1)) = d_data (w_disk (snd r2)) /\
      fst (fst r1) = fst (fst r2)
  | _, _ => False
  end.
Proof.
  pose proof (other_files_independent_of_secret kx_cr kx_sig kx_hist kpA kpB kp_sim_AB) as H.
  pose proof kx_reopen_ok as K.
  destruct (start kx_cr kpA) as [[c1 w1]|], (start kx_cr kpB) as [[c2 w2]|]; try contradiction.
  destruct (H K) as (A & B & C & _ & E & _). cbv zeta. auto.
Qed.

Print Assumptions kx_main.

(* HashDesc.v — the vocabulary in which tools/srchash.py describes the HASH LAYOUTS of /repo/src/crypto/hash.rs (SrcHash.v,
   regenerated on every run): for each of Hash::data, Hash::parent, Hash::tree and signable_tree the ORDERED sequence of byte strings
   fed to the hasher (`hasher.update(X)`) or written by `to_encoded_bytes!`, each classified symbolically. Declarations only;
   HashTie.v gives them their meaning. Expressions are the [rexpr] of FnDesc.v. *)
From HC Require Export FnDesc.

Inductive hitem :=
| HConst (name : string) (value : list N)   (* a byte-array constant of the file (LEAF_TYPE, TREE ...) with the bytes the source gives it *)
| HLe64 (e : rexpr)                          (* `e.as_fixed_width()` of a u64 inside to_encoded_bytes!: 8 bytes, little-endian *)
| HBe64 (e : rexpr)                          (* `u64_as_be(e)`: 8 bytes, big-endian (the legacy layout) *)
| HRaw (x : string)                          (* the whole of a `&[u8]` parameter *)
| HHash (x : string)                         (* `x.hash()` of a node x *)
| HHash32 (x : string)                       (* `as_array::<32>(x)?`: the byte slice x, which must have 32 bytes *)
| HOther (rust : string).                    (* an argument that is none of the above (kept for the message): nothing is tied to it *)

(* Hash::parent: `let (n1, n2) = if cond { (a, b) } else { (c, d) };` followed by the updates, which speak about n1 and n2 *)
Record parent_desc := {
  pd_cond : rexpr;                           (* over `left.index`, `right.index` *)
  pd_names : string * string;                (* (n1, n2) *)
  pd_then : string * string;                 (* (a, b): names of the parameters *)
  pd_else : string * string;
  pd_items : list hitem
}.

(* Hash::tree: updates before the loop, `for node in roots { updates }`, updates after the loop *)
Record tree_desc := {
  td_before : list hitem;
  td_var : string;                           (* the loop variable *)
  td_body : list hitem;
  td_after : list hitem
}.

(* HonestTornHistA.v -- torn-tolerant replica disks with closed stored nodes (C07 history level, part 1) *)
From HC Require Import Base NMap Codec CodecFacts Crypto FlatTree Storage Bitfield Oplog Merkle Core.
From HC Require Import FlatTreeFacts StorageFacts BitfieldFacts OplogFacts Sound NoPanic TreeRef OffsetFacts CoreFacts Crash Refine Replicate Replicate2 Replicate2Z Replicate2D Replicate2E.
From HC Require Import ClearRefine Reopen ContigBridge Unified1 Unified2 CrashCore1 CrashCore2 CrashCore3 CrashClear1.
From HC Require Import SoundCoreLib SoundCore SoundCoreUp SoundCoreBU ReplicaDisk1 ReplicaDisk2 ReplicaDisk3 ReplicaDisk4 ReplicaDisk5 ReplicaDisk6.
From HC Require Import TornCoreA TornCoreB TornClear TornReplicaA TornReplicaB TornReplica.
From HC Require Import AcceptAll1 AcceptAll2 AcceptAll3 AcceptAll AcceptAllCore1 AcceptAllClo AcceptAllClo2 AcceptAllFlush AcceptAllCore2 AcceptAllCore3 AcceptAllHist.
From HC Require Import HonestApply1 HonestApply2 HonestApply3 HonestCrash1 HonestTorn.
From Coq Require Import FMapPositive ZifyN ZifyNat ZifyBool.
Ltac Zify.zify_post_hook ::= Z.div_mod_to_equations.
Arguments N.add : simpl never.
Arguments N.sub : simpl never.
Arguments N.mul : simpl never.
Arguments N.div : simpl never.
Arguments N.modulo : simpl never.
Arguments N.pow : simpl never.
Arguments N.eqb : simpl never.
Arguments N.ltb : simpl never.
Arguments N.leb : simpl never.
Arguments N.max : simpl never.
Arguments N.min : simpl never.
Arguments N.of_nat : simpl never.
Arguments N.to_nat : simpl never.
Arguments N.log2 : simpl never.
Arguments N.testbit : simpl never.

(* ====================================================================================== *)
(* A. Torn-tolerant replica disks / states with CLOSED stored nodes                         *)
(* ====================================================================================== *)

Section ClosedZ.
  Variable cr : crypto.
  Variable bs : list bytes.

  (* TornReplicaA.RDiskZ + the nodes a replay finds (tree store, nodes of the logged entries) are closed *)
  Definition RCDiskZ (pk : bytes) (d : disk) (H : N -> bool) (r : N) : Prop :=
    TreeOk (d_tree d) /\
    exists s0 s1 body st0 st1 bits hf l kf,
      f_content (d_oplog d) = s0 ++ s1 ++ body /\
      OplX cr s0 s1 body st0 st1 bits hf l /\
      hdr_rep cr bs pk hf kf /\
      rchain cr bs pk (d_tree d) [] kf l r /\
      store_roots cr bs (d_tree d) kf /\
      RTreeZ cr bs (rtree cr bs r None (flat_map e_nodes l)) (d_tree d) (d_data d) H /\
      BfR (N.of_nat (length bs)) (d_bitfield d) (updates_of l) (hd_contig hf) H /\
      ClosedR (rtree cr bs r None (flat_map e_nodes l)) (d_tree d).

  (* the torn-tolerant replica state between two calls, stored nodes closed: the history invariant *)
  Definition RCInvZ (c : core) (d : disk) (H : N -> bool) : Prop :=
    RDInvZ cr bs c d H /\ ClosedR (c_tree c) (d_tree d).

  (* TornReplicaA.recoversR with the closure of the stored nodes of the reopened state *)
  Definition recoversRC (pk : bytes) (d : disk) (H : N -> bool) (r : N) : Prop :=
    exists c' d' ops, core_open cr None true d = (d', ops, Ok c') /\
      RCInvZ c' d' H /\ t_length (c_tree c') = r /\
      c_keypair c' = mkKeypair pk None /\ c_skip c' = 0 /\
      d_tree d' = d_tree d /\ d_data d' = d_data d /\ d_bitfield d' = d_bitfield d /\
      (hyg cr (f_content (d_oplog d)) -> hyg cr (f_content (d_oplog d'))).

  Lemma RCDiskZ_RDiskZ pk d H r : RCDiskZ pk d H r -> RDiskZ cr bs pk d H r.
  Proof.
    intros (Hok & s0 & s1 & body & st0 & st1 & bits & hf & l & kf & A1 & A2 & A3 & A4 & A5 & A6 & A7 & _).
    split; [exact Hok|]. exists s0, s1, body, st0, st1, bits, hf, l, kf. repeat (split; [assumption|]). exact A7.
  Qed.

  Lemma recoversRC_recoversR pk d H r : recoversRC pk d H r -> recoversR cr bs pk d H r.
  Proof.
    intros (c' & d' & ops & E & [X _] & R). exists c', d', ops. split; [exact E|]. split; [exact X|exact R].
  Qed.

  Lemma RCDiskZ_ext pk d H H' r : (forall i, H' i = H i) -> RCDiskZ pk d H r -> RCDiskZ pk d H' r.
  Proof.
    intros E (Hok & s0 & s1 & body & st0 & st1 & bits & hf & l & kf & Hcont & HO & Hhf & Hch & Hst & HT & Hbf & Hc).
    split; [exact Hok|].
    exists s0, s1, body, st0, st1, bits, hf, l, kf. repeat (split; [assumption|]).
    split; [apply (RTreeZ_ext cr bs (rtree cr bs r None (flat_map e_nodes l)) _ _ _ H H'); try reflexivity; assumption|].
    split; [apply (BfR_ext _ _ _ _ H); assumption|exact Hc].
  Qed.

  Lemma RCInvZ_ext c d H H' : (forall i, H' i = H i) -> RCInvZ c d H -> RCInvZ c d H'.
  Proof. intros E [X Hc]. split; [apply (RDInvZ_ext cr bs c d H H' E X)|exact Hc]. Qed.

  (* only the data store differs, and every held block is still readable *)
  Lemma RCDiskZ_data pk d d1 H r :
    RCDiskZ pk d H r ->
    d_tree d1 = d_tree d -> d_oplog d1 = d_oplog d -> d_bitfield d1 = d_bitfield d ->
    (forall i, H i = true -> len (blk bs i) <> 0 ->
               f_read (d_data d1) (prefix_size bs i) (len (blk bs i)) = Some (blk bs i)) ->
    RCDiskZ pk d1 H r.
  Proof.
    intros (Hok & s0 & s1 & body & st0 & st1 & bits & hf & l & kf & Hcont & HO & Hhf & Hch & Hst & HT & Hbf & Hc) Et Eo Eb Hd.
    split; [rewrite Et; exact Hok|].
    exists s0, s1, body, st0, st1, bits, hf, l, kf. rewrite Et, Eo, Eb.
    repeat (split; [assumption|]). split; [|split; [exact Hbf|exact Hc]].
    destruct HT as (H1 & H2 & H3 & H4 & H5 & H6 & H7 & H8).
    repeat (split; [assumption|]).
    intros i Hi. destruct (H8 i Hi) as (A1 & A2 & A3 & _).
    split; [exact A1|]. split; [exact A2|]. split; [exact A3|]. apply Hd, Hi.
  Qed.

  (* memory + disk between two calls gives the disk part *)
  Lemma RCInvZ_RCDiskZ c d H :
    RCInvZ c d H -> RCDiskZ (kp_public (c_keypair c)) d H (t_length (c_tree c)).
  Proof.
    intros [(W & Hb & Hex & Hk & Hs & Hok & s0 & s1 & body & st0 & st1 & hf & l & kf &
             Hcont & G & Hlen & Hbytes & Hhf & Hh & Hch & Hu & Hst & Hbf & Hsync) Hclo].
    split; [exact Hok|].
    exists s0, s1, body, st0, st1, (ol_bits (c_oplog c)), hf, l, kf.
    split; [exact Hcont|]. split; [left; exact G|]. split; [exact Hhf|]. split; [exact Hch|].
    split; [exact Hst|]. split; [|split; [exact Hbf|]].
    - apply (RTreeZ_ext cr bs (c_tree c) _ _ _ (bf_get (c_bitfield c)) H); try reflexivity.
      + cbn [rtree t_roots]. destruct W as (_ & _ & -> & _). reflexivity.
      + cbn [rtree t_byte_length]. destruct W as (_ & _ & _ & -> & _). reflexivity.
      + cbn [rtree t_fork]. destruct W as (_ & -> & _). reflexivity.
      + cbn [rtree t_unflushed]. symmetry. exact Hu.
      + intros i. symmetry. apply Hb.
      + exact W.
    - apply (ClosedR_same (c_tree c)); [|cbn [rtree t_unflushed]; symmetry; exact Hu|exact Hclo].
      cbn [rtree t_roots]. destruct W as (_ & _ & -> & _). reflexivity.
  Qed.

  (* closure only looks at the lookups *)
  Lemma ClosedR_lookups t tf tf' : same_lookups t tf tf' -> ClosedR t tf -> ClosedR t tf'.
  Proof.
    intros Hs. apply ClosedR_ext; [reflexivity|].
    intros j. unfold navail. rewrite (required_node_ext t tf tf' Hs j). split; intros E; exact E.
  Qed.

  (* a state of RCInv whose tree store has byte-valued length fields *)
  Lemma RCInv_RCInvZ c d H :
    (forall x, length (cr_hash cr x) = 32%nat) -> (forall x, all_zero (cr_hash cr x) = false) ->
    RCInv cr bs c d H -> TreeOk (d_tree d) -> RCInvZ c d H.
  Proof.
    intros Hhash32 Hnonblank [X Hclo] Hok. split; [apply (RDInv_RDInvZ cr Hhash32 Hnonblank bs c d H X Hok)|exact Hclo].
  Qed.
End ClosedZ.

(* ====================================================================================== *)
(* B. core_open on a torn-tolerant replica disk with closed stored nodes                    *)
(* ====================================================================================== *)

Section ReopenRCZ.
  Variable cr : crypto.
  Hypothesis Hcrc : crc_ok cr.
  Hypothesis Hhash32 : forall x, length (cr_hash cr x) = 32%nat.
  Hypothesis Hnonblank : forall x, all_zero (cr_hash cr x) = false.
  Hypothesis Hhashbytes : forall x, bytes_ok (cr_hash cr x) = true.
  Variable bs : list bytes.
  Hypothesis Hw : writer_fits bs.

  Theorem reopen_RCDiskZ pk d H r :
    RCDiskZ cr bs pk d H r ->
    exists c' d' ops, core_open cr None true d = (d', ops, Ok c') /\
      RCInvZ cr bs c' d' H /\ t_length (c_tree c') = r /\
      c_keypair c' = mkKeypair pk None /\ c_skip c' = 0 /\
      d_tree d' = d_tree d /\ d_data d' = d_data d /\ d_bitfield d' = d_bitfield d /\
      (ops = [] /\ d' = d \/ ops = [ST Oplog ENTRIES_OFFSET]) /\
      (hyg cr (f_content (d_oplog d)) -> hyg cr (f_content (d_oplog d'))).
  Proof.
    intros (Hok & s0 & s1 & body & st0 & st1 & bits & hf & l & kf & Hcont & HO & Hhf & Hch & Hst & HT & Hbf & Hclo).
    destruct (OplX_open cr Hcrc Hhash32 Hnonblank Hhashbytes s0 s1 body st0 st1 bits hf l HO)
      as (ops & Hopen & [(-> & G)|(-> & L0 & L1 & G)]).
    - rewrite <- Hcont in Hopen.
      rewrite (core_open_eq cr d _ d Hopen eq_refl). cbn [oo_ops].
      destruct (open_tail_RZ cr Hhash32 Hnonblank Hhashbytes bs pk d H r s0 s1 body st0 st1 bits hf l kf [] Hok Hcont G Hhf Hch Hst HT Hbf)
        as (c' & E & X & K & Sk & _ & _ & Et).
      exists c', d, []. split; [rewrite E; reflexivity|].
      split. { split; [exact X|]. rewrite Et. apply (ClosedR_same (rtree cr bs r None (flat_map e_nodes l))); [reflexivity|reflexivity|exact Hclo]. }
      split; [rewrite Et; reflexivity|]. split; [exact K|]. split; [exact Sk|].
      repeat (split; [reflexivity|]). split; [left; split; reflexivity|]. intros Hh; exact Hh.
    - rewrite <- Hcont in Hopen.
      set (d' := d_set d Oplog (f_truncate (d_oplog d) ENTRIES_OFFSET)).
      assert (Ha : apply_sops d [ST Oplog ENTRIES_OFFSET] = Some d') by reflexivity.
      rewrite (core_open_eq cr d _ d' Hopen Ha). cbn [oo_ops].
      assert (Hcont' : f_content (d_oplog d') = s0 ++ s1 ++ []).
      { unfold d'. destruct d as [ft fd fb fo]. cbn [d_set d_oplog] in *.
        rewrite f_content_truncate, Hcont. apply c_truncate_all_entries; assumption. }
      assert (Et : d_tree d' = d_tree d) by (destruct d; reflexivity).
      assert (Ed : d_data d' = d_data d) by (destruct d; reflexivity).
      assert (Eb : d_bitfield d' = d_bitfield d) by (destruct d; reflexivity).
      destruct (open_tail_RZ cr Hhash32 Hnonblank Hhashbytes bs pk d' H r s0 s1 [] st0 st1 bits hf l kf [ST Oplog ENTRIES_OFFSET])
        as (c' & E & X & K & Sk & _ & _ & Ett); try (rewrite ?Ed, ?Et, ?Eb; assumption).
      exists c', d', [ST Oplog ENTRIES_OFFSET]. split; [rewrite E; reflexivity|].
      split. { split; [exact X|]. rewrite Ett, Et. apply (ClosedR_same (rtree cr bs r None (flat_map e_nodes l))); [reflexivity|reflexivity|exact Hclo]. }
      split; [rewrite Ett; reflexivity|]. split; [exact K|]. split; [exact Sk|].
      repeat (split; [assumption|]). split; [right; reflexivity|].
      rewrite Hcont, Hcont'. apply (hyg_body cr s0 s1 body [] L0 L1).
  Qed.

  Corollary RCDiskZ_recovers pk d H r : RCDiskZ cr bs pk d H r -> recoversRC cr bs pk d H r.
  Proof.
    intros X. destruct (reopen_RCDiskZ pk d H r X) as (c' & d' & ops & E & X' & L & K & S & T & D & B & _ & Hh).
    exists c', d', ops. repeat (split; [assumption|]). exact Hh.
  Qed.

  (* reopening a running state: nothing to repair *)
  Theorem reopen_RCInvZ c d H :
    RCInvZ cr bs c d H ->
    exists c', core_open cr None true d = (d, [], Ok c') /\
      RCInvZ cr bs c' d H /\ t_length (c_tree c') = t_length (c_tree c) /\ c_keypair c' = c_keypair c /\ c_skip c' = 0.
  Proof.
    intros RC. pose proof RC as [X _].
    destruct (reopen_RDInvZ cr Hcrc Hhash32 Hnonblank Hhashbytes bs Hw c d H X) as (c1 & E1 & _ & L1 & K1 & S1).
    destruct (RCDiskZ_recovers _ d H _ (RCInvZ_RCDiskZ cr bs c d H RC)) as (c' & d' & ops & E & X' & _).
    rewrite E1 in E. injection E as <- <- <-.
    exists c1. split; [exact E1|]. split; [exact X'|]. split; [exact L1|]. split; [exact K1|exact S1].
  Qed.

  (* open repairs the oplog store (ops), after which the disk is a stable replica disk *)
  Lemma reopen_after_repair_RC pk d d' H r s0 s1 body st0 st1 bits hf l kf ops :
    oplog_open cr None (f_content (d_oplog d)) =
      Ok (mkOpenOutcome (mkOplog bits (N.of_nat (length l)) (entries_size l)) hf ops l) ->
    apply_sops d ops = Some d' ->
    d_tree d' = d_tree d -> d_data d' = d_data d -> d_bitfield d' = d_bitfield d ->
    TreeOk (d_tree d) ->
    f_content (d_oplog d') = s0 ++ s1 ++ body ->
    good cr s0 s1 body st0 st1 bits hf l ->
    hdr_rep cr bs pk hf kf -> rchain cr bs pk (d_tree d) [] kf l r ->
    store_roots cr bs (d_tree d) kf ->
    RTreeZ cr bs (rtree cr bs r None (flat_map e_nodes l)) (d_tree d) (d_data d) H ->
    BfR (N.of_nat (length bs)) (d_bitfield d) (updates_of l) (hd_contig hf) H ->
    ClosedR (rtree cr bs r None (flat_map e_nodes l)) (d_tree d) ->
    (hyg cr (f_content (d_oplog d)) -> hyg cr (f_content (d_oplog d'))) ->
    recoversRC cr bs pk d H r.
  Proof.
    intros Hopen Ha Et Ed Eb Hok Hcont G Hhf Hch Hst HT Hbf Hclo Hhyg.
    pose proof (core_open_eq cr d _ d' Hopen Ha) as E. cbn [oo_ops] in E.
    destruct (open_tail_RZ cr Hhash32 Hnonblank Hhashbytes bs pk d' H r s0 s1 body st0 st1 bits hf l kf ops)
      as (c' & Et' & X & K & Sk & _ & _ & Ett); try (rewrite ?Et, ?Ed, ?Eb; assumption).
    exists c', d', ops. split; [rewrite E, Et'; reflexivity|].
    split. { split; [exact X|]. rewrite Ett, Et. apply (ClosedR_same (rtree cr bs r None (flat_map e_nodes l))); [reflexivity|reflexivity|exact Hclo]. }
    split; [rewrite Ett; reflexivity|]. repeat (split; [assumption|]). exact Hhyg.
  Qed.
End ReopenRCZ.

(* ====================================================================================== *)
(* C. The flush decision from a closed torn-tolerant state: result, clean cuts, torn cuts   *)
(*    (TornReplicaB.maybe_flush_RZ with the closure of the stored nodes carried through)     *)
(* ====================================================================================== *)

Section FlushRCZ.
  Variable cr : crypto.
  Hypothesis Hcrc : crc_ok cr.
  Hypothesis Hhash32 : forall x, length (cr_hash cr x) = 32%nat.
  Hypothesis Hnonblank : forall x, all_zero (cr_hash cr x) = false.
  Hypothesis Hhashbytes : forall x, bytes_ok (cr_hash cr x) = true.
  Variable bs : list bytes.
  Hypothesis Hw : writer_fits bs.

  Definition QFRC (pk : bytes) (H : N -> bool) (r : N) (dk : disk) (o : sop) (t : nat) (dkt : disk) : Prop :=
    tear_safe cr dk o t -> RCDiskZ cr bs pk dkt H r \/ (is_slot_write o = true /\ Crash.collision cr t).

  Lemma maybe_flush_RCZ f c d j ev H :
    RCInvZ cr bs c d H ->
    exists c' d' fl,
      maybe_flush cr f c (mkWorld d j ev) = (c', mkWorld d' (rev fl ++ j) ev, Ok tt) /\
      apply_sops d fl = Some d' /\ RCInvZ cr bs c' d' H /\
      t_length (c_tree c') = t_length (c_tree c) /\ c_keypair c' = c_keypair c /\
      (f = Some true -> hyg cr (f_content (d_oplog d'))) /\
      cuts_ok d fl (fun dk => RCDiskZ cr bs (kp_public (c_keypair c)) dk H (t_length (c_tree c)) /\
                              (hyg cr (f_content (d_oplog d)) -> hyg cr (f_content (d_oplog dk)))) /\
      tcuts d fl (QFRC (kp_public (c_keypair c)) H (t_length (c_tree c))).
  Proof.
    intros RC. pose proof RC as [X Hclo].
    pose proof (RCInvZ_RCDiskZ cr bs c d H RC) as XD.
    unfold maybe_flush. rewrite mbind_get_core.
    match goal with |- context [if ?b then _ else _] => destruct b eqn:Edec end.
    2:{ exists (mkCore (c_keypair c) (c_oplog c) (c_tree c) (c_bitfield c) (c_header c) (c_skip c - 1)), d, [].
        split; [reflexivity|]. split; [reflexivity|]. split; [split; [apply RDInvZ_skip, X|exact Hclo]|]. split; [reflexivity|].
        split; [reflexivity|]. split; [intros ->; discriminate Edec|].
        split; [apply cuts_nil; split; [exact XD|intros Hh; exact Hh]|apply tcuts_nil]. }
    rewrite mbind_put_skip.
    set (c1 := mkCore (c_keypair c) (c_oplog c) (c_tree c) (c_bitfield c) (c_header c) 3) in *.
    destruct (RDInvZ_completed cr Hhash32 Hnonblank bs Hw c d H X) as (dv & Xv & Edv & Eov & Etv & Hveq & Hmv & Hfiv).
    destruct (RDInv_header cr Hhash32 Hnonblank Hhashbytes bs Hw c dv H Xv) as (Hrep & Hfits).
    pose proof X as (W & Hb & Hex & Hk & Hs & Htok & s0 & s1 & body & st0 & st1 & hf & l & kf &
                     Hcont & G & Hlen & Hbytes & Hhf & Hh & Hch & Hu & Hst & Hbf & Hsync).
    pose proof W as (W1 & W2 & W3 & W4 & W5 & (W6 & W6') & W7 & W8).
    assert (Hnb : forall i, H i = true -> i < N.of_nat (length bs))
      by (intros i; apply (RDInvZ_held_nb cr bs c d H i X)).
    set (pk := kp_public (c_keypair c)) in *. set (r := t_length (c_tree c)) in *.
    destruct Hw as [Hw1 Hw2].
    assert (Hun : unflushed_ok (c_tree c1)) by (apply (unfl_sound_ok cr Hhash32 bs (c_tree c) r Hw1), W5).
    destruct (flush_all_run cr Hhash32 Hnonblank c1 (mkWorld d j ev) Hun Hfits) as (o' & oops & d3 & OF & A & E).
    destruct (flush_all_run cr Hhash32 Hnonblank c1 (mkWorld dv j ev) Hun Hfits) as (o'' & oops' & d3v & OF' & Av & Ev).
    cbn [w_disk w_journal w_events c1 c_oplog c_keypair c_header c_bitfield c_tree c_skip] in OF, A, E, OF', Av, Ev.
    cbv zeta in A, E, Av, Ev. rewrite OF in OF'. injection OF' as <- <-.
    set (b := c_bitfield c) in *. set (t := c_tree c) in *. set (ws := unflushed_nodes t) in *.
    set (fl := page_ops b (bf_dirty b) ++ map node_write ws ++ oops) in *.
    set (c' := mkCore (c_keypair c) o' (mkTree (t_roots t) (t_length t) (t_byte_length t) (t_fork t) (t_signature t) nm_empty)
                      (mkBf (bf_bits b) []) (c_header c) 3) in *.
    exists c', d3, fl.
    split; [exact E|]. split; [exact A|].
    (* the oplog step *)
    destruct Hrep as (Hhok & Hkp & Hd).
    pose proof G as (H0 & H1 & Hchs & Hf & Hoks).
    unfold oplog_flush in OF. apply bind_ok in OF as ([bits1 ops1] & Hins & OF). injection OF as <- <-.
    destruct (header_write_step cr s0 s1 st0 st1 _ hf (c_header c) 0 false bits1 ops1 H0 H1 Hchs Hhok Hfits Hins)
      as (fr & pad & Hfr & Hl & _ & -> & -> & Hwr & st0' & st1' & S0 & S1 & Hch' & Hcb).
    set (bits := ol_bits (c_oplog c)) in *.
    set (s0' := put0 (w_slot bits) (fr ++ pad) s0) in *. set (s1' := put1 (w_slot bits) (fr ++ pad) s1) in *.
    assert (L0 : length s0 = SLOT) by (destruct st0; apply H0).
    assert (L1 : length s1 = SLOT) by (destruct st1; apply H1).
    (* the disks *)
    set (fb := write_pages (d_bitfield d) (bf_bits b) (bf_dirty b)).
    set (ft := write_nodes (d_tree d) ws).
    set (fo1 := f_write (d_oplog d) (w_slot bits) (fr ++ pad)).
    set (fo2 := f_truncate fo1 (ENTRIES_OFFSET + 0)).
    assert (Ed3 : d3 = mkDisk ft (d_data d) fb fo2).
    { unfold fl, page_ops in A.
      rewrite CoreFacts.apply_sops_app, apply_page_writes, CoreFacts.apply_sops_app, apply_node_writes in A.
      cbn [apply_sops apply_sop d_get d_set d_tree d_oplog] in A. injection A as <-. reflexivity. }
    assert (Ed3v : d_tree d3v = write_nodes ft ws /\ d_data d3v = d_data d).
    { unfold fl, page_ops in Av.
      rewrite CoreFacts.apply_sops_app, apply_page_writes, CoreFacts.apply_sops_app, apply_node_writes in Av.
      cbn [apply_sops apply_sop d_get d_set d_tree d_oplog] in Av. injection Av as <-.
      cbn [d_tree d_data]. rewrite Etv, Edv. split; reflexivity. }
    destruct Ed3v as [Et3v Edd3v].
    (* the unflushed nodes are the writer's and list the unflushed map *)
    pose proof (covers_unflushed t Hun) as Hcov.
    assert (Hws : auth_list cr bs r ws) by (apply (covers_auth cr bs t r ws W5 Hcov)).
    pose proof (auth_list_32 cr Hhash32 bs r ws Hws) as H32.
    assert (Hshadow : forall v, In v ws -> nm_get (n_index v) (t_unflushed t) <> None).
    { intros v Hv. destruct Hcov as [C1 _]. rewrite (C1 v Hv). discriminate. }
    (* the completed store is sound, hence aligned *)
    destruct (complete_store cr Hhash32 Hnonblank bs Hw1 t (d_tree d) r ws W5 Hcov W6 W6') as [Fsv _].
    fold ft in Fsv.
    (* after the flush the real store holds what the completed store holds *)
    assert (Vfin : forall q, fget ft q = fget (write_nodes ft ws) q).
    { intros q. destruct (nm_get q (t_unflushed t)) as [n|] eqn:Gq.
      - destruct Hcov as [_ C2]. pose proof (C2 q n Gq) as Hn.
        destruct (W5 _ _ Gq) as [En _]. assert (Ei : n_index n = q) by (rewrite En; apply ref_at_index_id).
        rewrite <- Ei. unfold ft.
        rewrite (fget_write_nodes_in cr Hhash32 Hnonblank bs Hw1 ws _ r n Hws Hn).
        rewrite (fget_write_nodes_in cr Hhash32 Hnonblank bs Hw1 ws _ r n Hws Hn). reflexivity.
      - symmetry. apply fget_write_nodes_other; [exact H32| |apply (file_sound_rec_ok cr bs ft r q Fsv)].
        intros v Hv Ev0. destruct Hcov as [C1 _]. rewrite <- Ev0, (C1 v Hv) in Gq. discriminate Gq. }
    (* the final state *)
    assert (Wfin : RInvZ cr bs c' d3).
    { assert (Emf : maybe_flush cr (Some true) c (mkWorld dv j ev) =
                    (c', mkWorld d3v (rev fl ++ j) ev, Ok tt)).
      { unfold maybe_flush. rewrite mbind_get_core. cbv iota. rewrite mbind_put_skip. exact Ev. }
      pose proof (RInv_flush cr Hhash32 Hnonblank bs (conj Hw1 Hw2) (Some true) c dv j ev _ _ tt (RDInv_RInv cr bs c dv H Xv) Emf)
        as Wv. cbn [w_disk] in Wv.
      apply (RInv_RInvZ_veq cr bs c' d3 d3v Wv).
      - rewrite Edd3v, Ed3. reflexivity.
      - rewrite Et3v, Ed3. cbn [d_tree c' c_tree t_unflushed]. intros q _. apply Vfin.
      - rewrite Ed3. cbn [d_tree c' c_tree t_unflushed]. intros q _. apply (file_sound_rec_ok cr bs ft r q Fsv). }
    assert (Tokft : TreeOk ft) by (apply TreeOk_write_nodes; assumption).
    destruct (BfSyncZ_flush (d_bitfield d) b Hsync) as [Ffb Rfb]. fold fb in Ffb, Rfb.
    assert (BX : BfR (N.of_nat (length bs)) fb [] (hd_contig (c_header c)) H).
    { apply BfR_exact; [exact Hnb|intros i; rewrite Ffb; apply Hb|intros i; rewrite Rfb; apply Hb|exact Hex]. }
    assert (Fst : store_roots cr bs ft r).
    { destruct Wfin as (_ & _ & V3 & _ & _ & _ & V7 & _). rewrite Ed3 in V7. cbn [c' c_tree t_roots t_length d_tree] in V3, V7.
      intros x Hx. fold r in V3. rewrite <- V3 in Hx. specialize (V7 x Hx).
      apply required_node_store_inv in V7; [exact V7|reflexivity]. }
    assert (FT : RTreeZ cr bs (rtree cr bs r None []) ft (d_data d) H).
    { unfold RInvZ in Wfin. rewrite Ed3 in Wfin. cbn [c' c_tree c_bitfield d_tree d_data] in Wfin.
      refine (RTreeZ_ext cr bs _ _ _ _ _ H _ _ _ _ _ _ Wfin); cbn [rtree t_roots t_length t_byte_length t_fork t_unflushed];
        try reflexivity.
      - symmetry. exact W3.
      - symmetry. exact W4.
      - symmetry. exact W2.
      - intros i. unfold bf_get. cbn [bf_bits]. symmetry. apply Hb. }
    assert (Hcont3 : f_content fo2 = s0' ++ s1' ++ []).
    { unfold fo2, fo1. rewrite f_content_truncate, f_content_write, Hcont, Hwr, N.add_0_r.
      apply c_truncate_all_entries; [destruct st0'; apply S0|destruct st1'; apply S1]. }
    assert (Xfin : RDInvZ cr bs c' d3 H).
    { split; [exact Wfin|]. rewrite Ed3.
      cbn [c' c_tree c_keypair c_bitfield c_header c_oplog d_tree d_oplog d_bitfield t_length t_signature t_unflushed].
      split; [intros i; unfold bf_get; cbn [bf_bits]; apply Hb|].
      split; [exact Hex|]. split; [exact Hk|]. split; [exact Hs|]. split; [exact Tokft|].
      exists s0', s1', [], st0', st1', (c_header c), [], r.
      split; [exact Hcont3|].
      split. { split; [exact S0|]. split; [exact S1|]. split; [exact Hch'|]. split; reflexivity. }
      split; [reflexivity|]. split; [reflexivity|].
      split; [split; [exact Hhok|split; [exact Hkp|exact Hd]]|].
      split; [symmetry; apply hdr_after_nil|].
      split; [reflexivity|]. split; [reflexivity|]. split; [exact Fst|]. split; [exact BX|].
      intros i Hne. exfalso. change (bf_get b i <> rbit fb i \/ bf_get b i <> fbit fb i) in Hne.
      rewrite Rfb, Ffb in Hne. destruct Hne as [Hne|Hne]; apply Hne; reflexivity. }
    (* ---- the closure of the stored nodes ---- *)
    assert (Hclo0 : ClosedR (rtree cr bs r None (flat_map e_nodes l)) (d_tree d)).
    { apply (ClosedR_same t); [|cbn [rtree t_unflushed]; symmetry; exact Hu|exact Hclo].
      cbn [rtree t_roots]. exact (eq_sym W3). }
    assert (HcloV : forall tfk, veq (t_unflushed t) tfk (d_tree d) ->
                      ClosedR (rtree cr bs r None (flat_map e_nodes l)) tfk).
    { intros tfk Hv. apply (ClosedR_lookups _ (d_tree d)); [|exact Hclo0].
      apply veq_same_lookups. cbn [rtree t_unflushed]. rewrite <- Hu. apply veq_sym. exact Hv. }
    assert (Hclofin : ClosedR (c_tree c') (d_tree d3)).
    { assert (Emf : maybe_flush cr (Some true) c (mkWorld dv j ev) =
                    (c', mkWorld d3v (rev fl ++ j) ev, Ok tt)).
      { unfold maybe_flush. rewrite mbind_get_core. cbv iota. rewrite mbind_put_skip. exact Ev. }
      pose proof (maybe_flush_navail cr Hhash32 Hnonblank bs (conj Hw1 Hw2) (Some true) c dv j ev c' _ tt
                    (RDInv_RInv cr bs c dv H Xv) Emf) as Hnav.
      cbn [w_disk] in Hnav.
      assert (Hclo_v : ClosedR t (d_tree dv)).
      { apply (ClosedR_lookups _ (d_tree d)); [|exact Hclo]. apply veq_same_lookups. exact Hveq. }
      assert (Hc3v : ClosedR (c_tree c') (d_tree d3v)).
      { apply (ClosedR_ext t (d_tree dv)); [reflexivity|exact Hnav|exact Hclo_v]. }
      rewrite Ed3. cbn [d_tree]. apply (ClosedR_lookups _ (d_tree d3v)); [|exact Hc3v].
      rewrite Et3v. apply veq_same_lookups. intros q _. symmetry. apply Vfin. }
    assert (FC : ClosedR (rtree cr bs r None []) ft).
    { rewrite Ed3 in Hclofin. cbn [d_tree] in Hclofin.
      apply (ClosedR_same (c_tree c')); [|reflexivity|exact Hclofin].
      cbn [rtree c' c_tree t_roots]. exact (eq_sym W3). }
    split; [split; [exact Xfin|exact Hclofin]|]. split; [reflexivity|]. split; [reflexivity|].
    split.
    { intros _. rewrite Ed3. cbn [d_oplog]. rewrite Hcont3.
      apply (hyg_full_write cr Hcrc s0 s1 st0 st1 bits hf [] (c_header c) fr pad H0 H1 Hchs Hfr Hl). }
    (* the tree of the pending entries over the store under partial flushes *)
    assert (TT : RTreeZ cr bs (rtree cr bs r None (flat_map e_nodes l)) (d_tree d) (d_data d) H).
    { apply (RTreeZ_ext cr bs t _ _ _ (bf_get b) H); try reflexivity.
      - cbn [rtree t_roots]. exact (eq_sym W3).
      - cbn [rtree t_byte_length]. exact (eq_sym W4).
      - cbn [rtree t_fork]. exact (eq_sym W2).
      - cbn [rtree t_unflushed]. symmetry. exact Hu.
      - intros i. symmetry. apply Hb.
      - exact W. }
    (* disks that still carry the old oplog and data *)
    assert (Old : forall dk, d_data dk = d_data d -> d_oplog dk = d_oplog d ->
                  TreeOk (d_tree dk) -> rchain cr bs pk (d_tree dk) [] kf l r -> store_roots cr bs (d_tree dk) kf ->
                  veq (t_unflushed t) (d_tree dk) (d_tree d) -> tail_ok (t_unflushed t) (d_tree dk) ->
                  BfR (N.of_nat (length bs)) (d_bitfield dk) (updates_of l) (hd_contig hf) H ->
                  RCDiskZ cr bs pk dk H r).
    { intros dk Edd Eo Hok' Hchk Hst' Hv' Htl' Hbf'. split; [exact Hok'|].
      exists s0, s1, body, st0, st1, bits, hf, l, kf. rewrite Edd, Eo.
      split; [exact Hcont|]. split; [left; exact G|]. split; [exact Hhf|]. split; [exact Hchk|].
      split; [exact Hst'|]. split; [|split; [exact Hbf'|apply HcloV; exact Hv']].
      apply (RTreeZ_veq cr bs _ (d_tree d)); [exact TT| |]; cbn [rtree t_unflushed]; rewrite <- Hu; assumption. }
    assert (OldW : forall ws' fbk, (forall v, In v ws' -> In v ws) ->
                   BfR (N.of_nat (length bs)) fbk (updates_of l) (hd_contig hf) H ->
                   RCDiskZ cr bs pk (mkDisk (write_nodes (d_tree d) ws') (d_data d) fbk (d_oplog d)) H r).
    { intros ws' fbk Hsub Hbk.
      assert (Hws' : auth_list cr bs r ws') by (intros v Hv; apply Hws, Hsub, Hv).
      destruct (veq_write_nodes (t_unflushed t) (d_tree d) ws') as [Hv' Htl'];
        [intros v Hv; apply Hshadow, Hsub, Hv|intros v Hv; apply H32, Hsub, Hv|exact W6'|].
      apply Old; cbn [d_data d_oplog d_tree d_bitfield]; try reflexivity; try assumption.
      - apply TreeOk_write_nodes; [exact Htok|]. intros v Hv. apply H32, Hsub, Hv.
      - apply (rchain_write_nodes cr Hhash32 Hnonblank bs Hw1 pk _ r); assumption.
      - apply (store_roots_write_nodes cr Hhash32 bs Hw1 _ _ r); assumption. }
    (* the disk after the slot write: new header, the entries of the previous epoch still there *)
    assert (New : forall x0 x1 y0 y1,
                  slot_is cr x0 y0 -> slot_is cr x1 y1 -> choose y0 y1 = Some (w_bits bits, c_header c) ->
                  forall fo, f_content fo = x0 ++ x1 ++ body ->
                  RCDiskZ cr bs pk (mkDisk ft (d_data d) fb fo) H r).
    { intros x0 x1 y0 y1 Y0 Y1 Ych fo Efo. split; [exact Tokft|].
      exists x0, x1, body, y0, y1, (w_bits bits), (c_header c), [], r.
      cbn [d_data d_oplog d_tree d_bitfield flat_map updates_of].
      split; [exact Efo|].
      split. { right. split; [reflexivity|]. split; [exact Y0|]. split; [exact Y1|]. split; [exact Ych|].
               exists (current_bit bits), l. split; [apply w_bits_current|exact Hf]. }
      split; [split; [exact Hhok|split; [exact Hkp|exact Hd]]|]. split; [reflexivity|].
      split; [exact Fst|]. split; [exact FT|]. split; [exact BX|exact FC]. }
    assert (Efo1 : f_content fo1 = s0' ++ s1' ++ body) by (unfold fo1; rewrite f_content_write, Hcont; apply Hwr).
    assert (Mid : RCDiskZ cr bs pk (mkDisk ft (d_data d) fb fo1) H r)
      by (apply (New s0' s1' st0' st1' S0 S1 Hch' fo1 Efo1)).
    split.
    { (* the clean cuts *)
      unfold fl.
      apply (cuts_app d _ _ _ (d_set d Bitfield fb)).
      { intros k. unfold page_ops. rewrite firstn_map, apply_page_writes. eexists. split; [reflexivity|].
        split; [|intros Hh0; destruct d; exact Hh0].
        replace (d_set d Bitfield (write_pages (d_bitfield d) (bf_bits b) (firstn k (bf_dirty b))))
          with (mkDisk (write_nodes (d_tree d) []) (d_data d) (write_pages (d_bitfield d) (bf_bits b) (firstn k (bf_dirty b)))
                       (d_oplog d)) by (destruct d; reflexivity).
        apply OldW; [intros v []|apply BfR_write_pages; assumption]. }
      { unfold page_ops. apply apply_page_writes. }
      apply (cuts_app _ _ _ _ (d_set (d_set d Bitfield fb) Tree ft)).
      { intros k. rewrite firstn_map, apply_node_writes. eexists. split; [reflexivity|].
        split; [|intros Hh0; destruct d; exact Hh0].
        replace (d_set (d_set d Bitfield fb) Tree (write_nodes (d_tree (d_set d Bitfield fb)) (firstn k ws)))
          with (mkDisk (write_nodes (d_tree d) (firstn k ws)) (d_data d) fb (d_oplog d)) by (destruct d; reflexivity).
        apply OldW; [intros v Hv; eapply in_firstn; exact Hv|apply BfR_write_pages; assumption]. }
      { apply apply_node_writes. }
      intros k. destruct k as [|[|k]].
      - eexists. split; [reflexivity|]. split; [|intros Hh0; destruct d; exact Hh0].
        replace (d_set (d_set d Bitfield fb) Tree ft) with (mkDisk (write_nodes (d_tree d) ws) (d_data d) fb (d_oplog d))
          by (destruct d; reflexivity).
        apply OldW; [intros v Hv; exact Hv|apply BfR_write_pages; assumption].
      - eexists. split; [reflexivity|]. destruct d as [f1 f2 f3 f4]. split; [exact Mid|].
        change (hyg cr (f_content f4) -> hyg cr (f_content fo1)). cbn [d_oplog] in *.
        rewrite Efo1, Hcont. intros Hh0.
        apply (hyg_header_write cr Hcrc s0 s1 body body bits (c_header c) fr pad L0 L1 Hfr Hl Hh0).
      - cbn [firstn]. rewrite firstn_nil. eexists. split; [reflexivity|].
        pose proof (RCInvZ_RCDiskZ cr bs _ _ H (conj Xfin Hclofin)) as XDf. cbn [c' c_keypair c_tree t_length] in XDf.
        rewrite Ed3 in XDf. destruct d as [f1 f2 f3 f4]. split; [exact XDf|].
        change (hyg cr (f_content f4) -> hyg cr (f_content fo2)). cbn [d_oplog] in *.
        rewrite Hcont3, Hcont. intros Hh0.
        apply (hyg_header_write cr Hcrc s0 s1 body [] bits (c_header c) fr pad L0 L1 Hfr Hl Hh0). }
    (* the torn cuts *)
    unfold fl.
    apply (tcuts_app d _ _ _ (d_set d Bitfield fb)).
    { (* a torn page write *)
      intros k o tt Hnk Htt. unfold page_ops in Hnk. rewrite nth_error_map in Hnk.
      destruct (nth_error (bf_dirty b) k) as [p|] eqn:Ep; [|discriminate Hnk]. cbn [option_map] in Hnk. injection Hnk as <-.
      unfold page_ops. rewrite firstn_map, apply_page_writes.
      eexists. eexists. split; [reflexivity|]. split; [reflexivity|]. intros _. left.
      match goal with |- RCDiskZ _ _ _ ?dd _ _ =>
        replace dd with (mkDisk (write_nodes (d_tree d) []) (d_data d)
                           (f_write (write_pages (d_bitfield d) (bf_bits b) (firstn k (bf_dirty b))) (p * PAGE_BYTES)
                                    (firstn tt (page_bytes (bf_bits b) p))) (d_oplog d))
          by (destruct d; reflexivity)
      end.
      apply OldW; [intros v []|].
      apply (BfR_write_image _ _ _ _ b); [exact Hnb|apply BfR_write_pages; assumption|exact Hb|].
      apply mem_image_firstn, mem_image_page. }
    { unfold page_ops. apply apply_page_writes. }
    apply (tcuts_app _ _ _ _ (d_set (d_set d Bitfield fb) Tree ft)).
    { (* a torn node write *)
      intros k o tt Hnk Htt. rewrite nth_error_map in Hnk.
      destruct (nth_error ws k) as [v|] eqn:Ev0; [|discriminate Hnk]. cbn [option_map] in Hnk. injection Hnk as <-.
      rewrite firstn_map, apply_node_writes.
      eexists. eexists. split; [reflexivity|]. split; [reflexivity|]. intros _. left.
      assert (Hv0 : In v ws) by (eapply nth_error_In; exact Ev0).
      assert (Hsub : forall x, In x (firstn k ws) -> In x ws) by (intros x Hx; eapply in_firstn; exact Hx).
      set (tfk := write_nodes (d_tree d) (firstn k ws)).
      match goal with |- RCDiskZ _ _ _ ?dd _ _ =>
        replace dd with (mkDisk (f_write tfk (NODE_SIZE * n_index v) (firstn tt (node_to_bytes v))) (d_data d) fb (d_oplog d))
          by (destruct d; reflexivity)
      end.
      assert (Hwsk : auth_list cr bs r (firstn k ws)) by (intros x Hx; apply Hws, Hsub, Hx).
      destruct (veq_write_nodes (t_unflushed t) (d_tree d) (firstn k ws)) as [Hvk Htlk];
        [intros x Hx; apply Hshadow, Hsub, Hx|intros x Hx; apply H32, Hsub, Hx|exact W6'|]. fold tfk in Hvk, Htlk.
      destruct (veq_torn_node (t_unflushed t) tfk v tt (Hshadow v Hv0) (H32 v Hv0) Htlk) as [Hvt Htlt].
      assert (Tokk : TreeOk tfk) by (apply TreeOk_write_nodes; [exact Htok|intros x Hx; apply H32, Hsub, Hx]).
      apply Old; cbn [d_data d_oplog d_tree d_bitfield]; try reflexivity.
      - apply TreeOk_node_write; [exact Tokk|apply H32, Hv0].
      - apply (rchain_torn_node cr Hhash32 bs pk tfk r v tt _ _ _ _ (Hws v Hv0) Tokk).
        apply (rchain_write_nodes cr Hhash32 Hnonblank bs Hw1 pk _ r); assumption.
      - apply (store_roots_torn_node cr Hhash32 bs tfk kf r v tt (Hws v Hv0) Tokk).
        apply (store_roots_write_nodes cr Hhash32 bs Hw1 _ _ r); assumption.
      - apply (veq_trans _ _ tfk); assumption.
      - exact Htlt.
      - apply BfR_write_pages; assumption. }
    { apply apply_node_writes. }
    set (d2 := d_set (d_set d Bitfield fb) Tree ft).
    assert (Ed2 : d2 = mkDisk ft (d_data d) fb (d_oplog d)) by (destruct d as [xt xd xb xo]; reflexivity).
    apply (tcuts_cons d2 _ _ _ (mkDisk ft (d_data d) fb fo1)).
    { (* the torn slot write *)
      intros tt Htt. cbn [wlen] in Htt. eexists. split; [reflexivity|]. intros Hsafe.
      rewrite Ed2 in Hsafe |- *. cbn [tear_safe d_oplog f_content] in Hsafe.
      cbn [tear apply_sop d_get d_set d_tree d_data d_bitfield d_oplog].
      assert (Hdead : (tt <= 4)%nat -> (if w_slot bits =? 0 then st0 else st1) = SInvalid ->
                      slot_dead cr (if w_slot bits =? 0 then s0 else s1)).
      { intros H4 Hinv. rewrite Hcont, (slot_at_w s0 s1 body bits L0 L1) in Hsafe. apply Hsafe; [|exact H4|].
        - apply w_slot_cases.
        - destruct (w_slot bits =? 0); [rewrite Hinv in H0; apply H0|rewrite Hinv in H1; apply H1]. }
      destruct (torn_slot_outcomes cr Hcrc s0 s1 body st0 st1 bits hf l (c_header c) fr pad tt G Hhok Hfr Hl Htt Hdead)
        as [Hcw [(x0 & x1 & Gt)|[(x0 & x1 & T0 & T1 & Tch)|C]]].
      - (* before: the old header and its entries, pages and nodes flushed *)
        left. split; [exact Tokft|].
        do 2 eexists. exists body, x0, x1, bits, hf, l, kf. cbn [d_data d_oplog d_tree d_bitfield].
        split; [rewrite f_content_write, Hcont; exact Hcw|].
        split; [left; exact Gt|]. split; [exact Hhf|].
        split; [apply (rchain_write_nodes cr Hhash32 Hnonblank bs Hw1 pk _ r); assumption|].
        split; [apply (store_roots_write_nodes cr Hhash32 bs Hw1 _ _ r); assumption|].
        destruct (veq_write_nodes (t_unflushed t) (d_tree d) ws Hshadow H32 W6') as [Hv' Htl'].
        split; [|split; [apply BfR_write_pages; assumption|apply HcloV; exact Hv']].
        apply (RTreeZ_veq cr bs _ (d_tree d)); [exact TT| |]; cbn [rtree t_unflushed]; rewrite <- Hu; assumption.
      - (* after *)
        left. apply (New _ _ x0 x1 T0 T1 Tch). rewrite f_content_write, Hcont. exact Hcw.
      - right. split; [|exact C]. cbn [is_slot_write]. destruct (w_slot_cases bits) as [-> | ->]; reflexivity. }
    { rewrite Ed2. reflexivity. }
    apply (tcuts_cons _ _ _ _ (mkDisk ft (d_data d) fb fo2)); [|reflexivity|apply tcuts_nil].
    intros tt _. eexists. split; [reflexivity|]. intros _. left.
    pose proof (RCInvZ_RCDiskZ cr bs _ _ H (conj Xfin Hclofin)) as XDf. cbn [c' c_keypair c_tree t_length] in XDf.
    rewrite Ed3 in XDf. exact XDf.
  Qed.
End FlushRCZ.

(* ====================================================================================== *)
(* D. The entry write torn after t bytes, from a closed state                               *)
(* ====================================================================================== *)

Section PiecesCZ.
  Variable cr : crypto.
  Hypothesis Hcrc : crc_ok cr.
  Hypothesis Hhash32 : forall x, length (cr_hash cr x) = 32%nat.
  Hypothesis Hnonblank : forall x, all_zero (cr_hash cr x) = false.
  Hypothesis Hhashbytes : forall x, bytes_ok (cr_hash cr x) = true.
  Variable bs : list bytes.
  Hypothesis Hw : writer_fits bs.

  Lemma torn_entry_recovers_RC c d d1 H e o' fr t :
    RCInvZ cr bs c d H -> entry_ok e = true ->
    oplog_append cr (c_oplog c) e = Ok (o', [SW Oplog (ENTRIES_OFFSET + ol_entries_bytes (c_oplog c)) fr]) ->
    (t < length fr)%nat ->
    d_tree d1 = d_tree d -> d_bitfield d1 = d_bitfield d -> d_oplog d1 = d_oplog d ->
    (forall i, H i = true -> len (blk bs i) <> 0 ->
               f_read (d_data d1) (prefix_size bs i) (len (blk bs i)) = Some (blk bs i)) ->
    recoversRC cr bs (kp_public (c_keypair c))
      (d_set d1 Oplog (f_write (d_oplog d1) (ENTRIES_OFFSET + ol_entries_bytes (c_oplog c)) (firstn t fr)))
      H (t_length (c_tree c)).
  Proof.
    intros RC Hok OA Ht Et Eb Eo Hd1. pose proof RC as [X Hclo].
    pose proof (RDiskZ_data cr bs _ d d1 H _ (RDInvZ_RDiskZ cr bs c d H X) Et Eo Eb Hd1) as XD1.
    pose proof X as (W & Hb & Hex & Hk & Hs & Htok & s0 & s1 & body & st0 & st1 & hf & l & kf &
                     Hcont & G & Hlen & Hbytes & Hhf & Hh & Hch & Hu & Hst & Hbf & Hsync).
    set (off := ENTRIES_OFFSET + ol_entries_bytes (c_oplog c)) in *.
    assert (Eol : c_oplog c = oo_oplog (stable_result (ol_bits (c_oplog c)) hf l)).
    { cbn [stable_result oo_oplog]. destruct (c_oplog c) as [bits el eb]. cbn [ol_bits ol_entries_len ol_entries_bytes] in *.
      rewrite Hlen, Hbytes. reflexivity. }
    assert (OA' : oplog_append cr (oo_oplog (stable_result (ol_bits (c_oplog c)) hf l)) e = Ok (o', [SW Oplog off fr]))
      by (rewrite <- Eol; exact OA).
    destruct (append_crash cr Hcrc s0 s1 body st0 st1 _ hf l e o' _ G Hok OA')
      as (fr' & Eops & _ & _ & _ & _ & _ & Torn).
    injection Eops as Eoff <-.
    destruct (Torn t Ht) as [To Tc].
    assert (Hclo0 : ClosedR (rtree cr bs (t_length (c_tree c)) None (flat_map e_nodes l)) (d_tree d)).
    { apply (ClosedR_same (c_tree c)); [|cbn [rtree t_unflushed]; symmetry; exact Hu|exact Hclo].
      cbn [rtree t_roots]. destruct W as (_ & _ & -> & _). reflexivity. }
    destruct (good_slot_lengths cr _ _ _ _ _ _ _ _ G) as [L0s L1s].
    set (d1t := d_set d1 Oplog (f_write (d_oplog d1) off (firstn t fr))).
    assert (Dt : d_tree d1t = d_tree d) by (rewrite <- Et; destruct d1; reflexivity).
    assert (Dd : d_data d1t = d_data d1) by (destruct d1; reflexivity).
    assert (Db : d_bitfield d1t = d_bitfield d) by (rewrite <- Eb; destruct d1; reflexivity).
    assert (Do : d_oplog d1t = f_write (d_oplog d) off (firstn t fr)) by (rewrite <- Eo; destruct d1; reflexivity).
    assert (Ec : f_content (d_oplog d1t) = c_write (s0 ++ s1 ++ body) (len (s0 ++ s1 ++ body)) (firstn t fr)).
    { rewrite Do, f_content_write, Hcont, Eoff. reflexivity. }
    rewrite <- Ec in To. cbn [stable_result oo_oplog] in To.
    (* the tree of the pending entries, over the data store of d1 *)
    assert (TT : RTreeZ cr bs (rtree cr bs (t_length (c_tree c)) None (flat_map e_nodes l)) (d_tree d) (d_data d1) H).
    { destruct XD1 as (_ & t0 & t1 & tbody & tst0 & tst1 & tbits & thf & tl & tkf & Tcont & TO & Thf & Tch & Tst & TT & Tbf).
      pose proof W as (W1 & W2 & W3 & W4 & W5 & W6 & W7 & W8).
      split; [exact W1|]. split; [reflexivity|]. split; [reflexivity|]. split; [reflexivity|].
      assert (Rq : forall q, required_node (rtree cr bs (t_length (c_tree c)) None (flat_map e_nodes l)) (d_tree d) q =
                             required_node (c_tree c) (d_tree d) q).
      { intros q. apply required_node_same_unflushed. cbn [rtree t_unflushed]. symmetry. exact Hu. }
      cbn [rtree t_length t_roots t_unflushed]. rewrite <- Hu.
      split. { intros q nd Gq. cbn [rtree t_unflushed] in Gq. rewrite <- Hu in Gq. apply (W5 q nd Gq). }
      split; [exact W6|]. split. { intros x Hx. rewrite Rq. apply W7. rewrite W3. exact Hx. }
      intros i Hi. rewrite <- Hb in Hi. destruct (W8 i Hi) as (A1 & A2 & A3 & _).
      split; [exact A1|]. split; [rewrite Rq; exact A2|]. split.
      - intros dd o C1 C2 C3. rewrite Rq. apply A3; assumption.
      - apply Hd1. rewrite <- Hb. exact Hi. }
    destruct (N.ltb_spec 0 (N.of_nat t)) as [Lt|Lt].
    - set (d1r := d_set d1t Oplog (f_truncate (d_oplog d1t) (len (s0 ++ s1 ++ body)))).
      apply (reopen_after_repair_RC cr Hhash32 Hnonblank Hhashbytes bs _ d1t d1r H _ s0 s1 body st0 st1 _ hf l kf _ To);
        try (destruct d1t; reflexivity); try (rewrite ?Dt, ?Dd, ?Db; assumption).
      + replace (d_oplog d1r) with (f_truncate (d_oplog d1t) (len (s0 ++ s1 ++ body))) by (destruct d1t; reflexivity).
        rewrite f_content_truncate, Ec. exact Tc.
      + replace (d_oplog d1r) with (f_truncate (d_oplog d1t) (len (s0 ++ s1 ++ body))) by (destruct d1t; reflexivity).
        rewrite f_content_truncate, Ec, Tc, c_write_end, <- !app_assoc.
        apply (hyg_body cr s0 s1 (body ++ firstn t fr) body L0s L1s).
    - assert (t = 0%nat) as -> by lia.
      apply (reopen_after_repair_RC cr Hhash32 Hnonblank Hhashbytes bs _ d1t d1t H _ s0 s1 body st0 st1 _ hf l kf _ To);
        try reflexivity; try (rewrite ?Dt, ?Dd, ?Db; assumption); [|intros Hh0; exact Hh0].
      rewrite Ec. cbn [firstn]. rewrite c_write_end, app_nil_r. reflexivity.
  Qed.
End PiecesCZ.

Print Assumptions reopen_RCDiskZ.
Print Assumptions reopen_RCInvZ.
Print Assumptions maybe_flush_RCZ.
Print Assumptions torn_entry_recovers_RC.

(* FixedWords.v — word-level model of the bitfield. DEFINITIONS ONLY (executable, extractable).
   Mirrors, literally: src/bitfield/fixed.rs (FixedBitfield: [u32; 1024] + dirty) and
   src/bitfield/dynamic.rs (DynamicBitfield: page map, biggest_page_index, unflushed).
   Rust panics are explicit (`res` of HC.Base): index out of bounds on the word array,
   debug-build integer overflow (`start + length` in u32, `j + length` / `i -= 1` in u64),
   `unwrap()` on a missing page. Arguments are N; the u32/u64 ranges of the Rust signatures
   are the caller's obligation (the facts state them as guards).
   The refinement to HC.Bitfield is in FixedWordsFacts*.v. *)
From HC Require Import Base NMap.
From Coq Require Import FMapPositive.

Definition FW_WORDS : N := 1024.          (* FIXED_BITFIELD_LENGTH *)
Definition FW_BYTES : N := 4096.          (* FIXED_BITFIELD_BYTES_LENGTH *)
Definition FW_BITS : N := 32768.          (* FIXED_BITFIELD_BITS_LENGTH = DYNAMIC_BITFIELD_PAGE_SIZE *)
Definition u32_max : N := 4294967295.
Definition fits_u32 (v : N) : bool := v <=? u32_max.

(* ------------------------------------------------------------------ *)
(** * FixedBitfield *)

(* invariant of the Rust type (not enforced here): exactly 1024 words, each < 2^32 *)
Record page := mkPage { pg_dirty : bool; pg_words : list N }.

Definition fw_fuel_words : nat := N.to_nat 1024.
Definition fw_zero_words : list N := repeat 0 fw_fuel_words.

Definition fw_new : page := mkPage false fw_zero_words.

(* self.bitfield[i] : bounds-checked against the array length 1024 *)
Definition word_at (ws : list N) (i : N) : res N :=
  if i <? FW_WORDS then Ok (nth (N.to_nat i) ws 0)
  else Panic "fixed.rs: index out of bounds: the len is 1024".

Fixpoint list_upd {A} (l : list A) (n : nat) (x : A) : list A :=
  match l, n with
  | [], _ => []
  | _ :: r, O => x :: r
  | a :: r, S k => a :: list_upd r k x
  end.

(* data[i] on an index known to be in range (0 otherwise: never reached by from_data) *)
Definition byte_at (data : bytes) (i : N) : N := nth (N.to_nat i) data 0.

(* from_data: `while i <= limit { bitfield[(i - data_index) / 4] = le32(data[i..i+4]); i += 4 }`.
   limit <= data_index + 4092, so the loop runs at most 1024 times; the fuel is exactly that. *)
Fixpoint fw_from_loop (fuel : nat) (data : bytes) (data_index limit i : N) (ws : list N) : list N :=
  match fuel with
  | O => ws
  | S f =>
      if i <=? limit then
        let value :=
          N.lor (N.lor (N.lor (byte_at data i)
                              (N.shiftl (byte_at data (i + 1)) 8))
                       (N.shiftl (byte_at data (i + 2)) 16))
                (N.shiftl (byte_at data (i + 3)) 24) in
        fw_from_loop f data data_index limit (i + 4)
                     (list_upd ws (N.to_nat ((i - data_index) / 4)) value)
      else ws
  end.

Definition fw_from_data (data_index : N) (data : bytes) : page :=
  mkPage false
    (if data_index + 4 <=? len data then
       let limit := N.min (data_index + FW_BYTES) (len data) - 4 in
       fw_from_loop fw_fuel_words data data_index limit data_index fw_zero_words
     else fw_zero_words).

(* to_bytes: every word as 4 little-endian bytes *)
Definition fw_to_bytes (p : page) : bytes := flat_map (le_bytes 4) (pg_words p).

Definition fw_get (p : page) (index : N) : res bool :=
  let offset := N.land index 31 in
  let i := (index - offset) / 32 in
  w <- word_at (pg_words p) i ;;
  Ok (negb (N.land w (N.shiftl 1 offset) =? 0)).

(* set: returns the page and `changed`; does not touch `dirty` *)
Definition fw_set (p : page) (index : N) (value : bool) : res (page * bool) :=
  let offset := N.land index 31 in
  let i := (index - offset) / 32 in
  let mask := N.shiftl 1 offset in
  w <- word_at (pg_words p) i ;;
  let is_set := negb (N.land w mask =? 0) in
  if Bool.eqb is_set value then Ok (p, false)
  else Ok (mkPage (pg_dirty p) (list_upd (pg_words p) (N.to_nat i) (N.lxor w mask)), true).

(* set_range loop. `remaining` is an i64 in Rust and may go negative on the last subtraction;
   here it is an N with truncated subtraction: the loop condition `remaining > 0` reads the same.
   The loop increments i each turn and panics at i = 1024: 1025 turns of fuel are never exhausted. *)
Fixpoint fw_range_loop (fuel : nat) (ws : list N) (remaining offset i : N) (value changed : bool)
  : res (list N * bool) :=
  match fuel with
  | O => OutOfFuel
  | S f =>
      if remaining =? 0 then Ok (ws, changed)
      else
        let power := N.min remaining (32 - offset) in
        let mask_seed := if power =? 32 then u32_max else 2 ^ power - 1 in
        let mask := (N.shiftl mask_seed offset) mod 4294967296 in
        w <- word_at ws i ;;
        let wc :=
          if value then
            if negb (N.land w mask =? mask)
            then (list_upd ws (N.to_nat i) (N.lor w mask), true) else (ws, changed)
          else
            if negb (N.land w mask =? 0)
            then (list_upd ws (N.to_nat i) (N.land w (N.lxor mask u32_max)), true) else (ws, changed) in
        fw_range_loop f (fst wc) (remaining - (32 - offset)) 0 (i + 1) value (snd wc)
  end.

Definition fw_range_fuel : nat := N.to_nat 1025.

Definition fw_set_range (p : page) (start length : N) (value : bool) : res (page * bool) :=
  if negb (fits_u32 (start + length)) then Panic "fixed.rs set_range: start + length overflows u32"
  else
    let offset := N.land start 31 in
    let i := (start - offset) / 32 in
    '(ws, changed) <- fw_range_loop fw_range_fuel (pg_words p) length offset i value false ;;
    Ok (mkPage (pg_dirty p) ws, changed).

(* (position..32768).find(|i| self.get(i) == value) *)
Fixpoint fw_find_up (p : page) (value : bool) (i : N) (n : nat) : res (option N) :=
  match n with
  | O => Ok None
  | S k =>
      b <- fw_get p i ;;
      if Bool.eqb b value then Ok (Some i) else fw_find_up p value (i + 1) k
  end.

Definition fw_index_of (p : page) (value : bool) (pos : N) : res (option N) :=
  fw_find_up p value pos (N.to_nat (FW_BITS - pos)).

(* (0..position + 1).rev().find(|i| self.get(i) == value): examines n-1, n-2, .., 0 *)
Fixpoint fw_find_down (p : page) (value : bool) (n : nat) : res (option N) :=
  match n with
  | O => Ok None
  | S k =>
      b <- fw_get p (N.of_nat k) ;;
      if Bool.eqb b value then Ok (Some (N.of_nat k)) else fw_find_down p value k
  end.

(* the first element examined is `position` itself: get(position) panics when position >= 32768
   (tested up front so that no huge unary number is ever built) *)
Definition fw_last_index_of (p : page) (value : bool) (pos : N) : res (option N) :=
  if negb (fits_u32 (pos + 1)) then Panic "fixed.rs last_index_of: position + 1 overflows u32"
  else if FW_BITS <=? pos then Panic "fixed.rs: index out of bounds: the len is 1024"
  else fw_find_down p value (N.to_nat (pos + 1)).

(* ------------------------------------------------------------------ *)
(** * DynamicBitfield *)

Record dyn := mkDyn { dw_pages : nmap page; dw_biggest : N; dw_unflushed : list N }.

Definition dw_empty : dyn := mkDyn nm_empty 0 [].

(* first call of open (StoreInfoType::Size): asks for bytes [0, length - (length & 3)) *)
Definition dw_open_request (store_length : N) : N := store_length - N.land store_length 3.

(* `while data_index < data.len() { pages.insert(data_index / 4096, from_data(data_index, data)); .. }` *)
Fixpoint dw_open_loop (n : nat) (data : bytes) (dlen data_index : N) (pages : nmap page) (biggest : N)
  : nmap page * N :=
  match n with
  | O => (pages, biggest)
  | S k =>
      if data_index <? dlen then
        let parent := data_index / FW_BYTES in
        dw_open_loop k data dlen (data_index + FW_BYTES)
                     (nm_set parent (fw_from_data data_index data) pages)
                     (if biggest <? parent then parent else biggest)
      else (pages, biggest)
  end.

(* second call of open (content received). [content] is the store content from offset 0; only the
   requested prefix is looked at (pass exactly the requested bytes, or the whole file: same result). *)
Definition dw_open (store_length : N) (content : bytes) : dyn :=
  let data := firstn (N.to_nat (dw_open_request store_length)) content in
  let dlen := len data in
  if 4 <=? dlen then
    let pb := dw_open_loop (N.to_nat ((dlen + 4095) / 4096)) data dlen 0 nm_empty 0 in
    mkDyn (fst pb) (snd pb) []
  else mkDyn nm_empty 0 [].

(* flush: for each unflushed id, in order: pages.get_mut(id).unwrap(); write (id * 4096, to_bytes);
   dirty = false. Returns the new state and the writes in order. *)
Fixpoint dw_flush_loop (ids : list N) (pages : nmap page) : res (nmap page * list (N * bytes)) :=
  match ids with
  | [] => Ok (pages, [])
  | id :: r =>
      match nm_get id pages with
      | None => Panic "dynamic.rs flush: unwrap on a missing page"
      | Some p =>
          let data := fw_to_bytes p in
          off <- mul64 "dynamic.rs flush: unflushed_id * data.len()" id (len data) ;;
          '(pages', ws) <- dw_flush_loop r (nm_set id (mkPage false (pg_words p)) pages) ;;
          Ok (pages', (off, data) :: ws)
      end
  end.

Definition dw_flush (d : dyn) : res (dyn * list (N * bytes)) :=
  '(pages, ws) <- dw_flush_loop (dw_unflushed d) (dw_pages d) ;;
  Ok (mkDyn pages (dw_biggest d) [], ws).

Definition dw_get (d : dyn) (index : N) : res bool :=
  let j := N.land index 32767 in
  let i := (index - j) / FW_BITS in
  match nm_get i (dw_pages d) with
  | None => Ok false
  | Some p => fw_get p j
  end.

(* set (dead code in the crate, used by its unit tests) *)
Definition dw_set (d : dyn) (index : N) (value : bool) : res (dyn * bool) :=
  let j := N.land index 32767 in
  let i := (index - j) / FW_BITS in
  match nm_get i (dw_pages d), value with
  | None, false => Ok (d, false)
  | existing, _ =>
      let p := match existing with Some p => p | None => fw_new end in
      let biggest := match existing with
                     | Some _ => dw_biggest d
                     | None => if dw_biggest d <? i then i else dw_biggest d
                     end in
      '(p', changed) <- fw_set p j value ;;
      if changed && negb (pg_dirty p')
      then Ok (mkDyn (nm_set i (mkPage true (pg_words p')) (dw_pages d)) biggest (dw_unflushed d ++ [i]), true)
      else Ok (mkDyn (nm_set i p' (dw_pages d)) biggest (dw_unflushed d), changed)
  end.

(* one turn of `while length > 0` per page touched. The page is allocated (and biggest_page_index
   raised) before anything else, whatever `value` is. Turns: at most 2 + length / 32768 that do
   something, plus the one that sees length = 0. *)
Fixpoint dw_range_loop (fuel : nat) (d : dyn) (i j length : N) (value : bool) : res dyn :=
  match fuel with
  | O => OutOfFuel
  | S f =>
      if length =? 0 then Ok d
      else
        let existing := nm_get i (dw_pages d) in
        let p := match existing with Some p => p | None => fw_new end in
        let biggest := match existing with
                       | Some _ => dw_biggest d
                       | None => if dw_biggest d <? i then i else dw_biggest d
                       end in
        jl <- add64 "dynamic.rs set_range: j + length" j length ;;
        let end_ := N.min jl FW_BITS in
        let range_end := end_ - j in
        '(p', changed) <- fw_set_range p j range_end value ;;
        let d' :=
          if changed && negb (pg_dirty p')
          then mkDyn (nm_set i (mkPage true (pg_words p')) (dw_pages d)) biggest (dw_unflushed d ++ [i])
          else mkDyn (nm_set i p' (dw_pages d)) biggest (dw_unflushed d) in
        dw_range_loop f d' (i + 1) 0 (length - range_end) value
  end.

Definition dw_set_range (d : dyn) (start length : N) (value : bool) : res dyn :=
  let j := N.land start 32767 in
  let i := (start - j) / FW_BITS in
  dw_range_loop (S (S (S (N.to_nat (length / FW_BITS))))) d i j length value.

(* keys.sort() *)
Fixpoint ninsert (x : N) (l : list N) : list N :=
  match l with
  | [] => [x]
  | y :: r => if x <=? y then x :: l else y :: ninsert x r
  end.
Definition nsort (l : list N) : list N := fold_right ninsert [] l.

Definition dw_keys (d : dyn) : list N := map fst (nm_elements (dw_pages d)).

(* `for key in keys { if let Some(index) = page(key).index_of(true, 0) { return key * 32768 + index } }` *)
Fixpoint dw_first_true (pages : nmap page) (keys : list N) : res (option N) :=
  match keys with
  | [] => Ok None
  | key :: r =>
      match nm_get key pages with
      | Some p =>
          o <- fw_index_of p true 0 ;;
          match o with
          | Some index => Ok (Some (key * FW_BITS + index))
          | None => dw_first_true pages r
          end
      | None => dw_first_true pages r
      end
  end.

Fixpoint dw_last_true (pages : nmap page) (keys : list N) : res (option N) :=
  match keys with
  | [] => Ok None
  | key :: r =>
      match nm_get key pages with
      | Some p =>
          o <- fw_last_index_of p true (FW_BITS - 1) ;;
          match o with
          | Some index => Ok (Some (key * FW_BITS + index))
          | None => dw_last_true pages r
          end
      | None => dw_last_true pages r
      end
  end.

(* `while i == first_page || i <= self.biggest_page_index` *)
Fixpoint dw_index_false_loop (fuel : nat) (d : dyn) (first_page i j : N) : res (option N) :=
  match fuel with
  | O => OutOfFuel
  | S f =>
      if (i =? first_page) || (i <=? dw_biggest d) then
        match nm_get i (dw_pages d) with
        | Some p =>
            o <- fw_index_of p false j ;;
            match o with
            | Some index => Ok (Some (i * FW_BITS + index))
            | None => dw_index_false_loop f d first_page (i + 1) 0
            end
        | None => Ok (Some (i * FW_BITS + j))
        end
      else Ok None
  end.

Definition dw_index_of (d : dyn) (value : bool) (pos : N) : res (option N) :=
  let first_index := N.land pos 32767 in
  let first_page := (pos - first_index) / FW_BITS in
  if value then
    first <- match nm_get first_page (dw_pages d) with
             | Some p =>
                 o <- fw_index_of p true first_index ;;
                 Ok (match o with
                     | Some index => Some (first_page * FW_BITS + index)
                     | None => None
                     end)
             | None => Ok None
             end ;;
    match first with
    | Some r => Ok (Some r)
    | None => dw_first_true (dw_pages d)
                            (nsort (filter (fun key => first_page <? key) (dw_keys d)))
    end
  else
    dw_index_false_loop (S (S (N.to_nat (dw_biggest d - first_page)))) d first_page first_page first_index.

(* `while i == last_page || i == 0 { .. i -= 1; j = 32767 }`: at most two pages are looked at, and
   `i -= 1` on i = 0 is a u64 underflow (debug-build panic) *)
Fixpoint dw_last_false_loop (fuel : nat) (d : dyn) (last_page i j : N) : res (option N) :=
  match fuel with
  | O => OutOfFuel
  | S f =>
      if (i =? last_page) || (i =? 0) then
        match nm_get i (dw_pages d) with
        | Some p =>
            o <- fw_last_index_of p false j ;;
            match o with
            | Some index => Ok (Some (i * FW_BITS + index))
            | None =>
                i' <- sub64 "dynamic.rs last_index_of: i -= 1" i 1 ;;
                dw_last_false_loop f d last_page i' (FW_BITS - 1)
            end
        | None => Ok (Some (i * FW_BITS + j))
        end
      else Ok None
  end.

Definition dw_last_index_of (d : dyn) (value : bool) (pos : N) : res (option N) :=
  let last_index := N.land pos 32767 in
  let last_page := (pos - last_index) / FW_BITS in
  if value then
    first <- match nm_get last_page (dw_pages d) with
             | Some p =>
                 o <- fw_last_index_of p true last_index ;;
                 Ok (match o with
                     | Some index => Some (last_page * FW_BITS + index)
                     | None => None
                     end)
             | None => Ok None
             end ;;
    match first with
    | Some r => Ok (Some r)
    | None => dw_last_true (dw_pages d)
                           (rev (nsort (filter (fun key => key <? last_page) (dw_keys d))))
    end
  else
    dw_last_false_loop 3 d last_page last_page last_index.

(* ------------------------------------------------------------------ *)
(** * Script interpreter for differential testing against the crate *)

Inductive bw_cmd :=
| FNew | FFrom (di : N) (data : bytes) | FBytes | FGet (i : N) | FSet (i : N) (v : bool)
| FRange (s l : N) (v : bool) | FIndex (v : bool) (p : N) | FLast (v : bool) (p : N)
| DOpen (len : N) (data : bytes) | DFlush | DGet (i : N)
| DRange (s l : N) (v : bool) | DIndex (v : bool) (p : N) | DLast (v : bool) (p : N).

Inductive bw_obs :=
| OUnit | OBool (b : bool) | OOptN (o : option N)
| OWords (dirty : bool) (len : N) (nonzero : list (N * N))
| OWrites (w : list (N * list (N * N))) | OReq (n : N) | OPanic.

(* the (word index, value) pairs of the non-zero little-endian 32-bit words of a byte string
   (a trailing group of fewer than 4 bytes counts as a word, zero-extended) *)
Fixpoint bw_nonzero_words (k : N) (bs : bytes) (fuel : nat) : list (N * N) :=
  match fuel with
  | O => []
  | S f =>
      match bs with
      | [] => []
      | b0 :: [] => if b0 =? 0 then [] else [(k, b0)]
      | b0 :: b1 :: [] => let w := le_val [b0; b1] in if w =? 0 then [] else [(k, w)]
      | b0 :: b1 :: b2 :: [] => let w := le_val [b0; b1; b2] in if w =? 0 then [] else [(k, w)]
      | b0 :: b1 :: b2 :: b3 :: r =>
          let w := le_val [b0; b1; b2; b3] in
          (if w =? 0 then [] else [(k, w)]) ++ bw_nonzero_words (k + 1) r f
      end
  end.
Definition bw_words (bs : bytes) : list (N * N) := bw_nonzero_words 0 bs (S (length bs)).

Definition bw_obs_res {A} (r : res A) (f : A -> bw_obs) : bw_obs :=
  match r with Ok a => f a | _ => OPanic end.

(* One fixed page and one dynamic bitfield are threaded through the script. A command that
   panics leaves the model state unchanged (in the crate the object may be half-updated: a script
   should not go on using an object after its OPanic). OutOfFuel (never produced, see the facts)
   is reported as OPanic. *)
Definition bw_step (st : page * dyn) (c : bw_cmd) : (page * dyn) * bw_obs :=
  let '(p, d) := st in
  match c with
  | FNew => ((fw_new, d), OUnit)
  | FFrom di data => ((fw_from_data di data, d), OUnit)
  | FBytes => let bs := fw_to_bytes p in (st, OWords (pg_dirty p) (len bs) (bw_words bs))
  | FGet i => (st, bw_obs_res (fw_get p i) OBool)
  | FSet i v =>
      match fw_set p i v with
      | Ok (p', ch) => ((p', d), OBool ch)
      | _ => (st, OPanic)
      end
  | FRange s l v =>
      match fw_set_range p s l v with
      | Ok (p', ch) => ((p', d), OBool ch)
      | _ => (st, OPanic)
      end
  | FIndex v pos => (st, bw_obs_res (fw_index_of p v pos) OOptN)
  | FLast v pos => (st, bw_obs_res (fw_last_index_of p v pos) OOptN)
  | DOpen n data => ((p, dw_open n data), OReq (dw_open_request n))
  | DFlush =>
      match dw_flush d with
      | Ok (d', ws) => ((p, d'), OWrites (map (fun w => (fst w, bw_words (snd w))) ws))
      | _ => (st, OPanic)
      end
  | DGet i => (st, bw_obs_res (dw_get d i) OBool)
  | DRange s l v =>
      match dw_set_range d s l v with
      | Ok d' => ((p, d'), OUnit)
      | _ => (st, OPanic)
      end
  | DIndex v pos => (st, bw_obs_res (dw_index_of d v pos) OOptN)
  | DLast v pos => (st, bw_obs_res (dw_last_index_of d v pos) OOptN)
  end.

Fixpoint bw_run_from (st : page * dyn) (cs : list bw_cmd) : list bw_obs :=
  match cs with
  | [] => []
  | c :: r => let so := bw_step st c in snd so :: bw_run_from (fst so) r
  end.

Definition bw_run (cs : list bw_cmd) : list bw_obs := bw_run_from (fw_new, dw_empty) cs.

(* JsLayoutOps.v — C06 converse, part 2: after core_open has accepted a disk whose oplog entries carry partial flags
   (JsLayout.JsInv), the operations of Core.v behave as in C01.

   No operation of Core.v ever READS the oplog store (only core_open does); it only appends frames at the end and
   writes header slots followed by the truncate at ENTRIES_OFFSET.  [blind m] makes this precise: run m from the same
   core on two disks that are flag variants of each other (JsLayout.FlagRel: same tree / data / bitfield stores, oplog
   files that differ only in the partial flags of their frames) — the two runs return the same core, the same
   result, the same journal and the same events, and the final disks are again flag variants.

   Hence every theorem about a run from a CrashClear1.YInv state transfers to JsInv states: append, clear (result and
   preservation of the invariant), get / has / info (JsLayout.JsInv_observations), reopen (JsLayout.reopen_JsInv). *)
From HC Require Import Base NMap Codec CodecFacts Crypto FlatTree Storage Bitfield Oplog Merkle Core.
From HC Require Import FlatTreeFacts StorageFacts BitfieldFacts OplogFacts TreeRef OffsetFacts CoreFacts Crash Refine.
From HC Require Import ClearRefine Reopen ContigBridge Unified1 Unified2 CrashCore1 CrashCore2 CrashClear1 CrashClear2.
From HC Require Import JsLayout.
From Coq Require Import FMapPositive ZifyN ZifyNat ZifyBool.
Ltac Zify.zify_post_hook ::= Z.div_mod_to_equations.
Arguments N.add : simpl never.
Arguments N.sub : simpl never.
Arguments N.mul : simpl never.
Arguments N.div : simpl never.
Arguments N.modulo : simpl never.
Arguments N.pow : simpl never.
Arguments N.eqb : simpl never.
Arguments N.ltb : simpl never.
Arguments N.leb : simpl never.
Arguments N.max : simpl never.
Arguments N.min : simpl never.
Arguments N.of_nat : simpl never.
Arguments N.to_nat : simpl never.

(* ====================================================================================== *)
(* A. Contents: what the two kinds of oplog writes do to a pair of flag variants           *)
(* ====================================================================================== *)

(* a header-slot write (ANY offset and length) followed by the truncate at ENTRIES_OFFSET makes two contents that
   agree on the two slots and have the same length equal *)
Lemma header_pair_equal (co cn : bytes) a x :
  length co = length cn ->
  (forall i, (i < N.to_nat ENTRIES_OFFSET)%nat -> nth i co 0 = nth i cn 0) ->
  c_truncate (c_write co a x) ENTRIES_OFFSET = c_truncate (c_write cn a x) ENTRIES_OFFSET.
Proof.
  intros L P. apply (nth_ext _ _ 0 0).
  - rewrite !length_c_truncate. reflexivity.
  - intros i Hi. rewrite length_c_truncate in Hi. rewrite !nth_c_truncate, !nth_c_write.
    destruct (Nat.ltb_spec i (N.to_nat ENTRIES_OFFSET)) as [A|A]; [|reflexivity].
    destruct ((N.to_nat a <=? i)%nat && (i <? N.to_nat a + length x)%nat); [reflexivity|apply P, A].
Qed.

Section Contents.
  Variable cr : crypto.

  Lemma FlagVar_lengths o co cn :
    FlagVar cr o co cn ->
    length co = length cn /\ (forall i, (i < N.to_nat ENTRIES_OFFSET)%nat -> nth i co 0 = nth i cn 0) /\
    len co = ENTRIES_OFFSET + ol_entries_bytes o /\ len cn = ENTRIES_OFFSET + ol_entries_bytes o.
  Proof.
    intros (s0 & s1 & lp & fb & fbn & L0 & L1 & -> & -> & Hf & Hfn & Hk & Hsz).
    pose proof (frames_len cr _ _ _ Hf) as Lf. pose proof (frames_len cr _ _ _ Hfn) as Lfn.
    rewrite frames_size_tag in Lfn.
    split; [rewrite !app_length; unfold len in Lf, Lfn; lia|].
    split.
    - intros i Hi. rewrite !(app_assoc s0 s1).
      rewrite (app_nth1 (s0 ++ s1) fb), (app_nth1 (s0 ++ s1) fbn) by (rewrite app_length, L0, L1; exact Hi).
      reflexivity.
    - rewrite !len_two_slots by assumption. rewrite Hsz, Lf, Lfn. split; reflexivity.
  Qed.

  (* a content of exactly two slots is a flag variant of itself for every oplog state without entries *)
  Lemma FlagVar_no_entries o (c : bytes) :
    length c = N.to_nat ENTRIES_OFFSET -> ol_entries_bytes o = 0 -> FlagVar cr o c c.
  Proof.
    intros L Hz. exists (firstn SLOT c), (skipn SLOT c), [], [], [].
    split; [rewrite firstn_length, L; reflexivity|].
    split; [rewrite skipn_length, L; reflexivity|].
    rewrite app_nil_r, firstn_skipn.
    split; [reflexivity|]. split; [reflexivity|]. split; [reflexivity|]. split; [reflexivity|].
    split; [reflexivity|exact Hz].
  Qed.

  Lemma FlagVar_header_pair o o' co cn a x :
    FlagVar cr o co cn -> ol_entries_bytes o' = 0 ->
    FlagVar cr o' (c_truncate (c_write co a x) (ENTRIES_OFFSET + 0)) (c_truncate (c_write cn a x) (ENTRIES_OFFSET + 0)).
  Proof.
    intros V Hz. destruct (FlagVar_lengths o co cn V) as (L & P & _).
    rewrite N.add_0_r, (header_pair_equal co cn a x L P).
    apply FlagVar_no_entries; [apply length_c_truncate|exact Hz].
  Qed.

  (* the frame of one more (non-partial) entry appended at the end *)
  Lemma FlagVar_append o co cn e payload fr :
    FlagVar cr o co cn -> enc_entry e = Ok payload ->
    frame cr (current_bit (ol_bits o)) false payload = Ok fr ->
    FlagVar cr (mkOplog (ol_bits o) (ol_entries_len o + 1) (ol_entries_bytes o + len fr))
            (c_write co (ENTRIES_OFFSET + ol_entries_bytes o) fr)
            (c_write cn (ENTRIES_OFFSET + ol_entries_bytes o) fr).
  Proof.
    intros V Hp Hfr. destruct (FlagVar_lengths o co cn V) as (_ & _ & Lo & Ln).
    rewrite <- Lo at 1. rewrite <- Ln. rewrite !c_write_end.
    destruct V as (s0 & s1 & lp & fb & fbn & L0 & L1 & -> & -> & Hf & Hfn & Hk & Hsz).
    pose proof (frames_single cr _ e false payload fr Hp Hfr) as H1.
    exists s0, s1, (lp ++ [(e, false)]), (fb ++ fr), (fbn ++ fr). cbn [ol_bits ol_entries_bytes].
    split; [exact L0|]. split; [exact L1|].
    split; [rewrite <- !app_assoc; reflexivity|]. split; [rewrite <- !app_assoc; reflexivity|].
    split; [apply frames_app; assumption|].
    split. { rewrite map_app, tag_app. apply frames_app; assumption. }
    split; [apply js_kept_snoc|].
    rewrite <- (frames_len cr _ _ _ (frames_app cr _ _ _ _ _ Hf H1)), len_app, (frames_len cr _ _ _ Hf), Hsz.
    reflexivity.
  Qed.
End Contents.

(* ====================================================================================== *)
(* B. Computations that are blind to the partial flags                                     *)
(* ====================================================================================== *)

Lemma emit_app ops1 : forall ops2 c w,
  emit (ops1 ++ ops2) c w =
  match emit ops1 c w with
  | (c1, w1, Ok _) => emit ops2 c1 w1
  | (c1, w1, Err e) => (c1, w1, Err e)
  | (c1, w1, Panic s) => (c1, w1, Panic s)
  | (c1, w1, OutOfFuel) => (c1, w1, OutOfFuel)
  end.
Proof.
  induction ops1 as [|o ops1 IH]; intros ops2 c w; [reflexivity|].
  cbn [app emit]. destruct (apply_sop (w_disk w) o); [apply IH|reflexivity].
Qed.

Section Blind.
  Variable cr : crypto.

  (* two worlds that differ only in the partial flags inside the oplog file *)
  Definition wrel (c : core) (w wn : world) : Prop :=
    FlagRel cr (c_oplog c) (w_disk w) (w_disk wn) /\ w_journal w = w_journal wn /\ w_events w = w_events wn.

  Definition blindO {A} (o : oplog) (m : M A) : Prop :=
    forall c w wn, c_oplog c = o -> wrel c w wn ->
      exists c1 w1 wn1 r, m c w = (c1, w1, r) /\ m c wn = (c1, wn1, r) /\ wrel c1 w1 wn1.

  Definition blind {A} (m : M A) : Prop := forall o, blindO o m.

  (* ---------- primitives ---------- *)

  Lemma blind_ret {A} (a : A) : blind (ret a).
  Proof. intros o c w wn _ R. exists c, w, wn, (Ok a). repeat split; try reflexivity; apply R. Qed.
  Lemma blind_lift {A} (x : res A) : blind (lift x).
  Proof. intros o c w wn _ R. exists c, w, wn, x. repeat split; try reflexivity; apply R. Qed.
  Lemma blind_get_core : blind get_core.
  Proof. intros o c w wn _ R. exists c, w, wn, (Ok c). repeat split; try reflexivity; apply R. Qed.
  Lemma blind_send e : blind (send e).
  Proof.
    intros o c w wn _ (R & J & E). do 4 eexists. split; [reflexivity|]. split; [reflexivity|].
    split; [exact R|]. split; [exact J|]. cbn [w_events]. rewrite E. reflexivity.
  Qed.
  Lemma blind_put_header h : blind (put_header h).
  Proof. intros o c w wn _ R. do 4 eexists. split; [reflexivity|]. split; [reflexivity|]. exact R. Qed.
  Lemma blind_put_tree t : blind (put_tree t).
  Proof. intros o c w wn _ R. do 4 eexists. split; [reflexivity|]. split; [reflexivity|]. exact R. Qed.
  Lemma blind_put_bitfield b : blind (put_bitfield b).
  Proof. intros o c w wn _ R. do 4 eexists. split; [reflexivity|]. split; [reflexivity|]. exact R. Qed.
  Lemma blind_put_skip s : blind (put_skip s).
  Proof. intros o c w wn _ R. do 4 eexists. split; [reflexivity|]. split; [reflexivity|]. exact R. Qed.
  Lemma blind_put_keypair k : blind (put_keypair k).
  Proof. intros o c w wn _ R. do 4 eexists. split; [reflexivity|]. split; [reflexivity|]. exact R. Qed.

  (* ---------- binds ---------- *)

  Lemma blindO_bind {A B} o (m : M A) (f : A -> M B) :
    blindO o m -> (forall a, blind (f a)) -> blindO o (mbind m f).
  Proof.
    intros Hm Hf c w wn Eo R. destruct (Hm c w wn Eo R) as (c1 & w1 & wn1 & r & E1 & E2 & R1).
    unfold mbind. rewrite E1, E2. destruct r as [a|e|s|].
    - apply (Hf a (c_oplog c1) c1 w1 wn1 eq_refl R1).
    - exists c1, w1, wn1, (Err e). split; [reflexivity|]. split; [reflexivity|exact R1].
    - exists c1, w1, wn1, (Panic s). split; [reflexivity|]. split; [reflexivity|exact R1].
    - exists c1, w1, wn1, OutOfFuel. split; [reflexivity|]. split; [reflexivity|exact R1].
  Qed.

  Lemma blind_bind {A B} (m : M A) (f : A -> M B) :
    blind m -> (forall a, blind (f a)) -> blind (mbind m f).
  Proof. intros Hm Hf o. apply blindO_bind; [apply Hm|exact Hf]. Qed.

  Lemma blindO_bind_lift {A B} o (x : res A) (f : A -> M B) :
    (forall a, x = Ok a -> blindO o (f a)) -> blindO o (mbind (lift x) f).
  Proof.
    intros H c w wn Eo R. unfold mbind, lift. destruct x as [a|e|s|].
    - apply (H a eq_refl c w wn Eo R).
    - exists c, w, wn, (Err e). split; [reflexivity|]. split; [reflexivity|exact R].
    - exists c, w, wn, (Panic s). split; [reflexivity|]. split; [reflexivity|exact R].
    - exists c, w, wn, OutOfFuel. split; [reflexivity|]. split; [reflexivity|exact R].
  Qed.

  Lemma blind_bind_lift {A B} (x : res A) (f : A -> M B) :
    (forall a, x = Ok a -> blind (f a)) -> blind (mbind (lift x) f).
  Proof. intros H o. apply blindO_bind_lift. intros a E. apply H, E. Qed.

  Lemma blindO_bind_get_core {B} o (f : core -> M B) :
    (forall c0, c_oplog c0 = o -> blindO o (f c0)) -> blindO o (mbind get_core f).
  Proof. intros H c w wn Eo R. unfold mbind, get_core. apply (H c Eo c w wn Eo R). Qed.

  (* the disk is consulted, but only its tree, data and bitfield stores *)
  Lemma blind_bind_get_disk {B} (f : disk -> M B) :
    (forall d, blind (f d)) ->
    (forall d dn c w, d_tree d = d_tree dn -> d_data d = d_data dn -> d_bitfield d = d_bitfield dn ->
                      f d c w = f dn c w) ->
    blind (mbind get_disk f).
  Proof.
    intros Hb Hext o c w wn Eo R. unfold mbind, get_disk.
    pose proof R as ((Et & Ed & Eb & _) & _).
    rewrite <- (Hext (w_disk w) (w_disk wn) c wn Et Ed Eb). apply (Hb (w_disk w) o c w wn Eo R).
  Qed.

  (* ---------- storage operations on the other three stores ---------- *)

  Lemma apply_sop_not_oplog d dn x :
    sop_store x <> Oplog -> d_tree d = d_tree dn -> d_data d = d_data dn -> d_bitfield d = d_bitfield dn ->
    match apply_sop d x, apply_sop dn x with
    | Some d1, Some dn1 =>
        d_tree d1 = d_tree dn1 /\ d_data d1 = d_data dn1 /\ d_bitfield d1 = d_bitfield dn1 /\
        d_oplog d1 = d_oplog d /\ d_oplog dn1 = d_oplog dn
    | None, None => True
    | _, _ => False
    end.
  Proof.
    intros Hs Et Ed Eb.
    destruct x as [s off data|s off k|s k]; destruct s; cbn [sop_store] in Hs; try (exfalso; apply Hs; reflexivity);
      cbn [apply_sop d_get]; rewrite <- ?Et, <- ?Ed, <- ?Eb;
      try (destruct (f_del _ off k); [|exact I]);
      cbn [d_set d_tree d_data d_bitfield d_oplog]; repeat split; assumption.
  Qed.

  Lemma blind_emit_other ops : (forall x, In x ops -> sop_store x <> Oplog) -> blind (emit ops).
  Proof.
    induction ops as [|x ops IH]; intros H o c w wn Eo R.
    - exists c, w, wn, (Ok tt). split; [reflexivity|]. split; [reflexivity|exact R].
    - cbn [emit]. destruct R as ((Et & Ed & Eb & V) & J & E).
      pose proof (apply_sop_not_oplog (w_disk w) (w_disk wn) x (H x (or_introl eq_refl)) Et Ed Eb) as S.
      destruct (apply_sop (w_disk w) x) as [d1|], (apply_sop (w_disk wn) x) as [dn1|]; try contradiction.
      + destruct S as (Et1 & Ed1 & Eb1 & Eo1 & Eon1).
        apply (IH (fun y Hy => H y (or_intror Hy)) o c _ _ Eo). unfold wrel. cbn [w_disk w_journal w_events].
        split; [|split; [rewrite J; reflexivity|exact E]].
        split; [exact Et1|]. split; [exact Ed1|]. split; [exact Eb1|]. rewrite Eo1, Eon1. exact V.
      + exists c, w, wn, (Err InvalidOperation). split; [reflexivity|]. split; [reflexivity|].
        split; [|split; assumption]. split; [exact Et|]. split; [exact Ed|]. split; [exact Eb|exact V].
  Qed.

  (* ---------- the two oplog units ---------- *)

  Definition with_oplog (c : core) (o' : oplog) : core :=
    mkCore (c_keypair c) o' (c_tree c) (c_bitfield c) (c_header c) (c_skip c).

  (* a header slot write and its truncate *)
  Lemma wrel_header_pair o c w wn a x :
    FlagRel cr o (w_disk w) (w_disk wn) -> w_journal w = w_journal wn -> w_events w = w_events wn ->
    ol_entries_bytes (c_oplog c) = 0 ->
    exists w1 wn1,
      emit [SW Oplog a x; ST Oplog (ENTRIES_OFFSET + 0)] c w = (c, w1, Ok tt) /\
      emit [SW Oplog a x; ST Oplog (ENTRIES_OFFSET + 0)] c wn = (c, wn1, Ok tt) /\ wrel c w1 wn1.
  Proof.
    intros (Et & Ed & Eb & V) J E Hz. do 2 eexists. split; [reflexivity|]. split; [reflexivity|].
    unfold wrel, FlagRel. cbn [w_disk w_journal w_events apply_sop d_get d_set d_tree d_data d_bitfield d_oplog].
    split; [|split; [rewrite J; reflexivity|exact E]].
    split; [exact Et|]. split; [exact Ed|]. split; [exact Eb|].
    cbn [d_oplog]. rewrite !f_content_truncate, !f_content_write. apply (FlagVar_header_pair cr o); assumption.
  Qed.

  Lemma wrel_flush c w wn h ct o' ops :
    wrel c w wn -> oplog_flush cr (c_oplog c) h ct = Ok (o', ops) ->
    exists w1 wn1, emit ops (with_oplog c o') w = (with_oplog c o', w1, Ok tt) /\
                   emit ops (with_oplog c o') wn = (with_oplog c o', wn1, Ok tt) /\
                   wrel (with_oplog c o') w1 wn1.
  Proof.
    intros (R & J & E) F. unfold oplog_flush in F. destruct ct.
    - apply bind_ok in F as ([bits1 ops1] & I1 & F). apply bind_ok in F as ([bits2 ops2] & I2 & F).
      injection F as <- <-.
      destruct (insert_header_inv cr _ _ _ _ _ _ I1) as (fr1 & pad1 & _ & _ & -> & _).
      destruct (insert_header_inv cr _ _ _ _ _ _ I2) as (fr2 & pad2 & _ & _ & -> & _).
      set (c1 := with_oplog c (mkOplog bits2 0 0)).
      destruct (wrel_header_pair _ c1 w wn (w_slot (ol_bits (c_oplog c))) (fr1 ++ pad1) R J E eq_refl) as (w1 & wn1 & A1 & A2 & (R1 & J1 & E1)).
      destruct (wrel_header_pair _ c1 w1 wn1 (w_slot bits1) (fr2 ++ pad2) R1 J1 E1 eq_refl) as (w2 & wn2 & B1 & B2 & R2).
      exists w2, wn2. rewrite !emit_app, A1, A2. split; [exact B1|]. split; [exact B2|exact R2].
    - apply bind_ok in F as ([bits1 ops1] & I1 & F). injection F as <- <-.
      destruct (insert_header_inv cr _ _ _ _ _ _ I1) as (fr1 & pad1 & _ & _ & -> & _).
      apply (wrel_header_pair _ (with_oplog c (mkOplog bits1 0 0)) w wn (w_slot (ol_bits (c_oplog c))) (fr1 ++ pad1) R J E eq_refl).
  Qed.

  Lemma wrel_append c w wn e o' ops :
    wrel c w wn -> oplog_append cr (c_oplog c) e = Ok (o', ops) ->
    exists w1 wn1, emit ops (with_oplog c o') w = (with_oplog c o', w1, Ok tt) /\
                   emit ops (with_oplog c o') wn = (with_oplog c o', wn1, Ok tt) /\
                   wrel (with_oplog c o') w1 wn1.
  Proof.
    intros ((Et & Ed & Eb & V) & J & E) A.
    destruct (oplog_append_inv cr _ _ _ _ A) as (payload & fr & Hp & Hfr & -> & ->).
    do 2 eexists. split; [reflexivity|]. split; [reflexivity|].
    unfold wrel, FlagRel. cbn [w_disk w_journal w_events apply_sop d_get d_set d_tree d_data d_bitfield d_oplog].
    split; [|split; [rewrite J; reflexivity|exact E]].
    split; [exact Et|]. split; [exact Ed|]. split; [exact Eb|].
    cbn [d_oplog]. rewrite !f_content_write. unfold with_oplog. cbn [c_oplog]. apply (FlagVar_append cr _ _ _ e payload); assumption.
  Qed.

  Lemma blindO_flush_unit o h ct o' ops :
    oplog_flush cr o h ct = Ok (o', ops) -> blindO o (mbind (put_oplog o') (fun _ => emit ops)).
  Proof.
    intros F c w wn Eo R. rewrite <- Eo in F.
    destruct (wrel_flush c w wn h ct o' ops R F) as (w1 & wn1 & A1 & A2 & R1).
    exists (with_oplog c o'), w1, wn1, (Ok tt). split; [exact A1|]. split; [exact A2|exact R1].
  Qed.

  Lemma blindO_append_unit {B} o e o' ops (f : unit -> M B) :
    oplog_append cr o e = Ok (o', ops) -> (forall a, blind (f a)) ->
    blindO o (mbind (put_oplog o') (fun _ => mbind (emit ops) f)).
  Proof.
    intros A Hf c w wn Eo R. rewrite <- Eo in A.
    destruct (wrel_append c w wn e o' ops R A) as (w1 & wn1 & A1 & A2 & R1).
    change (mbind (put_oplog o') (fun _ => mbind (emit ops) f) c w) with (mbind (emit ops) f (with_oplog c o') w).
    change (mbind (put_oplog o') (fun _ => mbind (emit ops) f) c wn) with (mbind (emit ops) f (with_oplog c o') wn).
    unfold mbind. rewrite A1, A2. apply (Hf tt _ _ w1 wn1 eq_refl R1).
  Qed.

  (* ---------- the operations of Core.v ---------- *)

  Ltac blind_prim :=
    first [ apply blind_ret | apply blind_lift | apply blind_get_core | apply blind_send
          | apply blind_put_header | apply blind_put_tree | apply blind_put_bitfield | apply blind_put_skip
          | apply blind_put_keypair ].
  Ltac blind_case :=
    match goal with
    | |- blind (match ?x with _ => _ end) => destruct x
    | |- blind (if ?x then _ else _) => destruct x
    end.
  Ltac blind_tac :=
    repeat first [ blind_prim | hyp | apply blind_bind; [|intros ?] | blind_case ].

  Lemma blind_flush_all ct : blind (flush_all cr ct).
  Proof.
    unfold flush_all. apply blind_bind; [apply blind_get_core|]. intros c. unfold bf_flush.
    apply blind_bind; [apply blind_put_bitfield|]. intros _.
    apply blind_bind.
    { apply blind_emit_other. intros x Hx. apply in_map_iff in Hx as (p & <- & _). discriminate. }
    intros _. apply blind_bind_lift. intros [t' tops] Ht.
    apply blind_bind; [apply blind_put_tree|]. intros _.
    apply blind_bind.
    { apply blind_emit_other. intros x Hx. unfold tree_flush in Ht.
      destruct (forallb _ _); [|discriminate Ht]. injection Ht as _ <-.
      apply in_map_iff in Hx as (p & <- & _). discriminate. }
    intros _ o. apply blindO_bind_get_core. intros c0 E0. apply blindO_bind_lift. intros [o' oops] F.
    rewrite E0 in F. apply (blindO_flush_unit o _ _ o' oops F).
  Qed.

  Lemma blind_maybe_flush f : blind (maybe_flush cr f).
  Proof.
    unfold maybe_flush. apply blind_bind; [apply blind_get_core|]. intros c. cbv zeta.
    match goal with |- blind (if ?b then _ else _) => destruct b end.
    - apply blind_bind; [apply blind_put_skip|]. intros _. apply blind_flush_all.
    - apply blind_put_skip.
  Qed.

  Lemma blind_log_and_commit cs bu : blind (log_and_commit cr cs bu).
  Proof.
    unfold log_and_commit. intros o. apply blindO_bind_get_core. intros c0 E0.
    apply blindO_bind_lift. intros [e h'] _. apply blindO_bind_lift. intros [o' ops] A.
    rewrite E0 in A. apply (blindO_append_unit o e o' ops _ A). intros _.
    apply blind_bind; [apply blind_put_header|]. intros _.
    apply blind_bind.
    { destruct bu as [u|]; [|apply blind_ret].
      apply blind_bind; [apply blind_get_core|]. intros c1. cbv zeta.
      apply blind_bind; [apply blind_put_bitfield|]. intros _. apply blind_put_header. }
    intros _. apply blind_bind; [apply blind_get_core|]. intros c1.
    apply blind_bind; [apply blind_lift|]. intros t'. apply blind_put_tree.
  Qed.

  Theorem blind_append f batch : blind (core_append cr f batch).
  Proof.
    unfold core_append. apply blind_bind; [apply blind_get_core|]. intros c.
    destruct (kp_secret (c_keypair c)) as [sk|]; [|apply blind_lift].
    apply blind_bind.
    { destruct batch as [|b0 batch]; [apply blind_ret|].
      apply blind_bind; [apply blind_lift|]. intros cs. cbv zeta.
      apply blind_bind.
      { apply blind_emit_other. intros x [<-|[]]. discriminate. }
      intros _. apply blind_bind; [apply blind_log_and_commit|]. intros _.
      apply blind_bind; [apply blind_maybe_flush|]. intros _.
      apply blind_bind; [apply blind_send|]. intros _. apply blind_send. }
    intros _. apply blind_bind; [apply blind_get_core|]. intros c1. apply blind_ret.
  Qed.

  Theorem blind_get i : blind (core_get i).
  Proof.
    unfold core_get. apply blind_bind; [apply blind_get_core|]. intros c.
    destruct (negb (bf_get (c_bitfield c) i)).
    - apply blind_bind; [apply blind_send|]. intros _. apply blind_ret.
    - apply blind_bind_get_disk.
      + intros d. apply blind_bind; [apply blind_lift|]. intros [off l].
        destruct (l =? 0); [apply blind_ret|]. destruct (f_read (d_data d) off l); [apply blind_ret|apply blind_lift].
      + intros d dn c' w' Et Ed _. rewrite Et, Ed. reflexivity.
  Qed.

  Theorem blind_clear f s e : blind (core_clear cr f s e).
  Proof.
    unfold core_clear. destruct (e <=? s); [apply blind_ret|].
    intros o. apply blindO_bind_get_core. intros c0 E0. cbv zeta.
    apply blindO_bind_lift. intros [o' ops] A. rewrite E0 in A.
    apply (blindO_append_unit o _ o' ops _ A). intros _.
    apply blind_bind; [apply blind_put_bitfield|]. intros _.
    apply blind_bind; [destruct (s <? hd_contig (c_header c0)); [apply blind_put_header|apply blind_ret]|]. intros _.
    apply blind_bind_get_disk.
    - intros d. apply blind_bind; [apply blind_lift|]. intros co.
      apply blind_bind; [apply blind_lift|]. intros e1.
      apply blind_bind; [apply blind_lift|]. intros [lo ll].
      apply blind_bind; [apply blind_lift|]. intros cl.
      apply blind_bind.
      { destruct ((0 <? cl) && (co <? f_len (d_data d))); [|apply blind_ret].
        apply blind_emit_other. intros x [<-|[]]. discriminate. }
      intros _. apply blind_maybe_flush.
    - intros d dn c' w' Et Ed _. rewrite Et, Ed. reflexivity.
  Qed.

  Theorem blind_make_read_only : blind (core_make_read_only cr).
  Proof.
    unfold core_make_read_only. apply blind_bind; [apply blind_get_core|]. intros c. cbv zeta.
    apply blind_bind; [apply blind_put_keypair|]. intros _.
    apply blind_bind; [apply blind_put_header|]. intros _.
    apply blind_bind; [apply blind_flush_all|]. intros _. apply blind_ret.
  Qed.

  Theorem blind_create_proof block hash seek upgrade : blind (core_create_proof block hash seek upgrade).
  Proof.
    unfold core_create_proof. apply blind_bind; [apply blind_get_core|]. intros c.
    apply blind_bind_get_disk.
    - intros d. apply blind_bind; [apply blind_lift|]. intros vp.
      destruct (vp_block vp) as [b|]; [|apply blind_ret].
      apply blind_bind; [apply blind_get|]. intros [v|]; apply blind_ret.
    - intros d dn c' w' Et _ _. rewrite Et. reflexivity.
  Qed.

  Theorem blind_apply_proof f pf : blind (core_apply_proof cr f pf).
  Proof.
    unfold core_apply_proof. apply blind_bind; [apply blind_get_core|]. intros c.
    destruct (negb (p_fork pf =? t_fork (c_tree c))); [apply blind_ret|].
    apply blind_bind_get_disk.
    - intros d. apply blind_bind; [apply blind_lift|]. intros cs.
      destruct (negb (commitable (c_tree c) cs)); [apply blind_ret|].
      apply blind_bind.
      { destruct (p_block pf) as [b|]; [|apply blind_ret].
        apply blind_bind; [apply blind_lift|]. intros off.
        apply blind_bind; [|intros _; apply blind_ret].
        apply blind_emit_other. intros x [<-|[]]. discriminate. }
      intros bu. apply blind_bind; [apply blind_log_and_commit|]. intros _.
      apply blind_bind; [apply blind_maybe_flush|]. intros _.
      apply blind_bind; [destruct (p_upgrade pf); [apply blind_send|apply blind_ret]|]. intros _.
      apply blind_bind; [destruct bu; [apply blind_send|apply blind_ret]|]. intros _. apply blind_ret.
    - intros d dn c' w' Et _ _. rewrite Et. reflexivity.
  Qed.

  Theorem blind_missing_nodes i : blind (core_missing_nodes i).
  Proof.
    unfold core_missing_nodes. apply blind_bind; [apply blind_get_core|]. intros c.
    apply blind_bind_get_disk.
    - intros d. apply blind_bind; [apply blind_lift|]. intros i2. apply blind_lift.
    - intros d dn c' w' Et _ _. rewrite Et. reflexivity.
  Qed.
End Blind.

(* ====================================================================================== *)
(* C. (3) The next operations from a JsInv state behave as in C01                          *)
(* ====================================================================================== *)

Section OpsJs.
  Variable cr : crypto.
  Hypothesis Hcrc : crc_ok cr.
  Hypothesis Hhash32 : forall x, length (cr_hash cr x) = 32%nat.
  Hypothesis Hnonblank : forall x, all_zero (cr_hash cr x) = false.
  Hypothesis Hhashbytes : forall x, bytes_ok (cr_hash cr x) = true.
  Hypothesis Hsig64 : forall sk m, length (cr_sign cr sk m) = 64%nat.
  Hypothesis Hsigbytes : forall sk m, bytes_ok (cr_sign cr sk m) = true.

  (* the transfer principle: a JsInv disk has a flag-normalised twin satisfying CrashClear1.YInv, and every run of a
     blind computation on the disk is, step for step, the run on the twin: same core, result, journal, events;
     the final disks are flag variants again *)
  Theorem blind_run {A} (m : M A) c d j ev bs cl :
    blind cr m -> JsInv cr c d bs cl ->
    exists dn, YInv cr c dn bs cl /\ FlagRel cr (c_oplog c) d dn /\
      forall c1 w1 r, m c (mkWorld d j ev) = (c1, w1, r) ->
        exists wn1, m c (mkWorld dn j ev) = (c1, wn1, r) /\
          w_journal wn1 = w_journal w1 /\ w_events wn1 = w_events w1 /\
          FlagRel cr (c_oplog c1) (w_disk w1) (w_disk wn1).
  Proof.
    intros Hb J. destruct (JsInv_norm cr c d bs cl J) as (dn & X & R).
    exists dn. split; [exact X|]. split; [exact R|].
    intros c1 w1 r E.
    destruct (Hb (c_oplog c) c (mkWorld d j ev) (mkWorld dn j ev) eq_refl) as (c2 & w2 & wn2 & r2 & E1 & E2 & R2 & J2 & V2).
    { split; [exact R|]. split; reflexivity. }
    rewrite E in E1. injection E1 as <- <- <-.
    exists wn2. split; [exact E2|]. split; [symmetry; exact J2|]. split; [symmetry; exact V2|exact R2].
  Qed.

  (* core_append from a JsInv state: as CrashClear2.append_YInv *)
  Theorem append_JsInv f batch c d j ev bs cl sk c' w' r :
    JsInv cr c d bs cl -> kp_secret (c_keypair c) = Some sk ->
    sumN (map len (bs ++ batch)) <= u64_max ->
    NODE_SIZE * (2 * N.of_nat (length (bs ++ batch))) <= u64_max ->
    core_append cr f batch c (mkWorld d j ev) = (c', w', r) ->
    r = Panic frame_msg \/
    (r = Ok (N.of_nat (length (bs ++ batch)), sumN (map len (bs ++ batch))) /\
     JsInv cr c' (w_disk w') (bs ++ batch) (cl_mask cl (N.of_nat (length bs))) /\ c_keypair c' = c_keypair c).
  Proof.
    intros J Hsk Hfit Hidx E.
    destruct (blind_run _ c d j ev bs cl (blind_append cr f batch) J) as (dn & X & _ & Run).
    destruct (Run c' w' r E) as (wn1 & En & _ & _ & R1).
    destruct (append_YInv cr Hcrc Hhash32 Hnonblank Hhashbytes Hsig64 Hsigbytes f batch c dn j ev bs cl sk c' wn1 r
                X Hsk Hfit Hidx En) as [P|(Er & X1 & K1)]; [left; exact P|right].
    split; [exact Er|]. split; [|exact K1]. apply (norm_JsInv cr Hcrc c' (w_disk w') (w_disk wn1) _ _ X1 R1).
  Qed.

  (* core_clear from a JsInv state: as CrashClear2.clear_YInv *)
  Theorem clear_JsInv f c d j ev bs cl start end_ c' w' r :
    let n := N.of_nat (length bs) in
    JsInv cr c d bs cl -> start < n -> start < end_ -> end_ <= u64_max ->
    core_clear cr f start end_ c (mkWorld d j ev) = (c', w', r) ->
    r = Ok tt /\ JsInv cr c' (w_disk w') bs (cl_clear cl start end_) /\ c_keypair c' = c_keypair c.
  Proof.
    intros n J Hsn Hse Hend E.
    destruct (blind_run _ c d j ev bs cl (blind_clear cr f start end_) J) as (dn & X & _ & Run).
    destruct (Run c' w' r E) as (wn1 & En & _ & _ & R1).
    destruct (clear_YInv cr Hcrc Hhash32 Hnonblank Hhashbytes f c dn j ev bs cl start end_ c' wn1 r X Hsn Hse Hend En)
      as (Er & X1 & K1).
    split; [exact Er|]. split; [|exact K1]. apply (norm_JsInv cr Hcrc c' (w_disk w') (w_disk wn1) _ _ X1 R1).
  Qed.

  (* open a JavaScript-layout disk, then append, then clear, then drop the instance and open again: every step is as
     the list-with-cleared-set model says.  (One instance of the chain; each link is one of the theorems above.) *)
  Corollary js_open_append_clear_reopen kp d bs cl sk f1 batch f2 start end_ :
    JsDisk cr kp d bs cl -> kp_secret kp = Some sk ->
    sumN (map len (bs ++ batch)) <= u64_max ->
    NODE_SIZE * (2 * N.of_nat (length (bs ++ batch))) <= u64_max ->
    start < N.of_nat (length (bs ++ batch)) -> start < end_ -> end_ <= u64_max ->
    exists c0 d0 ops0,
      core_open cr None true d = (d0, ops0, Ok c0) /\ obs_cleared c0 d0 bs cl /\
      forall c1 w1 r1, core_append cr f1 batch c0 (mkWorld d0 [] []) = (c1, w1, r1) ->
        r1 = Panic frame_msg \/
        (r1 = Ok (N.of_nat (length (bs ++ batch)), sumN (map len (bs ++ batch))) /\
         obs_cleared c1 (w_disk w1) (bs ++ batch) (cl_mask cl (N.of_nat (length bs))) /\
         forall c2 w2 r2, core_clear cr f2 start end_ c1 w1 = (c2, w2, r2) ->
           r2 = Ok tt /\
           obs_cleared c2 (w_disk w2) (bs ++ batch) (cl_clear (cl_mask cl (N.of_nat (length bs))) start end_) /\
           exists c3, core_open cr None true (w_disk w2) = (w_disk w2, [], Ok c3) /\
             obs_cleared c3 (w_disk w2) (bs ++ batch) (cl_clear (cl_mask cl (N.of_nat (length bs))) start end_) /\
             c_keypair c3 = kp).
  Proof.
    intros JD Hsk Hfit Hidx Hsn Hse Hend.
    destruct (open_JsDisk cr Hcrc Hhash32 Hnonblank Hhashbytes kp d bs cl JD)
      as (c0 & d0 & ops0 & Eo & J0 & O0 & K0 & _).
    exists c0, d0, ops0. split; [exact Eo|]. split; [exact O0|].
    intros c1 w1 r1 E1.
    destruct (append_JsInv f1 batch c0 d0 [] [] bs cl sk c1 w1 r1 J0 ltac:(rewrite K0; exact Hsk) Hfit Hidx E1)
      as [P|(Er1 & J1 & K1)]; [left; exact P|right].
    split; [exact Er1|]. split; [apply (JsInv_observations cr), J1|].
    intros c2 w2 r2 E2. destruct w1 as [d1 j1 ev1].
    destruct (clear_JsInv f2 c1 d1 j1 ev1 (bs ++ batch) _ start end_ c2 w2 r2 J1 Hsn Hse Hend E2) as (Er2 & J2 & K2).
    split; [exact Er2|]. split; [apply (JsInv_observations cr), J2|].
    destruct (reopen_JsInv cr Hcrc Hhash32 Hnonblank Hhashbytes c2 (w_disk w2) _ _ J2) as (c3 & E3 & _ & O3 & K3 & _).
    exists c3. split; [exact E3|]. split; [exact O3|]. rewrite K3, K2, K1. exact K0.
  Qed.
End OpsJs.

Print Assumptions blind_append.
Print Assumptions blind_clear.
Print Assumptions blind_get.
Print Assumptions blind_make_read_only.
Print Assumptions blind_create_proof.
Print Assumptions blind_apply_proof.
Print Assumptions blind_missing_nodes.
Print Assumptions blind_run.
Print Assumptions append_JsInv.
Print Assumptions clear_JsInv.
Print Assumptions js_open_append_clear_reopen.

(* KeyIndep.v -- C12: the key pair never influences the tree, bitfield and data stores (non-interference).

   Two writers run under ONE crypto record [cr] but with two different key pairs.  The only assumption on the
   key pairs is about LENGTHS (public keys equally long, secrets equally long) and the only assumption on
   [cr_sign] is that the two secrets produce equally long signatures for the same message (true when every
   signature has 64 bytes).  Nothing is assumed about hashes, checksums or verification.

   [sim c1 c2]  : the two cores agree on everything except: key pair, header key / manifest key / key pair,
                  header and tree signature (equal lengths).
   [w_sim w1 w2]: tree, data and bitfield files IDENTICAL, oplog files equally long; journals pointwise equal
                  except oplog writes, which go to the same offset with equally many bytes; events identical.
   [msim R m1 m2]: running m1 / m2 from related states gives related states and R-related results
                  (same error / same panic site otherwise).

   Part A: codecs and pure functions.   Part B: the M monad.   Part C: core_append, core_clear,
   core_make_read_only, core_get (has / info are pure).   Part D: core_open (creation and reopen, given related
   outcomes of oplog_open).   Histories: KeyIndepHist.v. *)
From HC Require Import Base NMap Codec CodecFacts Crypto FlatTree Storage StorageFacts Bitfield Oplog Merkle Core.
From Coq Require Import ZifyN ZifyNat ZifyBool Lia.
Ltac Zify.zify_post_hook ::= Z.div_mod_to_equations.
#[local] Arguments N.add : simpl never.
#[local] Arguments N.sub : simpl never.
#[local] Arguments N.mul : simpl never.
#[local] Arguments N.div : simpl never.
#[local] Arguments N.modulo : simpl never.
#[local] Arguments N.pow : simpl never.
#[local] Arguments N.eqb : simpl never.
#[local] Arguments N.ltb : simpl never.
#[local] Arguments N.leb : simpl never.

(* ====================================================================================== *)
(* 0. Relations                                                                            *)
(* ====================================================================================== *)

Definition olen (a b : option bytes) : Prop :=
  match a, b with
  | Some x, Some y => length x = length y
  | None, None => True
  | _, _ => False
  end.

Definition kp_sim (k1 k2 : keypair) : Prop :=
  length (kp_public k1) = length (kp_public k2) /\ olen (kp_secret k1) (kp_secret k2).

Definition ht_sim (a b : header_tree) : Prop :=
  ht_fork a = ht_fork b /\ ht_length a = ht_length b /\ ht_root_hash a = ht_root_hash b /\
  length (ht_signature a) = length (ht_signature b).

Definition hd_sim (a b : header) : Prop :=
  length (hd_key a) = length (hd_key b) /\ length (hd_ns a) = length (hd_ns b) /\
  length (hd_mpk a) = length (hd_mpk b) /\ kp_sim (hd_keypair a) (hd_keypair b) /\
  ht_sim (hd_tree a) (hd_tree b) /\ hd_contig a = hd_contig b.

Definition t_sim (a b : mtree) : Prop :=
  t_roots a = t_roots b /\ t_length a = t_length b /\ t_byte_length a = t_byte_length b /\
  t_fork a = t_fork b /\ olen (t_signature a) (t_signature b) /\ t_unflushed a = t_unflushed b.

Definition sim (c1 c2 : core) : Prop :=
  kp_sim (c_keypair c1) (c_keypair c2) /\ c_oplog c1 = c_oplog c2 /\ t_sim (c_tree c1) (c_tree c2) /\
  c_bitfield c1 = c_bitfield c2 /\ hd_sim (c_header c1) (c_header c2) /\ c_skip c1 = c_skip c2.

(* storage operations: identical, or two writes of equally many bytes to the same oplog offset *)
Definition sop_sim (o1 o2 : sop) : Prop :=
  o1 = o2 \/ exists off d1 d2, o1 = SW Oplog off d1 /\ o2 = SW Oplog off d2 /\ length d1 = length d2.

Definition d_sim (d1 d2 : disk) : Prop :=
  d_tree d1 = d_tree d2 /\ d_data d1 = d_data d2 /\ d_bitfield d1 = d_bitfield d2 /\
  f_len (d_oplog d1) = f_len (d_oplog d2).

Definition w_sim (w1 w2 : world) : Prop :=
  d_sim (w_disk w1) (w_disk w2) /\ Forall2 sop_sim (w_journal w1) (w_journal w2) /\ w_events w1 = w_events w2.

Definition res_rel {A B} (R : A -> B -> Prop) (r1 : res A) (r2 : res B) : Prop :=
  match r1, r2 with
  | Ok a, Ok b => R a b
  | Err e1, Err e2 => e1 = e2
  | Panic s1, Panic s2 => s1 = s2
  | OutOfFuel, OutOfFuel => True
  | _, _ => False
  end.

Definition msim {A B} (R : A -> B -> Prop) (m1 : M A) (m2 : M B) : Prop :=
  forall c1 w1 c2 w2, sim c1 c2 -> w_sim w1 w2 ->
    sim (fst (fst (m1 c1 w1))) (fst (fst (m2 c2 w2))) /\
    w_sim (snd (fst (m1 c1 w1))) (snd (fst (m2 c2 w2))) /\
    res_rel R (snd (m1 c1 w1)) (snd (m2 c2 w2)).

Definition leq (a b : bytes) : Prop := length a = length b.
Definition pair_rel {A B C D} (R : A -> B -> Prop) (S : C -> D -> Prop) (x : A * C) (y : B * D) : Prop :=
  R (fst x) (fst y) /\ S (snd x) (snd y).

(* ---------- generic facts ---------- *)

Lemma res_rel_eq {A} (r1 r2 : res A) : res_rel eq r1 r2 -> r1 = r2.
Proof. destruct r1, r2; cbn [res_rel]; intros H; try contradiction; congruence. Qed.

Lemma res_rel_refl {A} (r : res A) : res_rel eq r r.
Proof. destruct r; cbn [res_rel]; auto. Qed.

Lemma res_rel_bind {A A' B B'} (R : A -> A' -> Prop) (S : B -> B' -> Prop) r r' f f' :
  res_rel R r r' -> (forall a a', R a a' -> res_rel S (f a) (f' a')) -> res_rel S (bind r f) (bind r' f').
Proof. destruct r, r'; cbn [res_rel bind]; intros H K; try contradiction; auto. Qed.

Lemma bind_ext {A B} (r : res A) (f g : A -> res B) : (forall a, f a = g a) -> bind r f = bind r g.
Proof. intros H. destruct r; cbn [bind]; auto. Qed.

Lemma res_rel_lift_enc {A B} (R : A -> B -> Prop) r r' :
  res_rel R r r' -> res_rel R (lift_enc r) (lift_enc r').
Proof.
  destruct r as [a|e|s|], r' as [a'|e'|s'|]; cbn [res_rel lift_enc]; intros H; try contradiction; auto.
  subst e'. destruct e; cbn [res_rel]; reflexivity.
Qed.

Lemma res_rel_mono {A B} (R S : A -> B -> Prop) r r' :
  (forall a b, R a b -> S a b) -> res_rel R r r' -> res_rel S r r'.
Proof. destruct r, r'; cbn [res_rel]; auto. Qed.

Lemma sop_sim_refl o : sop_sim o o.
Proof. left. reflexivity. Qed.

Lemma Forall2_sop_refl l : Forall2 sop_sim l l.
Proof. induction l; constructor; auto using sop_sim_refl. Qed.

Lemma olen_refl a : olen a a.
Proof. destruct a; cbn; auto. Qed.

Lemma t_sim_refl t : t_sim t t.
Proof. unfold t_sim. repeat split; auto using olen_refl. Qed.

(* ====================================================================================== *)
(* A. Codecs and pure functions                                                            *)
(* ====================================================================================== *)

Lemma len_leq a b : length a = length b -> len a = len b.
Proof. unfold len. congruence. Qed.

Lemma enc_buffer_leq a b : length a = length b -> length (enc_buffer a) = length (enc_buffer b).
Proof. intros H. unfold enc_buffer. rewrite !app_length, (len_leq a b H), H. reflexivity. Qed.

Lemma enc_keypair_leq a b : kp_sim a b -> length (enc_keypair a) = length (enc_keypair b).
Proof.
  destruct a as [pa sa], b as [pb sb]. unfold kp_sim, olen, enc_keypair. cbn [kp_public kp_secret].
  intros [P S]. rewrite !app_length, (enc_buffer_leq pa pb P).
  destruct sa as [x|], sb as [y|]; try contradiction; [|reflexivity].
  rewrite (enc_buffer_leq (x ++ pa) (y ++ pb)); [reflexivity|]. rewrite !app_length. congruence.
Qed.

Lemma enc_header_tree_leq a b : ht_sim a b -> length (enc_header_tree a) = length (enc_header_tree b).
Proof.
  destruct a as [f1 l1 r1 s1], b as [f2 l2 r2 s2].
  unfold ht_sim, enc_header_tree. cbn [ht_fork ht_length ht_root_hash ht_signature].
  intros (-> & -> & -> & S). rewrite !app_length, (enc_buffer_leq _ _ S). reflexivity.
Qed.

Lemma enc_header_leq a b : hd_sim a b -> length (enc_header a) = length (enc_header b).
Proof.
  destruct a as [k1 n1 m1 kp1 t1 c1], b as [k2 n2 m2 kp2 t2 c2].
  unfold hd_sim, enc_header. cbn [hd_key hd_ns hd_mpk hd_keypair hd_tree hd_contig].
  intros (K & Ns & Mp & Kp & T & ->).
  rewrite !app_length, K, Ns, Mp, (enc_keypair_leq _ _ Kp), (enc_header_tree_leq _ _ T). reflexivity.
Qed.

Definition tu_sim (u v : tree_upgrade) : Prop :=
  tu_fork u = tu_fork v /\ tu_ancestors u = tu_ancestors v /\ tu_length u = tu_length v /\
  length (tu_signature u) = length (tu_signature v).

Definition e_sim (a b : entry) : Prop :=
  e_nodes a = e_nodes b /\ e_bitfield a = e_bitfield b /\
  match e_upgrade a, e_upgrade b with
  | Some u, Some v => tu_sim u v
  | None, None => True
  | _, _ => False
  end.

Lemma e_sim_refl e : e_sim e e.
Proof. unfold e_sim, tu_sim. destruct (e_upgrade e); repeat split; auto. Qed.

Lemma enc_entry_sim a b : e_sim a b -> res_rel leq (enc_entry a) (enc_entry b).
Proof.
  destruct a as [ns up bu], b as [ns' up' bu']. unfold e_sim. cbn [e_nodes e_upgrade e_bitfield].
  intros (-> & -> & H). unfold enc_entry, entry_flags. cbn [e_nodes e_upgrade e_bitfield].
  assert (G : forall (fl : N) (x : bytes),
             leq ([fl] ++ x ++ (match up with Some u => enc_tree_upgrade u | None => [] end)
                   ++ (match bu' with Some u => enc_bf_update u | None => [] end))
                 ([fl] ++ x ++ (match up' with Some u => enc_tree_upgrade u | None => [] end)
                   ++ (match bu' with Some u => enc_bf_update u | None => [] end))).
  { intros fl x. unfold leq. destruct up as [u|], up' as [v|]; try contradiction; [|reflexivity].
    destruct H as (F & A & L & S). rewrite !app_length. unfold enc_tree_upgrade.
    rewrite !app_length, F, A, L, (enc_buffer_leq _ _ S). reflexivity. }
  assert (Fl : match up with Some _ => 4 | None => 0 end = match up' with Some _ => 4 | None => 0 end).
  { destruct up, up'; try contradiction; reflexivity. }
  rewrite Fl.
  destruct ns' as [|n0 l0]; [|destruct (enc_nodes (n0 :: l0)) as [x|e|s|]]; cbn [bind res_rel]; auto.
Qed.

Section Pure.
  Variable cr : crypto.

  Lemma frame_sim hb pb p1 p2 : leq p1 p2 -> res_rel leq (frame cr hb pb p1) (frame cr hb pb p2).
  Proof.
    unfold leq. intros H. unfold frame. rewrite (len_leq _ _ H).
    destruct (1073741824 <=? len p2); cbn [res_rel]; [reflexivity|].
    unfold leq. rewrite !app_length, !length_le_bytes, H. reflexivity.
  Qed.

  Definition ops_rel (x y : oplog * list sop) : Prop := fst x = fst y /\ Forall2 sop_sim (snd x) (snd y).
  Definition bops_rel (x y : (bool * bool) * list sop) : Prop := fst x = fst y /\ Forall2 sop_sim (snd x) (snd y).

  Lemma oplog_append_sim o a b : e_sim a b -> res_rel ops_rel (oplog_append cr o a) (oplog_append cr o b).
  Proof.
    intros H. unfold oplog_append.
    apply (res_rel_bind leq); [apply res_rel_lift_enc, enc_entry_sim, H|].
    intros p1 p2 L. apply (res_rel_bind leq); [apply frame_sim, L|].
    intros f1 f2 F. cbn [res_rel]. unfold ops_rel, leq in *. cbn [fst snd].
    rewrite (len_leq _ _ F). split; [reflexivity|].
    constructor; [|constructor]. right. exists (ENTRIES_OFFSET + ol_entries_bytes o), f1, f2. auto.
  Qed.

  Lemma insert_header_sim h1 h2 eb bits ct :
    hd_sim h1 h2 -> res_rel bops_rel (insert_header cr h1 eb bits ct) (insert_header cr h2 eb bits ct).
  Proof.
    intros H. unfold insert_header. destruct (next_slot bits) as [[slot bit] bits'].
    pose proof (enc_header_leq _ _ H) as L.
    apply (res_rel_bind leq); [apply frame_sim, L|].
    intros f1 f2 F. unfold leq in F. rewrite (len_leq _ _ L), (len_leq _ _ F).
    destruct (_ <? len f2); cbn [res_rel]; [reflexivity|].
    unfold bops_rel. cbn [fst snd]. split; [reflexivity|].
    constructor; [|constructor; [left; reflexivity|constructor]].
    right. do 3 eexists. split; [reflexivity|]. split; [reflexivity|].
    unfold pad_to. rewrite !app_length, (len_leq _ _ F), F. unfold zeros. rewrite !repeat_length. reflexivity.
  Qed.

  Lemma oplog_flush_sim o h1 h2 ct :
    hd_sim h1 h2 -> res_rel ops_rel (oplog_flush cr o h1 ct) (oplog_flush cr o h2 ct).
  Proof.
    intros H. unfold oplog_flush. destruct ct.
    - apply (res_rel_bind bops_rel); [apply insert_header_sim, H|].
      intros [b1 o1] [b2 o2] [E F]. cbn [fst snd] in E, F. subst b2.
      apply (res_rel_bind bops_rel); [apply insert_header_sim, H|].
      intros [b3 o3] [b4 o4] [E' F']. cbn [fst snd] in E', F'. subst b4.
      cbn [res_rel]. split; [reflexivity|]. cbn [snd]. apply Forall2_app; assumption.
    - apply (res_rel_bind bops_rel); [apply insert_header_sim, H|].
      intros [b1 o1] [b2 o2] [E F]. cbn [fst snd] in E, F. subst b2.
      cbn [res_rel]. split; [reflexivity|exact F].
  Qed.

  (* ---------- the tree: nothing reads the signature ---------- *)

  Lemma node_get_unfl t t' tf i a : t_unflushed t = t_unflushed t' -> node_get t tf i a = node_get t' tf i a.
  Proof. intros E. unfold node_get. rewrite E. reflexivity. Qed.

  Lemma required_node_unfl t t' tf i : t_unflushed t = t_unflushed t' -> required_node t tf i = required_node t' tf i.
  Proof. intros E. unfold required_node. rewrite (node_get_unfl t t' tf i false E). reflexivity. Qed.

  Lemma offset_descend_unfl t t' tf index : t_unflushed t = t_unflushed t' ->
    forall fuel it off, offset_descend fuel t tf it index off = offset_descend fuel t' tf it index off.
  Proof.
    intros E. induction fuel as [|f IH]; intros it off; cbn [offset_descend]; [reflexivity|].
    destruct (it_index it =? index); [reflexivity|].
    destruct (index <? it_index it); [apply IH|].
    rewrite (required_node_unfl t t' tf _ E).
    destruct (required_node t' tf _); cbn [bind]; try reflexivity. apply IH.
  Qed.

  Lemma offset_roots_unfl t t' tf index : t_unflushed t = t_unflushed t' ->
    forall roots head off, offset_roots t tf roots index head off = offset_roots t' tf roots index head off.
  Proof.
    intros E. induction roots as [|r rest IH]; intros head off; cbn [offset_roots]; [reflexivity|].
    apply bind_ext. intros d.
    match goal with |- (if ?b then _ else _) = _ => destruct b end; [apply IH|apply offset_descend_unfl, E].
  Qed.

  Lemma byte_offset_from_nodes_sim t t' tf i : t_sim t t' ->
    byte_offset_from_nodes t tf i = byte_offset_from_nodes t' tf i.
  Proof.
    intros (R & _ & _ & _ & _ & U). unfold byte_offset_from_nodes. rewrite R. apply offset_roots_unfl, U.
  Qed.

  Lemma byte_offset_sim t t' tf i : t_sim t t' -> byte_offset t tf i = byte_offset t' tf i.
  Proof.
    intros H. pose proof H as (_ & L & _). unfold byte_offset, validate_hypercore_index. rewrite L.
    destruct (mul64 _ 2 i); cbn [bind]; try reflexivity.
    destruct (_ <=? a); cbn [bind]; [reflexivity|]. apply byte_offset_from_nodes_sim, H.
  Qed.

  Lemma byte_range_sim t t' tf i : t_sim t t' -> byte_range t tf i = byte_range t' tf i.
  Proof.
    intros H. pose proof H as (_ & L & _ & _ & _ & U). unfold byte_range, validate_hypercore_index. rewrite L.
    destruct (mul64 _ 2 i); cbn [bind]; try reflexivity.
    destruct (_ <=? a); cbn [bind]; [reflexivity|].
    rewrite (required_node_unfl t t' tf a U), (byte_offset_from_nodes_sim t t' tf a H). reflexivity.
  Qed.

  Lemma truncate_roots_unfl t t' tf : t_unflushed t = t_unflushed t' ->
    forall full roots i, truncate_roots t tf full roots i = truncate_roots t' tf full roots i.
  Proof.
    intros E. induction full as [|r rest IH]; intros roots i; cbn [truncate_roots]; [reflexivity|].
    rewrite (required_node_unfl t t' tf r E).
    destruct (nth_error roots i) as [n|].
    - destruct (n_index n =? r); [apply IH|].
      destruct (required_node t' tf r); cbn [bind]; try reflexivity. apply IH.
    - destruct (required_node t' tf r); cbn [bind]; try reflexivity. apply IH.
  Qed.

  Lemma tree_truncate_sim t t' tf l f : t_sim t t' -> tree_truncate t tf l f = tree_truncate t' tf l f.
  Proof.
    intros (R & L & _ & F & _ & U). unfold tree_truncate. rewrite R, L, F, (truncate_roots_unfl t t' tf U).
    reflexivity.
  Qed.

  Lemma tree_changeset_sim t t' : t_sim t t' -> tree_changeset t = tree_changeset t'.
  Proof. intros (R & L & B & F & _ & _). unfold tree_changeset. rewrite R, L, B, F. reflexivity. Qed.

  Definition cs_sim (a b : changeset) : Prop :=
    cs_length a = cs_length b /\ cs_ancestors a = cs_ancestors b /\ cs_byte_length a = cs_byte_length b /\
    cs_batch_length a = cs_batch_length b /\ cs_fork a = cs_fork b /\ cs_roots a = cs_roots b /\
    cs_rnodes a = cs_rnodes b /\ cs_hash a = cs_hash b /\ olen (cs_signature a) (cs_signature b) /\
    cs_upgraded a = cs_upgraded b /\ cs_orig_length a = cs_orig_length b /\ cs_orig_fork a = cs_orig_fork b.

  Lemma tree_commit_sim t t' a b : t_sim t t' -> cs_sim a b -> res_rel t_sim (tree_commit t a) (tree_commit t' b).
  Proof.
    destruct t as [tr tl tb tf ts tu], t' as [tr' tl' tb' tf' ts' tu'],
             a as [a1 a2 a3 a4 a5 a6 a7 a8 a9 aup a11 a12], b as [b1 b2 b3 b4 b5 b6 b7 b8 b9 bup b11 b12].
    unfold t_sim, cs_sim, tree_commit, commitable, cs_nodes.
    cbn [t_roots t_length t_byte_length t_fork t_signature t_unflushed cs_length cs_ancestors cs_byte_length
         cs_batch_length cs_fork cs_roots cs_rnodes cs_hash cs_signature cs_upgraded cs_orig_length cs_orig_fork].
    intros (-> & -> & -> & -> & S & ->) (-> & -> & -> & -> & -> & -> & -> & -> & S' & -> & -> & ->).
    destruct (negb _); cbn [res_rel]; [reflexivity|].
    destruct bup.
    - destruct (_ <? _); cbn [res_rel]; [reflexivity|]. repeat split; auto.
    - cbn [res_rel]. repeat split; auto.
  Qed.

  Lemma tree_flush_sim t t' : t_sim t t' ->
    res_rel (pair_rel t_sim eq) (tree_flush t) (tree_flush t').
  Proof.
    destruct t as [tr tl tb tf ts tu], t' as [tr' tl' tb' tf' ts' tu']. unfold t_sim, tree_flush.
    cbn [t_roots t_length t_byte_length t_fork t_signature t_unflushed].
    intros (-> & -> & -> & -> & S & ->).
    destruct (forallb _ _); cbn [res_rel]; [|reflexivity].
    unfold pair_rel. cbn [fst snd]. repeat split; auto.
  Qed.

  Lemma tree_add_node_sim t t' n : t_sim t t' -> t_sim (tree_add_node t n) (tree_add_node t' n).
  Proof.
    unfold t_sim, tree_add_node. cbn [t_roots t_length t_byte_length t_fork t_signature t_unflushed].
    intros (-> & -> & -> & -> & S & ->). repeat split; auto.
  Qed.

  Lemma fold_add_node_sim l : forall t t', t_sim t t' -> t_sim (fold_left tree_add_node l t) (fold_left tree_add_node l t').
  Proof. induction l as [|n l IH]; intros t t' H; cbn [fold_left]; [exact H|]. apply IH, tree_add_node_sim, H. Qed.

  Lemma parse_signature_sim s s' : leq s s' -> res_rel leq (parse_signature s) (parse_signature s').
  Proof.
    unfold leq, parse_signature. intros H. rewrite H. destruct (Nat.eqb _ 64); cbn [res_rel]; auto.
  Qed.

  Lemma set_contig_sim h h' c : hd_sim h h' -> hd_sim (set_contig h c) (set_contig h' c).
  Proof. unfold hd_sim, set_contig. cbn [hd_key hd_ns hd_mpk hd_keypair hd_tree hd_contig]. tauto. Qed.

  Lemma set_tree_sim h h' t t' : hd_sim h h' -> ht_sim t t' -> hd_sim (set_tree h t) (set_tree h' t').
  Proof. unfold hd_sim, set_tree. cbn [hd_key hd_ns hd_mpk hd_keypair hd_tree hd_contig]. tauto. Qed.

  Lemma set_keypair_sim h h' k k' : hd_sim h h' -> kp_sim k k' -> hd_sim (set_keypair h k) (set_keypair h' k').
  Proof. unfold hd_sim, set_keypair. cbn [hd_key hd_ns hd_mpk hd_keypair hd_tree hd_contig]. tauto. Qed.

  Lemma entry_of_changeset_sim a b bu h h' :
    cs_sim a b -> hd_sim h h' ->
    res_rel (pair_rel e_sim hd_sim) (entry_of_changeset a bu h) (entry_of_changeset b bu h').
  Proof.
    intros C H. pose proof H as (_ & _ & _ & _ & (F & _) & _).
    destruct a as [a1 a2 a3 a4 a5 a6 a7 a8 a9 aup a11 a12], b as [b1 b2 b3 b4 b5 b6 b7 b8 b9 bup b11 b12].
    unfold cs_sim in C.
    cbn [cs_length cs_ancestors cs_byte_length cs_batch_length cs_fork cs_roots cs_rnodes cs_hash cs_signature
         cs_upgraded cs_orig_length cs_orig_fork] in C.
    destruct C as (-> & -> & -> & -> & -> & -> & -> & -> & S & -> & -> & ->).
    unfold entry_of_changeset, cs_nodes.
    cbn [cs_length cs_ancestors cs_byte_length cs_batch_length cs_fork cs_roots cs_rnodes cs_hash cs_signature
         cs_upgraded cs_orig_length cs_orig_fork].
    destruct bup.
    - destruct b8 as [hash|]; cbn [res_rel]; [|reflexivity].
      destruct a9 as [s|], b9 as [s'|]; cbn [olen] in S; try contradiction; cbn [res_rel];
        [|reflexivity].
      unfold pair_rel. cbn [fst snd]. split.
      + unfold e_sim, tu_sim. cbn [e_nodes e_bitfield e_upgrade tu_fork tu_ancestors tu_length tu_signature].
        repeat split; auto.
      + apply set_tree_sim; [exact H|]. unfold ht_sim. cbn [ht_fork ht_length ht_root_hash ht_signature].
        repeat split; auto.
    - cbn [res_rel]. unfold pair_rel. cbn [fst snd]. split; [|exact H].
      unfold e_sim. cbn [e_nodes e_bitfield e_upgrade]. repeat split; auto.
  Qed.
End Pure.

(* ====================================================================================== *)
(* B. The M monad                                                                          *)
(* ====================================================================================== *)

Lemma msim_ret {A B} (R : A -> B -> Prop) a b : R a b -> msim R (ret a) (ret b).
Proof. intros H c1 w1 c2 w2 S W. cbn. auto. Qed.

Lemma msim_bind {A A' B B'} (R : A -> A' -> Prop) (S : B -> B' -> Prop) m1 m2 f1 f2 :
  msim R m1 m2 -> (forall a a', R a a' -> msim S (f1 a) (f2 a')) -> msim S (mbind m1 f1) (mbind m2 f2).
Proof.
  intros Hm Hf c1 w1 c2 w2 Sc Sw. specialize (Hm c1 w1 c2 w2 Sc Sw). unfold mbind.
  destruct (m1 c1 w1) as [[c1' w1'] r1], (m2 c2 w2) as [[c2' w2'] r2]. cbn [fst snd] in Hm.
  destruct Hm as (Sc' & Sw' & Hr).
  destruct r1, r2; cbn [res_rel] in Hr; try contradiction; cbn [fst snd res_rel]; auto.
  apply Hf; assumption.
Qed.

Lemma msim_lift {A B} (R : A -> B -> Prop) r1 r2 : res_rel R r1 r2 -> msim R (lift r1) (lift r2).
Proof. intros H c1 w1 c2 w2 S W. cbn. auto. Qed.

Lemma msim_get_core : msim sim get_core get_core.
Proof. intros c1 w1 c2 w2 S W. cbn. auto. Qed.

Lemma msim_get_disk : msim d_sim get_disk get_disk.
Proof. intros c1 w1 c2 w2 S W. cbn. split; [exact S|]. split; [exact W|]. apply W. Qed.

Lemma msim_send e : msim eq (send e) (send e).
Proof.
  intros c1 w1 c2 w2 S (D & J & E). cbn. split; [exact S|]. split; [|reflexivity].
  unfold w_sim. cbn [w_disk w_journal w_events]. split; [exact D|]. split; [exact J|]. congruence.
Qed.

Lemma msim_mono {A B} (R S : A -> B -> Prop) m1 m2 :
  (forall a b, R a b -> S a b) -> msim R m1 m2 -> msim S m1 m2.
Proof.
  intros H Hm c1 w1 c2 w2 Sc Sw. destruct (Hm c1 w1 c2 w2 Sc Sw) as (X & Y & Z).
  split; [exact X|]. split; [exact Y|]. eapply res_rel_mono; eauto.
Qed.

Lemma f_del_len f g off n :
  f_len f = f_len g ->
  match f_del f off n, f_del g off n with
  | Some a, Some b => f_len a = f_len b
  | None, None => True
  | _, _ => False
  end.
Proof.
  intros E. unfold f_del. rewrite E.
  destruct (f_len g <? off); [exact I|]. destruct (n =? 0); [first [reflexivity|exact E]|].
  destruct (f_len g <=? off + n); [|cbn [f_len]; first [reflexivity|exact E]].
  rewrite !f_truncate_len. reflexivity.
Qed.

Lemma apply_sop_sim d1 d2 o1 o2 :
  d_sim d1 d2 -> sop_sim o1 o2 ->
  match apply_sop d1 o1, apply_sop d2 o2 with
  | Some a, Some b => d_sim a b
  | None, None => True
  | _, _ => False
  end.
Proof.
  destruct d1 as [t1 a1 b1 o1'], d2 as [t2 a2 b2 o2']. unfold d_sim. cbn [d_tree d_data d_bitfield d_oplog].
  intros (-> & -> & -> & L) [->|(off & x & y & -> & -> & Lxy)].
  - destruct o2 as [s off data|s off n|s n]; destruct s; cbn [apply_sop d_get d_set d_tree d_data d_bitfield d_oplog];
      try (repeat split; auto; fail).
    + repeat split; auto. rewrite !f_write_len, L. reflexivity.
    + destruct (f_del t2 off n); [repeat split; auto|exact I].
    + destruct (f_del a2 off n); [repeat split; auto|exact I].
    + destruct (f_del b2 off n); [repeat split; auto|exact I].
    + pose proof (f_del_len o1' o2' off n L) as H.
      destruct (f_del o1' off n), (f_del o2' off n); try contradiction; [|exact I].
      cbn [d_tree d_data d_bitfield d_oplog]. repeat split; auto.
    + repeat split; auto. rewrite !f_truncate_len. reflexivity.
  - cbn [apply_sop d_get d_set d_tree d_data d_bitfield d_oplog]. repeat split; auto.
    rewrite !f_write_len, L, (len_leq _ _ Lxy). reflexivity.
Qed.

Lemma msim_emit ops1 : forall ops2, Forall2 sop_sim ops1 ops2 -> msim eq (emit ops1) (emit ops2).
Proof.
  induction ops1 as [|o1 r1 IH]; intros ops2 H; inversion H; subst.
  - apply msim_ret. reflexivity.
  - intros c1 w1 c2 w2 S W. cbn [emit]. pose proof W as (D & J & E).
    pose proof (apply_sop_sim _ _ _ _ D H2) as A.
    destruct (apply_sop (w_disk w1) o1) as [d1'|], (apply_sop (w_disk w2) y) as [d2'|]; try contradiction.
    + apply IH; [assumption|exact S|]. unfold w_sim. cbn [w_disk w_journal w_events].
      split; [exact A|]. split; [constructor; assumption|exact E].
    + cbn. auto.
Qed.

Lemma msim_emit_same ops : msim eq (emit ops) (emit ops).
Proof. apply msim_emit, Forall2_sop_refl. Qed.

Lemma msim_put_oplog o : msim eq (put_oplog o) (put_oplog o).
Proof. intros c1 w1 c2 w2 (K & O & T & B & H & Sk) W. cbn. unfold sim. cbn. tauto. Qed.
Lemma msim_put_header h h' : hd_sim h h' -> msim eq (put_header h) (put_header h').
Proof. intros X c1 w1 c2 w2 (K & O & T & B & H & Sk) W. cbn. unfold sim. cbn. tauto. Qed.
Lemma msim_put_tree t t' : t_sim t t' -> msim eq (put_tree t) (put_tree t').
Proof. intros X c1 w1 c2 w2 (K & O & T & B & H & Sk) W. cbn. unfold sim. cbn. tauto. Qed.
Lemma msim_put_bitfield b : msim eq (put_bitfield b) (put_bitfield b).
Proof. intros c1 w1 c2 w2 (K & O & T & B & H & Sk) W. cbn. unfold sim. cbn. tauto. Qed.
Lemma msim_put_skip s : msim eq (put_skip s) (put_skip s).
Proof. intros c1 w1 c2 w2 (K & O & T & B & H & Sk) W. cbn. unfold sim. cbn. tauto. Qed.
Lemma msim_put_keypair k k' : kp_sim k k' -> msim eq (put_keypair k) (put_keypair k').
Proof. intros X c1 w1 c2 w2 (K & O & T & B & H & Sk) W. cbn. unfold sim. cbn. tauto. Qed.

(* ====================================================================================== *)
(* C. The operations of a writer                                                           *)
(* ====================================================================================== *)

Section Ops.
  Variable cr : crypto.
  (* the length of a signature does not depend on the key (Ed25519: always 64 bytes) *)
  Hypothesis Hsig : forall sk sk' m, length (cr_sign cr sk m) = length (cr_sign cr sk' m).

  Lemma msim_flush_all ct : msim eq (flush_all cr ct) (flush_all cr ct).
  Proof.
    unfold flush_all.
    apply (msim_bind sim); [apply msim_get_core|]. intros c1 c2 S.
    pose proof S as (K & O & T & B & H & Sk). rewrite B.
    destruct (bf_flush (c_bitfield c2)) as [b' pops].
    apply (msim_bind eq); [apply msim_put_bitfield|]. intros _ _ _.
    apply (msim_bind eq); [apply msim_emit_same|]. intros _ _ _.
    apply (msim_bind (pair_rel t_sim eq)); [apply msim_lift, tree_flush_sim, T|].
    intros [t1 o1] [t2 o2] [Ht Ho]. cbn [fst snd] in Ht, Ho. subst o2. cbv beta iota.
    apply (msim_bind eq); [apply msim_put_tree, Ht|]. intros _ _ _.
    apply (msim_bind eq); [apply msim_emit_same|]. intros _ _ _.
    apply (msim_bind sim); [apply msim_get_core|]. intros c1' c2' S'.
    pose proof S' as (K' & O' & T' & B' & H' & Sk'). rewrite O'.
    apply (msim_bind ops_rel); [apply msim_lift, oplog_flush_sim, H'|].
    intros [x1 y1] [x2 y2] [Hx Hy]. cbn [fst snd] in Hx, Hy. subst x2. cbv beta iota.
    apply (msim_bind eq); [apply msim_put_oplog|]. intros _ _ _.
    apply msim_emit, Hy.
  Qed.

  Lemma msim_maybe_flush f : msim eq (maybe_flush cr f) (maybe_flush cr f).
  Proof.
    unfold maybe_flush. apply (msim_bind sim); [apply msim_get_core|]. intros c1 c2 S.
    pose proof S as (K & O & T & B & H & Sk). rewrite O, Sk. cbv zeta.
    match goal with |- msim _ (if ?b then _ else _) _ => destruct b end.
    - apply (msim_bind eq); [apply msim_put_skip|]. intros _ _ _. apply msim_flush_all.
    - apply msim_put_skip.
  Qed.

  Lemma msim_log_and_commit a b bu : cs_sim a b -> msim eq (log_and_commit cr a bu) (log_and_commit cr b bu).
  Proof.
    intros C. unfold log_and_commit.
    apply (msim_bind sim); [apply msim_get_core|]. intros c1 c2 S.
    pose proof S as (K & O & T & B & H & Sk).
    apply (msim_bind (pair_rel e_sim hd_sim)); [apply msim_lift, entry_of_changeset_sim; assumption|].
    intros [e1 h1] [e2 h2] [He Hh]. cbn [fst snd] in He, Hh. cbv beta iota.
    rewrite O.
    apply (msim_bind ops_rel); [apply msim_lift, oplog_append_sim, He|].
    intros [x1 y1] [x2 y2] [Hx Hy]. cbn [fst snd] in Hx, Hy. subst x2. cbv beta iota.
    apply (msim_bind eq); [apply msim_put_oplog|]. intros _ _ _.
    apply (msim_bind eq); [apply msim_emit, Hy|]. intros _ _ _.
    apply (msim_bind eq); [apply msim_put_header, Hh|]. intros _ _ _.
    apply (msim_bind eq).
    { destruct bu as [u|]; [|apply msim_ret; reflexivity].
      apply (msim_bind sim); [apply msim_get_core|]. intros d1 d2 S2.
      pose proof S2 as (K2 & O2 & T2 & B2 & H2 & Sk2). cbv zeta. rewrite B2.
      apply (msim_bind eq); [apply msim_put_bitfield|]. intros _ _ _.
      apply msim_put_header. pose proof H2 as (_ & _ & _ & _ & _ & Cg). rewrite Cg.
      apply set_contig_sim, H2. }
    intros _ _ _.
    apply (msim_bind sim); [apply msim_get_core|]. intros d1 d2 S2.
    pose proof S2 as (K2 & O2 & T2 & B2 & H2 & Sk2).
    apply (msim_bind t_sim); [apply msim_lift, tree_commit_sim; assumption|].
    intros t1 t2 Ht. apply msim_put_tree, Ht.
  Qed.

  Lemma cs_hash_and_sign_sim cs s1 s2 : cs_sim (cs_hash_and_sign cr cs s1) (cs_hash_and_sign cr cs s2).
  Proof.
    unfold cs_sim, cs_hash_and_sign, cs_set_hash_sig.
    cbn [cs_length cs_ancestors cs_byte_length cs_batch_length cs_fork cs_roots cs_rnodes cs_hash cs_signature
         cs_upgraded cs_orig_length cs_orig_fork olen].
    repeat split; auto.
  Qed.

  (* ---------- core_append ---------- *)
  Theorem msim_core_append f batch : msim eq (core_append cr f batch) (core_append cr f batch).
  Proof.
    unfold core_append. apply (msim_bind sim); [apply msim_get_core|]. intros c1 c2 S.
    pose proof S as (K & O & T & B & H & Sk). destruct K as [Kp Ks].
    destruct (kp_secret (c_keypair c1)) as [s1|], (kp_secret (c_keypair c2)) as [s2|]; cbn [olen] in Ks;
      try contradiction.
    2:{ apply msim_lift. reflexivity. }
    apply (msim_bind eq).
    { destruct batch as [|b0 br]; [apply msim_ret; reflexivity|].
      rewrite (tree_changeset_sim _ _ T).
      apply (msim_bind eq); [apply msim_lift, res_rel_refl|]. intros cs ? <-.
      cbv zeta.
      pose proof T as (_ & _ & TB & _). rewrite TB.
      apply (msim_bind eq); [apply msim_emit_same|]. intros _ _ _.
      pose proof (cs_hash_and_sign_sim cs s1 s2) as C.
      pose proof C as (_ & CA & _ & CB & _). rewrite CA, CB.
      apply (msim_bind eq); [apply msim_log_and_commit, C|]. intros _ _ _.
      apply (msim_bind eq); [apply msim_maybe_flush|]. intros _ _ _.
      apply (msim_bind eq); [apply msim_send|]. intros _ _ _. apply msim_send. }
    intros _ _ _. apply (msim_bind sim); [apply msim_get_core|].
    intros d1 d2 (_ & _ & (_ & L2 & B2 & _) & _).
    rewrite L2, B2. apply msim_ret. reflexivity.
  Qed.

  (* ---------- core_clear ---------- *)
  Theorem msim_core_clear f s e : msim eq (core_clear cr f s e) (core_clear cr f s e).
  Proof.
    unfold core_clear. destruct (e <=? s); [apply msim_ret; reflexivity|].
    apply (msim_bind sim); [apply msim_get_core|]. intros c1 c2 S.
    pose proof S as (K & O & T & B & H & Sk). cbv zeta. rewrite O, B.
    apply (msim_bind ops_rel); [apply msim_lift, oplog_append_sim, e_sim_refl|].
    intros [x1 y1] [x2 y2] [Hx Hy]. cbn [fst snd] in Hx, Hy. subst x2. cbv beta iota.
    apply (msim_bind eq); [apply msim_put_oplog|]. intros _ _ _.
    apply (msim_bind eq); [apply msim_emit, Hy|]. intros _ _ _.
    apply (msim_bind eq); [apply msim_put_bitfield|]. intros _ _ _.
    apply (msim_bind eq).
    { pose proof H as (_ & _ & _ & _ & _ & Cg). rewrite Cg.
      destruct (s <? _); [apply msim_put_header, set_contig_sim, H|apply msim_ret; reflexivity]. }
    intros _ _ _.
    pose proof T as (_ & TL & _). rewrite TL.
    apply (msim_bind d_sim); [apply msim_get_disk|]. intros d1 d2 D.
    pose proof D as (Dt & Dd & Db & Dl). rewrite Dt, Dd.
    rewrite (byte_offset_sim _ _ _ _ T).
    apply (msim_bind eq); [apply msim_lift, res_rel_refl|]. intros co ? <-.
    apply (msim_bind eq); [apply msim_lift, res_rel_refl|]. intros e1 ? <-.
    rewrite (byte_range_sim _ _ _ _ T).
    apply (msim_bind eq); [apply msim_lift, res_rel_refl|]. intros [lo ll] ? <-. cbv beta iota.
    apply (msim_bind eq); [apply msim_lift, res_rel_refl|]. intros cl ? <-.
    apply (msim_bind eq).
    { match goal with |- msim _ (if ?b then _ else _) _ => destruct b end;
        [apply msim_emit_same|apply msim_ret; reflexivity]. }
    intros _ _ _. apply msim_maybe_flush.
  Qed.

  (* ---------- core_make_read_only ---------- *)
  Theorem msim_core_make_read_only : msim eq (core_make_read_only cr) (core_make_read_only cr).
  Proof.
    unfold core_make_read_only. apply (msim_bind sim); [apply msim_get_core|]. intros c1 c2 S.
    pose proof S as ((Kp & Ks) & O & T & B & H & Sk). cbv zeta.
    pose proof H as (_ & _ & _ & (HKp & _) & _).
    apply (msim_bind eq); [apply msim_put_keypair; split; [exact Kp|exact I]|]. intros _ _ _.
    apply (msim_bind eq); [apply msim_put_header, set_keypair_sim; [exact H|split; [exact HKp|exact I]]|].
    intros _ _ _.
    apply (msim_bind eq); [apply msim_flush_all|]. intros _ _ _.
    apply msim_ret.
    destruct (kp_secret (c_keypair c1)), (kp_secret (c_keypair c2)); cbn [olen] in Ks; try contradiction;
      reflexivity.
  Qed.
End Ops.

(* ---------- core_get, core_has, core_info ---------- *)
Theorem msim_core_get i : msim eq (core_get i) (core_get i).
Proof.
  unfold core_get. apply (msim_bind sim); [apply msim_get_core|]. intros c1 c2 S.
  pose proof S as (K & O & T & B & H & Sk). rewrite B.
  destruct (negb _).
  - apply (msim_bind eq); [apply msim_send|]. intros _ _ _. apply msim_ret. reflexivity.
  - apply (msim_bind d_sim); [apply msim_get_disk|]. intros d1 d2 D.
    pose proof D as (Dt & Dd & Db & Dl). rewrite Dt, Dd, (byte_range_sim _ _ _ _ T).
    apply (msim_bind eq); [apply msim_lift, res_rel_refl|]. intros [off l] ? <-. cbv beta iota.
    destruct (l =? 0); [apply msim_ret; reflexivity|].
    destruct (f_read _ off l); [apply msim_ret; reflexivity|apply msim_lift; reflexivity].
Qed.

Theorem core_has_sim c1 c2 i : sim c1 c2 -> core_has c1 i = core_has c2 i.
Proof. intros (K & O & T & B & H & Sk). unfold core_has. rewrite B. reflexivity. Qed.

Theorem core_info_sim c1 c2 : sim c1 c2 -> core_info c1 = core_info c2.
Proof.
  intros ((Kp & Ks) & O & (_ & TL & TB & TF & _) & B & (_ & _ & _ & _ & _ & Cg) & Sk).
  unfold core_info. rewrite TL, TB, TF, Cg.
  destruct (kp_secret (c_keypair c1)), (kp_secret (c_keypair c2)); cbn [olen] in Ks; try contradiction;
    reflexivity.
Qed.

(* ====================================================================================== *)
(* D. core_open: creation and reopen                                                       *)
(* ====================================================================================== *)

Definition oo_sim (a b : open_outcome) : Prop :=
  oo_oplog a = oo_oplog b /\ hd_sim (oo_header a) (oo_header b) /\
  Forall2 sop_sim (oo_ops a) (oo_ops b) /\ Forall2 e_sim (oo_entries a) (oo_entries b).

Definition st_sim (x y : mtree * bitfield * header) : Prop :=
  t_sim (fst (fst x)) (fst (fst y)) /\ snd (fst x) = snd (fst y) /\ hd_sim (snd x) (snd y).

Definition odisk_rel (a b : option disk) : Prop :=
  match a, b with Some x, Some y => d_sim x y | None, None => True | _, _ => False end.

Lemma apply_sops_sim l1 : forall l2 d1 d2, d_sim d1 d2 -> Forall2 sop_sim l1 l2 ->
  odisk_rel (apply_sops d1 l1) (apply_sops d2 l2).
Proof.
  induction l1 as [|o1 r1 IH]; intros l2 d1 d2 D H; inversion H; subst; cbn [apply_sops odisk_rel]; [exact D|].
  pose proof (apply_sop_sim _ _ _ _ D H2) as A.
  destruct (apply_sop d1 o1), (apply_sop d2 y); try contradiction; [|exact I].
  apply IH; assumption.
Qed.

Lemma tree_open_sim a b tf : ht_sim a b -> res_rel t_sim (tree_open a tf) (tree_open b tf).
Proof.
  intros (F & L & R & S). unfold tree_open. rewrite L.
  apply (res_rel_bind eq); [apply res_rel_refl|]. intros [[roots bl] l2] ? <-.
  apply (res_rel_bind olen).
  - destruct (ht_signature a) as [|x xs], (ht_signature b) as [|y ys]; try discriminate S; cbn [res_rel olen]; auto.
    apply (res_rel_bind leq); [apply parse_signature_sim, S|]. intros s s' Hs. exact Hs.
  - intros s s' Hs. cbn [res_rel]. unfold t_sim. cbn [t_roots t_length t_byte_length t_fork t_signature t_unflushed].
    repeat split; auto.
Qed.

Section Open.
  Variable cr : crypto.

  Lemma replay_entry_sim tf t t' b h h' e e' :
    t_sim t t' -> hd_sim h h' -> e_sim e e' ->
    res_rel st_sim (replay_entry cr tf (t, b, h) e) (replay_entry cr tf (t', b, h') e').
  Proof.
    intros T H (En & Eb & Eu). unfold replay_entry. cbv zeta. rewrite <- En, <- Eb.
    pose proof (fold_add_node_sim (e_nodes e) t t' T) as T1.
    set (t1 := fold_left tree_add_node (e_nodes e) t) in *.
    set (t1' := fold_left tree_add_node (e_nodes e) t') in *.
    pose proof H as (_ & _ & _ & _ & (HF & _) & Cg).
    assert (X : exists b1 h1 h1', hd_sim h1 h1' /\
              (match e_bitfield e with
               | Some u => (bf_apply b u, set_contig h (update_contig (hd_contig h) (bf_apply b u) u))
               | None => (b, h) end) = (b1, h1) /\
              (match e_bitfield e with
               | Some u => (bf_apply b u, set_contig h' (update_contig (hd_contig h') (bf_apply b u) u))
               | None => (b, h') end) = (b1, h1')).
    { destruct (e_bitfield e) as [u|].
      - do 3 eexists. split; [|split; reflexivity]. rewrite Cg. apply set_contig_sim, H.
      - do 3 eexists. split; [|split; reflexivity]. exact H. }
    destruct X as (b1 & h1 & h1' & H1 & -> & ->).
    pose proof H1 as (_ & _ & _ & _ & (HF1 & _) & _).
    destruct (e_upgrade e) as [u|], (e_upgrade e') as [v|]; try contradiction.
    - destruct Eu as (UF & UA & UL & US). rewrite UL, UF, (tree_truncate_sim _ _ tf _ _ T1).
      apply (res_rel_bind eq); [apply res_rel_refl|]. intros cs ? <-.
      apply (res_rel_bind leq); [apply parse_signature_sim, US|]. intros sg sg' Hs.
      apply (res_rel_bind t_sim).
      + apply tree_commit_sim; [exact T1|]. unfold cs_sim.
        cbn [cs_length cs_ancestors cs_byte_length cs_batch_length cs_fork cs_roots cs_rnodes cs_hash cs_signature
             cs_upgraded cs_orig_length cs_orig_fork olen]. repeat split; auto.
      + intros t2 t2' T2. cbn [res_rel]. unfold st_sim. cbn [fst snd]. split; [exact T2|]. split; [reflexivity|].
        apply set_tree_sim; [exact H1|]. unfold ht_sim. cbn [ht_fork ht_length ht_root_hash ht_signature].
        repeat split; auto.
    - cbn [res_rel]. unfold st_sim. cbn [fst snd]. auto.
  Qed.

  Lemma replay_entries_sim tf l : forall l' t t' b h h',
    t_sim t t' -> hd_sim h h' -> Forall2 e_sim l l' ->
    res_rel st_sim (replay_entries cr tf (t, b, h) l) (replay_entries cr tf (t', b, h') l').
  Proof.
    induction l as [|e r IH]; intros l' t t' b h h' T H F; inversion F; subst; cbn [replay_entries].
    - cbn [res_rel]. unfold st_sim. cbn [fst snd]. auto.
    - apply (res_rel_bind st_sim); [apply replay_entry_sim; assumption|].
      intros [[t1 b1] h1] [[t2 b2] h2] (T1 & B1 & H1). cbn [fst snd] in T1, B1, H1. subst b2.
      apply IH; assumption.
  Qed.

  (* what core_open does once oplog_open has answered *)
  Definition open_tail (d : disk) (r : res open_outcome) : disk * list sop * res core :=
    match r with
    | Err e => (d, [], Err e)
    | Panic s => (d, [], Panic s)
    | OutOfFuel => (d, [], OutOfFuel)
    | Ok oo =>
        match apply_sops d (oo_ops oo) with
        | None => (d, [], Err InvalidOperation)
        | Some d' =>
            (d', oo_ops oo,
             t <- tree_open (hd_tree (oo_header oo)) (d_tree d') ;;
             let b := bf_open (d_bitfield d') in
             '(t, b, h) <- replay_entries cr (d_tree d') (t, b, oo_header oo) (oo_entries oo) ;;
             Ok (mkCore (hd_keypair h) (oo_oplog oo) t b h 0))
        end
    end.

  Lemma core_open_reopen d : core_open cr None true d = open_tail d (oplog_open cr None (f_content (d_oplog d))).
  Proof. reflexivity. Qed.

  Lemma core_open_create kp d :
    core_open cr (Some kp) false d = open_tail d (oplog_open cr (Some kp) (f_content (d_oplog d))).
  Proof. reflexivity. Qed.

  Definition triple_sim (x y : disk * list sop * res core) : Prop :=
    d_sim (fst (fst x)) (fst (fst y)) /\ Forall2 sop_sim (snd (fst x)) (snd (fst y)) /\
    res_rel sim (snd x) (snd y).

  Theorem open_tail_sim d1 d2 r1 r2 :
    d_sim d1 d2 -> res_rel oo_sim r1 r2 -> triple_sim (open_tail d1 r1) (open_tail d2 r2).
  Proof.
    intros D R. unfold open_tail, triple_sim.
    destruct r1 as [o1|e1|s1|], r2 as [o2|e2|s2|]; cbn [res_rel] in R; try contradiction;
      try (cbn [fst snd res_rel]; auto; fail).
    destruct R as (Ro & Rh & Rops & Re).
    pose proof (apply_sops_sim _ _ _ _ D Rops) as A.
    destruct (apply_sops d1 (oo_ops o1)) as [d1'|], (apply_sops d2 (oo_ops o2)) as [d2'|];
      cbn [odisk_rel] in A; try contradiction; cbn [fst snd]; [|cbn [res_rel]; auto].
    split; [exact A|]. split; [exact Rops|].
    pose proof A as (Dt & Dd & Db & Dl). rewrite Dt, Db.
    apply (res_rel_bind t_sim); [apply tree_open_sim, Rh|]. intros t1 t2 T. cbv zeta.
    apply (res_rel_bind st_sim); [apply replay_entries_sim; assumption|].
    intros [[t1' b1] h1] [[t2' b2] h2] (T1 & B1 & H1). cbn [fst snd] in T1, B1, H1. subst b2.
    cbn [res_rel]. unfold sim. cbn [c_keypair c_oplog c_tree c_bitfield c_header c_skip].
    pose proof H1 as (_ & _ & _ & K1 & _).
    split; [exact K1|]. split; [exact Ro|]. split; [exact T1|]. split; [reflexivity|]. split; [exact H1|reflexivity].
  Qed.

  (* creation on the empty storage: two key pairs of the same shape *)
  Lemma header_new_sim k1 k2 : kp_sim k1 k2 -> hd_sim (header_new k1) (header_new k2).
  Proof.
    intros K. pose proof K as [Kp Ks]. unfold hd_sim, header_new, ht_sim.
    cbn [hd_key hd_ns hd_mpk hd_keypair hd_tree hd_contig ht_fork ht_length ht_root_hash ht_signature].
    repeat split; auto.
  Qed.

  Lemma oplog_open_empty_sim k1 k2 :
    kp_sim k1 k2 -> res_rel oo_sim (oplog_open cr (Some k1) []) (oplog_open cr (Some k2) []).
  Proof.
    intros K. unfold oplog_open, slot_leader, slice.
    change (HEADER_SIZE <=? len []) with false. change (ENTRIES_OFFSET <=? len []) with false.
    change (ENTRIES_OFFSET <? len []) with false. cbv iota.
    unfold oplog_fresh.
    pose proof (insert_header_sim cr _ _ 0 INITIAL_HEADER_BITS false (header_new_sim _ _ K)) as I.
    destruct (insert_header cr (header_new k1) 0 INITIAL_HEADER_BITS false) as [[b1 o1]|e1|s1|],
             (insert_header cr (header_new k2) 0 INITIAL_HEADER_BITS false) as [[b2 o2]|e2|s2|];
      cbn [res_rel] in I; try contradiction; cbn [bind res_rel]; auto.
    destruct I as [Ib Io]. cbn [fst snd] in Ib, Io. subst b2.
    unfold oo_sim. cbn [oo_oplog oo_header oo_ops oo_entries].
    split; [reflexivity|]. split; [apply header_new_sim, K|]. split; [exact Io|constructor].
  Qed.

  Theorem create_sim k1 k2 :
    kp_sim k1 k2 ->
    triple_sim (core_open cr (Some k1) false disk_empty) (core_open cr (Some k2) false disk_empty).
  Proof.
    intros K. rewrite !core_open_create.
    change (f_content (d_oplog disk_empty)) with (@nil N).
    apply open_tail_sim; [repeat split|apply oplog_open_empty_sim, K].
  Qed.

  (* reopen: related outcomes of oplog_open on the two oplog files suffice *)
  Theorem reopen_sim d1 d2 :
    d_sim d1 d2 ->
    res_rel oo_sim (oplog_open cr None (f_content (d_oplog d1))) (oplog_open cr None (f_content (d_oplog d2))) ->
    triple_sim (core_open cr None true d1) (core_open cr None true d2).
  Proof. intros D R. rewrite !core_open_reopen. apply open_tail_sim; assumption. Qed.
End Open.

Print Assumptions msim_core_append.
Print Assumptions msim_core_clear.
Print Assumptions msim_core_make_read_only.
Print Assumptions msim_core_get.
Print Assumptions create_sim.
Print Assumptions reopen_sim.

(* generated on every run by tools/srccodec.py from /repo/src/encoding.rs (+ common/peer.rs, common/node.rs): the wire
   codecs as the source states them now (None = the impl is no longer in the macro form the translator recognises).
   CodecTie.v ties them to the encoders of Codec.v. *)
From HC Require Import CodecDesc.
Local Open Scope string_scope.

Definition src_Node : option codec_desc := Some {|   (* common/node.rs *)
  cd_size := [("index", FU64); ("length", FU64); ("hash", FHash32)];
  cd_enc := [("index", FU64); ("length", FU64); ("hash", FHash32)];
  cd_dec_types := [FU64; FU64; FHash32];
  cd_ctor := ["index"; "length"; "hash"] |}.
Definition src_RequestBlock : option codec_desc := Some {|   (* common/peer.rs *)
  cd_size := [("index", FU64); ("nodes", FU64)];
  cd_enc := [("index", FU64); ("nodes", FU64)];
  cd_dec_types := [FU64; FU64];
  cd_ctor := ["index"; "nodes"] |}.
Definition src_RequestSeek : option codec_desc := Some {|   (* common/peer.rs *)
  cd_size := [("bytes", FU64)];
  cd_enc := [("bytes", FU64)];
  cd_dec_types := [FU64];
  cd_ctor := ["bytes"] |}.
Definition src_RequestUpgrade : option codec_desc := Some {|   (* common/peer.rs *)
  cd_size := [("start", FU64); ("length", FU64)];
  cd_enc := [("start", FU64); ("length", FU64)];
  cd_dec_types := [FU64; FU64];
  cd_ctor := ["start"; "length"] |}.
Definition src_DataBlock : option codec_desc := Some {|   (* common/peer.rs *)
  cd_size := [("index", FU64); ("value", FBytes); ("nodes", FNodes)];
  cd_enc := [("index", FU64); ("value", FBytes); ("nodes", FNodes)];
  cd_dec_types := [FU64; FBytes; FNodes];
  cd_ctor := ["index"; "value"; "nodes"] |}.
Definition src_DataHash : option codec_desc := Some {|   (* common/peer.rs *)
  cd_size := [("index", FU64); ("nodes", FNodes)];
  cd_enc := [("index", FU64); ("nodes", FNodes)];
  cd_dec_types := [FU64; FNodes];
  cd_ctor := ["index"; "nodes"] |}.
Definition src_DataSeek : option codec_desc := Some {|   (* common/peer.rs *)
  cd_size := [("bytes", FU64); ("nodes", FNodes)];
  cd_enc := [("bytes", FU64); ("nodes", FNodes)];
  cd_dec_types := [FU64; FNodes];
  cd_ctor := ["bytes"; "nodes"] |}.
Definition src_DataUpgrade : option codec_desc := Some {|   (* common/peer.rs *)
  cd_size := [("start", FU64); ("length", FU64); ("nodes", FNodes); ("additional_nodes", FNodes); ("signature", FBytes)];
  cd_enc := [("start", FU64); ("length", FU64); ("nodes", FNodes); ("additional_nodes", FNodes); ("signature", FBytes)];
  cd_dec_types := [FU64; FU64; FNodes; FNodes; FBytes];
  cd_ctor := ["start"; "length"; "nodes"; "additional_nodes"; "signature"] |}.

(* the oplog codecs of /repo/src/oplog/entry.rs and /repo/src/oplog/header.rs (property C06); OplogTie.v ties them to
   Oplog.v. Entry: for encoded_size / encode / decode separately, the sections in source order, each with the flag
   bit that announces it (encode: `flags |= N`; decode: `flags & N != 0`). *)
Definition src_EntryTreeUpgrade : option codec_desc := Some {|   (* oplog/entry.rs *)
  cd_size := [("fork", FU64); ("ancestors", FU64); ("length", FU64); ("signature", FBytes)];
  cd_enc := [("fork", FU64); ("ancestors", FU64); ("length", FU64); ("signature", FBytes)];
  cd_dec_types := [FU64; FU64; FU64; FBytes];
  cd_ctor := ["fork"; "ancestors"; "length"; "signature"] |}.
Definition src_HeaderTree : option codec_desc := Some {|   (* oplog/header.rs *)
  cd_size := [("fork", FU64); ("length", FU64); ("root_hash", FBytes); ("signature", FBytes)];
  cd_enc := [("fork", FU64); ("length", FU64); ("root_hash", FBytes); ("signature", FBytes)];
  cd_dec_types := [FU64; FU64; FBytes; FBytes];
  cd_ctor := ["fork"; "length"; "root_hash"; "signature"] |}.
Definition src_HeaderHints : option codec_desc := Some {|   (* oplog/header.rs *)
  cd_size := [("reorgs", FStrings); ("contiguous_length", FU64)];
  cd_enc := [("reorgs", FStrings); ("contiguous_length", FU64)];
  cd_dec_types := [FStrings; FU64];
  cd_ctor := ["reorgs"; "contiguous_length"] |}.
Definition src_Entry : option flagged_desc := Some {|   (* oplog/entry.rs *)
  fd_size_lead := 1%N;
  fd_size := [("user_data", FStrings); ("tree_nodes", FNodes); ("tree_upgrade", FRec "EntryTreeUpgrade"); ("bitfield", FRec "BitfieldUpdate")];
  fd_enc := [("user_data", 1%N, FStrings); ("tree_nodes", 2%N, FNodes); ("tree_upgrade", 4%N, FRec "EntryTreeUpgrade"); ("bitfield", 8%N, FRec "BitfieldUpdate")];
  fd_dec := [("user_data", 1%N, FStrings); ("tree_nodes", 2%N, FNodes); ("tree_upgrade", 4%N, FRec "EntryTreeUpgrade"); ("bitfield", 8%N, FRec "BitfieldUpdate")] |}.
Definition src_BitfieldUpdate : option codec_desc := Some {|   (* oplog/entry.rs *)
  cd_size := [("start", FU64); ("length", FU64)];
  cd_enc := [("start", FU64); ("length", FU64)];
  cd_dec_types := [FU64; FU64];
  cd_ctor := ["start"; "length"] |}.
Definition src_BitfieldUpdate_flag : option flagbyte_desc := Some {|   (* oplog/entry.rs *)
  fb_size := 1%N;
  fb_enc := [("drop", 1%N)];
  fb_dec := [("drop", 1%N)] |}.
Definition src_Header : option codec_desc := Some {|   (* oplog/header.rs *)
  cd_size := [("key", FHash32); ("manifest", FRec "Manifest"); ("key_pair", FRec "PartialKeypair"); ("user_data", FStrings); ("tree", FRec "HeaderTree"); ("hints", FRec "HeaderHints")];
  cd_enc := [("key", FHash32); ("manifest", FRec "Manifest"); ("key_pair", FRec "PartialKeypair"); ("user_data", FStrings); ("tree", FRec "HeaderTree"); ("hints", FRec "HeaderHints")];
  cd_dec_types := [FHash32; FRec "Manifest"; FRec "PartialKeypair"; FStrings; FRec "HeaderTree"; FRec "HeaderHints"];
  cd_ctor := ["key"; "manifest"; "key_pair"; "user_data"; "tree"; "hints"] |}.
Definition src_Header_lead : option lead_desc := Some {|   (* oplog/header.rs *)
  hl_bytes := [1%N; 6%N];
  hl_dec_skip := 2%N;
  hl_size := 2%N |}.

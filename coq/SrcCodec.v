(* generated on every run by tools/srccodec.py from /repo/src/encoding.rs (+ common/peer.rs, common/node.rs): the wire
   codecs as the source states them now (None = the impl is no longer in the macro form the translator recognises).
   CodecTie.v ties them to the encoders of Codec.v. *)
From HC Require Import CodecDesc.
Local Open Scope string_scope.

Definition src_Node : option codec_desc := Some {|   (* common/node.rs *)
  cd_size := [("index", FU64); ("length", FU64); ("hash", FHash32)];
  cd_enc := [("index", FU64); ("length", FU64); ("hash", FHash32)];
  cd_dec_types := [FU64; FU64; FHash32];
  cd_ctor := ["index"; "length"; "hash"] |}.
Definition src_RequestBlock : option codec_desc := Some {|   (* common/peer.rs *)
  cd_size := [("index", FU64); ("nodes", FU64)];
  cd_enc := [("index", FU64); ("nodes", FU64)];
  cd_dec_types := [FU64; FU64];
  cd_ctor := ["index"; "nodes"] |}.
Definition src_RequestSeek : option codec_desc := Some {|   (* common/peer.rs *)
  cd_size := [("bytes", FU64)];
  cd_enc := [("bytes", FU64)];
  cd_dec_types := [FU64];
  cd_ctor := ["bytes"] |}.
Definition src_RequestUpgrade : option codec_desc := Some {|   (* common/peer.rs *)
  cd_size := [("start", FU64); ("length", FU64)];
  cd_enc := [("start", FU64); ("length", FU64)];
  cd_dec_types := [FU64; FU64];
  cd_ctor := ["start"; "length"] |}.
Definition src_DataBlock : option codec_desc := Some {|   (* common/peer.rs *)
  cd_size := [("index", FU64); ("value", FBytes); ("nodes", FNodes)];
  cd_enc := [("index", FU64); ("value", FBytes); ("nodes", FNodes)];
  cd_dec_types := [FU64; FBytes; FNodes];
  cd_ctor := ["index"; "value"; "nodes"] |}.
Definition src_DataHash : option codec_desc := Some {|   (* common/peer.rs *)
  cd_size := [("index", FU64); ("nodes", FNodes)];
  cd_enc := [("index", FU64); ("nodes", FNodes)];
  cd_dec_types := [FU64; FNodes];
  cd_ctor := ["index"; "nodes"] |}.
Definition src_DataSeek : option codec_desc := Some {|   (* common/peer.rs *)
  cd_size := [("bytes", FU64); ("nodes", FNodes)];
  cd_enc := [("bytes", FU64); ("nodes", FNodes)];
  cd_dec_types := [FU64; FNodes];
  cd_ctor := ["bytes"; "nodes"] |}.
Definition src_DataUpgrade : option codec_desc := Some {|   (* common/peer.rs *)
  cd_size := [("start", FU64); ("length", FU64); ("nodes", FNodes); ("additional_nodes", FNodes); ("signature", FBytes)];
  cd_enc := [("start", FU64); ("length", FU64); ("nodes", FNodes); ("additional_nodes", FNodes); ("signature", FBytes)];
  cd_dec_types := [FU64; FU64; FNodes; FNodes; FBytes];
  cd_ctor := ["start"; "length"; "nodes"; "additional_nodes"; "signature"] |}.

(* NoPanic.v — totality of the proof verifier of Merkle.v (property C09):
   verifying a proof returns a value or an error, never Panic / OutOfFuel, whatever the peer sends
   (numeric fields below 2^40). *)
From HC Require Import Base NMap Codec CodecFacts Crypto FlatTree Storage Oplog Merkle.
From Coq Require Import ZifyN ZifyNat ZifyBool.
Ltac Zify.zify_post_hook ::= Z.div_mod_to_equations.
Arguments N.add : simpl never.
Arguments N.sub : simpl never.
Arguments N.mul : simpl never.
Arguments N.div : simpl never.
Arguments N.modulo : simpl never.
Arguments N.pow : simpl never.
Arguments N.eqb : simpl never.
Arguments N.ltb : simpl never.
Arguments N.leb : simpl never.
Arguments N.log2 : simpl never.

(* ---------- the result monad ---------- *)

Lemma returns_bind {A B} (r : res A) (f : A -> res B) :
  returns r = true -> (forall a, r = Ok a -> returns (f a) = true) -> returns (bind r f) = true.
Proof. destruct r; cbn; intros H1 H2; try discriminate; auto. Qed.

Lemma add64_ok s a b : a + b <= u64_max -> add64 s a b = Ok (a + b).
Proof. intros H. unfold add64, fits_u64. destruct (a + b <=? u64_max) eqn:E; [reflexivity|lia]. Qed.

Lemma mul64_ok s a b : a * b <= u64_max -> mul64 s a b = Ok (a * b).
Proof. intros H. unfold mul64, fits_u64. destruct (a * b <=? u64_max) eqn:E; [reflexivity|lia]. Qed.

(* any non-returning outcome of a checked addition is a Panic (never OutOfFuel) *)
Lemma add64_cases s a b : add64 s a b = Ok (a + b) \/ (u64_max < a + b /\ add64 s a b = Panic s).
Proof. unfold add64, fits_u64. destruct (a + b <=? u64_max) eqn:E; [left; reflexivity | right; split; [lia|reflexivity]]. Qed.

Lemma sumN_app a b : sumN (a ++ b) = sumN a + sumN b.
Proof. induction a as [|x a IH]; cbn [app sumN]; lia. Qed.

Lemma sumN_rev a : sumN (rev a) = sumN a.
Proof. induction a as [|x a IH]; cbn [rev sumN]; [reflexivity|]. rewrite sumN_app. cbn [sumN]. lia. Qed.

Definition lens (l : list node) : N := sumN (map n_length l).

Lemma lens_cons n l : lens (n :: l) = n_length n + lens l.
Proof. reflexivity. Qed.

Lemma lens_rev l : lens (rev l) = lens l.
Proof. unfold lens. rewrite map_rev. apply sumN_rev. Qed.

Lemma lens_app a b : lens (a ++ b) = lens a + lens b.
Proof. unfold lens. rewrite map_app. apply sumN_app. Qed.

(* ---------- flat-tree iterator: the power-free invariant ----------
   (same invariant as in the companion FlatTreeFacts.v, restated here so that this file only
   depends on the frozen model files) *)

Lemma parity (n : N) :
  (N.even n = true /\ N.odd n = false /\ exists q, n = 2 * q) \/
  (N.even n = false /\ N.odd n = true /\ exists q, n = 2 * q + 1).
Proof.
  destruct (N.even n) eqn:E.
  - left. split; [reflexivity|]. split.
    + rewrite <- N.negb_even, E. reflexivity.
    + apply N.even_spec in E. destruct E as [q E]. exists q. exact E.
  - right. split; [reflexivity|].
    assert (O : N.odd n = true) by (rewrite <- N.negb_even, E; reflexivity).
    split; [exact O|]. apply N.odd_spec in O. destruct O as [q O]. exists q. exact O.
Qed.

Lemma even_mod (n : N) : N.even n = (n mod 2 =? 0).
Proof. destruct (parity n) as [(E & _ & q & ->)|(E & _ & q & ->)]; rewrite E; lia. Qed.

Lemma odd_mod (n : N) : N.odd n = (n mod 2 =? 1).
Proof. destruct (parity n) as [(_ & E & q & ->)|(_ & E & q & ->)]; rewrite E; lia. Qed.

Lemma pow2_pos (d : N) : 0 < 2 ^ d.
Proof. apply N.neq_0_lt_0. apply N.pow_nonzero. discriminate. Qed.

Lemma pow2_succ (d : N) : 2 ^ (d + 1) = 2 * 2 ^ d.
Proof. rewrite N.add_1_r. apply N.pow_succ_r'. Qed.

Lemma tz_spec (p : positive) : exists k, N.pos p = 2 ^ tz p * (2 * k + 1).
Proof.
  induction p as [p _|p [k IH]|].
  - exists (N.pos p). cbn [tz]. rewrite N.pow_0_r. lia.
  - exists k. cbn [tz]. rewrite N.add_comm, pow2_succ. lia.
  - exists 0. cbn [tz]. rewrite N.pow_0_r. reflexivity.
Qed.

Lemma ft_depth_even (i : N) : N.even i = true -> ft_depth i = 0.
Proof. destruct i as [|[q|q|]]; intros H; try discriminate H; reflexivity. Qed.

(* i + 1 = 2^depth * (2 * offset + 1) *)
Lemma ft_decomp (i : N) : i + 1 = 2 ^ ft_depth i * (2 * ft_offset i + 1).
Proof.
  unfold ft_offset.
  destruct (parity i) as [(E & _ & q & Hq)|(E & _ & q & Hq)]; rewrite E.
  - rewrite (ft_depth_even i E), N.pow_0_r. lia.
  - unfold ft_depth. destruct (tz_spec (N.succ_pos i)) as [k Hk].
    rewrite N.succ_pos_spec in Hk. rewrite pow2_succ.
    pose proof (pow2_pos (tz (N.succ_pos i))) as Hp.
    set (P := 2 ^ tz (N.succ_pos i)) in *.
    assert (Hd : k = i / (2 * P)).
    { apply (N.div_unique i (2 * P) k (P - 1)); lia. }
    rewrite <- Hd. lia.
Qed.

(* h is half the factor (2^depth for the iterators the code builds) *)
Definition iwf (t : fiter) : Prop :=
  exists h, it_factor t = 2 * h /\ 0 < h /\ it_index t + 1 = it_offset t * it_factor t + h.

Lemma it_new_index (i : N) : it_index (it_new i) = i.
Proof. unfold it_new. destruct (N.odd i); reflexivity. Qed.

Lemma iwf_new (i : N) : iwf (it_new i).
Proof.
  unfold it_new. destruct (parity i) as [(E & O & q & Hq)|(E & O & q & Hq)]; rewrite O.
  - exists 1. cbn [it_index it_offset it_factor]. lia.
  - exists (2 ^ ft_depth i). cbn [it_index it_offset it_factor].
    pose proof (pow2_pos (ft_depth i)). pose proof (ft_decomp i). rewrite pow2_succ. lia.
Qed.

Ltac iwf_open t H :=
  let i := fresh "i" in let o := fresh "o" in let f := fresh "f" in
  let h := fresh "h" in let Hf := fresh "Hf" in let Hh := fresh "Hh" in let Hi := fresh "Hi" in
  destruct t as [i o f]; destruct H as (h & Hf & Hh & Hi);
  cbn [it_index it_offset it_factor] in Hf, Hh, Hi; subst f.

Lemma iwf_parent (t : fiter) : iwf t -> iwf (it_parent t).
Proof.
  intros H. iwf_open t H. unfold it_parent. cbn [it_index it_offset it_factor].
  rewrite odd_mod. exists (2 * h).
  destruct (o mod 2 =? 1) eqn:E; cbn [it_index it_offset it_factor].
  - assert (exists q, o = 2 * q + 1) as [q ->] by (exists (o / 2); lia).
    replace ((2 * q + 1 - 1) / 2) with q by lia. lia.
  - assert (exists q, o = 2 * q) as [q ->] by (exists (o / 2); lia).
    replace (2 * q / 2) with q by lia. lia.
Qed.

Lemma iwf_sibling (t : fiter) : iwf t -> iwf (it_sibling t).
Proof.
  intros H. iwf_open t H. unfold it_sibling, it_next, it_prev. cbn [it_index it_offset it_factor].
  rewrite even_mod. destruct (o mod 2 =? 0) eqn:E.
  - exists h. cbn [it_index it_offset it_factor]. lia.
  - destruct (o =? 0) eqn:E0; [lia|].
    exists h. cbn [it_index it_offset it_factor].
    assert (exists q, o = q + 1) as [q ->] by (exists (o - 1); lia).
    replace (q + 1 - 1) with q by lia. lia.
Qed.

Lemma it_sibling_factor (t : fiter) : it_factor (it_sibling t) = it_factor t.
Proof.
  unfold it_sibling, it_next, it_prev. destruct (N.even (it_offset t)); [reflexivity|].
  destruct (it_offset t =? 0); reflexivity.
Qed.

Lemma it_parent_factor (t : fiter) : it_factor (it_parent t) = it_factor t * 2.
Proof. unfold it_parent. destruct (N.odd (it_offset t)); reflexivity. Qed.

(* half the factor is at most index + 1 *)
Lemma iwf_factor_le (t : fiter) : iwf t -> 0 < it_factor t /\ it_factor t <= 2 * (it_index t + 1).
Proof. intros H. iwf_open t H. cbn [it_index it_factor]. nia. Qed.

(* the doubling lemma: one level up at most doubles index + 1 *)
Lemma iwf_parent_index (t : fiter) : iwf t -> it_index (it_parent t) + 1 <= 2 * (it_index t + 1).
Proof.
  intros H. iwf_open t H. unfold it_parent. cbn [it_index it_offset it_factor].
  rewrite odd_mod. destruct (o mod 2 =? 1) eqn:E; cbn [it_index]; nia.
Qed.

(* ---------- 1. the node queue ---------- *)

Definition extra_len (o : option node) : N := match o with Some e => n_length e | None => 0 end.
Definition q_total (q : nodeq) : N := lens (q_nodes q) + extra_len (q_extra q).

Lemma q_shift_returns q i : returns (q_shift q i) = true.
Proof.
  unfold q_shift. destruct (q_extra q) as [e|].
  - destruct (n_index e =? i); [reflexivity|].
    destruct (q_nodes q) as [|n r]; [reflexivity|]. destruct (n_index n =? i); reflexivity.
  - destruct (q_nodes q) as [|n r]; [reflexivity|]. destruct (n_index n =? i); reflexivity.
Qed.

(* a successful shift removes exactly one node: either the extra node or the head of the list *)
Lemma q_shift_ok q i n q' : q_shift q i = Ok (n, q') ->
  n_index n = i /\ q_length q = q_length q' + 1 /\ q_total q = n_length n + q_total q' /\
  ((q_extra q = Some n /\ q_nodes q' = q_nodes q /\ q_extra q' = None) \/
   (q_nodes q = n :: q_nodes q' /\ q_extra q' = q_extra q)).
Proof.
  unfold q_shift, q_length, q_total. destruct q as [l x]. cbn [q_nodes q_extra].
  destruct x as [e|].
  - destruct (n_index e =? i) eqn:E.
    + intros [= <- <-]. cbn [q_nodes q_extra extra_len length]. repeat split; try lia. left. auto.
    + destruct l as [|m r]; [discriminate|]. destruct (n_index m =? i) eqn:E2; [|discriminate].
      intros [= <- <-]. cbn [q_nodes q_extra extra_len length]. rewrite lens_cons.
      repeat split; try lia. right. auto.
  - destruct l as [|m r]; [discriminate|]. destruct (n_index m =? i) eqn:E2; [|discriminate].
    intros [= <- <-]. cbn [q_nodes q_extra extra_len length]. rewrite lens_cons.
    repeat split; try lia. right. auto.
Qed.

Lemma q_shift_length q i n q' : q_shift q i = Ok (n, q') -> q_length q = q_length q' + 1.
Proof. intros H. apply q_shift_ok in H. tauto. Qed.

Lemma q_length_0 q : q_length q = 0 -> q_nodes q = [] /\ q_extra q = None /\ q_total q = 0.
Proof.
  unfold q_length, q_total. destruct q as [l x]. cbn [q_nodes q_extra].
  destruct l as [|m r]; destruct x as [e|]; cbn [length extra_len]; try lia. intros _. auto.
Qed.

(* ---------- 2. climb ---------- *)

Section Verifier.
  Variable cr : crypto.

  (* Fuel: every iteration consumes one queue element.  add64: the accumulated length is bounded
     by the total length of what is still queued. *)
  Lemma climb_returns fuel : forall q it cur acc,
    q_length q < N.of_nat fuel ->
    n_length cur + q_total q <= u64_max ->
    returns (climb cr fuel q it cur acc) = true /\
    (forall r v, climb cr fuel q it cur acc = Ok (r, v) -> n_length r = n_length cur + q_total q).
  Proof.
    induction fuel as [|f IH]; intros q it cur acc Hf Hs; [lia|].
    cbn [climb]. destruct (q_length q =? 0) eqn:E0.
    - split; [reflexivity|]. intros r v [= <- <-].
      destruct (q_length_0 q) as (_ & _ & ->); lia.
    - pose proof (q_shift_returns q (it_index (it_sibling it))) as R.
      destruct (q_shift q (it_index (it_sibling it))) as [[n q']| | |] eqn:Es; try discriminate R.
      + apply q_shift_ok in Es. destruct Es as (_ & Hl & Ht & _).
        cbn [bind]. rewrite add64_ok by lia. cbn [bind].
        destruct (IH q' (it_parent (it_sibling it))
                    (mkNode (it_index (it_parent (it_sibling it))) (n_length cur + n_length n)
                            (parent_hash cr cur n))
                    (acc ++ [n; mkNode (it_index (it_parent (it_sibling it)))
                                       (n_length cur + n_length n) (parent_hash cr cur n)]))
          as [IH1 IH2]; cbn [n_length]; try lia.
        split; [exact IH1|]. intros r v Hr. rewrite (IH2 r v Hr). cbn [n_length]. lia.
      + cbn [bind]. split; [reflexivity|]. discriminate.
  Qed.
  (* The fields-only version: no condition on the number of nodes.  A node taken from the list has to
     sit at the sibling position, whose index is at least half the factor minus one; so with every
     index below B the factor stays below 4B and at most log2(4B) list nodes are ever accepted.
     The (computed) extra node is taken at most once; K accounts for it and for the start node. *)
  Lemma climb_bounded (B L K : N) fuel : forall q it cur acc,
    0 < B ->
    L * N.log2 (4 * B) + K <= u64_max ->
    q_length q < N.of_nat fuel ->
    iwf it -> it_factor it <= 4 * B ->
    (forall n, In n (q_nodes q) -> n_index n < B /\ n_length n <= L) ->
    (forall e, q_extra q = Some e -> n_index e < B) ->
    n_length cur + extra_len (q_extra q) <= L * N.log2 (it_factor it) + K ->
    n_index cur < 2 * B ->
    returns (climb cr fuel q it cur acc) = true /\
    (forall r v, climb cr fuel q it cur acc = Ok (r, v) ->
       n_length r <= L * N.log2 (4 * B) + K /\ n_index r < 2 * B).
  Proof.
    induction fuel as [|f IH]; intros q it cur acc HB HK Hf Hw Hfac Hn He Hlen Hci; [lia|].
    assert (HlB : N.log2 (4 * B) = N.log2 (2 * B) + 1).
    { replace (4 * B) with (2 * (2 * B)) by lia. rewrite N.log2_double by lia. lia. }
    cbn [climb]. destruct (q_length q =? 0) eqn:E0.
    - split; [reflexivity|]. intros r v [= <- <-]. split; [|exact Hci].
      assert (N.log2 (it_factor it) <= N.log2 (4 * B)) by (apply N.log2_le_mono; exact Hfac).
      assert (L * N.log2 (it_factor it) <= L * N.log2 (4 * B)) by (apply N.mul_le_mono_l; assumption).
      lia.
    - pose proof (q_shift_returns q (it_index (it_sibling it))) as R.
      destruct (q_shift q (it_index (it_sibling it))) as [[n q']| | |] eqn:Es; try discriminate R.
      2:{ cbn [bind]. split; [reflexivity|]. discriminate. }
      apply q_shift_ok in Es. destruct Es as (Hix & Hl & _ & Hcase).
      pose proof (iwf_sibling it Hw) as Hws.
      pose proof (iwf_parent _ Hws) as Hwp.
      pose proof (iwf_factor_le _ Hws) as [Hfpos Hfle].
      pose proof (iwf_parent_index _ Hws) as Hpi.
      rewrite it_sibling_factor in Hfpos, Hfle.
      assert (HnB : n_index n < B).
      { destruct Hcase as [(Hx & _ & _)|(Hx & _)].
        - apply He; exact Hx.
        - apply Hn. rewrite Hx. left. reflexivity. }
      assert (Hf2B : it_factor it <= 2 * B) by lia.
      assert (Hlf : N.log2 (it_factor it) <= N.log2 (2 * B)) by (apply N.log2_le_mono; exact Hf2B).
      assert (Hlf2 : N.log2 (it_factor it * 2) = N.log2 (it_factor it) + 1).
      { rewrite N.mul_comm, N.log2_double by lia. lia. }
      assert (HLl : L * N.log2 (it_factor it) <= L * N.log2 (2 * B)) by (apply N.mul_le_mono_l; assumption).
      assert (Hsum : n_length cur + n_length n + extra_len (q_extra q')
                     <= L * N.log2 (it_factor it) + K + L).
      { destruct Hcase as [(Hx & _ & Hx')|(Hx & Hx')].
        - rewrite Hx in Hlen. rewrite Hx'. cbn [extra_len] in *. lia.
        - rewrite Hx'. assert (n_length n <= L) by (apply Hn; rewrite Hx; left; reflexivity). lia. }
      pose proof HK as HK'. rewrite HlB in HK'.
      cbn [bind]. rewrite add64_ok by lia. cbn [bind].
      apply IH; try assumption.
      + lia.
      + rewrite it_parent_factor, it_sibling_factor. lia.
      + intros m Hm. apply Hn. destruct Hcase as [(_ & Hx & _)|(Hx & _)].
        * rewrite <- Hx. exact Hm.
        * rewrite Hx. right. exact Hm.
      + intros e Hq. destruct Hcase as [(_ & _ & Hx)|(_ & Hx)].
        * rewrite Hx in Hq. discriminate.
        * apply He. rewrite <- Hx. exact Hq.
      + cbn [n_length]. rewrite it_parent_factor, it_sibling_factor, Hlf2. lia.
      + cbn [n_index]. lia.
  Qed.
  (* ---------- 3. verify_tree ---------- *)

  (* the two phases of verify_tree, named (definitional unfoldings, see verify_tree_eq) *)
  Definition vt_seek (c : changeset) (seek_nodes : list node) : res (option node * changeset) :=
    match seek_nodes with
    | [] => Ok (None, c)
    | n0 :: _ =>
        let it := it_new (n_index n0) in
        '(n, q) <- q_shift (mkQ seek_nodes None) (it_index it) ;;
        '(r, visited) <- climb cr (S (length seek_nodes)) q it n [n] ;;
        Ok (Some r, cs_push_nodes c visited)
    end.

  Definition vt_main (root : option node) (c : changeset)
             (untrusted : option (option bytes * N * list node)) : res (option node * changeset) :=
    match untrusted with
    | Some (value, index, nodes) =>
        let it := it_new index in
        '(n, q) <- (match value with
                    | Some v => Ok (block_node cr (it_index it) v, mkQ nodes root)
                    | None => q_shift (mkQ nodes root) (it_index it)
                    end) ;;
        '(r, visited) <- climb cr (S (S (length nodes))) q it n [n] ;;
        Ok (Some r, cs_push_nodes c visited)
    | None => Ok (root, c)
    end.

  Definition vt_untrusted (block : option data_block) (hash : option data_hash)
    : res (option (option bytes * N * list node)) :=
    match block, hash with
    | Some b, _ => i <- mul64 "block.index * 2" (db_index b) 2 ;;
                   Ok (Some (Some (db_value b), i, db_nodes b))
    | None, Some h => Ok (Some (None, dh_index h, dh_nodes h))
    | None, None => Ok None
    end.

  Lemma verify_tree_eq block hash seek c :
    verify_tree cr block hash seek c =
    (untrusted <- vt_untrusted block hash ;;
     let seek_nodes := match seek with Some s => ds_nodes s | None => [] end in
     match untrusted, seek_nodes with
     | None, [] => Ok (None, c)
     | _, _ => '(root, c) <- vt_seek c seek_nodes ;; vt_main root c untrusted
     end).
  Proof. reflexivity. Qed.
  (* "numeric fields below 2^40" *)
  Definition LIM : N := 1099511627776.
  Definition node_lim (n : node) : bool := (n_index n <? LIM) && (n_length n <? LIM).
  Definition nodes_lim (l : list node) : bool := forallb node_lim l.
  Definition block_lim (b : option data_block) : bool :=
    match b with
    | Some b => (db_index b <? LIM) && (len (db_value b) <? LIM) && nodes_lim (db_nodes b)
    | None => true
    end.
  Definition hash_lim (h : option data_hash) : bool :=
    match h with Some h => (dh_index h <? LIM) && nodes_lim (dh_nodes h) | None => true end.
  Definition seek_lim (s : option data_seek) : bool :=
    match s with Some s => (ds_bytes s <? LIM) && nodes_lim (ds_nodes s) | None => true end.

  Lemma LIM_val : LIM = 2 ^ 40. Proof. reflexivity. Qed.
  Lemma log2_4LIM : N.log2 (4 * LIM) = 42. Proof. reflexivity. Qed.
  Lemma log2_8LIM : N.log2 (4 * (2 * LIM)) = 43. Proof. reflexivity. Qed.
  Lemma LIM_u64 : 87 * LIM <= u64_max. Proof. now vm_compute. Qed.
  Lemma LIM_pos : 0 < LIM. Proof. now vm_compute. Qed.

  Lemma nodes_lim_in l n : nodes_lim l = true -> In n l -> n_index n < LIM /\ n_length n < LIM.
  Proof.
    unfold nodes_lim. rewrite forallb_forall. intros H Hin. specialize (H n Hin).
    unfold node_lim in H. lia.
  Qed.

  Definition same_tree (c c' : changeset) : Prop :=
    cs_roots c' = cs_roots c /\ cs_byte_length c' = cs_byte_length c.

  Lemma vt_seek_spec c sn :
    nodes_lim sn = true ->
    returns (vt_seek c sn) = true /\
    (forall root c', vt_seek c sn = Ok (root, c') ->
       same_tree c c' /\
       (forall r, root = Some r -> n_index r < 2 * LIM /\ n_length r <= 43 * LIM)).
  Proof.
    intros Hl. destruct sn as [|n0 rest].
    - cbn [vt_seek]. split; [reflexivity|]. intros root c' [= <- <-]. split; [split; reflexivity|].
      discriminate.
    - unfold vt_seek. rewrite it_new_index. unfold q_shift. cbn [q_extra q_nodes].
      rewrite N.eqb_refl. cbn [bind].
      pose proof LIM_u64. pose proof LIM_pos.
      destruct (nodes_lim_in _ n0 Hl (or_introl eq_refl)) as [Hi0 Hl0].
      pose proof (iwf_factor_le _ (iwf_new (n_index n0))) as [_ Hfl]. rewrite it_new_index in Hfl.
      destruct (climb_bounded LIM LIM LIM (S (length (n0 :: rest))) (mkQ rest None)
                  (it_new (n_index n0)) n0 [n0]) as [R P].
      + assumption.
      + rewrite log2_4LIM. lia.
      + unfold q_length. cbn [q_nodes q_extra length]. lia.
      + apply iwf_new.
      + lia.
      + cbn [q_nodes]. intros n Hn.
        destruct (nodes_lim_in _ n Hl (or_intror Hn)). lia.
      + cbn [q_extra]. discriminate.
      + cbn [q_extra extra_len]. lia.
      + lia.
      + destruct (climb cr (S (length (n0 :: rest))) (mkQ rest None) (it_new (n_index n0)) n0 [n0])
          as [[r v]| | |]; try discriminate R; cbn [bind].
        * split; [reflexivity|]. intros root c' [= <- <-]. split; [split; reflexivity|].
          intros r' [= <-]. destruct (P r v eq_refl) as [P1 P2]. rewrite log2_4LIM in P1. lia.
        * split; [reflexivity|]. discriminate.
  Qed.

  Lemma vt_main_spec root c value index nodes :
    (forall e, root = Some e -> n_index e < 2 * LIM /\ n_length e <= 43 * LIM) ->
    (forall v, value = Some v -> len v < LIM) ->
    index < 2 * LIM ->
    nodes_lim nodes = true ->
    returns (vt_main root c (Some (value, index, nodes))) = true /\
    (forall root' c', vt_main root c (Some (value, index, nodes)) = Ok (root', c') ->
       same_tree c c' /\
       (forall r, root' = Some r -> n_index r < 4 * LIM /\ n_length r <= 87 * LIM)).
  Proof.
    intros Hroot Hval Hidx Hl.
    pose proof LIM_u64. pose proof LIM_pos.
    pose proof (iwf_factor_le _ (iwf_new index)) as [_ Hfl]. rewrite it_new_index in Hfl.
    assert (Hstart : forall n q,
      q_length q <= N.of_nat (length nodes) + 1 ->
      (forall m, In m (q_nodes q) -> In m nodes) ->
      (forall e, q_extra q = Some e -> root = Some e) ->
      n_length n + extra_len (q_extra q) <= 44 * LIM ->
      n_index n < 4 * LIM ->
      returns ('(r, visited) <- climb cr (S (S (length nodes))) q (it_new index) n [n] ;;
               Ok (Some r, cs_push_nodes c visited)) = true /\
      (forall root' c',
         ('(r, visited) <- climb cr (S (S (length nodes))) q (it_new index) n [n] ;;
          Ok (Some r, cs_push_nodes c visited)) = Ok (root', c') ->
         same_tree c c' /\
         (forall r, root' = Some r -> n_index r < 4 * LIM /\ n_length r <= 87 * LIM))).
    { intros n q Hql Hqn Hqe Hlen Hni.
      destruct (climb_bounded (2 * LIM) LIM (44 * LIM) (S (S (length nodes))) q
                  (it_new index) n [n]) as [R P].
      + lia.
      + rewrite log2_8LIM. lia.
      + lia.
      + apply iwf_new.
      + lia.
      + intros m Hm. destruct (nodes_lim_in _ m Hl (Hqn m Hm)). lia.
      + intros e He. destruct (Hroot e (Hqe e He)). lia.
      + lia.
      + lia.
      + destruct (climb cr (S (S (length nodes))) q (it_new index) n [n])
          as [[r v]| | |]; try discriminate R; cbn [bind].
        * split; [reflexivity|]. intros root' c' [= <- <-]. split; [split; reflexivity|].
          intros r' [= <-]. destruct (P r v eq_refl) as [P1 P2]. rewrite log2_8LIM in P1. lia.
        * split; [reflexivity|]. discriminate. }
    unfold vt_main. destruct value as [v|].
    - cbn [bind]. apply Hstart.
      + unfold q_length. cbn [q_nodes q_extra]. destruct root; lia.
      + cbn [q_nodes]. auto.
      + cbn [q_extra]. auto.
      + cbn [q_extra block_node n_length]. specialize (Hval v eq_refl).
        destruct root as [e|]; cbn [extra_len]; [destruct (Hroot e eq_refl)|]; lia.
      + cbn [block_node n_index]. rewrite it_new_index. lia.
    - pose proof (q_shift_returns (mkQ nodes root) (it_index (it_new index))) as R.
      destruct (q_shift (mkQ nodes root) (it_index (it_new index))) as [[n q]| | |] eqn:Es;
        try discriminate R.
      2:{ cbn [bind]. split; [reflexivity|]. discriminate. }
      cbn [bind]. apply q_shift_ok in Es. destruct Es as (Hix & Hql & _ & Hcase).
      cbn [q_nodes q_extra] in Hcase.
      assert (Hq0 : q_length (mkQ nodes root) <= N.of_nat (length nodes) + 1).
      { unfold q_length. cbn [q_nodes q_extra]. destruct root; lia. }
      apply Hstart.
      + lia.
      + destruct Hcase as [(_ & Hx & _)|(Hx & _)]; intros m Hm.
        * rewrite <- Hx. exact Hm.
        * rewrite Hx. right. exact Hm.
      + destruct Hcase as [(_ & _ & Hx)|(_ & Hx)]; intros e He.
        * rewrite Hx in He. discriminate.
        * rewrite <- Hx. exact He.
      + destruct Hcase as [(Hx & _ & Hx')|(Hx & Hx')].
        * rewrite Hx'. cbn [extra_len]. destruct (Hroot n Hx). lia.
        * rewrite Hx'. assert (Hin : In n nodes) by (rewrite Hx; left; reflexivity).
          destruct (nodes_lim_in _ n Hl Hin).
          destruct root as [e|]; cbn [extra_len]; [destruct (Hroot e eq_refl)|]; lia.
      + destruct Hcase as [(Hx & _ & _)|(Hx & _)].
        * destruct (Hroot n Hx). lia.
        * assert (Hin : In n nodes) by (rewrite Hx; left; reflexivity).
          destruct (nodes_lim_in _ n Hl Hin). lia.
  Qed.
  Definition untrusted_lim (u : option (option bytes * N * list node)) : Prop :=
    match u with
    | Some (value, index, nodes) =>
        (forall v, value = Some v -> len v < LIM) /\ index < 2 * LIM /\ nodes_lim nodes = true
    | None => True
    end.

  Lemma vt_body_spec c sn u :
    nodes_lim sn = true -> untrusted_lim u ->
    returns ('(root, c1) <- vt_seek c sn ;; vt_main root c1 u) = true /\
    (forall root' c', ('(root, c1) <- vt_seek c sn ;; vt_main root c1 u) = Ok (root', c') ->
       same_tree c c' /\
       (forall r, root' = Some r -> n_index r < 4 * LIM /\ n_length r <= 87 * LIM)).
  Proof.
    intros Hs Hu. destruct (vt_seek_spec c sn Hs) as [R P].
    destruct (vt_seek c sn) as [[root c1]| | |]; try discriminate R; cbn [bind].
    2:{ split; [reflexivity|]. discriminate. }
    destruct (P root c1 eq_refl) as [[T1 T2] Pr].
    destruct u as [[[value index] nodes]|].
    - destruct Hu as (Hv & Hi & Hn).
      destruct (vt_main_spec root c1 value index nodes Pr Hv Hi Hn) as [R2 P2].
      split; [exact R2|]. intros root' c' E. destruct (P2 root' c' E) as [[T3 T4] Pr'].
      split; [|exact Pr']. split; congruence.
    - cbn [vt_main]. split; [reflexivity|]. intros root' c' [= <- <-].
      split; [split; assumption|]. intros r Hr. destruct (Pr r Hr). lia.
  Qed.

  (* Main theorem of item 3.  Premises: ONLY "numeric fields below 2^40" (indices, node lengths,
     the length of the block value); node lists may have any length. *)
  Theorem verify_tree_returns block hash seek c :
    block_lim block = true -> hash_lim hash = true -> seek_lim seek = true ->
    returns (verify_tree cr block hash seek c) = true /\
    (forall root c', verify_tree cr block hash seek c = Ok (root, c') ->
       same_tree c c' /\
       (forall r, root = Some r -> n_index r < 4 * LIM /\ n_length r <= 87 * LIM)).
  Proof.
    intros Hb Hh Hs. rewrite verify_tree_eq.
    pose proof LIM_u64 as HU. pose proof LIM_pos as HP.
    assert (Hsn : nodes_lim (match seek with Some s => ds_nodes s | None => [] end) = true).
    { destruct seek as [s|]; [|reflexivity]. cbn [seek_lim] in Hs.
      apply andb_true_iff in Hs. tauto. }
    set (sn := match seek with Some s => ds_nodes s | None => [] end) in *. clearbody sn.
    destruct block as [b|].
    - cbn [block_lim] in Hb. apply andb_true_iff in Hb. destruct Hb as [Hb Hbn].
      apply andb_true_iff in Hb. destruct Hb as [Hbi Hbv]. cbn [vt_untrusted].
      rewrite mul64_ok by lia. cbn [bind].
      apply vt_body_spec; [exact Hsn|]. cbn [untrusted_lim].
      split; [|split]; [intros v [= <-]; lia | lia | exact Hbn].
    - destruct hash as [h|].
      + cbn [hash_lim] in Hh. apply andb_true_iff in Hh. destruct Hh as [Hhi Hhn].
        cbn [vt_untrusted bind].
        apply vt_body_spec; [exact Hsn|]. cbn [untrusted_lim].
        split; [|split]; [discriminate | lia | exact Hhn].
      + cbn [vt_untrusted bind]. destruct sn as [|n0 rest].
        * split; [reflexivity|]. intros root c' [= <- <-]. split; [split; reflexivity|]. discriminate.
        * apply vt_body_spec; [exact Hsn|]. exact I.
  Qed.
  (* ---------- 7. verify_proof without an upgrade section ---------- *)

  Lemma node_get_returns t tf index am :
    NODE_SIZE * index <= u64_max -> returns (node_get t tf index am) = true.
  Proof.
    intros H. unfold node_get. destruct (nm_get index (t_unflushed t)) as [n|].
    - destruct (node_blank n); destruct am; reflexivity.
    - rewrite mul64_ok by exact H. cbn [bind].
      destruct (f_read tf (NODE_SIZE * index) NODE_SIZE) as [data|].
      + destruct (node_blank (node_from_bytes index data)); destruct am; reflexivity.
      + destruct am; reflexivity.
  Qed.

  Lemma required_node_returns t tf index :
    NODE_SIZE * index <= u64_max -> returns (required_node t tf index) = true.
  Proof.
    intros H. unfold required_node. apply returns_bind; [apply node_get_returns; exact H|].
    intros [n|] _; reflexivity.
  Qed.

  Lemma LIM_u64_node : NODE_SIZE * (4 * LIM) <= u64_max. Proof. now vm_compute. Qed.

  (* the final comparison of the computed root against the stored node *)
  Lemma check_root_returns t tf (root : option node) (c : changeset) :
    (forall r, root = Some r -> n_index r < 4 * LIM) ->
    returns (match root with
             | Some r => n <- required_node t tf (n_index r) ;;
                         if bytes_eqb (n_hash n) (n_hash r) then Ok c else Err InvalidChecksum
             | None => Ok c
             end) = true.
  Proof.
    intros H. destruct root as [r|]; [|reflexivity].
    apply returns_bind.
    - apply required_node_returns. pose proof LIM_u64_node. specialize (H r eq_refl).
      unfold NODE_SIZE in *. lia.
    - intros n _. destruct (bytes_eqb (n_hash n) (n_hash r)); reflexivity.
  Qed.

  (* The root index bound is PROVED (not assumed): every sibling accepted by the climb carries a peer
     index < 2^40 (or the computed seek root, < 2^41), and one level up at most doubles index + 1
     (iwf_parent_index), so the computed root has index < 2^42 and 40 * index fits u64. *)
  Theorem verify_proof_returns t tf pf pk :
    p_upgrade pf = None ->
    block_lim (p_block pf) = true -> hash_lim (p_hash pf) = true -> seek_lim (p_seek pf) = true ->
    returns (verify_proof cr t tf pf pk) = true.
  Proof.
    intros Hu Hb Hh Hs. unfold verify_proof. rewrite Hu.
    destruct (verify_tree_returns (p_block pf) (p_hash pf) (p_seek pf) (tree_changeset t) Hb Hh Hs)
      as [R P].
    destruct (verify_tree cr (p_block pf) (p_hash pf) (p_seek pf) (tree_changeset t))
      as [[root c1]| | |]; try discriminate R; cbn [bind]; [|reflexivity].
    destruct (P root c1 eq_refl) as [_ Pr].
    apply check_root_returns. intros r Hr. destruct (Pr r Hr). assumption.
  Qed.
  (* ---------- 4. merge_roots / append_root ---------- *)

  (* Each iteration shortens the root list by one, so fuel >= length never runs out; the only Panic
     is the checked addition, excluded when the total length of the list fits u64. *)
  Lemma merge_roots_spec fuel : forall rroots nr it,
    (length rroots <= fuel)%nat -> (0 < fuel)%nat ->
    merge_roots cr fuel rroots nr it <> OutOfFuel /\
    (lens rroots <= u64_max -> returns (merge_roots cr fuel rroots nr it) = true) /\
    (forall rr nr' it', merge_roots cr fuel rroots nr it = Ok (rr, nr', it') ->
       lens rr = lens rroots /\ (rroots <> [] -> rr <> []) /\ (iwf it -> iwf it') /\
       exists m, (length rr + m = length rroots)%nat /\
                 it_factor it' = it_factor it * 2 ^ N.of_nat m).
  Proof.
    induction fuel as [|f IH]; intros rroots nr it Hlen Hpos; [lia|].
    assert (Hstop : forall x : list node * list node * fiter, x = (rroots, nr, it) ->
      (Ok x : res (list node * list node * fiter)) <> OutOfFuel /\
      (lens rroots <= u64_max -> returns (Ok x) = true) /\
      (forall rr nr' it', Ok x = Ok (rr, nr', it') ->
         lens rr = lens rroots /\ (rroots <> [] -> rr <> []) /\ (iwf it -> iwf it') /\
         exists m, (length rr + m = length rroots)%nat /\
                   it_factor it' = it_factor it * 2 ^ N.of_nat m)).
    { intros x ->. split; [discriminate|]. split; [reflexivity|].
      intros rr nr' it' [= <- <- <-]. repeat split; auto.
      exists 0%nat. split; [lia|]. cbn [N.of_nat]. rewrite N.pow_0_r. lia. }
    cbn [merge_roots]. destruct rroots as [|a [|b rest]]; try (apply Hstop; reflexivity).
    destruct (negb (it_index (it_sibling it) =? n_index b)); [apply Hstop; reflexivity|].
    destruct (add64_cases "a.length + b.length" (n_length a) (n_length b)) as [Ha|[Hov Ha]];
      rewrite Ha; cbn [bind].
    - set (n := mkNode (it_index (it_parent (it_sibling it))) (n_length a + n_length b)
                       (parent_hash cr a b)).
      cbn [length] in Hlen.
      destruct (IH (n :: rest) (n :: nr) (it_parent (it_sibling it))) as (I1 & I2 & I3);
        [cbn [length]; lia | lia |].
      assert (Hl : lens (n :: rest) = lens (a :: b :: rest)).
      { rewrite !lens_cons. subst n. cbn [n_length]. lia. }
      split; [exact I1|]. split; [intros H; apply I2; lia|].
      intros rr nr' it' E. destruct (I3 rr nr' it' E) as (J1 & J2 & J3 & m & J4 & J5).
      split; [lia|]. split; [intros _; apply J2; discriminate|].
      split; [intros Hw; apply J3, iwf_parent, iwf_sibling, Hw|].
      exists (S m). cbn [length] in *. split; [lia|].
      rewrite J5, it_parent_factor, it_sibling_factor, Nat2N.inj_succ, N.pow_succ_r'. lia.
    - split; [discriminate|]. split; [|discriminate].
      intros H. rewrite !lens_cons in H. lia.
  Qed.

  (* bookkeeping invariant: the byte length accounts for (at least) the lengths of the roots *)
  Definition cs_inv (c : changeset) : Prop := lens (cs_roots c) <= cs_byte_length c.

  Lemma append_root_spec c n it :
    append_root cr c n it <> OutOfFuel /\
    (cs_byte_length c + n_length n <= u64_max -> lens (cs_roots c) + n_length n <= u64_max ->
     returns (append_root cr c n it) = true) /\
    (forall c' it', append_root cr c n it = Ok (c', it') ->
       cs_byte_length c' = cs_byte_length c + n_length n /\
       lens (cs_roots c') = lens (cs_roots c) + n_length n /\
       cs_roots c' <> [] /\ (iwf it -> iwf it') /\
       exists m, (length (cs_roots c') + m = S (length (cs_roots c)))%nat /\
                 it_factor it' = it_factor it * 2 ^ N.of_nat m).
  Proof.
    unfold append_root.
    destruct (merge_roots_spec (S (length (cs_roots c))) (n :: rev (cs_roots c)) (n :: cs_rnodes c) it)
      as (M1 & M2 & M3); [cbn [length]; rewrite rev_length; lia | lia |].
    rewrite lens_cons, lens_rev in M2.
    destruct (add64_cases "byte_length += node.length" (cs_byte_length c) (n_length n))
      as [Ha|[Hov Ha]]; rewrite Ha; cbn [bind].
    2:{ split; [discriminate|]. split; [intros; lia|discriminate]. }
    destruct (merge_roots cr (S (length (cs_roots c))) (n :: rev (cs_roots c)) (n :: cs_rnodes c) it)
      as [[[rr nr] it1]| | |]; cbn [bind].
    - split; [discriminate|]. split; [reflexivity|].
      intros c' it' [= <- <-]. cbn [cs_byte_length cs_roots].
      destruct (M3 rr nr it1 eq_refl) as (J1 & J2 & J3 & m & J4 & J5).
      rewrite lens_rev, J1, lens_cons, lens_rev. split; [reflexivity|]. split; [lia|].
      split; [|split; [exact J3|]].
      + intros E. apply J2; [discriminate|]. destruct rr as [|x rr]; [reflexivity|].
        apply (f_equal (@length node)) in E. cbn [rev length] in E. rewrite app_length in E.
        cbn [length] in E. lia.
      + exists m. rewrite rev_length. cbn [length] in J4. rewrite rev_length in J4. split; [lia|exact J5].
    - split; [discriminate|]. split; [|discriminate]. intros; reflexivity.
    - split; [discriminate|]. split; [|discriminate]. intros. apply M2. lia.
    - exfalso. apply M1. reflexivity.
  Qed.

  Lemma append_root_returns c n it :
    cs_inv c -> cs_byte_length c + n_length n <= u64_max ->
    returns (append_root cr c n it) = true /\
    (forall c' it', append_root cr c n it = Ok (c', it') ->
       cs_inv c' /\ cs_byte_length c' = cs_byte_length c + n_length n).
  Proof.
    unfold cs_inv. intros Hi Hb. destruct (append_root_spec c n it) as (_ & A2 & A3).
    split; [apply A2; lia|]. intros c' it' E. destruct (A3 c' it' E) as (B1 & B2 & _). lia.
  Qed.

  (* ---------- 5. signatures ---------- *)

  Lemma parse_signature_returns s : returns (parse_signature s) = true.
  Proof. unfold parse_signature. destruct (Nat.eqb (length s) 64); reflexivity. Qed.

  Lemma cs_verify_and_set_signature_returns c sg pk :
    returns (cs_verify_and_set_signature cr c sg pk) = true.
  Proof.
    unfold cs_verify_and_set_signature. apply returns_bind; [apply parse_signature_returns|].
    intros s _. destruct (cr_verify cr pk (cs_signable c (cs_tree_hash cr c)) s); reflexivity.
  Qed.
  (* ---------- 6. the loops of verify_upgrade ---------- *)

  (* descend_to: every step halves the factor.
     REQUESTED statement:  it_factor it = 2 ^ k -> k < N.of_nat fuel -> returns (descend_to fuel it index) = true
     is FALSE for k = 0 (factor 1 is not 2, its "left child" has factor 0, and 0 / 2 = 0 for ever):
     see descend_to_factor_one_counterexample below.  True statement: add 1 <= k. *)
  Lemma descend_to_returns fuel : forall it k index,
    it_factor it = 2 ^ k -> 1 <= k -> k < N.of_nat fuel ->
    returns (descend_to fuel it index) = true /\
    (forall it', descend_to fuel it index = Ok it' ->
       it_index it' = index /\ exists k', 1 <= k' /\ k' <= k /\ it_factor it' = 2 ^ k').
  Proof.
    induction fuel as [|f IH]; intros it k index Hk H1 Hf; [lia|].
    cbn [descend_to]. destruct (it_index it =? index) eqn:E.
    - split; [reflexivity|]. intros it' [= <-]. split; [lia|]. exists k. repeat split; lia.
    - destruct (it_factor it =? 2) eqn:E2.
      + split; [reflexivity|]. discriminate.
      + assert (Hk2 : 2 <= k).
        { destruct (N.eq_dec k 1) as [->|]; [|lia]. rewrite N.pow_1_r in Hk. lia. }
        assert (Hc : it_factor (it_left_child it) = 2 ^ (k - 1)).
        { unfold it_left_child. rewrite E2. cbn [it_factor]. rewrite Hk.
          replace k with ((k - 1) + 1) at 1 by lia. rewrite pow2_succ.
          pose proof (pow2_pos (k - 1)). lia. }
        destruct (IH (it_left_child it) (k - 1) index Hc) as [R P]; [lia|lia|].
        split; [exact R|]. intros it' E'. destruct (P it' E') as (P1 & k' & P2 & P3 & P4).
        split; [exact P1|]. exists k'. repeat split; lia.
  Qed.

  Example descend_to_factor_one_counterexample :
    it_factor (mkIter 5 0 1) = 2 ^ 0 /\ descend_to CLIMB (mkIter 5 0 1) 7 = OutOfFuel.
  Proof. split; vm_compute; reflexivity. Qed.

  (* The loop lemmas below have three independent parts:
       (fuel)    a fuel condition under which the outcome is not OutOfFuel;
       (panic)   length conditions under which the outcome is not a Panic (whatever the fuel);
       (post)    bookkeeping facts about an Ok outcome.
     "returns" = not OutOfFuel and not Panic. *)
  Definition no_panic {A} (r : res A) : bool := match r with Panic _ => false | _ => true end.

  Lemma returns_iff {A} (r : res A) : returns r = true <-> (no_panic r = true /\ r <> OutOfFuel).
  Proof. destruct r; cbn; split; try tauto; try (intros [? ?]; congruence); try discriminate.
         all: intros _; split; [reflexivity|discriminate]. Qed.

  (* grow_loop: every iteration consumes a queue node *)
  Lemma grow_loop_spec fuel : forall c q it ri,
    (q_length q < N.of_nat fuel -> grow_loop cr fuel c q it ri <> OutOfFuel) /\
    (cs_inv c -> cs_byte_length c + q_total q <= u64_max ->
     no_panic (grow_loop cr fuel c q it ri) = true) /\
    (forall c' q' it', grow_loop cr fuel c q it ri = Ok (c', q', it') ->
       cs_byte_length c' + q_total q' = cs_byte_length c + q_total q /\
       (cs_inv c -> cs_inv c') /\
       q_length q' <= q_length q /\
       N.of_nat (length (cs_roots c')) + q_length q' <= N.of_nat (length (cs_roots c)) + q_length q /\
       it_index it' = ri).
  Proof.
    induction fuel as [|f IH]; intros c q it ri.
    { cbn [grow_loop]. split; [lia|]. split; [reflexivity|discriminate]. }
    cbn [grow_loop]. destruct (it_index it =? ri) eqn:E.
    - split; [discriminate|]. split; [reflexivity|]. intros c' q' it' [= <- <- <-].
      repeat split; try lia; auto.
    - pose proof (q_shift_returns q (it_index (it_sibling it))) as R.
      destruct (q_shift q (it_index (it_sibling it))) as [[n q1]| | |] eqn:Es; try discriminate R.
      2:{ cbn [bind]. split; [discriminate|]. split; [reflexivity|]. discriminate. }
      cbn [bind]. apply q_shift_ok in Es. destruct Es as (_ & Hql & Hqt & _).
      destruct (append_root_spec c n (it_sibling it)) as (A1 & A2 & A3).
      destruct (append_root cr c n (it_sibling it)) as [[c1 it1]| | |]; cbn [bind].
      + destruct (A3 c1 it1 eq_refl) as (B1 & B2 & _ & _ & m & B3 & _).
        destruct (IH c1 q1 it1 ri) as (I1 & I2 & I3).
        split; [intros Hf; apply I1; lia|]. split.
        * intros Hi Hb. unfold cs_inv in *. apply I2; lia.
        * intros c' q' it' E'. destruct (I3 c' q' it' E') as (J1 & J2 & J3 & J4 & J5).
          split; [lia|]. split; [|repeat split; lia].
          intros Hi. apply J2. unfold cs_inv in *. lia.
      + split; [discriminate|]. split; [reflexivity|]. discriminate.
      + split; [discriminate|]. split; [|discriminate].
        intros Hi Hb. unfold cs_inv in Hi.
        assert (returns (Panic site : res (changeset * fiter)) = true) by (apply A2; lia). discriminate.
      + exfalso. apply A1. reflexivity.
  Qed.

  Lemma grow_loop_returns fuel c q it ri :
    q_length q < N.of_nat fuel -> cs_inv c -> cs_byte_length c + q_total q <= u64_max ->
    returns (grow_loop cr fuel c q it ri) = true.
  Proof.
    intros Hf Hi Hb. destruct (grow_loop_spec fuel c q it ri) as (G1 & G2 & _).
    apply returns_iff. auto.
  Qed.

  (* extra_siblings: structural recursion, no fuel at all; Panic only through add64 *)
  Lemma extra_siblings_spec : forall extra c it,
    extra_siblings cr c it extra <> OutOfFuel /\
    (cs_inv c -> cs_byte_length c + lens extra <= u64_max ->
     returns (extra_siblings cr c it extra) = true) /\
    (forall c' it' rest, extra_siblings cr c it extra = Ok (c', it', rest) ->
       cs_byte_length c' + lens rest = cs_byte_length c + lens extra /\
       (cs_inv c -> cs_inv c') /\
       (length rest <= length extra)%nat /\
       exists m, it_factor it' = it_factor it * 2 ^ N.of_nat m /\
                 (length (cs_roots c') + m + length rest = length (cs_roots c) + length extra)%nat).
  Proof.
    induction extra as [|n r IH]; intros c it; cbn [extra_siblings].
    - split; [discriminate|]. split; [reflexivity|]. intros c' it' rest [= <- <- <-].
      repeat split; auto. exists 0%nat. cbn [N.of_nat]. rewrite N.pow_0_r. split; lia.
    - destruct (n_index n =? it_index (it_sibling it)).
      2:{ split; [discriminate|]. split; [reflexivity|]. intros c' it' rest [= <- <- <-].
          repeat split; auto. exists 0%nat. cbn [N.of_nat]. rewrite N.pow_0_r, it_sibling_factor.
          split; lia. }
      destruct (append_root_spec c n (it_sibling it)) as (A1 & A2 & A3).
      destruct (append_root cr c n (it_sibling it)) as [[c1 it1]| | |]; cbn [bind].
      + destruct (A3 c1 it1 eq_refl) as (B1 & B2 & _ & _ & m & B3 & B4).
        destruct (IH c1 it1) as (I1 & I2 & I3).
        split; [exact I1|]. split.
        * intros Hi Hb. rewrite lens_cons in Hb. unfold cs_inv in *. apply I2; lia.
        * intros c' it' rest E'. destruct (I3 c' it' rest E') as (J1 & J2 & J3 & m' & J4 & J5).
          rewrite lens_cons. split; [lia|]. split; [|split; [cbn [length]; lia|]].
          -- intros Hi. apply J2. unfold cs_inv in *. lia.
          -- exists (m + m')%nat. rewrite J4, B4, it_sibling_factor, Nat2N.inj_add, N.pow_add_r.
             cbn [length]. split; lia.
      + split; [discriminate|]. split; [reflexivity|]. discriminate.
      + split; [discriminate|]. split; [|discriminate].
        intros Hi Hb. rewrite lens_cons in Hb. unfold cs_inv in Hi. apply A2; lia.
      + exfalso. apply A1. reflexivity.
  Qed.
  (* extra_rest: OutOfFuel can only come from descend_to ... *)
  Lemma extra_rest_fuel_only_descend : forall extra c it,
    extra_rest cr c it extra = OutOfFuel ->
    exists it0 n, In n extra /\ descend_to CLIMB it0 (n_index n) = OutOfFuel.
  Proof.
    induction extra as [|n r IH]; intros c it; cbn [extra_rest]; [discriminate|].
    destruct (descend_to CLIMB it (n_index n)) as [it1| | |] eqn:Ed; cbn [bind]; try discriminate.
    - destruct (append_root_spec c n it1) as (A1 & _ & _).
      destruct (append_root cr c n it1) as [[c1 it2]| | |]; cbn [bind]; try discriminate.
      + intros E. destruct (IH _ _ E) as (it0 & n0 & Hin & Hd). exists it0, n0. split; [right; exact Hin|exact Hd].
      + exfalso. apply A1. reflexivity.
    - intros _. exists it, n. split; [left; reflexivity|exact Ed].
  Qed.

  Lemma descend_to_no_panic fuel : forall it index, no_panic (descend_to fuel it index) = true.
  Proof.
    induction fuel as [|f IH]; intros it index; cbn [descend_to]; [reflexivity|].
    destruct (it_index it =? index); [reflexivity|]. destruct (it_factor it =? 2); [reflexivity|apply IH].
  Qed.

  (* ... and a sufficient condition for its fuel: the potential  log2 factor + #roots + #remaining
     never increases (a merge trades one root for one doubling), and descend_to needs log2 factor steps *)
  Lemma extra_rest_spec : forall extra c it,
    (forall k, it_factor it = 2 ^ k -> 1 <= k ->
       k + N.of_nat (length (cs_roots c)) + N.of_nat (length extra) < N.of_nat CLIMB ->
       extra_rest cr c it extra <> OutOfFuel) /\
    (cs_inv c -> cs_byte_length c + lens extra <= u64_max ->
     no_panic (extra_rest cr c it extra) = true) /\
    (forall c' it', extra_rest cr c it extra = Ok (c', it') ->
       cs_byte_length c' = cs_byte_length c + lens extra /\ (cs_inv c -> cs_inv c')).
  Proof.
    induction extra as [|n r IH]; intros c it; cbn [extra_rest].
    - split; [discriminate|]. split; [reflexivity|]. intros c' it' [= <- <-].
      unfold lens. cbn [map sumN]. split; [lia|auto].
    - pose proof (descend_to_no_panic CLIMB it (n_index n)) as NP.
      pose proof (descend_to_returns CLIMB it) as DR.
      destruct (descend_to CLIMB it (n_index n)) as [it1| | |] eqn:Ed; try discriminate NP; cbn [bind].
      2:{ split; [discriminate|]. split; [reflexivity|]. discriminate. }
      2:{ split; [|split; [reflexivity|discriminate]].
          intros k Hk H1 Hphi. destruct (DR k (n_index n) Hk H1) as [R _]; [lia|].
          rewrite Ed in R. discriminate R. }
      destruct (append_root_spec c n it1) as (A1 & A2 & A3).
      destruct (append_root cr c n it1) as [[c1 it2]| | |]; cbn [bind].
      + destruct (A3 c1 it2 eq_refl) as (B1 & B2 & _ & _ & m & B3 & B4).
        destruct (IH c1 (it_sibling it2)) as (I1 & I2 & I3).
        split; [|rewrite lens_cons; split].
        * intros k Hk H1 Hphi. destruct (DR k (n_index n) Hk H1) as [_ P]; [lia|].
          destruct (P it1 Ed) as (_ & k1 & K1 & K2 & K3).
          apply (I1 (k1 + N.of_nat m)).
          -- rewrite it_sibling_factor, B4, K3, N.pow_add_r. reflexivity.
          -- lia.
          -- cbn [length] in Hphi. lia.
        * intros Hi Hb. unfold cs_inv in *. apply I2; lia.
        * intros c' it' E'. destruct (I3 c' it' E') as (J1 & J2). split; [lia|].
          intros Hi. apply J2. unfold cs_inv in *. lia.
      + split; [discriminate|]. split; [reflexivity|]. discriminate.
      + split; [discriminate|]. split; [|discriminate].
        intros Hi Hb. rewrite lens_cons in Hb. unfold cs_inv in Hi.
        assert (returns (Panic site : res (changeset * fiter)) = true) by (apply A2; lia). discriminate.
      + exfalso. apply A1. reflexivity.
  Qed.

  Lemma extra_rest_returns extra c it k :
    it_factor it = 2 ^ k -> 1 <= k ->
    k + N.of_nat (length (cs_roots c)) + N.of_nat (length extra) < N.of_nat CLIMB ->
    cs_inv c -> cs_byte_length c + lens extra <= u64_max ->
    returns (extra_rest cr c it extra) = true.
  Proof.
    intros Hk H1 Hphi Hi Hb. destruct (extra_rest_spec extra c it) as (E1 & E2 & _).
    apply returns_iff. split; [auto|]. apply (E1 k); assumption.
  Qed.

  (* upgrade_roots_loop: every iteration consumes a queue node, or advances past an existing root, or
     (once) uses up the grow flag.  An appended root can lengthen the root list by one, hence the
     weight 2 on the queue. *)
  Definition url_fuel (fuel : nat) (c : changeset) (q : nodeq) (i : nat) (grow : bool) : Prop :=
    2 * q_length q + (N.of_nat (length (cs_roots c)) - N.of_nat i) + (if grow then 1 else 0)
      < N.of_nat fuel /\ q_length q < N.of_nat CLIMB.

  Definition url_post (c : changeset) (q : nodeq) (fuel_ok : Prop)
             (r : res (changeset * nodeq * fiter)) : Prop :=
    (fuel_ok -> r <> OutOfFuel) /\
    (cs_inv c -> cs_byte_length c + q_total q <= u64_max -> no_panic r = true) /\
    (forall c' q' it', r = Ok (c', q', it') ->
       cs_byte_length c' + q_total q' = cs_byte_length c + q_total q /\
       (cs_inv c -> cs_inv c') /\
       q_length q' <= q_length q /\
       N.of_nat (length (cs_roots c')) + q_length q' <= N.of_nat (length (cs_roots c)) + q_length q).

  Lemma upgrade_roots_loop_spec fuel : forall c q it to i (grow : bool),
    url_post c q (url_fuel fuel c q i grow) (upgrade_roots_loop cr fuel c q it to i grow).
  Proof.
    induction fuel as [|f IH]; intros c q it to i grow.
    { cbn [upgrade_roots_loop]. split; [unfold url_fuel; lia|]. split; [reflexivity|discriminate]. }
    cbn [upgrade_roots_loop]. destruct (it_full_root it to) as [found it1].
    destruct found; cbn [negb].
    2:{ split; [discriminate|]. split; [reflexivity|]. intros c' q' it' [= <- <- <-].
        repeat split; auto; lia. }
    (* the "append the next queue node as a new root" continuation, used by two branches *)
    assert (Happ : url_post c q (url_fuel (S f) c q i grow)
      ('(n, q') <- q_shift q (it_index it1) ;;
       '(c', it') <- append_root cr c n it1 ;;
       upgrade_roots_loop cr f c' q' (it_next_tree it') to i false)).
    { pose proof (q_shift_returns q (it_index it1)) as R.
      destruct (q_shift q (it_index it1)) as [[n q1]| | |] eqn:Es; try discriminate R.
      2:{ cbn [bind]. split; [discriminate|]. split; [reflexivity|]. discriminate. }
      cbn [bind]. apply q_shift_ok in Es. destruct Es as (_ & Hql & Hqt & _).
      destruct (append_root_spec c n it1) as (A1 & A2 & A3).
      destruct (append_root cr c n it1) as [[c1 it2]| | |]; cbn [bind].
      + destruct (A3 c1 it2 eq_refl) as (B1 & B2 & _ & _ & m & B3 & _).
        destruct (IH c1 q1 (it_next_tree it2) to i false) as (I1 & I2 & I3).
        split; [|split].
        * intros [Hm Hq]. apply I1. unfold url_fuel. destruct grow; lia.
        * intros Hi Hb. unfold cs_inv in *. apply I2; lia.
        * intros c' q' it' E'. destruct (I3 c' q' it' E') as (J1 & J2 & J3 & J4).
          split; [lia|]. split; [|split; lia].
          intros Hi. apply J2. unfold cs_inv in *. lia.
      + split; [discriminate|]. split; [reflexivity|]. discriminate.
      + split; [discriminate|]. split; [|discriminate].
        intros Hi Hb. unfold cs_inv in Hi.
        assert (returns (Panic site : res (changeset * fiter)) = true) by (apply A2; lia). discriminate.
      + exfalso. apply A1. reflexivity. }
    destruct (nth_error (cs_roots c) i) as [r|] eqn:En; [|exact Happ].
    assert (Hi : (i < length (cs_roots c))%nat) by (apply nth_error_Some; rewrite En; discriminate).
    destruct (n_index r =? it_index it1).
    { destruct (IH c q (it_next_tree it1) to (S i) grow) as (I1 & I2 & I3).
      split; [|split; assumption]. intros [Hm Hq]. apply I1. unfold url_fuel. destruct grow; lia. }
    destruct grow; [|exact Happ].
    unfold last_root_index. destruct (rev (cs_roots c)) as [|lr ?].
    { cbn [bind]. split; [discriminate|]. split; [reflexivity|]. discriminate. }
    cbn [bind].
    destruct (grow_loop_spec CLIMB c q (it_new (n_index lr)) (it_index it1)) as (G1 & G2 & G3).
    destruct (grow_loop cr CLIMB c q (it_new (n_index lr)) (it_index it1)) as [[[c1 q1] it2]| | |];
      cbn [bind].
    - destruct (G3 c1 q1 it2 eq_refl) as (B1 & B2 & B3 & B4 & _).
      destruct (IH c1 q1 (it_next_tree it2) to i false) as (I1 & I2 & I3).
      split; [|split].
      + intros [Hm Hq]. apply I1. unfold url_fuel. lia.
      + intros Hc Hb. apply I2; [apply B2; exact Hc | lia].
      + intros c' q' it' E'. destruct (I3 c' q' it' E') as (J1 & J2 & J3 & J4).
        split; [lia|]. split; [|split; lia]. intros Hc. apply J2, B2, Hc.
    - split; [discriminate|]. split; [reflexivity|]. discriminate.
    - split; [discriminate|]. split; [|discriminate]. exact G2.
    - split; [|split; [reflexivity|discriminate]]. intros [Hm Hq]. apply G1. exact Hq.
  Qed.

  Lemma upgrade_roots_loop_returns fuel c q it to i (grow : bool) :
    2 * q_length q + (N.of_nat (length (cs_roots c)) - N.of_nat i) + (if grow then 1 else 0)
      < N.of_nat fuel ->
    q_length q < N.of_nat CLIMB ->
    cs_inv c -> cs_byte_length c + q_total q <= u64_max ->
    returns (upgrade_roots_loop cr fuel c q it to i grow) = true.
  Proof.
    intros Hm Hq Hi Hb. destruct (upgrade_roots_loop_spec fuel c q it to i grow) as (U1 & U2 & _).
    apply returns_iff. split; [auto|]. apply U1. split; assumption.
  Qed.
  (* ---------- verify_upgrade / verify_proof with an upgrade section: no Panic ---------- *)

  Lemma no_panic_bind {A B} (r : res A) (f : A -> res B) :
    no_panic r = true -> (forall a, r = Ok a -> no_panic (f a) = true) -> no_panic (bind r f) = true.
  Proof. destruct r; cbn; intros H1 H2; try discriminate; auto. Qed.

  Lemma returns_no_panic {A} (r : res A) : returns r = true -> no_panic r = true.
  Proof. destruct r; cbn; congruence. Qed.

  Definition upgrade_lim (u : data_upgrade) : bool := (du_start u <? LIM) && (du_length u <? LIM).

  (* Panic-freedom of verify_upgrade for node lists of any length; the only condition on the lists is
     that the byte length of the changeset plus all the lengths the peer announces fits u64 (this IS
     needed: "byte_length += node.length" is executed once per node of both lists). *)
  Theorem verify_upgrade_no_panic fork u block_root pk c :
    upgrade_lim u = true -> cs_inv c ->
    cs_byte_length c + lens (du_nodes u) + extra_len block_root + lens (du_additional u) <= u64_max ->
    no_panic (verify_upgrade cr fork u block_root pk c) = true.
  Proof.
    intros Hu Hi Hb. unfold upgrade_lim in Hu. pose proof LIM_u64.
    unfold verify_upgrade.
    rewrite add64_ok by lia. cbn [bind]. rewrite mul64_ok by lia. cbn [bind].
    set (q := mkQ (du_nodes u) block_root).
    assert (Hq : q_total q = lens (du_nodes u) + extra_len block_root) by reflexivity.
    set (grow := match cs_roots c with [] => false | _ :: _ => true end). clearbody grow.
    set (to := 2 * (du_start u + du_length u)). clearbody to.
    destruct (upgrade_roots_loop_spec CLIMB c q (it_new 0) to 0 grow) as (_ & U2 & U3).
    specialize (U2 Hi ltac:(lia)).
    destruct (upgrade_roots_loop cr CLIMB c q (it_new 0) to 0 grow) as [[[c1 q1] it1]| | |];
      try discriminate U2; cbn [bind]; try reflexivity.
    destruct (U3 c1 q1 it1 eq_refl) as (B1 & B2 & _). specialize (B2 Hi).
    unfold last_root_index. destruct (rev (cs_roots c1)) as [|lr ?]; cbn [bind]; [reflexivity|].
    destruct (extra_siblings_spec (du_additional u) c1 (it_new (n_index lr))) as (_ & S2 & S3).
    specialize (S2 B2 ltac:(lia)).
    destruct (extra_siblings cr c1 (it_new (n_index lr)) (du_additional u)) as [[[c2 it2] rest]| | |];
      try discriminate S2; cbn [bind]; try reflexivity.
    destruct (S3 c2 it2 rest eq_refl) as (D1 & D2 & _). specialize (D2 B2).
    destruct (extra_rest_spec rest c2 it2) as (_ & E2 & _).
    specialize (E2 D2 ltac:(lia)).
    destruct (extra_rest cr c2 it2 rest) as [[c3 it3]| | |]; try discriminate E2; cbn [bind];
      try reflexivity.
    apply no_panic_bind; [apply returns_no_panic, cs_verify_and_set_signature_returns|].
    intros c4 _. reflexivity.
  Qed.

  Lemma verify_upgrade_fuel_sources fork u block_root pk c :
    verify_upgrade cr fork u block_root pk c = OutOfFuel ->
    (exists to grow, upgrade_roots_loop cr CLIMB c (mkQ (du_nodes u) block_root) (it_new 0) to 0 grow
                     = OutOfFuel) \/
    (exists it0 n, In n (du_additional u) /\ descend_to CLIMB it0 (n_index n) = OutOfFuel).
  Proof.
    unfold verify_upgrade.
    destruct (add64 "upgrade.start + upgrade.length" (du_start u) (du_length u)) as [sl| | |] eqn:Ea;
      cbn [bind]; try discriminate.
    2:{ unfold add64 in Ea. destruct (fits_u64 (du_start u + du_length u)); discriminate. }
    destruct (mul64 "2 * (start + length)" 2 sl) as [to| | |] eqn:Em; cbn [bind]; try discriminate.
    2:{ unfold mul64 in Em. destruct (fits_u64 (2 * sl)); discriminate. }
    set (grow := match cs_roots c with [] => false | _ :: _ => true end).
    destruct (upgrade_roots_loop cr CLIMB c (mkQ (du_nodes u) block_root) (it_new 0) to 0 grow)
      as [[[c1 q1] it1]| | |] eqn:Eu; cbn [bind]; try discriminate.
    2:{ intros _. left. exists to, grow. exact Eu. }
    unfold last_root_index. destruct (rev (cs_roots c1)) as [|lr ?]; cbn [bind]; [discriminate|].
    destruct (extra_siblings_spec (du_additional u) c1 (it_new (n_index lr))) as (S1 & _ & S3).
    destruct (extra_siblings cr c1 (it_new (n_index lr)) (du_additional u)) as [[[c2 it2] rest]| | |]
      eqn:Es; cbn [bind]; try discriminate.
    2:{ exfalso. apply S1. reflexivity. }
    destruct (extra_rest cr c2 it2 rest) as [[c3 it3]| | |] eqn:Er; cbn [bind]; try discriminate.
    - pose proof (cs_verify_and_set_signature_returns (cs_set_fork c3 fork) (du_signature u) pk) as R.
      destruct (cs_verify_and_set_signature cr (cs_set_fork c3 fork) (du_signature u) pk);
        cbn [bind]; discriminate.
    - intros _. right. destruct (extra_rest_fuel_only_descend rest c2 it2 Er) as (it0 & n & Hin & Hd).
      exists it0, n. split; [|exact Hd].
      (* rest is a suffix of du_additional *)
      clear -Es Hin. revert Es. generalize (it_new (n_index lr)). revert c1.
      induction (du_additional u) as [|x l IH]; intros c1 it; cbn [extra_siblings].
      + intros [= <- <- <-]. exact Hin.
      + destruct (n_index x =? it_index (it_sibling it)).
        * destruct (append_root cr c1 x (it_sibling it)) as [[c' it']| | |]; cbn [bind]; try discriminate.
          intros E. right. exact (IH c' it' E).
        * intros [= <- <- <-]. exact Hin.
  Qed.

  Definition proof_upgrade_ok (t : mtree) (pf : proof) : Prop :=
    match p_upgrade pf with
    | Some u => upgrade_lim u = true /\ lens (t_roots t) <= t_byte_length t /\
                t_byte_length t + lens (du_nodes u) + lens (du_additional u) + 87 * LIM <= u64_max
    | None => True
    end.

  (* The whole verifier never panics.  Without an upgrade section it returns (verify_proof_returns);
     with one, the only other outcome left is fuel exhaustion in the upgrade loops. *)
  Theorem verify_proof_no_panic t tf pf pk :
    block_lim (p_block pf) = true -> hash_lim (p_hash pf) = true -> seek_lim (p_seek pf) = true ->
    proof_upgrade_ok t pf ->
    no_panic (verify_proof cr t tf pf pk) = true.
  Proof.
    intros Hb Hh Hs Hu. unfold verify_proof.
    destruct (verify_tree_returns (p_block pf) (p_hash pf) (p_seek pf) (tree_changeset t) Hb Hh Hs)
      as [R P].
    destruct (verify_tree cr (p_block pf) (p_hash pf) (p_seek pf) (tree_changeset t))
      as [[root c1]| | |]; try discriminate R; cbn [bind]; [|reflexivity].
    destruct (P root c1 eq_refl) as [[T1 T2] Pr].
    unfold proof_upgrade_ok in Hu. destruct (p_upgrade pf) as [u|].
    - destruct Hu as (Hu1 & Hu2 & Hu3).
      assert (NP : no_panic (verify_upgrade cr (p_fork pf) u root pk c1) = true).
      { apply verify_upgrade_no_panic; [exact Hu1| |].
        - unfold cs_inv. rewrite T1, T2. exact Hu2.
        - rewrite T2. cbn [tree_changeset cs_byte_length].
          assert (extra_len root <= 87 * LIM).
          { destruct root as [r|]; cbn [extra_len]; [destruct (Pr r eq_refl)|]; lia. }
          lia. }
      destruct (verify_upgrade cr (p_fork pf) u root pk c1) as [[consumed c2]| | |];
        try discriminate NP; cbn [bind]; try reflexivity.
      apply returns_no_panic, check_root_returns.
      intros r Hr. destruct consumed; [discriminate|]. destruct (Pr r Hr). assumption.
    - cbn [bind]. apply returns_no_panic, check_root_returns.
      intros r Hr. destruct (Pr r Hr). assumption.
  Qed.
  (* the premise of verify_proof_no_panic from per-field bounds and a bound on the list lengths *)
  Definition MAXN : N := 1048576. (* 2^20 *)

  Lemma lens_le_lim l : nodes_lim l = true -> lens l <= N.of_nat (length l) * LIM.
  Proof.
    induction l as [|n l IH]; intros H.
    - unfold lens. cbn [map sumN length N.of_nat]. lia.
    - unfold nodes_lim in H. cbn [forallb] in H. apply andb_true_iff in H. destruct H as [Hn Hl].
      specialize (IH Hl). unfold node_lim in Hn. rewrite lens_cons. cbn [length].
      rewrite Nat2N.inj_succ. lia.
  Qed.

  Lemma proof_upgrade_ok_of_lim t pf u :
    p_upgrade pf = Some u -> upgrade_lim u = true ->
    nodes_lim (du_nodes u) = true -> nodes_lim (du_additional u) = true ->
    N.of_nat (length (du_nodes u)) <= MAXN -> N.of_nat (length (du_additional u)) <= MAXN ->
    lens (t_roots t) <= t_byte_length t -> t_byte_length t < 2 ^ 62 ->
    proof_upgrade_ok t pf.
  Proof.
    intros Hp Hu Hn Ha Hln Hla Hr Hb. unfold proof_upgrade_ok. rewrite Hp.
    split; [exact Hu|]. split; [exact Hr|].
    pose proof (lens_le_lim _ Hn). pose proof (lens_le_lim _ Ha).
    assert (N.of_nat (length (du_nodes u)) * LIM <= MAXN * LIM) by (apply N.mul_le_mono_r; exact Hln).
    assert (N.of_nat (length (du_additional u)) * LIM <= MAXN * LIM) by (apply N.mul_le_mono_r; exact Hla).
    assert (2 ^ 62 + MAXN * LIM + MAXN * LIM + 87 * LIM <= u64_max) by now vm_compute.
    lia.
  Qed.
End Verifier.

(* merge_roots exactly as append_root calls it: fuel S (length roots) *)
Corollary merge_roots_returns (cr : crypto) (roots : list node) (n : node) (nr : list node) (it : fiter) :
  merge_roots cr (S (length roots)) (n :: rev roots) nr it <> OutOfFuel /\
  (lens roots + n_length n <= u64_max ->
   returns (merge_roots cr (S (length roots)) (n :: rev roots) nr it) = true).
Proof.
  destruct (merge_roots_spec cr (S (length roots)) (n :: rev roots) nr it) as (M1 & M2 & _);
    [cbn [length]; rewrite rev_length; lia | lia |].
  split; [exact M1|]. intros H. apply M2. rewrite lens_cons, lens_rev. lia.
Qed.

(* ---------- 8. prover side, block-only requests ---------- *)

Lemma iwf_parent_sibling (t : fiter) : iwf t -> it_parent (it_sibling t) = it_parent t.
Proof.
  intros H. iwf_open t H. unfold it_sibling, it_next, it_prev. cbn [it_index it_offset it_factor].
  destruct (parity o) as [(E & O & q & ->)|(E & O & q & ->)]; rewrite E.
  - unfold it_parent. cbn [it_index it_offset it_factor].
    rewrite O. replace (N.odd (2 * q + 1)) with true by (rewrite odd_mod; lia).
    f_equal; lia.
  - replace (2 * q + 1 =? 0) with false by lia.
    unfold it_parent. cbn [it_index it_offset it_factor].
    rewrite O. replace (N.odd (2 * q + 1 - 1)) with false by (rewrite odd_mod; lia).
    f_equal; nia.
Qed.

(* i lies in the span of t *)
Definition inspan (t : fiter) (i : N) : Prop :=
  it_index t + 1 <= i + it_factor t / 2 /\ i + 1 <= it_index t + it_factor t / 2.

Lemma inspan_new (i : N) : inspan (it_new i) i.
Proof.
  pose proof (iwf_new i) as H. pose proof (it_new_index i) as Hi. unfold inspan. rewrite Hi.
  destruct H as (h & Hf & Hh & _). rewrite Hf. lia.
Qed.

Lemma inspan_parent (t : fiter) (i : N) : iwf t -> inspan t i -> inspan (it_parent t) i.
Proof.
  intros H. iwf_open t H. unfold inspan, it_parent. cbn [it_index it_offset it_factor].
  rewrite odd_mod. destruct (o mod 2 =? 1) eqn:E; cbn [it_index it_factor]; nia.
Qed.

(* an iterator whose span holds i0 but not head cannot be wide: its half factor is at most
   max(i0, head) + 1 -- this is what bounds the climbs of the prover *)
Lemma not_contains_factor (t : fiter) (i0 head C : N) :
  iwf t -> inspan t i0 -> it_contains t head = false ->
  2 * i0 + 2 <= C -> 2 * head + 2 <= C -> it_factor t <= C.
Proof.
  intros H Hs Hc H1 H2. iwf_open t H. unfold inspan in Hs. unfold it_contains in Hc.
  cbn [it_index it_offset it_factor] in *.
  destruct (N.le_gt_cases (2 * h) C) as [Hle|Hgt]; [exact Hle|exfalso].
  assert (o = 0) by nia. subst o.
  replace (2 * h / 2) with h in Hc by lia.
  destruct (i <? head) eqn:E1; [lia|].
  destruct (head <? i) eqn:E2; [|discriminate].
  destruct (i <? h) eqn:E3; [discriminate|lia].
Qed.

Fixpoint it_up (k : nat) (t : fiter) : fiter :=
  match k with O => t | S k' => it_up k' (it_parent t) end.

Lemma it_up_factor k : forall t, it_factor t <= it_factor (it_up k t).
Proof.
  induction k as [|k IH]; intros t; cbn [it_up]; [lia|].
  specialize (IH (it_parent t)). rewrite it_parent_factor in IH. lia.
Qed.

(* nodes_to_root_loop: the factor doubles every round and has to stay <= C *)
Lemma nodes_to_root_loop_spec (i0 head C : N) fuel : forall it rem,
  2 * i0 + 2 <= C -> 2 * head + 2 <= C ->
  iwf it -> inspan it i0 -> it_factor it <= C -> 2 * C <= it_factor it * 2 ^ N.of_nat fuel ->
  returns (nodes_to_root_loop fuel it rem head) = true /\
  (forall r, nodes_to_root_loop fuel it rem head = Ok r ->
     exists k, (k < fuel)%nat /\ r = it_index (it_up k it) /\ it_factor (it_up k it) <= C).
Proof.
  induction fuel as [|f IH]; intros it rem H1 H2 Hw Hs Hf Hfuel.
  { cbn [N.of_nat] in Hfuel. rewrite N.pow_0_r in Hfuel.
    pose proof (iwf_factor_le it Hw). lia. }
  cbn [nodes_to_root_loop]. destruct (rem =? 0).
  - split; [reflexivity|]. intros r [= <-]. exists 0%nat. cbn [it_up]. repeat split; [lia|exact Hf].
  - destruct (it_contains (it_parent it) head) eqn:Ec.
    + split; [reflexivity|]. discriminate.
    + pose proof (iwf_parent it Hw) as Hwp. pose proof (inspan_parent it i0 Hw Hs) as Hsp.
      pose proof (not_contains_factor _ i0 head C Hwp Hsp Ec H1 H2) as Hfp.
      destruct (IH (it_parent it) (rem - 1) H1 H2 Hwp Hsp Hfp) as [R P].
      { rewrite it_parent_factor. rewrite Nat2N.inj_succ, N.pow_succ_r' in Hfuel. lia. }
      split; [exact R|]. intros r Hr. destruct (P r Hr) as (k & K1 & K2 & K3).
      exists (S k). cbn [it_up]. repeat split; [lia|exact K2|exact K3].
Qed.

(* block_proof_loop without a seek: climbs k levels to the root computed above; every sibling read
   is at an index below i0 + 2C *)
Lemma block_proof_loop_spec (t : mtree) (tf : file) (i0 C : N) (seek_root : N) fuel :
  forall k it root p acc,
  NODE_SIZE * (i0 + 2 * C) <= u64_max ->
  (k < fuel)%nat -> iwf it -> inspan it i0 ->
  root = it_index (it_up k it) -> it_factor (it_up k it) <= C ->
  returns (block_proof_loop fuel t tf it root false seek_root p acc) = true.
Proof.
  induction fuel as [|f IH]; intros k it root p acc HB Hk Hw Hs Hr Hf; [lia|].
  cbn [block_proof_loop]. destruct (it_index it =? root) eqn:E; [reflexivity|].
  cbn [andb]. destruct k as [|k]; [cbn [it_up] in Hr; lia|].
  apply returns_bind.
  - apply required_node_returns.
    pose proof (it_up_factor (S k) it) as Hup.
    pose proof (iwf_sibling it Hw) as Hws.
    assert (it_index (it_sibling it) <= it_index it + it_factor it).
    { unfold it_sibling, it_next, it_prev. destruct (N.even (it_offset it)); cbn [it_index]; [lia|].
      destruct (it_offset it =? 0); cbn [it_index]; lia. }
    destruct Hw as (h & Hf2 & Hh & Hi). unfold inspan in Hs. rewrite Hf2 in *.
    replace (2 * h / 2) with h in Hs by lia.
    unfold NODE_SIZE in *. nia.
  - intros n _. rewrite (iwf_parent_sibling it Hw).
    apply (IH k); try assumption.
    + lia.
    + apply iwf_parent, Hw.
    + apply inspan_parent; assumption.
Qed.

Lemma LIM_u64_prover : NODE_SIZE * (2 * LIM + 2 * (4 * LIM + 2)) <= u64_max.
Proof. now vm_compute. Qed.

Lemma CLIMB_enough : 2 * (4 * LIM + 2) <= 2 * 2 ^ N.of_nat CLIMB.
Proof. now vm_compute. Qed.

(* Block-only requests: creating the proof returns (never Panic / OutOfFuel).
   No bound on rb_nodes is needed: the climb stops by itself as soon as the span holds the head. *)
Theorem create_block_proof_returns (t : mtree) (tf : file) (b : req_block) :
  rb_index b < LIM -> t_length t < LIM ->
  returns (create_valueless_proof t tf (Some b) None None None) = true.
Proof.
  intros Hb Ht. pose proof LIM_u64. pose proof LIM_pos.
  unfold create_valueless_proof. cbn [bind].
  unfold normalize_indexed. rewrite mul64_ok by lia. cbn [bind].
  destruct ((2 * t_length t <=? 0) || (2 * t_length t <? 2 * t_length t)); [reflexivity|].
  cbn [andb ix_index ix_nodes ix_value ix_last].
  set (i0 := rb_index b * 2). set (head := 2 * t_length t).
  set (C := 4 * LIM + 2).
  assert (H1 : 2 * i0 + 2 <= C) by (unfold i0, C; lia).
  assert (H2 : 2 * head + 2 <= C) by (unfold head, C; lia).
  pose proof (iwf_new i0) as Hw. pose proof (inspan_new i0) as Hs.
  pose proof (iwf_factor_le _ Hw) as [Hfpos Hfle]. rewrite it_new_index in Hfle.
  destruct (nodes_to_root_loop_spec i0 head C CLIMB (it_new i0) (rb_nodes b) H1 H2 Hw Hs) as [R P].
  { lia. }
  { pose proof CLIMB_enough. fold C in H3.
    assert (2 * 2 ^ N.of_nat CLIMB <= it_factor (it_new i0) * 2 ^ N.of_nat CLIMB).
    { apply N.mul_le_mono_r. destruct Hw as (h & Hh1 & Hh2 & _). lia. }
    lia. }
  unfold nodes_to_root.
  destruct (nodes_to_root_loop CLIMB (it_new i0) (rb_nodes b) head) as [sub| | |];
    try discriminate R; cbn [bind]; [|reflexivity].
  destruct (P sub eq_refl) as (k & K1 & K2 & K3).
  apply returns_bind.
  - apply returns_bind; [|intros p _; reflexivity].
    unfold block_and_seek_proof. cbn [ix_index ix_value].
    destruct (negb (it_contains (it_new sub) i0)); [reflexivity|]. cbn [bind].
    apply returns_bind.
    + apply (block_proof_loop_spec t tf i0 C head CLIMB k); try assumption.
      pose proof LIM_u64_prover. unfold i0, C, NODE_SIZE in *. lia.
    + intros [p' l] _. reflexivity.
  - intros [[st p] un] _. cbn [bind negb].
    destruct un; cbn [bind]; destruct (lp_nodes p); cbn [bind]; reflexivity.
Qed.

(* ---------- non-vacuity: the premises are satisfiable and the Ok paths are exercised ---------- *)

Definition toy : crypto :=
  mkCrypto (fun _ => repeat 7 32%nat) (fun _ => 0) (fun _ _ => repeat 1 64%nat) (fun _ _ _ => true).
Definition h9 : bytes := repeat 9 32%nat.
Definition ex_tree : mtree :=
  mkTree [] 0 0 0 None (nm_set 3 (mkNode 3 20 (repeat 7 32%nat)) nm_empty).
Definition ex_block := Some (mkDataBlock 0 [1; 2; 3] [mkNode 2 5 h9]).
Definition ex_seek := Some (mkDataSeek 9 [mkNode 4 6 h9; mkNode 6 6 h9]).
Definition ex_upgrade := Some (mkDataUpgrade 0 2 [mkNode 1 8 h9] [mkNode 5 9 h9] (repeat 1 64%nat)).
Definition ex_cs : changeset := mkCs 1 1 3 0 0 [mkNode 0 3 h9] [] None None false 1 0.

Ltac ex := repeat split; now vm_compute.

Example q_shift_ex :
  q_shift (mkQ [mkNode 2 5 h9] None) 2 = Ok (mkNode 2 5 h9, mkQ [] None).
Proof. reflexivity. Qed.

Example climb_returns_ex :
  let q := mkQ [mkNode 2 5 h9; mkNode 5 12 h9] None in
  let cur := mkNode 0 3 h9 in
  q_length q < N.of_nat 3 /\ n_length cur + q_total q <= u64_max /\
  is_ok (climb toy 3 q (it_new 0) cur [cur]) = true.
Proof. ex. Qed.

Example climb_bounded_ex :
  let q := mkQ [mkNode 2 5 h9] (Some (mkNode 5 12 h9)) in
  let cur := mkNode 0 3 h9 in
  0 < LIM /\ LIM * N.log2 (4 * LIM) + 44 * LIM <= u64_max /\ q_length q < N.of_nat 3 /\
  it_factor (it_new 0) <= 4 * LIM /\
  n_length cur + extra_len (q_extra q) <= LIM * N.log2 (it_factor (it_new 0)) + 44 * LIM /\
  n_index cur < 2 * LIM /\
  is_ok (climb toy 3 q (it_new 0) cur [cur]) = true.
Proof. ex. Qed.

Example verify_tree_returns_ex :
  block_lim ex_block = true /\ hash_lim None = true /\ seek_lim ex_seek = true /\
  is_ok (verify_tree toy ex_block None ex_seek (tree_changeset ex_tree)) = true.
Proof. ex. Qed.

Example append_root_returns_ex :
  cs_inv ex_cs /\ cs_byte_length ex_cs + n_length (mkNode 2 5 h9) <= u64_max /\
  is_ok (append_root toy ex_cs (mkNode 2 5 h9) (it_new 2)) = true /\
  (exists c' it', append_root toy ex_cs (mkNode 2 5 h9) (it_new 2) = Ok (c', it') /\
                  length (cs_roots c') = 1%nat).
Proof.
  repeat split; try now vm_compute.
  eexists. eexists. split; [vm_compute; reflexivity|reflexivity].
Qed.

Example descend_to_returns_ex :
  it_factor (it_new 3) = 2 ^ 3 /\ 1 <= 3 /\ 3 < N.of_nat CLIMB /\
  is_ok (descend_to CLIMB (it_new 3) 0) = true.
Proof. ex. Qed.

Example grow_loop_returns_ex :
  let q := mkQ [mkNode 2 5 h9] None in
  q_length q < N.of_nat CLIMB /\ cs_inv ex_cs /\ cs_byte_length ex_cs + q_total q <= u64_max /\
  is_ok (grow_loop toy CLIMB ex_cs q (it_new 0) 1) = true.
Proof. ex. Qed.

Example extra_rest_returns_ex :
  let extra := [mkNode 4 6 h9] in
  let it := it_sibling (it_new 1) in
  it_factor it = 2 ^ 2 /\ 1 <= 2 /\
  2 + N.of_nat (length (cs_roots ex_cs)) + N.of_nat (length extra) < N.of_nat CLIMB /\
  cs_inv ex_cs /\ cs_byte_length ex_cs + lens extra <= u64_max /\
  is_ok (extra_rest toy ex_cs it extra) = true.
Proof. ex. Qed.

Example upgrade_roots_loop_returns_ex :
  let q := mkQ [mkNode 2 5 h9] None in
  2 * q_length q + (N.of_nat (length (cs_roots ex_cs)) - N.of_nat 0) + 1 < N.of_nat CLIMB /\
  q_length q < N.of_nat CLIMB /\ cs_inv ex_cs /\ cs_byte_length ex_cs + q_total q <= u64_max /\
  is_ok (upgrade_roots_loop toy CLIMB ex_cs q (it_new 0) 4 0 true) = true.
Proof. ex. Qed.

Example verify_proof_returns_ex :
  let pf := mkProof 0 ex_block None ex_seek None in
  p_upgrade pf = None /\ block_lim (p_block pf) = true /\ hash_lim (p_hash pf) = true /\
  seek_lim (p_seek pf) = true /\ is_ok (verify_proof toy ex_tree file_empty pf []) = true.
Proof. ex. Qed.

Example verify_proof_no_panic_ex :
  let pf := mkProof 0 None None None ex_upgrade in
  block_lim (p_block pf) = true /\ hash_lim (p_hash pf) = true /\ seek_lim (p_seek pf) = true /\
  proof_upgrade_ok ex_tree pf /\ is_ok (verify_proof toy ex_tree file_empty pf []) = true.
Proof. ex. Qed.

Example verify_upgrade_no_panic_ex :
  match ex_upgrade with
  | Some u =>
      upgrade_lim u = true /\ cs_inv ex_cs /\
      cs_byte_length ex_cs + lens (du_nodes u) + extra_len None + lens (du_additional u) <= u64_max
  | None => False
  end.
Proof. ex. Qed.

Definition ex_tree2 : mtree :=
  mkTree [mkNode 1 8 h9] 2 8 0 None
    (nm_set 0 (mkNode 0 3 h9) (nm_set 1 (mkNode 1 8 h9) (nm_set 2 (mkNode 2 5 h9) nm_empty))).

Example create_block_proof_returns_ex :
  let b := mkReqBlock 0 1 in
  rb_index b < LIM /\ t_length ex_tree2 < LIM /\
  create_valueless_proof ex_tree2 file_empty (Some b) None None None =
    Ok (mkVproof 0 (Some (mkDataHash 0 [mkNode 2 5 h9])) None None None).
Proof. ex. Qed.

Print Assumptions q_shift_returns.
Print Assumptions q_shift_ok.
Print Assumptions climb_returns.
Print Assumptions climb_bounded.
Print Assumptions verify_tree_returns.
Print Assumptions merge_roots_spec.
Print Assumptions append_root_spec.
Print Assumptions append_root_returns.
Print Assumptions parse_signature_returns.
Print Assumptions cs_verify_and_set_signature_returns.
Print Assumptions descend_to_returns.
Print Assumptions grow_loop_spec.
Print Assumptions grow_loop_returns.
Print Assumptions extra_siblings_spec.
Print Assumptions extra_rest_fuel_only_descend.
Print Assumptions extra_rest_spec.
Print Assumptions extra_rest_returns.
Print Assumptions upgrade_roots_loop_spec.
Print Assumptions upgrade_roots_loop_returns.
Print Assumptions verify_upgrade_no_panic.
Print Assumptions verify_upgrade_fuel_sources.
Print Assumptions iwf_parent_index.
Print Assumptions required_node_returns.
Print Assumptions verify_proof_returns.
Print Assumptions verify_proof_no_panic.
Print Assumptions proof_upgrade_ok_of_lim.
Print Assumptions nodes_to_root_loop_spec.
Print Assumptions block_proof_loop_spec.
Print Assumptions create_block_proof_returns.
Print Assumptions merge_roots_returns.

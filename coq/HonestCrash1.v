(* HonestCrash1.v -- crash cuts of HONEST proof applications of EVERY request class (C02), part 1: the cut disks.
   The writer's own proof for any well-formed request (AcceptAll.wf_request: block or hash section, optional
   in-range seek, optional full or PARTIAL upgrade with additional nodes) is applied by a replica with
   core_apply_proof.  The journal of the accepted call is
        [optional data write] ; entry write (= commit point) ; [flush group]
   and EVERY prefix of it, applied to the disk, leaves a disk satisfying the replica crash-disk invariant
        RCDisk = ReplicaDisk1.RDisk + "the stored nodes (tree store + nodes of the logged entries) are closed"
   for the held set / length of BEFORE up to the commit point and of AFTER from it on.
   RDisk itself is NOT too narrow (its entries carry arbitrary lists of the writer's nodes); the closure clause is
   added because the history invariant of HonestApply (RCInv) needs it after the reopen (HonestCrash2).
   No escape clause (collision / forged signature): the proofs are the writer's own.
     maybe_flush_RC             : the flush decision from an RCInv state, all cuts RCDisk;
     honest_apply_crash_cuts    : an accepted application of an honest changeset, all cuts RCDisk;
     honest_round_changeset     : the changeset of a round (premises of HonestApply3.honest_round) is honest;
     honest_round_crash_cuts    : one replication round, cut anywhere. *)
From HC Require Import Base NMap Codec CodecFacts Crypto FlatTree Storage Bitfield Oplog Merkle Core.
From HC Require Import FlatTreeFacts StorageFacts BitfieldFacts OplogFacts Sound NoPanic TreeRef OffsetFacts CoreFacts Crash Refine Replicate Replicate2 Replicate2Z Replicate2D Replicate2E.
From HC Require Import ClearRefine Reopen ContigBridge Unified1 Unified2 CrashCore1 CrashCore2 CrashClear1.
From HC Require Import SoundCoreLib SoundCore SoundCoreUp SoundCoreBU ReplicaDisk1 ReplicaDisk2 ReplicaDisk3 ReplicaDisk4.
From HC Require Import AcceptAll1 AcceptAll2 AcceptAll3 AcceptAll AcceptAllCore1 AcceptAllClo AcceptAllClo2 AcceptAllFlush AcceptAllCore2 AcceptAllCore3 AcceptAllHist.
From HC Require Import HonestApply1 HonestApply2 HonestApply3.
From Coq Require Import FMapPositive ZifyN ZifyNat ZifyBool.
Ltac Zify.zify_post_hook ::= Z.div_mod_to_equations.
Arguments N.add : simpl never.
Arguments N.sub : simpl never.
Arguments N.mul : simpl never.
Arguments N.div : simpl never.
Arguments N.modulo : simpl never.
Arguments N.pow : simpl never.
Arguments N.eqb : simpl never.
Arguments N.ltb : simpl never.
Arguments N.leb : simpl never.
Arguments N.max : simpl never.
Arguments N.min : simpl never.
Arguments N.of_nat : simpl never.
Arguments N.to_nat : simpl never.
Arguments N.log2 : simpl never.

(* ====================================================================================== *)
(* A. Lookups under a partial flush of unflushed nodes                                      *)
(* ====================================================================================== *)

Lemma ClosedR_same t t' tf :
  t_roots t' = t_roots t -> t_unflushed t' = t_unflushed t -> ClosedR t tf -> ClosedR t' tf.
Proof.
  intros Er Eu. apply ClosedR_ext; [exact Er|].
  intros j. unfold navail. split; intros [n Hn]; exists n.
  - rewrite <- (required_node_same_unflushed t t' tf j Eu). exact Hn.
  - rewrite (required_node_same_unflushed t t' tf j Eu). exact Hn.
Qed.

(* writing (again) some of the unflushed nodes of t into the store changes no lookup of t *)
Lemma required_write_sub t tf ws k x :
  unflushed_ok t -> f_len tf mod NODE_SIZE = 0 ->
  (forall v, In v ws -> nm_get (n_index v) (t_unflushed t) = Some v) ->
  (required_node t (write_nodes tf ws) k = Ok x <-> required_node t tf k = Ok x).
Proof.
  intros Hok Hal Hws.
  assert (H32 : forall v, In v ws -> length (n_hash v) = 32%nat).
  { intros v Hv. apply Hws in Hv. apply Hok in Hv. tauto. }
  unfold required_node, node_get.
  destruct (nm_get k (t_unflushed t)) as [n0|] eqn:G; [split; intros E; exact E|].
  unfold mul64. destruct (fits_u64 (NODE_SIZE * k)) eqn:Fit; [|split; intros E; exact E].
  cbn [bind].
  destruct (write_nodes_read ws tf k H32) as [(v & Hin & Hk & _)|[Hno Hr]].
  { exfalso. pose proof (Hws v Hin) as G'. rewrite Hk, G in G'. discriminate G'. }
  destruct (N.le_gt_cases (NODE_SIZE * k + NODE_SIZE) (f_len tf)) as [L|L].
  { rewrite (Hr L). split; intros E; exact E. }
  split; intros E.
  - exfalso.
    destruct (f_read (write_nodes tf ws) (NODE_SIZE * k) NODE_SIZE) as [data|] eqn:R; [|discriminate E].
    destruct (node_blank (node_from_bytes k data)) eqn:B; [discriminate E|].
    destruct (write_nodes_read_back ws tf k data H32 Hal R B) as [(v & Hin & Hk)|R0].
    + apply (Hno v Hin Hk).
    + apply f_read_spec in R0. lia.
  - exfalso.
    destruct (f_read tf (NODE_SIZE * k) NODE_SIZE) as [data|] eqn:R; [|discriminate E].
    apply f_read_spec in R. lia.
Qed.

(* ====================================================================================== *)
(* B. The crash-disk invariant with closed stored nodes                                     *)
(* ====================================================================================== *)

Section Closed.
  Variable cr : crypto.
  Variable bs : list bytes.

  (* ReplicaDisk1.RDisk + the nodes a replay finds (tree store, nodes of the logged entries) are closed *)
  Definition RCDisk (pk : bytes) (d : disk) (H : N -> bool) (r : N) : Prop :=
    exists s0 s1 body st0 st1 bits hf l kf,
      f_content (d_oplog d) = s0 ++ s1 ++ body /\
      OplX cr s0 s1 body st0 st1 bits hf l /\
      hdr_rep cr bs pk hf kf /\
      rchain cr bs pk (d_tree d) [] kf l r /\
      store_roots cr bs (d_tree d) kf /\
      RTree cr bs (rtree cr bs r None (flat_map e_nodes l)) (d_tree d) (d_data d) H /\
      BfH (d_bitfield d) (updates_of l) (hd_contig hf) H /\
      ClosedR (rtree cr bs r None (flat_map e_nodes l)) (d_tree d).

  (* it is a strengthening of RDisk: everything proved about RDisk disks (reopen_RDisk, ...) applies *)
  Lemma RCDisk_RDisk pk d H r : RCDisk pk d H r -> RDisk cr bs pk d H r.
  Proof.
    intros (s0 & s1 & body & st0 & st1 & bits & hf & l & kf & A1 & A2 & A3 & A4 & A5 & A6 & A7 & _).
    exists s0, s1, body, st0, st1, bits, hf, l, kf. repeat (split; [assumption|]). exact A7.
  Qed.

  Lemma RCDisk_ext pk d H H' r : (forall i, H' i = H i) -> RCDisk pk d H r -> RCDisk pk d H' r.
  Proof.
    intros E (s0 & s1 & body & st0 & st1 & bits & hf & l & kf & Hcont & HO & Hhf & Hch & Hst & HT & Hbf & Hc).
    exists s0, s1, body, st0, st1, bits, hf, l, kf. repeat (split; [assumption|]).
    split; [apply (RTree_ext cr bs (rtree cr bs r None (flat_map e_nodes l)) _ _ _ H H'); try reflexivity; assumption|].
    split; [apply (BfH_ext _ _ _ H); assumption|exact Hc].
  Qed.

  (* only the data store differs, and every held block is still readable *)
  Lemma RCDisk_data pk d d1 H r :
    RCDisk pk d H r ->
    d_tree d1 = d_tree d -> d_oplog d1 = d_oplog d -> d_bitfield d1 = d_bitfield d ->
    (forall i, H i = true -> len (blk bs i) <> 0 ->
               f_read (d_data d1) (prefix_size bs i) (len (blk bs i)) = Some (blk bs i)) ->
    RCDisk pk d1 H r.
  Proof.
    intros (s0 & s1 & body & st0 & st1 & bits & hf & l & kf & Hcont & HO & Hhf & Hch & Hst & HT & Hbf & Hc) Et Eo Eb Hd.
    exists s0, s1, body, st0, st1, bits, hf, l, kf. rewrite Et, Eo, Eb.
    repeat (split; [assumption|]). split; [|split; [exact Hbf|exact Hc]].
    destruct HT as (H1 & H2 & H3 & H4 & H5 & H6 & H7 & H8).
    repeat (split; [assumption|]).
    intros i Hi. destruct (H8 i Hi) as (A1 & A2 & A3 & _).
    split; [exact A1|]. split; [exact A2|]. split; [exact A3|]. apply Hd, Hi.
  Qed.

  (* memory + disk between two calls gives the disk part *)
  Lemma RCInv_RCDisk c d H :
    RCInv cr bs c d H -> RCDisk (kp_public (c_keypair c)) d H (t_length (c_tree c)).
  Proof.
    intros [(W & Hb & Hex & Hk & Hs & s0 & s1 & body & st0 & st1 & hf & l & kf &
             Hcont & G & Hlen & Hbytes & Hhf & Hh & Hch & Hu & Hst & Hbf & Hsync) Hclo].
    exists s0, s1, body, st0, st1, (ol_bits (c_oplog c)), hf, l, kf.
    split; [exact Hcont|]. split; [left; exact G|]. split; [exact Hhf|]. split; [exact Hch|].
    split; [exact Hst|]. split; [|split; [exact Hbf|]].
    - apply (RTree_ext cr bs (c_tree c) _ _ _ (bf_get (c_bitfield c)) H); try reflexivity.
      + cbn [rtree t_roots]. destruct W as (_ & _ & -> & _). reflexivity.
      + cbn [rtree t_byte_length]. destruct W as (_ & _ & _ & -> & _). reflexivity.
      + cbn [rtree t_fork]. destruct W as (_ & -> & _). reflexivity.
      + cbn [rtree t_unflushed]. symmetry. exact Hu.
      + intros i. symmetry. apply Hb.
      + apply RInv_RTree, W.
    - apply (ClosedR_same (c_tree c)); [|cbn [rtree t_unflushed]; symmetry; exact Hu|exact Hclo].
      cbn [rtree t_roots]. destruct W as (_ & _ & -> & _). reflexivity.
  Qed.
End Closed.

(* ====================================================================================== *)
(* C. The flush decision from an RCInv state: result, journal and cuts                      *)
(* ====================================================================================== *)

Section FlushCutsC.
  Variable cr : crypto.
  Hypothesis Hcrc : crc_ok cr.
  Hypothesis Hhash32 : forall x, length (cr_hash cr x) = 32%nat.
  Hypothesis Hnonblank : forall x, all_zero (cr_hash cr x) = false.
  Hypothesis Hhashbytes : forall x, bytes_ok (cr_hash cr x) = true.
  Variable bs : list bytes.
  Hypothesis Hw : writer_fits bs.

  (* ReplicaDisk4.maybe_flush_R with the closure of the stored nodes carried through every cut *)
  Lemma maybe_flush_RC f c d j ev H :
    RCInv cr bs c d H ->
    exists c' d' fl,
      maybe_flush cr f c (mkWorld d j ev) = (c', mkWorld d' (rev fl ++ j) ev, Ok tt) /\
      apply_sops d fl = Some d' /\ RCInv cr bs c' d' H /\
      t_length (c_tree c') = t_length (c_tree c) /\ c_keypair c' = c_keypair c /\
      cuts_ok d fl (fun dk => RCDisk cr bs (kp_public (c_keypair c)) dk H (t_length (c_tree c))).
  Proof.
    intros [X Hclo].
    destruct (maybe_flush cr f c (mkWorld d j ev)) as [[c' w'] res] eqn:Hmf.
    pose proof (RCInv_RCDisk cr bs c d H (conj X Hclo)) as XD.
    destruct (RDInv_header cr Hhash32 Hnonblank Hhashbytes bs Hw c d H X) as (Hrep & Hfits).
    pose proof (RDInv_RInv cr bs c d H X) as W.
    pose proof X as (_ & Hb & Hex & Hk & Hs & s0 & s1 & body & st0 & st1 & hf & l & kf &
                     Hcont & G & Hlen & Hbytes & Hhf & Hh & Hch & Hu & Hst & Hbf & Hsync).
    set (pk := kp_public (c_keypair c)) in *. set (r := t_length (c_tree c)) in *.
    pose proof Hw as [Hw1 Hw2].
    pose proof Hmf as Hmf0.
    unfold maybe_flush in Hmf. rewrite mbind_get_core in Hmf.
    match type of Hmf with (if ?b then _ else _) _ _ = _ => destruct b end.
    2:{ unfold put_skip in Hmf. injection Hmf as <- <- <-.
        exists (mkCore (c_keypair c) (c_oplog c) (c_tree c) (c_bitfield c) (c_header c) (c_skip c - 1)), d, [].
        split; [reflexivity|]. split; [reflexivity|]. split; [split; [exact X|exact Hclo]|].
        split; [reflexivity|]. split; [reflexivity|].
        apply cuts_nil. exact XD. }
    rewrite mbind_put_skip in Hmf.
    set (c1 := mkCore (c_keypair c) (c_oplog c) (c_tree c) (c_bitfield c) (c_header c) 3) in *.
    assert (Hun : unflushed_ok (c_tree c1)).
    { apply (unfl_sound_ok cr Hhash32 bs (c_tree c) r Hw1). apply W. }
    destruct (flush_all_run cr Hhash32 Hnonblank c1 (mkWorld d j ev) Hun Hfits) as (o' & oops & d3 & OF & A & E).
    cbn [w_disk w_journal w_events c1 c_oplog c_keypair c_header c_bitfield c_tree c_skip] in OF, A, E.
    cbv zeta in A, E. rewrite E in Hmf. injection Hmf as <- <- <-.
    (* the final state *)
    destruct (RDInv_maybe_flush cr Hcrc Hhash32 Hnonblank Hhashbytes bs Hw f c d j ev H _ _ tt X Hmf0)
      as (Xfin & Elf & Ekf & _).
    pose proof (maybe_flush_navail cr Hhash32 Hnonblank bs Hw f c d j ev _ _ tt W Hmf0) as Hnav.
    cbn [w_disk] in Xfin, Hnav.
    set (b := c_bitfield c) in *. set (t := c_tree c) in *. set (ws := unflushed_nodes t) in *.
    set (fl := page_ops b (bf_dirty b) ++ map node_write ws ++ oops) in *.
    set (cfin := mkCore (c_keypair c) o' (mkTree (t_roots t) (t_length t) (t_byte_length t) (t_fork t) (t_signature t) nm_empty)
                   (mkBf (bf_bits b) []) (c_header c) 3) in *.
    assert (Hclofin : ClosedR (c_tree cfin) (d_tree d3)).
    { apply (ClosedR_ext t (d_tree d) (c_tree cfin) (d_tree d3)); [reflexivity|exact Hnav|exact Hclo]. }
    exists cfin, d3, fl.
    split; [reflexivity|]. split; [exact A|]. split; [split; [exact Xfin|exact Hclofin]|].
    split; [reflexivity|]. split; [reflexivity|].
    (* the oplog step *)
    destruct Hrep as (Hok & Hkp & Hd).
    pose proof G as (H0 & H1 & Hchs & Hf & Hoks).
    unfold oplog_flush in OF. apply bind_ok in OF as ([bits1 ops1] & Hins & OF). injection OF as <- <-.
    destruct (header_write_step cr s0 s1 st0 st1 _ hf (c_header c) 0 false bits1 ops1 H0 H1 Hchs Hok Hfits Hins)
      as (fr & pad & Hfr & Hl & _ & -> & -> & Hwr & st0' & st1' & S0 & S1 & Hch' & Hcb).
    set (bits := ol_bits (c_oplog c)) in *.
    set (s0' := put0 (w_slot bits) (fr ++ pad) s0) in *. set (s1' := put1 (w_slot bits) (fr ++ pad) s1) in *.
    (* the disks *)
    set (fb := write_pages (d_bitfield d) (bf_bits b) (bf_dirty b)).
    set (ft := write_nodes (d_tree d) ws).
    set (fo1 := f_write (d_oplog d) (w_slot bits) (fr ++ pad)).
    set (fo2 := f_truncate fo1 (ENTRIES_OFFSET + 0)).
    assert (Ed3 : d3 = mkDisk ft (d_data d) fb fo2).
    { unfold fl, page_ops in A.
      rewrite CoreFacts.apply_sops_app, apply_page_writes, CoreFacts.apply_sops_app, apply_node_writes in A.
      cbn [apply_sops apply_sop d_get d_set d_tree d_oplog] in A. injection A as <-. reflexivity. }
    (* the unflushed nodes are the writer's *)
    assert (Hws : auth_list cr bs r ws).
    { intros v Hv. pose proof (unflushed_nodes_get t v Hun Hv) as Gv.
      destruct W as (_ & _ & _ & _ & W5 & _). destruct (W5 _ _ Gv) as [E1 E2]. split; assumption. }
    (* the tree a replay of the old oplog constructs *)
    set (U := flat_map e_nodes l) in *.
    pose proof W as (Wr & Wf & Wroots & Wbl & Wu & Wfs & Wrl & Wheld).
    assert (HT0 : RTree cr bs (rtree cr bs r None U) (d_tree d) (d_data d) H).
    { apply (RTree_ext cr bs t _ _ _ (bf_get b) H); try reflexivity.
      - cbn [rtree t_roots]. symmetry. exact Wroots.
      - cbn [rtree t_byte_length]. symmetry. exact Wbl.
      - cbn [rtree t_fork]. symmetry. exact Wf.
      - cbn [rtree t_unflushed]. symmetry. exact Hu.
      - intros i. symmetry. apply Hb.
      - apply RInv_RTree, W. }
    assert (Hclo0 : ClosedR (rtree cr bs r None U) (d_tree d)).
    { apply (ClosedR_same t); [|cbn [rtree t_unflushed]; symmetry; exact Hu|exact Hclo].
      cbn [rtree t_roots]. symmetry. exact Wroots. }
    assert (Hun0 : unflushed_ok (rtree cr bs r None U)).
    { intros i n Gn. cbn [rtree t_unflushed] in Gn. rewrite <- Hu in Gn. apply (Hun i n Gn). }
    assert (Hal0 : f_len (d_tree d) mod NODE_SIZE = 0) by (destruct W as (_ & _ & _ & _ & _ & [Q _] & _); exact Q).
    (* disks that still carry the old oplog and data *)
    assert (Old : forall dk ws' ps, (forall v, In v ws' -> In v ws) ->
                  d_tree dk = write_nodes (d_tree d) ws' -> d_data dk = d_data d -> d_oplog dk = d_oplog d ->
                  d_bitfield dk = write_pages (d_bitfield d) (bf_bits b) ps ->
                  RCDisk cr bs pk dk H r).
    { intros dk ws' ps Hsub Et Edd Eo Ebb.
      assert (Hws' : auth_list cr bs r ws') by (intros v Hv; apply Hws, Hsub, Hv).
      exists s0, s1, body, st0, st1, bits, hf, l, kf. fold U. rewrite Et, Edd, Eo, Ebb.
      split; [exact Hcont|]. split; [left; exact G|]. split; [exact Hhf|].
      split; [apply (rchain_write_nodes cr Hhash32 Hnonblank bs Hw1 pk _ r); assumption|].
      split; [apply (store_roots_write_nodes cr Hhash32 bs Hw1 _ _ r); assumption|].
      split; [apply (RTree_write_nodes cr Hhash32 Hnonblank bs Hw1); assumption|].
      split; [apply BfH_write_pages; [exact Hbf|exact Hb]|].
      apply (ClosedR_ext (rtree cr bs r None U) (d_tree d)); [reflexivity| |exact Hclo0].
      intros k. unfold navail. split; intros [x Hx]; exists x.
      - apply (required_write_sub _ (d_tree d) ws' k x Hun0 Hal0); [|exact Hx].
        intros v Hv. cbn [rtree t_unflushed]. rewrite <- Hu. apply (unflushed_nodes_get t v Hun), Hsub, Hv.
      - apply (required_write_sub _ (d_tree d) ws' k x Hun0 Hal0); [|exact Hx].
        intros v Hv. cbn [rtree t_unflushed]. rewrite <- Hu. apply (unflushed_nodes_get t v Hun), Hsub, Hv. }
    (* the stores once everything but the header is flushed *)
    pose proof (RDInv_RInv cr bs _ _ H Xfin) as Wfin. rewrite Ed3 in Wfin.
    assert (Fst : store_roots cr bs ft r).
    { destruct Wfin as (_ & _ & V3 & _ & _ & _ & V7 & _). cbn [cfin c_tree t_roots t_length d_tree] in V3, V7.
      intros x Hx. fold r in V3. rewrite <- V3 in Hx. specialize (V7 x Hx).
      apply required_node_store_inv in V7; [exact V7|reflexivity]. }
    assert (FT : RTree cr bs (rtree cr bs r None []) ft (d_data d) H).
    { apply RInv_RTree in Wfin. cbn [cfin c_tree c_bitfield d_tree d_data] in Wfin.
      refine (RTree_ext cr bs _ _ _ _ _ H _ _ _ _ _ _ Wfin); cbn [rtree t_roots t_length t_byte_length t_fork t_unflushed];
        try reflexivity.
      - destruct W as (_ & _ & W3 & _). symmetry. exact W3.
      - destruct W as (_ & _ & _ & W4 & _). symmetry. exact W4.
      - destruct W as (_ & W2 & _). symmetry. exact W2.
      - intros i. unfold bf_get. cbn [bf_bits]. symmetry. apply Hb. }
    assert (FC : ClosedR (rtree cr bs r None []) ft).
    { rewrite Ed3 in Hclofin. cbn [d_tree] in Hclofin.
      apply (ClosedR_same (c_tree cfin)); [|reflexivity|exact Hclofin].
      cbn [rtree cfin c_tree t_roots]. destruct W as (_ & _ & W3 & _). symmetry. exact W3. }
    assert (Fb : BfH fb [] (hd_contig (c_header c)) H).
    { apply BfH_exact; [apply len_write_pages, Hbf| |exact Hex].
      intros i. unfold fb. rewrite (BfSync_flush _ _ Hsync). apply Hb. }
    (* the disk after the slot write: new header, the entries of the previous epoch still there *)
    assert (Mid : RCDisk cr bs pk (mkDisk ft (d_data d) fb fo1) H r).
    { exists s0', s1', body, st0', st1', (w_bits bits), (c_header c), [], r.
      cbn [d_data d_oplog d_tree d_bitfield flat_map updates_of].
      split; [unfold fo1; rewrite f_content_write, Hcont; apply Hwr|].
      split. { right. split; [reflexivity|]. split; [exact S0|]. split; [exact S1|]. split; [exact Hch'|].
               exists (current_bit bits), l. split; [exact Hcb|exact Hf]. }
      split; [split; [exact Hok|split; [exact Hkp|exact Hd]]|]. split; [reflexivity|].
      split; [exact Fst|]. split; [exact FT|]. split; [exact Fb|exact FC]. }
    (* the cuts *)
    unfold fl.
    apply (cuts_app d _ _ _ (d_set d Bitfield fb)).
    { intros k. unfold page_ops. rewrite firstn_map, apply_page_writes. eexists. split; [reflexivity|].
      apply (Old _ [] (firstn k (bf_dirty b))); try (destruct d as [f1 f2 f3 f4]; reflexivity). intros v []. }
    { unfold page_ops. apply apply_page_writes. }
    apply (cuts_app _ _ _ _ (d_set (d_set d Bitfield fb) Tree ft)).
    { intros k. rewrite firstn_map, apply_node_writes. eexists. split; [reflexivity|].
      apply (Old _ (firstn k ws) (bf_dirty b)); try (destruct d as [f1 f2 f3 f4]; reflexivity).
      intros v Hv. eapply in_firstn. exact Hv. }
    { apply apply_node_writes. }
    intros k. destruct k as [|[|k]].
    - eexists. split; [reflexivity|].
      apply (Old _ ws (bf_dirty b)); try (destruct d as [f1 f2 f3 f4]; reflexivity). intros v Hv. exact Hv.
    - eexists. split; [reflexivity|]. destruct d as [f1 f2 f3 f4]. exact Mid.
    - cbn [firstn]. rewrite firstn_nil. eexists. split; [reflexivity|].
      pose proof (RCInv_RCDisk cr bs _ _ H (conj Xfin Hclofin)) as XDf. cbn [cfin c_keypair c_tree t_length] in XDf.
      rewrite Ed3 in XDf. destruct d as [f1 f2 f3 f4]. exact XDf.
  Qed.
End FlushCutsC.

(* ====================================================================================== *)
(* D. The journal of an accepted HONEST proof application, cut anywhere                     *)
(* ====================================================================================== *)

Section HonestCuts.
  Variable cr : crypto.
  Hypothesis Hcrc : crc_ok cr.
  Hypothesis Hhash32 : forall x, length (cr_hash cr x) = 32%nat.
  Hypothesis Hnonblank : forall x, all_zero (cr_hash cr x) = false.
  Hypothesis Hhashbytes : forall x, bytes_ok (cr_hash cr x) = true.
  Variable bs : list bytes.
  Hypothesis Hw : writer_fits bs.

  (* any proof whose changeset consists of the writer's nodes (HonestApply2.honest_changeset): block or hash
     section, seek, full or partial upgrade, additional nodes -- no restriction on the shape of the proof *)
  Theorem honest_apply_crash_cuts f pf c d j ev H cs c' w' :
    RCInv cr bs c d H ->
    verifier_says cr c (mkWorld d j ev) pf = Ok cs ->
    honest_changeset cr bs c pf cs ->
    core_apply_proof cr f pf c (mkWorld d j ev) = (c', w', Ok true) ->
    let pk := kp_public (c_keypair c) in
    let H' := hold H (p_block pf) in
    exists pre off fr fl,
      (* the journal: optional data write, entry write, flush group *)
      w_journal w' = rev (pre ++ SW Oplog off fr :: fl) ++ j /\
      length pre = commit_point pf /\ (forall o, In o pre -> sop_store o = Data) /\
      apply_sops d (pre ++ SW Oplog off fr :: fl) = Some (w_disk w') /\
      RCInv cr bs c' (w_disk w') H' /\
      t_length (c_tree c') = (if cs_upgraded cs then cs_length cs else t_length (c_tree c)) /\
      c_keypair c' = c_keypair c /\
      (* every cut: before the entry write the old state, from the entry write on the new state *)
      forall k, exists dk,
        apply_sops d (firstn k (pre ++ SW Oplog off fr :: fl)) = Some dk /\
        if (k <=? commit_point pf)%nat then RCDisk cr bs pk dk H (t_length (c_tree c))
        else RCDisk cr bs pk dk H' (t_length (c_tree c')).
  Proof.
    intros RC Hv Hhon Happ. cbv zeta.
    pose proof RC as [X Hclo].
    pose proof Hhon as (Href & Hblk & Hup & Hnoup & Hsb).
    pose proof (RDInv_RInv cr bs c d H X) as W.
    pose proof W as (Wr & Wf & Wroots & Wbl & Wu & Wfs & Wrl & Wheld).
    pose proof (RCInv_RCDisk cr bs c d H RC) as XD.
    pose proof Hw as [Hw1 Hw2].
    destruct (accepted_gates cr _ _ _ _ _ _ Happ) as (cs0 & Ef & V & Cm & Ht).
    rewrite Hv in V. injection V as <-.
    apply apply_tail_inv_j in Ht. destruct Ht as (bu & c1 & w1 & c2 & w2 & w3 & Hbu & Hlc & Hmf & Hd3 & Hj3).
    cbn [w_disk] in Hbu.
    pose proof Hv as V0. unfold verifier_says in V0. cbn [w_disk] in V0.
    set (r := t_length (c_tree c)) in *.
    set (m := if cs_upgraded cs then cs_length cs else r).
    assert (H64r : 2 * r <= u64_max) by (unfold NODE_SIZE in Hw2; lia).
    assert (HRt : forall x, In x (t_roots (c_tree c)) -> navail (c_tree c) (d_tree d) (n_index x)).
    { intros x Hx. exists x. apply Wrl, Hx. }
    assert (Ecr : cs_roots cs = ref_roots cr bs m).
    { unfold m. destruct (cs_upgraded cs) eqn:Up; [apply (Hup eq_refl)|].
      destruct (verify_proof_good cr _ _ pf _ cs Hclo HRt V0) as (_ & _ & Hsame). rewrite (Hsame Up). exact Wroots. }
    (* 1. the block part: the block is written at the writer's offset *)
    set (bu0 := match p_block pf with Some b => Some (mkBfUpdate false (db_index b) 1) | None => None end).
    set (d1 := match p_block pf with
               | Some b => d_set d Data (f_write (d_data d) (prefix_size bs (db_index b)) (db_value b))
               | None => d
               end).
    set (j1 := match p_block pf with
               | Some b => SW Data (prefix_size bs (db_index b)) (db_value b) :: j
               | None => j
               end).
    assert (Hbp : block_part pf c d cs c (mkWorld d j ev) = (c, mkWorld d1 j1 ev, Ok bu0)).
    { unfold block_part, bu0, d1, j1. destruct (p_block pf) as [b|] eqn:Eb.
      - destruct (Hblk b eq_refl) as (Hleaf & Hb64 & Hval).
        pose proof (offset_value cr bs (c_tree c) (d_tree d) r Hclo Wroots Wbl eq_refl
                      (replica_sound cr bs c d H X) H64r Hw1 (db_index b) cs m Hb64 Href Hleaf Ecr
                      (verify_proof_parent_later cr _ _ pf _ cs V0)) as Hoff.
        rewrite mbind_lift, Hoff. rewrite mbind_emit_SW. unfold ret. reflexivity.
      - unfold ret. reflexivity. }
    rewrite Hbp in Hbu.
    assert (Ec1 : c1 = c) by congruence. assert (Ew1 : w1 = mkWorld d1 j1 ev) by congruence.
    assert (Ebu : bu = bu0) by congruence. subst c1 w1 bu. clear Hbu. rename bu0 into bu.
    assert (Et1 : d_tree d1 = d_tree d) by (unfold d1; destruct (p_block pf); destruct d; reflexivity).
    assert (Eo1 : d_oplog d1 = d_oplog d) by (unfold d1; destruct (p_block pf); destruct d; reflexivity).
    assert (Eb1 : d_bitfield d1 = d_bitfield d) by (unfold d1; destruct (p_block pf); destruct d; reflexivity).
    assert (Ed1 : d_data d1 = match p_block pf with
                              | Some b => f_write (d_data d) (prefix_size bs (db_index b)) (blk bs (db_index b))
                              | None => d_data d
                              end).
    { unfold d1. destruct (p_block pf) as [b|] eqn:Eb; [|reflexivity].
      destruct (Hblk b eq_refl) as (_ & _ & Hval). rewrite Hval. destruct d; reflexivity. }
    (* 2. the state after log_and_commit satisfies the invariant -- directly *)
    destruct (commit_reference_changeset_keeps_RDInv cr Hcrc Hhash32 Hnonblank Hhashbytes bs Hw pf c d d1 H cs bu j1 ev
                c2 w2 RC V0 Hhon eq_refl Et1 Eo1 Eb1 Ed1 Hlc) as (RC2 & Em & Ek2 & _).
    fold r m in Em.
    destruct (log_and_commit_full cr cs bu c _ c2 w2 tt Hlc) as (e & h1 & o' & fr & t' & _ & _ & _ & _ & Ew2).
    cbn [w_disk w_journal w_events] in Ew2.
    set (off := ENTRIES_OFFSET + ol_entries_bytes (c_oplog c)) in *.
    destruct w2 as [d2 j2 ev2]. injection Ew2 as Ed2e Ej2 Eev2. cbn [w_disk] in RC2.
    pose proof RC2 as [X2 Hclo2].
    pose proof (RDInv_RInv cr bs c2 d2 _ X2) as W2.
    assert (Edd2 : d_data d2 = d_data d1) by (rewrite Ed2e; destruct d1; reflexivity).
    (* 3. the flush decision *)
    destruct (maybe_flush_RC cr Hcrc Hhash32 Hnonblank Hhashbytes bs Hw f c2 d2 j2 ev2 _ RC2)
      as (c3 & d3 & fl & Emf & Afl & RC3 & El3 & Ek3 & Cfl).
    rewrite Emf in Hmf. injection Hmf as Ec3 Ew3. subst c3 w3.
    cbn [w_disk w_journal] in Hd3, Hj3.
    (* the held set *)
    assert (EH : forall i, hold H (p_block pf) i = held_after H bu i).
    { intros i. unfold hold, held_after, bu. destruct (p_block pf) as [b|]; [|reflexivity].
      unfold upd_fun. cbn [bu_start bu_length bu_drop negb].
      destruct (N.eqb_spec i (db_index b)) as [->|Ne].
      - destruct (N.leb_spec (db_index b) (db_index b)) as [_|L]; [|lia].
        destruct (N.ltb_spec (db_index b) (db_index b + 1)) as [_|L]; [reflexivity|lia].
      - destruct ((db_index b <=? i) && (i <? db_index b + 1)) eqn:E; [lia|reflexivity]. }
    assert (RCfin : RCInv cr bs c' d3 (hold H (p_block pf))).
    { destruct RC3 as [X3 Hclo3]. split; [apply (RDInv_ext cr bs c' d3 _ _ EH), X3|exact Hclo3]. }
    (* the disk after the entry write, and the flush cuts, for the new state *)
    assert (After : forall k, exists dk, apply_sops d2 (firstn k fl) = Some dk /\
                     RCDisk cr bs (kp_public (c_keypair c)) dk (hold H (p_block pf)) (t_length (c_tree c'))).
    { intros k. destruct (Cfl k) as (dk & Ak & Pk). exists dk. split; [exact Ak|].
      rewrite El3, <- Ek2. apply (RCDisk_ext cr bs _ dk _ _ _ EH), Pk. }
    (* the disk after a data write alone: still the old state *)
    assert (Before1 : RCDisk cr bs (kp_public (c_keypair c)) d1 H r).
    { apply (RCDisk_data cr bs _ d d1 H _ XD Et1 Eo1 Eb1).
      intros i Hi Hlen.
      destruct W2 as (_ & _ & _ & _ & _ & _ & _ & V8).
      assert (Hi2 : bf_get (c_bitfield c2) i = true).
      { destruct X2 as (_ & Hb2 & _). rewrite Hb2, <- EH. unfold hold. destruct (p_block pf); [rewrite Hi; apply orb_true_r|exact Hi]. }
      destruct (V8 i Hi2) as (_ & _ & _ & A4). rewrite <- Edd2. apply A4, Hlen. }
    assert (A2 : apply_sop d1 (SW Oplog off fr) = Some d2) by (cbn [apply_sop d_get]; rewrite Ed2e; reflexivity).
    unfold commit_point. unfold d1, j1 in *. destruct (p_block pf) as [b|] eqn:Epb.
    - (* with a block: data write, entry write, flush group *)
      set (off0 := prefix_size bs (db_index b)) in *.
      set (d1' := d_set d Data (f_write (d_data d) off0 (db_value b))) in *.
      exists [SW Data off0 (db_value b)], off, fr, fl.
      split. { rewrite Hj3, Ej2. cbn [app rev]. rewrite <- !app_assoc. reflexivity. }
      split; [reflexivity|]. split; [intros o [<-|[]]; reflexivity|].
      assert (A1 : apply_sop d (SW Data off0 (db_value b)) = Some d1') by reflexivity.
      split. { cbn [app apply_sops]. rewrite A1, A2, Hd3. exact Afl. }
      split; [rewrite Hd3; exact RCfin|].
      split; [rewrite El3; exact Em|]. split; [rewrite Ek3; exact Ek2|].
      intros [|[|k]].
      + exists d. split; [reflexivity|exact XD].
      + exists d1'. split; [cbn [app firstn apply_sops]; rewrite A1; reflexivity|exact Before1].
      + destruct (After k) as (dk & Ak & Pk). exists dk.
        split; [cbn [app firstn apply_sops]; rewrite A1, A2; exact Ak|exact Pk].
    - (* without a block: entry write, flush group *)
      exists [], off, fr, fl.
      split. { rewrite Hj3, Ej2. cbn [app rev]. rewrite <- !app_assoc. reflexivity. }
      split; [reflexivity|]. split; [intros o []|].
      split. { cbn [app apply_sops]. rewrite A2, Hd3. exact Afl. }
      split; [rewrite Hd3; exact RCfin|].
      split; [rewrite El3; exact Em|]. split; [rewrite Ek3; exact Ek2|].
      intros [|k].
      + exists d. split; [reflexivity|exact XD].
      + destruct (After k) as (dk & Ak & Pk). exists dk.
        split; [cbn [app firstn apply_sops]; rewrite A2; exact Ak|exact Pk].
  Qed.

  (* the same with the conclusion in exactly the shape of ReplicaDisk4.apply_crash_cuts (pinned as
     C02_proof_application_every_cut): RDInv / RDisk, no escape clause *)
  Corollary honest_apply_crash_cuts_RDisk f pf c d j ev H cs c' w' :
    RCInv cr bs c d H ->
    verifier_says cr c (mkWorld d j ev) pf = Ok cs ->
    honest_changeset cr bs c pf cs ->
    core_apply_proof cr f pf c (mkWorld d j ev) = (c', w', Ok true) ->
    let pk := kp_public (c_keypair c) in
    let H' := hold H (p_block pf) in
    exists pre off fr fl,
      w_journal w' = rev (pre ++ SW Oplog off fr :: fl) ++ j /\
      length pre = commit_point pf /\ (forall o, In o pre -> sop_store o = Data) /\
      apply_sops d (pre ++ SW Oplog off fr :: fl) = Some (w_disk w') /\
      RDInv cr bs c' (w_disk w') H' /\
      forall k, exists dk,
        apply_sops d (firstn k (pre ++ SW Oplog off fr :: fl)) = Some dk /\
        if (k <=? commit_point pf)%nat then RDisk cr bs pk dk H (t_length (c_tree c))
        else RDisk cr bs pk dk H' (t_length (c_tree c')).
  Proof.
    intros RC Hv Hhon Happ. cbv zeta.
    destruct (honest_apply_crash_cuts f pf c d j ev H cs c' w' RC Hv Hhon Happ)
      as (pre & off & fr & fl & Hj & Hpre & Hdata & Ha & [X' _] & _ & _ & Hcuts).
    exists pre, off, fr, fl. repeat (split; [assumption|]).
    intros k. destruct (Hcuts k) as (dk & Ak & Pk). exists dk. split; [exact Ak|].
    destruct (k <=? commit_point pf)%nat; apply RCDisk_RDisk, Pk.
  Qed.
End HonestCuts.

(* ====================================================================================== *)
(* E. One replication round (premises of HonestApply3.honest_round), cut anywhere           *)
(* ====================================================================================== *)

Section RoundCuts.
  Variable cr : crypto.
  Hypothesis Hcrc : crc_ok cr.
  Hypothesis Hhash32 : forall x, length (cr_hash cr x) = 32%nat.
  Hypothesis Hnonblank : forall x, all_zero (cr_hash cr x) = false.
  Hypothesis Hhashbytes : forall x, bytes_ok (cr_hash cr x) = true.
  Variable bs : list bytes.               (* the writer's whole log *)
  Hypothesis Hw : writer_fits bs.

  (* what the first half of the proof of honest_round establishes: the writer serves the request, the replica's
     verifier accepts the proof, the changeset is honest and passes the gates *)
  Lemma honest_round_changeset cw dw bw sg jw evw c d j ev H rq :
    let w := N.of_nat (length bw) in
    let pk := kp_public (c_keypair c) in
    writer_at cr bs cw dw bw pk sg ->
    RCInv cr bs c d H ->
    t_length (c_tree c) <= w ->
    wf_request bs (c_tree c) (d_tree d) w rq ->
    (forall vp, create_valueless_proof (c_tree cw) (d_tree dw) (rq_block rq) (rq_hash rq) (rq_seek rq) (rq_upgrade rq) = Ok vp ->
                frame_guard cr c d (vp_to_proof vp (rq_value bs rq))) ->
    exists pf cs,
      core_create_proof (rq_block rq) (rq_hash rq) (rq_seek rq) (rq_upgrade rq) cw (mkWorld dw jw evw)
        = (cw, mkWorld dw jw evw, Ok (Some pf)) /\
      p_fork pf = t_fork (c_tree c) /\
      verifier_says cr c (mkWorld d j ev) pf = Ok cs /\
      commitable (c_tree c) cs = true /\
      honest_changeset cr bs c pf cs /\
      frame_guard cr c d pf /\
      (forall i, hold H (p_block pf) i = held_rq H rq i) /\
      commit_point pf = (match rq_block rq with Some _ => 1%nat | None => 0%nat end) /\
      (if cs_upgraded cs then cs_length cs else t_length (c_tree c)) =
      (match rq_upgrade rq with Some _ => w | None => t_length (c_tree c) end).
  Proof.
    intros w pk ((rest & Ebs) & Ww & Hsg & Hs64 & Hsgb & Hver) RC Hrw Hwf Hfr.
    pose proof RC as [X Hclo].
    pose proof Ww as (HL & HB & HF & HR & Hlookw & Hun & Hbf & Hcg & Hdat & Hs & Hn). fold w in HL, HR, Hlookw.
    pose proof Hw as [Hw1 Hw2].
    assert (Hwl : w <= N.of_nat (length bs)) by (unfold w; rewrite Ebs, app_length; lia).
    assert (H64 : 2 * w <= u64_max) by (unfold NODE_SIZE in Hw2; lia).
    assert (Hlook : lookups cr (c_tree cw) (d_tree dw) bs w).
    { intros d0 o0 Hd. rewrite (Hlookw d0 o0 Hd), Ebs. f_equal. symmetry. apply ref_node_app. exact Hd. }
    assert (Hroots : t_roots (c_tree cw) = ref_roots cr bs w).
    { rewrite HR, Ebs. symmetry. apply ref_roots_app. unfold w. lia. }
    assert (Hver' : cr_verify cr pk (signable (tree_hash cr (ref_roots cr bs w)) w (t_fork (c_tree cw))) sg = true)
      by (rewrite HF; exact Hver).
    pose proof (RDInv_RInv cr bs c d H X) as W.
    pose proof W as (Wr & Wf & Wroots & Wbl & Wu & Wfs & Wrl & Wheld).
    destruct (wellformed_request_accepted cr bs Hw1 (c_tree cw) (d_tree dw) w sg Hlook HL Hroots Hsg H64
                (c_tree c) (d_tree d) (t_length (c_tree c)) Wroots eq_refl Wbl Hrw (replica_rep cr bs c d H X)
                pk Hs64 Hver' rq Hwf) as (vp & cs & Hc & Vf & Bsh & Hv & Hcm & Href & Hout & Hdel).
    assert (Hblt : forall b, rq_block rq = Some b -> rb_index b < w).
    { intros [i k] Eb. destruct Hwf as [Hup Hnode]. rewrite Eb in Hnode.
      destruct (rq_hash rq) as [hh|]; [destruct Hnode|]. cbn [rb_index rb_nodes] in Hnode |- *.
      destruct Hnode as [Hhi _]. rewrite p2_0 in Hhi.
      unfold rq_target in Hhi. unfold wf_upgrade in Hup. destruct (rq_upgrade rq) as [[s l]|]; cbn [ru_start ru_length] in *; lia. }
    assert (Eval : rq_value bw rq = rq_value bs rq).
    { unfold rq_value. destruct (rq_block rq) as [b|] eqn:Eb; [|reflexivity]. f_equal. rewrite Ebs. symmetry.
      apply blk_app_l. apply (Hblt b eq_refl). }
    set (pf := vp_to_proof vp (rq_value bs rq)).
    assert (Hpb : match rq_block rq with
                  | Some b => exists ns, p_block pf = Some (mkDataBlock (rb_index b) (blk bs (rb_index b)) ns)
                  | None => p_block pf = None
                  end).
    { unfold pf, vp_to_proof, rq_value, block_shape in *. cbn [p_block].
      destruct (rq_block rq) as [b|]; [destruct Bsh as (ns & ->); eauto|rewrite Bsh; reflexivity]. }
    assert (Hheld : forall i, hold H (p_block pf) i = held_rq H rq i).
    { intros i. unfold hold, held_rq. destruct (rq_block rq) as [b|]; [destruct Hpb as (ns & ->); reflexivity|rewrite Hpb; reflexivity]. }
    pose proof (create_upgrade_shape _ _ _ _ _ _ _ Hc) as Hshape.
    assert (V : verifier_says cr c (mkWorld d j ev) pf = Ok cs) by exact Hv.
    assert (Hhon : honest_changeset cr bs c pf cs).
    { split; [exact Href|]. split; [|split; [|split]].
      - intros b Eb. unfold delivered in Hdel. destruct (rq_block rq) as [rb|] eqn:Erb.
        + destruct Hpb as (ns & Epb). rewrite Epb in Eb. injection Eb as <-. cbn [db_index db_value].
          split; [exact Hdel|]. split; [|reflexivity]. pose proof (Hblt rb eq_refl). lia.
        + rewrite Hpb in Eb. discriminate Eb.
      - intros Up. unfold outcome in Hout. destruct (rq_upgrade rq) as [u|].
        + destruct Hout as (_ & R & L & B & F & _ & A). rewrite A, L, R, B, F, HF. repeat split; try reflexivity; assumption.
        + destruct Hout as [U _]. congruence.
      - apply (upgrade_none_not_upgraded cr _ _ pf _ cs Hv).
      - unfold pf, vp_to_proof. cbn [p_upgrade]. destruct (rq_upgrade rq) as [u|].
        + destruct Hshape as (ns & add & sg' & -> & Esg). cbn [du_signature]. rewrite Hsg in Esg. injection Esg as <-. exact Hsgb.
        + rewrite Hshape. exact I. }
    exists pf, cs.
    split; [rewrite (writer_serves cr cw dw bw jw evw rq vp Ww Hc Bsh Hblt), Eval; reflexivity|].
    split; [unfold pf, vp_to_proof; cbn [p_fork]; rewrite Vf, HF, Wf; reflexivity|].
    split; [exact V|]. split; [exact Hcm|]. split; [exact Hhon|]. split; [apply (Hfr vp Hc)|].
    split; [exact Hheld|]. split.
    - unfold commit_point. destruct (rq_block rq) as [b|]; [destruct Hpb as (ns & ->); reflexivity|rewrite Hpb; reflexivity].
    - unfold outcome in Hout. destruct (rq_upgrade rq) as [u|].
      + destruct Hout as (U & _ & L & _). rewrite U, L. reflexivity.
      + destruct Hout as [U _]. rewrite U. reflexivity.
  Qed.

  (* the number of storage operations of a round before its commit point *)
  Definition rq_commit_point (rq : request) : nat := match rq_block rq with Some _ => 1%nat | None => 0%nat end.

  (* GOAL 1: an honest round of ANY request class -- the application is accepted, its journal is
     [optional data write; entry write; flush group], and every prefix of it leaves a crash disk of the state
     before (cuts up to the commit point) or after (from the entry write on).  No escape clause. *)
  Theorem honest_round_crash_cuts f cw dw bw sg jw evw c d j ev H rq :
    let w := N.of_nat (length bw) in
    let pk := kp_public (c_keypair c) in
    writer_at cr bs cw dw bw pk sg ->
    RCInv cr bs c d H ->
    t_length (c_tree c) <= w ->
    wf_request bs (c_tree c) (d_tree d) w rq ->
    (forall vp, create_valueless_proof (c_tree cw) (d_tree dw) (rq_block rq) (rq_hash rq) (rq_seek rq) (rq_upgrade rq) = Ok vp ->
                frame_guard cr c d (vp_to_proof vp (rq_value bs rq))) ->
    let H' := held_rq H rq in
    let r' := match rq_upgrade rq with Some _ => w | None => t_length (c_tree c) end in
    exists pf c' w' pre off fr fl,
      core_create_proof (rq_block rq) (rq_hash rq) (rq_seek rq) (rq_upgrade rq) cw (mkWorld dw jw evw)
        = (cw, mkWorld dw jw evw, Ok (Some pf)) /\
      core_apply_proof cr f pf c (mkWorld d j ev) = (c', w', Ok true) /\
      (* the journal: optional data write, entry write, flush group *)
      w_journal w' = rev (pre ++ SW Oplog off fr :: fl) ++ j /\
      length pre = rq_commit_point rq /\ (forall o, In o pre -> sop_store o = Data) /\
      apply_sops d (pre ++ SW Oplog off fr :: fl) = Some (w_disk w') /\
      RCInv cr bs c' (w_disk w') H' /\ t_length (c_tree c') = r' /\ c_keypair c' = c_keypair c /\
      (* every cut *)
      forall k, exists dk,
        apply_sops d (firstn k (pre ++ SW Oplog off fr :: fl)) = Some dk /\
        if (k <=? rq_commit_point rq)%nat then RCDisk cr bs pk dk H (t_length (c_tree c))
        else RCDisk cr bs pk dk H' r'.
  Proof.
    intros w pk Hwa RC Hrw Hwf Hfr H' r'.
    destruct (honest_round_changeset cw dw bw sg jw evw c d j ev H rq Hwa RC Hrw Hwf Hfr)
      as (pf & cs & Hcreate & Ef & V & Cm & Hhon & Hframe & Hheld & Hcp & Hlen).
    destruct (apply_tail_honest cr Hcrc Hhash32 Hnonblank Hhashbytes bs Hw f pf c d j ev H cs RC Ef V Cm Hhon Hframe)
      as (c' & w' & Hrun & _).
    destruct (honest_apply_crash_cuts cr Hcrc Hhash32 Hnonblank Hhashbytes bs Hw f pf c d j ev H cs c' w' RC V Hhon Hrun)
      as (pre & off & fr & fl & Hj & Hpre & Hdata & Ha & RC' & El & Ek & Hcuts).
    exists pf, c', w', pre, off, fr, fl.
    split; [exact Hcreate|]. split; [exact Hrun|]. split; [exact Hj|].
    split; [unfold rq_commit_point; rewrite <- Hcp; exact Hpre|]. split; [exact Hdata|]. split; [exact Ha|].
    split; [apply (AcceptAllHist.RCInv_ext cr bs c' (w_disk w') (hold H (p_block pf))); [intros i; symmetry; apply Hheld|exact RC']|].
    assert (El' : t_length (c_tree c') = r') by (rewrite El; exact Hlen).
    split; [exact El'|]. split; [exact Ek|].
    intros k. destruct (Hcuts k) as (dk & Ak & Pk). exists dk. split; [exact Ak|].
    unfold rq_commit_point. rewrite <- Hcp.
    destruct (k <=? commit_point pf)%nat; [exact Pk|].
    rewrite <- El'. apply (RCDisk_ext cr bs _ dk (hold H (p_block pf))); [intros i; symmetry; apply Hheld|exact Pk].
  Qed.
End RoundCuts.

Print Assumptions required_write_sub.
Print Assumptions RCInv_RCDisk.
Print Assumptions maybe_flush_RC.
Print Assumptions honest_apply_crash_cuts.
Print Assumptions honest_apply_crash_cuts_RDisk.
Print Assumptions honest_round_changeset.
Print Assumptions honest_round_crash_cuts.

(* CacheModel.v — C14, executable part: the tree layer and the core with the optional node cache.

   Rust (cargo feature `cache`): MerkleTree holds node_cache : Option<moka::sync::Cache<u64, Node>>.
   Every place where the crate touches it (src/tree/merkle_tree.rs, src/common/cache.rs):
     READ   MerkleTree::node (hence required_node / optional_node): the cache is consulted FIRST, before
            the unflushed map, the incoming infos and the store; a hit is returned as Some(node) without
            looking at node.blank.
     WRITE  MerkleTree::open -> CacheOptions::to_node_cache(roots.clone()): a NEW cache is created and
            every root read from the store is inserted (no blank test here);
            MerkleTree::infos_to_nodes: every node read from the store that is not blank
            (`if !node.blank`) is inserted; a miss (info.miss) or a blank record is never inserted.
     NEVER  commit / commit_truncation / add_node / flush_nodes / flush_truncation do not touch the
            cache: committed nodes are not added, and no entry is ever invalidated by the crate.
     EVICT  moka evicts by capacity (weigher: 88 bytes per node) and by time-to-live / time-to-idle,
            at any moment it likes.
   Model: the cache state is threaded through the lookups; before EVERY lookup an eviction oracle
   [ev tick cache] may replace the cache by any sub-map of it (Cache.submap). The Either<instructions,
   value> protocol is collapsed as in Merkle.v: a node that is not in the unflushed map is read from
   the tree store directly, and inserted at that moment when it is not blank. (In the crate the
   insertion happens when the operation is re-run with the infos; since eviction is arbitrary and
   comes before every lookup, "inserted later" and "inserted and evicted at once" coincide.)

   Every definition below is the definition of the same name (without the suffix _c) of Merkle.v or
   Core.v, with the cache-state monad in place of the result monad; the pure parts are lifted. *)
From HC Require Import Base NMap Codec Crypto FlatTree Storage Bitfield Oplog Merkle Core Cache.

(* the cache, the number of lookups made so far (the oracle's clock), the number of hits (a ghost
   counter, used only to show that the cache is really consulted in the examples) *)
Record cst := mkCst { k_cache : nmap node; k_tick : nat; k_hits : nat }.

(* the eviction oracle: what is left of the cache at the [tick]-th lookup *)
Definition evo := nat -> nmap node -> nmap node.
Definition evictor (ev : evo) : Prop := forall k c, submap (ev k c) c.

(* ---------- the cache-state monad over results ---------- *)
Definition CM (A : Type) := cst -> cst * res A.
Definition cret {A} (a : A) : CM A := fun st => (st, Ok a).
Definition clift {A} (r : res A) : CM A := fun st => (st, r).
Definition cbind {A B} (m : CM A) (f : A -> CM B) : CM B :=
  fun st => match m st with
            | (st', Ok a) => f a st'
            | (st', Err e) => (st', Err e)
            | (st', Panic s) => (st', Panic s)
            | (st', OutOfFuel) => (st', OutOfFuel)
            end.

Notation "x <~ m ;~ k" := (cbind m (fun x => k))
  (at level 61, m at next level, right associativity).
Notation "' p <~ m ;~ k" := (cbind m (fun p => k))
  (at level 61, p pattern, m at next level, right associativity).

Section Cached.
  Variable ev : evo.

  (* MerkleTree::node with the cache: evict, look in the cache, else the uncached lookup; a node that
     was read from the store (not from the unflushed map) and is not blank is inserted. node_get
     answers Ok (Some n) only for a non-blank n, so a miss is never inserted. *)
  Definition node_get_c (t : mtree) (tf : file) (index : N) (allow_miss : bool) : CM (option node) :=
    fun st =>
      let cache := ev (k_tick st) (k_cache st) in
      match nm_get index cache with
      | Some n => (mkCst cache (S (k_tick st)) (S (k_hits st)), Ok (Some n))
      | None =>
          let r := node_get t tf index allow_miss in
          let cache' := match nm_get index (t_unflushed t), r with
                        | None, Ok (Some n) => nm_set index n cache
                        | _, _ => cache
                        end in
          (mkCst cache' (S (k_tick st)) (k_hits st), r)
      end.

  Definition required_node_c (t : mtree) (tf : file) (index : N) : CM node :=
    r <~ node_get_c t tf index false ;~
    match r with Some n => cret n | None => clift (Err InvalidOperation) end.

  Definition optional_node_c (t : mtree) (tf : file) (index : N) : CM (option node) :=
    node_get_c t tf index true.

  (* MerkleTree::open: the tree, and the new cache holding every root *)
  Definition tree_open_c (ht : header_tree) (tf : file) (tick : nat) : cst * res mtree :=
    match tree_open ht tf with
    | Ok t => (mkCst (add_nodes nm_empty (t_roots t)) tick 0, Ok t)
    | r => (mkCst nm_empty tick 0, r)
    end.

  (* ---------- byte offsets ---------- *)

  Fixpoint offset_descend_c (fuel : nat) (t : mtree) (tf : file) (it : fiter) (index offset : N) : CM N :=
    match fuel with
    | O => clift OutOfFuel
    | S f =>
        if it_index it =? index then cret offset
        else if index <? it_index it then offset_descend_c f t tf (it_left_child it) index offset
        else
          let lc := it_left_child it in
          n <~ required_node_c t tf (it_index lc) ;~
          offset_descend_c f t tf (it_sibling lc) index (offset + n_length n)
    end.

  Fixpoint offset_roots_c (t : mtree) (tf : file) (roots : list node) (index head offset : N) : CM N :=
    match roots with
    | [] => clift (Err BadArgument)
    | r :: rest =>
        d <~ clift (sub64 "root.index - head" (n_index r) head) ;~
        let head' := head + 2 * (d + 1) in
        if head' <=? index then offset_roots_c t tf rest index head' (offset + n_length r)
        else offset_descend_c CLIMB t tf (it_new (n_index r)) index offset
    end.

  Definition byte_offset_from_nodes_c (t : mtree) (tf : file) (index : N) : CM N :=
    let index := if N.odd index then ft_left_span index else index in
    offset_roots_c t tf (t_roots t) index 0 0.

  Definition byte_offset_c (t : mtree) (tf : file) (hi : N) : CM N :=
    index <~ clift (validate_hypercore_index t hi) ;~ byte_offset_from_nodes_c t tf index.

  Definition byte_range_c (t : mtree) (tf : file) (hi : N) : CM (N * N) :=
    index <~ clift (validate_hypercore_index t hi) ;~
    n <~ required_node_c t tf index ;~
    off <~ byte_offset_from_nodes_c t tf index ;~
    cret (off, n_length n).

  Definition byte_offset_in_changeset_c (t : mtree) (tf : file) (hi : N) (c : changeset) : CM N :=
    if t_length t =? hi then cret (t_byte_length t)
    else
      index <~ clift (mul64 "2 * hypercore_index" 2 hi) ;~
      '(tree_offset, parent) <~ clift (cs_path_walk (cs_nodes c) (it_new index) 0 false None) ;~
      match parent with
      | Some p =>
          match position_of (n_index p) (cs_roots c) 0 with
          | Some r => cret (tree_offset + sumN (map n_length (firstn r (cs_roots c))))
          | None => off <~ byte_offset_from_nodes_c t tf (n_index p) ;~ cret (off + tree_offset)
          end
      | None => off <~ byte_offset_from_nodes_c t tf index ;~ cret (off + tree_offset)
      end.

  (* ---------- replay: truncate ---------- *)

  Fixpoint truncate_roots_c (t : mtree) (tf : file) (full : list N) (roots : list node) (i : nat)
    : CM (list node) :=
    match full with
    | [] => cret (firstn i roots)
    | r :: rest =>
        match nth_error roots i with
        | Some n =>
            if n_index n =? r then truncate_roots_c t tf rest roots (S i)
            else n' <~ required_node_c t tf r ;~
                 truncate_roots_c t tf rest (firstn i roots ++ [n']) (S i)
        | None => n' <~ required_node_c t tf r ;~
                  truncate_roots_c t tf rest (firstn i roots ++ [n']) (S i)
        end
    end.

  Definition tree_truncate_c (t : mtree) (tf : file) (length fork : N) : CM changeset :=
    let full := ft_full_roots (2 * length) in
    roots <~ truncate_roots_c t tf full (t_roots t) 0 ;~
    cret (mkCs length length (sumN (map n_length roots)) 0 fork roots [] None None true
               (t_length t) (t_fork t)).

  (* ---------- missing nodes ---------- *)

  Fixpoint missing_loop_c (fuel : nat) (t : mtree) (tf : file) (it : fiter) (head count : N) : CM N :=
    match fuel with
    | O => clift OutOfFuel
    | S f =>
        if it_contains it head then cret count
        else
          r <~ optional_node_c t tf (it_index it) ;~
          match r with
          | None => missing_loop_c f t tf (it_parent it) head (count + 1)
          | Some _ => cret count
          end
    end.

  Definition missing_nodes_c (t : mtree) (tf : file) (index : N) : CM N :=
    let head := 2 * t_length t in
    let it := it_new index in
    if head <=? it_right_span_index it then cret 0
    else missing_loop_c CLIMB t tf it head 0.

  (* ---------- proof creation ---------- *)

  Fixpoint seek_trusted_loop_c (fuel : nat) (t : mtree) (tf : file) (it : fiter) (bytes : N) : CM N :=
    match fuel with
    | O => clift OutOfFuel
    | S f =>
        if N.even (it_index it) then cret (it_index it)
        else
          let lc := it_left_child it in
          r <~ optional_node_c t tf (it_index lc) ;~
          match r with
          | Some n =>
              if n_length n =? bytes then cret (it_index lc)
              else if bytes <? n_length n then seek_trusted_loop_c f t tf lc bytes
              else seek_trusted_loop_c f t tf (it_sibling lc) (bytes - n_length n)
          | None => cret (it_index (it_parent lc))
          end
    end.

  Definition seek_trusted_tree_c (t : mtree) (tf : file) (root bytes : N) : CM N :=
    if bytes =? 0 then cret root else seek_trusted_loop_c CLIMB t tf (it_new root) bytes.

  Fixpoint seek_from_head_loop_c (t : mtree) (tf : file) (roots : list N) (bytes head : N) : CM N :=
    match roots with
    | [] => cret head
    | r :: rest =>
        n <~ required_node_c t tf r ;~
        if bytes =? n_length n then cret r
        else if n_length n <? bytes then seek_from_head_loop_c t tf rest (bytes - n_length n) head
        else seek_trusted_tree_c t tf r bytes
    end.

  Definition seek_from_head_c (t : mtree) (tf : file) (head bytes : N) : CM N :=
    seek_from_head_loop_c t tf (ft_full_roots head) bytes head.

  Definition seek_untrusted_tree_c (t : mtree) (tf : file) (root bytes : N) : CM N :=
    offset <~ byte_offset_from_nodes_c t tf root ;~
    if bytes <? offset then clift (Err InvalidOperation)
    else if offset =? bytes then cret root
    else
      let bytes := bytes - offset in
      n <~ required_node_c t tf root ;~
      if n_length n <=? bytes then clift (Err InvalidOperation)
      else seek_trusted_tree_c t tf root bytes.

  Fixpoint seek_proof_loop_c (fuel : nat) (t : mtree) (tf : file) (it : fiter) (root : N)
           (acc : list node) : CM (list node) :=
    match fuel with
    | O => clift OutOfFuel
    | S f =>
        if it_index it =? root then cret (rev acc)
        else let s := it_sibling it in
             n <~ required_node_c t tf (it_index s) ;~
             seek_proof_loop_c f t tf (it_parent s) root (n :: acc)
    end.

  Definition seek_proof_c (t : mtree) (tf : file) (seek_root root : N) (p : local_proof)
    : CM local_proof :=
    n <~ required_node_c t tf seek_root ;~
    l <~ seek_proof_loop_c CLIMB t tf (it_new seek_root) root [n] ;~
    cret (mkLp (Some l) (lp_nodes p) (lp_upgrade p) (lp_additional p)).

  Fixpoint block_proof_loop_c (fuel : nat) (t : mtree) (tf : file) (it : fiter) (root : N)
           (is_seek : bool) (seek_root : N) (p : local_proof) (acc : list node)
    : CM (local_proof * list node) :=
    match fuel with
    | O => clift OutOfFuel
    | S f =>
        if it_index it =? root then cret (p, rev acc)
        else
          let s := it_sibling it in
          if is_seek && it_contains s seek_root && negb (it_index s =? seek_root) then
            p' <~ seek_proof_c t tf seek_root (it_index s) p ;~
            block_proof_loop_c f t tf (it_parent s) root is_seek seek_root p' acc
          else
            n <~ required_node_c t tf (it_index s) ;~
            block_proof_loop_c f t tf (it_parent s) root is_seek seek_root p (n :: acc)
    end.

  Definition block_and_seek_proof_c (t : mtree) (tf : file) (ix : option indexed) (is_seek : bool)
             (seek_root root : N) (p : local_proof) : CM local_proof :=
    match ix with
    | Some i =>
        if negb (it_contains (it_new root) (ix_index i)) then clift (Err InvalidOperation) else
        acc0 <~ (if ix_value i then cret []
                 else n <~ required_node_c t tf (ix_index i) ;~ cret [n]) ;~
        '(p', l) <~ block_proof_loop_c CLIMB t tf (it_new (ix_index i)) root is_seek seek_root p acc0 ;~
        cret (mkLp (lp_seek p') (Some l) (lp_upgrade p') (lp_additional p'))
    | None => seek_proof_c t tf seek_root root p
    end.

  Fixpoint connect_loop_c (fuel : nat) (t : mtree) (tf : file) (it : fiter) (root target : N)
           (ix : option indexed) (is_seek : bool) (sub_tree : N) (with_sub : bool)
           (p : local_proof) (acc : list node) : CM (local_proof * list node) :=
    match fuel with
    | O => clift OutOfFuel
    | S f =>
        if it_index it =? root then cret (p, acc)
        else
          let s := it_sibling it in
          '(p', acc') <~
            (if target <? it_index s then
               if with_sub && (match lp_nodes p, lp_seek p with None, None => true | _, _ => false end)
                  && it_contains s sub_tree
               then p' <~ block_and_seek_proof_c t tf ix is_seek sub_tree (it_index s) p ;~ cret (p', acc)
               else n <~ required_node_c t tf (it_index s) ;~ cret (p, acc ++ [n])
             else cret (p, acc)) ;~
          connect_loop_c f t tf (it_parent s) root target ix is_seek sub_tree with_sub p' acc'
    end.

  Fixpoint upgrade_loop_c (fuel : nat) (t : mtree) (tf : file) (it : fiter) (from to : N)
           (ix : option indexed) (is_seek : bool) (sub_tree : N) (with_sub : bool)
           (has_upgrade : bool) (p : local_proof) (acc : list node)
    : CM (local_proof * list node * bool) :=
    match fuel with
    | O => clift OutOfFuel
    | S f =>
        let '(found, it) := it_full_root it to in
        if negb found then cret (p, acc, has_upgrade)
        else if it_index it + it_factor it / 2 <? from then
          upgrade_loop_c f t tf (it_next_tree it) from to ix is_seek sub_tree with_sub has_upgrade p acc
        else if negb has_upgrade && it_contains it (from - 2) then
          let root := it_index it in
          let target := from - 2 in
          '(p', acc') <~ connect_loop_c CLIMB t tf (it_new target) root target ix is_seek sub_tree
                           with_sub p acc ;~
          upgrade_loop_c f t tf (it_next_tree it) from to ix is_seek sub_tree with_sub true p' acc'
        else if with_sub && (match lp_nodes p, lp_seek p with None, None => true | _, _ => false end)
                && it_contains it sub_tree then
          p' <~ block_and_seek_proof_c t tf ix is_seek sub_tree (it_index it) p ;~
          upgrade_loop_c f t tf (it_next_tree it) from to ix is_seek sub_tree with_sub true p' acc
        else
          n <~ required_node_c t tf (it_index it) ;~
          upgrade_loop_c f t tf (it_next_tree it) from to ix is_seek sub_tree with_sub true p (acc ++ [n])
    end.

  Definition upgrade_proof_c (t : mtree) (tf : file) (ix : option indexed) (is_seek : bool)
             (from to sub_tree : N) (p : local_proof) : CM local_proof :=
    '(p', acc, has) <~ upgrade_loop_c CLIMB t tf (it_new 0) from to ix is_seek sub_tree true
                         (from =? 0) p [] ;~
    cret (if has then mkLp (lp_seek p') (lp_nodes p') (Some acc) (lp_additional p') else p').

  Definition additional_upgrade_proof_c (t : mtree) (tf : file) (from to : N) (p : local_proof)
    : CM local_proof :=
    '(p', acc, has) <~ upgrade_loop_c CLIMB t tf (it_new 0) from to None false 0 false
                         (from =? 0) p [] ;~
    cret (if has then mkLp (lp_seek p') (lp_nodes p') (lp_upgrade p') (Some acc) else p').

  Definition create_valueless_proof_c (t : mtree) (tf : file)
             (block hash : option req_block) (seek : option req_seek) (upgrade : option req_upgrade)
    : CM vproof :=
    let head := 2 * t_length t in
    '(from, to) <~ clift (match upgrade with
                    | Some u => f <- mul64 "upgrade.start * 2" (ru_start u) 2 ;;
                                l2 <- mul64 "upgrade.length * 2" (ru_length u) 2 ;;
                                tt <- add64 "from + length * 2" f l2 ;; Ok (f, tt)
                    | None => Ok (0, head)
                    end) ;~
    ixo <~ clift (normalize_indexed block hash) ;~
    if (to <=? from) || (head <? to) then clift (Err InvalidOperation) else
    let is_seek := match seek with Some _ => true | None => false end in
    let is_up := match upgrade with Some _ => true | None => false end in
    '(sub_tree, p, untrusted) <~
      (match ixo with
       | Some ix =>
           if is_seek && is_up && (from <=? ix_index ix) then clift (Err InvalidOperation) else
           let untrusted := match upgrade with
                            | Some u => ix_last ix <? ru_start u
                            | None => true
                            end in
           if untrusted then
             sub <~ clift (nodes_to_root (ix_index ix) (ix_nodes ix) to) ;~
             seek_root <~ (match seek with
                           | Some s => seek_untrusted_tree_c t tf sub (rs_bytes s)
                           | None => cret head
                           end) ;~
             p <~ block_and_seek_proof_c t tf (Some ix) is_seek seek_root sub lp_empty ;~
             cret (sub, p, true)
           else cret (if is_up then ix_index ix else head, lp_empty, false)
       | None => cret (head, lp_empty, false)
       end) ;~
    sub_tree <~ (if negb untrusted
                 then match seek with
                      | Some s => seek_from_head_c t tf to (rs_bytes s)
                      | None => cret sub_tree
                      end
                 else cret sub_tree) ;~
    p <~ (if is_up then
            p1 <~ upgrade_proof_c t tf ixo is_seek from to sub_tree p ;~
            if to <? head then additional_upgrade_proof_c t tf to head p1 else cret p1
          else cret p) ;~
    '(dblock, dhash) <~ clift
      (match block, hash with
       | Some b, _ => match lp_nodes p with
                      | Some ns => Ok (Some (mkDataHash (rb_index b) ns), None)
                      | None => Err InvalidOperation
                      end
       | None, Some h => match lp_nodes p with
                         | Some ns => Ok (None, Some (mkDataHash (rb_index h) ns))
                         | None => Err InvalidOperation
                         end
       | None, None => Ok (None, None)
       end) ;~
    let dseek := match seek, lp_seek p with
                 | Some s, Some ns => Some (mkDataSeek (rs_bytes s) ns)
                 | _, _ => None
                 end in
    dup <~ clift (match upgrade with
            | Some u =>
                match lp_upgrade p, t_signature t with
                | Some ns, Some sg =>
                    Ok (Some (mkDataUpgrade (ru_start u) (ru_length u) ns
                                (match lp_additional p with Some a => a | None => [] end) sg))
                | None, _ => Panic "nodes need to be set"
                | _, None => Panic "signature needs to be set"
                end
            | None => Ok None
            end) ;~
    cret (mkVproof (t_fork t) dblock dhash dseek dup).

  (* ---------- proof verification: the only stored node read is the one under the proof's root ---------- *)

  Definition verify_proof_c (cr : crypto) (t : mtree) (tf : file) (pf : proof) (pk : bytes) : CM changeset :=
    let c := tree_changeset t in
    '(root, c1) <~ clift (verify_tree cr (p_block pf) (p_hash pf) (p_seek pf) c) ;~
    '(root2, c2) <~ clift
      (match p_upgrade pf with
       | Some u => '(consumed, c') <- verify_upgrade cr (p_fork pf) u root pk c1 ;;
                   Ok (if consumed then None else root, c')
       | None => Ok (root, c1)
       end) ;~
    match root2 with
    | Some r =>
        n <~ required_node_c t tf (n_index r) ;~
        if bytes_eqb (n_hash n) (n_hash r) then cret c2 else clift (Err InvalidChecksum)
    | None => cret c2
    end.

  (* ====================================================================================== *)
  (* The core with the cache                                                                 *)
  (* ====================================================================================== *)

  (* cache state + the state-and-error monad of Core.v *)
  Definition MC (A : Type) := cst -> core -> world -> cst * (core * world * res A).

  (* a computation that does not look nodes up *)
  Definition liftM {A} (m : M A) : MC A := fun st c w => (st, m c w).
  (* a tree computation through the cache *)
  Definition liftC {A} (f : CM A) : MC A := fun st c w => let '(st', r) := f st in (st', (c, w, r)).
  Definition mcbind {A B} (m : MC A) (f : A -> MC B) : MC B :=
    fun st c w => match m st c w with
                  | (st', (c', w', Ok a)) => f a st' c' w'
                  | (st', (c', w', Err e)) => (st', (c', w', Err e))
                  | (st', (c', w', Panic s)) => (st', (c', w', Panic s))
                  | (st', (c', w', OutOfFuel)) => (st', (c', w', OutOfFuel))
                  end.
End Cached.

Notation "x <== m ;== k" := (mcbind m (fun x => k))
  (at level 61, m at next level, right associativity).
Notation "' p <== m ;== k" := (mcbind m (fun p => k))
  (at level 61, p pattern, m at next level, right associativity).
Notation "m ;== k" := (mcbind m (fun _ => k))
  (at level 61, right associativity).

Section CachedCore.
  Variable cr : crypto.
  Variable ev : evo.

  (* Core.core_get *)
  Definition core_get_c (index : N) : MC (option bytes) :=
    c <== liftM get_core ;==
    if negb (bf_get (c_bitfield c) index) then liftM (send (EvGet index) ;;; ret None)
    else
      d <== liftM get_disk ;==
      '(off, l) <== liftC (byte_range_c ev (c_tree c) (d_tree d) index) ;==
      liftM (if l =? 0 then ret (Some [])
             else match f_read (d_data d) off l with
                  | Some data => ret (Some data)
                  | None => lift (Err InvalidOperation)
                  end).

  (* Core.core_clear: the node lookups come before the flush *)
  Definition core_clear_c (forced : option bool) (start end_ : N) : MC unit :=
    if end_ <=? start then liftM (ret tt)
    else
      c <== liftM get_core ;==
      let u := mkBfUpdate true start (end_ - start) in
      '(o', ops) <== liftM (lift (oplog_append cr (c_oplog c) (mkEntry [] None (Some u)))) ;==
      liftM (put_oplog o') ;== liftM (emit ops) ;==
      let b' := bf_set_range (c_bitfield c) start (end_ - start) false in
      liftM (put_bitfield b') ;==
      liftM (if start <? hd_contig (c_header c) then put_header (set_contig (c_header c) start) else ret tt) ;==
      let s' := match bf_last_index_of_true b' start with Some i => i + 1 | None => 0 end in
      let e' := match bf_index_of_true b' end_ with Some i => i | None => t_length (c_tree c) end in
      d <== liftM get_disk ;==
      clear_offset <== liftC (byte_offset_c ev (c_tree c) (d_tree d) s') ;==
      e1 <== liftM (lift (sub64 "end - 1" e' 1)) ;==
      '(lo, ll) <== liftC (byte_range_c ev (c_tree c) (d_tree d) e1) ;==
      liftM (clear_length <-- lift (sub64 "clear length" (lo + ll) clear_offset) ;;;
             (if (0 <? clear_length) && (clear_offset <? f_len (d_data d))
              then emit [SD Data clear_offset clear_length] else ret tt) ;;;
             maybe_flush cr forced).

  (* Core.core_create_proof *)
  Definition core_create_proof_c (block hash : option req_block) (seek : option req_seek)
             (upgrade : option req_upgrade) : MC (option proof) :=
    c <== liftM get_core ;==
    d <== liftM get_disk ;==
    vp <== liftC (create_valueless_proof_c ev (c_tree c) (d_tree d) block hash seek upgrade) ;==
    match vp_block vp with
    | Some b =>
        v <== core_get_c (dh_index b) ;==
        liftM (match v with
               | None => ret None
               | Some value =>
                   ret (Some (mkProof (vp_fork vp) (Some (mkDataBlock (dh_index b) value (dh_nodes b)))
                                (vp_hash vp) (vp_seek vp) (vp_upgrade vp)))
               end)
    | None => liftM (ret (Some (mkProof (vp_fork vp) None (vp_hash vp) (vp_seek vp) (vp_upgrade vp))))
    end.

  (* Core.core_apply_proof: the node lookups (verify_proof, byte_offset_in_changeset) come before the
     commit and the flush *)
  Definition core_apply_proof_c (forced : option bool) (pf : proof) : MC bool :=
    c <== liftM get_core ;==
    if negb (p_fork pf =? t_fork (c_tree c)) then liftM (ret false)
    else
      d <== liftM get_disk ;==
      cs <== liftC (verify_proof_c ev cr (c_tree c) (d_tree d) pf (kp_public (c_keypair c))) ;==
      if negb (commitable (c_tree c) cs) then liftM (ret false)
      else
        bu <== (match p_block pf with
                | Some b =>
                    off <== liftC (byte_offset_in_changeset_c ev (c_tree c) (d_tree d) (db_index b) cs) ;==
                    liftM (emit [SW Data off (db_value b)] ;;; ret (Some (mkBfUpdate false (db_index b) 1)))
                | None => liftM (ret None)
                end) ;==
        liftM (log_and_commit cr cs bu ;;;
               maybe_flush cr forced ;;;
               (match p_upgrade pf with Some _ => send EvUpgrade | None => ret tt end) ;;;
               (match bu with Some u => send (EvHave (bu_start u) (bu_length u) false) | None => ret tt end) ;;;
               ret true).

  (* Core.core_missing_nodes / core_missing_nodes_tree *)
  Definition core_missing_nodes_c (index : N) : MC N :=
    c <== liftM get_core ;==
    d <== liftM get_disk ;==
    i2 <== liftM (lift (mul64 "index * 2" index 2)) ;==
    liftC (missing_nodes_c ev (c_tree c) (d_tree d) i2).

  Definition core_missing_nodes_tree_c (index : N) : MC N :=
    c <== liftM get_core ;==
    d <== liftM get_disk ;==
    liftC (missing_nodes_c ev (c_tree c) (d_tree d) index).

  (* ---------- Hypercore::new: the replay looks nodes up (tree.truncate) between add_node calls ---------- *)

  Definition replay_entry_c (tf : file) (st : mtree * bitfield * header) (e : entry)
    : CM (mtree * bitfield * header) :=
    let '(t, b, h) := st in
    let t := fold_left tree_add_node (e_nodes e) t in
    let '(b, h) := match e_bitfield e with
                   | Some u => let b' := bf_apply b u in
                               (b', set_contig h (update_contig (hd_contig h) b' u))
                   | None => (b, h)
                   end in
    match e_upgrade e with
    | Some u =>
        cs <~ tree_truncate_c ev t tf (tu_length u) (tu_fork u) ;~
        clift (sg <- parse_signature (tu_signature u) ;;
               let hash := tree_hash cr (cs_roots cs) in
               let cs := mkCs (cs_length cs) (tu_ancestors u) (cs_byte_length cs) (cs_batch_length cs)
                              (cs_fork cs) (cs_roots cs) (cs_rnodes cs) (Some hash) (Some sg) true
                              (cs_orig_length cs) (cs_orig_fork cs) in
               let h := set_tree h (mkHeaderTree (ht_fork (hd_tree h)) (cs_length cs) hash sg) in
               t' <- tree_commit t cs ;;
               Ok (t', b, h))
    | None => cret (t, b, h)
    end.

  Fixpoint replay_entries_c (tf : file) (st : mtree * bitfield * header) (l : list entry)
    : CM (mtree * bitfield * header) :=
    match l with
    | [] => cret st
    | e :: r => st' <~ replay_entry_c tf st e ;~ replay_entries_c tf st' r
    end.

  (* the cache of the tree that is dropped is dropped with it; the clock goes on *)
  Definition core_open_c (kp : option keypair) (open_flag : bool) (d : disk) (tick : nat)
    : cst * (disk * list sop * res core) :=
    let dead := mkCst nm_empty tick 0 in
    match (if open_flag then match kp with Some _ => Err BadArgument | None => Ok None end
           else Ok kp) with
    | Err e => (dead, (d, [], Err e))
    | Panic s => (dead, (d, [], Panic s))
    | OutOfFuel => (dead, (d, [], OutOfFuel))
    | Ok key_pair =>
        match oplog_open cr key_pair (f_content (d_oplog d)) with
        | Err e => (dead, (d, [], Err e))
        | Panic s => (dead, (d, [], Panic s))
        | OutOfFuel => (dead, (d, [], OutOfFuel))
        | Ok oo =>
            match apply_sops d (oo_ops oo) with
            | None => (dead, (d, [], Err InvalidOperation))
            | Some d' =>
                let '(st1, r) :=
                  (match tree_open_c (hd_tree (oo_header oo)) (d_tree d') tick with
                   | (st0, Ok t) =>
                       let b := bf_open (d_bitfield d') in
                       ('(t, b, h) <~ replay_entries_c (d_tree d') (t, b, oo_header oo) (oo_entries oo) ;~
                        cret (mkCore (hd_keypair h) (oo_oplog oo) t b h 0)) st0
                   | (st0, Err e) => (st0, Err e)
                   | (st0, Panic s) => (st0, Panic s)
                   | (st0, OutOfFuel) => (st0, OutOfFuel)
                   end) in
                (st1, (d', oo_ops oo, r))
            end
        end
    end.

  (* ====================================================================================== *)
  (* Histories                                                                               *)
  (* ====================================================================================== *)

  Inductive hop :=
  | HAppend (f : option bool) (batch : list bytes)
  | HClear (f : option bool) (start end_ : N)
  | HGet (i : N)
  | HHas (i : N)
  | HInfo
  | HCreateProof (block hash : option req_block) (seek : option req_seek) (upgrade : option req_upgrade)
  | HMissing (i : N)            (* hypercore index *)
  | HMissingTree (i : N)        (* tree index *)
  | HApplyProof (f : option bool) (pf : proof)
  | HMakeReadOnly
  | HReopen.                    (* drop the core (and its cache), open the same storage again *)

  Inductive hobs :=
  | HOAppend (r : res (N * N))
  | HOClear (r : res unit)
  | HOGet (r : res (option bytes))
  | HOHas (b : bool)
  | HOInfo (i : info)
  | HOProof (r : res (option proof))
  | HOMissing (r : res N)
  | HOApply (r : res bool)
  | HOReadOnly (r : res bool)
  | HOReopen (r : res unit).

  Definition ru {A} (r : res A) : res unit :=
    match r with Ok _ => Ok tt | Err e => Err e | Panic s => Panic s | OutOfFuel => OutOfFuel end.

  (* a panic (or running out of the model's fuel) ends the process: nothing is observed afterwards;
     an error is returned to the caller, who goes on *)
  Definition dead {A} (r : res A) : bool := match r with Panic _ | OutOfFuel => true | _ => false end.

  (* one operation without the cache: Core.v as it is. Returns the observation, whether the process is
     still alive, the core and the world (disk, storage journal, events) *)
  Definition hstep (op : hop) (c : core) (w : world) : hobs * bool * core * world :=
    match op with
    | HAppend f batch => let '(c', w', r) := core_append cr f batch c w in (HOAppend r, negb (dead r), c', w')
    | HClear f s e => let '(c', w', r) := core_clear cr f s e c w in (HOClear r, negb (dead r), c', w')
    | HGet i => let '(c', w', r) := core_get i c w in (HOGet r, negb (dead r), c', w')
    | HHas i => (HOHas (core_has c i), true, c, w)
    | HInfo => (HOInfo (core_info c), true, c, w)
    | HCreateProof b h s u =>
        let '(c', w', r) := core_create_proof b h s u c w in (HOProof r, negb (dead r), c', w')
    | HMissing i => let '(c', w', r) := core_missing_nodes i c w in (HOMissing r, negb (dead r), c', w')
    | HMissingTree i =>
        let '(c', w', r) := core_missing_nodes_tree i c w in (HOMissing r, negb (dead r), c', w')
    | HApplyProof f pf =>
        let '(c', w', r) := core_apply_proof cr f pf c w in (HOApply r, negb (dead r), c', w')
    | HMakeReadOnly =>
        let '(c', w', r) := core_make_read_only cr c w in (HOReadOnly r, negb (dead r), c', w')
    | HReopen =>
        let '(d', sops, r) := core_open cr None true (w_disk w) in
        let w' := mkWorld d' (rev sops ++ w_journal w) (w_events w) in
        match r with
        | Ok c' => (HOReopen (Ok tt), true, c', w')
        | _ => (HOReopen (ru r), false, c, w')      (* no core any more *)
        end
    end.

  (* the same operation with the cache *)
  Definition hstep_c (op : hop) (st : cst) (c : core) (w : world) : cst * (hobs * bool * core * world) :=
    match op with
    | HAppend f batch =>
        let '(c', w', r) := core_append cr f batch c w in (st, (HOAppend r, negb (dead r), c', w'))
    | HClear f s e =>
        let '(st', (c', w', r)) := core_clear_c f s e st c w in (st', (HOClear r, negb (dead r), c', w'))
    | HGet i =>
        let '(st', (c', w', r)) := core_get_c i st c w in (st', (HOGet r, negb (dead r), c', w'))
    | HHas i => (st, (HOHas (core_has c i), true, c, w))
    | HInfo => (st, (HOInfo (core_info c), true, c, w))
    | HCreateProof b h s u =>
        let '(st', (c', w', r)) := core_create_proof_c b h s u st c w in
        (st', (HOProof r, negb (dead r), c', w'))
    | HMissing i =>
        let '(st', (c', w', r)) := core_missing_nodes_c i st c w in
        (st', (HOMissing r, negb (dead r), c', w'))
    | HMissingTree i =>
        let '(st', (c', w', r)) := core_missing_nodes_tree_c i st c w in
        (st', (HOMissing r, negb (dead r), c', w'))
    | HApplyProof f pf =>
        let '(st', (c', w', r)) := core_apply_proof_c f pf st c w in
        (st', (HOApply r, negb (dead r), c', w'))
    | HMakeReadOnly =>
        let '(c', w', r) := core_make_read_only cr c w in (st, (HOReadOnly r, negb (dead r), c', w'))
    | HReopen =>
        let '(st', (d', sops, r)) := core_open_c None true (w_disk w) (k_tick st) in
        let w' := mkWorld d' (rev sops ++ w_journal w) (w_events w) in
        match r with
        | Ok c' => (mkCst (k_cache st') (k_tick st') (k_hits st + k_hits st'),
                    (HOReopen (Ok tt), true, c', w'))
        | _ => (st', (HOReopen (ru r), false, c, w'))
        end
    end.

  (* a history: the observations, and the final core and world *)
  Fixpoint hrun (ops : list hop) (c : core) (w : world) : list hobs * core * world :=
    match ops with
    | [] => ([], c, w)
    | op :: rest =>
        let '(o, alive, c', w') := hstep op c w in
        if alive then let '(os, c2, w2) := hrun rest c' w' in (o :: os, c2, w2)
        else ([o], c', w')
    end.

  Fixpoint hrun_c (ops : list hop) (st : cst) (c : core) (w : world) : cst * (list hobs * core * world) :=
    match ops with
    | [] => (st, ([], c, w))
    | op :: rest =>
        let '(st', (o, alive, c', w')) := hstep_c op st c w in
        if alive then let '(st2, (os, c2, w2)) := hrun_c rest st' c' w' in (st2, (o :: os, c2, w2))
        else (st', ([o], c', w'))
    end.
End CachedCore.

(* ---------- eviction oracles used in the examples ---------- *)

(* never evict *)
Definition ev_never : evo := fun _ c => c.
(* evict everything before every lookup: the cache is never hit *)
Definition ev_always : evo := fun _ _ => nm_empty.
(* a capacity of [cap] nodes: while the cache is larger, drop the entry with the smallest index *)
Definition ev_capacity (cap : nat) : evo :=
  fun _ c => fold_left (fun m kv => if Nat.ltb cap (length (nm_elements m)) then nm_del (fst kv) m else m)
                       (nm_elements c) c.
(* evict everything at every lookup whose number is a multiple of [k]: an operation-boundary-free
   schedule; with k = 1 it is ev_always *)
Definition ev_every (k : nat) : evo :=
  fun tick c => if Nat.eqb (Nat.modulo tick k) 0 then nm_empty else c.

(* ---------- what goes wrong when a miss is cached (the crate does not do this) ---------- *)

(* a cache that also remembers "this index was missing" *)
Definition node_get_misscache (cache : nmap (option node)) (t : mtree) (tf : file) (index : N)
           (allow_miss : bool) : nmap (option node) * res (option node) :=
  let miss := if allow_miss then Ok None else Err InvalidOperation in
  match nm_get index cache with
  | Some (Some n) => (cache, Ok (Some n))
  | Some None => (cache, miss)
  | None => match node_get t tf index allow_miss with
            | Ok r => (nm_set index r cache, Ok r)
            | r => (cache, r)
            end
  end.

(* HonestTornHist.v -- C07 at the HISTORY level for honest proof applications of EVERY request class: replication histories with any number of clean and TORN crashes inside applications, each followed by recovery *)
From HC Require Import Base NMap Codec CodecFacts Crypto FlatTree Storage Bitfield Oplog Merkle Core.
From HC Require Import FlatTreeFacts StorageFacts BitfieldFacts OplogFacts Sound NoPanic TreeRef OffsetFacts CoreFacts Crash Refine Replicate Replicate2 Replicate2Z Replicate2D Replicate2E.
From HC Require Import ClearRefine Reopen ContigBridge Unified1 Unified2 CrashCore1 CrashCore2 CrashCore3 CrashClear1.
From HC Require Import SoundCoreLib SoundCore SoundCoreUp SoundCoreBU ReplicaDisk1 ReplicaDisk2 ReplicaDisk3 ReplicaDisk4 ReplicaDisk5 ReplicaDisk6.
From HC Require Import TornCoreA TornCoreB TornClear TornReplicaA TornReplicaB TornReplica.
From HC Require Import AcceptAll1 AcceptAll2 AcceptAll3 AcceptAll AcceptAllCore1 AcceptAllClo AcceptAllClo2 AcceptAllFlush AcceptAllCore2 AcceptAllCore3 AcceptAllHist.
From HC Require Import HonestApply1 HonestApply2 HonestApply3 HonestCrash1 HonestCrash2 HonestTorn HonestTornHistA HonestTornHistB HonestTornHistC.
From Coq Require Import FMapPositive ZifyN ZifyNat ZifyBool.
Ltac Zify.zify_post_hook ::= Z.div_mod_to_equations.
Arguments N.add : simpl never.
Arguments N.sub : simpl never.
Arguments N.mul : simpl never.
Arguments N.div : simpl never.
Arguments N.modulo : simpl never.
Arguments N.pow : simpl never.
Arguments N.eqb : simpl never.
Arguments N.ltb : simpl never.
Arguments N.leb : simpl never.
Arguments N.max : simpl never.
Arguments N.min : simpl never.
Arguments N.of_nat : simpl never.
Arguments N.to_nat : simpl never.
Arguments N.log2 : simpl never.
Arguments N.testbit : simpl never.

(* ====================================================================================== *)
(* Histories with clean AND torn crashes inside honest applications of every request class  *)
(* ====================================================================================== *)

(* HonestCrash2.cevent (serve + apply, reopen, clean crash after k storage operations) extended by a TORN crash: the
   writer serves rq, the replica starts applying the proof, the process dies DURING the k-th storage operation of
   the application after only its first t bytes reached the store (when that operation is a write of more than t
   bytes; otherwise a clean cut at k), the storage is opened again *)
Inductive tevent :=
| TClean (e : cevent)
| TTorn (f : option bool) (rq : request) (cw : core) (dw : disk) (jw : list sop) (evw : list event)
        (bw : list bytes) (sg : bytes) (k t : nat).

(* for the specification a torn crash counts as the clean crash at the same k: the before-or-after state of C02 *)
Definition as_cevent (e : tevent) : cevent :=
  match e with
  | TClean e => e
  | TTorn f rq cw dw jw evw bw sg k _ => CCrash f rq cw dw jw evw bw sg k
  end.

Section TornHistories.
  Variable cr : crypto.
  Hypothesis Hcrc : crc_ok cr.
  Hypothesis Hhash32 : forall x, length (cr_hash cr x) = 32%nat.
  Hypothesis Hnonblank : forall x, all_zero (cr_hash cr x) = false.
  Hypothesis Hhashbytes : forall x, bytes_ok (cr_hash cr x) = true.
  Variable bs : list bytes.
  Hypothesis Hw : writer_fits bs.

  (* one event, executed: None = some call failed or refused *)
  Definition texec (c : core) (w : world) (e : tevent) : option (core * world) :=
    match e with
    | TClean e => cexec cr c w e
    | TTorn f rq cw dw jw evw bw sg k t =>
        match core_create_proof (rq_block rq) (rq_hash rq) (rq_seek rq) (rq_upgrade rq) cw (mkWorld dw jw evw) with
        | (_, _, Ok (Some pf)) =>
            match core_apply_proof cr f pf c w with
            | (_, w', Ok true) =>
                (* what reached the store: k whole operations and the first t bytes of the k-th one *)
                let cut := TornCore.crash_ops (journal_delta (w_journal w) (w_journal w')) k (Some t) in
                match apply_sops (w_disk w) cut with
                | Some dk =>
                    match core_open cr None true dk with
                    | (d'', rops, Ok c'') => Some (c'', mkWorld d'' (rev rops ++ rev cut ++ w_journal w) (w_events w))
                    | _ => None
                    end
                | None => None
                end
            | _ => None
            end
        | _ => None
        end
    end.

  Fixpoint trun (es : list tevent) (c : core) (w : world) : option (core * world) :=
    match es with
    | [] => Some (c, w)
    | e :: rest => match texec c w e with Some (c', w') => trun rest c' w' | None => None end
    end.

  (* the side condition of a torn write (TornCoreB.tear_safe on the disk before it): only a torn HEADER SLOT write
     has one -- a tear within the first bytes of the slot must hit a slot that is already dead *)
  Definition tsafe (c : core) (w : world) (e : tevent) : Prop :=
    match e with
    | TClean _ => True
    | TTorn f rq cw dw jw evw bw sg k t =>
        match core_create_proof (rq_block rq) (rq_hash rq) (rq_seek rq) (rq_upgrade rq) cw (mkWorld dw jw evw) with
        | (_, _, Ok (Some pf)) =>
            match core_apply_proof cr f pf c w with
            | (_, w', Ok true) =>
                TornCore.crash_safe cr (w_disk w) (journal_delta (w_journal w) (w_journal w')) k (Some t)
            | _ => True
            end
        | _ => True
        end
    end.

  (* well-formed histories: every request well formed for the replica state it is sent from (any of the 18
     classes), every tear safe *)
  Fixpoint thist (es : list tevent) (c : core) (w : world) : Prop :=
    match es with
    | [] => True
    | e :: rest => cpre cr bs c (w_disk w) (as_cevent e) /\ tsafe c w e /\
                   forall c' w', texec c w e = Some (c', w') -> thist rest c' w'
    end.

  Definition theld_all (H : N -> bool) (es : list tevent) : N -> bool := cheld_all H (map as_cevent es).
  Definition tlen_all (r : N) (es : list tevent) : N := clen_all r (map as_cevent es).
  (* the blocks of the applications that reached their commit point: the acknowledged ones, and the (cleanly or
     torn) crashed ones cut after the entry write *)
  Definition tcommitted (es : list tevent) (i : N) : Prop := ccommitted (map as_cevent es) i.

  Lemma recovered_state c d H dc Hx rx :
    RDInvZ cr bs c d H -> recoversRC cr bs (kp_public (c_keypair c)) dc Hx rx ->
    exists c'' d'' rops, core_open cr None true dc = (d'', rops, Ok c'') /\
      RCInvZ cr bs c'' d'' Hx /\ c_keypair c'' = c_keypair c /\ t_length (c_tree c'') = rx.
  Proof.
    intros X (c'' & d'' & rops & E & RC'' & L & K & _). exists c'', d'', rops.
    split; [exact E|]. split; [exact RC''|]. split; [|exact L].
    rewrite K. symmetry. apply (RDInvZ_keypair cr Hhash32 Hnonblank bs Hw c d H X).
  Qed.

  (* one event *)
  Lemma torn_event_step c d j ev H e :
    RCInvZ cr bs c d H -> cpre cr bs c d (as_cevent e) -> tsafe c (mkWorld d j ev) e ->
    (exists c' w', texec c (mkWorld d j ev) e = Some (c', w') /\
                   RCInvZ cr bs c' (w_disk w') (cheld1 H (as_cevent e)) /\
                   c_keypair c' = c_keypair c /\ t_length (c_tree c') = clen1 (t_length (c_tree c)) (as_cevent e) /\
                   t_length (c_tree c) <= t_length (c_tree c')) \/
    (exists t, Crash.collision cr t).
  Proof.
    intros RC Hpre Hsafe. pose proof RC as [X _].
    destruct e as [[f rq cw dw jw evw bw sg| |f rq cw dw jw evw bw sg k]|f rq cw dw jw evw bw sg k t];
      cbn [as_cevent texec cexec cpre cheld1 clen1 tsafe exec] in *.
    - (* serve + apply *)
      left. destruct Hpre as (Hwa & Hrw & Hwf & Hfr). cbv zeta in *.
      destruct (honest_round_ZC cr Hcrc Hhash32 Hnonblank Hhashbytes bs Hw f cw dw bw sg jw evw c d j ev H rq
                  Hwa RC Hrw Hwf Hfr) as (pf & c' & w' & delta & Hcreate & Happ & _ & _ & RC' & El & Ek & _).
      exists c', w'. rewrite Hcreate, Happ. split; [reflexivity|]. split; [exact RC'|]. split; [exact Ek|].
      split; [exact El|]. rewrite El. destruct (rq_upgrade rq); lia.
    - (* reopen *)
      left. destruct (reopen_RCInvZ cr Hcrc Hhash32 Hnonblank Hhashbytes bs Hw c d H RC) as (c' & E & RC' & L & K & _).
      exists c', (mkWorld d j ev). cbn [w_disk w_journal w_events]. rewrite E.
      split; [reflexivity|]. split; [exact RC'|]. split; [exact K|]. split; [exact L|]. rewrite L. lia.
    - (* clean crash *)
      left. destruct Hpre as (Hwa & Hrw & Hwf & Hfr). cbv zeta in *.
      destruct (honest_round_ZC cr Hcrc Hhash32 Hnonblank Hhashbytes bs Hw f cw dw bw sg jw evw c d j ev H rq
                  Hwa RC Hrw Hwf Hfr) as (pf & c' & w' & delta & Hcreate & Happ & Hj & _ & _ & _ & _ & _ & Cc & _).
      rewrite Hcreate, Happ. cbn [w_journal w_disk w_events]. rewrite Hj, journal_delta_spec.
      destruct (Cc k) as (dk & Ak & Pk & _). rewrite Ak. unfold committed.
      destruct (k <=? rq_commit_point rq)%nat; cbn [negb].
      + destruct (recovered_state c d H dk _ _ X (RCDiskZ_recovers cr Hcrc Hhash32 Hnonblank Hhashbytes bs _ dk _ _ Pk))
          as (c'' & d'' & rops & E & RC'' & K & L).
        rewrite E. eexists _, _. split; [reflexivity|]. cbn [w_disk].
        split; [exact RC''|]. split; [exact K|]. split; [exact L|]. rewrite L. lia.
      + destruct (recovered_state c d H dk _ _ X (RCDiskZ_recovers cr Hcrc Hhash32 Hnonblank Hhashbytes bs _ dk _ _ Pk))
          as (c'' & d'' & rops & E & RC'' & K & L).
        rewrite E. eexists _, _. split; [reflexivity|]. cbn [w_disk].
        split; [exact RC''|]. split; [exact K|]. split; [exact L|]. rewrite L. destruct (rq_upgrade rq); lia.
    - (* torn crash *)
      destruct Hpre as (Hwa & Hrw & Hwf & Hfr). cbv zeta in *.
      destruct (honest_round_ZC cr Hcrc Hhash32 Hnonblank Hhashbytes bs Hw f cw dw bw sg jw evw c d j ev H rq
                  Hwa RC Hrw Hwf Hfr) as (pf & c' & w' & delta & Hcreate & Happ & Hj & _ & _ & _ & _ & _ & Cc & Tc).
      rewrite Hcreate, Happ in *. cbn [w_journal w_disk w_events] in *. rewrite Hj, journal_delta_spec in *.
      (* the disk the cut leaves reopens to before / after *)
      assert (Hrec : exists dc, apply_sops d (TornCore.crash_ops delta k (Some t)) = Some dc /\
                ((if (k <=? rq_commit_point rq)%nat
                  then recoversRC cr bs (kp_public (c_keypair c)) dc H (t_length (c_tree c))
                  else recoversRC cr bs (kp_public (c_keypair c)) dc (held_rq H rq)
                         (match rq_upgrade rq with Some _ => N.of_nat (length bw) | None => t_length (c_tree c) end)) \/
                 exists t0, Crash.collision cr t0)).
      { assert (Clean : exists dc, apply_sops d (firstn k delta ++ []) = Some dc /\
                  (if (k <=? rq_commit_point rq)%nat
                   then recoversRC cr bs (kp_public (c_keypair c)) dc H (t_length (c_tree c))
                   else recoversRC cr bs (kp_public (c_keypair c)) dc (held_rq H rq)
                          (match rq_upgrade rq with Some _ => N.of_nat (length bw) | None => t_length (c_tree c) end))).
        { destruct (Cc k) as (dk & Ak & Pk & _). exists dk. rewrite app_nil_r. split; [exact Ak|].
          destruct (k <=? rq_commit_point rq)%nat; apply (RCDiskZ_recovers cr Hcrc Hhash32 Hnonblank Hhashbytes bs), Pk. }
        unfold TornCore.crash_ops, TornCore.crash_safe in *.
        destruct (nth_error delta k) as [o|] eqn:En.
        - destruct (Nat.ltb_spec t (wlen o)) as [Lt|Ge].
          + destruct (Tc k o t En Lt) as (dk & dkt & Ak & At & Q). exists dkt.
            split. { rewrite CoreFacts.apply_sops_app, Ak. cbn [apply_sops]. rewrite At. reflexivity. }
            rewrite Ak in Hsafe. destruct (Q (Hsafe Lt)) as [R|[_ Cl]]; [left; exact R|right; exists t; exact Cl].
          + destruct Clean as (dc & Ac & Rc). exists dc. split; [exact Ac|left; exact Rc].
        - destruct Clean as (dc & Ac & Rc). exists dc. split; [exact Ac|left; exact Rc]. }
      destruct Hrec as (dc & Ac & [R|Cl]); [left|right; exact Cl].
      rewrite Ac. unfold committed.
      destruct (k <=? rq_commit_point rq)%nat; cbn [negb].
      + destruct (recovered_state c d H dc _ _ X R) as (c'' & d'' & rops & E & RC'' & K & L).
        rewrite E. eexists _, _. split; [reflexivity|]. cbn [w_disk].
        split; [exact RC''|]. split; [exact K|]. split; [exact L|]. rewrite L. lia.
      + destruct (recovered_state c d H dc _ _ X R) as (c'' & d'' & rops & E & RC'' & K & L).
        rewrite E. eexists _, _. split; [reflexivity|]. cbn [w_disk].
        split; [exact RC''|]. split; [exact K|]. split; [exact L|]. rewrite L. destruct (rq_upgrade rq); lia.
  Qed.

  (* MAIN THEOREM (C07, history level, every request class): from any closed torn-tolerant replica state, a
     history of rounds (request of ANY well-formed class -> writer's create_proof -> replica apply), reopens, clean
     crashes and ANY NUMBER of TORN crashes inside applications, each followed by recovery.  Every step succeeds,
     the invariant holds at the end, the length is the signed length of the last committed upgrade, every
     committed block (in particular every block of an acknowledged application) is held, exactly the blocks of the
     spec are held and they read byte-identical to the writer's -- or a torn HEADER SLOT write exhibited a CRC-32
     collision.  Side condition (explicit in thist): tear_safe for each torn write (tsafe). *)
  Theorem honest_histories_with_torn_crashes es : forall c d j ev H,
    RCInvZ cr bs c d H -> thist es c (mkWorld d j ev) ->
    (exists c' w',
      trun es c (mkWorld d j ev) = Some (c', w') /\
      RCInvZ cr bs c' (w_disk w') (theld_all H es) /\
      c_keypair c' = c_keypair c /\
      t_length (c_tree c') = tlen_all (t_length (c_tree c)) es /\
      t_byte_length (c_tree c') = prefix_size bs (t_length (c_tree c')) /\
      t_length (c_tree c) <= t_length (c_tree c') /\
      (forall i, tcommitted es i -> core_has c' i = true) /\
      (forall i, H i = true -> core_has c' i = true) /\
      (forall i, core_has c' i = theld_all H es i) /\
      (forall i j2 ev2, core_has c' i = true ->
         core_get i c' (mkWorld (w_disk w') j2 ev2) = (c', mkWorld (w_disk w') j2 ev2, Ok (Some (blk bs i))))) \/
    (exists t, Crash.collision cr t).
  Proof.
    induction es as [|e es IH]; intros c d j ev H RC Hh.
    - left. exists c, (mkWorld d j ev). unfold theld_all, tlen_all, tcommitted.
      cbn [trun map cheld_all clen_all fold_left w_disk ccommitted].
      split; [reflexivity|]. split; [exact RC|]. split; [reflexivity|]. split; [reflexivity|].
      destruct RC as [X _]. split; [destruct X as ((_ & _ & _ & W4 & _) & _); exact W4|]. split; [lia|].
      split; [intros i []|]. split; [|split].
      + intros i Hi. rewrite (RDZ_has cr bs c d H i X). exact Hi.
      + intros i. apply (RDZ_has cr bs c d H i X).
      + intros i j2 ev2 Hi. rewrite (RDZ_has cr bs c d H i X) in Hi.
        rewrite (RDZ_get cr Hhash32 Hnonblank bs Hw c d H j2 ev2 i X), Hi. reflexivity.
    - cbn [thist] in Hh. destruct Hh as (Hpre & Hsafe & Hrest). cbn [w_disk] in Hpre.
      destruct (torn_event_step c d j ev H e RC Hpre Hsafe) as [(c1 & w1 & Hex & RC1 & Hk1 & Hl1 & Hm1)|Cl]; [|right; exact Cl].
      destruct w1 as [d1 j1 ev1]. cbn [w_disk] in RC1.
      destruct (IH c1 d1 j1 ev1 (cheld1 H (as_cevent e)) RC1 (Hrest _ _ Hex))
        as [(c' & w' & Hrun & RC' & Hk & Hl & Hb & Hm & Hreq & Hmono & Hexact & Hget)|Cl]; [left|right; exact Cl].
      exists c', w'. cbn [trun]. rewrite Hex. split; [exact Hrun|].
      unfold theld_all, tlen_all, tcommitted in *. cbn [map cheld_all clen_all fold_left].
      split; [exact RC'|]. split; [congruence|]. split; [rewrite Hl, Hl1; reflexivity|]. split; [exact Hb|].
      split; [lia|]. split; [|split; [|split; [exact Hexact|exact Hget]]].
      + intros i Hr. destruct RC' as [X' _]. rewrite (RDZ_has cr bs c' (w_disk w') _ i X').
        apply (cheld_committed (as_cevent e :: map as_cevent es) H i Hr).
      + intros i Hi. apply Hmono. apply cheld1_mono, Hi.
  Qed.

  (* a replica created from the public key alone, then any well-formed history with clean and torn crashes *)
  Theorem honest_fresh_histories_with_torn_crashes kp es :
    keypair_ok kp = true -> kp_secret kp = None ->
    exists d0 ops0 c0,
      core_open cr (Some kp) false disk_empty = (d0, ops0, Ok c0) /\
      (thist es c0 (mkWorld d0 [] []) ->
       (exists c' w',
         trun es c0 (mkWorld d0 [] []) = Some (c', w') /\
         RCInvZ cr bs c' (w_disk w') (theld_all (fun _ => false) es) /\
         t_length (c_tree c') = tlen_all 0 es /\
         (forall i, tcommitted es i -> core_has c' i = true) /\
         (forall i, core_has c' i = theld_all (fun _ => false) es i) /\
         (forall i j2 ev2, core_has c' i = true ->
            core_get i c' (mkWorld (w_disk w') j2 ev2) = (c', mkWorld (w_disk w') j2 ev2, Ok (Some (blk bs i))))) \/
       (exists t, Crash.collision cr t)).
  Proof.
    intros Hk Hs.
    destruct (RDInvZ_fresh cr bs Hcrc Hhash32 Hnonblank Hhashbytes kp Hk Hs) as (d0 & ops0 & c0 & Hopen & X & XZ & K & L0 & _).
    exists d0, ops0, c0. split; [exact Hopen|]. intros Hh.
    assert (RC0 : RCInvZ cr bs c0 d0 (fun _ => false)).
    { split; [exact XZ|]. apply (RCInv_length0 cr bs c0 d0 _ X L0). }
    destruct (honest_histories_with_torn_crashes es c0 d0 [] [] (fun _ => false) RC0 Hh)
      as [(c' & w' & Hrun & RC' & _ & Hl & _ & _ & Hreq & _ & Hexact & Hget)|Cl]; [left|right; exact Cl].
    exists c', w'. rewrite L0 in Hl. auto 7.
  Qed.
End TornHistories.

Print Assumptions honest_histories_with_torn_crashes.
Print Assumptions honest_fresh_histories_with_torn_crashes.

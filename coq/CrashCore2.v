(* CrashCore2.v — C02 over all four stores, part 2: the run of an append from an XInv state, written
   out operation by operation; every cut of its journal leaves a disk that reopens (XDisk); the
   complete run preserves XInv. *)
From HC Require Import Base NMap Codec CodecFacts Crypto FlatTree Storage Bitfield Oplog Merkle Core.
From HC Require Import FlatTreeFacts StorageFacts BitfieldFacts OplogFacts TreeRef OffsetFacts CoreFacts Crash Refine Reopen.
From HC Require Import ContigBridge CrashCore1.
From Coq Require Import FMapPositive ZifyN ZifyNat ZifyBool.
Ltac Zify.zify_post_hook ::= Z.div_mod_to_equations.
Arguments N.add : simpl never.
Arguments N.sub : simpl never.
Arguments N.mul : simpl never.
Arguments N.div : simpl never.
Arguments N.modulo : simpl never.
Arguments N.pow : simpl never.
Arguments N.eqb : simpl never.
Arguments N.ltb : simpl never.
Arguments N.leb : simpl never.
Arguments N.of_nat : simpl never.
Arguments N.to_nat : simpl never.

(* ====================================================================================== *)
(* A. Cuts of a list of storage operations                                                 *)
(* ====================================================================================== *)

(* every prefix of [ops] applies to [d] and leaves a disk satisfying P *)
Definition cuts_ok (d : disk) (ops : list sop) (P : disk -> Prop) : Prop :=
  forall k, exists dk, apply_sops d (firstn k ops) = Some dk /\ P dk.

Lemma cuts_nil d (P : disk -> Prop) : P d -> cuts_ok d [] P.
Proof. intros H k. exists d. rewrite firstn_nil. split; [reflexivity|exact H]. Qed.

Lemma cuts_app d l1 l2 (P : disk -> Prop) d1 :
  cuts_ok d l1 P -> apply_sops d l1 = Some d1 -> cuts_ok d1 l2 P -> cuts_ok d (l1 ++ l2) P.
Proof.
  intros H1 Ha H2 k. rewrite firstn_app.
  destruct (Nat.le_gt_cases k (length l1)) as [L|L].
  - replace (k - length l1)%nat with 0%nat by lia. cbn [firstn]. rewrite app_nil_r. apply H1.
  - rewrite firstn_all2 by lia. destruct (H2 (k - length l1)%nat) as (dk & A & Hp).
    exists dk. split; [|exact Hp]. rewrite CoreFacts.apply_sops_app, Ha. exact A.
Qed.

Lemma cuts_weaken d ops (P Q : disk -> Prop) : (forall x, P x -> Q x) -> cuts_ok d ops P -> cuts_ok d ops Q.
Proof. intros H C k. destruct (C k) as (dk & A & Hp). exists dk. split; [exact A|apply H, Hp]. Qed.

Lemma cuts_one d o d1 (P : disk -> Prop) :
  apply_sop d o = Some d1 -> P d -> P d1 -> cuts_ok d [o] P.
Proof.
  intros Ha H0 H1 k. destruct k as [|k].
  - exists d. split; [reflexivity|exact H0].
  - exists d1. cbn [firstn]. rewrite firstn_nil. cbn [apply_sops]. rewrite Ha. split; [reflexivity|exact H1].
Qed.

(* ====================================================================================== *)
(* B. flush_all, operation by operation                                                    *)
(* ====================================================================================== *)

Definition page_ops (b : bitfield) (ps : list N) : list sop :=
  map (fun p => SW Bitfield (p * PAGE_BYTES) (page_bytes (bf_bits b) p)) ps.

Definition unflushed_nodes (t : mtree) : list node := map snd (nm_elements (t_unflushed t)).

Section FlushRun.
  Variable cr : crypto.
  Hypothesis Hhash32 : forall x, length (cr_hash cr x) = 32%nat.
  Hypothesis Hnonblank : forall x, all_zero (cr_hash cr x) = false.

  (* a header that fits its slot is never refused by the 30-bit frame guard *)
  Lemma oplog_flush_ok (o : oplog) (h : header) :
    hdr_fits false h ->
    exists o' slot hb, oplog_flush cr o h false = Ok (o', [SW Oplog slot hb; ST Oplog ENTRIES_OFFSET]).
  Proof.
    intros Hfit. destruct Hfit as [Hf|Hf]; [discriminate Hf|].
    unfold oplog_flush, insert_header. destruct (next_slot (ol_bits o)) as [[slot bit] bits'].
    destruct (frame cr bit false (enc_header h)) as [fr| | |] eqn:F.
    - cbn [bind]. pose proof (frame_length _ _ _ _ _ F) as L.
      destruct (N.ltb_spec (8 + 2 * len (enc_header h)) (len fr)) as [Lt|Ge]; [lia|].
      cbn [bind]. rewrite N.add_0_r. do 3 eexists. reflexivity.
    - unfold frame in F. destruct (1073741824 <=? len (enc_header h)); discriminate F.
    - exfalso. unfold frame in F. unfold HEADER_SIZE in Hf.
      destruct (N.leb_spec 1073741824 (len (enc_header h))) as [L|L]; [lia|discriminate F].
    - unfold frame in F. destruct (1073741824 <=? len (enc_header h)); discriminate F.
  Qed.

  (* the run of a flush with its journal written out: page writes, node writes, slot write, truncate *)
  Lemma flush_all_run (c : core) (w : world) :
    unflushed_ok (c_tree c) -> hdr_fits false (c_header c) ->
    exists o' oops d3,
      let fl := page_ops (c_bitfield c) (bf_dirty (c_bitfield c)) ++
                map node_write (unflushed_nodes (c_tree c)) ++ oops in
      oplog_flush cr (c_oplog c) (c_header c) false = Ok (o', oops) /\
      apply_sops (w_disk w) fl = Some d3 /\
      flush_all cr false c w =
        (mkCore (c_keypair c) o'
                (mkTree (t_roots (c_tree c)) (t_length (c_tree c)) (t_byte_length (c_tree c))
                        (t_fork (c_tree c)) (t_signature (c_tree c)) nm_empty)
                (mkBf (bf_bits (c_bitfield c)) []) (c_header c) (c_skip c),
         mkWorld d3 (rev fl ++ w_journal w) (w_events w), Ok tt).
  Proof.
    intros Hok Hfits. unfold flush_all. rewrite mbind_get_core. unfold bf_flush. cbv iota.
    rewrite mbind_put_bitfield.
    fold (page_ops (c_bitfield c) (bf_dirty (c_bitfield c))).
    set (P := page_ops (c_bitfield c) (bf_dirty (c_bitfield c))).
    match goal with |- context [mbind (emit P) ?f ?c1 ?w1] =>
      destruct (emit_total P c1 w1) as (d1 & A1 & E1);
        [apply Forall_forall; intros o Ho; apply in_map_iff in Ho as (p & <- & _); exact I|];
        rewrite (mbind_eq _ f _ _ _ _ _ E1)
    end.
    rewrite mbind_lift, (tree_flush_ok (c_tree c) Hok). cbv iota.
    fold (unflushed_nodes (c_tree c)).
    set (T := map node_write (unflushed_nodes (c_tree c))).
    rewrite mbind_put_tree.
    match goal with |- context [mbind (emit T) ?f ?c1 ?w1] =>
      destruct (emit_total T c1 w1) as (d2 & A2 & E2);
        [apply Forall_forall; intros o Ho; apply in_map_iff in Ho as (p & <- & _); exact I|];
        rewrite (mbind_eq _ f _ _ _ _ _ E2)
    end.
    rewrite mbind_get_core, mbind_lift. cbn [c_oplog c_header].
    destruct (oplog_flush_ok (c_oplog c) (c_header c) Hfits) as (o' & slot & hb & OF); rewrite OF.
    cbv iota. rewrite mbind_put_oplog.
    match goal with |- context [emit ?ops ?c1 ?w1] =>
      destruct (emit_total ops c1 w1) as (d3 & A3 & E3);
        [repeat constructor|]; rewrite E3
    end.
    cbn [w_disk w_journal w_events c_keypair c_oplog c_tree c_bitfield c_header c_skip] in *.
    exists o', [SW Oplog slot hb; ST Oplog ENTRIES_OFFSET], d3. cbv zeta.
    split; [reflexivity|]. split.
    + rewrite CoreFacts.apply_sops_app, A1, CoreFacts.apply_sops_app, A2. exact A3.
    + rewrite !rev_app_distr, <- !app_assoc. reflexivity.
  Qed.
End FlushRun.

(* ====================================================================================== *)
(* C. The tree and bitfield stores under partial flushes                                   *)
(* ====================================================================================== *)

Section StoresX.
  Variable cr : crypto.

  Lemma unflushed_nodes_get t v :
    unflushed_ok t -> In v (unflushed_nodes t) -> nm_get (n_index v) (t_unflushed t) = Some v.
  Proof.
    intros Hok Hv. apply in_map_iff in Hv as ([k v'] & E & Hv). cbn [snd] in E. subst v'.
    apply nm_elements_in in Hv. destruct (Hok k v Hv) as (-> & _). exact Hv.
  Qed.

  (* writing any of the unflushed nodes keeps every node the on-disk header needs: a written node
     that is a full node below n is the reference node *)
  Lemma lookups_write_nodes bs t tf ws n kf :
    lookups cr t tf bs n -> unflushed_ok t -> kf <= n ->
    (forall v, In v ws -> nm_get (n_index v) (t_unflushed t) = Some v) ->
    lookups cr tE tf bs kf -> lookups cr tE (write_nodes tf ws) bs kf.
  Proof.
    intros Hl Hun Hle Hws Hst d o Hfull.
    pose proof (Hst d o Hfull) as H. set (i := ft_index (N.of_nat d) o) in *.
    assert (H32 : forall v, In v ws -> length (n_hash v) = 32%nat).
    { intros v Hv. apply Hws in Hv. apply Hun in Hv. tauto. }
    unfold required_node, node_get in H |- *. cbn [tE t_unflushed] in H |- *. rewrite nm_get_empty in H |- *.
    unfold mul64 in H |- *. destruct (fits_u64 (NODE_SIZE * i)); [|discriminate H]. cbn [bind] in H |- *.
    destruct (f_read tf (NODE_SIZE * i) NODE_SIZE) as [data|] eqn:R; [|discriminate H].
    destruct (write_nodes_read ws tf i H32) as [(v & Hin & Hk & Hr)|[_ Hr]].
    - rewrite Hr. pose proof (Hws v Hin) as Hg. rewrite Hk in Hg.
      destruct (Hun i v Hg) as (Hi & Hh & Hlen).
      rewrite <- Hi. rewrite node_bytes_roundtrip; [|rewrite Hh; reflexivity|unfold u64_max in Hlen; lia].
      pose proof (Hl d o ltac:(lia)) as Hreq. fold i in Hreq.
      unfold required_node, node_get in Hreq. rewrite Hg in Hreq.
      destruct (node_blank v); [discriminate Hreq|]. cbn [bind] in Hreq |- *. exact Hreq.
    - rewrite Hr, R; [exact H|]. apply f_read_spec in R. tauto.
  Qed.

  Lemma BfX_write_pages f b ps kf n :
    BfX f kf n -> kf <= n -> (forall i, bf_get b i = (i <? n)) ->
    BfX (write_pages f (bf_bits b) ps) kf n.
  Proof.
    intros (Hm & Hlo & Hhi) Hle Hb. split; [apply len_write_pages, Hm|].
    split; intros i Hi; destruct (fbit_write_pages (bf_bits b) ps f i) as [I1 I2];
      destruct (in_dec N.eq_dec (i / PAGE_BITS) ps) as [Hin|Hnin].
    - rewrite (I1 Hin). fold (bf_get b i). rewrite Hb. lia.
    - rewrite (I2 Hnin). apply Hlo, Hi.
    - rewrite (I1 Hin). fold (bf_get b i). rewrite Hb. lia.
    - rewrite (I2 Hnin). apply Hhi, Hi.
  Qed.
End StoresX.

(* ====================================================================================== *)
(* D. A flush from an XInv state: result and cuts                                          *)
(* ====================================================================================== *)

Section FlushX.
  Variable cr : crypto.
  Hypothesis Hhash32 : forall x, length (cr_hash cr x) = 32%nat.
  Hypothesis Hnonblank : forall x, all_zero (cr_hash cr x) = false.

  Lemma XInv_skip c d bs s :
    XInv cr c d bs ->
    XInv cr (mkCore (c_keypair c) (c_oplog c) (c_tree c) (c_bitfield c) (c_header c) s) d bs.
  Proof. intros X. exact X. Qed.

  Lemma flush_all_X c d j ev bs :
    XInv cr c d bs ->
    exists c' d' fl,
      flush_all cr false c (mkWorld d j ev) = (c', mkWorld d' (rev fl ++ j) ev, Ok tt) /\
      apply_sops d fl = Some d' /\ XInv cr c' d' bs /\ c_keypair c' = c_keypair c /\
      cuts_ok d fl (fun dk => XDisk cr (c_keypair c) dk bs).
  Proof.
    intros X.
    pose proof X as ((HL & HB & HF & HR & Hlook & Hun & Hbf & Hcg & Hd & Hs & Hn) &
                     s0 & s1 & body & st0 & st1 & hf & l & kf & Hcont & G & Hlen & Hbytes & Hhf & Hhc & Hch &
                     Hstore & Hbx & Hsync).
    set (n := N.of_nat (length bs)) in *.
    pose proof (echain_le cr bs l kf n Hch) as Hle.
    pose proof Hhc as (Hok & Hkp & Hfk & Hln & Hcgc & Hrh & Hsg).
    assert (Hfits : hdr_fits false (c_header c)).
    { apply hdr_fits_real; [exact Hok|exact Hrh|]. destruct Hsg as [->|Hsg]; unfold len; [cbn; lia|rewrite Hsg; lia]. }
    destruct (flush_all_run cr Hhash32 Hnonblank c (mkWorld d j ev) Hun Hfits) as (o' & oops & d3 & OF & A & E).
    cbn [w_disk w_journal w_events] in *. cbv zeta in A, E.
    set (b := c_bitfield c) in *. set (t := c_tree c) in *. set (ws := unflushed_nodes t) in *.
    (* the oplog step *)
    pose proof G as (H0 & H1 & Hchs & Hf & Hoks).
    unfold oplog_flush in OF. apply bind_ok in OF as ([bits1 ops1] & Hins & OF). injection OF as <- <-.
    destruct (header_write_step cr s0 s1 st0 st1 _ hf (c_header c) 0 false bits1 ops1 H0 H1 Hchs Hok Hfits Hins)
      as (fr & pad & Hfr & Hl & _ & -> & -> & Hw & st0' & st1' & S0 & S1 & Hch' & Hcb).
    set (bits := ol_bits (c_oplog c)) in *.
    set (s0' := put0 (w_slot bits) (fr ++ pad) s0) in *. set (s1' := put1 (w_slot bits) (fr ++ pad) s1) in *.
    assert (L0' : length s0' = SLOT) by (destruct st0'; apply S0).
    assert (L1' : length s1' = SLOT) by (destruct st1'; apply S1).
    (* the disks *)
    set (fb := write_pages (d_bitfield d) (bf_bits b) (bf_dirty b)).
    set (ft := write_nodes (d_tree d) ws).
    set (fo1 := f_write (d_oplog d) (w_slot bits) (fr ++ pad)).
    set (fo2 := f_truncate fo1 (ENTRIES_OFFSET + 0)).
    assert (Ed3 : d3 = mkDisk ft (d_data d) fb fo2).
    { unfold page_ops in A. rewrite CoreFacts.apply_sops_app, apply_page_writes, CoreFacts.apply_sops_app, apply_node_writes in A.
      cbn [apply_sops apply_sop d_get d_set d_tree d_oplog] in A. injection A as <-. reflexivity. }
    (* the stores during and after the flush *)
    assert (Hws : forall v, In v ws -> nm_get (n_index v) (t_unflushed t) = Some v)
      by (intros v Hv; apply unflushed_nodes_get; assumption).
    assert (Tw : forall ws', (forall v, In v ws' -> In v ws) -> forall m, m <= n ->
                 lookups cr tE (d_tree d) bs m -> lookups cr tE (write_nodes (d_tree d) ws') bs m).
    { intros ws' Hsub m Hm Hl0. apply (lookups_write_nodes cr bs t (d_tree d) ws' n m Hlook Hun Hm); [|exact Hl0].
      intros v Hv. apply Hws, Hsub, Hv. }
    assert (Bw : forall ps, BfX (write_pages (d_bitfield d) (bf_bits b) ps) kf n)
      by (intros ps; apply BfX_write_pages; assumption).
    assert (Hidx : forall dd o, (o + 1) * p2 dd <= n -> NODE_SIZE * ft_index (N.of_nat dd) o <= u64_max).
    { intros dd o Hfull. pose proof (ft_index_succ (N.of_nat dd) o) as S. fold (p2 dd) in S. pose proof (p2_pos dd).
      unfold NODE_SIZE in *. nia. }
    set (t' := mkTree (t_roots t) (t_length t) (t_byte_length t) (t_fork t) (t_signature t) nm_empty) in *.
    assert (LT' : lookups cr t' ft bs n).
    { intros dd o Hfull.
      apply (tree_flush_preserves_lookups t t' (map node_write ws) d (d_set d Tree ft) _ _
               (tree_flush_ok t Hun) (apply_node_writes ws d) Hun (Hidx dd o Hfull)).
      apply Hlook, Hfull. }
    assert (LT : lookups cr tE ft bs n).
    { intros dd o Hfull. rewrite <- (LT' dd o Hfull). apply required_node_same_unflushed. reflexivity. }
    assert (BX : BfX fb n n).
    { split; [apply len_write_pages, Hbx|].
      split; intros i Hi; unfold fb; rewrite (BfSync_flush _ _ Hsync i); unfold b; rewrite Hbf; lia. }
    (* a disk whose oplog and data stores are those of d *)
    assert (Old : forall dk, d_data dk = d_data d -> d_oplog dk = d_oplog d ->
                  BfX (d_bitfield dk) kf n -> lookups cr tE (d_tree dk) bs kf -> XDisk cr (c_keypair c) dk bs).
    { intros dk Ed Eo Hb' Ht'. unfold XDisk. fold n. rewrite Ed, Eo.
      split; [exact Hs|]. split; [exact Hn|]. split; [exact Hd|].
      exists s0, s1, body, st0, st1, bits, hf, l, kf.
      split; [exact Hcont|]. split; [left; exact G|]. repeat (split; [assumption|]). exact Hb'. }
    (* the disk after the slot write *)
    assert (Mid : XDisk cr (c_keypair c) (mkDisk ft (d_data d) fb fo1) bs).
    { unfold XDisk. fold n. cbn [d_data d_oplog d_tree d_bitfield].
      split; [exact Hs|]. split; [exact Hn|]. split; [exact Hd|].
      exists s0', s1', body, st0', st1', (w_bits bits), (c_header c), [], n.
      split; [unfold fo1; rewrite f_content_write, Hcont; apply Hw|].
      split. { right. split; [reflexivity|]. split; [exact S0|]. split; [exact S1|]. split; [exact Hch'|].
               exists (current_bit bits), l. split; [exact Hcb|exact Hf]. }
      split; [exact Hhc|]. split; [reflexivity|]. split; [exact LT|exact BX]. }
    (* the final state *)
    assert (Hcont3 : f_content fo2 = s0' ++ s1' ++ []).
    { unfold fo2, fo1. rewrite f_content_truncate, f_content_write, Hcont, Hw, N.add_0_r.
      apply c_truncate_all_entries; assumption. }
    assert (X3 : XInv cr (mkCore (c_keypair c) (mkOplog (w_bits bits) 0 0) t' (mkBf (bf_bits b) []) (c_header c) (c_skip c))
                      (mkDisk ft (d_data d) fb fo2) bs).
    { split.
      - unfold XW. cbn [c_tree c_bitfield c_header d_tree d_data t' t_length t_byte_length t_fork t_roots]. fold n.
        split; [exact HL|]. split; [exact HB|]. split; [exact HF|]. split; [exact HR|]. split; [exact LT'|].
        split. { intros i x H. unfold t' in H. cbn [t_unflushed] in H. rewrite nm_get_empty in H. discriminate H. }
        split; [exact Hbf|]. split; [exact Hcg|]. split; [exact Hd|]. split; [exact Hs|exact Hn].
      - cbn [c_oplog c_keypair c_header c_bitfield ol_bits ol_entries_len ol_entries_bytes d_oplog d_tree d_bitfield].
        fold n. exists s0', s1', [], st0', st1', (c_header c), [], n.
        split; [exact Hcont3|].
        split. { split; [exact S0|]. split; [exact S1|]. split; [exact Hch'|]. split; reflexivity. }
        split; [reflexivity|]. split; [reflexivity|]. split; [exact Hhc|]. split; [exact Hhc|].
        split; [reflexivity|]. split; [exact LT|]. split; [exact BX|].
        intros i Hne. exfalso. apply Hne. unfold fb. rewrite (BfSync_flush _ _ Hsync i). reflexivity. }
    eexists. exists d3. eexists. split; [exact E|]. split; [exact A|].
    rewrite Ed3. split; [exact X3|]. split; [reflexivity|].
    (* the cuts *)
    apply (cuts_app d _ _ _ (d_set d Bitfield fb)).
    { intros k. unfold page_ops. rewrite firstn_map, apply_page_writes. eexists. split; [reflexivity|].
      apply Old; try reflexivity; [apply Bw|exact Hstore]. }
    { unfold page_ops. apply apply_page_writes. }
    apply (cuts_app _ _ _ _ (d_set (d_set d Bitfield fb) Tree ft)).
    { intros k. rewrite firstn_map, apply_node_writes. eexists. split; [reflexivity|].
      apply Old; try reflexivity; [apply Bw|].
      cbn [d_set d_tree]. apply Tw; [intros v Hv; eapply in_firstn; exact Hv|exact Hle|exact Hstore]. }
    { apply apply_node_writes. }
    intros k. destruct k as [|[|k]].
    - eexists. split; [reflexivity|]. apply Old; try reflexivity; [apply Bw|].
      cbn [d_set d_tree]. apply Tw; [intros v Hv; exact Hv|exact Hle|exact Hstore].
    - eexists. split; [reflexivity|]. exact Mid.
    - cbn [firstn]. rewrite firstn_nil. eexists. split; [reflexivity|].
      apply (XInv_XDisk cr _ _ _ X3).
  Qed.
End FlushX.

(* ====================================================================================== *)
(* E. An append from an XInv state: result and cuts                                        *)
(* ====================================================================================== *)

Section AppendX.
  Variable cr : crypto.
  Hypothesis Hcrc : crc_ok cr.
  Hypothesis Hhash32 : forall x, length (cr_hash cr x) = 32%nat.
  Hypothesis Hnonblank : forall x, all_zero (cr_hash cr x) = false.
  Hypothesis Hhashbytes : forall x, bytes_ok (cr_hash cr x) = true.
  Hypothesis Hsig64 : forall sk m, length (cr_sign cr sk m) = 64%nat.
  Hypothesis Hsigbytes : forall sk m, bytes_ok (cr_sign cr sk m) = true.

  Lemma maybe_flush_X f c d j ev bs :
    XInv cr c d bs ->
    exists c' d' fl,
      maybe_flush cr f c (mkWorld d j ev) = (c', mkWorld d' (rev fl ++ j) ev, Ok tt) /\
      apply_sops d fl = Some d' /\ XInv cr c' d' bs /\ c_keypair c' = c_keypair c /\
      cuts_ok d fl (fun dk => XDisk cr (c_keypair c) dk bs).
  Proof.
    intros X. unfold maybe_flush. rewrite mbind_get_core.
    match goal with |- context [if ?b then _ else _] => destruct b end.
    - rewrite mbind_put_skip.
      destruct (flush_all_X cr Hhash32 Hnonblank _ d j ev bs (XInv_skip cr c d bs 3 X))
        as (c' & d' & fl & E & A & X' & K & C).
      exists c', d', fl. split; [exact E|]. split; [exact A|]. split; [exact X'|]. split; [exact K|exact C].
    - exists (mkCore (c_keypair c) (c_oplog c) (c_tree c) (c_bitfield c) (c_header c) (c_skip c - 1)), d, [].
      split; [reflexivity|]. split; [reflexivity|]. split; [apply XInv_skip, X|]. split; [reflexivity|].
      apply cuts_nil. apply (XInv_XDisk cr c d bs X).
  Qed.

  (* only the data store differs, and it still begins with the blocks *)
  Lemma XDisk_data kp d d' bs :
    XDisk cr kp d bs -> d_tree d' = d_tree d -> d_bitfield d' = d_bitfield d -> d_oplog d' = d_oplog d ->
    (exists junk, f_content (d_data d') = concat bs ++ junk) -> XDisk cr kp d' bs.
  Proof.
    intros (Hs & Hn & _ & R) Et Eb Eo Hd. unfold XDisk. rewrite Et, Eb, Eo.
    split; [exact Hs|]. split; [exact Hn|]. split; [exact Hd|exact R].
  Qed.

  Lemma append_body_X f batch c d j ev bs sk :
    XInv cr c d bs -> batch <> [] ->
    sumN (map len (bs ++ batch)) <= u64_max ->
    NODE_SIZE * (2 * N.of_nat (length (bs ++ batch))) <= u64_max ->
    (* the entry does not fit a 30-bit frame: the call panics after the data write; memory is untouched
       and the disk is still a disk of the old list *)
    (exists d1,
       append_body cr f batch sk c c (mkWorld d j ev) =
         (c, mkWorld d1 (SW Data (t_byte_length (c_tree c)) (concat batch) :: j) ev, Panic frame_msg) /\
       apply_sops d [SW Data (t_byte_length (c_tree c)) (concat batch)] = Some d1 /\
       XDisk cr (c_keypair c) d1 bs) \/
    exists c' d' delta ev',
      append_body cr f batch sk c c (mkWorld d j ev) = (c', mkWorld d' (rev delta ++ j) ev', Ok tt) /\
      apply_sops d delta = Some d' /\
      XInv cr c' d' (bs ++ batch) /\ c_keypair c' = c_keypair c /\
      (* the cuts: before the entry write (k = 0, 1) the old list, from it on (k >= 2) the new one *)
      forall k, exists dk, apply_sops d (firstn k delta) = Some dk /\
                           XDisk cr (c_keypair c) dk (if (k <? 2)%nat then bs else bs ++ batch).
  Proof.
    intros X Hne Hfit Hidx.
    destruct (append_body cr f batch sk c c (mkWorld d j ev)) as [[c' w'] r] eqn:H.
    pose proof X as (W & s0 & s1 & body & st0 & st1 & hf & l & kf & Hcont & G & Hlen & Hbytes & Hhf & Hhc & Hch &
                     Hstore & Hbx & Hsync).
    pose proof W as (HL & HB & HF & HR & Hlook & Hun & Hbf & Hcg & (junk & Hd) & Hs & Hn).
    set (B := bs ++ batch) in *. set (n := N.of_nat (length bs)) in *.
    set (k := N.of_nat (length batch)).
    assert (Hk : 0 < k) by (destruct batch; [congruence|unfold k; cbn [length]; lia]).
    assert (HlenB : N.of_nat (length B) = n + k) by (unfold B, n, k; rewrite app_length; lia).
    assert (HsumB : sumN (map len B) = sumN (map len bs) + sumN (map len batch))
      by (unfold B; rewrite map_app; apply TreeRef.sumN_app).
    set (cs0 := tree_changeset (c_tree c)) in *.
    assert (R0 : cs_roots cs0 = ref_roots cr B n).
    { unfold cs0, B. cbn [tree_changeset cs_roots]. rewrite HR. symmetry. apply ref_roots_app. unfold n. lia. }
    assert (L0 : cs_length cs0 = n) by exact HL.
    assert (Hblk : forall i, (i < length batch)%nat -> nth i batch [] = blk B (n + N.of_nat i))
      by (intros i Hi; apply batch_blk, Hi).
    destruct (cs_append_all_no_panic cr B Hfit batch cs0 n R0 L0 Hblk) as [cs1 Hcs].
    { unfold cs0. cbn [tree_changeset cs_byte_length]. rewrite HB. lia. }
    destruct (cs_append_all_ref cr B batch cs0 cs1 n R0 L0 Hblk Hcs)
      as (R1 & L1 & B1 & BL1 & A1 & F1 & U1 & Sound1).
    destruct (cs_append_all_complete cr B batch cs0 cs1 n R0 L0 Hblk Hcs) as (_ & OL1 & OF1 & Compl1).
    assert (Hn64 : n + k <= 2 ^ 64).
    { rewrite HlenB in Hidx. unfold NODE_SIZE, u64_max in Hidx. change (2 ^ 64) with 18446744073709551616. lia. }
    destruct (cs_append_all_shape cr B batch cs0 cs1 n R0 L0 Hblk Hn64 Hcs) as (new & Enew & Lnew & Shape1).
    unfold cs0 in B1, BL1, A1, F1, OL1, OF1, Sound1, Enew.
    cbn [tree_changeset cs_byte_length cs_batch_length cs_ancestors cs_fork cs_orig_length cs_orig_fork cs_nodes
         cs_rnodes rev_append] in B1, BL1, A1, F1, OL1, OF1, Sound1, Enew.
    rewrite app_nil_r in Enew.
    assert (Sound : forall x, In x (cs_nodes cs1) -> x = ref_at cr B (n_index x)).
    { intros x Hx. destruct (Sound1 x Hx) as [[]|E]. exact E. }
    assert (Shape : forall x, In x (cs_nodes cs1) -> exists jj q, x = ref_node cr B jj q /\ (q + 1) * p2 jj <= n + k).
    { intros x Hx. apply in_cs_nodes in Hx. rewrite Enew in Hx.
      destruct (Shape1 x Hx) as (jj & q & -> & _ & Q2). exists jj, q. split; [reflexivity|exact Q2]. }
    unfold append_body in H. rewrite mbind_lift in H. fold cs0 in H. rewrite Hcs in H. cbv zeta in H.
    rewrite mbind_emit_SW in H. cbn [w_disk w_journal w_events d_get] in H.
    set (cs := cs_hash_and_sign cr cs1 sk) in *.
    set (bu := mkBfUpdate false (cs_ancestors cs) (cs_batch_length cs)) in *.
    assert (Hbu : bu = mkBfUpdate false n k).
    { unfold bu, cs, cs_hash_and_sign, cs_set_hash_sig. cbn [cs_ancestors cs_batch_length].
      rewrite A1, BL1, HL. f_equal; lia. }
    assert (P1 : cs_upgraded cs = true).
    { unfold cs, cs_hash_and_sign, cs_set_hash_sig. cbn [cs_upgraded]. apply U1, Hne. }
    assert (P5 : cs_orig_fork cs = t_fork (c_tree c)).
    { unfold cs, cs_hash_and_sign, cs_set_hash_sig. cbn [cs_orig_fork]. exact OF1. }
    assert (P6 : cs_orig_length cs = t_length (c_tree c)).
    { unfold cs, cs_hash_and_sign, cs_set_hash_sig. cbn [cs_orig_length]. exact OL1. }
    assert (P7 : cs_ancestors cs = t_length (c_tree c)).
    { unfold cs, cs_hash_and_sign, cs_set_hash_sig. cbn [cs_ancestors]. exact A1. }
    set (hash := cs_tree_hash cr cs1) in *.
    set (sg := cr_sign cr sk (cs_signable cs1 hash)) in *.
    assert (Ecs : cs_nodes cs = cs_nodes cs1 /\ cs_fork cs = 0 /\ cs_length cs = n + k /\
                  cs_roots cs = ref_roots cr B (n + k) /\ cs_byte_length cs = sumN (map len B) /\
                  cs_hash cs = Some hash /\ cs_signature cs = Some sg).
    { unfold cs, cs_hash_and_sign, cs_set_hash_sig.
      cbn [cs_nodes cs_rnodes cs_fork cs_length cs_roots cs_byte_length cs_hash cs_signature].
      fold (cs_nodes cs1). rewrite F1, HF, L1, R1, B1, HB, HsumB. repeat split; reflexivity. }
    destruct Ecs as (EN & EF & EL & ER & EB & EH & ES).
    set (e := mkEntry (cs_nodes cs) (Some (mkTreeUpgrade (cs_fork cs) (cs_ancestors cs) (cs_length cs) sg)) (Some bu)).
    assert (Ee : e = mkEntry (cs_nodes cs1) (Some (mkTreeUpgrade 0 n (n + k) sg)) (Some (mkBfUpdate false n (n + k - n)))).
    { unfold e. rewrite EN, EF, EL, P7, HL, Hbu. replace (n + k - n) with k by lia. reflexivity. }
    assert (Heok : entry_ok e = true).
    { rewrite Ee. apply (append_entry_ok cr Hhash32 Hhashbytes B); try assumption.
      - rewrite <- HlenB. exact Hidx.
      - lia.
      - rewrite length_cs_nodes, Enew. replace (n + k - n) with k by lia. unfold k. lia.
      - apply Hsig64.
      - apply Hsigbytes. }
    assert (P4 : forall x, In x (e_nodes e) -> length (n_hash x) = 32%nat).
    { intros x Hx. unfold e in Hx. cbn [e_nodes] in Hx. rewrite EN in Hx. rewrite (Sound x Hx).
      apply ref_at_hash_length, Hhash32. }
    (* the data store after the write *)
    assert (XD0 : XDisk cr (c_keypair c) d bs) by (apply (XInv_XDisk cr c d bs X)).
    set (offd := t_byte_length (c_tree c)) in *.
    set (fd := f_write (d_data d) offd (concat batch)) in *.
    assert (Hfd : f_content fd = (concat bs ++ concat batch) ++ skipn (length (concat batch)) junk).
    { unfold fd. rewrite HB, <- len_concat, f_content_write, Hd. apply c_write_after. }
    set (d1 := d_set d Data fd) in *.
    (* the cut after the data write only: still the old list, with junk in the data store *)
    assert (XD1 : XDisk cr (c_keypair c) d1 bs).
    { apply (XDisk_data (c_keypair c) d d1 bs XD0); try reflexivity.
      exists (concat batch ++ skipn (length (concat batch)) junk).
      change (d_data d1) with fd. rewrite Hfd, <- app_assoc. reflexivity. }
    destruct (oplog_append_cases cr (c_oplog c) e P4) as [OA|(o' & fr & OA)].
    { match type of H with
      | mbind (log_and_commit _ _ _) _ ?c0 ?w0 = _ =>
          pose proof (log_and_commit_panic cr cs bu c0 w0 hash sg frame_msg P1 EH ES OA) as E
      end.
      rewrite (mbind_panic _ _ _ _ _ _ _ E) in H. injection H as <- <- <-. left.
      exists d1. split; [reflexivity|]. split; [reflexivity|exact XD1]. }
    match type of H with
    | mbind (log_and_commit _ _ _) _ ?c0 ?w0 = _ =>
        pose proof (log_and_commit_detail cr cs bu c0 w0 hash sg o' _ fr P1 EH ES P5 P6 P7 OA) as E
    end.
    rewrite (mbind_eq _ _ _ _ _ _ _ E) in H. clear E.
    cbn [w_disk w_journal w_events] in H.
    rewrite EN, EF, EL, ER, EB in H.
    (* the oplog file after the append *)
    assert (Eol : c_oplog c = oo_oplog (stable_result (ol_bits (c_oplog c)) hf l)).
    { cbn [stable_result oo_oplog]. destruct (c_oplog c) as [bits el eb]. cbn [ol_bits ol_entries_len ol_entries_bytes] in *.
      rewrite Hlen, Hbytes. reflexivity. }
    rewrite Eol in OA.
    destruct (append_crash cr Hcrc s0 s1 body st0 st1 _ hf l e o' _ G Heok OA)
      as (fr' & Eops & _ & Cw & G' & _ & Eo' & _).
    injection Eops as Eoff <-. cbn [stable_result oo_oplog ol_entries_bytes] in Eoff.
    set (off := ENTRIES_OFFSET + ol_entries_bytes (c_oplog c)) in *.
    set (d2 := d_set d1 Oplog (f_write (d_oplog d1) off fr)) in *.
    (* the state after the commit satisfies the invariant for the longer list *)
    match type of H with
    | mbind (maybe_flush _ _) _ ?c2 (mkWorld _ ?j2 ?ev2) = _ =>
        assert (X2 : XInv cr c2 d2 B); [|set (c2' := c2) in *]
    end.
    { assert (Tsame : d_tree d2 = d_tree d) by reflexivity.
      assert (Dsame : d_data d2 = fd) by reflexivity.
      assert (Bsame : d_bitfield d2 = d_bitfield d) by reflexivity.
      assert (Osame : d_oplog d2 = f_write (d_oplog d) off fr) by reflexivity.
      destruct (contig_after (c_bitfield c) n k Hbf Hk) as [G1 G2].
      split.
      { unfold XW. cbn [c_tree c_bitfield c_header t_length t_byte_length t_fork t_roots].
        rewrite Tsame, Dsame.
        split; [symmetry; exact HlenB|].
        split; [reflexivity|].
        split; [reflexivity|].
        split; [rewrite HlenB; reflexivity|].
        split.
        { apply (commit_lookups cr Hnonblank bs batch (c_tree c) _ (d_tree d) (cs_nodes cs1)).
          - exact Sound.
          - intros jj q Q1 Q2. apply Compl1; [exact Q1|]. fold B in Q2. rewrite HlenB in Q2. exact Q2.
          - reflexivity.
          - exact Hlook. }
        split.
        { apply (commit_unflushed_ok cr Hhash32 B (c_tree c) _ (cs_nodes cs1) Hfit Sound); [reflexivity|exact Hun]. }
        split; [intros i; rewrite Hbu, HlenB; apply G1|].
        split; [cbn [set_contig hd_contig]; rewrite Hcg, Hbu, HlenB; exact G2|].
        split.
        { exists (skipn (length (concat batch)) junk). rewrite Hfd. unfold B. rewrite concat_app. reflexivity. }
        split; [exact Hfit|exact Hidx]. }
      cbn [c_oplog c_keypair c_header c_bitfield c_tree].
      rewrite Tsame, Bsame, Osame, HlenB.
      destruct Hhc as (Hok & Hkp & Hfk & Hln & Hcgc & Hrh & Hsgc).
      exists s0, s1, (body ++ fr), st0, st1, hf, (l ++ [e]), kf.
      split.
      { rewrite f_content_write, Hcont. unfold off. rewrite Hbytes, Eoff. exact Cw. }
      split; [rewrite Eo'; exact G'|].
      split; [rewrite Eo'; reflexivity|]. split; [rewrite Eo'; reflexivity|].
      split; [exact Hhf|].
      split.
      { apply (hdr_desc_upd (c_keypair c) (c_header c) n _ (n + k) hash sg); try reflexivity.
        - repeat split; assumption.
        - cbn [set_contig set_tree hd_tree]. rewrite Hfk. reflexivity.
        - cbn [set_contig hd_contig]. rewrite Hcg, Hbu. exact G2.
        - rewrite <- HlenB. unfold NODE_SIZE in Hidx. lia.
        - apply Hhash32.
        - apply Hhashbytes.
        - apply Hsig64.
        - apply Hsigbytes. }
      split.
      { apply (echain_snoc cr B l kf n e (n + k)).
        - apply echain_app; [apply N.le_refl|exact Hch].
        - rewrite Ee. split; [lia|]. split.
          { exists sg. split; [reflexivity|]. split; [apply Hsig64|apply Hsigbytes]. }
          split; [reflexivity|]. cbn [e_nodes]. split; [exact Shape|].
          intros jj q Q1 Q2. apply Compl1; assumption. }
      split.
      { intros dd0 o Hfull. rewrite (Hstore dd0 o Hfull). f_equal. symmetry. apply ref_node_app.
        pose proof (echain_le cr bs l kf n Hch). fold n. lia. }
      split; [apply (BfX_weaken _ kf n); [exact Hbx|lia]|].
      apply BfSync_apply, Hsync. }
    assert (K2 : c_keypair c2' = c_keypair c) by reflexivity.
    destruct (maybe_flush_X f c2' d2 (SW Oplog off fr :: SW Data offd (concat batch) :: j) ev B X2)
      as (c3 & d3 & fl & E & A3 & X3 & K3 & C3).
    rewrite (mbind_eq _ _ _ _ _ _ _ E) in H.
    rewrite !mbind_send in H. unfold send in H. cbn [w_disk w_journal w_events] in H.
    injection H as <- <- <-. right.
    exists c3, d3, (SW Data offd (concat batch) :: SW Oplog off fr :: fl). eexists.
    split.
    { cbn [rev]. rewrite <- !app_assoc. reflexivity. }
    split.
    { cbn [apply_sops apply_sop d_get]. exact A3. }
    split; [exact X3|]. split; [rewrite K3; exact K2|].
    intros k0. destruct k0 as [|[|k0]].
    - exists d. split; [reflexivity|exact XD0].
    - exists d1. split; [reflexivity|exact XD1].
    - destruct (C3 k0) as (dk & Ak & Xk). exists dk. split.
      + cbn [firstn apply_sops apply_sop d_get]. exact Ak.
      + change (XDisk cr (c_keypair c) dk B). rewrite <- K2. exact Xk.
  Qed.
End AppendX.

(* ====================================================================================== *)
(* F. core_append: (4) preservation of XInv and (5) the cut theorem                        *)
(* ====================================================================================== *)

Section CoreAppendX.
  Variable cr : crypto.
  Hypothesis Hcrc : crc_ok cr.
  Hypothesis Hhash32 : forall x, length (cr_hash cr x) = 32%nat.
  Hypothesis Hnonblank : forall x, all_zero (cr_hash cr x) = false.
  Hypothesis Hhashbytes : forall x, bytes_ok (cr_hash cr x) = true.
  Hypothesis Hsig64 : forall sk m, length (cr_sign cr sk m) = 64%nat.
  Hypothesis Hsigbytes : forall sk m, bytes_ok (cr_sign cr sk m) = true.

  (* the run of an append from an XInv state: result, journal, final state, and every cut *)
  Theorem append_X f batch c d j ev bs sk :
    XInv cr c d bs -> kp_secret (c_keypair c) = Some sk ->
    sumN (map len (bs ++ batch)) <= u64_max ->
    NODE_SIZE * (2 * N.of_nat (length (bs ++ batch))) <= u64_max ->
    (* the oplog entry does not fit a 30-bit frame: panic after the data write, memory untouched, the disk
       is still a disk of the old list *)
    (exists d1,
       core_append cr f batch c (mkWorld d j ev) =
         (c, mkWorld d1 (SW Data (t_byte_length (c_tree c)) (concat batch) :: j) ev, Panic frame_msg) /\
       apply_sops d [SW Data (t_byte_length (c_tree c)) (concat batch)] = Some d1 /\
       XDisk cr (c_keypair c) d1 bs) \/
    exists c' d' delta ev',
      core_append cr f batch c (mkWorld d j ev) =
        (c', mkWorld d' (rev delta ++ j) ev',
         Ok (N.of_nat (length (bs ++ batch)), sumN (map len (bs ++ batch)))) /\
      apply_sops d delta = Some d' /\
      XInv cr c' d' (bs ++ batch) /\ c_keypair c' = c_keypair c /\
      forall k, exists dk, apply_sops d (firstn k delta) = Some dk /\
                           XDisk cr (c_keypair c) dk (if (k <? 2)%nat then bs else bs ++ batch).
  Proof.
    intros X Hsk Hfit Hidx.
    unfold core_append. rewrite mbind_get_core, Hsk.
    destruct batch as [|b0 rest].
    - right. rewrite mbind_ret, mbind_get_core. unfold ret.
      exists c, d, [], ev. rewrite app_nil_r.
      pose proof (XInv_XW cr c d bs X) as (HL & HB & _). rewrite HL, HB.
      split; [reflexivity|]. split; [reflexivity|]. split; [exact X|]. split; [reflexivity|].
      intros k. exists d. rewrite firstn_nil. split; [reflexivity|].
      destruct (k <? 2)%nat; apply (XInv_XDisk cr c d bs X).
    - cbv iota. fold (append_body cr f (b0 :: rest) sk c).
      destruct (append_body_X cr Hcrc Hhash32 Hnonblank Hhashbytes Hsig64 Hsigbytes
                  f (b0 :: rest) c d j ev bs sk X ltac:(discriminate) Hfit Hidx)
        as [(d1 & E & A & XD)|(c1 & d1 & delta & ev1 & E & A & X1 & K1 & C1)].
      + left. rewrite (mbind_panic _ _ _ _ _ _ _ E). exists d1. split; [reflexivity|]. split; [exact A|exact XD].
      + right. rewrite (mbind_eq _ _ _ _ _ _ _ E), mbind_get_core. unfold ret.
        pose proof (XInv_XW cr _ _ _ X1) as (HL & HB & _). rewrite HL, HB.
        exists c1, d1, delta, ev1.
        split; [reflexivity|]. split; [exact A|]. split; [exact X1|]. split; [exact K1|exact C1].
  Qed.

  (* (4) core_append preserves XInv, for every flush decision *)
  Theorem append_XInv f batch c d j ev bs sk c' w' r :
    XInv cr c d bs -> kp_secret (c_keypair c) = Some sk ->
    sumN (map len (bs ++ batch)) <= u64_max ->
    NODE_SIZE * (2 * N.of_nat (length (bs ++ batch))) <= u64_max ->
    core_append cr f batch c (mkWorld d j ev) = (c', w', r) ->
    r = Panic frame_msg \/
    (r = Ok (N.of_nat (length (bs ++ batch)), sumN (map len (bs ++ batch))) /\
     XInv cr c' (w_disk w') (bs ++ batch) /\ c_keypair c' = c_keypair c).
  Proof.
    intros X Hsk Hfit Hidx H.
    destruct (append_X f batch c d j ev bs sk X Hsk Hfit Hidx)
      as [(d1 & E & _)|(c1 & d1 & delta & ev1 & E & A & X1 & K1 & C1)]; rewrite E in H; injection H as <- <- <-.
    - left. reflexivity.
    - right. split; [reflexivity|]. split; [exact X1|exact K1].
  Qed.

  (* (5) the cut theorem: the process dies after any k operations of the journal of a successful
     append; reopening the disk reached succeeds and gives the state before the call (k = 0: nothing
     written; k = 1: only the data write) or the state after it (k >= 2: the oplog entry is written),
     with the same key pair *)
  Theorem append_cut_recovers_X f batch c d j ev bs sk c' w' x delta :
    XInv cr c d bs -> kp_secret (c_keypair c) = Some sk ->
    sumN (map len (bs ++ batch)) <= u64_max ->
    NODE_SIZE * (2 * N.of_nat (length (bs ++ batch))) <= u64_max ->
    core_append cr f batch c (mkWorld d j ev) = (c', w', Ok x) ->
    w_journal w' = rev delta ++ j ->
    forall k, exists dk,
      apply_sops d (firstn k delta) = Some dk /\
      exists ck dk' ops,
        core_open cr None true dk = (dk', ops, Ok ck) /\
        XInv cr ck dk' (if (k <? 2)%nat then bs else bs ++ batch) /\
        c_keypair ck = c_keypair c /\ c_skip ck = 0.
  Proof.
    intros X Hsk Hfit Hidx H Hj k.
    destruct (append_X f batch c d j ev bs sk X Hsk Hfit Hidx)
      as [(d1 & E & _)|(c1 & d1 & delta0 & ev1 & E & A & X1 & K1 & C1)]; rewrite E in H; [discriminate H|].
    injection H as <- <- <-. cbn [w_journal] in Hj.
    apply app_inv_tail in Hj. apply (f_equal (@rev sop)) in Hj. rewrite !rev_involutive in Hj. subst delta0.
    destruct (C1 k) as (dk & Ak & XD). exists dk. split; [exact Ak|].
    destruct (reopen_X cr Hcrc Hhash32 Hnonblank Hhashbytes (c_keypair c) dk _ XD)
      as (ck & dk' & ops & Eo & Xk & Kk & Sk & _).
    exists ck, dk', ops. split; [exact Eo|]. split; [exact Xk|]. split; [exact Kk|exact Sk].
  Qed.

  (* an append that panics (30-bit frame guard) dies after its data write: reopening gives the state
     before the call *)
  Theorem append_panic_recovers f batch c d j ev bs sk c' w' s :
    XInv cr c d bs -> kp_secret (c_keypair c) = Some sk ->
    sumN (map len (bs ++ batch)) <= u64_max ->
    NODE_SIZE * (2 * N.of_nat (length (bs ++ batch))) <= u64_max ->
    core_append cr f batch c (mkWorld d j ev) = (c', w', Panic s) ->
    s = frame_msg /\ c' = c /\ w_events w' = ev /\
    exists o, w_journal w' = o :: j /\ apply_sop d o = Some (w_disk w') /\
    exists ck dk' ops,
      core_open cr None true (w_disk w') = (dk', ops, Ok ck) /\
      XInv cr ck dk' bs /\ c_keypair ck = c_keypair c.
  Proof.
    intros X Hsk Hfit Hidx H.
    destruct (append_X f batch c d j ev bs sk X Hsk Hfit Hidx)
      as [(d1 & E & A & XD)|(c1 & d1 & delta0 & ev1 & E & _)]; rewrite E in H; [|discriminate H].
    injection H as <- <- <-. split; [reflexivity|]. split; [reflexivity|]. split; [reflexivity|].
    eexists. split; [reflexivity|]. cbn [w_disk].
    split. { cbn [apply_sops] in A. destruct (apply_sop d _) as [dx|]; [exact A|discriminate A]. }
    destruct (reopen_X cr Hcrc Hhash32 Hnonblank Hhashbytes (c_keypair c) d1 bs XD)
      as (ck & dk' & ops & Eo & Xk & Kk & _).
    exists ck, dk', ops. split; [exact Eo|]. split; [exact Xk|exact Kk].
  Qed.

  (* the same from a DInv state (e.g. after creation and any history of the writer fragment) *)
  Corollary append_cut_recovers f batch c d j ev bs sk c' w' x delta :
    DInv cr c d bs -> kp_secret (c_keypair c) = Some sk ->
    sumN (map len (bs ++ batch)) <= u64_max ->
    NODE_SIZE * (2 * N.of_nat (length (bs ++ batch))) <= u64_max ->
    core_append cr f batch c (mkWorld d j ev) = (c', w', Ok x) ->
    w_journal w' = rev delta ++ j ->
    forall k, exists dk,
      apply_sops d (firstn k delta) = Some dk /\
      exists ck dk' ops,
        core_open cr None true dk = (dk', ops, Ok ck) /\
        (XInv cr ck dk' bs \/ XInv cr ck dk' (bs ++ batch)) /\
        c_keypair ck = c_keypair c /\ c_skip ck = 0.
  Proof.
    intros D Hsk Hfit Hidx H Hj k.
    destruct (append_cut_recovers_X f batch c d j ev bs sk c' w' x delta (DInv_XInv cr c d bs D) Hsk Hfit Hidx H Hj k)
      as (dk & A & ck & dk' & ops & E & Xk & R).
    exists dk. split; [exact A|]. exists ck, dk', ops. split; [exact E|]. split; [|exact R].
    destruct (k <? 2)%nat; [left|right]; exact Xk.
  Qed.

  (* with the observations spelled out: after the cut and the reopen, info / has / get are those of the
     list model for bs or for bs ++ batch *)
  Corollary append_cut_observations f batch c d j ev bs sk c' w' x delta :
    XInv cr c d bs -> kp_secret (c_keypair c) = Some sk ->
    sumN (map len (bs ++ batch)) <= u64_max ->
    NODE_SIZE * (2 * N.of_nat (length (bs ++ batch))) <= u64_max ->
    core_append cr f batch c (mkWorld d j ev) = (c', w', Ok x) ->
    w_journal w' = rev delta ++ j ->
    forall k, exists dk,
      apply_sops d (firstn k delta) = Some dk /\
      exists ck dk' ops,
        core_open cr None true dk = (dk', ops, Ok ck) /\
        (obs_list ck dk' bs \/ obs_list ck dk' (bs ++ batch)).
  Proof.
    intros X Hsk Hfit Hidx H Hj k.
    destruct (append_cut_recovers_X f batch c d j ev bs sk c' w' x delta X Hsk Hfit Hidx H Hj k)
      as (dk & A & ck & dk' & ops & E & Xk & _).
    exists dk. split; [exact A|]. exists ck, dk', ops. split; [exact E|].
    pose proof (XInv_observations cr Hhash32 Hnonblank ck dk' _ Xk) as O.
    destruct (k <? 2)%nat; [left|right]; exact O.
  Qed.
End CoreAppendX.

Print Assumptions flush_all_X.
Print Assumptions append_body_X.
Print Assumptions append_X.
Print Assumptions append_XInv.
Print Assumptions append_cut_recovers_X.
Print Assumptions append_panic_recovers.
Print Assumptions append_cut_recovers.
Print Assumptions append_cut_observations.

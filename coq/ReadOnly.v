(* ReadOnly.v — C12 end to end at the Core level: make_read_only on ANY state satisfying the disk
   invariant DInv of Reopen.v (writable or already read-only, pending entries or not, either slot
   parity; the call always erases and rewrites both header slots and returns the old writability),
   the reopen that follows, what the oplog file holds afterwards, a crash inside the call, and a
   second call after such a crash (secret_gone_after_any_completed_call, the regression for the
   repaired finding D25). *)
From HC Require Import Base NMap Codec CodecFacts Crypto FlatTree Storage Bitfield Oplog Merkle Core.
From HC Require Import FlatTreeFacts StorageFacts BitfieldFacts OplogFacts TreeRef OffsetFacts CoreFacts Crash Refine Reopen.
From Coq Require Import FMapPositive ZifyN ZifyNat ZifyBool.
Ltac Zify.zify_post_hook ::= Z.div_mod_to_equations.
Arguments N.add : simpl never.
Arguments N.sub : simpl never.
Arguments N.mul : simpl never.
Arguments N.div : simpl never.
Arguments N.modulo : simpl never.
Arguments N.pow : simpl never.
Arguments N.eqb : simpl never.
Arguments N.ltb : simpl never.
Arguments N.leb : simpl never.
Arguments N.of_nat : simpl never.
Arguments N.to_nat : simpl never.

(* ====================================================================================== *)
(* A. The header slots written with clear_traces                                           *)
(* ====================================================================================== *)

(* the CRC frame of header h carrying header bit b, and the 4096-byte slot image written by
   insert_header with clear_traces = true: the frame followed by zeros *)
Definition slot_frame (cr : crypto) (b : bool) (h : header) : bytes :=
  let payload := enc_header h in
  let lf := le_bytes 4 (len_field (len payload) b false) in
  le_bytes 4 (cr_crc cr (lf ++ payload)) ++ lf ++ payload.

Definition slot_bytes (cr : crypto) (b : bool) (h : header) : bytes :=
  pad_to HEADER_SIZE (slot_frame cr b h).

(* the key pair / header left by make_read_only *)
Definition ro_keypair (c : core) : keypair := mkKeypair (kp_public (c_keypair c)) None.
Definition ro_header (c : core) : header :=
  set_keypair (c_header c) (mkKeypair (kp_public (hd_keypair (c_header c))) None).

(* the four oplog operations of flush_all with clear_traces, for slot bits [bits] and header h *)
Definition ro_oplog_ops (cr : crypto) (bits : bool * bool) (h : header) : list sop :=
  [SW Oplog (w_slot bits) (slot_bytes cr (w_bit bits) h); ST Oplog (ENTRIES_OFFSET + 0);
   SW Oplog (w_slot (w_bits bits)) (slot_bytes cr (w_bit (w_bits bits)) h); ST Oplog (ENTRIES_OFFSET + 0)].

Definition page_ops (b : bitfield) : list sop :=
  map (fun p => SW Bitfield (p * PAGE_BYTES) (page_bytes (bf_bits b) p)) (bf_dirty b).

Definition unflushed_nodes (t : mtree) : list node := map snd (nm_elements (t_unflushed t)).

Definition node_ops (t : mtree) : list sop := map node_write (unflushed_nodes t).

(* the journal delta of make_read_only on core c, oldest operation first:
   bitfield pages, tree nodes, slot write, truncate, other slot write, truncate *)
Definition ro_ops (cr : crypto) (c : core) : list sop :=
  page_ops (c_bitfield c) ++ node_ops (c_tree c) ++ ro_oplog_ops cr (ol_bits (c_oplog c)) (ro_header c).

Definition flushed_tree (t : mtree) : mtree :=
  mkTree (t_roots t) (t_length t) (t_byte_length t) (t_fork t) (t_signature t) nm_empty.

Lemma w_bits_twice bits : w_bits (w_bits bits) = (negb (fst bits), negb (snd bits)).
Proof. destruct bits as [[] []]; reflexivity. Qed.

Lemma slot_frame_is_frame cr b h fr :
  frame cr b false (enc_header h) = Ok fr -> fr = slot_frame cr b h.
Proof.
  unfold frame. destruct (1073741824 <=? len (enc_header h)); [discriminate|].
  intros H. injection H as <-. reflexivity.
Qed.

Lemma frame_slot_frame cr b h :
  len (enc_header h) < 1073741824 -> frame cr b false (enc_header h) = Ok (slot_frame cr b h).
Proof.
  intros H. unfold frame. destruct (N.leb_spec 1073741824 (len (enc_header h))) as [L|L]; [lia|]. reflexivity.
Qed.

Lemma len_slot_frame cr b h :
  len (enc_header h) < 1073741824 -> len (slot_frame cr b h) = 8 + len (enc_header h).
Proof. intros H. apply (frame_length cr b false). apply frame_slot_frame, H. Qed.

Lemma length_slot_bytes cr b h :
  8 + len (enc_header h) <= HEADER_SIZE -> length (slot_bytes cr b h) = SLOT.
Proof.
  intros H. unfold slot_bytes, pad_to. rewrite app_length, zeros_length.
  pose proof (len_slot_frame cr b h ltac:(unfold HEADER_SIZE in H; lia)) as L. unfold len in *. lia.
Qed.

Lemma insert_header_true cr h eb bits :
  8 + len (enc_header h) <= HEADER_SIZE ->
  insert_header cr h eb bits true =
    Ok (w_bits bits, [SW Oplog (w_slot bits) (slot_bytes cr (w_bit bits) h); ST Oplog (ENTRIES_OFFSET + eb)]).
Proof.
  intros Hfit. unfold insert_header, w_bits, w_slot, w_bit.
  destruct (next_slot bits) as [[slot bit] bits'] eqn:E. cbn [fst snd].
  assert (Hlt : len (enc_header h) < 1073741824) by (unfold HEADER_SIZE in Hfit; lia).
  rewrite (frame_slot_frame cr bit h Hlt). cbn [bind].
  rewrite (len_slot_frame cr bit h Hlt).
  destruct (N.ltb_spec HEADER_SIZE (8 + len (enc_header h))) as [Lt|Ge]; [lia|].
  reflexivity.
Qed.

Lemma oplog_flush_true cr o h :
  8 + len (enc_header h) <= HEADER_SIZE ->
  oplog_flush cr o h true = Ok (mkOplog (w_bits (w_bits (ol_bits o))) 0 0, ro_oplog_ops cr (ol_bits o) h).
Proof.
  intros Hfit. unfold oplog_flush.
  rewrite (insert_header_true cr h 0 (ol_bits o) Hfit). cbn [bind].
  rewrite (insert_header_true cr h 0 (w_bits (ol_bits o)) Hfit). cbn [bind].
  reflexivity.
Qed.

Lemma ro_oplog_ops_store cr bits h : Forall (fun o => sop_store o = Oplog) (ro_oplog_ops cr bits h).
Proof. repeat constructor. Qed.

(* a header of the shape hdr_desc fits a slot *)
Lemma hdr_desc_fits kp h n : hdr_desc kp h n -> 8 + len (enc_header h) <= HEADER_SIZE.
Proof.
  intros (Hok & _ & _ & _ & _ & Hrh & Hsg).
  assert (Hs : len (ht_signature (hd_tree h)) <= 64).
  { destruct Hsg as [->|Hsg]; unfold len; [cbn; lia|rewrite Hsg; lia]. }
  destruct (hdr_fits_real h Hok Hrh Hs) as [F|F]; [discriminate F|]. lia.
Qed.

Lemma header_ok_erase h :
  header_ok h = true -> header_ok (set_keypair h (mkKeypair (kp_public (hd_keypair h)) None)) = true.
Proof.
  unfold header_ok. cbn [set_keypair hd_key hd_ns hd_mpk hd_keypair hd_tree hd_contig].
  intros H. split_ok H. rewrite H, Hok6, Hok5, Hok3, Hok2, Hok1, Hok0, Hok. cbn [andb].
  rewrite !andb_true_r. unfold keypair_ok in *. cbn [kp_public kp_secret]. split_ok Hok4.
  rewrite Hok4, Hok8. reflexivity.
Qed.

Lemma hdr_desc_erase kp h n :
  hdr_desc kp h n ->
  hdr_desc (mkKeypair (kp_public kp) None) (set_keypair h (mkKeypair (kp_public (hd_keypair h)) None)) n.
Proof.
  intros (Hok & Hkp & Hfk & Hln & Hcg & Hrh & Hsg).
  split; [apply header_ok_erase, Hok|].
  cbn [set_keypair hd_keypair hd_tree hd_contig]. rewrite Hkp.
  repeat split; assumption.
Qed.

(* ====================================================================================== *)
(* B. flush_all with clear_traces, step by step                                            *)
(* ====================================================================================== *)

Lemma page_ops_no_del b : Forall no_del (page_ops b).
Proof. apply Forall_forall. intros o Ho. apply in_map_iff in Ho as (p & <- & _). exact I. Qed.

Lemma node_ops_no_del t : Forall no_del (node_ops t).
Proof. apply Forall_forall. intros o Ho. apply in_map_iff in Ho as (p & <- & _). exact I. Qed.

Lemma ro_oplog_ops_no_del cr bits h : Forall no_del (ro_oplog_ops cr bits h).
Proof. repeat constructor. Qed.

Section Flush.
  Variable cr : crypto.

  (* the disks reached while flushing: after the pages, after the nodes *)
  Definition disk_pages (c : core) (d : disk) : disk :=
    d_set d Bitfield (write_pages (d_bitfield d) (bf_bits (c_bitfield c)) (bf_dirty (c_bitfield c))).
  Definition disk_nodes (c : core) (d : disk) : disk :=
    d_set (disk_pages c d) Tree (write_nodes (d_tree d) (unflushed_nodes (c_tree c))).

  Lemma apply_page_ops c d : apply_sops d (page_ops (c_bitfield c)) = Some (disk_pages c d).
  Proof. apply apply_page_writes. Qed.

  Lemma apply_node_ops c d : apply_sops (disk_pages c d) (node_ops (c_tree c)) = Some (disk_nodes c d).
  Proof.
    unfold node_ops. rewrite apply_node_writes. unfold disk_nodes. destruct d; reflexivity.
  Qed.

  Lemma flush_all_true_detail (c : core) (w : world) :
    unflushed_ok (c_tree c) -> 8 + len (enc_header (c_header c)) <= HEADER_SIZE ->
    let oops := ro_oplog_ops cr (ol_bits (c_oplog c)) (c_header c) in
    exists d3,
      apply_sops (disk_nodes c (w_disk w)) oops = Some d3 /\
      flush_all cr true c w =
        (mkCore (c_keypair c) (mkOplog (w_bits (w_bits (ol_bits (c_oplog c)))) 0 0) (flushed_tree (c_tree c))
                (mkBf (bf_bits (c_bitfield c)) []) (c_header c) (c_skip c),
         mkWorld d3 (rev oops ++ rev (node_ops (c_tree c)) ++ rev (page_ops (c_bitfield c)) ++ w_journal w)
                 (w_events w),
         Ok tt).
  Proof.
    intros Hok Hfit oops. unfold flush_all. rewrite mbind_get_core. unfold bf_flush. cbv iota.
    rewrite mbind_put_bitfield.
    fold (page_ops (c_bitfield c)).
    match goal with |- context [mbind (emit ?ops) ?f ?c1 ?w1] =>
      destruct (emit_total ops c1 w1 (page_ops_no_del _)) as (d1 & A1 & E1);
        rewrite (mbind_eq _ f _ _ _ _ _ E1)
    end.
    rewrite apply_page_ops in A1. injection A1 as <-.
    rewrite mbind_lift, (tree_flush_ok (c_tree c) Hok). cbv iota.
    rewrite mbind_put_tree.
    fold (unflushed_nodes (c_tree c)). fold (node_ops (c_tree c)). fold (flushed_tree (c_tree c)).
    match goal with |- context [mbind (emit ?ops) ?f ?c1 ?w1] =>
      destruct (emit_total ops c1 w1 (node_ops_no_del _)) as (d2 & A2 & E2);
        rewrite (mbind_eq _ f _ _ _ _ _ E2)
    end.
    cbn [w_disk] in A2. rewrite apply_node_ops in A2. injection A2 as <-.
    rewrite mbind_get_core, mbind_lift. cbn [c_oplog c_header].
    rewrite (oplog_flush_true cr (c_oplog c) (c_header c) Hfit). cbv iota.
    rewrite mbind_put_oplog. fold oops.
    match goal with |- context [emit ?ops ?c1 ?w1] =>
      destruct (emit_total ops c1 w1 (ro_oplog_ops_no_del _ _ _)) as (d3 & A3 & E3); rewrite E3
    end.
    cbn [w_disk w_journal w_events c_keypair c_oplog c_tree c_bitfield c_header c_skip] in *.
    exists d3. split; [exact A3|]. reflexivity.
  Qed.
End Flush.


(* ====================================================================================== *)
(* C. What the four oplog operations leave in the oplog file                               *)
(* ====================================================================================== *)

Lemma overlay_full d s : length d = length s -> overlay d s = d.
Proof. intros H. unfold overlay. rewrite skipn_all2 by lia. apply app_nil_r. Qed.

Lemma ro_slots_cases bits :
  (w_slot bits = 0 /\ w_bit bits = negb (fst bits) /\
   w_slot (w_bits bits) = HEADER_SIZE /\ w_bit (w_bits bits) = negb (snd bits)) \/
  (w_slot bits = HEADER_SIZE /\ w_bit bits = negb (snd bits) /\
   w_slot (w_bits bits) = 0 /\ w_bit (w_bits bits) = negb (fst bits)).
Proof. destruct bits as [[] []]; [right|left|left|right]; repeat split; reflexivity. Qed.

(* whatever the file held (any two slots, any entries): afterwards exactly the two slot images *)
Lemma ro_oplog_content cr s0 s1 body bits h :
  length s0 = SLOT -> length s1 = SLOT -> 8 + len (enc_header h) <= HEADER_SIZE ->
  c_apply_all (s0 ++ s1 ++ body) (ro_oplog_ops cr bits h) =
    Some (slot_bytes cr (negb (fst bits)) h ++ slot_bytes cr (negb (snd bits)) h).
Proof.
  intros L0 L1 Hfit. unfold ro_oplog_ops. cbn [c_apply_all c_apply]. rewrite N.add_0_r.
  pose proof (length_slot_bytes cr (negb (fst bits)) h Hfit) as LA.
  pose proof (length_slot_bytes cr (negb (snd bits)) h Hfit) as LB.
  destruct (ro_slots_cases bits) as [(E1 & E2 & E3 & E4)|(E1 & E2 & E3 & E4)]; rewrite E1, E2, E3, E4.
  - rewrite c_write_slot0 by lia. rewrite overlay_full by lia.
    rewrite c_truncate_all_entries by assumption.
    rewrite c_write_slot1 by lia. rewrite overlay_full by lia.
    rewrite c_truncate_all_entries by assumption. rewrite app_nil_r. reflexivity.
  - rewrite c_write_slot1 by lia. rewrite overlay_full by lia.
    rewrite c_truncate_all_entries by assumption.
    rewrite c_write_slot0 by lia. rewrite overlay_full by lia.
    rewrite c_truncate_all_entries by assumption. rewrite app_nil_r. reflexivity.
Qed.

(* ====================================================================================== *)
(* D. make_read_only on any state satisfying DInv (secret present or not)                  *)
(* ====================================================================================== *)

(* the core right after the secret has been erased from memory, before the flush *)
Definition erased (c : core) : core :=
  mkCore (ro_keypair c) (c_oplog c) (c_tree c) (c_bitfield c) (ro_header c) (c_skip c).

(* the core make_read_only returns *)
Definition ro_core (c : core) : core :=
  mkCore (ro_keypair c)
         (mkOplog (negb (fst (ol_bits (c_oplog c))), negb (snd (ol_bits (c_oplog c)))) 0 0)
         (flushed_tree (c_tree c)) (mkBf (bf_bits (c_bitfield c)) []) (ro_header c) (c_skip c).

(* the whole oplog file after make_read_only, as a function of public data only *)
Definition ro_oplog_file (cr : crypto) (c : core) : bytes :=
  slot_bytes cr (negb (fst (ol_bits (c_oplog c)))) (ro_header c) ++
  slot_bytes cr (negb (snd (ol_bits (c_oplog c)))) (ro_header c).

(* the call always erases and flushes; its result says whether the instance was writable *)
Lemma make_read_only_unfold cr c w :
  core_make_read_only cr c w =
  mbind (flush_all cr true) (fun _ => ret (i_writeable (core_info c))) (erased c) w.
Proof. unfold core_make_read_only. rewrite mbind_get_core. reflexivity. Qed.

Lemma rev_ro_ops cr c :
  rev (ro_ops cr c) =
  rev (ro_oplog_ops cr (ol_bits (c_oplog c)) (ro_header c)) ++ rev (node_ops (c_tree c)) ++ rev (page_ops (c_bitfield c)).
Proof. unfold ro_ops. rewrite !rev_app_distr, app_assoc. reflexivity. Qed.

(* the same for ANY content of at least two slots *)
Lemma ro_oplog_content_any cr cont bits h :
  ENTRIES_OFFSET <= len cont -> 8 + len (enc_header h) <= HEADER_SIZE ->
  c_apply_all cont (ro_oplog_ops cr bits h) =
    Some (slot_bytes cr (negb (fst bits)) h ++ slot_bytes cr (negb (snd bits)) h).
Proof.
  intros Hl Hfit.
  set (A := firstn SLOT cont). set (B := firstn SLOT (skipn SLOT cont)). set (C := skipn SLOT (skipn SLOT cont)).
  assert (E : cont = A ++ B ++ C) by (unfold A, B, C; rewrite !firstn_skipn; reflexivity).
  rewrite E. apply ro_oplog_content; [| |exact Hfit].
  - unfold A. rewrite firstn_length. unfold len, ENTRIES_OFFSET, HEADER_SIZE in *. lia.
  - unfold B. rewrite firstn_length, skipn_length. unfold len, ENTRIES_OFFSET, HEADER_SIZE in *. lia.
Qed.

Section MakeReadOnly.
  Variable cr : crypto.
  Hypothesis Hcrc : crc_ok cr.
  Hypothesis Hhash32 : forall x, length (cr_hash cr x) = 32%nat.
  Hypothesis Hnonblank : forall x, all_zero (cr_hash cr x) = false.
  Hypothesis Hhashbytes : forall x, bytes_ok (cr_hash cr x) = true.

  (* the run: result, journal, events, disk *)
  Lemma make_read_only_run c d j ev :
    unflushed_ok (c_tree c) -> 8 + len (enc_header (ro_header c)) <= HEADER_SIZE ->
    exists d',
      apply_sops (disk_nodes c d) (ro_oplog_ops cr (ol_bits (c_oplog c)) (ro_header c)) = Some d' /\
      apply_sops d (ro_ops cr c) = Some d' /\
      core_make_read_only cr c (mkWorld d j ev) =
        (ro_core c, mkWorld d' (rev (ro_ops cr c) ++ j) ev, Ok (i_writeable (core_info c))).
  Proof.
    intros Hun Hfit.
    rewrite (make_read_only_unfold cr c _).
    destruct (flush_all_true_detail cr (erased c) (mkWorld d j ev) Hun Hfit) as (d3 & A3 & E).
    cbn [erased c_keypair c_oplog c_tree c_bitfield c_header c_skip w_disk w_journal w_events] in A3, E.
    change (disk_nodes (erased c) d) with (disk_nodes c d) in A3.
    exists d3. split; [exact A3|]. split.
    { unfold ro_ops. rewrite apply_sops_app, apply_page_ops, apply_sops_app, apply_node_ops. exact A3. }
    rewrite (mbind_eq _ _ _ _ _ _ _ E). unfold ret. rewrite w_bits_twice, rev_ro_ops, <- !app_assoc.
    reflexivity.
  Qed.

  (* from the memory/tree/data invariant alone (as recovered after a crash): the call succeeds, the
     reads are kept, and the oplog file is exactly the two secret-free slot images *)
  Lemma make_read_only_WInv c d j ev bs :
    WInv cr c d bs -> 8 + len (enc_header (ro_header c)) <= HEADER_SIZE ->
    ENTRIES_OFFSET <= f_len (d_oplog d) ->
    exists d',
      core_make_read_only cr c (mkWorld d j ev) =
        (ro_core c, mkWorld d' (rev (ro_ops cr c) ++ j) ev, Ok (i_writeable (core_info c))) /\
      apply_sops d (ro_ops cr c) = Some d' /\
      apply_sops (disk_nodes c d) (ro_oplog_ops cr (ol_bits (c_oplog c)) (ro_header c)) = Some d' /\
      WInv cr (ro_core c) d' bs /\
      d_tree d' = write_nodes (d_tree d) (unflushed_nodes (c_tree c)) /\
      d_data d' = d_data d /\
      d_bitfield d' = write_pages (d_bitfield d) (bf_bits (c_bitfield c)) (bf_dirty (c_bitfield c)) /\
      f_content (d_oplog d') = ro_oplog_file cr c /\
      f_len (d_oplog d') = ENTRIES_OFFSET.
  Proof.
    intros W Hfit Hlen.
    pose proof W as (HL & HB & HF & HR & Hlook & Hun & Hbf & Hcg & Hd & Hs & Hn).
    destruct (make_read_only_run c d j ev Hun Hfit) as (d3 & A3 & Aall & E).
    set (n := N.of_nat (length bs)) in *.
    set (hn := ro_header c) in *. set (bits := ol_bits (c_oplog c)) in *.
    exists d3. split; [exact E|]. split; [exact Aall|]. split; [exact A3|].
    assert (Hops : Forall (fun o => sop_store o = Oplog) (ro_oplog_ops cr bits hn)) by apply ro_oplog_ops_store.
    assert (S3 : forall s, s <> Oplog -> d_get d3 s = d_get (disk_nodes c d) s).
    { intros s Hs'. apply (apply_sops_other _ _ _ _ A3). intros o Ho Heq.
      rewrite Forall_forall in Hops. rewrite (Hops o Ho) in Heq. apply Hs'. symmetry. exact Heq. }
    assert (T3 : d_tree d3 = write_nodes (d_tree d) (unflushed_nodes (c_tree c))).
    { change (d_tree d3) with (d_get d3 Tree). rewrite S3 by discriminate. destruct d; reflexivity. }
    assert (D3 : d_data d3 = d_data d).
    { change (d_data d3) with (d_get d3 Data). rewrite S3 by discriminate. destruct d; reflexivity. }
    assert (B3 : d_bitfield d3 = write_pages (d_bitfield d) (bf_bits (c_bitfield c)) (bf_dirty (c_bitfield c))).
    { change (d_bitfield d3) with (d_get d3 Bitfield). rewrite S3 by discriminate. destruct d; reflexivity. }
    assert (O2 : d_oplog (disk_nodes c d) = d_oplog d) by (destruct d; reflexivity).
    assert (Hcont3 : f_content (d_oplog d3) = ro_oplog_file cr c).
    { apply (c_apply_all_sound _ (disk_nodes c d) d3 _ Hops A3). rewrite O2.
      apply ro_oplog_content_any; [rewrite f_len_content; exact Hlen|exact Hfit]. }
    split.
    { unfold WInv. cbn [ro_core c_tree c_bitfield c_header flushed_tree t_length t_byte_length t_fork t_roots].
      fold n. rewrite D3.
      split; [exact HL|]. split; [exact HB|]. split; [exact HF|]. split; [exact HR|].
      split.
      { intros dd o Hfull.
        assert (TF : tree_flush (c_tree c) = Ok (flushed_tree (c_tree c), node_ops (c_tree c)))
          by (apply (tree_flush_ok (c_tree c) Hun)).
        pose proof (tree_flush_preserves_lookups (c_tree c) _ _ (disk_pages c d) (disk_nodes c d)
                      (ft_index (N.of_nat dd) o) (ref_node cr bs dd o) TF (apply_node_ops c d) Hun) as P.
        replace (d_tree d3) with (d_tree (disk_nodes c d)) by (rewrite T3; destruct d; reflexivity).
        apply P.
        - pose proof (ft_index_succ (N.of_nat dd) o) as S. fold (p2 dd) in S. pose proof (p2_pos dd).
          unfold NODE_SIZE in *. nia.
        - replace (d_tree (disk_pages c d)) with (d_tree d) by (destruct d; reflexivity). apply Hlook, Hfull. }
      split. { intros i x H. cbn [t_unflushed flushed_tree] in H. rewrite nm_get_empty in H. discriminate H. }
      split; [exact Hbf|].
      split; [unfold hn, ro_header; cbn [set_keypair hd_contig]; exact Hcg|].
      split; [exact Hd|]. split; [exact Hs|exact Hn]. }
    split; [exact T3|]. split; [exact D3|]. split; [exact B3|]. split; [exact Hcont3|].
    rewrite <- f_len_content, Hcont3. unfold ro_oplog_file. rewrite len_app. unfold len.
    rewrite !length_slot_bytes by assumption. reflexivity.
  Qed.

  (* items 1 and 3 for ANY state satisfying DInv: the result says whether the instance was writable *)
  Theorem make_read_only_correct c d j ev bs :
    DInv cr c d bs ->
    let bits := ol_bits (c_oplog c) in
    exists d',
      core_make_read_only cr c (mkWorld d j ev) =
        (ro_core c, mkWorld d' (rev (ro_ops cr c) ++ j) ev, Ok (i_writeable (core_info c))) /\
      apply_sops d (ro_ops cr c) = Some d' /\
      DInv cr (ro_core c) d' bs /\
      d_data d' = d_data d /\
      f_content (d_oplog d') =
        slot_bytes cr (negb (fst bits)) (ro_header c) ++ slot_bytes cr (negb (snd bits)) (ro_header c) /\
      f_len (d_oplog d') = ENTRIES_OFFSET.
  Proof.
    intros D bits.
    destruct D as (W & s0 & s1 & body & st0 & st1 & hf & l & kf & Hcont & G & Hlen & Hbytes & Hhf & Hhc & Hch &
                   Hstore & Hbfd & Hdirty).
    pose proof W as (HL & HB & HF & HR & Hlook & Hun & Hbf & Hcg & Hd & Hs & Hn).
    set (n := N.of_nat (length bs)) in *.
    pose proof (hdr_desc_erase _ _ _ Hhc) as Hhn. fold (ro_header c) (ro_keypair c) in Hhn.
    pose proof (hdr_desc_fits _ _ _ Hhn) as Hfit.
    destruct (good_slot_lengths cr _ _ _ _ _ _ _ _ G) as [L0 L1].
    assert (Hfl : ENTRIES_OFFSET <= f_len (d_oplog d)).
    { rewrite <- f_len_content, Hcont, !len_app. unfold len. rewrite L0, L1.
      unfold ENTRIES_OFFSET, HEADER_SIZE. lia. }
    destruct (make_read_only_WInv c d j ev bs W Hfit Hfl) as (d3 & E & Aall & A3 & W' & T3 & D3 & B3 & Hcont3 & Hl3).
    set (hn := ro_header c) in *.
    exists d3. split; [exact E|]. split; [exact Aall|].
    assert (Hops : Forall (fun o => sop_store o = Oplog) (ro_oplog_ops cr bits hn)) by apply ro_oplog_ops_store.
    assert (O2 : d_oplog (disk_nodes c d) = d_oplog d) by (destruct d; reflexivity).
    destruct Hhn as (Hokn & Hkpn & Hfkn & Hlnn & Hcgn & Hrhn & Hsgn).
    destruct (read_only_crash cr Hcrc s0 s1 body st0 st1 bits hf l hn (c_oplog c) _ _ G Hokn eq_refl
                (oplog_flush_true cr (c_oplog c) hn Hfit))
      as (w1 & w2 & a0 & a1 & sa0 & sa1 & bits1 & b0 & b1 & sb0 & sb1 & Eops & _ & C1 & _ & C2 & _ & _ & C3 & GB & _ & _ & C4 & _).
    cbn [ol_bits] in GB. fold bits in Eops.
    assert (Hcont3' : f_content (d_oplog d3) = b0 ++ b1 ++ []).
    { apply (c_apply_all_sound _ (disk_nodes c d) d3 _ Hops A3). rewrite O2, Hcont, Eops.
      cbn [c_apply_all]. rewrite C1, C2, C3, C4. reflexivity. }
    split.
    { split; [exact W'|].
      cbn [ro_core c_oplog c_keypair c_header c_bitfield ol_bits ol_entries_len ol_entries_bytes]. fold n.
      rewrite w_bits_twice in GB. fold bits.
      exists b0, b1, [], sb0, sb1, hn, [], n.
      split; [exact Hcont3'|]. split; [exact GB|]. split; [reflexivity|]. split; [reflexivity|].
      split; [repeat split; assumption|]. split; [repeat split; assumption|]. split; [reflexivity|].
      split.
      { pose proof W' as (_ & _ & _ & _ & Hlook' & _). cbn [ro_core c_tree] in Hlook'.
        intros dd o Hfull. rewrite <- (Hlook' dd o Hfull). apply required_node_same_unflushed. reflexivity. }
      split.
      { rewrite B3. apply (BfDisk_flush _ kf (c_bitfield c) n Hbfd); [|exact Hbf|exact Hdirty].
        apply (echain_le cr bs l kf n Hch). }
      intros i H1 H2. lia. }
    split; [exact D3|]. split; [exact Hcont3|exact Hl3].
  Qed.
End MakeReadOnly.

(* ====================================================================================== *)
(* E. Observations; the second call; reopening read-only (items 1 and 2)                   *)
(* ====================================================================================== *)

(* every read of (c', d') returns what the same read of (c, d) returns: length, byte length,
   contiguous length, fork, has, and get (result and events) *)
Definition same_reads (c : core) (d : disk) (c' : core) (d' : disk) : Prop :=
  i_length (core_info c') = i_length (core_info c) /\
  i_byte_length (core_info c') = i_byte_length (core_info c) /\
  i_contiguous (core_info c') = i_contiguous (core_info c) /\
  i_fork (core_info c') = i_fork (core_info c) /\
  (forall i, core_has c' i = core_has c i) /\
  (forall i j ev,
     snd (core_get i c' (mkWorld d' j ev)) = snd (core_get i c (mkWorld d j ev)) /\
     w_events (snd (fst (core_get i c' (mkWorld d' j ev)))) = w_events (snd (fst (core_get i c (mkWorld d j ev))))).

Lemma WInv_same_reads cr c d c' d' bs : WInv cr c d bs -> WInv cr c' d' bs -> same_reads c d c' d'.
Proof.
  intros W W'. unfold same_reads.
  rewrite (info_correct cr c d bs W), (info_correct cr c' d' bs W'). cbn [i_length i_byte_length i_contiguous i_fork].
  do 4 (split; [reflexivity|]). split.
  - intros i. rewrite (has_correct cr c d bs i W), (has_correct cr c' d' bs i W'). reflexivity.
  - intros i j ev. rewrite (get_correct cr c d bs j ev i W), (get_correct cr c' d' bs j ev i W').
    destruct (i <? N.of_nat (length bs)); split; reflexivity.
Qed.

(* the reads of a state satisfying WInv are those of the block list *)
Lemma WInv_reads cr c d bs :
  WInv cr c d bs ->
  i_length (core_info c) = N.of_nat (length bs) /\ i_byte_length (core_info c) = sumN (map len bs) /\
  i_contiguous (core_info c) = N.of_nat (length bs) /\
  (forall i, core_has c i = (i <? N.of_nat (length bs))) /\
  (forall i j ev, i < N.of_nat (length bs) ->
     core_get i c (mkWorld d j ev) = (c, mkWorld d j ev, Ok (Some (nth (N.to_nat i) bs [])))).
Proof.
  intros W. rewrite (info_correct cr c d bs W). cbn [i_length i_byte_length i_contiguous].
  do 3 (split; [reflexivity|]). split.
  - intros i. apply (has_correct cr c d bs i W).
  - intros i j ev Hi. rewrite (get_correct cr c d bs j ev i W).
    destruct (N.ltb_spec i (N.of_nat (length bs))); [reflexivity|lia].
Qed.

(* key pair together with open mode is rejected, for every key pair and every storage *)
Theorem open_with_keypair_rejected cr kp d : core_open cr (Some kp) true d = (d, [], Err BadArgument).
Proof. reflexivity. Qed.

(* the header make_read_only writes carries no secret, and is the same whatever the secret was *)
Lemma ro_header_no_secret c : kp_secret (hd_keypair (ro_header c)) = None.
Proof. reflexivity. Qed.

Lemma ro_header_with_secret c s : ro_header (with_secret c s) = ro_header c.
Proof. reflexivity. Qed.

Lemma enc_ro_header c :
  enc_header (ro_header c) =
    [1; 6] ++ hd_key (c_header c) ++ ([0; 0; 1] ++ [0] ++ hd_ns (c_header c) ++ hd_mpk (c_header c)) ++
    (enc_buffer (kp_public (hd_keypair (c_header c))) ++ [0]) ++
    [0] ++ enc_header_tree (hd_tree (c_header c)) ++ ([0] ++ enc_uint (hd_contig (c_header c))).
Proof. reflexivity. Qed.

Lemma ro_oplog_file_secret_independent cr c s1 s2 :
  ro_oplog_file cr (with_secret c s1) = ro_oplog_file cr (with_secret c s2).
Proof. reflexivity. Qed.

Section Observations.
  Variable cr : crypto.
  Hypothesis Hcrc : crc_ok cr.
  Hypothesis Hhash32 : forall x, length (cr_hash cr x) = 32%nat.
  Hypothesis Hnonblank : forall x, all_zero (cr_hash cr x) = false.
  Hypothesis Hhashbytes : forall x, bytes_ok (cr_hash cr x) = true.

  (* item 1, as observations of the returned state; for ANY state satisfying DInv (so also for a
     second call, and for a core that was opened read-only): the result is the old writability *)
  Theorem make_read_only_observations c d j ev bs :
    DInv cr c d bs ->
    exists c' w',
      core_make_read_only cr c (mkWorld d j ev) = (c', w', Ok (i_writeable (core_info c))) /\
      w_events w' = ev /\ DInv cr c' (w_disk w') bs /\
      same_reads c d c' (w_disk w') /\
      i_writeable (core_info c') = false /\
      c_keypair c' = mkKeypair (kp_public (c_keypair c)) None /\
      kp_secret (hd_keypair (c_header c')) = None /\
      ol_entries_len (c_oplog c') = 0 /\ ol_entries_bytes (c_oplog c') = 0 /\
      f_len (d_oplog (w_disk w')) = 8192 /\
      f_content (d_oplog (w_disk w')) = ro_oplog_file cr c /\
      (* appends are refused and change nothing *)
      (forall f batch w, core_append cr f batch c' w = (c', w, Err NotWritable)).
  Proof.
    intros D.
    destruct (make_read_only_correct cr Hcrc Hhash32 Hnonblank Hhashbytes c d j ev bs D)
      as (d' & E & _ & D' & _ & Hc & Hl).
    exists (ro_core c). eexists. split; [exact E|]. cbn [w_events w_disk].
    split; [reflexivity|]. split; [exact D'|].
    split; [apply (WInv_same_reads cr c d _ d' bs); [apply (DInv_WInv cr c d bs D)|apply (DInv_WInv cr _ d' bs D')]|].
    split; [reflexivity|]. split; [reflexivity|]. split; [reflexivity|]. split; [reflexivity|].
    split; [reflexivity|]. split; [exact Hl|]. split; [exact Hc|].
    intros f batch w. apply append_not_writable. reflexivity.
  Qed.

  (* a second call: Ok false, and everything the first call established holds again *)
  Corollary make_read_only_twice c d j ev bs :
    DInv cr c d bs ->
    exists c1 w1 c2 w2,
      core_make_read_only cr c (mkWorld d j ev) = (c1, w1, Ok (i_writeable (core_info c))) /\
      core_make_read_only cr c1 w1 = (c2, w2, Ok false) /\
      w_events w2 = ev /\ DInv cr c2 (w_disk w2) bs /\ same_reads c d c2 (w_disk w2) /\
      i_writeable (core_info c2) = false /\ kp_secret (c_keypair c2) = None /\
      kp_secret (hd_keypair (c_header c2)) = None /\
      ol_entries_len (c_oplog c2) = 0 /\ ol_entries_bytes (c_oplog c2) = 0 /\
      f_len (d_oplog (w_disk w2)) = 8192 /\ f_content (d_oplog (w_disk w2)) = ro_oplog_file cr c1.
  Proof.
    intros D.
    destruct (make_read_only_observations c d j ev bs D)
      as (c1 & w1 & E1 & Ev1 & D1 & SR1 & Wr1 & _).
    destruct w1 as [d1 j1 ev1]. cbn [w_events w_disk] in *. subst ev1.
    destruct (make_read_only_observations c1 d1 j1 ev bs D1)
      as (c2 & w2 & E2 & Ev2 & D2 & _ & Wr2 & K2 & Kh2 & P1 & P2 & Hl2 & Hc2 & _).
    rewrite Wr1 in E2.
    exists c1, (mkWorld d1 j1 ev), c2, w2. split; [exact E1|]. split; [exact E2|].
    split; [exact Ev2|]. split; [exact D2|].
    split; [apply (WInv_same_reads cr c d c2 (w_disk w2) bs);
            [apply (DInv_WInv cr c d bs D)|apply (DInv_WInv cr c2 _ bs D2)]|].
    split; [exact Wr2|]. split; [rewrite K2; reflexivity|]. split; [exact Kh2|].
    split; [exact P1|]. split; [exact P2|]. split; [exact Hl2|exact Hc2].
  Qed.

  (* item 2: reopening the storage left by make_read_only *)
  Theorem read_only_reopen c d j ev bs :
    DInv cr c d bs ->
    exists c' w' c'',
      core_make_read_only cr c (mkWorld d j ev) = (c', w', Ok (i_writeable (core_info c))) /\
      core_open cr None true (w_disk w') = (w_disk w', [], Ok c'') /\
      DInv cr c'' (w_disk w') bs /\
      c_keypair c'' = mkKeypair (kp_public (c_keypair c)) None /\
      hd_keypair (c_header c'') = mkKeypair (kp_public (c_keypair c)) None /\
      i_writeable (core_info c'') = false /\
      same_reads c d c'' (w_disk w') /\
      (forall f batch w, core_append cr f batch c'' w = (c'', w, Err NotWritable)) /\
      (* make_read_only on the reopened core: Ok false, data and the secret-free oplog file kept *)
      (forall j2 ev2, exists c3 w3,
         core_make_read_only cr c'' (mkWorld (w_disk w') j2 ev2) = (c3, w3, Ok false) /\
         DInv cr c3 (w_disk w3) bs /\ same_reads c d c3 (w_disk w3) /\
         i_writeable (core_info c3) = false /\
         f_len (d_oplog (w_disk w3)) = 8192 /\ f_content (d_oplog (w_disk w3)) = ro_oplog_file cr c'').
  Proof.
    intros D.
    destruct (make_read_only_correct cr Hcrc Hhash32 Hnonblank Hhashbytes c d j ev bs D)
      as (d' & E & _ & D' & _).
    destruct (reopen_correct cr Hcrc Hhash32 Hnonblank Hhashbytes (ro_core c) d' bs D')
      as (c2 & Eo & D2 & K2 & _).
    cbn [ro_core c_keypair] in K2. unfold ro_keypair in K2.
    assert (Wr2 : i_writeable (core_info c2) = false)
      by (unfold core_info; cbn [i_writeable]; rewrite K2; reflexivity).
    exists (ro_core c). eexists. exists c2. split; [exact E|]. cbn [w_disk].
    split; [exact Eo|]. split; [exact D2|]. split; [exact K2|].
    split.
    { destruct D2 as (_ & s0 & s1 & body & st0 & st1 & hf & l & kf & _ & _ & _ & _ & _ & (_ & Hk & _) & _).
      rewrite Hk. exact K2. }
    split; [exact Wr2|].
    split; [apply (WInv_same_reads cr c d c2 d' bs); [apply (DInv_WInv cr c d bs D)|apply (DInv_WInv cr c2 d' bs D2)]|].
    split.
    - intros f batch w. apply append_not_writable. rewrite K2. reflexivity.
    - intros j2 ev2.
      destruct (make_read_only_observations c2 d' j2 ev2 bs D2)
        as (c3 & w3 & E3 & _ & D3 & _ & Wr3 & _ & _ & _ & _ & Hl3 & Hc3 & _).
      rewrite Wr2 in E3. exists c3, w3. split; [exact E3|]. split; [exact D3|].
      split; [apply (WInv_same_reads cr c d c3 (w_disk w3) bs);
              [apply (DInv_WInv cr c d bs D)|apply (DInv_WInv cr c3 _ bs D3)]|].
      split; [exact Wr3|]. split; [exact Hl3|exact Hc3].
  Qed.

  (* item 3: the oplog file afterwards, whatever it held before *)
  Theorem read_only_oplog_file c d j ev bs :
    DInv cr c d bs ->
    exists c' w',
      core_make_read_only cr c (mkWorld d j ev) = (c', w', Ok (i_writeable (core_info c))) /\
      f_len (d_oplog (w_disk w')) = 8192 /\
      f_content (d_oplog (w_disk w')) = ro_oplog_file cr c /\
      d_data (w_disk w') = d_data d /\
      (forall s, ro_oplog_file cr c = ro_oplog_file cr (with_secret c s)).
  Proof.
    intros D.
    destruct (make_read_only_correct cr Hcrc Hhash32 Hnonblank Hhashbytes c d j ev bs D)
      as (d' & E & _ & _ & Hdata & Hc & Hl).
    exists (ro_core c). eexists. split; [exact E|]. cbn [w_disk].
    split; [exact Hl|]. split; [exact Hc|]. split; [exact Hdata|].
    intros s. reflexivity.
  Qed.
End Observations.

(* ====================================================================================== *)
(* F. Opening a storage whose bitfield file is only partly flushed                         *)
(* ====================================================================================== *)

(* hdr_desc without the claim about the contiguous length *)
Definition hdr_descW (kp : keypair) (h : header) (a : N) : Prop :=
  header_ok h = true /\ hd_keypair h = kp /\ ht_fork (hd_tree h) = 0 /\ ht_length (hd_tree h) = a /\
  len (ht_root_hash (hd_tree h)) <= 32 /\
  (ht_signature (hd_tree h) = [] \/ length (ht_signature (hd_tree h)) = 64%nat).

Lemma hdr_desc_W kp h a : hdr_desc kp h a -> hdr_descW kp h a.
Proof. intros (H1 & H2 & H3 & H4 & _ & H6 & H7). repeat split; assumption. Qed.

Lemma hdr_descW_upd kp h a h' m c' hash sg :
  hdr_descW kp h a ->
  hd_key h' = hd_key h -> hd_ns h' = hd_ns h -> hd_mpk h' = hd_mpk h -> hd_keypair h' = hd_keypair h ->
  hd_tree h' = mkHeaderTree 0 m hash sg -> hd_contig h' = c' -> c' <= u64_max ->
  m <= u64_max -> length hash = 32%nat -> bytes_ok hash = true ->
  length sg = 64%nat -> bytes_ok sg = true ->
  hdr_descW kp h' m.
Proof.
  intros (H & Hkp & _) E1 E2 E3 E4 E5 E6 Hc Hm Hh Hhb Hs Hsb.
  unfold hdr_descW. rewrite E4, E5. cbn [ht_fork ht_length ht_root_hash ht_signature].
  split.
  - unfold header_ok in *. split_ok H.
    rewrite E1, E2, E3, E4, E5, E6. cbn [ht_fork ht_length ht_root_hash ht_signature].
    rewrite H, Hok6, Hok5, Hok4. cbn [andb].
    rewrite (buffer_ok_intro hash), (buffer_ok_intro sg); try assumption;
      try (unfold len, u64_max; lia).
    assert (F : forall v, v <= u64_max -> fits_u64 v = true) by (intros v Hv; unfold fits_u64; lia).
    rewrite !F by (assumption || (unfold u64_max; lia)). reflexivity.
  - split; [exact Hkp|]. split; [reflexivity|]. split; [reflexivity|].
    split; [unfold len; lia|]. right. exact Hs.
Qed.

(* one replayed append entry [a, m) on a bitfield that already holds some of the bits of [a, n) *)
Lemma contig_step (b : bitfield) (n a m c : N) :
  a < m -> m <= n ->
  (forall i, i < c -> bf_get b i = true) -> (forall i, n <= i -> bf_get b i = false) ->
  a <= c -> c <= n -> (c = a \/ bf_get b c = false) ->
  let u := mkBfUpdate false a (m - a) in
  let b' := bf_apply b u in
  let c' := update_contig c b' u in
  (forall i, i < c' -> bf_get b' i = true) /\ (forall i, n <= i -> bf_get b' i = false) /\
  m <= c' /\ c' <= n /\ (c' = m \/ bf_get b' c' = false).
Proof.
  intros Ham Hmn Hlow Hhigh Hac Hcn Hc u b' c'.
  assert (Hg : forall i, bf_get b' i = if (a <=? i) && (i <? m) then true else bf_get b i).
  { intros i. unfold b'. rewrite bf_get_apply. unfold u. cbn [bu_start bu_length bu_drop negb].
    replace (a + (m - a)) with m by lia. reflexivity. }
  assert (Hhigh' : forall i, n <= i -> bf_get b' i = false).
  { intros i Hi. rewrite Hg. assert ((a <=? i) && (i <? m) = false) as -> by lia. apply Hhigh, Hi. }
  assert (Euc : c' = if (c <=? m) && (a <=? c)
                         then bf_skip_set (S (PositiveMap.cardinal (bf_bits b'))) b' m else c).
  { unfold c', update_contig, u. cbn [bu_start bu_length bu_drop].
    replace (a + (m - a)) with m by lia. reflexivity. }
  rewrite Euc. clear Euc.
  destruct ((c <=? m) && (a <=? c)) eqn:Ef.
  - destruct (bf_skip_set_stops b' m) as (H1 & H2 & H3).
    set (cc := bf_skip_set (S (PositiveMap.cardinal (bf_bits b'))) b' m) in *.
    assert (Hle : cc <= n).
    { destruct (N.le_gt_cases cc n) as [L|L]; [exact L|]. exfalso.
      pose proof (Hhigh' n (N.le_refl _)) as X. rewrite (H2 n) in X by lia. discriminate X. }
    split.
    { intros i Hi. destruct (N.lt_ge_cases i m) as [Lt|Ge].
      - rewrite Hg. destruct ((a <=? i) && (i <? m)) eqn:Er; [reflexivity|]. apply Hlow. lia.
      - apply H2. lia. }
    split; [exact Hhigh'|]. split; [exact H1|]. split; [exact Hle|]. right. exact H3.
  - assert (Hmc : m < c) by lia.
    destruct Hc as [Hc|Hc]; [lia|].
    split.
    { intros i Hi. rewrite Hg. destruct ((a <=? i) && (i <? m)); [reflexivity|]. apply Hlow, Hi. }
    split; [exact Hhigh'|]. split; [lia|]. split; [exact Hcn|]. right.
    rewrite Hg. assert ((a <=? c) && (c <? m) = false) as -> by lia. exact Hc.
Qed.

Section ReplayW.
  Variable cr : crypto.
  Hypothesis Hhash32 : forall x, length (cr_hash cr x) = 32%nat.
  Hypothesis Hnonblank : forall x, all_zero (cr_hash cr x) = false.
  Hypothesis Hhashbytes : forall x, bytes_ok (cr_hash cr x) = true.

  (* the state of a replay that has reached length a, towards the final length n, on a bitfield
     that was loaded from a partly flushed file *)
  Definition RInvW (bs : list bytes) (tf : file) (kp : keypair) (n : N)
             (st : mtree * bitfield * header) (a : N) : Prop :=
    let '(t, b, h) := st in
    t_length t = a /\ t_byte_length t = prefix_size bs a /\ t_fork t = 0 /\
    t_roots t = ref_roots cr bs a /\ lookups cr t tf bs a /\ unflushed_ok t /\
    (forall i, i < hd_contig h -> bf_get b i = true) /\ (forall i, n <= i -> bf_get b i = false) /\
    a <= hd_contig h /\ hd_contig h <= n /\ (hd_contig h = a \/ bf_get b (hd_contig h) = false) /\
    hdr_descW kp h a.

  Lemma replay_entry_okW bs tf kp n t b h e a m :
    sumN (map len bs) <= u64_max -> n <= u64_max -> m <= n ->
    RInvW bs tf kp n (t, b, h) a -> edesc cr bs a e m ->
    exists t' b' h', replay_entry cr tf (t, b, h) e = Ok (t', b', h') /\ RInvW bs tf kp n (t', b', h') m.
  Proof.
    intros Hfit Hn Hmn (HL & HB & HF & HR & Hlook & Hun & Hlow & Hhigh & Hac & Hcn & Hc & Hh)
           (Hlt & (sg & Hup & Hsg & Hsgb) & Hbu & Hsound & Hcompl).
    assert (Sound : forall x, In x (e_nodes e) -> x = ref_at cr bs (n_index x)).
    { intros x Hx. destruct (Hsound x Hx) as (j & q & -> & _). apply ref_node_is_ref. }
    unfold replay_entry. rewrite fold_add_node, Hbu, Hup.
    cbn [tu_length tu_fork tu_signature tu_ancestors].
    set (t1 := mkTree (t_roots t) (t_length t) (t_byte_length t) (t_fork t) (t_signature t)
                      (add_nodes (t_unflushed t) (e_nodes e))).
    set (u := mkBfUpdate false a (m - a)).
    assert (L1 : lookups cr t1 tf bs m).
    { apply (lookups_add cr Hnonblank bs t t1 tf (e_nodes e) a m Sound Hcompl); [reflexivity|exact Hlook]. }
    rewrite (tree_truncate_ref cr Hnonblank bs t1 tf m 0).
    2:{ intros x Hx. unfold t1 in Hx. cbn [t_roots] in Hx. rewrite HR in Hx. eapply in_ref_roots. exact Hx. }
    2:{ exact L1. }
    cbn [bind]. unfold parse_signature. rewrite Hsg. cbn [Nat.eqb bind].
    cbn [cs_length cs_byte_length cs_batch_length cs_fork cs_roots cs_rnodes cs_orig_length cs_orig_fork].
    unfold tree_commit, commitable.
    cbn [cs_orig_fork cs_upgraded cs_orig_length cs_ancestors cs_roots cs_length cs_byte_length cs_fork
         cs_signature cs_nodes cs_rnodes rev_append].
    rewrite !N.eqb_refl. cbn [andb negb].
    assert ((a <? t_length t1) = false) as ->.
    { unfold t1. cbn [t_length]. rewrite HL. apply N.ltb_irrefl. }
    cbn [bind]. do 3 eexists. split; [reflexivity|].
    unfold RInvW. cbn [t_length t_byte_length t_fork t_roots].
    split; [reflexivity|]. split; [reflexivity|]. split; [reflexivity|]. split; [reflexivity|].
    split.
    { intros d o Hfull. rewrite <- (L1 d o Hfull). apply required_node_same_unflushed. reflexivity. }
    split.
    { apply (commit_unflushed_ok cr Hhash32 bs t _ (e_nodes e) Hfit Sound); [reflexivity|exact Hun]. }
    destruct (contig_step b n a m (hd_contig h) Hlt Hmn Hlow Hhigh Hac Hcn Hc) as (G1 & G2 & G3 & G4 & G5).
    fold u in G1, G2, G3, G4, G5.
    cbn [set_tree set_contig hd_contig].
    split; [exact G1|]. split; [exact G2|]. split; [exact G3|]. split; [exact G4|]. split; [exact G5|].
    destruct Hh as (Hok & Hkp & Hfk & Hln & Hrh & Hsgn).
    apply (hdr_descW_upd kp h a _ m (update_contig (hd_contig h) (bf_apply b u) u)
             (tree_hash cr (ref_roots cr bs m)) sg);
      try reflexivity; try assumption.
    - repeat split; assumption.
    - cbn [set_tree set_contig hd_tree hd_contig ht_fork]. rewrite Hfk. reflexivity.
    - lia.
    - lia.
    - apply Hhash32.
    - apply Hhashbytes.
  Qed.

  Lemma replay_entries_okW bs tf kp n (l : list entry) : forall t b h a,
    sumN (map len bs) <= u64_max -> n <= u64_max ->
    RInvW bs tf kp n (t, b, h) a -> echain cr bs a l n ->
    exists t' b' h', replay_entries cr tf (t, b, h) l = Ok (t', b', h') /\ RInvW bs tf kp n (t', b', h') n.
  Proof.
    induction l as [|e l IH]; intros t b h a Hfit Hn R C; cbn [echain replay_entries] in *.
    - subst. do 3 eexists. split; [reflexivity|exact R].
    - destruct C as (m & He & C). pose proof (echain_le _ _ _ _ _ C) as Le.
      destruct (replay_entry_okW bs tf kp n t b h e a m Hfit Hn Le R He) as (t1 & b1 & h1 & E1 & R1).
      rewrite E1. cbn [bind]. apply (IH t1 b1 h1 m Hfit Hn R1 C).
  Qed.
End ReplayW.

(* the bitfield file holds the bits [0, kf), none at or beyond n, anything in between *)
Definition BfDiskW (f : file) (kf n : N) : Prop :=
  f_len f mod PAGE_BYTES = 0 /\ (forall i, i < kf -> fbit f i = true) /\ (forall i, n <= i -> fbit f i = false).

Lemma BfDisk_W f kf n : BfDisk f kf -> kf <= n -> BfDiskW f kf n.
Proof.
  intros [Hm Hb] Hle. split; [exact Hm|]. split; intros i Hi; rewrite Hb; lia.
Qed.

(* writing ANY pages of a bitfield holding exactly [0, n) keeps the file in that shape *)
Lemma BfDiskW_write_pages f kf n (b : bitfield) (ps : list N) :
  BfDiskW f kf n -> kf <= n -> (forall i, bf_get b i = (i <? n)) ->
  BfDiskW (write_pages f (bf_bits b) ps) kf n.
Proof.
  intros (Hm & Hlo & Hhi) Hle Hg. split; [apply len_write_pages, Hm|].
  split; intros i Hi; destruct (fbit_write_pages (bf_bits b) ps f i) as [I1 I2];
    (destruct (in_dec N.eq_dec (i / PAGE_BITS) ps) as [Hin|Hnin];
     [rewrite (I1 Hin); change (nm_mem i (bf_bits b)) with (bf_get b i); rewrite Hg; lia
     |rewrite (I2 Hnin); auto]).
Qed.

(* which bits of [0, a) the replayed bitfield b owes to the file f, and which to dirty pages *)
Definition DirtyInv (f : file) (b : bitfield) (a : N) : Prop :=
  (forall i, a <= i -> bf_get b i = fbit f i) /\
  (forall i, i < a -> fbit f i = true \/ In (i / PAGE_BITS) (bf_dirty b)).

Lemma dirty_step f b a m :
  a < m -> DirtyInv f b a -> DirtyInv f (bf_apply b (mkBfUpdate false a (m - a))) m.
Proof.
  intros Ham [H1 H2].
  set (u := mkBfUpdate false a (m - a)).
  assert (Hg : forall i, bf_get (bf_apply b u) i = if (a <=? i) && (i <? m) then true else bf_get b i).
  { intros i. rewrite bf_get_apply. unfold u. cbn [bu_start bu_length bu_drop negb].
    replace (a + (m - a)) with m by lia. reflexivity. }
  split.
  - intros i Hi. rewrite Hg. assert ((a <=? i) && (i <? m) = false) as -> by lia. apply H1. lia.
  - intros i Hi. destruct (N.lt_ge_cases i a) as [Lt|Ge].
    + destruct (H2 i Lt) as [L|R]; [left; exact L|right].
      unfold bf_apply, u. cbn [bu_start bu_length bu_drop negb]. apply bf_dirty_set_range_mono, R.
    + destruct (bf_get b i) eqn:Eb.
      * left. rewrite <- H1 by exact Ge. exact Eb.
      * right. unfold bf_apply, u. cbn [bu_start bu_length bu_drop negb]. apply bf_dirty_set_range_sound.
        change (bf_set_range b a (m - a) true) with (bf_apply b u). rewrite Hg, Eb.
        assert ((a <=? i) && (i <? m) = true) as -> by lia. discriminate.
Qed.

Lemma replay_entry_bitfield cr tf t b h e t' b' h' :
  replay_entry cr tf (t, b, h) e = Ok (t', b', h') ->
  b' = match e_bitfield e with Some u => bf_apply b u | None => b end.
Proof.
  unfold replay_entry. intros H.
  destruct (e_bitfield e) as [u|]; cbv beta iota zeta in H; destruct (e_upgrade e) as [up|].
  - apply bind_ok in H as (cs & _ & H). apply bind_ok in H as (sg & _ & H).
    apply bind_ok in H as (t2 & _ & H). injection H as _ <- _. reflexivity.
  - injection H as _ <- _. reflexivity.
  - apply bind_ok in H as (cs & _ & H). apply bind_ok in H as (sg & _ & H).
    apply bind_ok in H as (t2 & _ & H). injection H as _ <- _. reflexivity.
  - injection H as _ <- _. reflexivity.
Qed.

Lemma replay_entries_dirty cr bs tf f (l : list entry) : forall t b h a n t' b' h',
  replay_entries cr tf (t, b, h) l = Ok (t', b', h') -> echain cr bs a l n ->
  DirtyInv f b a -> DirtyInv f b' n.
Proof.
  induction l as [|e l IH]; intros t b h a n t' b' h' H C DI; cbn [echain replay_entries] in *.
  - injection H as _ <- _. subst. exact DI.
  - destruct C as (m & He & C). apply bind_ok in H as ([[t1 b1] h1] & H1 & H).
    apply replay_entry_bitfield in H1. destruct He as (Hlt & _ & Hbu & _). rewrite Hbu in H1. subst b1.
    apply (IH _ _ _ m n _ _ _ H C). apply dirty_step; assumption.
Qed.

(* the bitfield file f and the in-memory bitfield b of a core recovered by open: flushing the
   dirty pages of b makes the file hold exactly [0, n) *)
Definition BfRecover (f : file) (b : bitfield) (n : N) : Prop :=
  f_len f mod PAGE_BYTES = 0 /\ (forall i, n <= i -> fbit f i = false) /\
  (forall i, i < n -> fbit f i = true \/ In (i / PAGE_BITS) (bf_dirty b)).

Lemma BfRecover_flush f (b : bitfield) n :
  BfRecover f b n -> (forall i, bf_get b i = (i <? n)) ->
  BfDisk (write_pages f (bf_bits b) (bf_dirty b)) n.
Proof.
  intros (Hm & Hhi & Hlo) Hg. split; [apply len_write_pages, Hm|].
  intros i. destruct (fbit_write_pages (bf_bits b) (bf_dirty b) f i) as [I1 I2].
  destruct (in_dec N.eq_dec (i / PAGE_BITS) (bf_dirty b)) as [Hin|Hnin].
  - rewrite (I1 Hin). apply Hg.
  - rewrite (I2 Hnin). destruct (N.ltb_spec i n) as [Lt|Ge].
    + destruct (Hlo i Lt) as [L|R]; [exact L|contradiction].
    + apply Hhi, Ge.
Qed.

Lemma BfDisk_Recover f kf (b : bitfield) n :
  BfDisk f kf -> kf <= n -> (forall i, kf <= i -> i < n -> In (i / PAGE_BITS) (bf_dirty b)) ->
  BfRecover f b n.
Proof.
  intros [Hm Hb] Hle Hd. split; [exact Hm|]. split.
  - intros i Hi. rewrite Hb. lia.
  - intros i Hi. destruct (N.lt_ge_cases i kf) as [Lt|Ge]; [left; rewrite Hb; lia|right; apply Hd; assumption].
Qed.

Lemma apply_sops_total ops : forall d, Forall no_del ops -> exists d', apply_sops d ops = Some d'.
Proof.
  intros d H. destruct (emit_total ops (mkCore (mkKeypair [] None) (mkOplog (false, false) 0 0) tE (mkBf nm_empty [])
                                        (header_new (mkKeypair [] None)) 0) (mkWorld d [] []) H) as (d' & A & _).
  exists d'. exact A.
Qed.

Section Openable.
  Variable cr : crypto.
  Hypothesis Hhash32 : forall x, length (cr_hash cr x) = 32%nat.
  Hypothesis Hnonblank : forall x, all_zero (cr_hash cr x) = false.
  Hypothesis Hhashbytes : forall x, bytes_ok (cr_hash cr x) = true.

  (* a storage from which core_open recovers the block list bs and the key pair kp: the oplog
     opens with a header describing kf blocks followed by the entries up to n = |bs| (open may
     issue repairs of the oplog file), the tree store holds the nodes of the first kf blocks, the
     bitfield file at least the bits [0, kf) and nothing beyond n, the data store the blocks *)
  Definition Openable (kp : keypair) (d : disk) (bs : list bytes) : Prop :=
    let n := N.of_nat (length bs) in
    exists o hf ops l kf,
      oplog_open cr None (f_content (d_oplog d)) = Ok (mkOpenOutcome o hf ops l) /\
      (ops = [] \/ exists x, ENTRIES_OFFSET <= x /\ ops = [ST Oplog x]) /\
      ENTRIES_OFFSET <= f_len (d_oplog d) /\
      hdr_desc kp hf kf /\ echain cr bs kf l n /\
      lookups cr tE (d_tree d) bs kf /\ BfDiskW (d_bitfield d) kf n /\
      f_content (d_data d) = concat bs /\
      sumN (map len bs) <= u64_max /\ NODE_SIZE * (2 * n) <= u64_max.

  Theorem open_openable kp d bs :
    Openable kp d bs ->
    exists d' ops c',
      core_open cr None true d = (d', ops, Ok c') /\
      d_tree d' = d_tree d /\ d_data d' = d_data d /\ d_bitfield d' = d_bitfield d /\
      ENTRIES_OFFSET <= f_len (d_oplog d') /\
      WInv cr c' d' bs /\ c_keypair c' = kp /\ hd_keypair (c_header c') = kp /\
      hdr_desc kp (c_header c') (N.of_nat (length bs)) /\
      BfRecover (d_bitfield d') (c_bitfield c') (N.of_nat (length bs)).
  Proof.
    intros (o & hf & ops & l & kf & Hopen & Hshape & Hflen & Hhf & Hch & Hstore & Hbfd & Hd & Hs & Hn).
    set (n := N.of_nat (length bs)) in *.
    assert (Hops : Forall (fun x => sop_store x = Oplog /\ no_del x) ops).
    { destruct Hshape as [->|(x & _ & ->)]; repeat constructor. }
    assert (Hnd : Forall no_del ops) by (eapply Forall_impl; [|exact Hops]; intros x [_ Hx]; exact Hx).
    destruct (apply_sops_total ops d Hnd) as (d' & A).
    assert (Hflen' : ENTRIES_OFFSET <= f_len (d_oplog d')).
    { destruct Hshape as [->|(x & Hx & ->)]; cbn [apply_sops apply_sop] in A; injection A as <-.
      - exact Hflen.
      - clear - Hx. destruct d as [f1 f2 f3 f4]. cbn [d_set d_get d_oplog].
        rewrite <- (f_len_content (f_truncate f4 x)), f_content_truncate. unfold len. rewrite length_c_truncate. lia. }
    assert (S' : forall s, s <> Oplog -> d_get d' s = d_get d s).
    { intros s Hs'. apply (apply_sops_other _ _ _ _ A). intros x Hx Heq.
      rewrite Forall_forall in Hops. destruct (Hops x Hx) as [Hst _]. rewrite Hst in Heq. apply Hs'. symmetry. exact Heq. }
    assert (T' : d_tree d' = d_tree d) by (apply (S' Tree); discriminate).
    assert (D' : d_data d' = d_data d) by (apply (S' Data); discriminate).
    assert (B' : d_bitfield d' = d_bitfield d) by (apply (S' Bitfield); discriminate).
    unfold core_open. cbv iota. rewrite Hopen.
    cbn [oo_ops oo_header oo_entries oo_oplog]. rewrite A. rewrite T', B'.
    pose proof Hhf as (Hok & Hkp & Hfk & Hln & Hcgf & Hrh & Hsg).
    destruct (tree_open_ref cr Hnonblank bs (d_tree d) (hd_tree hf) kf Hstore Hln Hsg) as [sg0 Hto].
    rewrite Hto. cbn [bind]. rewrite Hfk.
    set (t0 := mkTree (ref_roots cr bs kf) kf (prefix_size bs kf) 0 sg0 nm_empty).
    pose proof (echain_le cr bs l kf n Hch) as Hkfn.
    destruct Hbfd as (Hbm & Hblo & Hbhi).
    assert (R0 : RInvW cr bs (d_tree d) kp n (t0, bf_open (d_bitfield d), hf) kf).
    { unfold RInvW, t0. cbn [t_length t_byte_length t_fork t_roots].
      split; [reflexivity|]. split; [reflexivity|]. split; [reflexivity|]. split; [reflexivity|].
      split. { intros dd oo Hfull. rewrite <- (Hstore dd oo Hfull). apply required_node_same_unflushed. reflexivity. }
      split. { intros i x H. cbn [t_unflushed] in H. rewrite nm_get_empty in H. discriminate H. }
      rewrite Hcgf.
      split. { intros i Hi. rewrite bf_open_get by exact Hbm. apply Hblo, Hi. }
      split. { intros i Hi. rewrite bf_open_get by exact Hbm. apply Hbhi, Hi. }
      split; [lia|]. split; [exact Hkfn|]. split; [left; reflexivity|].
      apply hdr_desc_W, Hhf. }
    assert (Hn64 : n <= u64_max) by (unfold NODE_SIZE in Hn; lia).
    destruct (replay_entries_okW cr Hhash32 Hnonblank Hhashbytes bs (d_tree d) kp n l
                t0 (bf_open (d_bitfield d)) hf kf Hs Hn64 R0 Hch) as (t' & b' & h' & Hrep & R').
    assert (DI0 : DirtyInv (d_bitfield d) (bf_open (d_bitfield d)) kf).
    { split; [intros i _; apply bf_open_get, Hbm|intros i Hi; left; apply Hblo, Hi]. }
    destruct (replay_entries_dirty cr bs (d_tree d) (d_bitfield d) l _ _ _ kf n _ _ _ Hrep Hch DI0) as [_ DI2].
    rewrite Hrep. cbn [bind].
    destruct R' as (HL' & HB' & HF' & HR' & Hlook' & Hun' & Hlow' & Hhigh' & Hac' & Hcn' & _ & Hh').
    pose proof Hh' as (Hok' & Hkp' & _).
    assert (Hcg' : hd_contig h' = n) by lia.
    do 3 eexists. split; [reflexivity|].
    split; [exact T'|]. split; [exact D'|]. split; [exact B'|]. split; [exact Hflen'|].
    cbn [c_keypair c_header].
    split; [|split; [exact Hkp'|split; [exact Hkp'|split]]].
    2:{ destruct Hh' as (G1 & G2 & G3 & G4 & G5 & G6). repeat split; assumption. }
    2:{ cbn [c_bitfield]. rewrite B'. split; [exact Hbm|]. split; [exact Hbhi|exact DI2]. }
    unfold WInv. cbn [c_tree c_bitfield c_header]. fold n. rewrite T', D'.
    split; [exact HL'|]. split; [rewrite HB'; unfold n; apply prefix_size_all|].
    split; [exact HF'|]. split; [exact HR'|]. split; [exact Hlook'|]. split; [exact Hun'|].
    split.
    { intros i. destruct (N.ltb_spec i n) as [Lt|Ge]; [apply Hlow'; lia|apply Hhigh', Ge]. }
    split; [exact Hcg'|]. split; [exact Hd|]. split; [exact Hs|exact Hn].
  Qed.
End Openable.

(* ====================================================================================== *)
(* G. A crash inside make_read_only (item 4)                                               *)
(* ====================================================================================== *)

Lemma required_node_unflushed_inv t tf i v x :
  nm_get i (t_unflushed t) = Some v -> required_node t tf i = Ok x -> v = x /\ node_blank v = false.
Proof.
  intros G H. unfold required_node, node_get in H. rewrite G in H.
  destruct (node_blank v); [discriminate H|]. cbn [bind] in H. injection H as <-. split; reflexivity.
Qed.

Lemma required_node_store tf i data x :
  NODE_SIZE * i <= u64_max -> f_read tf (NODE_SIZE * i) NODE_SIZE = Some data ->
  node_from_bytes i data = x -> node_blank x = false -> required_node tE tf i = Ok x.
Proof.
  intros Hi Hr Hx Hb. unfold required_node, node_get, tE. cbn [t_unflushed]. rewrite nm_get_empty.
  unfold mul64. assert (fits_u64 (NODE_SIZE * i) = true) as -> by (unfold fits_u64; lia). cbn [bind].
  rewrite Hr. cbv zeta. rewrite Hx, Hb. reflexivity.
Qed.

Lemma firstn_app3 {A} (P Q R : list A) k :
  firstn k (P ++ Q ++ R) = firstn k P ++ firstn (k - length P) Q ++ firstn (k - length P - length Q) R.
Proof. rewrite !firstn_app. reflexivity. Qed.

Lemma in_unflushed_nodes t v :
  unflushed_ok t -> In v (unflushed_nodes t) -> nm_get (n_index v) (t_unflushed t) = Some v.
Proof.
  intros Hok Hv. apply in_map_iff in Hv as ([k v'] & E & Hv). cbn [snd] in E. subst v'.
  apply nm_elements_in in Hv. destruct (Hok k v Hv) as (-> & _). exact Hv.
Qed.

Lemma apply_sops_prefix a b d d' : apply_sops d (a ++ b) = Some d' -> exists d1, apply_sops d a = Some d1.
Proof.
  rewrite apply_sops_app. destruct (apply_sops d a) as [d1|]; [|discriminate]. intros _. exists d1. reflexivity.
Qed.

Section Cuts.
  Variable cr : crypto.
  Hypothesis Hcrc : crc_ok cr.
  Hypothesis Hhash32 : forall x, length (cr_hash cr x) = 32%nat.
  Hypothesis Hnonblank : forall x, all_zero (cr_hash cr x) = false.
  Hypothesis Hhashbytes : forall x, bytes_ok (cr_hash cr x) = true.

  (* writing ANY of the unflushed nodes of the tree keeps the stored nodes of the first kf blocks readable *)
  Lemma partial_nodes_lookups t tf bs kf n ws :
    lookups cr tE tf bs kf -> lookups cr t tf bs n -> kf <= n -> unflushed_ok t ->
    (forall v, In v ws -> nm_get (n_index v) (t_unflushed t) = Some v) ->
    NODE_SIZE * (2 * n) <= u64_max ->
    lookups cr tE (write_nodes tf ws) bs kf.
  Proof.
    intros Hstore Hlook Hle Hun Hws Hn d o Hfull.
    set (i := ft_index (N.of_nat d) o).
    assert (Hi : NODE_SIZE * i <= u64_max).
    { pose proof (ft_index_succ (N.of_nat d) o) as S. fold (p2 d) in S. pose proof (p2_pos d).
      unfold i, NODE_SIZE in *. nia. }
    pose proof (Hstore d o Hfull) as R. fold i in R.
    apply required_node_store_inv in R as (data & Rd & Rn); [|reflexivity].
    assert (H32 : forall v, In v ws -> length (n_hash v) = 32%nat).
    { intros v Hv. apply Hws in Hv. apply Hun in Hv. tauto. }
    destruct (write_nodes_read ws tf i H32) as [(v & Hin & Hk & Hr)|[_ Hr]].
    - pose proof (Hws v Hin) as G. rewrite Hk in G.
      pose proof (Hlook d o ltac:(lia)) as Rt. fold i in Rt.
      destruct (required_node_unflushed_inv t tf i v _ G Rt) as [Ev Hb].
      destruct (Hun i v G) as (Hidx & Hh & Hl).
      rewrite <- Ev.
      apply (required_node_store _ i (node_to_bytes v)); [exact Hi|exact Hr| |exact Hb].
      rewrite <- Hidx. apply node_bytes_roundtrip; [rewrite Hh; reflexivity|unfold u64_max in Hl; lia].
    - apply (required_node_store _ i data); [exact Hi| |exact Rn|apply ref_node_nonblank, Hnonblank].
      rewrite Hr; [exact Rd|]. apply f_read_spec in Rd. tauto.
  Qed.

  (* a disk on which only some pages and some nodes of the flush have been written *)
  Lemma partial_flush_openable c d bs ps ws dk :
    DInv cr c d bs ->
    (forall v, In v ws -> nm_get (n_index v) (t_unflushed (c_tree c)) = Some v) ->
    d_oplog dk = d_oplog d -> d_data dk = d_data d ->
    d_bitfield dk = write_pages (d_bitfield d) (bf_bits (c_bitfield c)) ps ->
    d_tree dk = write_nodes (d_tree d) ws ->
    Openable cr (c_keypair c) dk bs.
  Proof.
    intros (W & s0 & s1 & body & st0 & st1 & hf & l & kf & Hcont & G & Hlen & Hbytes & Hhf & Hhc & Hch &
            Hstore & Hbfd & Hdirty) Hws Ho Hda Hb Ht.
    pose proof W as (HL & HB & HF & HR & Hlook & Hun & Hbf & Hcg & Hd & Hs & Hn).
    pose proof (echain_le cr bs l kf _ Hch) as Hle.
    unfold Openable. exists (mkOplog (ol_bits (c_oplog c)) (N.of_nat (length l)) (entries_size l)), hf, [], l, kf.
    split; [rewrite Ho, Hcont; apply (good_open cr Hcrc _ _ _ _ _ _ _ _ G)|].
    split; [left; reflexivity|].
    split.
    { destruct (good_slot_lengths cr _ _ _ _ _ _ _ _ G) as [L0 L1].
      rewrite Ho, <- f_len_content, Hcont, !len_app. unfold len. rewrite L0, L1.
      unfold ENTRIES_OFFSET, HEADER_SIZE. lia. }
    split; [exact Hhf|]. split; [exact Hch|].
    split; [rewrite Ht; apply (partial_nodes_lookups (c_tree c) (d_tree d) bs kf _ ws Hstore Hlook Hle Hun Hws Hn)|].
    split; [rewrite Hb; apply BfDiskW_write_pages; [apply BfDisk_W; assumption|exact Hle|exact Hbf]|].
    split; [rewrite Hda; exact Hd|]. split; [exact Hs|exact Hn].
  Qed.

  (* the tree and bitfield stores once all pages and nodes are written *)
  Lemma flushed_stores c d bs :
    DInv cr c d bs ->
    lookups cr tE (d_tree (disk_nodes c d)) bs (N.of_nat (length bs)) /\
    BfDisk (d_bitfield (disk_nodes c d)) (N.of_nat (length bs)) /\
    d_data (disk_nodes c d) = d_data d /\ d_oplog (disk_nodes c d) = d_oplog d.
  Proof.
    intros (W & s0 & s1 & body & st0 & st1 & hf & l & kf & Hcont & G & Hlen & Hbytes & Hhf & Hhc & Hch &
            Hstore & Hbfd & Hdirty).
    pose proof W as (HL & HB & HF & HR & Hlook & Hun & Hbf & Hcg & Hd & Hs & Hn).
    set (n := N.of_nat (length bs)) in *.
    split.
    { intros dd o Hfull.
      assert (TF : tree_flush (c_tree c) = Ok (flushed_tree (c_tree c), node_ops (c_tree c)))
        by (apply (tree_flush_ok (c_tree c) Hun)).
      pose proof (tree_flush_preserves_lookups (c_tree c) _ _ (disk_pages c d) (disk_nodes c d)
                    (ft_index (N.of_nat dd) o) (ref_node cr bs dd o) TF (apply_node_ops c d) Hun) as P.
      rewrite <- P.
      - apply required_node_same_unflushed. reflexivity.
      - pose proof (ft_index_succ (N.of_nat dd) o) as S. fold (p2 dd) in S. pose proof (p2_pos dd).
        unfold NODE_SIZE in *. nia.
      - replace (d_tree (disk_pages c d)) with (d_tree d) by (destruct d; reflexivity). apply Hlook, Hfull. }
    split.
    { replace (d_bitfield (disk_nodes c d))
        with (write_pages (d_bitfield d) (bf_bits (c_bitfield c)) (bf_dirty (c_bitfield c))) by (destruct d; reflexivity).
      apply (BfDisk_flush _ kf (c_bitfield c) n Hbfd); [|exact Hbf|exact Hdirty].
      apply (echain_le cr bs l kf n Hch). }
    split; destruct d; reflexivity.
  Qed.

  (* a disk on which the flush of pages and nodes is complete and q >= 1 of the four oplog
     operations have been applied *)
  Lemma oplog_cut_openable c d bs q dq :
    DInv cr c d bs -> (1 <= q)%nat ->
    apply_sops (disk_nodes c d) (firstn q (ro_oplog_ops cr (ol_bits (c_oplog c)) (ro_header c))) = Some dq ->
    Openable cr (ro_keypair c) dq bs.
  Proof.
    intros D Hq A.
    destruct (flushed_stores c d bs D) as (FT & FB & FD & FO).
    destruct D as (W & s0 & s1 & body & st0 & st1 & hf & l & kf & Hcont & G & Hlen & Hbytes & Hhf & Hhc & Hch &
                   Hstore & Hbfd & Hdirty).
    pose proof W as (HL & HB & HF & HR & Hlook & Hun & Hbf & Hcg & Hd & Hs & Hn).
    set (n := N.of_nat (length bs)) in *.
    pose proof (hdr_desc_erase _ _ _ Hhc) as Hhn. fold (ro_header c) (ro_keypair c) in Hhn.
    pose proof (hdr_desc_fits _ _ _ Hhn) as Hfit.
    set (hn := ro_header c) in *. set (bits := ol_bits (c_oplog c)) in *.
    set (dN := disk_nodes c d) in *.
    pose proof (ro_oplog_ops_store cr bits hn) as Hops.
    pose proof Hhn as (Hokn & _).
    destruct (read_only_crash cr Hcrc s0 s1 body st0 st1 bits hf l hn (c_oplog c) _ _ G Hokn eq_refl
                (oplog_flush_true cr (c_oplog c) hn Hfit))
      as (w1 & w2 & a0 & a1 & sa0 & sa1 & bits1 & b0 & b1 & sb0 & sb1 & Eops & _ & C1 & O1 & C2 & GA & O2 & C3 & GB & O3 &
          _ & C4 & _).
    destruct (good_slot_lengths cr _ _ _ _ _ _ _ _ GA) as [LA0 LA1].
    destruct (good_slot_lengths cr _ _ _ _ _ _ _ _ GB) as [LB0 LB1].
    assert (LenA : forall x, ENTRIES_OFFSET <= len (a0 ++ a1 ++ x)).
    { intros x. rewrite !len_app. unfold len. rewrite LA0, LA1. unfold ENTRIES_OFFSET, HEADER_SIZE. lia. }
    assert (LenB : forall x, ENTRIES_OFFSET <= len (b0 ++ b1 ++ x)).
    { intros x. rewrite !len_app. unfold len. rewrite LB0, LB1. unfold ENTRIES_OFFSET, HEADER_SIZE. lia. }
    fold bits in Eops. rewrite Eops in A, Hops.
    (* what a cut leaves: the content of the oplog file, the other stores untouched *)
    assert (Cut : forall ops' cont,
               (forall o, In o ops' -> sop_store o = Oplog) ->
               apply_sops dN ops' = Some dq -> c_apply_all (s0 ++ s1 ++ body) ops' = Some cont ->
               f_content (d_oplog dq) = cont /\ d_tree dq = d_tree dN /\ d_data dq = d_data dN /\
               d_bitfield dq = d_bitfield dN).
    { intros ops' cont Hst A' CA.
      assert (S' : forall s, s <> Oplog -> d_get dq s = d_get dN s).
      { intros s Hs'. apply (apply_sops_other _ _ _ _ A'). intros o Ho Heq. rewrite (Hst o Ho) in Heq.
        apply Hs'. symmetry. exact Heq. }
      split.
      - apply (c_apply_all_sound ops' dN dq cont); [apply Forall_forall, Hst|exact A'|].
        rewrite FO, Hcont. exact CA.
      - split; [apply (S' Tree); discriminate|]. split; [apply (S' Data); discriminate|apply (S' Bitfield); discriminate]. }
    rewrite Forall_forall in Hops.
    (* the storage is openable whenever the oplog opens with header hn and no entries *)
    assert (Fin : forall o' ops',
               oplog_open cr None (f_content (d_oplog dq)) = Ok (mkOpenOutcome o' hn ops' []) ->
               (ops' = [] \/ exists x, ENTRIES_OFFSET <= x /\ ops' = [ST Oplog x]) ->
               ENTRIES_OFFSET <= len (f_content (d_oplog dq)) ->
               d_tree dq = d_tree dN -> d_data dq = d_data dN -> d_bitfield dq = d_bitfield dN ->
               Openable cr (ro_keypair c) dq bs).
    { intros o' ops' Ho Hf Hfl Ht Hda Hb. unfold Openable. fold n. exists o', hn, ops', [], n.
      rewrite f_len_content in Hfl.
      split; [exact Ho|]. split; [exact Hf|]. split; [exact Hfl|]. split; [exact Hhn|]. split; [reflexivity|].
      split; [rewrite Ht; exact FT|]. split; [rewrite Hb; apply BfDisk_W; [exact FB|apply N.le_refl]|].
      split; [rewrite Hda, FD; exact Hd|]. split; [exact Hs|exact Hn]. }
    destruct q as [|[|[|[|q]]]]; [lia| | | |]; cbn [firstn] in A.
    - destruct (Cut [w1] (a0 ++ a1 ++ body)) as (Hc & Ht & Hda & Hb).
      { intros o [<-|[]]. apply Hops. left. reflexivity. }
      { exact A. }
      { cbn [c_apply_all]. rewrite C1. reflexivity. }
      apply (Fin _ _ ltac:(rewrite Hc; exact O1)); try assumption; [|rewrite Hc; apply LenA].
      destruct (0 <? len body); [right; exists ENTRIES_OFFSET; split; [apply N.le_refl|reflexivity]|left; reflexivity].
    - destruct (Cut [w1; ST Oplog (ENTRIES_OFFSET + 0)] (a0 ++ a1 ++ [])) as (Hc & Ht & Hda & Hb).
      { intros o [<-|[<-|[]]]; [apply Hops; left; reflexivity|reflexivity]. }
      { exact A. }
      { cbn [c_apply_all]. rewrite C1, C2. reflexivity. }
      apply (Fin _ _ ltac:(rewrite Hc; exact O2)); try assumption; [left; reflexivity|rewrite Hc; apply LenA].
    - destruct (Cut [w1; ST Oplog (ENTRIES_OFFSET + 0); w2] (b0 ++ b1 ++ [])) as (Hc & Ht & Hda & Hb).
      { intros o [<-|[<-|[<-|[]]]]; [apply Hops; left; reflexivity|reflexivity|apply Hops; right; right; left; reflexivity]. }
      { exact A. }
      { cbn [c_apply_all]. rewrite C1, C2, C3. reflexivity. }
      apply (Fin _ _ ltac:(rewrite Hc; exact O3)); try assumption; [left; reflexivity|rewrite Hc; apply LenB].
    - destruct (Cut [w1; ST Oplog (ENTRIES_OFFSET + 0); w2; ST Oplog (ENTRIES_OFFSET + 0)] (b0 ++ b1 ++ []))
        as (Hc & Ht & Hda & Hb).
      { intros o Ho. apply Hops, Ho. }
      { destruct q; exact A. }
      { cbn [c_apply_all]. rewrite C1, C2, C3, C4. reflexivity. }
      apply (Fin _ _ ltac:(rewrite Hc; exact O3)); try assumption; [left; reflexivity|rewrite Hc; apply LenB].
  Qed.

  (* every prefix of the journal delta applies, and leaves an openable storage: with the old key
     pair as long as no oplog operation was applied, with the secret-free one afterwards *)
  Lemma cut_openable c d bs k :
    DInv cr c d bs ->
    let np := (length (page_ops (c_bitfield c)) + length (node_ops (c_tree c)))%nat in
    exists dk, apply_sops d (firstn k (ro_ops cr c)) = Some dk /\
      ((k <= np)%nat /\ Openable cr (c_keypair c) dk bs \/ (np < k)%nat /\ Openable cr (ro_keypair c) dk bs).
  Proof.
    intros D np.
    pose proof (DInv_WInv cr c d bs D) as W.
    pose proof W as (_ & _ & _ & _ & _ & Hun & _).
    destruct (make_read_only_correct cr Hcrc Hhash32 Hnonblank Hhashbytes c d [] [] bs D) as (dfull & _ & Afull & _).
    rewrite <- (firstn_skipn k (ro_ops cr c)) in Afull.
    destruct (apply_sops_prefix _ _ _ _ Afull) as (dk & Ak). clear Afull.
    exists dk. split; [exact Ak|].
    set (P := page_ops (c_bitfield c)) in *. set (Q := node_ops (c_tree c)) in *.
    set (R := ro_oplog_ops cr (ol_bits (c_oplog c)) (ro_header c)).
    unfold ro_ops in Ak. fold P Q R in Ak. rewrite firstn_app3 in Ak.
    destruct (le_lt_dec k (length P)) as [L1|L1].
    - (* inside the pages *)
      left. split; [unfold np; lia|].
      replace (k - length P)%nat with 0%nat in Ak by lia. cbn [firstn app] in Ak. rewrite app_nil_r in Ak.
      unfold P, page_ops in Ak. rewrite firstn_map, apply_page_writes in Ak. injection Ak as <-.
      apply (partial_flush_openable c d bs (firstn k (bf_dirty (c_bitfield c))) [] _ D);
        [intros v []|destruct d; reflexivity..].
    - rewrite (firstn_all2 P) in Ak by lia.
      destruct (le_lt_dec k np) as [L2|L2].
      + (* inside the nodes *)
        left. split; [exact L2|].
        replace (k - length P - length Q)%nat with 0%nat in Ak by (unfold np in L2; lia).
        cbn [firstn] in Ak. rewrite app_nil_r in Ak.
        rewrite apply_sops_app in Ak. unfold P in Ak. rewrite apply_page_ops in Ak.
        unfold Q, node_ops in Ak. rewrite firstn_map, apply_node_writes in Ak. injection Ak as <-.
        apply (partial_flush_openable c d bs (bf_dirty (c_bitfield c))
                 (firstn (k - length (page_ops (c_bitfield c))) (unflushed_nodes (c_tree c))) _ D);
          [|destruct d; reflexivity..].
        intros v Hv. apply in_unflushed_nodes; [exact Hun|]. eapply in_firstn. exact Hv.
      + (* inside the four oplog operations *)
        right. split; [exact L2|].
        rewrite (firstn_all2 Q) in Ak by (unfold np in L2; lia).
        rewrite apply_sops_app in Ak. unfold P in Ak. rewrite apply_page_ops in Ak.
        rewrite apply_sops_app in Ak. unfold Q in Ak. rewrite apply_node_ops in Ak.
        apply (oplog_cut_openable c d bs (k - length (page_ops (c_bitfield c)) - length (node_ops (c_tree c))) dk D);
          [unfold np, P, Q in L2; lia|exact Ak].
  Qed.

  (* item 4: the journal delta of the call is [ro_ops cr c] (make_read_only_correct); whatever
     prefix of it reached the storage, the storage reopens with all data, writable as long as no
     oplog operation was applied, read-only afterwards *)
  Theorem make_read_only_crash c d bs sk k :
    DInv cr c d bs -> kp_secret (c_keypair c) = Some sk ->
    let np := (length (page_ops (c_bitfield c)) + length (node_ops (c_tree c)))%nat in
    exists dk, apply_sops d (firstn k (ro_ops cr c)) = Some dk /\
    exists dk' ops ck,
      core_open cr None true dk = (dk', ops, Ok ck) /\
      d_tree dk' = d_tree dk /\ d_data dk' = d_data dk /\ d_bitfield dk' = d_bitfield dk /\
      WInv cr ck dk' bs /\ same_reads c d ck dk' /\
      hd_keypair (c_header ck) = c_keypair ck /\
      kp_public (c_keypair ck) = kp_public (c_keypair c) /\
      ((k <= np)%nat -> c_keypair ck = c_keypair c /\ i_writeable (core_info ck) = true) /\
      ((np < k)%nat -> c_keypair ck = mkKeypair (kp_public (c_keypair c)) None /\ i_writeable (core_info ck) = false).
  Proof.
    intros D Hsk np.
    pose proof (DInv_WInv cr c d bs D) as W.
    destruct (cut_openable c d bs k D) as (dk & Ak & Key). fold np in Key.
    exists dk. split; [exact Ak|].
    destruct Key as [[Hk Op]|[Hk Op]];
      destruct (open_openable cr Hhash32 Hnonblank Hhashbytes _ dk bs Op)
        as (dk' & ops & ck & Eo & T' & D' & B' & _ & W' & K' & Kh' & _);
      exists dk', ops, ck; (split; [exact Eo|]); (split; [exact T'|]); (split; [exact D'|]); (split; [exact B'|]);
      (split; [exact W'|]); (split; [apply (WInv_same_reads cr c d ck dk' bs W W')|]);
      (split; [rewrite Kh', K'; reflexivity|]); (split; [rewrite K'; reflexivity|]).
    - split; [intros _|intros Hk'; lia]. split; [exact K'|].
      unfold core_info. cbn [i_writeable]. rewrite K', Hsk. reflexivity.
    - split; [intros Hk'; lia|intros _]. split; [exact K'|].
      unfold core_info. cbn [i_writeable]. rewrite K'. reflexivity.
  Qed.

  (* ---------- make_read_only on a core recovered by open after a crash ---------- *)

  (* two slot images of the same header form a stable oplog file without entries *)
  Lemma ro_file_good b0 b1 h :
    header_ok h = true -> 8 + len (enc_header h) <= HEADER_SIZE ->
    good cr (slot_bytes cr b0 h) (slot_bytes cr b1 h) [] (SValid h b0) (SValid h b1) (b0, b1) h [].
  Proof.
    intros Hok Hfit.
    assert (Hlt : len (enc_header h) < 1073741824) by (unfold HEADER_SIZE in Hfit; lia).
    assert (S : forall b, slot_is cr (slot_bytes cr b h) (SValid h b)).
    { intros b. cbn [slot_is]. split; [exact Hok|]. split; [apply length_slot_bytes, Hfit|].
      exists (slot_frame cr b h). eexists. split; [apply frame_slot_frame, Hlt|].
      unfold slot_bytes, pad_to. reflexivity. }
    unfold good. split; [apply S|]. split; [apply S|]. split.
    - cbn [choose]. destruct (Bool.eqb b0 b1); reflexivity.
    - split; reflexivity.
  Qed.

  (* what open re-establishes after a crash (open_openable), and what every DInv state satisfies:
     memory/tree/data invariant, a header describing the block list, an oplog file of at least two
     slots, and a bitfield file that the dirty pages complete *)
  Definition RecInv (c : core) (d : disk) (bs : list bytes) : Prop :=
    let n := N.of_nat (length bs) in
    WInv cr c d bs /\ hdr_desc (c_keypair c) (c_header c) n /\
    ENTRIES_OFFSET <= f_len (d_oplog d) /\ BfRecover (d_bitfield d) (c_bitfield c) n.

  Lemma DInv_RecInv c d bs : DInv cr c d bs -> RecInv c d bs.
  Proof.
    intros (W & s0 & s1 & body & st0 & st1 & hf & l & kf & Hcont & G & Hlen & Hbytes & Hhf & Hhc & Hch &
            Hstore & Hbfd & Hdirty).
    split; [exact W|]. split; [exact Hhc|]. split.
    - destruct (good_slot_lengths cr _ _ _ _ _ _ _ _ G) as [L0 L1].
      rewrite <- f_len_content, Hcont, !len_app. unfold len. rewrite L0, L1.
      unfold ENTRIES_OFFSET, HEADER_SIZE. lia.
    - apply (BfDisk_Recover _ kf); [exact Hbfd|apply (echain_le cr bs l kf _ Hch)|exact Hdirty].
  Qed.

  (* from such a state the call re-establishes the full disk invariant *)
  Theorem make_read_only_RecInv c d j ev bs :
    RecInv c d bs ->
    exists d',
      core_make_read_only cr c (mkWorld d j ev) =
        (ro_core c, mkWorld d' (rev (ro_ops cr c) ++ j) ev, Ok (i_writeable (core_info c))) /\
      DInv cr (ro_core c) d' bs /\
      f_content (d_oplog d') = ro_oplog_file cr c /\ f_len (d_oplog d') = ENTRIES_OFFSET.
  Proof.
    intros (W & Hhc & Hfl & Hbr).
    pose proof W as (HL & HB & HF & HR & Hlook & Hun & Hbf & Hcg & Hd & Hs & Hn).
    set (n := N.of_nat (length bs)) in *.
    pose proof (hdr_desc_erase _ _ _ Hhc) as Hhn. fold (ro_header c) (ro_keypair c) in Hhn.
    pose proof (hdr_desc_fits _ _ _ Hhn) as Hfit.
    destruct (make_read_only_WInv cr c d j ev bs W Hfit Hfl) as (d3 & E & _ & _ & W' & T3 & D3 & B3 & Hc3 & Hl3).
    exists d3. split; [exact E|]. split; [|split; [exact Hc3|exact Hl3]].
    split; [exact W'|].
    cbn [ro_core c_oplog c_keypair c_header c_bitfield ol_bits ol_entries_len ol_entries_bytes]. fold n.
    set (hn := ro_header c) in *.
    exists (slot_bytes cr (negb (fst (ol_bits (c_oplog c)))) hn), (slot_bytes cr (negb (snd (ol_bits (c_oplog c)))) hn), [],
           (SValid hn (negb (fst (ol_bits (c_oplog c))))), (SValid hn (negb (snd (ol_bits (c_oplog c))))), hn, [], n.
    split; [rewrite Hc3; unfold ro_oplog_file; rewrite app_nil_r; reflexivity|].
    split; [apply ro_file_good; [apply Hhn|exact Hfit]|].
    split; [reflexivity|]. split; [reflexivity|]. split; [exact Hhn|]. split; [exact Hhn|]. split; [reflexivity|].
    split.
    { pose proof W' as (_ & _ & _ & _ & Hlook' & _). cbn [ro_core c_tree] in Hlook'.
      intros dd o Hfull. rewrite <- (Hlook' dd o Hfull). apply required_node_same_unflushed. reflexivity. }
    split; [rewrite B3; apply BfRecover_flush; [exact Hbr|exact Hbf]|].
    intros i H1 H2. lia.
  Qed.

  (* THE REPAIRED DEFECT.  Whatever prefix of a first call reached the storage before a crash: after
     reopening, a second call always completes (it no longer depends on the recovered core being
     writable), and afterwards the oplog file is exactly the two secret-free slot images — no header
     slot can still hold the secret key — with every read intact and the full disk invariant back. *)
  Theorem secret_gone_after_any_completed_call c d bs sk k :
    DInv cr c d bs -> kp_secret (c_keypair c) = Some sk ->
    exists dk, apply_sops d (firstn k (ro_ops cr c)) = Some dk /\
    exists dk' ops ck,
      core_open cr None true dk = (dk', ops, Ok ck) /\ same_reads c d ck dk' /\
      forall j ev, exists c2 d2,
        core_make_read_only cr ck (mkWorld dk' j ev) =
          (c2, mkWorld d2 (rev (ro_ops cr ck) ++ j) ev, Ok (i_writeable (core_info ck))) /\
        f_len (d_oplog d2) = 8192 /\ f_content (d_oplog d2) = ro_oplog_file cr ck /\
        (forall s, ro_oplog_file cr ck = ro_oplog_file cr (with_secret ck s)) /\
        DInv cr c2 d2 bs /\ same_reads c d c2 d2 /\
        i_writeable (core_info c2) = false /\ kp_secret (c_keypair c2) = None /\
        kp_secret (hd_keypair (c_header c2)) = None /\
        kp_public (c_keypair c2) = kp_public (c_keypair c).
  Proof.
    intros D Hsk.
    pose proof (DInv_WInv cr c d bs D) as W.
    destruct (cut_openable c d bs k D) as (dk & Ak & Key).
    exists dk. split; [exact Ak|].
    assert (Op : exists kp, Openable cr kp dk bs /\ kp_public kp = kp_public (c_keypair c)).
    { destruct Key as [[_ Op]|[_ Op]]; eexists; (split; [exact Op|reflexivity]). }
    destruct Op as (kp & Op & Hpub).
    destruct (open_openable cr Hhash32 Hnonblank Hhashbytes _ dk bs Op)
      as (dk' & ops & ck & Eo & _ & _ & _ & Hfl & W' & K' & _ & Hh' & Hbr).
    exists dk', ops, ck. split; [exact Eo|]. split; [apply (WInv_same_reads cr c d ck dk' bs W W')|].
    intros j ev.
    rewrite <- K' in Hh'.
    destruct (make_read_only_RecInv ck dk' j ev bs (conj W' (conj Hh' (conj Hfl Hbr)))) as (d2 & E & D2 & Hc2 & Hl2).
    exists (ro_core ck), d2. split; [exact E|]. split; [exact Hl2|]. split; [exact Hc2|].
    split; [intros s; reflexivity|]. split; [exact D2|].
    split; [apply (WInv_same_reads cr c d _ d2 bs W (DInv_WInv cr _ d2 bs D2))|].
    split; [reflexivity|]. split; [reflexivity|]. split; [reflexivity|].
    cbn [ro_core c_keypair ro_keypair kp_public]. rewrite K'. exact Hpub.
  Qed.
End Cuts.

(* the same, phrased with the journal the call actually leaves *)
Corollary make_read_only_crash_journal (cr : crypto) :
  crc_ok cr -> (forall x, length (cr_hash cr x) = 32%nat) -> (forall x, all_zero (cr_hash cr x) = false) ->
  (forall x, bytes_ok (cr_hash cr x) = true) ->
  forall c d bs sk k,
    DInv cr c d bs -> kp_secret (c_keypair c) = Some sk ->
    exists c' w',
      core_make_read_only cr c (mkWorld d [] []) = (c', w', Ok true) /\
      let delta := rev (w_journal w') in        (* the operations of the call, oldest first *)
      exists dk, apply_sops d (firstn k delta) = Some dk /\
      exists dk' ops ck,
        core_open cr None true dk = (dk', ops, Ok ck) /\
        WInv cr ck dk' bs /\ same_reads c d ck dk' /\
        kp_public (c_keypair ck) = kp_public (c_keypair c) /\
        (c_keypair ck = c_keypair c /\ i_writeable (core_info ck) = true \/
         c_keypair ck = mkKeypair (kp_public (c_keypair c)) None /\ i_writeable (core_info ck) = false).
Proof.
  intros Hcrc Hhash32 Hnonblank Hhashbytes c d bs sk k D Hsk.
  destruct (make_read_only_correct cr Hcrc Hhash32 Hnonblank Hhashbytes c d [] [] bs D) as (d' & E & _).
  replace (i_writeable (core_info c)) with true in E by (unfold core_info; cbn [i_writeable]; rewrite Hsk; reflexivity).
  exists (ro_core c). eexists. split; [exact E|]. cbn [w_journal]. rewrite app_nil_r, rev_involutive. cbv zeta.
  destruct (make_read_only_crash cr Hcrc Hhash32 Hnonblank Hhashbytes c d bs sk k D Hsk)
    as (dk & Ak & dk' & ops & ck & Eo & _ & _ & _ & W' & SR & _ & Kp & K1 & K2).
  exists dk. split; [exact Ak|]. exists dk', ops, ck.
  split; [exact Eo|]. split; [exact W'|]. split; [exact SR|]. split; [exact Kp|].
  destruct (le_lt_dec k (length (page_ops (c_bitfield c)) + length (node_ops (c_tree c)))) as [L|L];
    [left; apply K1, L|right; apply K2, L].
Qed.

(* ====================================================================================== *)
(* H. Non-vacuity on the toy crypto instance                                               *)
(* ====================================================================================== *)

Definition toy_b1 : list bytes := [[1; 2; 3]; []; [4]].
Definition toy_b2 : list bytes := [[5; 6]].
Definition toy_blocks : list bytes := toy_b1 ++ toy_b2.

(* a writer created on empty storage, two appends; f1 = whether the first append flushes.
   f1 = false: two pending entries, slot bits (false, false); f1 = true: one pending entry after a
   flush, slot bits (false, true) — both slot parities *)
Definition toy_state (f1 : bool) : option (core * disk) :=
  match core_open toy_cr (Some toy_keypair) false disk_empty with
  | (d0, _, Ok c0) =>
      match core_append toy_cr (Some f1) toy_b1 c0 (mkWorld d0 [] []) with
      | (c1, w1, Ok _) =>
          match core_append toy_cr (Some false) toy_b2 c1 w1 with
          | (c2, w2, Ok _) => Some (c2, w_disk w2)
          | _ => None
          end
      | _ => None
      end
  | _ => None
  end.

Definition is_ok {A} (r : res A) : Prop := match r with Ok _ => True | _ => False end.

Fact toy_appends_ok f1 :
  match core_open toy_cr (Some toy_keypair) false disk_empty with
  | (d0, _, Ok c0) =>
      match core_append toy_cr (Some f1) toy_b1 c0 (mkWorld d0 [] []) with
      | (c1, w1, r1) => is_ok r1 /\ match core_append toy_cr (Some false) toy_b2 c1 w1 with (_, _, r2) => is_ok r2 end
      end
  | _ => False
  end.
Proof. destruct f1; vm_compute; auto. Qed.

(* the hypotheses of all theorems of this file hold of the toy states: DInv, a secret key,
   pending entries *)
Example toy_state_DInv f1 :
  match toy_state f1 with
  | Some (c, d) =>
      DInv toy_cr c d toy_blocks /\ kp_secret (c_keypair c) = Some (repeat 2 32%nat) /\
      0 < ol_entries_len (c_oplog c)
  | None => False
  end.
Proof.
  destruct (DInv_init toy_cr toy_crc_ok' toy_hash32 toy_nonblank toy_hashbytes toy_keypair eq_refl)
    as (d0 & ops0 & c0 & E0 & D0 & K0).
  pose proof (toy_appends_ok f1) as F. unfold toy_state. rewrite E0 in F |- *.
  destruct (core_append toy_cr (Some f1) toy_b1 c0 (mkWorld d0 [] [])) as [[c1 w1] r1] eqn:E1.
  assert (Hsk0 : kp_secret (c_keypair c0) = Some (repeat 2 32%nat)) by (rewrite K0; reflexivity).
  destruct (append_DInv toy_cr toy_crc_ok' toy_hash32 toy_nonblank toy_hashbytes toy_sig64 toy_sigbytes
              (Some f1) toy_b1 c0 d0 [] [] [] _ c1 w1 r1 D0 Hsk0) as [->|(-> & D1 & K1)];
    [vm_compute; discriminate|vm_compute; discriminate|exact E1|destruct F as [[] _]|].
  destruct w1 as [d1 j1 ev1]. cbn [w_disk] in D1. destruct F as [_ F].
  destruct (core_append toy_cr (Some false) toy_b2 c1 (mkWorld d1 j1 ev1)) as [[c2 w2] r2] eqn:E2.
  assert (Hsk1 : kp_secret (c_keypair c1) = Some (repeat 2 32%nat)) by (rewrite K1; exact Hsk0).
  destruct (append_DInv toy_cr toy_crc_ok' toy_hash32 toy_nonblank toy_hashbytes toy_sig64 toy_sigbytes
              (Some false) toy_b2 c1 d1 j1 ev1 ([] ++ toy_b1) _ c2 w2 r2 D1 Hsk1) as [->|(-> & D2 & K2)];
    [vm_compute; discriminate|vm_compute; discriminate|exact E2|destruct F|].
  split; [exact D2|]. split; [rewrite K2; exact Hsk1|].
  (* pending entries: the last append did not flush *)
  revert E2. revert E1. revert E0. clear. intros E0 E1 E2.
  assert (G : match core_open toy_cr (Some toy_keypair) false disk_empty with
              | (d0, _, Ok c0) =>
                  match core_append toy_cr (Some f1) toy_b1 c0 (mkWorld d0 [] []) with
                  | (c1, w1, _) => match core_append toy_cr (Some false) toy_b2 c1 w1 with
                                   | (c2, _, _) => 0 < ol_entries_len (c_oplog c2) end
                  end
              | _ => False
              end) by (destruct f1; vm_compute; reflexivity).
  rewrite E0, E1, E2 in G. exact G.
Qed.

Definition beq_bytes (a b : bytes) : bool :=
  Nat.eqb (length a) (length b) && forallb (fun p => fst p =? snd p) (combine a b).

(* get i returns block i of bs, for every i < |bs|, and None at |bs| *)
Definition reads_blocks (c : core) (d : disk) (bs : list bytes) : bool :=
  forallb (fun i => match core_get (N.of_nat i) c (mkWorld d [] []) with
                    | (_, _, Ok (Some v)) => beq_bytes v (nth i bs [])
                    | _ => false
                    end) (seq 0 (length bs)) &&
  match core_get (N.of_nat (length bs)) c (mkWorld d [] []) with (_, _, Ok None) => true | _ => false end &&
  (i_length (core_info c) =? N.of_nat (length bs)) && (i_contiguous (core_info c) =? N.of_nat (length bs)) &&
  (i_byte_length (core_info c) =? sumN (map len bs)).

(* appends with pending entries, make_read_only, a second call, an append, reopen, the reads, the
   oplog file; for both slot parities *)
Example toy_read_only_run f1 :
  match toy_state f1 with
  | Some (c, d) =>
      match core_make_read_only toy_cr c (mkWorld d [] []) with
      | (c', w', r) =>
          r = Ok true /\ w_events w' = [] /\ length (w_journal w') = length (ro_ops toy_cr c) /\
          i_writeable (core_info c) = true /\ i_writeable (core_info c') = false /\
          reads_blocks c' (w_disk w') toy_blocks = true /\
          snd (core_make_read_only toy_cr c' w') = Ok false /\
          snd (core_append toy_cr None [[9]] c' w') = Err NotWritable /\
          f_len (d_oplog (w_disk w')) = 8192 /\ f_len (d_oplog d) > 8192 /\
          f_content (d_oplog (w_disk w')) = ro_oplog_file toy_cr c /\
          match core_open toy_cr None true (w_disk w') with
          | (d'', ops, Ok c'') =>
              ops = [] /\ i_writeable (core_info c'') = false /\ kp_secret (c_keypair c'') = None /\
              kp_public (c_keypair c'') = kp_public toy_keypair /\
              reads_blocks c'' d'' toy_blocks = true /\
              snd (core_append toy_cr None [[9]] c'' (mkWorld d'' [] [])) = Err NotWritable
          | _ => False
          end /\
          core_open toy_cr (Some toy_keypair) true (w_disk w') = (w_disk w', [], Err BadArgument)
      end
  | None => False
  end.
Proof. destruct f1; vm_compute; repeat split; reflexivity. Qed.

(* every cut of the journal delta of the call: the storage reopens, all blocks readable, writable
   exactly up to the last tree node write *)
Definition toy_cut_ok (c : core) (d : disk) (k : nat) : bool :=
  match apply_sops d (firstn k (ro_ops toy_cr c)) with
  | Some dk =>
      match core_open toy_cr None true dk with
      | (dk', _, Ok ck) =>
          reads_blocks ck dk' toy_blocks &&
          Bool.eqb (i_writeable (core_info ck))
                   (Nat.leb k (length (page_ops (c_bitfield c)) + length (node_ops (c_tree c))))
      | _ => false
      end
  | None => false
  end.

Example toy_read_only_crash f1 :
  match toy_state f1 with
  | Some (c, d) => forallb (toy_cut_ok c d) (seq 0 (S (S (length (ro_ops toy_cr c))))) = true
  | None => False
  end.
Proof. destruct f1; vm_compute; reflexivity. Qed.

(* the instances of the theorems for the toy states *)
Example toy_instance_read_only f1 k :
  match toy_state f1 with
  | Some (c, d) =>
      exists c' w' c'',
        core_make_read_only toy_cr c (mkWorld d [] []) = (c', w', Ok true) /\
        core_open toy_cr None true (w_disk w') = (w_disk w', [], Ok c'') /\
        same_reads c d c'' (w_disk w') /\ i_writeable (core_info c'') = false /\
        f_content (d_oplog (w_disk w')) = ro_oplog_file toy_cr c /\
        exists dk, apply_sops d (firstn k (rev (w_journal w'))) = Some dk /\
        exists dk' ops ck, core_open toy_cr None true dk = (dk', ops, Ok ck) /\ same_reads c d ck dk'
  | None => False
  end.
Proof.
  pose proof (toy_state_DInv f1) as H. destruct (toy_state f1) as [[c d]|]; [|exact H].
  destruct H as (D & Hsk & _).
  assert (Hw0 : i_writeable (core_info c) = true) by (unfold core_info; cbn [i_writeable]; rewrite Hsk; reflexivity).
  destruct (make_read_only_correct toy_cr toy_crc_ok' toy_hash32 toy_nonblank toy_hashbytes c d [] [] _ D)
    as (d' & E & _ & D' & _ & Hc & _).
  destruct (read_only_reopen toy_cr toy_crc_ok' toy_hash32 toy_nonblank toy_hashbytes c d [] [] _ D)
    as (c1 & w1 & c2 & E1 & Eo & _ & _ & _ & Hw & SR & _).
  rewrite E in E1. injection E1 as <- <-. cbn [w_disk] in *. rewrite Hw0 in E.
  exists (ro_core c). eexists. exists c2. split; [exact E|]. cbn [w_disk w_journal].
  split; [exact Eo|]. split; [exact SR|]. split; [exact Hw|]. split; [exact Hc|].
  rewrite app_nil_r, rev_involutive.
  destruct (make_read_only_crash toy_cr toy_crc_ok' toy_hash32 toy_nonblank toy_hashbytes c d _ _ k D Hsk)
    as (dk & Ak & dk' & ops & ck & Eo' & _ & _ & _ & _ & SR' & _).
  exists dk. split; [exact Ak|]. exists dk', ops, ck. split; [exact Eo'|exact SR'].
Qed.

(* ---------- where the secret key bytes are ---------- *)

Fixpoint starts_with (p l : bytes) : bool :=
  match p, l with
  | [], _ => true
  | x :: p', y :: l' => (x =? y) && starts_with p' l'
  | _ :: _, [] => false
  end.

Fixpoint infix_of (p l : bytes) : bool :=
  starts_with p l || match l with [] => false | _ :: r => infix_of p r end.

Definition toy_secret : bytes := repeat 2 32%nat.

Definition disk_has (p : bytes) (d : disk) : bool :=
  infix_of p (f_content (d_tree d)) || infix_of p (f_content (d_data d)) ||
  infix_of p (f_content (d_bitfield d)) || infix_of p (f_content (d_oplog d)).

(* before the call the oplog file holds the secret key; after it returns no file does *)
Example toy_secret_gone f1 :
  match toy_state f1 with
  | Some (c, d) =>
      disk_has toy_secret d = true /\
      match core_make_read_only toy_cr c (mkWorld d [] []) with
      | (_, w', _) => disk_has toy_secret (w_disk w') = false
      end
  | None => False
  end.
Proof. destruct f1; vm_compute; split; reflexivity. Qed.

(* REGRESSION for finding D25 (make_read_only used to return Ok false without writing anything when
   the core was already read-only; after a crash following the first slot write the reopened core is
   read-only while the other header slot still holds the secret key, so the key could not be removed).
   Now, for EVERY cut of a first call (in particular np+1 and np+2, where the recovered core is
   read-only): reopen, call again: the call completes, reports the recovered writability, and
   afterwards no file — so no header slot — contains the secret bytes; the oplog file is 8192 bytes;
   all blocks are readable, also after one more reopen. *)
Definition toy_second_call_ok (c : core) (d : disk) (k : nat) : bool :=
  match apply_sops d (firstn k (ro_ops toy_cr c)) with
  | Some dk =>
      match core_open toy_cr None true dk with
      | (dk', _, Ok ck) =>
          match core_make_read_only toy_cr ck (mkWorld dk' [] []) with
          | (c2, w2, Ok b) =>
              Bool.eqb b (i_writeable (core_info ck)) &&
              Bool.eqb b (Nat.leb k (length (page_ops (c_bitfield c)) + length (node_ops (c_tree c)))) &&
              negb (disk_has toy_secret (w_disk w2)) &&
              (f_len (d_oplog (w_disk w2)) =? 8192) &&
              negb (i_writeable (core_info c2)) &&
              reads_blocks c2 (w_disk w2) toy_blocks &&
              match core_open toy_cr None true (w_disk w2) with
              | (d3, _, Ok c3) => negb (i_writeable (core_info c3)) && reads_blocks c3 d3 toy_blocks
              | _ => false
              end
          | _ => false
          end
      | _ => false
      end
  | None => false
  end.

Example toy_secret_gone_after_crash_then_second_call f1 :
  match toy_state f1 with
  | Some (c, d) =>
      let np := (length (page_ops (c_bitfield c)) + length (node_ops (c_tree c)))%nat in
      (* the two cuts of the finding: the recovered core is read-only and the secret is still in the file *)
      forallb (fun k =>
        match apply_sops d (firstn k (ro_ops toy_cr c)) with
        | Some dk =>
            match core_open toy_cr None true dk with
            | (dk', _, Ok ck) => negb (i_writeable (core_info ck)) && infix_of toy_secret (f_content (d_oplog dk'))
            | _ => false
            end
        | None => false
        end) [S np; S (S np)] = true /\
      (* the second call removes it, at these and all other cuts *)
      forallb (toy_second_call_ok c d) [S np; S (S np)] = true /\
      forallb (toy_second_call_ok c d) (seq 0 (S (S (length (ro_ops toy_cr c))))) = true
  | None => False
  end.
Proof. destruct f1; vm_compute; repeat split; reflexivity. Qed.

Print Assumptions make_read_only_correct.
Print Assumptions make_read_only_observations.
Print Assumptions read_only_reopen.
Print Assumptions read_only_oplog_file.
Print Assumptions open_with_keypair_rejected.
Print Assumptions open_openable.
Print Assumptions make_read_only_crash.
Print Assumptions make_read_only_crash_journal.
Print Assumptions toy_state_DInv.
Print Assumptions toy_read_only_run.
Print Assumptions toy_read_only_crash.
Print Assumptions toy_instance_read_only.
Print Assumptions toy_secret_gone.
Print Assumptions toy_secret_gone_after_crash_then_second_call.
Print Assumptions make_read_only_twice.
Print Assumptions make_read_only_RecInv.
Print Assumptions secret_gone_after_any_completed_call.

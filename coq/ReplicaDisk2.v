(* ReplicaDisk2.v -- replicas end to end, part 2: REOPEN (goal 3).
   core_open on a disk satisfying RDisk (the disk part of RDInv, or what a crash leaves) succeeds and gives
   RDInv for the same held set and length.  The replay of the pending entries adds their nodes to the unflushed
   map and, for an upgrade entry, tree_truncate recomputes exactly ref_roots cr bs m from the nodes available
   in a SPARSE tree (the roots are there because the accepted proof brought them).  From RDInv the reopened
   core has the same tree, header, key pair and oplog state, the same held set, hence the same observations. *)
From HC Require Import Base NMap Codec CodecFacts Crypto FlatTree Storage Bitfield Oplog Merkle Core.
From HC Require Import FlatTreeFacts StorageFacts BitfieldFacts OplogFacts TreeRef OffsetFacts CoreFacts Crash Refine.
From HC Require Import ClearRefine Reopen ContigBridge Unified1 Unified2 CrashCore1 CrashClear1.
From HC Require Import Sound NoPanic Replicate SoundCoreLib SoundCore SoundCoreUp SoundCoreBU.
From HC Require Import ReplicaDisk1.
From Coq Require Import FMapPositive ZifyN ZifyNat ZifyBool.
Ltac Zify.zify_post_hook ::= Z.div_mod_to_equations.
Arguments N.add : simpl never.
Arguments N.sub : simpl never.
Arguments N.mul : simpl never.
Arguments N.div : simpl never.
Arguments N.modulo : simpl never.
Arguments N.pow : simpl never.
Arguments N.eqb : simpl never.
Arguments N.ltb : simpl never.
Arguments N.leb : simpl never.
Arguments N.max : simpl never.
Arguments N.min : simpl never.
Arguments N.of_nat : simpl never.
Arguments N.to_nat : simpl never.

(* ====================================================================================== *)
(* A. Reading the tree back from a sparse store                                            *)
(* ====================================================================================== *)

Section TreeSparse.
  Variable cr : crypto.
  Hypothesis Hnonblank : forall x, all_zero (cr_hash cr x) = false.
  Variable bs : list bytes.

  Lemma read_roots_sparse tf (pre : list (nat * N)) : forall a b acc bl,
    (forall x, In x pre -> exists data, f_read tf (NODE_SIZE * idx x) NODE_SIZE = Some data /\
                                         node_from_bytes (idx x) data = rn cr bs x) ->
    tiles pre a b ->
    read_roots tf (map idx pre) acc bl (2 * a) =
      Ok (rev acc ++ map (rn cr bs) pre, bl + sumN (map n_length (map (rn cr bs) pre)), 2 * b).
  Proof.
    induction pre as [|[d o] pre IH]; intros a b acc bl Hl T; cbn [tiles map read_roots sumN] in *.
    - subst. rewrite app_nil_r, N.add_0_r. reflexivity.
    - cbn [fst snd] in T. destruct T as [E T]. pose proof (tiles_le _ _ _ T) as Le.
      destruct (Hl (d, o) (or_introl eq_refl)) as (data & Rd & Rn).
      change (idx (d, o)) with (ft_index (N.of_nat d) o) in *.
      rewrite Rd. cbv zeta. rewrite Rn.
      pose proof (ft_index_succ (N.of_nat d) o) as S. fold (p2 d) in S. pose proof (p2_pos d) as Hp.
      assert (Hft : ft_index (N.of_nat d) o = 2 * a + p2 d - 1) by (subst a; nia).
      unfold sub64. destruct (N.leb_spec (2 * a) (ft_index (N.of_nat d) o)) as [L|L]; [|lia].
      cbn [bind].
      replace (2 * a + 2 * (ft_index (N.of_nat d) o - 2 * a + 1)) with (2 * ((o + 1) * p2 d))
        by (rewrite Hft; subst a; lia).
      rewrite (IH _ b _ _ (fun x Hx => Hl x (or_intror Hx)) T). cbn [rev]. rewrite <- app_assoc. cbn [app].
      change (rn cr bs (d, o)) with (ref_node cr bs d o). rewrite N.add_assoc. reflexivity.
  Qed.

  Lemma tree_open_sparse tf ht kf :
    store_roots cr bs tf kf -> ht_length ht = kf ->
    (ht_signature ht = [] \/ length (ht_signature ht) = 64%nat) ->
    tree_open ht tf = Ok (mkTree (ref_roots cr bs kf) kf (prefix_size bs kf) (ht_fork ht) (sig_of ht) nm_empty).
  Proof.
    intros Hl Hk Hs. unfold tree_open. rewrite Hk, ft_full_roots_rrl.
    pose proof (tiles_rrl kf 0) as T. rewrite p2_0, N.mul_1_r in T.
    assert (Hl' : forall x, In x (rev (rrl 0 kf)) ->
                   exists data, f_read tf (NODE_SIZE * idx x) NODE_SIZE = Some data /\
                                node_from_bytes (idx x) data = rn cr bs x).
    { intros [d o] Hx.
      assert (Hin : In (ref_node cr bs d o) (ref_roots cr bs kf)).
      { rewrite ref_roots_rrl. apply in_map_iff. exists (d, o). split; [reflexivity|exact Hx]. }
      destruct (Hl _ Hin) as (data & Rd & Rn). rewrite ref_node_index in Rd, Rn.
      exists data. split; [exact Rd|exact Rn]. }
    pose proof (read_roots_sparse tf _ 0 kf [] 0 Hl' T) as R.
    replace (2 * 0) with 0 in R by lia. rewrite R. cbn [bind rev app].
    rewrite <- ref_roots_rrl, N.add_0_l, ref_roots_size.
    replace (2 * kf / 2) with kf by lia. unfold sig_of.
    destruct (ht_signature ht) as [|s0 s] eqn:Es.
    - cbn [bind]. reflexivity.
    - destruct Hs as [Hs|Hs]; [discriminate Hs|]. unfold parse_signature. rewrite Hs. cbn [Nat.eqb bind].
      reflexivity.
  Qed.

  (* tree_truncate on a sparse tree: all it needs is that the roots of the new length can be looked up *)
  Lemma tree_truncate_sparse t tf a m fork :
    t_roots t = ref_roots cr bs a ->
    (forall x, In x (ref_roots cr bs m) -> required_node t tf (n_index x) = Ok x) ->
    tree_truncate t tf m fork =
    Ok (mkCs m m (prefix_size bs m) 0 fork (ref_roots cr bs m) [] None None true (t_length t) (t_fork t)).
  Proof.
    intros Hroots Hl. unfold tree_truncate.
    rewrite (truncate_roots_ref cr Hnonblank bs t tf _ (t_roots t) 0).
    - cbn [firstn app bind]. fold (ref_roots cr bs m). rewrite ref_roots_size. reflexivity.
    - intros x Hx. rewrite Hroots in Hx. apply (in_ref_roots cr bs x a Hx).
    - apply Nat.le_0_l.
    - intros r Hr.
      assert (Hin : In (ref_at cr bs r) (ref_roots cr bs m)) by (unfold ref_roots; apply in_map, Hr).
      pose proof (Hl _ Hin) as Hq. rewrite ref_at_index_id in Hq. exact Hq.
  Qed.
End TreeSparse.

(* ====================================================================================== *)
(* B. Replay of the entries of accepted proof applications                                 *)
(* ====================================================================================== *)

Section ReplayR.
  Variable cr : crypto.
  Hypothesis Hnonblank : forall x, all_zero (cr_hash cr x) = false.
  Variable bs : list bytes.

  Lemma sig_of_64 f l h s : length s = 64%nat -> sig_of (mkHeaderTree f l h s) = Some s.
  Proof. unfold sig_of. cbn [ht_signature]. destruct s; [discriminate|reflexivity]. Qed.

  (* one entry: the tree moves to the roots of the new length, the header tree follows ht_step *)
  Lemma replay_rdesc pk tf U a e m b h :
    ht_fork (hd_tree h) = 0 ->
    rdesc cr bs pk tf U a e m ->
    exists b' cg,
      replay_entry cr tf (rtree cr bs a (sig_of (hd_tree h)) U, b, h) e =
        Ok (rtree cr bs m (sig_of (ht_step cr bs (hd_tree h) e)) (U ++ e_nodes e), b',
            set_contig (set_tree h (ht_step cr bs (hd_tree h) e)) cg).
  Proof.
    intros Hfk (Ham & Hm & _ & Hup & Hbu).
    unfold replay_entry. rewrite fold_add_node.
    cbn [rtree t_roots t_length t_byte_length t_fork t_signature t_unflushed].
    rewrite <- add_nodes_app.
    set (t1 := mkTree (ref_roots cr bs a) a (prefix_size bs a) 0 (sig_of (hd_tree h))
                      (add_nodes nm_empty (U ++ e_nodes e))).
    set (bh := match e_bitfield e with
               | Some u => (bf_apply b u, set_contig h (update_contig (hd_contig h) (bf_apply b u) u))
               | None => (b, h)
               end).
    assert (Ebh : exists cg, bh = (fst bh, set_contig h cg)).
    { unfold bh. destruct (e_bitfield e) as [u|].
      - eexists. reflexivity.
      - exists (hd_contig h). cbn [fst]. destruct h; reflexivity. }
    destruct Ebh as (cg & Ebh). rewrite Ebh. exists (fst bh), cg.
    unfold ht_step. destruct (e_upgrade e) as [u|].
    - destruct Hup as (A1 & A2 & A3 & A4 & A5 & A6 & A7).
      rewrite A2, A1.
      rewrite (tree_truncate_sparse cr Hnonblank bs t1 tf a m 0).
      2:{ reflexivity. }
      2:{ intros x Hx. rewrite <- (A7 x Hx). apply required_node_same_unflushed. reflexivity. }
      cbn [bind]. unfold parse_signature. rewrite A4. cbn [Nat.eqb bind].
      cbn [cs_length cs_byte_length cs_batch_length cs_fork cs_roots cs_rnodes cs_orig_length cs_orig_fork].
      unfold tree_commit, commitable.
      cbn [cs_orig_fork cs_upgraded cs_orig_length cs_ancestors cs_roots cs_length cs_byte_length cs_fork
           cs_signature cs_nodes cs_rnodes rev_append t1 t_fork t_length t_unflushed].
      rewrite !N.eqb_refl. cbn [andb negb].
      assert ((tu_ancestors u <? a) = false) as -> by lia.
      cbn [bind set_contig set_tree hd_tree hd_key hd_ns hd_mpk hd_keypair hd_contig]. rewrite Hfk.
      unfold rtree. rewrite sig_of_64 by exact A4. reflexivity.
    - subst m. cbn [set_contig set_tree hd_tree hd_key hd_ns hd_mpk hd_keypair hd_contig].
      replace (mkHeader (hd_key h) (hd_ns h) (hd_mpk h) (hd_keypair h) (hd_tree h) cg) with (set_contig h cg)
        by reflexivity.
      reflexivity.
  Qed.

  Lemma hdr_after_cons h e l cg cg1 :
    hdr_after cr bs (set_contig (set_tree h (ht_step cr bs (hd_tree h) e)) cg1) l cg = hdr_after cr bs h (e :: l) cg.
  Proof. reflexivity. Qed.

  Lemma ht_fork_fold l : forall ht, ht_fork (fold_left (ht_step cr bs) l ht) = ht_fork ht.
  Proof.
    induction l as [|e l IH]; intros ht; [reflexivity|]. cbn [fold_left]. rewrite IH.
    unfold ht_step. destruct (e_upgrade e); reflexivity.
  Qed.

  Lemma replay_rchain pk tf (l : list entry) : forall U a n b h,
    ht_fork (hd_tree h) = 0 ->
    rchain cr bs pk tf U a l n ->
    exists b' cg,
      replay_entries cr tf (rtree cr bs a (sig_of (hd_tree h)) U, b, h) l =
        Ok (rtree cr bs n (sig_of (hd_tree (hdr_after cr bs h l cg))) (U ++ flat_map e_nodes l), b',
            hdr_after cr bs h l cg).
  Proof.
    induction l as [|e l IH]; intros U a n b h Hfk C; cbn [rchain replay_entries flat_map] in *.
    - subst. exists b, (hd_contig h). rewrite app_nil_r, hdr_after_nil. reflexivity.
    - destruct C as (m & He & C).
      destruct (replay_rdesc pk tf U a e m b h Hfk He) as (b1 & cg1 & E1). rewrite E1. cbn [bind].
      set (h1 := set_contig (set_tree h (ht_step cr bs (hd_tree h) e)) cg1).
      assert (Hfk1 : ht_fork (hd_tree h1) = 0).
      { unfold h1. cbn [set_contig set_tree hd_tree]. unfold ht_step.
        destruct (e_upgrade e); [cbn [ht_fork]|]; exact Hfk. }
      change (ht_step cr bs (hd_tree h) e) with (hd_tree h1).
      destruct (IH (U ++ e_nodes e) m n b1 h1 Hfk1 C) as (b' & cg & E). rewrite E.
      exists b', cg. unfold h1. rewrite hdr_after_cons, <- app_assoc. reflexivity.
  Qed.

  Lemma rchain_no_drops pk tf l : forall U a n, rchain cr bs pk tf U a l n -> drops_nonempty (updates_of l).
  Proof.
    induction l as [|e l IH]; intros U a n C; cbn [rchain] in C.
    - intros u [].
    - destruct C as (m & (_ & _ & _ & _ & Hbu) & C).
      change (e :: l) with ([e] ++ l). rewrite updates_of_app.
      intros u Hin Hd. apply in_app_or in Hin as [Hin|Hin].
      + unfold updates_of in Hin. cbn [flat_map] in Hin. destruct (e_bitfield e) as [u0|]; [|destruct Hin].
        rewrite app_nil_r in Hin. destruct Hin as [<-|[]]. destruct Hbu as (Hbu & _). rewrite Hbu in Hd. discriminate Hd.
      + apply (IH _ _ _ C u Hin Hd).
  Qed.

  (* the bitfield part (CrashClear1.replay_bitfield_Y for an arbitrary held set) *)
  Lemma replay_bitfield_H tf l t (f : file) h t' b' h' H :
    replay_entries cr tf (t, bf_open f, h) l = Ok (t', b', h') ->
    drops_nonempty (updates_of l) ->
    BfH f (updates_of l) (hd_contig h) H ->
    (forall i, bf_get b' i = H i) /\ fexact H (hd_contig h') /\
    b' = fold_left bf_apply (updates_of l) (bf_open f).
  Proof.
    intros Hr Hne (Hm & Hrep & B0 & Hex & HB).
    apply replay_entries_bf in Hr.
    assert (Eb : b' = fold_left bf_apply (updates_of l) (bf_open f)).
    { rewrite <- (fst_replay_bf (updates_of l) (bf_open f) (hd_contig h)), <- Hr. reflexivity. }
    assert (G : forall i, bf_get b' i = H i).
    { intros i. rewrite Eb, bf_get_fold_fun, <- Hrep. apply upds_fun_ext. intros j. apply bf_open_get, Hm. }
    split; [exact G|]. split; [|exact Eb].
    pose proof (replay_bf_pres_fun (updates_of l) (bf_open f) B0 (hd_contig h) Hne
                  (fexact_InvAB _ _ _ Hex)) as HI.
    rewrite <- Hr in HI. cbn [fst snd] in HI.
    apply (fexact_ext (upds_fun B0 (updates_of l))).
    - intros i. apply HB.
    - apply (CR.InvAB_same_exact (bf_get b')); [|exact HI]. intros i. rewrite G. symmetry. apply HB.
  Qed.
End ReplayR.

(* ====================================================================================== *)
(* C. core_open on a replica disk                                                          *)
(* ====================================================================================== *)

Section ReopenR.
  Variable cr : crypto.
  Hypothesis Hcrc : crc_ok cr.
  Hypothesis Hhash32 : forall x, length (cr_hash cr x) = 32%nat.
  Hypothesis Hnonblank : forall x, all_zero (cr_hash cr x) = false.
  Hypothesis Hhashbytes : forall x, bytes_ok (cr_hash cr x) = true.
  Variable bs : list bytes.
  Hypothesis Hw : writer_fits bs.

  Lemma rtree_eq t sg U :
    t_roots t = ref_roots cr bs (t_length t) -> t_byte_length t = prefix_size bs (t_length t) -> t_fork t = 0 ->
    t_signature t = sg -> t_unflushed t = add_nodes nm_empty U -> rtree cr bs (t_length t) sg U = t.
  Proof.
    destruct t as [tr tl tb tfk ts tu]. cbn [t_roots t_length t_byte_length t_fork t_signature t_unflushed].
    intros -> -> -> -> ->. reflexivity.
  Qed.

  Lemma len_bs_u64 : N.of_nat (length bs) <= u64_max.
  Proof. destruct Hw as [_ H]. unfold NODE_SIZE in H. lia. Qed.

  Lemma open_tail_R pk d H r s0 s1 body st0 st1 bits hf l kf ops :
    f_content (d_oplog d) = s0 ++ s1 ++ body ->
    good cr s0 s1 body st0 st1 bits hf l ->
    hdr_rep cr bs pk hf kf -> rchain cr bs pk (d_tree d) [] kf l r ->
    store_roots cr bs (d_tree d) kf ->
    RTree cr bs (rtree cr bs r None (flat_map e_nodes l)) (d_tree d) (d_data d) H ->
    BfH (d_bitfield d) (updates_of l) (hd_contig hf) H ->
    exists c', open_tail cr d (mkOpenOutcome (mkOplog bits (N.of_nat (length l)) (entries_size l)) hf ops l) = Ok c' /\
      RDInv cr bs c' d H /\ c_keypair c' = mkKeypair pk None /\ c_skip c' = 0 /\
      c_oplog c' = mkOplog bits (N.of_nat (length l)) (entries_size l) /\
      (exists cg, c_header c' = hdr_after cr bs hf l cg) /\
      c_tree c' = rtree cr bs r (sig_of (hd_tree (c_header c'))) (flat_map e_nodes l).
  Proof.
    intros Hcont G Hhf Hch Hst HT Hbf.
    pose proof Hhf as (Hok & Hkp & Hfk & Hln & Hkfn & Hcase).
    unfold open_tail. cbn [oo_header oo_entries oo_oplog].
    assert (Hsg : ht_signature (hd_tree hf) = [] \/ length (ht_signature (hd_tree hf)) = 64%nat).
    { destruct Hcase as [(_ & _ & E)|(_ & E & _)]; [left|right]; exact E. }
    rewrite (tree_open_sparse cr Hnonblank bs (d_tree d) (hd_tree hf) kf Hst Hln Hsg). cbn [bind]. rewrite Hfk.
    change (mkTree (ref_roots cr bs kf) kf (prefix_size bs kf) 0 (sig_of (hd_tree hf)) nm_empty)
      with (rtree cr bs kf (sig_of (hd_tree hf)) []).
    destruct (replay_rchain cr Hnonblank bs pk (d_tree d) l [] kf r (bf_open (d_bitfield d)) hf Hfk Hch)
      as (b' & cg & Hrepl).
    rewrite Hrepl. cbn [bind app].
    destruct (replay_bitfield_H cr (d_tree d) l _ (d_bitfield d) hf _ b' _ H Hrepl
                (rchain_no_drops cr bs pk (d_tree d) l [] kf r Hch) Hbf) as (Hbf' & Hex' & Eb').
    destruct (hdr_after_fields cr bs hf l cg) as (F1 & F2 & F3 & F4 & F5 & F6).
    rewrite F6 in Hex'.
    eexists. split; [reflexivity|].
    assert (Hrle : r <= N.of_nat (length bs)) by apply HT.
    assert (Hcg : cg <= r).
    { apply (fexact_le H); [|exact Hex']. intros i Hi. apply (RTree_held_lt cr bs _ _ _ H i HT Hi). }
    pose proof len_bs_u64 as L64.
    split; [|split; [rewrite F4; exact Hkp|split; [reflexivity|split; [reflexivity|split; [exists cg; reflexivity|reflexivity]]]]].
    unfold RDInv. cbv zeta. cbn [c_tree c_bitfield c_header c_keypair c_oplog].
    split.
    { apply RInv_RTree. cbn [c_tree c_bitfield].
      apply (RTree_ext cr bs (rtree cr bs r None (flat_map e_nodes l)) _ _ _ H (bf_get b')); try reflexivity; assumption. }
    split; [exact Hbf'|]. split; [rewrite F6; exact Hex'|]. split; [reflexivity|].
    split; [reflexivity|].
    rewrite F4, Hkp. cbn [kp_public rtree t_length t_unflushed ol_bits ol_entries_len ol_entries_bytes].
    exists s0, s1, body, st0, st1, hf, l, kf.
    split; [exact Hcont|]. split; [exact G|]. split; [reflexivity|]. split; [reflexivity|].
    split; [exact Hhf|]. split; [rewrite F6; reflexivity|]. split; [exact Hch|]. split; [reflexivity|].
    split; [exact Hst|]. split; [exact Hbf|].
    rewrite Eb'. apply BfSync_fold, BfSync_open. apply Hbf.
  Qed.

  (* GOAL 3, from the disk alone (also after a crash): the open succeeds and re-establishes the invariant for
     the same held set and length; only the oplog store may change (the truncate that removes stale entries
     after an interrupted flush) *)
  Theorem reopen_RDisk pk d H r :
    RDisk cr bs pk d H r ->
    exists c' d' ops, core_open cr None true d = (d', ops, Ok c') /\
      RDInv cr bs c' d' H /\ t_length (c_tree c') = r /\
      c_keypair c' = mkKeypair pk None /\ c_skip c' = 0 /\
      d_tree d' = d_tree d /\ d_data d' = d_data d /\ d_bitfield d' = d_bitfield d /\
      (ops = [] /\ d' = d \/ ops = [ST Oplog ENTRIES_OFFSET]).
  Proof.
    intros (s0 & s1 & body & st0 & st1 & bits & hf & l & kf & Hcont & HO & Hhf & Hch & Hst & HT & Hbf).
    destruct (OplX_open cr Hcrc Hhash32 Hnonblank Hhashbytes s0 s1 body st0 st1 bits hf l HO)
      as (ops & Hopen & [(-> & G)|(-> & L0 & L1 & G)]).
    - rewrite <- Hcont in Hopen.
      rewrite (core_open_eq cr d _ d Hopen eq_refl). cbn [oo_ops].
      destruct (open_tail_R pk d H r s0 s1 body st0 st1 bits hf l kf [] Hcont G Hhf Hch Hst HT Hbf)
        as (c' & E & X & K & Sk & _ & _ & Et).
      exists c', d, []. split; [rewrite E; reflexivity|]. split; [exact X|].
      split; [rewrite Et; reflexivity|]. split; [exact K|]. split; [exact Sk|].
      repeat (split; [reflexivity|]). left. split; reflexivity.
    - rewrite <- Hcont in Hopen.
      set (d' := d_set d Oplog (f_truncate (d_oplog d) ENTRIES_OFFSET)).
      assert (Ha : apply_sops d [ST Oplog ENTRIES_OFFSET] = Some d') by reflexivity.
      rewrite (core_open_eq cr d _ d' Hopen Ha). cbn [oo_ops].
      assert (Hcont' : f_content (d_oplog d') = s0 ++ s1 ++ []).
      { unfold d'. destruct d as [ft fd fb fo]. cbn [d_set d_oplog] in *.
        rewrite f_content_truncate, Hcont. apply c_truncate_all_entries; assumption. }
      assert (Et : d_tree d' = d_tree d) by (destruct d; reflexivity).
      assert (Ed : d_data d' = d_data d) by (destruct d; reflexivity).
      assert (Eb : d_bitfield d' = d_bitfield d) by (destruct d; reflexivity).
      destruct (open_tail_R pk d' H r s0 s1 [] st0 st1 bits hf l kf [ST Oplog ENTRIES_OFFSET] Hcont' G Hhf)
        as (c' & E & X & K & Sk & _ & _ & Ett); try (rewrite ?Ed, ?Et, ?Eb; assumption).
      exists c', d', [ST Oplog ENTRIES_OFFSET]. split; [rewrite E; reflexivity|]. split; [exact X|].
      split; [rewrite Ett; reflexivity|]. split; [exact K|]. split; [exact Sk|].
      repeat (split; [assumption|]). right. reflexivity.
  Qed.

  (* GOAL 3, from a running state: nothing to repair, the disk is untouched, and the reopened core is the old
     one up to the representation of the bitfield and the flush counter *)
  Theorem reopen_RDInv c d H :
    RDInv cr bs c d H ->
    exists c', core_open cr None true d = (d, [], Ok c') /\
      RDInv cr bs c' d H /\
      c_tree c' = c_tree c /\ c_header c' = c_header c /\ c_keypair c' = c_keypair c /\
      c_oplog c' = c_oplog c /\ (forall i, bf_get (c_bitfield c') i = bf_get (c_bitfield c) i) /\ c_skip c' = 0.
  Proof.
    intros X.
    pose proof (RDInv_keypair cr bs c d H X) as Kc.
    pose proof (RDInv_RDisk cr bs c d H X) as XD.
    pose proof X as (W & Hb & Hex & Hk & Hs & s0 & s1 & body & st0 & st1 & hf & l & kf &
                     Hcont & G & Hlen & Hbytes & Hhf & Hh & Hch & Hu & Hst & Hbf & Hsync).
    set (pk := kp_public (c_keypair c)) in *. set (r := t_length (c_tree c)) in *.
    assert (Hopen : oplog_open cr None (f_content (d_oplog d)) =
                    Ok (mkOpenOutcome (mkOplog (ol_bits (c_oplog c)) (N.of_nat (length l)) (entries_size l)) hf [] l)).
    { rewrite Hcont. apply (good_open cr Hcrc _ _ _ _ _ _ _ _ G). }
    rewrite (core_open_eq cr d _ d Hopen eq_refl). cbn [oo_ops].
    assert (HT : RTree cr bs (rtree cr bs r None (flat_map e_nodes l)) (d_tree d) (d_data d) H).
    { apply (RTree_ext cr bs (c_tree c) _ _ _ (bf_get (c_bitfield c)) H); try reflexivity.
      - cbn [rtree t_roots]. destruct W as (_ & _ & -> & _). reflexivity.
      - cbn [rtree t_byte_length]. destruct W as (_ & _ & _ & -> & _). reflexivity.
      - cbn [rtree t_fork]. destruct W as (_ & -> & _). reflexivity.
      - cbn [rtree t_unflushed]. symmetry. exact Hu.
      - intros i. symmetry. apply Hb.
      - apply RInv_RTree, W. }
    destruct (open_tail_R pk d H r s0 s1 body st0 st1 (ol_bits (c_oplog c)) hf l kf [] Hcont G Hhf Hch Hst HT Hbf)
      as (c' & E & X' & K & Sk & Eo & (cg & Eh) & Et).
    exists c'. split; [rewrite E; reflexivity|]. split; [exact X'|].
    assert (Ecg : cg = hd_contig (c_header c)).
    { destruct X' as (_ & _ & Hex2 & _). rewrite Eh in Hex2.
      destruct (hdr_after_fields cr bs hf l cg) as (_ & _ & _ & _ & _ & F6). rewrite F6 in Hex2.
      apply (fexact_unique H); assumption. }
    assert (Ehh : c_header c' = c_header c) by (rewrite Eh, Ecg; symmetry; exact Hh).
    split.
    { rewrite Et, Ehh. destruct W as (_ & W2 & W3 & W4 & _).
      apply rtree_eq; assumption. }
    split; [exact Ehh|]. split; [rewrite K; symmetry; exact Kc|].
    split.
    { rewrite Eo. destruct (c_oplog c) as [b0 el eb]. cbn [ol_bits ol_entries_len ol_entries_bytes] in *.
      rewrite Hlen, Hbytes. reflexivity. }
    split; [|exact Sk].
    intros i. destruct X' as (_ & Hb' & _). rewrite Hb', Hb. reflexivity.
  Qed.

  (* ... hence every observation is unchanged: info (length, byte length, contiguous length, fork, writeable =
     false), has at every index, get at every index (result, events sent, disk) *)
  Corollary reopen_RDInv_observations c d H :
    RDInv cr bs c d H ->
    exists c', core_open cr None true d = (d, [], Ok c') /\ RDInv cr bs c' d H /\
      core_info c' = core_info c /\ i_writeable (core_info c') = false /\
      (forall i, core_has c' i = core_has c i) /\
      (forall i j ev, snd (core_get i c' (mkWorld d j ev)) = snd (core_get i c (mkWorld d j ev)) /\
                      snd (fst (core_get i c' (mkWorld d j ev))) = snd (fst (core_get i c (mkWorld d j ev)))).
  Proof.
    intros X. destruct (reopen_RDInv c d H X) as (c' & E & X' & Et & Eh & Ek & _ & Eb & _).
    exists c'. split; [exact E|]. split; [exact X'|].
    split; [unfold core_info; rewrite Et, Eh, Ek; reflexivity|].
    split.
    { destruct (RD_info cr bs c' d H X') as (I & _). rewrite I. reflexivity. }
    split; [intros i; unfold core_has; apply Eb|].
    intros i j ev.
    rewrite (RD_get cr bs Hw c' d H j ev i X'), (RD_get cr bs Hw c d H j ev i X).
    destruct (H i); split; reflexivity.
  Qed.
End ReopenR.

Print Assumptions tree_open_sparse.
Print Assumptions tree_truncate_sparse.
Print Assumptions replay_rchain.
Print Assumptions replay_bitfield_H.
Print Assumptions open_tail_R.
Print Assumptions reopen_RDisk.
Print Assumptions reopen_RDInv.
Print Assumptions reopen_RDInv_observations.

(* FrameGuardLib.v -- the 2^30 frame guard of the oplog (Oplog.frame, build_len_and_info_header in
   src/oplog/mod.rs): size of an encoded entry, number of nodes a changeset can carry, and the places of
   core_apply_proof / core_append where the guard can fire.  No invariant is used in this file: every
   statement holds for arbitrary trees, stores and proofs.
     1. enc_entry_len_bound          len (enc_entry e) <= 1 + (9 + 50 * #nodes) + (36 + #signature) + 19
        enc_entry_len_lower          34 * #nodes <= len (enc_entry e)
     2. verify_proof_node_count      #cs_nodes <= #roots of the tree + 2 * #nodes carried by the proof + 6
        cs_append_all_node_count     #cs_nodes <= #roots of the tree + 2 * #blocks of the batch (and >= #blocks)
     3. log_and_commit_frame_cause   log_and_commit answers the frame panic only for an entry of >= 2^30 bytes
        maybe_flush_frame_cause      maybe_flush answers the frame panic only for a header of >= 2^30 bytes
     4. create_proof_carried         a proof made by create_valueless_proof carries at most 782 nodes *)
From HC Require Import Base NMap Codec CodecFacts Crypto FlatTree Storage Bitfield Oplog Merkle Core.
From HC Require Import OplogFacts CoreFacts Refine EventsAvail.
From Coq Require Import ZifyN ZifyNat ZifyBool.
Ltac Zify.zify_post_hook ::= Z.div_mod_to_equations.
Arguments N.add : simpl never.
Arguments N.sub : simpl never.
Arguments N.mul : simpl never.
Arguments N.div : simpl never.
Arguments N.modulo : simpl never.
Arguments N.pow : simpl never.
Arguments N.eqb : simpl never.
Arguments N.ltb : simpl never.
Arguments N.leb : simpl never.
Arguments N.of_nat : simpl never.
Arguments N.to_nat : simpl never.

Definition FRAME_LIMIT : N := 1073741824.     (* 2^30 *)

Lemma FRAME_LIMIT_pow : FRAME_LIMIT = 2 ^ 30.
Proof. reflexivity. Qed.

(* ====================================================================================== *)
(* 1. The size of an encoded entry                                                         *)
(* ====================================================================================== *)

Lemma size_uint_bounds v : 1 <= size_uint v <= 9.
Proof. unfold size_uint. destruct (v <? 253), (v <=? 65535), (v <=? 4294967295); lia. Qed.

Lemma len_enc_uint_bounds v : 1 <= len (enc_uint v) <= 9.
Proof. rewrite len_enc_uint. apply size_uint_bounds. Qed.

Lemma len_cons x (b : bytes) : len (x :: b) = 1 + len b.
Proof. unfold len. cbn [length]. lia. Qed.

Lemma len_nil : len [] = 0.
Proof. reflexivity. Qed.

Ltac lens := repeat first [rewrite len_app | rewrite len_cons | rewrite len_nil].

Lemma enc_node_len n b : enc_node n = Ok b -> 34 <= len b <= 50.
Proof.
  unfold enc_node. destruct (Nat.eqb (length (n_hash n)) 32) eqn:E; [|discriminate].
  intros H. injection H as <-. apply Nat.eqb_eq in E.
  rewrite !len_app. pose proof (len_enc_uint_bounds (n_index n)). pose proof (len_enc_uint_bounds (n_length n)).
  assert (len (n_hash n) = 32) by (unfold len; rewrite E; reflexivity). lia.
Qed.

Lemma enc_all_node_len l : forall b,
  enc_all enc_node l = Ok b -> 34 * N.of_nat (length l) <= len b <= 50 * N.of_nat (length l).
Proof.
  induction l as [|x l IH]; intros b H; cbn [enc_all] in H.
  - injection H as <-. cbn [length]. rewrite len_nil. lia.
  - apply bind_ok in H. destruct H as (a & Ha & H). apply bind_ok in H. destruct H as (b0 & Hb & H).
    injection H as <-. rewrite len_app. pose proof (enc_node_len x a Ha). pose proof (IH b0 Hb).
    cbn [length]. lia.
Qed.

Lemma enc_nodes_len l b :
  enc_nodes l = Ok b -> 34 * N.of_nat (length l) <= len b <= 9 + 50 * N.of_nat (length l).
Proof.
  unfold enc_nodes. intros H. apply bind_ok in H. destruct H as (a & Ha & H). injection H as <-.
  rewrite len_app. pose proof (len_enc_uint_bounds (N.of_nat (length l))). pose proof (enc_all_node_len l a Ha). lia.
Qed.

Lemma enc_tree_upgrade_len u : len (enc_tree_upgrade u) <= 36 + len (tu_signature u).
Proof.
  unfold enc_tree_upgrade, enc_buffer. rewrite !len_app.
  pose proof (len_enc_uint_bounds (tu_fork u)). pose proof (len_enc_uint_bounds (tu_ancestors u)).
  pose proof (len_enc_uint_bounds (tu_length u)). pose proof (len_enc_uint_bounds (len (tu_signature u))). lia.
Qed.

Lemma enc_bf_update_len u : len (enc_bf_update u) <= 19.
Proof.
  unfold enc_bf_update. lens.
  pose proof (len_enc_uint_bounds (bu_start u)). pose proof (len_enc_uint_bounds (bu_length u)). lia.
Qed.

(* the explicit bound: flags byte; vector prefix and at most 9 + 9 + 32 bytes per node; three varints,
   the signature prefix and the signature; drop flag and two varints *)
Definition entry_size_bound (e : entry) : N :=
  1 + (9 + 50 * N.of_nat (length (e_nodes e)))
  + (match e_upgrade e with Some u => 36 + len (tu_signature u) | None => 0 end)
  + (match e_bitfield e with Some _ => 19 | None => 0 end).

Theorem enc_entry_len_bound e b : enc_entry e = Ok b -> len b <= entry_size_bound e.
Proof.
  unfold enc_entry, entry_size_bound. intros H. apply bind_ok in H. destruct H as (ns & Hns & H).
  injection H as <-. lens.
  assert (Hn : len ns <= 9 + 50 * N.of_nat (length (e_nodes e))).
  { destruct (e_nodes e) as [|x l] eqn:E.
    - injection Hns as <-. rewrite len_nil. lia.
    - apply enc_nodes_len in Hns. lia. }
  assert (Hu : len (match e_upgrade e with Some u => enc_tree_upgrade u | None => [] end)
               <= match e_upgrade e with Some u => 36 + len (tu_signature u) | None => 0 end).
  { destruct (e_upgrade e) as [u|]; [apply enc_tree_upgrade_len|rewrite len_nil; lia]. }
  assert (Hb : len (match e_bitfield e with Some u => enc_bf_update u | None => [] end)
               <= match e_bitfield e with Some _ => 19 | None => 0 end).
  { destruct (e_bitfield e) as [u|]; [apply enc_bf_update_len|rewrite len_nil; lia]. }
  destruct (e_upgrade e) as [u|]; destruct (e_bitfield e) as [v|]; lia.
Qed.

(* the converse direction: every node costs at least 1 + 1 + 32 bytes *)
Theorem enc_entry_len_lower e b : enc_entry e = Ok b -> 34 * N.of_nat (length (e_nodes e)) <= len b.
Proof.
  unfold enc_entry. intros H. apply bind_ok in H. destruct H as (ns & Hns & H).
  injection H as <-. lens.
  assert (Hn : 34 * N.of_nat (length (e_nodes e)) <= len ns).
  { destruct (e_nodes e) as [|x l] eqn:E.
    - cbn [length]. lia.
    - apply enc_nodes_len in Hns. lia. }
  lia.
Qed.

(* the entry logged for a changeset *)
Lemma entry_of_changeset_shape cs bu h e h1 :
  entry_of_changeset cs bu h = Ok (e, h1) ->
  e_nodes e = cs_nodes cs /\ e_bitfield e = bu /\
  ((cs_upgraded cs = false /\ e_upgrade e = None /\ h1 = h) \/
   (exists hash sg, cs_upgraded cs = true /\ cs_hash cs = Some hash /\ cs_signature cs = Some sg /\
      e_upgrade e = Some (mkTreeUpgrade (cs_fork cs) (cs_ancestors cs) (cs_length cs) sg) /\
      h1 = set_tree h (mkHeaderTree (ht_fork (hd_tree h)) (cs_length cs) hash sg))).
Proof.
  unfold entry_of_changeset. destruct (cs_upgraded cs) eqn:U.
  - destruct (cs_hash cs) as [hash|] eqn:Eh; [|discriminate].
    destruct (cs_signature cs) as [sg|] eqn:Es; [|discriminate].
    intros H. injection H as <- <-. cbn [e_nodes e_bitfield e_upgrade]. split; [reflexivity|]. split; [reflexivity|].
    right. exists hash, sg. repeat split; reflexivity.
  - intros H. injection H as <- <-. cbn [e_nodes e_bitfield e_upgrade]. split; [reflexivity|]. split; [reflexivity|].
    left. repeat split; reflexivity.
Qed.

(* 129 + 50 * #nodes bytes when the signature of an upgraded changeset has at most 64 bytes *)
Lemma changeset_entry_len cs bu h e h1 b :
  entry_of_changeset cs bu h = Ok (e, h1) -> enc_entry e = Ok b ->
  (forall sg, cs_upgraded cs = true -> cs_signature cs = Some sg -> len sg <= 64) ->
  len b <= 129 + 50 * N.of_nat (length (cs_nodes cs)).
Proof.
  intros He Hb Hsig. pose proof (enc_entry_len_bound e b Hb) as L. unfold entry_size_bound in L.
  destruct (entry_of_changeset_shape cs bu h e h1 He) as (En & Eb & [(U & Eu & _)|(hash & sg & U & _ & Es & Eu & _)]).
  - rewrite En, Eu in L. destruct (e_bitfield e); lia.
  - rewrite En, Eu in L. cbn [tu_signature] in L. pose proof (Hsig sg U Es). destruct (e_bitfield e); lia.
Qed.

(* ====================================================================================== *)
(* 2. The number of nodes of a changeset                                                   *)
(* ====================================================================================== *)

(* roots + pushed nodes: every appended root adds exactly 2 (the root itself is pushed, every merge pushes a
   parent and removes a root) *)
Definition pot (c : changeset) : nat := (length (cs_roots c) + length (cs_rnodes c))%nat.

Lemma length_cs_nodes_lib (c : changeset) : length (cs_nodes c) = length (cs_rnodes c).
Proof. unfold cs_nodes. rewrite rev_append_rev, app_nil_r, rev_length. reflexivity. Qed.

Section Count.
  Variable cr : crypto.

  Lemma merge_roots_pot fuel : forall rr nr it rr' nr' it',
    merge_roots cr fuel rr nr it = Ok (rr', nr', it') ->
    (length rr' + length nr' = length rr + length nr)%nat /\ (length nr <= length nr')%nat /\
    (1 <= length rr -> 1 <= length rr')%nat.
  Proof.
    induction fuel as [|f IH]; intros rr nr it rr' nr' it' H; cbn [merge_roots] in H; [discriminate H|].
    destruct rr as [|a [|b rest]].
    - injection H as <- <- <-. lia.
    - injection H as <- <- <-. lia.
    - destruct (negb (it_index (it_sibling it) =? n_index b)).
      + injection H as <- <- <-. lia.
      + apply bind_ok in H. destruct H as (l & _ & H). apply IH in H. cbn [length] in *. lia.
  Qed.

  Lemma append_root_pot c n it c' it' :
    append_root cr c n it = Ok (c', it') ->
    pot c' = (pot c + 2)%nat /\ (S (length (cs_rnodes c)) <= length (cs_rnodes c'))%nat /\
    (1 <= length (cs_roots c'))%nat.
  Proof.
    unfold append_root. intros H. apply bind_ok in H. destruct H as (bl & _ & H).
    apply bind_ok in H. destruct H as ([[rr nr] it1] & Hm & H). injection H as <- <-.
    apply merge_roots_pot in Hm. unfold pot. cbn [cs_roots cs_rnodes length] in *.
    rewrite rev_length in *. lia.
  Qed.

  Lemma cs_append_pot c data c' :
    cs_append cr c data = Ok c' ->
    pot c' = (pot c + 2)%nat /\ (S (length (cs_rnodes c)) <= length (cs_rnodes c'))%nat /\
    (1 <= length (cs_roots c'))%nat.
  Proof.
    unfold cs_append. intros H. apply bind_ok in H. destruct H as ([c1 it1] & Ha & H). injection H as <-.
    apply append_root_pot in Ha. unfold pot in *. cbn [cs_roots cs_rnodes]. exact Ha.
  Qed.

  Lemma cs_append_all_pot batch : forall c c',
    cs_append_all cr c batch = Ok c' ->
    pot c' = (pot c + 2 * length batch)%nat /\
    (length (cs_rnodes c) + length batch <= length (cs_rnodes c'))%nat.
  Proof.
    induction batch as [|d r IH]; intros c c' H; cbn [cs_append_all] in H.
    - injection H as <-. cbn [length]. split; lia.
    - apply bind_ok in H. destruct H as (c1 & H1 & H). apply cs_append_pot in H1. apply IH in H.
      cbn [length]. destruct H as (A & B). split; lia.
  Qed.

  (* a batch of n blocks logs at most (roots of the tree) + 2n nodes, and at least n *)
  Theorem cs_append_all_node_count t batch cs sk :
    cs_append_all cr (tree_changeset t) batch = Ok cs ->
    (length batch <= length (cs_nodes (cs_hash_and_sign cr cs sk)))%nat /\
    (length (cs_nodes (cs_hash_and_sign cr cs sk)) <= length (t_roots t) + 2 * length batch)%nat.
  Proof.
    intros H. apply cs_append_all_pot in H. destruct H as (A & B).
    unfold pot in A. cbn [tree_changeset cs_roots cs_rnodes length] in A, B.
    rewrite length_cs_nodes_lib. unfold cs_hash_and_sign, cs_set_hash_sig. cbn [cs_rnodes]. lia.
  Qed.
End Count.

(* ---------- the verifier ---------- *)

(* the nodes a proof carries: block (or hash) section, seek section, upgrade nodes, additional nodes *)
Definition proof_carried (pf : proof) : nat :=
  ((match p_block pf with Some b => length (db_nodes b) | None => 0 end)
   + (match p_hash pf with Some h => length (dh_nodes h) | None => 0 end)
   + (match p_seek pf with Some s => length (ds_nodes s) | None => 0 end)
   + (match p_upgrade pf with Some u => length (du_nodes u) + length (du_additional u) | None => 0 end))%nat.

Section CountVerify.
  Variable cr : crypto.

  (* what is left in a node queue *)
  Definition qn (q : nodeq) : nat :=
    (length (q_nodes q) + match q_extra q with Some _ => 1 | None => 0 end)%nat.

  Lemma q_length_qn q : q_length q = N.of_nat (qn q).
  Proof. unfold q_length, qn. destruct (q_extra q); lia. Qed.

  Lemma q_shift_qn q i n q' : q_shift q i = Ok (n, q') -> qn q = S (qn q').
  Proof.
    unfold q_shift, qn. destruct (q_extra q) as [e|] eqn:Ee.
    - destruct (n_index e =? i).
      + intros H. injection H as _ <-. cbn [q_nodes q_extra]. lia.
      + destruct (q_nodes q) as [|x r]; [discriminate|]. destruct (n_index x =? i); [|discriminate].
        intros H. injection H as _ <-. cbn [q_nodes q_extra length]. lia.
    - destruct (q_nodes q) as [|x r]; [discriminate|]. destruct (n_index x =? i); [|discriminate].
      intros H. injection H as _ <-. cbn [q_nodes q_extra length]. lia.
  Qed.

  (* climb pushes two nodes (the sibling and the parent) per node taken from the queue *)
  Lemma climb_count fuel : forall q it cur acc r vis,
    climb cr fuel q it cur acc = Ok (r, vis) -> (length vis <= length acc + 2 * qn q)%nat.
  Proof.
    induction fuel as [|f IH]; intros q it cur acc r vis H; cbn [climb] in H; [discriminate H|].
    destruct (q_length q =? 0).
    - injection H as _ <-. lia.
    - apply bind_ok in H. destruct H as ([n q'] & Hs & H). apply bind_ok in H. destruct H as (l & _ & H).
      apply IH in H. apply q_shift_qn in Hs. rewrite app_length in H. cbn [length] in H. lia.
  Qed.

  Lemma cs_push_nodes_count c l :
    cs_roots (cs_push_nodes c l) = cs_roots c /\
    length (cs_rnodes (cs_push_nodes c l)) = (length l + length (cs_rnodes c))%nat.
  Proof.
    unfold cs_push_nodes. cbn [cs_roots cs_rnodes]. split; [reflexivity|].
    rewrite rev_append_rev, app_length, rev_length. reflexivity.
  Qed.

  (* the block / hash / seek sections: the roots are untouched; two pushed nodes per carried node, plus the
     leaf of each section and the two nodes of the seek root joined to the block path *)
  Lemma verify_tree_count block hash seek c root c' :
    verify_tree cr block hash seek c = Ok (root, c') ->
    cs_roots c' = cs_roots c /\
    (length (cs_rnodes c') <= length (cs_rnodes c) + 4
       + 2 * ((match block with Some b => length (db_nodes b) | None => 0 end)
              + (match hash with Some h => length (dh_nodes h) | None => 0 end)
              + (match seek with Some s => length (ds_nodes s) | None => 0 end)))%nat.
  Proof.
    unfold verify_tree. intros H. apply bind_ok in H. destruct H as (untrusted & Hu & H).
    set (sn := match seek with Some s => ds_nodes s | None => [] end) in *.
    assert (Esn : length sn = match seek with Some s => length (ds_nodes s) | None => 0%nat end)
      by (unfold sn; destruct seek; reflexivity).
    (* the untrusted section and the number of nodes it carries *)
    assert (Eun : match untrusted with
                  | Some (_, _, nodes) =>
                      (length nodes <= (match block with Some b => length (db_nodes b) | None => 0 end)
                                       + (match hash with Some h => length (dh_nodes h) | None => 0 end))%nat
                  | None => True
                  end).
    { destruct block as [b|].
      - apply bind_ok in Hu. destruct Hu as (i & _ & Hu). injection Hu as <-. lia.
      - destruct hash as [h|]; injection Hu as <-; [lia|exact I]. }
    (* the seek part *)
    assert (Hseek : forall root1 c1,
               (match sn with
                | [] => Ok (None, c)
                | n0 :: _ =>
                    let it := it_new (n_index n0) in
                    '(n, q) <- q_shift (mkQ sn None) (it_index it) ;;
                    '(r, visited) <- climb cr (S (length sn)) q it n [n] ;;
                    Ok (Some r, cs_push_nodes c visited)
                end) = Ok (root1, c1) ->
               cs_roots c1 = cs_roots c /\
               (length (cs_rnodes c1) <= length (cs_rnodes c) + 2 * length sn)%nat /\
               (match root1 with Some _ => 1 | None => 0 end <= 1)%nat).
    { intros root1 c1 Hs. destruct sn as [|n0 rest] eqn:Es.
      - injection Hs as <- <-. split; [reflexivity|]. split; lia.
      - cbv zeta in Hs. apply bind_ok in Hs. destruct Hs as ([n q] & Hq & Hs).
        apply bind_ok in Hs. destruct Hs as ([r vis] & Hc & Hs). injection Hs as <- <-.
        apply q_shift_qn in Hq. apply climb_count in Hc. unfold qn in Hq at 1. cbn [q_nodes q_extra length] in Hq, Hc.
        destruct (cs_push_nodes_count c vis) as [R L]. split; [exact R|]. rewrite L. cbn [length]. split; lia. }
    assert (Hblock : forall (root1 : option node) c1 value index nodes root2 c2,
               (let it := it_new index in
                '(n, q) <- (match value with
                            | Some v => Ok (block_node cr (it_index it) v, mkQ nodes root1)
                            | None => q_shift (mkQ nodes root1) (it_index it)
                            end) ;;
                '(r, visited) <- climb cr (S (S (length nodes))) q it n [n] ;;
                Ok (Some r, cs_push_nodes c1 visited)) = Ok (root2, c2) ->
               cs_roots c2 = cs_roots c1 /\
               (length (cs_rnodes c2) <= length (cs_rnodes c1) + 3 + 2 * length nodes)%nat).
    { intros root1 c1 value index nodes root2 c2 Hb. cbv zeta in Hb.
      apply bind_ok in Hb. destruct Hb as ([n q] & Hq & Hb).
      apply bind_ok in Hb. destruct Hb as ([r vis] & Hc & Hb). injection Hb as <- <-.
      apply climb_count in Hc. cbn [length] in Hc.
      assert (Hqn : (qn q <= length nodes + 1)%nat).
      { destruct value as [v|].
        - injection Hq as _ <-. unfold qn. cbn [q_nodes q_extra]. destruct root1; lia.
        - apply q_shift_qn in Hq. unfold qn in Hq at 1. cbn [q_nodes q_extra] in Hq. destruct root1; lia. }
      destruct (cs_push_nodes_count c1 vis) as [R L]. split; [exact R|]. rewrite L. lia. }
    destruct untrusted as [[[value index] nodes]|].
    - assert (H' : ('(root1, c1) <- (match sn with
                                     | [] => Ok (None, c)
                                     | n0 :: _ =>
                                         let it := it_new (n_index n0) in
                                         '(n, q) <- q_shift (mkQ sn None) (it_index it) ;;
                                         '(r, visited) <- climb cr (S (length sn)) q it n [n] ;;
                                         Ok (Some r, cs_push_nodes c visited)
                                     end) ;;
                     let it := it_new index in
                     '(n, q) <- (match value with
                                 | Some v => Ok (block_node cr (it_index it) v, mkQ nodes root1)
                                 | None => q_shift (mkQ nodes root1) (it_index it)
                                 end) ;;
                     '(r, visited) <- climb cr (S (S (length nodes))) q it n [n] ;;
                     Ok (Some r, cs_push_nodes c1 visited)) = Ok (root, c')).
      { destruct sn; exact H. }
      clear H. apply bind_ok in H'. destruct H' as ([root1 c1] & Hs & Hb).
      destruct (Hseek root1 c1 Hs) as (R1 & L1 & _). destruct (Hblock root1 c1 value index nodes root c' Hb) as (R2 & L2).
      split; [congruence|]. lia.
    - destruct sn as [|n0 rest] eqn:Es.
      + injection H as _ <-. split; [reflexivity|lia].
      + apply bind_ok in H. destruct H as ([root1 c1] & Hs & H). injection H as _ <-.
        destruct (Hseek root1 c1 Hs) as (R1 & L1 & _). split; [exact R1|]. lia.
  Qed.

  (* the upgrade section: every root appended costs one node taken from the queue / the additional nodes *)
  Lemma grow_loop_pot fuel : forall c q it ri c' q' it',
    grow_loop cr fuel c q it ri = Ok (c', q', it') -> (pot c' + 2 * qn q' = pot c + 2 * qn q)%nat.
  Proof.
    induction fuel as [|f IH]; intros c q it ri c' q' it' H; cbn [grow_loop] in H; [discriminate H|].
    destruct (it_index it =? ri).
    - injection H as <- <- <-. reflexivity.
    - apply bind_ok in H. destruct H as ([n q1] & Hq & H). apply bind_ok in H. destruct H as ([c1 it1] & Ha & H).
      apply IH in H. apply q_shift_qn in Hq. apply append_root_pot in Ha. lia.
  Qed.

  Lemma upgrade_roots_loop_pot fuel : forall c q it to i grow c' q' it',
    upgrade_roots_loop cr fuel c q it to i grow = Ok (c', q', it') ->
    (pot c' + 2 * qn q' = pot c + 2 * qn q)%nat.
  Proof.
    induction fuel as [|f IH]; intros c q it to i grow c' q' it' H; cbn [upgrade_roots_loop] in H; [discriminate H|].
    destruct (it_full_root it to) as [found it0]. destruct (negb found).
    - injection H as <- <- <-. reflexivity.
    - destruct (nth_error (cs_roots c) i) as [r|].
      + destruct (n_index r =? it_index it0).
        * apply IH in H. exact H.
        * destruct grow.
          -- apply bind_ok in H. destruct H as (li & _ & H).
             apply bind_ok in H. destruct H as ([[c1 q1] it1] & Hg & H).
             apply grow_loop_pot in Hg. apply IH in H. lia.
          -- apply bind_ok in H. destruct H as ([n q1] & Hq & H).
             apply bind_ok in H. destruct H as ([c1 it1] & Ha & H).
             apply IH in H. apply q_shift_qn in Hq. apply append_root_pot in Ha. lia.
      + apply bind_ok in H. destruct H as ([n q1] & Hq & H).
        apply bind_ok in H. destruct H as ([c1 it1] & Ha & H).
        apply IH in H. apply q_shift_qn in Hq. apply append_root_pot in Ha. lia.
  Qed.

  Lemma extra_siblings_pot extra : forall c it c' it' rest,
    extra_siblings cr c it extra = Ok (c', it', rest) ->
    (pot c' + 2 * length rest = pot c + 2 * length extra)%nat.
  Proof.
    induction extra as [|n r IH]; intros c it c' it' rest H; cbn [extra_siblings] in H.
    - injection H as <- <- <-. reflexivity.
    - destruct (n_index n =? it_index (it_sibling it)).
      + apply bind_ok in H. destruct H as ([c1 it1] & Ha & H). apply IH in H. apply append_root_pot in Ha.
        cbn [length]. lia.
      + injection H as <- <- <-. reflexivity.
  Qed.

  Lemma extra_rest_pot extra : forall c it c' it',
    extra_rest cr c it extra = Ok (c', it') -> pot c' = (pot c + 2 * length extra)%nat.
  Proof.
    induction extra as [|n r IH]; intros c it c' it' H; cbn [extra_rest] in H.
    - injection H as <- <-. cbn [length]. lia.
    - apply bind_ok in H. destruct H as (it1 & _ & H). apply bind_ok in H. destruct H as ([c1 it2] & Ha & H).
      apply IH in H. apply append_root_pot in Ha. cbn [length]. lia.
  Qed.

  Lemma verify_upgrade_pot fork u block_root pk c consumed c' :
    verify_upgrade cr fork u block_root pk c = Ok (consumed, c') ->
    (pot c' <= pot c + 2 * (length (du_nodes u) + 1 + length (du_additional u)))%nat.
  Proof.
    unfold verify_upgrade. intros H. apply bind_ok in H. destruct H as (sl & _ & H).
    apply bind_ok in H. destruct H as (to & _ & H).
    apply bind_ok in H. destruct H as ([[c1 q1] it1] & H1 & H).
    apply bind_ok in H. destruct H as (li & _ & H).
    apply bind_ok in H. destruct H as ([[c2 it2] rest] & H2 & H).
    apply bind_ok in H. destruct H as ([c3 it3] & H3 & H).
    apply bind_ok in H. destruct H as (c4 & H4 & H). injection H as _ <-.
    apply upgrade_roots_loop_pot in H1. apply extra_siblings_pot in H2. apply extra_rest_pot in H3.
    assert (E4 : pot c4 = pot c3).
    { unfold cs_verify_and_set_signature in H4. apply bind_ok in H4. destruct H4 as (s & _ & H4).
      destruct (cr_verify cr pk _ s); [|discriminate H4]. injection H4 as <-. reflexivity. }
    unfold qn in H1 at 2. cbn [q_nodes q_extra] in H1. destruct block_root; lia.
  Qed.

  (* the changeset of an accepted proof carries at most (roots of the tree) + 2 * (carried nodes) + 6 nodes *)
  Theorem verify_proof_node_count t tf pf pk cs :
    verify_proof cr t tf pf pk = Ok cs ->
    (length (cs_nodes cs) <= length (t_roots t) + 2 * proof_carried pf + 6)%nat.
  Proof.
    unfold verify_proof. intros H. apply bind_ok in H. destruct H as ([root c1] & H1 & H).
    apply bind_ok in H. destruct H as ([root2 c2] & H2 & H).
    apply verify_tree_count in H1. destruct H1 as [R1 L1]. cbn [tree_changeset cs_roots cs_rnodes length] in R1, L1.
    assert (Ecs : cs = c2).
    { destruct root2 as [r|]; [|injection H as <-; reflexivity].
      apply bind_ok in H. destruct H as (n & _ & H). destruct (bytes_eqb (n_hash n) (n_hash r)); [|discriminate H].
      injection H as <-. reflexivity. }
    subst cs. rewrite length_cs_nodes_lib. unfold proof_carried.
    destruct (p_upgrade pf) as [u|].
    - apply bind_ok in H2. destruct H2 as ([consumed c'] & Hu & H2). injection H2 as _ <-.
      apply verify_upgrade_pot in Hu. unfold pot in Hu. rewrite R1 in Hu. lia.
    - injection H2 as _ <-. lia.
  Qed.
End CountVerify.

(* ====================================================================================== *)
(* 3. Where the guard can fire                                                             *)
(* ====================================================================================== *)

Section Causes.
  Variable cr : crypto.

  (* the guard is real: a payload of 2^30 bytes or more is answered by the panic, whatever the bits *)
  Lemma frame_guard_fires hb pb payload :
    FRAME_LIMIT <= len payload -> frame cr hb pb payload = Panic frame_msg.
  Proof.
    intros L. unfold frame. destruct (N.leb_spec 1073741824 (len payload)) as [_|G]; [reflexivity|].
    unfold FRAME_LIMIT in L. lia.
  Qed.

  Lemma frame_small_ok hb pb payload :
    len payload < FRAME_LIMIT -> exists fr, frame cr hb pb payload = Ok fr.
  Proof.
    intros L. unfold frame. destruct (N.leb_spec 1073741824 (len payload)) as [G|_]; [unfold FRAME_LIMIT in L; lia|].
    eexists. reflexivity.
  Qed.

  Lemma frame_panic_inv hb pb payload s :
    frame cr hb pb payload = Panic s -> s = frame_msg /\ FRAME_LIMIT <= len payload.
  Proof.
    unfold frame. destruct (N.leb_spec 1073741824 (len payload)) as [G|_]; [|discriminate].
    intros H. injection H as <-. split; [reflexivity|exact G].
  Qed.

  Lemma enc_all_node_no_panic l s : enc_all enc_node l <> Panic s.
  Proof.
    induction l as [|x l IH]; cbn [enc_all]; [discriminate|].
    unfold enc_node at 1. destruct (Nat.eqb (length (n_hash x)) 32); cbn [bind]; [|discriminate].
    destruct (enc_all enc_node l) as [b| | |]; cbn [bind]; try discriminate. exact IH.
  Qed.

  Lemma enc_entry_no_panic e s : enc_entry e <> Panic s.
  Proof.
    unfold enc_entry. destruct (e_nodes e) as [|x l]; cbn [bind]; [discriminate|].
    unfold enc_nodes. pose proof (enc_all_node_no_panic (x :: l) s) as Hn.
    destruct (enc_all enc_node (x :: l)) as [b| | |]; cbn [bind]; try discriminate. exact Hn.
  Qed.

  (* oplog_append: the only panic is the frame guard, on the encoded entry *)
  Lemma oplog_append_panic_inv o e s :
    oplog_append cr o e = Panic s ->
    s = frame_msg /\ exists b, enc_entry e = Ok b /\ FRAME_LIMIT <= len b.
  Proof.
    unfold oplog_append. pose proof (enc_entry_no_panic e s) as Hn.
    destruct (enc_entry e) as [b|[]| |]; cbn [lift_enc bind]; try discriminate.
    - destruct (frame cr (current_bit (ol_bits o)) false b) as [fr| | |] eqn:F; cbn [bind]; try discriminate.
      intros H. injection H as <-. apply frame_panic_inv in F. destruct F as [-> L].
      split; [reflexivity|]. exists b. split; [reflexivity|exact L].
    - intros H. injection H as ->. destruct (Hn eq_refl).
  Qed.

  (* the guard fires for every entry whose encoding reaches 2^30 bytes -- in particular for every entry with
     31580643 nodes or more (34 bytes per node at least) *)
  Lemma oplog_append_guard_fires o e b :
    enc_entry e = Ok b -> FRAME_LIMIT <= len b -> oplog_append cr o e = Panic frame_msg.
  Proof.
    intros He L. unfold oplog_append. rewrite He. cbn [lift_enc bind]. rewrite (frame_guard_fires _ _ _ L). reflexivity.
  Qed.

  Theorem oplog_append_guard_is_real o e :
    (forall x, In x (e_nodes e) -> length (n_hash x) = 32%nat) ->
    31580643 <= N.of_nat (length (e_nodes e)) ->
    oplog_append cr o e = Panic frame_msg.
  Proof.
    intros H32 Hn. destruct (enc_entry_ok32 e H32) as [b Hb].
    apply (oplog_append_guard_fires o e b Hb). pose proof (enc_entry_len_lower e b Hb). unfold FRAME_LIMIT. lia.
  Qed.

  (* log_and_commit answers the frame panic only when the encoded entry reaches 2^30 bytes *)
  Theorem log_and_commit_frame_cause cs bu c w c1 w1 :
    log_and_commit cr cs bu c w = (c1, w1, Panic frame_msg) ->
    exists e h b, entry_of_changeset cs bu (c_header c) = Ok (e, h) /\ enc_entry e = Ok b /\ FRAME_LIMIT <= len b.
  Proof.
    unfold log_and_commit. rewrite mbind_get_core, mbind_lift. intros H.
    destruct (entry_of_changeset cs bu (c_header c)) as [[e h]|er|s|] eqn:EC; try discriminate H.
    2:{ exfalso. injection H as _ _ Es. subst s. unfold entry_of_changeset in EC.
        destruct (cs_upgraded cs); [|discriminate EC].
        destruct (cs_hash cs); [destruct (cs_signature cs)|]; discriminate EC. }
    rewrite mbind_lift in H.
    destruct (oplog_append cr (c_oplog c) e) as [[o' ops]|er|s|] eqn:OA; try discriminate H.
    2:{ injection H as _ _ Es. subst s. apply oplog_append_panic_inv in OA. destruct OA as (_ & b & Hb & L).
        exists e, h, b. repeat split; assumption. }
    exfalso. rewrite mbind_put_oplog in H.
    apply mbind_emit_inv in H. destruct H as [(w2 & _ & H)|(_ & E & _)]; [|discriminate E].
    rewrite mbind_put_header in H.
    mstep H.
    - rewrite mbind_get_core, mbind_lift in H.
      destruct (tree_commit (c_tree c0) cs) as [t'|er|s|] eqn:TC; try discriminate H.
      injection H as _ _ Es. subst s. unfold tree_commit in TC.
      destruct (negb (commitable (c_tree c0) cs)); [discriminate TC|].
      destruct (cs_upgraded cs); [|discriminate TC].
      destruct (cs_ancestors cs <? cs_orig_length cs); discriminate TC.
    - destruct bu as [u|].
      + rewrite mbind_get_core, mbind_put_bitfield in Hm. discriminate Hm.
      + discriminate Hm.
  Qed.

  (* flush_all / maybe_flush answer the frame panic only when the encoded header reaches 2^30 bytes *)
  Lemma insert_header_panic_inv h eb bits ct s :
    insert_header cr h eb bits ct = Panic s -> s = frame_msg /\ FRAME_LIMIT <= len (enc_header h).
  Proof.
    unfold insert_header. destruct (next_slot bits) as [[slot bit] bits'].
    destruct (frame cr bit false (enc_header h)) as [fr| | |] eqn:F; cbn [bind]; try discriminate.
    - destruct ((if ct then HEADER_SIZE else 8 + 2 * len (enc_header h)) <? len fr); discriminate.
    - intros H. injection H as <-. apply (frame_panic_inv _ _ _ _ F).
  Qed.

  Lemma oplog_flush_panic_inv o h ct s :
    oplog_flush cr o h ct = Panic s -> s = frame_msg /\ FRAME_LIMIT <= len (enc_header h).
  Proof.
    unfold oplog_flush. destruct ct.
    - destruct (insert_header cr h 0 (ol_bits o) true) as [[b1 o1]| | |] eqn:I1; cbn [bind]; try discriminate.
      + destruct (insert_header cr h 0 b1 true) as [[b2 o2]| | |] eqn:I2; cbn [bind]; try discriminate.
        intros H. injection H as <-. apply (insert_header_panic_inv _ _ _ _ _ I2).
      + intros H. injection H as <-. apply (insert_header_panic_inv _ _ _ _ _ I1).
    - destruct (insert_header cr h 0 (ol_bits o) false) as [[b1 o1]| | |] eqn:I1; cbn [bind]; try discriminate.
      intros H. injection H as <-. apply (insert_header_panic_inv _ _ _ _ _ I1).
  Qed.

  Theorem flush_all_frame_cause ct c w c1 w1 :
    flush_all cr ct c w = (c1, w1, Panic frame_msg) -> FRAME_LIMIT <= len (enc_header (c_header c)).
  Proof.
    unfold flush_all. rewrite mbind_get_core. intros H.
    destruct (bf_flush (c_bitfield c)) as [b' pops] eqn:BF.
    rewrite mbind_put_bitfield in H.
    apply mbind_emit_inv in H. destruct H as [(w2 & _ & H)|(_ & E & _)]; [|discriminate E].
    rewrite mbind_lift in H. cbn [c_tree] in H.
    destruct (tree_flush (c_tree c)) as [[t' tops]|er|s|] eqn:TF; try discriminate H.
    2:{ exfalso. injection H as _ _ Es. subst s. unfold tree_flush in TF.
        match type of TF with (if ?b then _ else _) = _ => destruct b end; discriminate TF. }
    rewrite mbind_put_tree in H.
    apply mbind_emit_inv in H. destruct H as [(w3 & _ & H)|(_ & E & _)]; [|discriminate E].
    rewrite mbind_get_core, mbind_lift in H. cbn [c_oplog c_header] in H.
    destruct (oplog_flush cr (c_oplog c) (c_header c) ct) as [[o' oops]|er|s|] eqn:OF; try discriminate H.
    - rewrite mbind_put_oplog in H. apply emit_inv in H. destruct H as (_ & _ & dn & _ & _ & F). destruct F.
    - apply oplog_flush_panic_inv in OF. apply OF.
  Qed.

  Theorem maybe_flush_frame_cause f c w c1 w1 :
    maybe_flush cr f c w = (c1, w1, Panic frame_msg) -> FRAME_LIMIT <= len (enc_header (c_header c)).
  Proof.
    unfold maybe_flush. rewrite mbind_get_core. intros H.
    match type of H with (if ?b then _ else _) _ _ = _ => destruct b end.
    - rewrite mbind_put_skip in H. apply flush_all_frame_cause in H. exact H.
    - discriminate H.
  Qed.
End Causes.

(* ---------- the header after a commit ---------- *)

Lemma enc_header_len h :
  len (enc_header h) =
  6 + len (hd_key h) + len (hd_ns h) + len (hd_mpk h) + len (enc_keypair (hd_keypair h))
  + 1 + len (enc_header_tree (hd_tree h)) + 1 + size_uint (hd_contig h).
Proof. unfold enc_header. lens. rewrite len_enc_uint. lia. Qed.

Lemma enc_header_tree_len t :
  4 <= len (enc_header_tree t) /\
  (len (ht_root_hash t) <= 32 -> len (ht_signature t) <= 64 -> len (enc_header_tree t) <= 116).
Proof.
  unfold enc_header_tree, enc_buffer. lens. rewrite !len_enc_uint.
  pose proof (size_uint_bounds (ht_fork t)). pose proof (size_uint_bounds (ht_length t)).
  pose proof (size_uint_bounds (len (ht_root_hash t))). pose proof (size_uint_bounds (len (ht_signature t))).
  split; [lia|]. intros A B.
  assert (size_uint (len (ht_root_hash t)) = 1) by (unfold size_uint; destruct (N.ltb_spec (len (ht_root_hash t)) 253); lia).
  assert (size_uint (len (ht_signature t)) = 1) by (unfold size_uint; destruct (N.ltb_spec (len (ht_signature t)) 253); lia).
  lia.
Qed.

(* what a commit can add to the encoded header: a new tree section (two varints, 32-byte hash, 64-byte
   signature) and a new contiguous-length hint *)
Definition HEADER_GROWTH : N := 128.

Lemma header_after_commit_len cs bu h e h1 h2 :
  entry_of_changeset cs bu h = Ok (e, h1) ->
  (forall hash, cs_upgraded cs = true -> cs_hash cs = Some hash -> len hash <= 32) ->
  (forall sg, cs_upgraded cs = true -> cs_signature cs = Some sg -> len sg <= 64) ->
  (h2 = h1 \/ exists cg, h2 = set_contig h1 cg) ->
  len (enc_header h2) <= len (enc_header h) + HEADER_GROWTH.
Proof.
  intros He Hh Hs H2. unfold HEADER_GROWTH.
  destruct (entry_of_changeset_shape cs bu h e h1 He) as (_ & _ & [(_ & _ & ->)|(hash & sg & U & Eh & Es & _ & ->)]).
  - destruct H2 as [->|(cg & ->)]; [lia|].
    rewrite !enc_header_len. cbn [set_contig hd_key hd_ns hd_mpk hd_keypair hd_tree hd_contig].
    pose proof (size_uint_bounds cg). pose proof (size_uint_bounds (hd_contig h)). lia.
  - pose proof (Hh hash U Eh) as L1. pose proof (Hs sg U Es) as L2.
    set (t' := mkHeaderTree (ht_fork (hd_tree h)) (cs_length cs) hash sg).
    destruct (enc_header_tree_len t') as [_ B]. specialize (B L1 L2).
    destruct (enc_header_tree_len (hd_tree h)) as [A _].
    destruct H2 as [->|(cg & ->)]; rewrite !enc_header_len;
      cbn [set_contig set_tree hd_key hd_ns hd_mpk hd_keypair hd_tree hd_contig]; fold t'.
    + lia.
    + pose proof (size_uint_bounds cg). pose proof (size_uint_bounds (hd_contig h)). lia.
Qed.

(* ====================================================================================== *)
(* 4. A proof made by create_valueless_proof carries at most 782 nodes                     *)
(* ====================================================================================== *)

(* Every loop of the proof creation runs on CLIMB = 130 units of fuel and emits at most one node per unit (the
   root loop of the upgrade section additionally runs the "connect" climb once): block / hash section <= 131,
   seek section <= 131, upgrade nodes <= 260, additional nodes <= 260.  No property of the tree is needed. *)

Definition olen (o : option (list node)) : nat := match o with Some l => length l | None => 0%nat end.

Definition small2 (p : local_proof) : Prop :=
  (olen (lp_seek p) <= S CLIMB)%nat /\ (olen (lp_nodes p) <= S CLIMB)%nat.
Definition same_ua (p p' : local_proof) : Prop :=
  lp_upgrade p' = lp_upgrade p /\ lp_additional p' = lp_additional p.
Definition lpb (p : local_proof) : Prop :=
  small2 p /\ (olen (lp_upgrade p) <= 2 * CLIMB)%nat /\ (olen (lp_additional p) <= 2 * CLIMB)%nat.

Lemma same_ua_refl p : same_ua p p.
Proof. split; reflexivity. Qed.
Lemma same_ua_trans p q r : same_ua p q -> same_ua q r -> same_ua p r.
Proof. intros [A B] [C D]. split; congruence. Qed.

Lemma lpb_empty : lpb lp_empty.
Proof. unfold lpb, small2, lp_empty. cbn [lp_seek lp_nodes lp_upgrade lp_additional olen]. lia. Qed.

Lemma lpb_same p p' : lpb p -> small2 p' -> same_ua p p' -> lpb p'.
Proof. intros (_ & A & B) S [U V]. split; [exact S|]. rewrite U, V. split; assumption. Qed.

Section Created.
  Lemma seek_proof_loop_len fuel : forall t tf it root acc l,
    seek_proof_loop fuel t tf it root acc = Ok l -> (length l <= length acc + fuel)%nat.
  Proof.
    induction fuel as [|f IH]; intros t tf it root acc l H; cbn [seek_proof_loop] in H; [discriminate H|].
    destruct (it_index it =? root).
    - injection H as <-. rewrite rev_length. lia.
    - apply bind_ok in H. destruct H as (n & _ & H). apply IH in H. cbn [length] in H. lia.
  Qed.

  Lemma seek_proof_small t tf sr root p p' :
    seek_proof t tf sr root p = Ok p' -> small2 p -> small2 p' /\ same_ua p p'.
  Proof.
    unfold seek_proof. intros H [_ Sn]. apply bind_ok in H. destruct H as (n & _ & H).
    apply bind_ok in H. destruct H as (l & Hl & H). injection H as <-.
    apply seek_proof_loop_len in Hl. cbn [length] in Hl.
    unfold small2, same_ua. cbn [lp_seek lp_nodes lp_upgrade lp_additional olen].
    split; [split; [lia|exact Sn]|split; reflexivity].
  Qed.

  Lemma block_proof_loop_small fuel : forall t tf it root is_seek sr p acc p' l,
    block_proof_loop fuel t tf it root is_seek sr p acc = Ok (p', l) -> small2 p ->
    small2 p' /\ same_ua p p' /\ (length l <= length acc + fuel)%nat.
  Proof.
    induction fuel as [|f IH]; intros t tf it root is_seek sr p acc p' l H S; cbn [block_proof_loop] in H;
      [discriminate H|].
    destruct (it_index it =? root).
    - injection H as <- <-. rewrite rev_length. split; [exact S|]. split; [apply same_ua_refl|lia].
    - destruct (is_seek && it_contains (it_sibling it) sr && negb (it_index (it_sibling it) =? sr)).
      + apply bind_ok in H. destruct H as (p1 & H1 & H). destruct (seek_proof_small _ _ _ _ _ _ H1 S) as [S1 U1].
        destruct (IH _ _ _ _ _ _ _ _ _ _ H S1) as (S2 & U2 & L). split; [exact S2|].
        split; [apply (same_ua_trans _ _ _ U1 U2)|lia].
      + apply bind_ok in H. destruct H as (n & _ & H).
        destruct (IH _ _ _ _ _ _ _ _ _ _ H S) as (S2 & U2 & L). cbn [length] in L. split; [exact S2|].
        split; [exact U2|lia].
  Qed.

  Lemma block_and_seek_proof_small t tf ix is_seek sr root p p' :
    block_and_seek_proof t tf ix is_seek sr root p = Ok p' -> small2 p -> small2 p' /\ same_ua p p'.
  Proof.
    unfold block_and_seek_proof. intros H S. destruct ix as [i|]; [|apply (seek_proof_small _ _ _ _ _ _ H S)].
    destruct (negb (it_contains (it_new root) (ix_index i))); [discriminate H|].
    apply bind_ok in H. destruct H as (acc0 & H0 & H).
    apply bind_ok in H. destruct H as ([p1 l] & H1 & H). injection H as <-.
    assert (L0 : (length acc0 <= 1)%nat).
    { destruct (ix_value i).
      - injection H0 as <-. cbn [length]. lia.
      - apply bind_ok in H0. destruct H0 as (n & _ & H0). injection H0 as <-. cbn [length]. lia. }
    destruct (block_proof_loop_small _ _ _ _ _ _ _ _ _ _ _ H1 S) as ([S1 _] & [U1 V1] & L).
    unfold small2, same_ua. cbn [lp_seek lp_nodes lp_upgrade lp_additional olen].
    split; [split; [exact S1|lia]|split; assumption].
  Qed.

  Lemma connect_loop_small fuel : forall t tf it root target ix is_seek sub with_sub p acc p' acc',
    connect_loop fuel t tf it root target ix is_seek sub with_sub p acc = Ok (p', acc') -> small2 p ->
    small2 p' /\ same_ua p p' /\ (length acc' <= length acc + fuel)%nat.
  Proof.
    induction fuel as [|f IH]; intros t tf it root target ix is_seek sub with_sub p acc p' acc' H S;
      cbn [connect_loop] in H; [discriminate H|].
    destruct (it_index it =? root).
    - injection H as <- <-. split; [exact S|]. split; [apply same_ua_refl|lia].
    - apply bind_ok in H. destruct H as ([p1 acc1] & H1 & H).
      assert (A : small2 p1 /\ same_ua p p1 /\ (length acc1 <= length acc + 1)%nat).
      { destruct (target <? it_index (it_sibling it)).
        - destruct (with_sub && (match lp_nodes p, lp_seek p with None, None => true | _, _ => false end)
                    && it_contains (it_sibling it) sub).
          + apply bind_ok in H1. destruct H1 as (p2 & H2 & H1). injection H1 as <- <-.
            destruct (block_and_seek_proof_small _ _ _ _ _ _ _ _ H2 S) as [S2 U2]. split; [exact S2|]. split; [exact U2|lia].
          + apply bind_ok in H1. destruct H1 as (n & _ & H1). injection H1 as <- <-.
            rewrite app_length. cbn [length]. split; [exact S|]. split; [apply same_ua_refl|lia].
        - injection H1 as <- <-. split; [exact S|]. split; [apply same_ua_refl|lia]. }
      destruct A as (S1 & U1 & L1).
      destruct (IH _ _ _ _ _ _ _ _ _ _ _ _ _ H S1) as (S2 & U2 & L2). split; [exact S2|].
      split; [apply (same_ua_trans _ _ _ U1 U2)|lia].
  Qed.

  Lemma upgrade_loop_small fuel : forall t tf it from to ix is_seek sub with_sub has p acc p' acc' has',
    upgrade_loop fuel t tf it from to ix is_seek sub with_sub has p acc = Ok (p', acc', has') -> small2 p ->
    small2 p' /\ same_ua p p' /\ (length acc' <= length acc + fuel + (if has then 0 else CLIMB))%nat.
  Proof.
    induction fuel as [|f IH]; intros t tf it from to ix is_seek sub with_sub has p acc p' acc' has' H S;
      cbn [upgrade_loop] in H; [discriminate H|].
    destruct (it_full_root it to) as [found it0]. destruct (negb found).
    { injection H as <- <- <-. split; [exact S|]. split; [apply same_ua_refl|lia]. }
    destruct (it_index it0 + it_factor it0 / 2 <? from).
    { destruct (IH _ _ _ _ _ _ _ _ _ _ _ _ _ _ _ H S) as (S2 & U2 & L2). split; [exact S2|]. split; [exact U2|lia]. }
    destruct (negb has && it_contains it0 (from - 2)) eqn:Ec.
    { apply bind_ok in H. destruct H as ([p1 acc1] & H1 & H).
      destruct (connect_loop_small _ _ _ _ _ _ _ _ _ _ _ _ _ _ H1 S) as (S1 & U1 & L1).
      destruct (IH _ _ _ _ _ _ _ _ _ _ _ _ _ _ _ H S1) as (S2 & U2 & L2). split; [exact S2|].
      split; [apply (same_ua_trans _ _ _ U1 U2)|]. destruct has; [discriminate Ec|]. lia. }
    destruct (with_sub && (match lp_nodes p, lp_seek p with None, None => true | _, _ => false end)
              && it_contains it0 sub).
    { apply bind_ok in H. destruct H as (p1 & H1 & H).
      destruct (block_and_seek_proof_small _ _ _ _ _ _ _ _ H1 S) as [S1 U1].
      destruct (IH _ _ _ _ _ _ _ _ _ _ _ _ _ _ _ H S1) as (S2 & U2 & L2). split; [exact S2|].
      split; [apply (same_ua_trans _ _ _ U1 U2)|]. destruct has; lia. }
    apply bind_ok in H. destruct H as (n & _ & H).
    destruct (IH _ _ _ _ _ _ _ _ _ _ _ _ _ _ _ H S) as (S2 & U2 & L2). rewrite app_length in L2. cbn [length] in L2.
    split; [exact S2|]. split; [exact U2|]. destruct has; lia.
  Qed.

  Lemma upgrade_proof_lpb t tf ix is_seek from to sub p p' :
    upgrade_proof t tf ix is_seek from to sub p = Ok p' -> lpb p -> lpb p'.
  Proof.
    unfold upgrade_proof. intros H B. apply bind_ok in H. destruct H as ([[p1 acc] has] & H1 & H).
    pose proof B as (S & BU & BA).
    destruct (upgrade_loop_small _ _ _ _ _ _ _ _ _ _ _ _ _ _ _ _ H1 S) as (S1 & [U1 V1] & L1). cbn [length] in L1.
    destruct has; injection H as <-.
    - split; [exact S1|]. cbn [lp_upgrade lp_additional olen]. rewrite V1. split; [|exact BA]. destruct (from =? 0); lia.
    - apply (lpb_same p p1 B S1). split; assumption.
  Qed.

  Lemma additional_upgrade_proof_lpb t tf from to p p' :
    additional_upgrade_proof t tf from to p = Ok p' -> lpb p -> lpb p'.
  Proof.
    unfold additional_upgrade_proof. intros H B. apply bind_ok in H. destruct H as ([[p1 acc] has] & H1 & H).
    pose proof B as (S & BU & BA).
    destruct (upgrade_loop_small _ _ _ _ _ _ _ _ _ _ _ _ _ _ _ _ H1 S) as (S1 & [U1 V1] & L1). cbn [length] in L1.
    destruct has; injection H as <-.
    - split; [exact S1|]. cbn [lp_upgrade lp_additional olen]. rewrite U1. split; [exact BU|]. destruct (from =? 0); lia.
    - apply (lpb_same p p1 B S1). split; assumption.
  Qed.

  (* the nodes of a valueless proof *)
  Definition vp_carried (vp : vproof) : nat :=
    ((match vp_block vp with Some b => length (dh_nodes b) | None => 0 end)
     + (match vp_hash vp with Some h => length (dh_nodes h) | None => 0 end)
     + (match vp_seek vp with Some s => length (ds_nodes s) | None => 0 end)
     + (match vp_upgrade vp with Some u => length (du_nodes u) + length (du_additional u) | None => 0 end))%nat.

  Definition CREATED_MAX : nat := (2 * S CLIMB + 4 * CLIMB)%nat.

  Lemma CREATED_MAX_value : CREATED_MAX = 782%nat.
  Proof. reflexivity. Qed.

  Theorem create_proof_carried t tf block hash seek upgrade vp :
    create_valueless_proof t tf block hash seek upgrade = Ok vp -> (vp_carried vp <= CREATED_MAX)%nat.
  Proof.
    unfold create_valueless_proof. cbv zeta. intros H.
    apply bind_ok in H. destruct H as ([from to] & _ & H).
    apply bind_ok in H. destruct H as (ixo & _ & H).
    destruct ((to <=? from) || (2 * t_length t <? to)); [discriminate H|].
    apply bind_ok in H. destruct H as ([[sub p0] un] & H0 & H).
    assert (B0 : lpb p0).
    { destruct ixo as [ix|]; [|injection H0 as _ <- _; apply lpb_empty].
      match type of H0 with (if ?b then _ else _) = _ => destruct b end; [discriminate H0|].
      match type of H0 with (if ?b then _ else _) = _ => destruct b end; [|injection H0 as _ <- _; apply lpb_empty].
      apply bind_ok in H0. destruct H0 as (sb & _ & H0). apply bind_ok in H0. destruct H0 as (sr & _ & H0).
      apply bind_ok in H0. destruct H0 as (p1 & H1 & H0). injection H0 as _ <- _.
      destruct lpb_empty as (S & _). destruct (block_and_seek_proof_small _ _ _ _ _ _ _ _ H1 S) as [S1 U1].
      apply (lpb_same lp_empty p1 lpb_empty S1 U1). }
    apply bind_ok in H. destruct H as (sub' & _ & H).
    apply bind_ok in H. destruct H as (p & Hp & H).
    assert (B : lpb p).
    { destruct upgrade as [u|]; [|injection Hp as <-; exact B0].
      apply bind_ok in Hp. destruct Hp as (p1 & H1 & Hp). apply upgrade_proof_lpb in H1; [|exact B0].
      destruct (to <? 2 * t_length t); [|injection Hp as <-; exact H1].
      apply (additional_upgrade_proof_lpb _ _ _ _ _ _ Hp H1). }
    destruct B as ([Bs Bn] & Bu & Ba).
    apply bind_ok in H. destruct H as ([db dh] & Hd & H).
    apply bind_ok in H. destruct H as (dup & Hu & H). injection H as <-.
    unfold vp_carried, CREATED_MAX. cbn [vp_block vp_hash vp_seek vp_upgrade].
    assert (Ld : ((match db with Some b => length (dh_nodes b) | None => 0 end)
                  + (match dh with Some h => length (dh_nodes h) | None => 0 end) <= S CLIMB)%nat).
    { destruct block as [b|].
      - destruct (lp_nodes p) as [ns|] eqn:En; [|discriminate Hd]. injection Hd as <- <-. cbn [dh_nodes olen] in *. lia.
      - destruct hash as [h|].
        + destruct (lp_nodes p) as [ns|] eqn:En; [|discriminate Hd]. injection Hd as <- <-. cbn [dh_nodes olen] in *. lia.
        + injection Hd as <- <-. lia. }
    assert (Ls : (match (match seek, lp_seek p with
                         | Some s, Some ns => Some (mkDataSeek (rs_bytes s) ns)
                         | _, _ => None
                         end) with Some s => length (ds_nodes s) | None => 0 end <= S CLIMB)%nat).
    { destruct seek as [s|]; [|lia]. destruct (lp_seek p) as [ns|]; [|lia]. cbn [ds_nodes olen] in *. lia. }
    assert (Lu : (match dup with Some u => length (du_nodes u) + length (du_additional u) | None => 0 end
                  <= 4 * CLIMB)%nat).
    { destruct upgrade as [u|]; [|injection Hu as <-; lia].
      destruct (lp_upgrade p) as [ns|]; [|discriminate Hu].
      destruct (t_signature t) as [sg|]; [|discriminate Hu]. injection Hu as <-. cbn [du_nodes du_additional olen] in *.
      destruct (lp_additional p) as [a|]; cbn [olen length] in *; lia. }
    lia.
  Qed.
End Created.

Print Assumptions enc_entry_len_bound.
Print Assumptions enc_entry_len_lower.
Print Assumptions changeset_entry_len.
Print Assumptions cs_append_all_node_count.
Print Assumptions verify_proof_node_count.
Print Assumptions oplog_append_guard_is_real.
Print Assumptions log_and_commit_frame_cause.
Print Assumptions flush_all_frame_cause.
Print Assumptions maybe_flush_frame_cause.
Print Assumptions header_after_commit_len.
Print Assumptions create_proof_carried.

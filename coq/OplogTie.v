(* OplogTie.v — tie between the oplog codecs of /repo/src/oplog/entry.rs and /repo/src/oplog/header.rs as the source states
   them (SrcCodec.v, regenerated from the source on every run by tools/srccodec.py) and the codecs of Oplog.v (property C06).

   As in CodecTie.v a description is given a meaning by a generic interpreter over a field environment, built from the very
   primitives Oplog.v uses, and each model function is proved to BE the interpretation of the source's description:
   - EntryTreeUpgrade, HeaderTree, HeaderHints (pure macro form): field lists of sum_encoded_size! / map_encode! /
     map_decode! + constructor. Oplog.v has no function for the hints alone; [enc_hints] / [dec_hints] below are the hints
     part of [enc_header] / [dec_header], which the Header tie shows ([FRec "HeaderHints"] is interpreted by them).
   - Entry (imperative but regular): the flag byte and the sections. [entry_flags] / [enc_entry] set, and [dec_entry] tests,
     exactly the bit the source gives for each section, in both directions.
   - BitfieldUpdate: leading flag byte (drop), then the fields. Header: the leading bytes, the 32-byte key, then the fields.
   Oplog.v has no size functions; the size clauses say that the source's size list, interpreted, is the length of what the
   model's encoder writes (for Header only that the size list is the encode list).
   [None] (impl no longer in the recognised form) makes a clause trivially true; a recognised but different impl breaks
   the proof. Not modelled, hence not tied: non-empty user_data / reorgs (Vec<String>; the model has the empty vector only),
   the imperative Manifest / PartialKeypair impls (interpreted by the model's own functions). *)
From HC Require Import Base Codec CodecFacts Crypto Storage Bitfield Oplog OplogFacts CodecDesc SrcCodec CodecTieLib.
From Coq Require Import Lia.
#[local] Open Scope string_scope.
#[local] Arguments enc_uint : simpl never.
#[local] Arguments enc_buffer : simpl never.
#[local] Arguments enc_nodes : simpl never.
#[local] Arguments enc_keypair : simpl never.
#[local] Arguments enc_header_tree : simpl never.
#[local] Arguments enc_tree_upgrade : simpl never.
#[local] Arguments enc_bf_update : simpl never.
#[local] Arguments size_uint : simpl never.
#[local] Arguments size_buffer : simpl never.
#[local] Arguments size_nodes : simpl never.
#[local] Arguments dec_uint : simpl never.
#[local] Arguments dec_buffer : simpl never.
#[local] Arguments dec_nodes : simpl never.
#[local] Arguments dec_fixed : simpl never.
#[local] Arguments dec_byte : simpl never.
#[local] Arguments dec_strings : simpl never.
#[local] Arguments dec_manifest : simpl never.
#[local] Arguments dec_keypair : simpl never.
#[local] Arguments dec_header_tree : simpl never.
#[local] Arguments dec_tree_upgrade : simpl never.
#[local] Arguments dec_bf_update : simpl never.
#[local] Arguments N.add : simpl never.
#[local] Arguments N.land : simpl never.
#[local] Arguments N.eqb : simpl never.
#[local] Arguments len : simpl never.
#[local] Arguments N.odd : simpl never.
#[local] Arguments N.testbit : simpl never.

(* ---------- values and environments ---------- *)

Inductive oval :=
| OU (n : N) | OB (b : bytes) | OH (h : bytes) | ONs (l : list node)
| OStrs                                    (* Vec<String>: the empty vector, the only one the model has *)
| OBool (b : bool)
| OManifest (ns mpk : bytes) | OKeypair (k : keypair) | OTree (t : header_tree) | OHints (contiguous : N)
| OOptTU (o : option tree_upgrade) | OOptBU (o : option bf_update).

Definition oenv := string -> option oval.

(* the hints part of enc_header / dec_header (Oplog.v has no separate function): reorgs (empty), contiguous_length *)
Definition enc_hints (c : N) : bytes := ([0] ++ enc_uint c)%list.
Definition dec_hints (b : bytes) : res (N * bytes) := '(_, r) <- dec_strings b ;; '(c, r) <- dec_uint r ;; Ok (c, r).
(* the manifest part of enc_header: version, hash, type, signer (signature id, namespace, public key) *)
Definition enc_manifest (ns mpk : bytes) : bytes := ([0; 0; 1] ++ [0] ++ ns ++ mpk)%list.

(* ---------- plain field lists (map_encode! / sum_encoded_size! / map_decode!) ---------- *)

Definition oenc_field (t : fty) (v : option oval) : res bytes :=
  match t, v with
  | FU64, Some (OU n) => Ok (enc_uint n)
  | FBytes, Some (OB b) => Ok (enc_buffer b)
  | FNodes, Some (ONs l) => enc_nodes l
  | FHash32, Some (OH h) => Ok h                           (* [u8; 32]: raw *)
  | FStrings, Some OStrs => Ok [0]                         (* length prefix of the empty vector *)
  | FRec name, Some (OManifest ns pk) => if name =? "Manifest" then Ok (enc_manifest ns pk) else Panic MISMATCH
  | FRec name, Some (OKeypair k) => if name =? "PartialKeypair" then Ok (enc_keypair k) else Panic MISMATCH
  | FRec name, Some (OTree t) => if name =? "HeaderTree" then Ok (enc_header_tree t) else Panic MISMATCH
  | FRec name, Some (OHints c) => if name =? "HeaderHints" then Ok (enc_hints c) else Panic MISMATCH
  | _, _ => Panic MISMATCH
  end.

Definition osize_field (t : fty) (v : option oval) : res N :=
  match t, v with
  | FU64, Some (OU n) => Ok (size_uint n)
  | FBytes, Some (OB b) => Ok (size_buffer b)
  | FNodes, Some (ONs l) => Ok (size_nodes l)
  | FHash32, Some (OH _) => Ok 32%N
  | FStrings, Some OStrs => Ok 1%N
  | _, _ => Panic MISMATCH
  end.

Definition odec_field (t : fty) (b : bytes) : res (oval * bytes) :=
  match t with
  | FU64 => '(n, r) <- dec_uint b ;; Ok (OU n, r)
  | FBytes => '(v, r) <- dec_buffer b ;; Ok (OB v, r)
  | FNodes => '(l, r) <- dec_nodes b ;; Ok (ONs l, r)
  | FHash32 => '(h, r) <- dec_fixed 32 b ;; Ok (OH h, r)
  | FStrings => '(_, r) <- dec_strings b ;; Ok (OStrs, r)
  | FRec name =>
      if name =? "Manifest" then '(ns, pk, r) <- dec_manifest b ;; Ok (OManifest ns pk, r)
      else if name =? "PartialKeypair" then '(k, r) <- dec_keypair b ;; Ok (OKeypair k, r)
      else if name =? "HeaderTree" then '(t, r) <- dec_header_tree b ;; Ok (OTree t, r)
      else if name =? "HeaderHints" then '(c, r) <- dec_hints b ;; Ok (OHints c, r)
      else Panic MISMATCH
  | FOther _ => Panic MISMATCH
  end.

Fixpoint ogenc (fs : list (string * fty)) (e : oenv) : res bytes :=
  match fs with
  | [] => Ok []
  | (name, t) :: r => a <- oenc_field t (e name) ;; b <- ogenc r e ;; Ok (a ++ b)%list
  end.

Fixpoint ogsize (fs : list (string * fty)) (e : oenv) : res N :=
  match fs with
  | [] => Ok 0%N
  | (name, t) :: r => a <- osize_field t (e name) ;; b <- ogsize r e ;; Ok (a + b)%N
  end.

Fixpoint ogdec (ts : list fty) (names : list string) (b : bytes) : res (list (string * oval) * bytes) :=
  match ts, names with
  | [], [] => Ok ([], b)
  | t :: ts', name :: names' =>
      '(v, r) <- odec_field t b ;; '(l, r') <- ogdec ts' names' r ;; Ok ((name, v) :: l, r')
  | _, _ => Panic MISMATCH
  end.

Fixpoint olookup (l : list (string * oval)) (name : string) : option oval :=
  match l with
  | [] => None
  | (k, v) :: r => if name =? k then Some v else olookup r name
  end.

Definition ofinish {A} (build : oenv -> option A) (l : list (string * oval)) (r : bytes) : res (A * bytes) :=
  match build (olookup l) with Some x => Ok (x, r) | None => Panic MISMATCH end.

Definition ogdecode {A} (build : oenv -> option A) (ts : list fty) (names : list string) (b : bytes) : res (A * bytes) :=
  '(l, r) <- ogdec ts names b ;; ofinish build l r.

(* ---------- Entry: a flag byte, then the sections that are present ---------- *)

(* `!self.f.is_empty()` for a vector, `if let Some(x) = &self.f` for an option *)
Definition sec_present (v : option oval) : res bool :=
  match v with
  | Some (ONs l) => Ok (match l with [] => false | _ => true end)
  | Some OStrs => Ok false
  | Some (OOptTU o) => Ok (match o with Some _ => true | None => false end)
  | Some (OOptBU o) => Ok (match o with Some _ => true | None => false end)
  | _ => Panic MISMATCH
  end.

Definition sec_enc (t : fty) (v : option oval) : res bytes :=
  match t, v with
  | FNodes, Some (ONs l) => enc_nodes l
  | FRec name, Some (OOptTU (Some u)) => if name =? "EntryTreeUpgrade" then Ok (enc_tree_upgrade u) else Panic MISMATCH
  | FRec name, Some (OOptBU (Some u)) => if name =? "BitfieldUpdate" then Ok (enc_bf_update u) else Panic MISMATCH
  | _, _ => Panic MISMATCH
  end.

Definition sec_dec (t : fty) (b : bytes) : res (oval * bytes) :=
  match t with
  | FStrings => '(_, r) <- dec_strings b ;; Ok (OStrs, r)
  | FNodes => '(l, r) <- dec_nodes b ;; Ok (ONs l, r)
  | FRec name =>
      if name =? "EntryTreeUpgrade" then '(u, r) <- dec_tree_upgrade b ;; Ok (OOptTU (Some u), r)
      else if name =? "BitfieldUpdate" then '(u, r) <- dec_bf_update b ;; Ok (OOptBU (Some u), r)
      else Panic MISMATCH
  | _ => Panic MISMATCH
  end.

(* Default::default() *)
Definition sec_default (t : fty) : res oval :=
  match t with
  | FStrings => Ok OStrs
  | FNodes => Ok (ONs [])
  | FRec name =>
      if name =? "EntryTreeUpgrade" then Ok (OOptTU None)
      else if name =? "BitfieldUpdate" then Ok (OOptBU None) else Panic MISMATCH
  | _ => Panic MISMATCH
  end.

(* encode: `flags |= bit` for every section that is present *)
Fixpoint oflags (l : list (string * N * fty)) (e : oenv) : res N :=
  match l with
  | [] => Ok 0%N
  | (name, bit, _) :: r => p <- sec_present (e name) ;; f <- oflags r e ;; Ok (if p then N.lor bit f else f)
  end.

(* encode: the sections that are present, in order *)
Fixpoint obody (l : list (string * N * fty)) (e : oenv) : res bytes :=
  match l with
  | [] => Ok []
  | (name, _, t) :: r =>
      p <- sec_present (e name) ;;
      a <- (if p then sec_enc t (e name) else Ok []) ;;
      b <- obody r e ;; Ok (a ++ b)%list
  end.

Definition oenc_flagged (l : list (string * N * fty)) (e : oenv) : res bytes :=
  f <- oflags l e ;; b <- obody l e ;; Ok ([f] ++ b)%list.

(* the bit test of decode: `flags & bit != 0` *)
Definition flag_set (flags bit : N) : bool := negb (N.land flags bit =? 0)%N.

(* decode: every section in order, read when its bit is set, the default otherwise *)
Fixpoint osecs_dec (l : list (string * N * fty)) (flags : N) (b : bytes) : res (list (string * oval) * bytes) :=
  match l with
  | [] => Ok ([], b)
  | (name, bit, t) :: r =>
      '(v, b1) <- (if flag_set flags bit then sec_dec t b else d <- sec_default t ;; Ok (d, b)) ;;
      '(rest, b2) <- osecs_dec r flags b1 ;; Ok ((name, v) :: rest, b2)
  end.

Definition odec_flagged {A} (build : oenv -> option A) (l : list (string * N * fty)) (b : bytes) : res (A * bytes) :=
  '(flags, r) <- dec_byte b ;; '(vs, r') <- osecs_dec l flags r ;; ofinish build vs r'.

(* encoded_size: the sections that are present *)
Fixpoint osecs_size (l : list (string * fty)) (e : oenv) : res N :=
  match l with
  | [] => Ok 0%N
  | (name, t) :: r =>
      p <- sec_present (e name) ;;
      a <- (if p then x <- sec_enc t (e name) ;; Ok (len x) else Ok 0%N) ;;
      b <- osecs_size r e ;; Ok (a + b)%N
  end.

(* ---------- leading flag byte made of boolean fields (BitfieldUpdate) ---------- *)

Fixpoint oflagbyte (l : list (string * N)) (e : oenv) : res N :=
  match l with
  | [] => Ok 0%N
  | (name, v) :: r =>
      match e name with
      | Some (OBool p) => f <- oflagbyte r e ;; Ok (if p then N.lor v f else f)
      | _ => Panic MISMATCH
      end
  end.

Definition oflagvals (l : list (string * N)) (flags : N) : list (string * oval) :=
  map (fun '(name, mask) => (name, OBool (flag_set flags mask))) l.

(* ---------- the records of Oplog.v as environments (Rust field name -> value), and back ---------- *)

Definition env_tree_upgrade (u : tree_upgrade) : oenv := fun s =>
  if s =? "fork" then Some (OU (tu_fork u)) else if s =? "ancestors" then Some (OU (tu_ancestors u))
  else if s =? "length" then Some (OU (tu_length u)) else if s =? "signature" then Some (OB (tu_signature u)) else None.
Definition env_header_tree (t : header_tree) : oenv := fun s =>
  if s =? "fork" then Some (OU (ht_fork t)) else if s =? "length" then Some (OU (ht_length t))
  else if s =? "root_hash" then Some (OB (ht_root_hash t))
  else if s =? "signature" then Some (OB (ht_signature t)) else None.
Definition env_hints (c : N) : oenv := fun s =>
  if s =? "reorgs" then Some OStrs else if s =? "contiguous_length" then Some (OU c) else None.
Definition env_bf_update (u : bf_update) : oenv := fun s =>
  if s =? "drop" then Some (OBool (bu_drop u)) else if s =? "start" then Some (OU (bu_start u))
  else if s =? "length" then Some (OU (bu_length u)) else None.
Definition env_entry (e : entry) : oenv := fun s =>
  if s =? "user_data" then Some OStrs else if s =? "tree_nodes" then Some (ONs (e_nodes e))
  else if s =? "tree_upgrade" then Some (OOptTU (e_upgrade e))
  else if s =? "bitfield" then Some (OOptBU (e_bitfield e)) else None.
Definition env_header (h : header) : oenv := fun s =>
  if s =? "key" then Some (OH (hd_key h)) else if s =? "manifest" then Some (OManifest (hd_ns h) (hd_mpk h))
  else if s =? "key_pair" then Some (OKeypair (hd_keypair h)) else if s =? "user_data" then Some OStrs
  else if s =? "tree" then Some (OTree (hd_tree h)) else if s =? "hints" then Some (OHints (hd_contig h)) else None.

Definition build_tree_upgrade (e : oenv) : option tree_upgrade :=
  match e "fork", e "ancestors", e "length", e "signature" with
  | Some (OU f), Some (OU a), Some (OU l), Some (OB s) => Some (mkTreeUpgrade f a l s) | _, _, _, _ => None end.
Definition build_header_tree (e : oenv) : option header_tree :=
  match e "fork", e "length", e "root_hash", e "signature" with
  | Some (OU f), Some (OU l), Some (OB h), Some (OB s) => Some (mkHeaderTree f l h s) | _, _, _, _ => None end.
Definition build_hints (e : oenv) : option N :=
  match e "reorgs", e "contiguous_length" with Some OStrs, Some (OU c) => Some c | _, _ => None end.
Definition build_bf_update (e : oenv) : option bf_update :=
  match e "drop", e "start", e "length" with
  | Some (OBool d), Some (OU s), Some (OU l) => Some (mkBfUpdate d s l) | _, _, _ => None end.
Definition build_entry (e : oenv) : option entry :=
  match e "user_data", e "tree_nodes", e "tree_upgrade", e "bitfield" with
  | Some OStrs, Some (ONs l), Some (OOptTU u), Some (OOptBU b) => Some (mkEntry l u b) | _, _, _, _ => None end.
Definition build_header (e : oenv) : option header :=
  match e "key", e "manifest", e "key_pair", e "user_data", e "tree", e "hints" with
  | Some (OH k), Some (OManifest ns pk), Some (OKeypair kp), Some OStrs, Some (OTree t), Some (OHints c) =>
      Some (mkHeader k ns pk kp t c)
  | _, _, _, _, _, _ => None end.

Lemma build_env_tree_upgrade x : build_tree_upgrade (env_tree_upgrade x) = Some x. Proof. now destruct x. Qed.
Lemma build_env_header_tree x : build_header_tree (env_header_tree x) = Some x.   Proof. now destruct x. Qed.
Lemma build_env_hints x : build_hints (env_hints x) = Some x.                       Proof. reflexivity. Qed.
Lemma build_env_bf_update x : build_bf_update (env_bf_update x) = Some x.           Proof. now destruct x. Qed.
Lemma build_env_entry x : build_entry (env_entry x) = Some x.                       Proof. now destruct x. Qed.
Lemma build_env_header x : build_header (env_header x) = Some x.                    Proof. now destruct x. Qed.

(* ---------- bits ---------- *)

Lemma land_pow2 a n : N.land a (2 ^ n) = if N.testbit a n then (2 ^ n)%N else 0%N.
Proof.
  apply N.bits_inj. intros m. rewrite N.land_spec, N.pow2_bits_eqb.
  destruct (N.eqb_spec n m) as [->|Hnm].
  - destruct (N.testbit a m) eqn:E; [now rewrite N.pow2_bits_true | now rewrite N.bits_0].
  - rewrite Bool.andb_false_r. destruct (N.testbit a n); [|now rewrite N.bits_0].
    rewrite N.pow2_bits_eqb. symmetry. now apply N.eqb_neq.
Qed.

(* the model's [N.testbit flags k] is the source's [flags & 2^k != 0] *)
Lemma testbit_flag_set a n : N.testbit a n = flag_set a (2 ^ n).
Proof.
  unfold flag_set. rewrite land_pow2. destruct (N.testbit a n); [|reflexivity].
  assert (H : (2 ^ n <> 0)%N) by (apply N.pow_nonzero; discriminate).
  apply N.eqb_neq in H. now rewrite H.
Qed.
Lemma testbit0 a : N.testbit a 0 = flag_set a 1. Proof. exact (testbit_flag_set a 0). Qed.
Lemma testbit1 a : N.testbit a 1 = flag_set a 2. Proof. exact (testbit_flag_set a 1). Qed.
Lemma testbit2 a : N.testbit a 2 = flag_set a 4. Proof. exact (testbit_flag_set a 2). Qed.
Lemma testbit3 a : N.testbit a 3 = flag_set a 8. Proof. exact (testbit_flag_set a 3). Qed.
Lemma odd_flag_set a : N.odd a = flag_set a 1. Proof. rewrite <- N.bit0_odd. apply testbit0. Qed.

(* ---------- the tie ---------- *)

Definition tied_src {A} (src : option A) (P : A -> Prop) : Prop :=
  match src with Some d => P d | None => True end.
Definition tied_src2 {A B} (src1 : option A) (src2 : option B) (P : A -> B -> Prop) : Prop :=
  match src1, src2 with Some d, Some f => P d f | _, _ => True end.

(* a model codec whose encoder cannot fail (returns bytes) and that has no size function of its own *)
Definition is_ocodec {A} (envA : A -> oenv) (buildA : oenv -> option A)
  (enc : A -> bytes) (dec : bytes -> res (A * bytes)) (d : codec_desc) : Prop :=
  (forall x, Ok (enc x) = ogenc (cd_enc d) (envA x)) /\
  (forall x, Ok (len (enc x)) = ogsize (cd_size d) (envA x)) /\
  (forall b, dec b = ogdecode buildA (cd_dec_types d) (cd_ctor d) b) /\
  cd_dec_types d = map snd (cd_enc d) /\
  cd_ctor d = map fst (cd_enc d) /\
  cd_size d = cd_enc d.

(* BitfieldUpdate: flag byte, then the fields *)
Definition is_bf_update_codec (d : codec_desc) (f : flagbyte_desc) : Prop :=
  (forall u, Ok (enc_bf_update u) =
             (fl <- oflagbyte (fb_enc f) (env_bf_update u) ;; body <- ogenc (cd_enc d) (env_bf_update u) ;;
              Ok ([fl] ++ body)%list)) /\
  (forall u, Ok (len (enc_bf_update u)) = (s <- ogsize (cd_size d) (env_bf_update u) ;; Ok (fb_size f + s)%N)) /\
  (forall b, dec_bf_update b =
             ('(fl, r) <- dec_byte b ;; '(l, r') <- ogdec (cd_dec_types d) (cd_ctor d) r ;;
              ofinish build_bf_update (oflagvals (fb_dec f) fl ++ l)%list r')) /\
  fb_dec f = fb_enc f /\ fb_size f = 1%N /\
  cd_dec_types d = map snd (cd_enc d) /\ cd_ctor d = map fst (cd_enc d) /\ cd_size d = cd_enc d.

(* Entry: the same bit for the same section in entry_flags / enc_entry and in dec_entry *)
Definition is_entry_codec (d : flagged_desc) : Prop :=
  (forall e, Ok (entry_flags e) = oflags (fd_enc d) (env_entry e)) /\
  (forall e, enc_entry e = oenc_flagged (fd_enc d) (env_entry e)) /\
  (forall b, dec_entry b = odec_flagged build_entry (fd_dec d) b) /\
  (forall e b, enc_entry e = Ok b ->
               Ok (len b) = (s <- osecs_size (fd_size d) (env_entry e) ;; Ok (fd_size_lead d + s)%N)) /\
  fd_dec d = fd_enc d /\
  fd_size d = map (fun x => (fst (fst x), snd x)) (fd_enc d) /\
  fd_size_lead d = 1%N.

(* Header: leading bytes, then key and the fields *)
Definition is_header_codec (d : codec_desc) (l : lead_desc) : Prop :=
  (forall h, Ok (enc_header h) = (body <- ogenc (cd_enc d) (env_header h) ;; Ok (hl_bytes l ++ body)%list)) /\
  (forall b, dec_header b =
             ('(_, r) <- dec_fixed (N.to_nat (hl_dec_skip l)) b ;;
              ogdecode build_header (cd_dec_types d) (cd_ctor d) r)) /\
  hl_dec_skip l = len (hl_bytes l) /\ hl_size l = len (hl_bytes l) /\
  cd_dec_types d = map snd (cd_enc d) /\ cd_ctor d = map fst (cd_enc d) /\ cd_size d = cd_enc d.

(* ---------- proofs ---------- *)

Ltac crunch :=
  cbn;
  repeat (try reflexivity;
          match goal with
          | |- context [dec_uint ?r] => destruct (dec_uint r) as [[? ?]| | |]
          | |- context [dec_buffer ?r] => destruct (dec_buffer r) as [[? ?]| | |]
          | |- context [dec_nodes ?r] => destruct (dec_nodes r) as [[? ?]| | |]
          | |- context [dec_fixed ?n ?r] => destruct (dec_fixed n r) as [[? ?]| | |]
          | |- context [dec_byte ?r] => destruct (dec_byte r) as [[? ?]| | |]
          | |- context [dec_strings ?r] => destruct (dec_strings r) as [[? ?]| | |]
          | |- context [dec_manifest ?r] => destruct (dec_manifest r) as [[[? ?] ?]| | |]
          | |- context [dec_keypair ?r] => destruct (dec_keypair r) as [[? ?]| | |]
          | |- context [dec_header_tree ?r] => destruct (dec_header_tree r) as [[? ?]| | |]
          | |- context [dec_tree_upgrade ?r] => destruct (dec_tree_upgrade r) as [[? ?]| | |]
          | |- context [dec_bf_update ?r] => destruct (dec_bf_update r) as [[? ?]| | |]
          | |- context [enc_nodes ?l] => destruct (enc_nodes l)
          | |- context [flag_set ?a ?b] => destruct (flag_set a b)
          end; cbn).

Lemma len_nil : len [] = 0%N. Proof. reflexivity. Qed.

Ltac lens := repeat first [rewrite len_app | rewrite len_cons | rewrite len_nil | rewrite len_enc_uint | rewrite len_enc_buffer].

(* every proof has the form [first [exact I | ..]]: the description is either absent or tied *)

Lemma tie_tree_upgrade :
  tied_src src_EntryTreeUpgrade (is_ocodec env_tree_upgrade build_tree_upgrade enc_tree_upgrade dec_tree_upgrade).
Proof.
  unfold src_EntryTreeUpgrade, tied_src, is_ocodec;
  first [ exact I
        | cbn [cd_enc cd_size cd_dec_types cd_ctor]; split; [|split; [|split; [|repeat split]]];
          [ intros x; unfold enc_tree_upgrade; cbn; now rewrite ?app_nil_r
          | intros x; unfold enc_tree_upgrade; lens; cbn; f_equal; lia
          | intros b; unfold dec_tree_upgrade, ogdecode, ofinish; crunch ] ].
Qed.

Lemma tie_header_tree :
  tied_src src_HeaderTree (is_ocodec env_header_tree build_header_tree enc_header_tree dec_header_tree).
Proof.
  unfold src_HeaderTree, tied_src, is_ocodec;
  first [ exact I
        | cbn [cd_enc cd_size cd_dec_types cd_ctor]; split; [|split; [|split; [|repeat split]]];
          [ intros x; unfold enc_header_tree; cbn; now rewrite ?app_nil_r
          | intros x; unfold enc_header_tree; lens; cbn; f_equal; lia
          | intros b; unfold dec_header_tree, ogdecode, ofinish; crunch ] ].
Qed.

Lemma tie_hints :
  tied_src src_HeaderHints (is_ocodec env_hints build_hints enc_hints dec_hints).
Proof.
  unfold src_HeaderHints, tied_src, is_ocodec;
  first [ exact I
        | cbn [cd_enc cd_size cd_dec_types cd_ctor]; split; [|split; [|split; [|repeat split]]];
          [ intros x; unfold enc_hints; cbn; now rewrite ?app_nil_r
          | intros x; unfold enc_hints; lens; cbn; f_equal; lia
          | intros b; unfold dec_hints, ogdecode, ofinish; crunch ] ].
Qed.

Lemma tie_bf_update :
  tied_src2 src_BitfieldUpdate src_BitfieldUpdate_flag is_bf_update_codec.
Proof.
  unfold src_BitfieldUpdate, src_BitfieldUpdate_flag, tied_src2, is_bf_update_codec;
  first [ exact I
        | cbn [cd_enc cd_size cd_dec_types cd_ctor fb_enc fb_dec fb_size]; split; [|split; [|split; [|repeat split]]];
          [ intros u; unfold enc_bf_update; cbn; destruct (bu_drop u); cbn; now rewrite ?app_nil_r
          | intros u; unfold enc_bf_update; lens; cbn; f_equal; lia
          | intros b; unfold dec_bf_update, ofinish, oflagvals;
            destruct (dec_byte b) as [[fl r]| | |]; cbn; try reflexivity; rewrite odd_flag_set; crunch ] ].
Qed.

Lemma tie_entry : tied_src src_Entry is_entry_codec.
Proof.
  unfold src_Entry, tied_src, is_entry_codec;
  first [ exact I
        | cbn [fd_enc fd_dec fd_size fd_size_lead]; split; [|split; [|split; [|split; [|repeat split]]]];
          [ intros [ns up bu]; unfold entry_flags; destruct ns, up, bu; reflexivity
          | intros [ns up bu]; unfold enc_entry, entry_flags, oenc_flagged;
            destruct ns as [|n ns], up, bu; cbn; try (destruct (enc_nodes (n :: ns)); cbn); rewrite ?app_nil_r; reflexivity
          | intros b; unfold dec_entry, odec_flagged, ofinish;
            destruct (dec_byte b) as [[fl r]| | |]; cbn; try reflexivity;
            rewrite testbit0, testbit1, testbit2, testbit3; crunch
          | intros [ns up bu] b; unfold enc_entry, entry_flags;
            destruct ns as [|n ns], up, bu; cbn; try (destruct (enc_nodes (n :: ns)); cbn);
            intros H; inversion H; subst; clear H; lens; f_equal; lia ] ].
Qed.

Lemma tie_header : tied_src2 src_Header src_Header_lead is_header_codec.
Proof.
  unfold src_Header, src_Header_lead, tied_src2, is_header_codec;
  first [ exact I
        | cbn [cd_enc cd_size cd_dec_types cd_ctor hl_bytes hl_dec_skip hl_size]; split; [|split; [|repeat split]];
          [ intros h; unfold enc_header; cbn; unfold enc_manifest, enc_hints;
            repeat rewrite <- app_assoc; cbn; rewrite ?app_nil_r; reflexivity
          | intros b; unfold dec_header, ogdecode, ofinish; change (N.to_nat 2) with 2%nat; cbn; unfold dec_hints; crunch ] ].
Qed.

(* ---------- non-vacuity: the interpreters distinguish what they should ---------- *)

Definition ex_entry : entry :=
  mkEntry [mkNode 4 10 (repeat 7 32)] (Some (mkTreeUpgrade 0 0 3 (repeat 9 64))) (Some (mkBfUpdate true 2 1)).

(* real bytes, and all three interpretations agree with the model on a concrete entry / header *)
Example oplog_interp_ex :
  enc_entry ex_entry =
    Ok ([14] ++ [1; 4; 10] ++ repeat 7 32 ++ [0; 0; 3; 64] ++ repeat 9 64 ++ [1; 2; 1])%list
  /\ oenc_flagged [("user_data", 1, FStrings); ("tree_nodes", 2, FNodes); ("tree_upgrade", 4, FRec "EntryTreeUpgrade");
                   ("bitfield", 8, FRec "BitfieldUpdate")]%N (env_entry ex_entry) = enc_entry ex_entry
  /\ odec_flagged build_entry
       [("user_data", 1, FStrings); ("tree_nodes", 2, FNodes); ("tree_upgrade", 4, FRec "EntryTreeUpgrade");
        ("bitfield", 8, FRec "BitfieldUpdate")]%N
       ([14] ++ [1; 4; 10] ++ repeat 7 32 ++ [0; 0; 3; 64] ++ repeat 9 64 ++ [1; 2; 1] ++ [77])%list = Ok (ex_entry, [77])
  /\ ogenc [("fork", FU64); ("length", FU64); ("root_hash", FBytes); ("signature", FBytes)]
        (env_header_tree (mkHeaderTree 1 300 [5; 6] [])) = Ok [1; 253; 44; 1; 2; 5; 6; 0]
  /\ ogsize [("fork", FU64); ("length", FU64); ("root_hash", FBytes); ("signature", FBytes)]
        (env_header_tree (mkHeaderTree 1 300 [5; 6] [])) = Ok 8%N.
Proof. repeat split; vm_compute; reflexivity. Qed.

(* the repaired defect D1 — decode testing `flags & 2` for the tree_upgrade section — is not a decoder of the model:
   the entry [2; 0] (flag byte 2 = nodes present, zero nodes) would be read as having an upgrade *)
Example d1_wrong_decode_bit_refuted :
  ~ (forall b, dec_entry b =
       odec_flagged build_entry
         [("user_data", 1, FStrings); ("tree_nodes", 2, FNodes); ("tree_upgrade", 2, FRec "EntryTreeUpgrade");
          ("bitfield", 8, FRec "BitfieldUpdate")]%N b).
Proof. intros H. specialize (H [2; 0]%N). vm_compute in H. discriminate H. Qed.

(* ... nor is an encoder that announces the upgrade with bit 2 *)
Example wrong_encode_bit_refuted :
  ~ (forall e, Ok (entry_flags e) =
       oflags [("user_data", 1, FStrings); ("tree_nodes", 2, FNodes); ("tree_upgrade", 2, FRec "EntryTreeUpgrade");
               ("bitfield", 8, FRec "BitfieldUpdate")]%N (env_entry e)).
Proof. intros H. specialize (H ex_entry). vm_compute in H. discriminate H. Qed.

(* another version byte is not the model's header *)
Example version_byte_refuted :
  ~ is_header_codec
      {| cd_size := []; cd_dec_types := []; cd_ctor := [];
         cd_enc := [("key", FHash32); ("manifest", FRec "Manifest"); ("key_pair", FRec "PartialKeypair");
                    ("user_data", FStrings); ("tree", FRec "HeaderTree"); ("hints", FRec "HeaderHints")] |}
      {| hl_bytes := [0; 6]%N; hl_dec_skip := 2; hl_size := 2 |}.
Proof.
  intros [H _]. specialize (H (header_new (mkKeypair (repeat 1%N 32) None))). vm_compute in H. discriminate H.
Qed.

(* root_hash and signature of HeaderTree written in the other order: not the model's encoder *)
Example header_tree_swap_refuted :
  ~ (forall t, Ok (enc_header_tree t) =
       ogenc [("fork", FU64); ("length", FU64); ("signature", FBytes); ("root_hash", FBytes)] (env_header_tree t)).
Proof. intros H. specialize (H (mkHeaderTree 0 0 [1%N] [])). vm_compute in H. discriminate H. Qed.

(* an unknown field / type / nested record is never an encoder of the model *)
Example oplog_mismatch_is_panic :
  ogenc [("nope", FU64)] (env_hints 0) = Panic MISMATCH
  /\ ogenc [("reorgs", FU64)] (env_hints 0) = Panic MISMATCH
  /\ ogenc [("hints", FRec "HeaderTree")] (env_header (header_new (mkKeypair [] None))) = Panic MISMATCH
  /\ oflags [("tree_nodes", 2%N, FNodes); ("nope", 4%N, FNodes)] (env_entry ex_entry) = Panic MISMATCH.
Proof. repeat split; vm_compute; reflexivity. Qed.

(* the defining equations of the interpreters, in one statement (pinned in props/C06.v) *)
Lemma oplog_interpreter_spec :
  (forall flags bit, flag_set flags bit = negb (N.land flags bit =? 0)%N) /\
  (forall a k, N.testbit a k = flag_set a (2 ^ k)) /\
  (forall e, ogenc [] e = Ok [] /\ ogsize [] e = Ok 0%N /\ oflags [] e = Ok 0%N /\ obody [] e = Ok [] /\
             oflagbyte [] e = Ok 0%N) /\
  (forall name t r e,
     ogenc ((name, t) :: r) e = (a <- oenc_field t (e name) ;; b <- ogenc r e ;; Ok (a ++ b)%list) /\
     ogsize ((name, t) :: r) e = (a <- osize_field t (e name) ;; b <- ogsize r e ;; Ok (a + b)%N)) /\
  (forall name bit t r e,
     oflags ((name, bit, t) :: r) e =
       (p <- sec_present (e name) ;; f <- oflags r e ;; Ok (if p then N.lor bit f else f)) /\
     obody ((name, bit, t) :: r) e =
       (p <- sec_present (e name) ;; a <- (if p then sec_enc t (e name) else Ok []) ;; b <- obody r e ;;
        Ok (a ++ b)%list)) /\
  (forall l e, oenc_flagged l e = (f <- oflags l e ;; b <- obody l e ;; Ok ([f] ++ b)%list)) /\
  (forall flags b, osecs_dec [] flags b = Ok ([], b)) /\
  (forall name bit t r flags b,
     osecs_dec ((name, bit, t) :: r) flags b =
       ('(v, b1) <- (if flag_set flags bit then sec_dec t b else d <- sec_default t ;; Ok (d, b)) ;;
        '(rest, b2) <- osecs_dec r flags b1 ;; Ok ((name, v) :: rest, b2))) /\
  (forall A (build : oenv -> option A) l b,
     odec_flagged build l b = ('(flags, r) <- dec_byte b ;; '(vs, r') <- osecs_dec l flags r ;; ofinish build vs r')) /\
  (forall l, sec_present (Some (ONs l)) = Ok (match l with [] => false | _ => true end)) /\
  (forall o, sec_present (Some (OOptTU o)) = Ok (match o with Some _ => true | None => false end)) /\
  (forall o, sec_present (Some (OOptBU o)) = Ok (match o with Some _ => true | None => false end)) /\
  sec_present (Some OStrs) = Ok false /\
  (forall l, sec_enc FNodes (Some (ONs l)) = enc_nodes l) /\
  (forall u, sec_enc (FRec "EntryTreeUpgrade") (Some (OOptTU (Some u))) = Ok (enc_tree_upgrade u)) /\
  (forall u, sec_enc (FRec "BitfieldUpdate") (Some (OOptBU (Some u))) = Ok (enc_bf_update u)) /\
  (forall n, oenc_field FU64 (Some (OU n)) = Ok (enc_uint n)) /\
  (forall v, oenc_field FBytes (Some (OB v)) = Ok (enc_buffer v)) /\
  (forall h, oenc_field FHash32 (Some (OH h)) = Ok h) /\
  oenc_field FStrings (Some OStrs) = Ok [0%N] /\
  (forall ns pk, oenc_field (FRec "Manifest") (Some (OManifest ns pk)) = Ok ([0; 0; 1] ++ [0] ++ ns ++ pk)%list%N) /\
  (forall k, oenc_field (FRec "PartialKeypair") (Some (OKeypair k)) = Ok (enc_keypair k)) /\
  (forall t, oenc_field (FRec "HeaderTree") (Some (OTree t)) = Ok (enc_header_tree t)) /\
  (forall c, oenc_field (FRec "HeaderHints") (Some (OHints c)) = Ok ([0%N] ++ enc_uint c)%list) /\
  (forall t, oenc_field t None = Panic MISMATCH) /\
  (forall s v, oenc_field (FOther s) v = Panic MISMATCH) /\
  (forall x, build_tree_upgrade (env_tree_upgrade x) = Some x) /\
  (forall x, build_header_tree (env_header_tree x) = Some x) /\
  (forall x, build_hints (env_hints x) = Some x) /\
  (forall x, build_bf_update (env_bf_update x) = Some x) /\
  (forall x, build_entry (env_entry x) = Some x) /\
  (forall x, build_header (env_header x) = Some x).
Proof.
  repeat match goal with |- _ /\ _ => split end; intros;
    try reflexivity;
    try (repeat split; reflexivity);
    try apply testbit_flag_set;
    try (destruct t; reflexivity);
    try (destruct v as [[]|]; reflexivity);
    auto using build_env_tree_upgrade, build_env_header_tree, build_env_hints, build_env_bf_update, build_env_entry,
      build_env_header.
Qed.

Theorem source_oplog_codecs_are_the_models :
  tied_src src_EntryTreeUpgrade (is_ocodec env_tree_upgrade build_tree_upgrade enc_tree_upgrade dec_tree_upgrade) /\
  tied_src src_HeaderTree (is_ocodec env_header_tree build_header_tree enc_header_tree dec_header_tree) /\
  tied_src src_HeaderHints (is_ocodec env_hints build_hints enc_hints dec_hints) /\
  tied_src2 src_BitfieldUpdate src_BitfieldUpdate_flag is_bf_update_codec /\
  tied_src src_Entry is_entry_codec /\
  tied_src2 src_Header src_Header_lead is_header_codec.
Proof.
  exact (conj tie_tree_upgrade (conj tie_header_tree (conj tie_hints (conj tie_bf_update (conj tie_entry tie_header))))).
Qed.
Print Assumptions source_oplog_codecs_are_the_models.
Print Assumptions oplog_interpreter_spec.
